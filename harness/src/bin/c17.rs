//! C17: typed control-message views (ICMPv4, ICMPv6, NDP payloads and options,
//! IGMP, ARP Ethernet/IPv4).  One line per case, textually equal to the model
//! part printed by ocaml/run_c17.ml.
use etherparse::err::{Layer, LenError};
use etherparse::*;
use vh::*;

fn main() {
    main_loop(run);
}

fn s_layer(l: Layer) -> &'static str {
    match l {
        Layer::Icmpv4 => "I4",
        Layer::Icmpv4Timestamp => "I4T",
        Layer::Icmpv4TimestampReply => "I4TR",
        Layer::Icmpv6 => "I6",
        Layer::Igmp => "IG",
        Layer::Arp => "ARP",
        _ => "OTHER",
    }
}

fn s_src(s: LenSource) -> &'static str {
    match s {
        LenSource::Slice => "S",
        LenSource::ArpAddrLengths => "A",
        _ => "OTHER",
    }
}

fn s_err(e: &LenError) -> String {
    format!(
        "E:{},{},{},{},{}",
        e.required_len,
        e.len,
        s_src(e.len_source),
        s_layer(e.layer),
        e.layer_start_offset
    )
}

fn s_v4(t: &Icmpv4Type) -> String {
    use icmpv4::*;
    match t {
        Icmpv4Type::Unknown {
            type_u8,
            code_u8,
            bytes5to8: b,
        } => format!("Unk {} {} {} {} {} {}", type_u8, code_u8, b[0], b[1], b[2], b[3]),
        Icmpv4Type::EchoReply(h) => format!("EchoReply {} {}", h.id, h.seq),
        Icmpv4Type::DestinationUnreachable(h) => {
            use DestUnreachableHeader::*;
            let n = match h {
                Network => "Network".to_string(),
                Host => "Host".to_string(),
                Protocol => "Protocol".to_string(),
                Port => "Port".to_string(),
                FragmentationNeeded { next_hop_mtu } => format!("FragmentationNeeded {}", next_hop_mtu),
                SourceRouteFailed => "SourceRouteFailed".to_string(),
                NetworkUnknown => "NetworkUnknown".to_string(),
                HostUnknown => "HostUnknown".to_string(),
                Isolated => "Isolated".to_string(),
                NetworkProhibited => "NetworkProhibited".to_string(),
                HostProhibited => "HostProhibited".to_string(),
                TosNetwork => "TosNetwork".to_string(),
                TosHost => "TosHost".to_string(),
                FilterProhibited => "FilterProhibited".to_string(),
                HostPrecedenceViolation => "HostPrecedenceViolation".to_string(),
                PrecedenceCutoff => "PrecedenceCutoff".to_string(),
            };
            format!("DU {}", n)
        }
        Icmpv4Type::Redirect(h) => {
            let c = match h.code {
                RedirectCode::RedirectForNetwork => "Network",
                RedirectCode::RedirectForHost => "Host",
                RedirectCode::RedirectForTypeOfServiceAndNetwork => "TosNetwork",
                RedirectCode::RedirectForTypeOfServiceAndHost => "TosHost",
            };
            let g = h.gateway_internet_address;
            format!("Redirect {} {}.{}.{}.{}", c, g[0], g[1], g[2], g[3])
        }
        Icmpv4Type::EchoRequest(h) => format!("EchoRequest {} {}", h.id, h.seq),
        Icmpv4Type::TimeExceeded(c) => match c {
            TimeExceededCode::TtlExceededInTransit => "TE Ttl".to_string(),
            TimeExceededCode::FragmentReassemblyTimeExceeded => "TE Frag".to_string(),
        },
        Icmpv4Type::ParameterProblem(h) => match h {
            ParameterProblemHeader::PointerIndicatesError(p) => format!("PP Pointer {}", p),
            ParameterProblemHeader::MissingRequiredOption => "PP Missing".to_string(),
            ParameterProblemHeader::BadLength => "PP BadLength".to_string(),
        },
        Icmpv4Type::TimestampRequest(m) => format!(
            "TsReq {} {} {} {} {}",
            m.id, m.seq, m.originate_timestamp, m.receive_timestamp, m.transmit_timestamp
        ),
        Icmpv4Type::TimestampReply(m) => format!(
            "TsRep {} {} {} {} {}",
            m.id, m.seq, m.originate_timestamp, m.receive_timestamp, m.transmit_timestamp
        ),
    }
}

fn b01(b: bool) -> u8 {
    if b {
        1
    } else {
        0
    }
}

fn s_v6(t: &Icmpv6Type) -> String {
    use icmpv6::*;
    match t {
        Icmpv6Type::Unknown {
            type_u8,
            code_u8,
            bytes5to8: b,
        } => format!("Unk {} {} {} {} {} {}", type_u8, code_u8, b[0], b[1], b[2], b[3]),
        Icmpv6Type::DestinationUnreachable(c) => {
            use DestUnreachableCode::*;
            let n = match c {
                NoRoute => "NoRoute",
                Prohibited => "Prohibited",
                BeyondScope => "BeyondScope",
                Address => "Address",
                Port => "Port",
                SourceAddressFailedPolicy => "SourceAddressFailedPolicy",
                RejectRoute => "RejectRoute",
            };
            format!("DU {}", n)
        }
        Icmpv6Type::PacketTooBig { mtu } => format!("PTB {}", mtu),
        Icmpv6Type::TimeExceeded(c) => match c {
            TimeExceededCode::HopLimitExceeded => "TE HopLimit".to_string(),
            TimeExceededCode::FragmentReassemblyTimeExceeded => "TE Frag".to_string(),
        },
        Icmpv6Type::ParameterProblem(h) => {
            use ParameterProblemCode::*;
            let n = match h.code {
                ErroneousHeaderField => "ErroneousHeaderField",
                UnrecognizedNextHeader => "UnrecognizedNextHeader",
                UnrecognizedIpv6Option => "UnrecognizedIpv6Option",
                Ipv6FirstFragmentIncompleteHeaderChain => "Ipv6FirstFragmentIncompleteHeaderChain",
                SrUpperLayerHeaderError => "SrUpperLayerHeaderError",
                UnrecognizedNextHeaderByIntermediateNode => "UnrecognizedNextHeaderByIntermediateNode",
                ExtensionHeaderTooBig => "ExtensionHeaderTooBig",
                ExtensionHeaderChainTooLong => "ExtensionHeaderChainTooLong",
                TooManyExtensionHeaders => "TooManyExtensionHeaders",
                TooManyOptionsInExtensionHeader => "TooManyOptionsInExtensionHeader",
                OptionTooBig => "OptionTooBig",
            };
            format!("PP {} {}", n, h.pointer)
        }
        Icmpv6Type::EchoRequest(h) => format!("EchoRequest {} {}", h.id, h.seq),
        Icmpv6Type::EchoReply(h) => format!("EchoReply {} {}", h.id, h.seq),
        Icmpv6Type::RouterSolicitation => "RS".to_string(),
        Icmpv6Type::RouterAdvertisement(h) => format!(
            "RA {} {} {} {}",
            h.cur_hop_limit,
            b01(h.managed_address_config),
            b01(h.other_config),
            h.router_lifetime
        ),
        Icmpv6Type::NeighborSolicitation => "NS".to_string(),
        Icmpv6Type::NeighborAdvertisement(h) => {
            format!("NA {} {} {}", b01(h.router), b01(h.solicited), b01(h.r#override))
        }
        Icmpv6Type::Redirect => "Redirect".to_string(),
    }
}

fn s_pview(base: &[u8], r: &Result<icmpv6::Icmpv6PayloadSlice, LenError>) -> String {
    use icmpv6::Icmpv6PayloadSlice as P;
    match r {
        Err(e) => s_err(e),
        Ok(p) => match p {
            P::DestinationUnreachable(v) => {
                assert_eq!(v.slice().as_ptr(), v.invoking_packet().as_ptr());
                format!("DU all={}", off(base, v.slice()))
            }
            P::PacketTooBig(v) => format!("PTB all={}", off(base, v.slice())),
            P::TimeExceeded(v) => format!("TE all={}", off(base, v.slice())),
            P::ParameterProblem(v) => format!("PP all={}", off(base, v.slice())),
            P::EchoRequest(v) => format!("EchoRequest all={}", off(base, v.slice())),
            P::EchoReply(v) => {
                assert_eq!(v.slice().len(), v.data().len());
                format!("EchoReply all={}", off(base, v.slice()))
            }
            P::RouterSolicitation(v) => format!("RS opts={}", off(base, v.options())),
            P::RouterAdvertisement(v) => format!(
                "RA {} {} opts={}",
                v.reachable_time(),
                v.retrans_timer(),
                off(base, v.options())
            ),
            P::NeighborSolicitation(v) => format!(
                "NS {} opts={}",
                hex(&v.target_address().octets()),
                off(base, v.options())
            ),
            P::NeighborAdvertisement(v) => format!(
                "NA {} opts={}",
                hex(&v.target_address().octets()),
                off(base, v.options())
            ),
            P::Redirect(v) => format!(
                "Redirect {} {} opts={}",
                hex(&v.target_address().octets()),
                hex(&v.destination_address().octets()),
                off(base, v.options())
            ),
            P::Raw(v) => format!("Raw all={}", off(base, v)),
            _ => "OTHER".to_string(),
        },
    }
}

fn s_ndp_items(area: &[u8]) -> String {
    use icmpv6::*;
    let mut it = NdpOptionsIterator::from_slice(area);
    let mut out = String::new();
    let mut steps = 0usize;
    loop {
        // an iterator over n bytes that has not ended after n + 2 calls of next() does not
        // make progress (every item covers at least one byte; an error ends the iteration)
        if steps > area.len() + 2 {
            out.push_str("LOOP");
            break;
        }
        steps += 1;
        match it.next() {
            None => {
                out.push_str(&format!("end rest={}", it.rest().len()));
                break;
            }
            Some(Ok(o)) => {
                let s = match &o {
                    NdpOptionSlice::SourceLinkLayerAddress(v) => format!(
                        "SrcLL {} ll={}",
                        off(area, v.as_bytes()),
                        off(area, v.link_layer_address())
                    ),
                    NdpOptionSlice::TargetLinkLayerAddress(v) => format!(
                        "TgtLL {} ll={}",
                        off(area, v.as_bytes()),
                        off(area, v.link_layer_address())
                    ),
                    NdpOptionSlice::PrefixInformation(v) => {
                        let pi = v.prefix_information();
                        assert_eq!(pi.prefix_length, v.prefix_length());
                        assert_eq!(pi.valid_lifetime, v.valid_lifetime());
                        format!(
                            "Prefix {} pl={} L={} A={} v={} p={} pre={}",
                            off(area, v.as_bytes()),
                            v.prefix_length(),
                            b01(v.on_link()),
                            b01(v.autonomous_address_configuration()),
                            v.valid_lifetime(),
                            v.preferred_lifetime(),
                            hex(&v.prefix())
                        )
                    }
                    NdpOptionSlice::RedirectedHeader(v) => format!(
                        "Redir {} pkt={}",
                        off(area, v.as_bytes()),
                        off(area, v.redirected_packet())
                    ),
                    NdpOptionSlice::Mtu(v) => format!("Mtu {} mtu={}", off(area, v.as_bytes()), v.mtu()),
                    NdpOptionSlice::Unknown(v) => format!(
                        "Unknown {} ty={} data={}",
                        off(area, v.as_bytes()),
                        v.option_type().0,
                        off(area, v.data())
                    ),
                    _ => "OTHER".to_string(),
                };
                // the enum level accessors agree with the variant's
                assert_eq!(o.as_bytes().as_ptr(), {
                    match &o {
                        NdpOptionSlice::SourceLinkLayerAddress(v) => v.as_bytes().as_ptr(),
                        NdpOptionSlice::TargetLinkLayerAddress(v) => v.as_bytes().as_ptr(),
                        NdpOptionSlice::PrefixInformation(v) => v.as_bytes().as_ptr(),
                        NdpOptionSlice::RedirectedHeader(v) => v.as_bytes().as_ptr(),
                        NdpOptionSlice::Mtu(v) => v.as_bytes().as_ptr(),
                        NdpOptionSlice::Unknown(v) => v.as_bytes().as_ptr(),
                        _ => o.as_bytes().as_ptr(),
                    }
                });
                assert_eq!(o.option_type().0, o.as_bytes()[0]);
                out.push_str(&s);
                out.push_str(" ; ");
            }
            Some(Err(e)) => {
                use NdpOptionReadError::*;
                let s = match e {
                    UnexpectedEndOfSlice {
                        option_id,
                        expected_size,
                        actual_size,
                    } => format!("ERR EOS {} {} {}", option_id.0, expected_size, actual_size),
                    ZeroLength { option_id } => format!("ERR Zero {}", option_id.0),
                    UnexpectedSize {
                        option_id,
                        expected_size,
                        actual_size,
                    } => format!("ERR Size {} {} {}", option_id.0, expected_size, actual_size),
                    UnexpectedHeader {
                        expected_option_id,
                        actual_option_id,
                        expected_length_units,
                        actual_length_units,
                    } => format!(
                        "ERR Hdr {} {} {} {}",
                        expected_option_id.0, actual_option_id.0, expected_length_units, actual_length_units
                    ),
                    _ => "ERR OTHER".to_string(),
                };
                out.push_str(&s);
                out.push_str(" ; ");
            }
        }
    }
    out
}

// ---- audit1-c17 ----
// the typed NDP option slices constructed directly from arbitrary bytes
fn s_nerr_oc(e: &icmpv6::NdpOptionReadError) -> String {
    use icmpv6::NdpOptionReadError::*;
    match e {
        UnexpectedEndOfSlice {
            option_id,
            expected_size,
            actual_size,
        } => format!("ERR EOS {} {} {}", option_id.0, expected_size, actual_size),
        ZeroLength { option_id } => format!("ERR Zero {}", option_id.0),
        UnexpectedSize {
            option_id,
            expected_size,
            actual_size,
        } => format!("ERR Size {} {} {}", option_id.0, expected_size, actual_size),
        UnexpectedHeader {
            expected_option_id,
            actual_option_id,
            expected_length_units,
            actual_length_units,
        } => format!(
            "ERR Hdr {} {} {} {}",
            expected_option_id.0, actual_option_id.0, expected_length_units, actual_length_units
        ),
        #[allow(unreachable_patterns)]
        _ => "ERR OTHER".to_string(),
    }
}

fn s_opt_ctor(k: u8, bs: &[u8]) -> String {
    use icmpv6::*;
    match k {
        1 => match SourceLinkLayerAddressOptionSlice::from_slice(bs) {
            Ok(v) => format!("SrcLL {} ll={}", off(bs, v.as_bytes()), off(bs, v.link_layer_address())),
            Err(e) => s_nerr_oc(&e),
        },
        2 => match TargetLinkLayerAddressOptionSlice::from_slice(bs) {
            Ok(v) => format!("TgtLL {} ll={}", off(bs, v.as_bytes()), off(bs, v.link_layer_address())),
            Err(e) => s_nerr_oc(&e),
        },
        3 => {
            let r = PrefixInformationOptionSlice::from_slice(bs);
            // the owned decoder runs the same checks and decodes the same fields
            let o = PrefixInformation::from_slice(bs);
            match (&r, &o) {
                (Ok(v), Ok(pi)) => {
                    assert_eq!(*pi, v.prefix_information());
                    assert_eq!(pi.prefix_length, v.prefix_length());
                    assert_eq!(pi.on_link, v.on_link());
                    assert_eq!(pi.autonomous_address_configuration, v.autonomous_address_configuration());
                    assert_eq!(pi.valid_lifetime, v.valid_lifetime());
                    assert_eq!(pi.preferred_lifetime, v.preferred_lifetime());
                    assert_eq!(pi.prefix, v.prefix());
                }
                (Err(a), Err(b)) => assert_eq!(a, b),
                _ => panic!("PrefixInformationOptionSlice::from_slice and PrefixInformation::from_slice disagree"),
            }
            if let Ok(arr) = <[u8; 32]>::try_from(bs) {
                match (PrefixInformation::from_bytes(arr), &o) {
                    (Ok(a), Ok(b)) => assert_eq!(a, *b),
                    (Err(a), Err(b)) => assert_eq!(a, *b),
                    _ => panic!("PrefixInformation::from_bytes and from_slice disagree"),
                }
            }
            match r {
                Ok(v) => format!(
                    "Prefix {} pl={} L={} A={} v={} p={} pre={}",
                    off(bs, v.as_bytes()),
                    v.prefix_length(),
                    b01(v.on_link()),
                    b01(v.autonomous_address_configuration()),
                    v.valid_lifetime(),
                    v.preferred_lifetime(),
                    hex(&v.prefix())
                ),
                Err(e) => s_nerr_oc(&e),
            }
        }
        4 => match RedirectedHeaderOptionSlice::from_slice(bs) {
            Ok(v) => format!("Redir {} pkt={}", off(bs, v.as_bytes()), off(bs, v.redirected_packet())),
            Err(e) => s_nerr_oc(&e),
        },
        5 => match MtuOptionSlice::from_slice(bs) {
            Ok(v) => format!("Mtu {} mtu={}", off(bs, v.as_bytes()), v.mtu()),
            Err(e) => s_nerr_oc(&e),
        },
        _ => match UnknownNdpOptionSlice::from_slice(bs) {
            Ok(v) => format!(
                "Unknown {} ty={} data={}",
                off(bs, v.as_bytes()),
                v.option_type().0,
                off(bs, v.data())
            ),
            Err(e) => s_nerr_oc(&e),
        },
    }
}
// ---- end audit1-c17 ----

fn s_ga(g: [u8; 4]) -> String {
    format!("{}.{}.{}.{}", g[0], g[1], g[2], g[3])
}

fn run(line: &str) -> String {
    let mut it = line.split_whitespace();
    let tag = it.next().unwrap();
    match tag {
        "i4" => {
            let bs = unhex(it.next().unwrap());
            match Icmpv4Slice::from_slice(&bs) {
                Err(e) => s_err(&e),
                Ok(s) => {
                    let ty = s.icmp_type();
                    let h = s.header();
                    assert_eq!(h.icmp_type, ty);
                    assert_eq!(ty.header_len(), s.header_len());
                    assert_eq!(s.slice().len(), bs.len());
                    format!("{} hl={} pl={}", s_v4(&ty), s.header_len(), off(&bs, s.payload()))
                }
            }
        }
        "i6" => {
            let bs = unhex(it.next().unwrap());
            match Icmpv6Slice::from_slice(&bs) {
                Err(e) => s_err(&e),
                Ok(s) => {
                    let ty = s.icmp_type();
                    assert_eq!(s.header().icmp_type, ty);
                    assert_eq!(ty.type_u8(), s.type_u8());
                    assert_eq!(ty.code_u8(), s.code_u8());
                    format!("{} pl={}", s_v6(&ty), off(&bs, s.payload()))
                }
            }
        }
        "p6" => {
            let bs = unhex(it.next().unwrap());
            match Icmpv6Slice::from_slice(&bs) {
                Err(e) => format!("{} ; {}", s_err(&e), s_err(&e)),
                Ok(s) => {
                    let a = s.payload_slice();
                    let b = icmpv6::Icmpv6PayloadSlice::from_slice(&s.icmp_type(), s.payload());
                    if let Ok(p) = &a {
                        assert_eq!(p.slice().as_ptr(), s.payload().as_ptr());
                        assert_eq!(p.slice().len(), s.payload().len());
                    }
                    format!("{} ; {}", s_pview(&bs, &a), s_pview(&bs, &b))
                }
            }
        }
        "no" => {
            let bs = unhex(it.next().unwrap());
            s_ndp_items(&bs)
        }
        "ig" => {
            let bs = unhex(it.next().unwrap());
            match IgmpHeader::from_slice(&bs) {
                Err(e) => s_err(&e),
                Ok((h, rest)) => {
                    let t = match &h.igmp_type {
                        IgmpType::MembershipQuery(q) => {
                            format!("Query {} {}", q.max_response_time, s_ga(q.group_address.octets))
                        }
                        IgmpType::MembershipQueryWithSources(q) => format!(
                            "QueryV3 {} {} {} {} {} t10={} fl={} s={} qrv={}",
                            q.max_response_code.0,
                            s_ga(q.group_address.octets),
                            q.raw_byte_8,
                            q.qqic,
                            q.num_of_sources,
                            q.max_response_code.as_10th_secs(),
                            q.flags(),
                            b01(q.s_flag()),
                            q.qrv().value()
                        ),
                        IgmpType::MembershipReportV1(r) => format!("ReportV1 {}", s_ga(r.group_address.octets)),
                        IgmpType::MembershipReportV2(r) => format!("ReportV2 {}", s_ga(r.group_address.octets)),
                        IgmpType::MembershipReportV3(r) => {
                            format!("ReportV3 {} {} {}", r.flags[0], r.flags[1], r.num_of_records)
                        }
                        IgmpType::LeaveGroup(r) => format!("Leave {}", s_ga(r.group_address.octets)),
                        IgmpType::Unknown(u) => format!(
                            "Unk {} {} {} {} {} {}",
                            u.igmp_type,
                            u.raw_byte_1,
                            u.raw_bytes_4_7[0],
                            u.raw_bytes_4_7[1],
                            u.raw_bytes_4_7[2],
                            u.raw_bytes_4_7[3]
                        ),
                    };
                    format!("{} ck={} hl={} rest={}", t, h.checksum, h.header_len(), off(&bs, rest))
                }
            }
        }
        "gr" => {
            let bs = unhex(it.next().unwrap());
            match igmp::ReportGroupRecordV3Header::from_slice(&bs) {
                Err(e) => s_err(&e),
                Ok((g, rest)) => format!(
                    "GR {} {} {} {} rest={}",
                    g.record_type.0,
                    g.aux_data_len,
                    g.num_of_sources,
                    s_ga(g.multicast_address),
                    off(&bs, rest)
                ),
            }
        }
        "mr" => {
            let c: u8 = it.next().unwrap().parse().unwrap();
            let q = igmp::MembershipQueryWithSourcesHeader {
                max_response_code: igmp::MaxResponseCode(c),
                group_address: [0, 0, 0, 0].into(),
                raw_byte_8: c,
                qqic: 0,
                num_of_sources: 0,
            };
            format!(
                "t10={} fl={} s={} qrv={}",
                q.max_response_code.as_10th_secs(),
                q.flags(),
                b01(q.s_flag()),
                q.qrv().value()
            )
        }
        "arp" => {
            let bs = unhex(it.next().unwrap());
            let view = match ArpPacketSlice::from_slice(&bs) {
                Err(e) => s_err(&e),
                Ok(s) => {
                    let a = |x: &[u8]| format!("{}:{}", off(s.slice(), x), hex(x));
                    assert_eq!(s.slice().as_ptr(), bs.as_ptr());
                    format!(
                        "len={} hw={} pt={} hs={} ps={} op={} shw={} sp={} thw={} tp={}",
                        s.slice().len(),
                        s.hw_addr_type().0,
                        s.proto_addr_type().0,
                        s.hw_addr_size(),
                        s.proto_addr_size(),
                        s.operation().0,
                        a(s.sender_hw_addr()),
                        a(s.sender_protocol_addr()),
                        a(s.target_hw_addr()),
                        a(s.target_protocol_addr())
                    )
                }
            };
            let eth = match ArpPacket::from_slice(&bs) {
                Err(e) => s_err(&e),
                Ok(p) => {
                    use err::arp::ArpEthIpv4FromError::*;
                    let r = p.try_eth_ipv4();
                    let r2: Result<ArpEthIpv4Packet, _> = ArpEthIpv4Packet::try_from(p.clone());
                    assert_eq!(r, r2);
                    // the view reached through the slice is the same
                    if let Ok(s) = ArpPacketSlice::from_slice(&bs) {
                        assert_eq!(s.to_packet().try_eth_ipv4(), r);
                    }
                    match r {
                        Ok(e) => format!(
                            "eth {} {} {} {} {}",
                            e.operation.0,
                            hex(&e.sender_mac),
                            hex(&e.sender_ipv4),
                            hex(&e.target_mac),
                            hex(&e.target_ipv4)
                        ),
                        Err(NonMatchingHwType(t)) => format!("ethE HwType {}", t.0),
                        Err(NonMatchingProtocolType(t)) => format!("ethE ProtoType {}", t.0),
                        Err(NonMatchingHwAddrSize(n)) => format!("ethE HwSize {}", n),
                        Err(NonMatchingProtoAddrSize(n)) => format!("ethE ProtoSize {}", n),
                    }
                }
            };
            format!("{} ; {}", view, eth)
        }
        // ---- audit1-c17 ----
        "oc" => {
            let k: u8 = it.next().unwrap().parse().unwrap();
            let bs = unhex(it.next().unwrap());
            s_opt_ctor(k, &bs)
        }
        // ---- end audit1-c17 ----
        _ => panic!("bad c17 tag {}", tag),
    }
}
