//! C01 (accessor windows): SlicedPacket::{from_ethernet, from_linux_sll,
//! from_ether_type, from_ip} on arbitrary bytes, then every sub-slice stored in
//! the result or returned by an accessor of a component, as `off+len` relative
//! to the input, in the order of `SlicedPacketA.windows` (coq/theories/Parse/Access.v).
//! Entries `leth`, `lip`, `let:<n>`: the same for LaxSlicedPacket::{from_ethernet, from_ip,
//! from_ether_type} in the order of `LaxSlicedPacketA.windows` (Parse/LaxAccess.v), the
//! last window being LaxSlicedPacket::ether_payload(); vlan_ids() is called as well.
use etherparse::*;
use vh::*;

fn main() {
    main_loop(run);
}

fn run(line: &str) -> String {
    let mut it = line.split_whitespace();
    let entry = it.next().unwrap();
    let data = unhex(it.next().unwrap());
    if entry.starts_with('l') {
        return run_lax(entry, &data);
    }
    if entry.starts_with('p') {
        return run_pkt(entry, &data);
    }
    let r = if entry == "eth" {
        SlicedPacket::from_ethernet(&data)
    } else if entry == "sll" {
        SlicedPacket::from_linux_sll(&data)
    } else if entry == "ip" {
        SlicedPacket::from_ip(&data)
    } else if let Some(et) = entry.strip_prefix("et:") {
        SlicedPacket::from_ether_type(EtherType(et.parse().unwrap()), &data)
    } else {
        panic!("bad entry {}", entry)
    };
    let p = match r {
        Ok(p) => p,
        Err(_) => return "err".to_string(),
    };
    let base: &[u8] = &data;
    let mut w: Vec<String> = Vec::new();
    let mut put = |s: &[u8]| w.push(off(base, s));
    match &p.link {
        Some(LinkSlice::Ethernet2(e)) => {
            put(e.slice());
            put(e.header_slice());
            put(e.payload_slice());
        }
        Some(LinkSlice::LinuxSll(s)) => {
            put(s.header_slice());
            put(s.slice());
            put(s.sender_address());
            put(s.payload_slice());
        }
        Some(LinkSlice::EtherPayload(e)) => put(e.payload),
        Some(LinkSlice::LinuxSllPayload(e)) => put(e.payload),
        None => {}
    }
    for x in p.link_exts.iter() {
        match x {
            LinkExtSlice::Vlan(v) => {
                put(v.slice());
                put(v.header_slice());
                put(v.payload_slice());
            }
            LinkExtSlice::Macsec(m) => {
                put(m.header.slice());
                match &m.payload {
                    MacsecPayloadSlice::Unmodified(e) => put(e.payload),
                    MacsecPayloadSlice::Modified(s) => put(s),
                }
            }
        }
    }
    match &p.net {
        Some(NetSlice::Ipv4(v)) => {
            put(v.header().slice());
            put(v.payload().payload);
            if let Some(a) = v.extensions().auth {
                put(a.slice());
            }
            put(v.header().options());
            if let Some(a) = v.extensions().auth {
                put(a.raw_icv());
            }
        }
        Some(NetSlice::Ipv6(v)) => {
            put(v.header().slice());
            put(v.extensions().slice());
            put(v.payload().payload);
            for e in v.extensions().clone().into_iter() {
                match e {
                    Ipv6ExtensionSlice::HopByHop(r) => put(r.slice()),
                    Ipv6ExtensionSlice::Routing(r) => put(r.slice()),
                    Ipv6ExtensionSlice::DestinationOptions(r) => put(r.slice()),
                    Ipv6ExtensionSlice::Fragment(f) => put(f.slice()),
                    Ipv6ExtensionSlice::Authentication(a) => put(a.slice()),
                }
            }
            for e in v.extensions().clone().into_iter() {
                match e {
                    Ipv6ExtensionSlice::HopByHop(r) => put(r.payload()),
                    Ipv6ExtensionSlice::Routing(r) => put(r.payload()),
                    Ipv6ExtensionSlice::DestinationOptions(r) => put(r.payload()),
                    Ipv6ExtensionSlice::Fragment(_) => {}
                    Ipv6ExtensionSlice::Authentication(a) => put(a.raw_icv()),
                }
            }
        }
        Some(NetSlice::Arp(a)) => {
            put(a.slice());
            put(a.sender_hw_addr());
            put(a.sender_protocol_addr());
            put(a.target_hw_addr());
            put(a.target_protocol_addr());
        }
        None => {}
    }
    match &p.transport {
        Some(TransportSlice::Udp(u)) => {
            put(u.slice());
            put(u.header_slice());
            put(u.payload());
        }
        Some(TransportSlice::Tcp(t)) => {
            put(t.slice());
            put(t.header_slice());
            put(t.payload());
            put(t.options());
        }
        Some(TransportSlice::Icmpv4(i)) => {
            put(i.slice());
            put(i.payload());
        }
        Some(TransportSlice::Icmpv6(i)) => {
            put(i.slice());
            put(i.payload());
        }
        None => {}
    }
    format!("ok {}", if w.is_empty() { "-".to_string() } else { w.join(",") })
}

fn src_tag(s: LenSource) -> &'static str {
    match s {
        LenSource::Slice => "slice",
        LenSource::Ipv4HeaderTotalLen => "v4total",
        LenSource::Ipv6HeaderPayloadLen => "v6payload",
        LenSource::UdpHeaderLen => "udplen",
        LenSource::TcpHeaderLen => "tcplen",
        LenSource::ArpAddrLengths => "arplen",
        LenSource::MacsecShortLength => "macsec",
    }
}

/// round 3: the packet-level accessors of a STRICT result (entries `peth`, `psll`, `pip`, `pet:<n>`):
/// values of payload_ether_type / ether_payload / ip_payload / is_ip_payload_fragmented / vlan /
/// vlan_ids, then the windows in the order of `SlicedPacketPA.packet_windows` (Parse/PacketAccess.v)
fn run_pkt(entry: &str, data: &[u8]) -> String {
    let r = if entry == "peth" {
        SlicedPacket::from_ethernet(data)
    } else if entry == "psll" {
        SlicedPacket::from_linux_sll(data)
    } else if entry == "pip" {
        SlicedPacket::from_ip(data)
    } else if let Some(et) = entry.strip_prefix("pet:") {
        SlicedPacket::from_ether_type(EtherType(et.parse().unwrap()), data)
    } else {
        panic!("bad entry {}", entry)
    };
    let p = match r {
        Ok(p) => p,
        Err(_) => return "err".to_string(),
    };
    let base: &[u8] = data;
    let mut w: Vec<String> = Vec::new();
    let pet = match p.payload_ether_type() {
        Some(e) => format!("{}", e.0),
        None => "-".to_string(),
    };
    let ep = match p.ether_payload() {
        Some(e) => {
            w.push(off(base, e.payload));
            format!("{}:{}:{}", e.ether_type.0, src_tag(e.len_source), off(base, e.payload))
        }
        None => "-".to_string(),
    };
    let ip = match p.ip_payload() {
        Some(i) => {
            w.push(off(base, i.payload));
            format!(
                "{}:{}:{}:{}",
                i.ip_number.0,
                if i.fragmented { 1 } else { 0 },
                src_tag(i.len_source),
                off(base, i.payload)
            )
        }
        None => "-".to_string(),
    };
    let frag = if p.is_ip_payload_fragmented() { 1 } else { 0 };
    let vlan = match p.vlan() {
        Some(VlanSlice::SingleVlan(v)) => {
            w.push(off(base, v.slice()));
            off(base, v.slice())
        }
        Some(VlanSlice::DoubleVlan(d)) => {
            w.push(off(base, d.outer.slice()));
            w.push(off(base, d.inner.slice()));
            format!("{}/{}", off(base, d.outer.slice()), off(base, d.inner.slice()))
        }
        None => "-".to_string(),
    };
    let ids = p.vlan_ids();
    format!(
        "ok pet={} ep={} ip={} frag={} vlan={} ids={} w={}",
        pet,
        ep,
        ip,
        frag,
        vlan,
        ids.iter().map(|v| format!("{}", v.value())).collect::<Vec<_>>().join("/"),
        if w.is_empty() { "-".to_string() } else { w.join(",") }
    )
}

/// lax whole-packet entry points (extend-c01b)
fn run_lax(entry: &str, data: &[u8]) -> String {
    let p = if entry == "leth" {
        match LaxSlicedPacket::from_ethernet(data) {
            Ok(p) => p,
            Err(_) => return "err".to_string(),
        }
    } else if entry == "lip" {
        match LaxSlicedPacket::from_ip(data) {
            Ok(p) => p,
            Err(_) => return "err".to_string(),
        }
    } else if let Some(et) = entry.strip_prefix("let:") {
        LaxSlicedPacket::from_ether_type(EtherType(et.parse().unwrap()), data)
    } else {
        panic!("bad entry {}", entry)
    };
    let base: &[u8] = data;
    let mut w: Vec<String> = Vec::new();
    let mut put = |s: &[u8]| w.push(off(base, s));
    match &p.link {
        Some(LinkSlice::Ethernet2(e)) => {
            put(e.slice());
            put(e.header_slice());
            put(e.payload_slice());
        }
        Some(LinkSlice::LinuxSll(s)) => {
            put(s.header_slice());
            put(s.slice());
            put(s.sender_address());
            put(s.payload_slice());
        }
        Some(LinkSlice::EtherPayload(e)) => put(e.payload),
        Some(LinkSlice::LinuxSllPayload(e)) => put(e.payload),
        None => {}
    }
    for x in p.link_exts.iter() {
        // LaxLinkExtSlice accessors
        let _ = x.header_len();
        let _ = x.to_header();
        let _ = x.payload();
        match x {
            LaxLinkExtSlice::Vlan(v) => {
                put(v.slice());
                put(v.header_slice());
                put(v.payload_slice());
            }
            LaxLinkExtSlice::Macsec(m) => {
                let _ = m.next_ether_type();
                let _ = m.ether_payload();
                put(m.header.slice());
                match &m.payload {
                    LaxMacsecPayloadSlice::Unmodified(e) => put(e.payload),
                    LaxMacsecPayloadSlice::Modified { payload, .. } => put(payload),
                }
            }
        }
    }
    match &p.net {
        Some(LaxNetSlice::Ipv4(v)) => {
            let _ = v.is_payload_fragmented();
            put(v.header().slice());
            put(v.payload().payload);
            if let Some(a) = v.extensions().auth {
                put(a.slice());
            }
            put(v.header().options());
            if let Some(a) = v.extensions().auth {
                put(a.raw_icv());
                let _ = a.to_header();
            }
        }
        Some(LaxNetSlice::Ipv6(v)) => {
            let _ = v.is_payload_fragmented();
            put(v.header().slice());
            put(v.extensions().slice());
            put(v.payload().payload);
            for e in v.extensions().clone().into_iter() {
                match e {
                    Ipv6ExtensionSlice::HopByHop(r) => put(r.slice()),
                    Ipv6ExtensionSlice::Routing(r) => put(r.slice()),
                    Ipv6ExtensionSlice::DestinationOptions(r) => put(r.slice()),
                    Ipv6ExtensionSlice::Fragment(f) => put(f.slice()),
                    Ipv6ExtensionSlice::Authentication(a) => put(a.slice()),
                }
            }
            for e in v.extensions().clone().into_iter() {
                match e {
                    Ipv6ExtensionSlice::HopByHop(r) => {
                        let _ = r.to_header();
                        put(r.payload())
                    }
                    Ipv6ExtensionSlice::Routing(r) => {
                        let _ = r.to_header();
                        put(r.payload())
                    }
                    Ipv6ExtensionSlice::DestinationOptions(r) => {
                        let _ = r.to_header();
                        put(r.payload())
                    }
                    Ipv6ExtensionSlice::Fragment(f) => {
                        let _ = f.to_header();
                    }
                    Ipv6ExtensionSlice::Authentication(a) => {
                        let _ = a.to_header();
                        put(a.raw_icv())
                    }
                }
            }
        }
        Some(LaxNetSlice::Arp(a)) => {
            put(a.slice());
            put(a.sender_hw_addr());
            put(a.sender_protocol_addr());
            put(a.target_hw_addr());
            put(a.target_protocol_addr());
        }
        None => {}
    }
    match &p.transport {
        Some(TransportSlice::Udp(u)) => {
            put(u.slice());
            put(u.header_slice());
            put(u.payload());
        }
        Some(TransportSlice::Tcp(t)) => {
            put(t.slice());
            put(t.header_slice());
            put(t.payload());
            put(t.options());
        }
        Some(TransportSlice::Icmpv4(i)) => {
            put(i.slice());
            put(i.payload());
        }
        Some(TransportSlice::Icmpv6(i)) => {
            put(i.slice());
            put(i.payload());
        }
        None => {}
    }
    // packet-level accessors
    let _ = p.vlan();
    let ids = p.vlan_ids();
    let _ = p.ip_payload();
    if let Some(e) = p.ether_payload() {
        put(e.payload);
    }
    format!(
        "ok {} ids={}",
        if w.is_empty() { "-".to_string() } else { w.join(",") },
        ids.iter().map(|v| format!("{}", v.value())).collect::<Vec<_>>().join("/")
    )
}
