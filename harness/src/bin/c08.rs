//! C08: every header value survives encode -> decode.
//!
//! Case file (same file is read by ocaml/run_c08.ml):
//!   v <type> <fields...> <trail hex>   structured VALUE: all serialisers, decode(encode ++ trail)
//!   b <type> <hex>                     BYTE string: decode -> encode -> decode
//! Output (one line):
//!   v: v=<canon> tb=<hex> w=<hex> ws=<hex|-> hl=<n> d=<canon/rest|err> eq=<1|0|-> rd=<canon/rest|err|->
//!   b: ok used=<n> v=<canon> re=<hex> w=<hex> ws=<hex|-> hl=<n> d2=<canon/rest|err> rd=<canon/rest|err|->
//!      (d2 = decode(re ++ unconsumed rest of the input))
//!      err rd=<...>
//! <canon> is a per-type list of numbers / hex for the types that have a Coq model;
//! for the other types it is `=` (equal to the reference value by the crate's
//! PartialEq) or `DIFF`.
use etherparse::*;
use std::io::Cursor;
use vh::*;

fn main() {
    main_loop(run);
}

struct Ops<T> {
    dec: fn(&[u8]) -> Option<(T, usize)>,
    tb: fn(&T) -> Vec<u8>,
    w: fn(&T) -> Vec<u8>,
    ws: Option<fn(&T) -> Vec<u8>>,
    hl: fn(&T) -> usize,
    rd: Option<fn(&[u8]) -> Option<(T, usize)>>,
    canon: Option<fn(&T) -> String>,
    /// an additional serialiser that deliberately differs (printed as wc=)
    xw: Option<fn(&T) -> Vec<u8>>,
}

fn cn<T: PartialEq>(ops: &Ops<T>, x: &T, reference: &T) -> String {
    match ops.canon {
        Some(f) => f(x),
        None => {
            if x == reference {
                "=".to_string()
            } else {
                "DIFF".to_string()
            }
        }
    }
}

fn dec_str<T: PartialEq>(
    ops: &Ops<T>,
    f: fn(&[u8]) -> Option<(T, usize)>,
    bs: &[u8],
    reference: &T,
) -> (String, Option<T>) {
    match f(bs) {
        Some((v, rest)) => (format!("{}/{}", cn(ops, &v, reference), rest), Some(v)),
        None => ("err".to_string(), None),
    }
}

fn value_case<T: PartialEq>(ops: &Ops<T>, v: &T, trail: &[u8]) -> String {
    let tb = (ops.tb)(v);
    let w = (ops.w)(v);
    let ws = ops.ws.map(|f| hex(&f(v))).unwrap_or("-".to_string());
    let mut input = tb.clone();
    input.extend_from_slice(trail);
    let (d, dv) = dec_str(ops, ops.dec, &input, v);
    let eq = match dv {
        Some(x) => {
            if x == *v {
                "1"
            } else {
                "0"
            }
        }
        None => "-",
    };
    let rd = match ops.rd {
        Some(f) => dec_str(ops, f, &input, v).0,
        None => "-".to_string(),
    };
    let xw = ops.xw.map(|f| format!(" wc={}", hex(&f(v)))).unwrap_or_default();
    format!(
        "v={} tb={} w={} ws={} hl={} d={} eq={} rd={}{}",
        cn(ops, v, v),
        hex(&tb),
        hex(&w),
        ws,
        (ops.hl)(v),
        d,
        eq,
        rd,
        xw
    )
}

fn bytes_case<T: PartialEq>(ops: &Ops<T>, bs: &[u8]) -> String {
    match (ops.dec)(bs) {
        None => {
            let rd = match ops.rd {
                Some(f) => match f(bs) {
                    Some(_) => "ok".to_string(),
                    None => "err".to_string(),
                },
                None => "-".to_string(),
            };
            format!("err rd={}", rd)
        }
        Some((v, rest)) => {
            let used = bs.len() - rest;
            let re = (ops.tb)(&v);
            let w = (ops.w)(&v);
            let ws = ops.ws.map(|f| hex(&f(&v))).unwrap_or("-".to_string());
            let mut again = re.clone();
            again.extend_from_slice(&bs[used.min(bs.len())..]);
            let (d2, _) = dec_str(ops, ops.dec, &again, &v);
            let rd = match ops.rd {
                Some(f) => dec_str(ops, f, bs, &v).0,
                None => "-".to_string(),
            };
            let xw = ops.xw.map(|f| format!(" wc={}", hex(&f(&v)))).unwrap_or_default();
            format!(
                "ok used={} v={} re={} w={} ws={} hl={} d2={} rd={}{}",
                used,
                cn(ops, &v, &v),
                hex(&re),
                hex(&w),
                ws,
                (ops.hl)(&v),
                d2,
                rd,
                xw
            )
        }
    }
}

/// write_to_slice into a buffer that is `extra` bytes longer than needed, return the written part
macro_rules! wts {
    ($h:expr, $len:expr) => {{
        let mut buf = vec![0xa5u8; $len + 3];
        let rest_len = $h.write_to_slice(&mut buf).map(|r| r.len()).unwrap_or(usize::MAX);
        if rest_len == usize::MAX {
            vec![0xde, 0xad]
        } else {
            let n = buf.len() - rest_len;
            buf[..n].to_vec()
        }
    }};
}

macro_rules! cur_read {
    ($bs:expr, $e:expr) => {{
        let mut c = Cursor::new($bs);
        let r = $e(&mut c);
        let pos = c.position() as usize;
        r.ok().map(|v| (v, $bs.len() - pos))
    }};
}

// ------------------------------------------------------------------ TCP
fn tcp_canon(h: &TcpHeader) -> String {
    let mut fl = 0u32;
    for (b, k) in [
        (h.fin, 0),
        (h.syn, 1),
        (h.rst, 2),
        (h.psh, 3),
        (h.ack, 4),
        (h.urg, 5),
        (h.ece, 6),
        (h.cwr, 7),
        (h.ns, 8),
    ] {
        if b {
            fl |= 1 << k;
        }
    }
    format!(
        "{},{},{},{},{},{},{},{},{}",
        h.source_port,
        h.destination_port,
        h.sequence_number,
        h.acknowledgment_number,
        fl,
        h.window_size,
        h.checksum,
        h.urgent_pointer,
        hex(h.options.as_slice())
    )
}
fn tcp_ops() -> Ops<TcpHeader> {
    Ops {
        dec: |b| TcpHeader::from_slice(b).ok().map(|(h, r)| (h, r.len())),
        tb: |h| h.to_bytes().to_vec(),
        w: |h| {
            let mut v = Vec::new();
            h.write(&mut v).unwrap();
            v
        },
        ws: None,
        hl: |h| h.header_len(),
        rd: Some(|b| cur_read!(b, |c: &mut Cursor<&[u8]>| TcpHeader::read(c))),
        canon: Some(tcp_canon),
        xw: None,
    }
}
fn tcp_value(a: &[&str]) -> String {
    let p = |i: usize| -> u64 { a[i].parse().unwrap() };
    let fl = p(4);
    let opts = match TcpOptions::try_from_slice(&unhex(a[8])) {
        Ok(o) => o,
        Err(_) => return "noval".to_string(),
    };
    let h = TcpHeader {
        source_port: p(0) as u16,
        destination_port: p(1) as u16,
        sequence_number: p(2) as u32,
        acknowledgment_number: p(3) as u32,
        ns: fl & 256 != 0,
        fin: fl & 1 != 0,
        syn: fl & 2 != 0,
        rst: fl & 4 != 0,
        psh: fl & 8 != 0,
        ack: fl & 16 != 0,
        urg: fl & 32 != 0,
        ece: fl & 64 != 0,
        cwr: fl & 128 != 0,
        window_size: p(5) as u16,
        checksum: p(6) as u16,
        urgent_pointer: p(7) as u16,
        options: opts,
    };
    value_case(&tcp_ops(), &h, &unhex(a[9]))
}

// ------------------------------------------------------------------ types without canon (impl-only oracle)
fn wvec<E: std::fmt::Debug>(f: impl FnOnce(&mut Vec<u8>) -> Result<(), E>) -> Vec<u8> {
    let mut v = Vec::new();
    match f(&mut v) {
        Ok(()) => v,
        Err(_) => vec![0xde, 0xad],
    }
}

fn ipv4_canon(h: &Ipv4Header) -> String {
    format!(
        "{},{},{},{},{},{},{},{},{},{},{},{},{}",
        h.dscp.value(),
        h.ecn.value(),
        h.total_len,
        h.identification,
        h.dont_fragment as u8,
        h.more_fragments as u8,
        h.fragment_offset.value(),
        h.time_to_live,
        h.protocol.0,
        h.header_checksum,
        hex(&h.source),
        hex(&h.destination),
        hex(h.options.as_slice())
    )
}
fn ipv4_ops() -> Ops<Ipv4Header> {
    Ops {
        dec: |b| Ipv4Header::from_slice(b).ok().map(|(h, r)| (h, r.len())),
        tb: |h| h.to_bytes().to_vec(),
        w: |h| wvec(|v| h.write_raw(v)),
        ws: None,
        hl: |h| h.header_len(),
        rd: Some(|b| cur_read!(b, |c: &mut Cursor<&[u8]>| Ipv4Header::read(c))),
        canon: Some(ipv4_canon),
        xw: Some(|h| wvec(|v| h.write(v))),
    }
}
fn ipv4_value(a: &[&str]) -> String {
    let p = |i: usize| -> u64 { a[i].parse().unwrap() };
    let arr4 = |s: &str| -> Option<[u8; 4]> { unhex(s).try_into().ok() };
    let (Some(src), Some(dst)) = (arr4(a[10]), arr4(a[11])) else {
        return "noval".to_string();
    };
    if p(0) > 255 || p(1) > 255 || p(2) > 65535 || p(3) > 65535 || p(6) > 65535 || p(7) > 255 || p(8) > 255 || p(9) > 65535 {
        return "noval".to_string();
    }
    let (Ok(dscp), Ok(ecn), Ok(fo), Ok(opts)) = (
        IpDscp::try_new(p(0) as u8),
        IpEcn::try_new(p(1) as u8),
        IpFragOffset::try_new(p(6) as u16),
        Ipv4Options::try_from(&unhex(a[12])[..]),
    ) else {
        return "noval".to_string();
    };
    let h = Ipv4Header {
        dscp,
        ecn,
        total_len: p(2) as u16,
        identification: p(3) as u16,
        dont_fragment: p(4) != 0,
        more_fragments: p(5) != 0,
        fragment_offset: fo,
        time_to_live: p(7) as u8,
        protocol: IpNumber(p(8) as u8),
        header_checksum: p(9) as u16,
        source: src,
        destination: dst,
        options: opts,
    };
    value_case(&ipv4_ops(), &h, &unhex(a[13]))
}
fn ipv6_ops() -> Ops<Ipv6Header> {
    Ops {
        dec: |b| Ipv6Header::from_slice(b).ok().map(|(h, r)| (h, r.len())),
        tb: |h| h.to_bytes().to_vec(),
        w: |h| wvec(|v| h.write(v)),
        ws: None,
        hl: |h| h.header_len(),
        rd: Some(|b| cur_read!(b, |c: &mut Cursor<&[u8]>| Ipv6Header::read(c))),
        canon: None,
        xw: None,
    }
}
fn udp_ops() -> Ops<UdpHeader> {
    Ops {
        dec: |b| UdpHeader::from_slice(b).ok().map(|(h, r)| (h, r.len())),
        tb: |h| h.to_bytes().to_vec(),
        w: |h| wvec(|v| h.write(v)),
        ws: None,
        hl: |h| h.header_len(),
        rd: Some(|b| cur_read!(b, |c: &mut Cursor<&[u8]>| UdpHeader::read(c))),
        canon: None,
        xw: None,
    }
}
fn eth_ops() -> Ops<Ethernet2Header> {
    Ops {
        dec: |b| Ethernet2Header::from_slice(b).ok().map(|(h, r)| (h, r.len())),
        tb: |h| h.to_bytes().to_vec(),
        w: |h| wvec(|v| h.write(v)),
        ws: Some(|h| wts!(h, 14)),
        hl: |h| h.header_len(),
        rd: Some(|b| cur_read!(b, |c: &mut Cursor<&[u8]>| Ethernet2Header::read(c))),
        canon: None,
        xw: None,
    }
}
fn vlan_ops() -> Ops<SingleVlanHeader> {
    Ops {
        dec: |b| SingleVlanHeader::from_slice(b).ok().map(|(h, r)| (h, r.len())),
        tb: |h| h.to_bytes().to_vec(),
        w: |h| wvec(|v| h.write(v)),
        ws: None,
        hl: |h| h.header_len(),
        rd: Some(|b| cur_read!(b, |c: &mut Cursor<&[u8]>| SingleVlanHeader::read(c))),
        canon: None,
        xw: None,
    }
}
fn sll_ops() -> Ops<LinuxSllHeader> {
    Ops {
        dec: |b| LinuxSllHeader::from_slice(b).ok().map(|(h, r)| (h, r.len())),
        tb: |h| h.to_bytes().to_vec(),
        w: |h| wvec(|v| h.write(v)),
        ws: Some(|h| wts!(h, 16)),
        hl: |h| h.header_len(),
        // LinuxSllHeader::read on unsupported values is finding F1 (C01/C06), not exercised here:
        // only called when from_slice accepted the same bytes
        rd: Some(|b| {
            if LinuxSllHeader::from_slice(b).is_err() {
                None
            } else {
                cur_read!(b, |c: &mut Cursor<&[u8]>| LinuxSllHeader::read(c))
            }
        }),
        canon: None,
        xw: None,
    }
}
fn macsec_ops() -> Ops<MacsecHeader> {
    Ops {
        dec: |b| {
            MacsecHeader::from_slice(b).ok().map(|h| {
                let n = h.header_len();
                (h, b.len().wrapping_sub(n))
            })
        },
        tb: |h| h.to_bytes().to_vec(),
        w: |h| wvec(|v| h.write(v)),
        ws: None,
        hl: |h| h.header_len(),
        rd: Some(|b| cur_read!(b, |c: &mut Cursor<&[u8]>| MacsecHeader::read(c))),
        canon: None,
        xw: None,
    }
}
fn arp_ops() -> Ops<ArpPacket> {
    Ops {
        dec: |b| {
            ArpPacket::from_slice(b).ok().map(|h| {
                let n = h.packet_len();
                (h, b.len().wrapping_sub(n))
            })
        },
        tb: |h| h.to_bytes().to_vec(),
        w: |h| wvec(|v| h.write(v)),
        ws: None,
        hl: |h| h.packet_len(),
        rd: Some(|b| cur_read!(b, |c: &mut Cursor<&[u8]>| ArpPacket::read(c))),
        canon: None,
        xw: None,
    }
}
fn arpeth_ops() -> Ops<ArpEthIpv4Packet> {
    Ops {
        dec: |b| {
            ArpPacket::from_slice(b)
                .ok()
                .and_then(|p| {
                    let n = p.packet_len();
                    ArpEthIpv4Packet::try_from(p).ok().map(|e| (e, n))
                })
                .map(|(e, n)| (e, b.len().wrapping_sub(n)))
        },
        tb: |h| h.to_bytes().to_vec(),
        w: |h| ArpPacket::from(h.clone()).to_bytes().to_vec(),
        ws: None,
        hl: |_| 28,
        rd: None,
        canon: None,
        xw: None,
    }
}
fn auth_ops() -> Ops<IpAuthHeader> {
    Ops {
        dec: |b| IpAuthHeader::from_slice(b).ok().map(|(h, r)| (h, r.len())),
        tb: |h| h.to_bytes().to_vec(),
        w: |h| wvec(|v| h.write(v)),
        ws: None,
        hl: |h| h.header_len(),
        rd: Some(|b| cur_read!(b, |c: &mut Cursor<&[u8]>| IpAuthHeader::read(c))),
        canon: None,
        xw: None,
    }
}
fn rawext_ops() -> Ops<Ipv6RawExtHeader> {
    Ops {
        dec: |b| Ipv6RawExtHeader::from_slice(b).ok().map(|(h, r)| (h, r.len())),
        tb: |h| h.to_bytes().to_vec(),
        w: |h| wvec(|v| h.write(v)),
        ws: None,
        hl: |h| h.header_len(),
        rd: Some(|b| cur_read!(b, |c: &mut Cursor<&[u8]>| Ipv6RawExtHeader::read(c))),
        canon: None,
        xw: None,
    }
}
fn frag_canon(h: &Ipv6FragmentHeader) -> String {
    format!(
        "{},{},{},{}",
        h.next_header.0,
        h.fragment_offset.value(),
        h.more_fragments as u8,
        h.identification
    )
}
fn frag_ops() -> Ops<Ipv6FragmentHeader> {
    Ops {
        dec: |b| Ipv6FragmentHeader::from_slice(b).ok().map(|(h, r)| (h, r.len())),
        tb: |h| h.to_bytes().to_vec(),
        w: |h| wvec(|v| h.write(v)),
        ws: None,
        hl: |h| h.header_len(),
        rd: Some(|b| cur_read!(b, |c: &mut Cursor<&[u8]>| Ipv6FragmentHeader::read(c))),
        canon: Some(frag_canon),
        xw: None,
    }
}
fn frag_value(a: &[&str]) -> String {
    let p = |i: usize| -> u64 { a[i].parse().unwrap() };
    if p(0) > 255 || p(1) > 65535 || p(3) > u32::MAX as u64 {
        return "noval".to_string();
    }
    let Ok(fo) = IpFragOffset::try_new(p(1) as u16) else {
        return "noval".to_string();
    };
    let h = Ipv6FragmentHeader::new(IpNumber(p(0) as u8), fo, p(2) != 0, p(3) as u32);
    value_case(&frag_ops(), &h, &unhex(a[4]))
}
fn icmp4_ops() -> Ops<Icmpv4Header> {
    Ops {
        dec: |b| Icmpv4Header::from_slice(b).ok().map(|(h, r)| (h, r.len())),
        tb: |h| h.to_bytes().to_vec(),
        w: |h| wvec(|v| h.write(v)),
        ws: None,
        hl: |h| h.header_len(),
        rd: Some(|b| cur_read!(b, |c: &mut Cursor<&[u8]>| Icmpv4Header::read(c))),
        canon: None,
        xw: None,
    }
}
fn icmp6_ops() -> Ops<Icmpv6Header> {
    Ops {
        dec: |b| Icmpv6Header::from_slice(b).ok().map(|(h, r)| (h, r.len())),
        tb: |h| h.to_bytes().to_vec(),
        w: |h| wvec(|v| h.write(v)),
        ws: None,
        hl: |h| h.header_len(),
        rd: Some(|b| cur_read!(b, |c: &mut Cursor<&[u8]>| Icmpv6Header::read(c))),
        canon: None,
        xw: None,
    }
}
fn igmp_ops() -> Ops<IgmpHeader> {
    Ops {
        dec: |b| IgmpHeader::from_slice(b).ok().map(|(h, r)| (h, r.len())),
        tb: |h| h.to_bytes().to_vec(),
        w: |h| h.to_bytes().to_vec(),
        ws: None,
        hl: |h| h.header_len(),
        rd: None,
        canon: None,
        xw: None,
    }
}
fn grec_ops() -> Ops<igmp::ReportGroupRecordV3Header> {
    Ops {
        dec: |b| igmp::ReportGroupRecordV3Header::from_slice(b).ok().map(|(h, r)| (h, r.len())),
        tb: |h| h.to_bytes().to_vec(),
        w: |h| h.to_bytes().to_vec(),
        ws: None,
        hl: |_| igmp::ReportGroupRecordV3Header::LEN,
        rd: None,
        canon: None,
        xw: None,
    }
}
fn prefix_ops() -> Ops<icmpv6::PrefixInformation> {
    Ops {
        // from_slice wants exactly LEN bytes: decode the first LEN bytes, the rest is the remainder
        dec: |b| {
            if b.len() < icmpv6::PrefixInformation::LEN {
                None
            } else {
                icmpv6::PrefixInformation::from_slice(&b[..icmpv6::PrefixInformation::LEN])
                    .ok()
                    .map(|h| (h, b.len() - icmpv6::PrefixInformation::LEN))
            }
        },
        tb: |h| h.to_bytes().to_vec(),
        w: |h| h.to_bytes().to_vec(),
        ws: None,
        hl: |_| icmpv6::PrefixInformation::LEN,
        rd: Some(|b| {
            if b.len() < icmpv6::PrefixInformation::LEN {
                None
            } else {
                let mut a = [0u8; icmpv6::PrefixInformation::LEN];
                a.copy_from_slice(&b[..icmpv6::PrefixInformation::LEN]);
                icmpv6::PrefixInformation::from_bytes(a)
                    .ok()
                    .map(|h| (h, b.len() - icmpv6::PrefixInformation::LEN))
            }
        }),
        canon: None,
        xw: None,
    }
}

// Extension chains: the value is (start number, extensions, final number); encode = write(start)
#[derive(PartialEq)]
struct Ext4(IpNumber, Ipv4Extensions, IpNumber);
fn ext4_ops() -> Ops<Ext4> {
    Ops {
        dec: |b| {
            if b.is_empty() {
                return None;
            }
            let start = IpNumber(b[0]);
            Ipv4Extensions::from_slice(start, &b[1..])
                .ok()
                .map(|(e, n, r)| (Ext4(start, e, n), r.len()))
        },
        tb: |h| {
            let mut v = vec![h.0 .0];
            v.extend(wvec(|v| h.1.write(v, h.0)));
            v
        },
        w: |h| {
            let mut v = vec![h.0 .0];
            v.extend(wvec(|v| h.1.write(v, h.0)));
            v
        },
        ws: None,
        hl: |h| 1 + h.1.header_len(),
        rd: Some(|b| {
            if b.is_empty() {
                return None;
            }
            let start = IpNumber(b[0]);
            let mut c = Cursor::new(&b[1..]);
            let r = Ipv4Extensions::read(&mut c, start);
            let pos = c.position() as usize;
            r.ok().map(|(e, n)| (Ext4(start, e, n), b.len() - 1 - pos))
        }),
        canon: None,
        xw: None,
    }
}
#[derive(PartialEq)]
struct Ext6(IpNumber, Ipv6Extensions, IpNumber);
fn ext6_ops() -> Ops<Ext6> {
    Ops {
        dec: |b| {
            if b.is_empty() {
                return None;
            }
            let start = IpNumber(b[0]);
            Ipv6Extensions::from_slice(start, &b[1..])
                .ok()
                .map(|(e, n, r)| (Ext6(start, e, n), r.len()))
        },
        tb: |h| {
            let mut v = vec![h.0 .0];
            v.extend(wvec(|v| h.1.write(v, h.0)));
            v
        },
        w: |h| {
            let mut v = vec![h.0 .0];
            v.extend(wvec(|v| h.1.write(v, h.0)));
            v
        },
        ws: None,
        hl: |h| 1 + h.1.header_len(),
        rd: Some(|b| {
            if b.is_empty() {
                return None;
            }
            let start = IpNumber(b[0]);
            let mut c = Cursor::new(&b[1..]);
            let r = Ipv6Extensions::read(&mut c, start);
            let pos = c.position() as usize;
            r.ok().map(|(e, n)| (Ext6(start, e, n), b.len() - 1 - pos))
        }),
        canon: None,
        xw: None,
    }
}
/// IpHeaders::write recomputes the IPv4 header checksum (Ipv4Header::write), so the value
/// decoded from the re-encoded bytes is compared modulo `header_checksum`; the checksum
/// bytes themselves are compared by the checker when the input's checksum was valid.
struct IphW(IpHeaders);
impl PartialEq for IphW {
    fn eq(&self, o: &IphW) -> bool {
        let strip = |h: &IpHeaders| -> IpHeaders {
            match h.clone() {
                IpHeaders::Ipv4(mut a, e) => {
                    a.header_checksum = 0;
                    IpHeaders::Ipv4(a, e)
                }
                x => x,
            }
        };
        strip(&self.0) == strip(&o.0)
    }
}
fn iph_ops() -> Ops<IphW> {
    Ops {
        dec: |b| {
            IpHeaders::from_slice(b).ok().map(|(h, p)| {
                let n = h.header_len();
                let _ = p;
                (IphW(h), b.len().wrapping_sub(n))
            })
        },
        tb: |h| wvec(|v| h.0.write(v)),
        w: |h| wvec(|v| h.0.write(v)),
        ws: None,
        hl: |h| h.0.header_len(),
        rd: Some(|b| cur_read!(b, |c: &mut Cursor<&[u8]>| IpHeaders::read(c).map(|x| IphW(x.0)))),
        canon: None,
        xw: None,
    }
}

// ---- link/net types (extend-c08a) ----
fn opt_str<T: std::fmt::Display>(o: Option<T>) -> String {
    o.map(|v| v.to_string()).unwrap_or("-".to_string())
}
/// ptype(0..3),ether_type|-,es,scb,an,short_len,packet_nr,sci|-
fn macsec_canon(h: &MacsecHeader) -> String {
    let (p, et) = match h.ptype {
        MacsecPType::Unmodified(e) => (0, e.0.to_string()),
        MacsecPType::Modified => (1, "-".to_string()),
        MacsecPType::Encrypted => (2, "-".to_string()),
        MacsecPType::EncryptedUnmodified => (3, "-".to_string()),
    };
    format!(
        "{},{},{},{},{},{},{},{}",
        p,
        et,
        h.endstation_id as u8,
        h.scb as u8,
        h.an.value(),
        h.short_len.value(),
        h.packet_nr,
        opt_str(h.sci)
    )
}
fn macsec_value(a: &[&str]) -> String {
    let p = |i: usize| -> u128 { a[i].parse().unwrap() };
    let ptype = match a[0] {
        "0" => {
            if p(1) > 65535 {
                return "noval".to_string();
            }
            MacsecPType::Unmodified(EtherType(p(1) as u16))
        }
        "1" => MacsecPType::Modified,
        "2" => MacsecPType::Encrypted,
        _ => MacsecPType::EncryptedUnmodified,
    };
    if p(4) > 255 || p(5) > 255 || p(6) > u32::MAX as u128 {
        return "noval".to_string();
    }
    let sci = if a[7] == "-" {
        None
    } else {
        if p(7) > u64::MAX as u128 {
            return "noval".to_string();
        }
        Some(p(7) as u64)
    };
    let (Ok(an), Ok(sl)) = (MacsecAn::try_new(p(4) as u8), MacsecShortLen::try_from_u8(p(5) as u8)) else {
        return "noval".to_string();
    };
    let h = MacsecHeader {
        ptype,
        endstation_id: a[2] == "1",
        scb: a[3] == "1",
        an,
        short_len: sl,
        packet_nr: p(6) as u32,
        sci,
    };
    let mut ops = macsec_ops();
    ops.canon = Some(macsec_canon);
    value_case(&ops, &h, &unhex(a[8]))
}
/// next_header,spi,sequence_number,raw_icv hex
fn auth_canon(h: &IpAuthHeader) -> String {
    format!("{},{},{},{}", h.next_header.0, h.spi, h.sequence_number, hex(h.raw_icv()))
}
fn auth_ops_c() -> Ops<IpAuthHeader> {
    let mut ops = auth_ops();
    ops.canon = Some(auth_canon);
    ops
}
/// v auth <nh> <spi> <seq> <icv> <stale|-> <trail>: new(.., stale) then set_raw_icv(icv)
fn auth_value(a: &[&str]) -> String {
    let p = |i: usize| -> u64 { a[i].parse().unwrap() };
    if p(0) > 255 || p(1) > u32::MAX as u64 || p(2) > u32::MAX as u64 {
        return "noval".to_string();
    }
    let icv = unhex(a[3]);
    let first = if a[4] == "-" { icv.clone() } else { unhex(a[4]) };
    let Ok(mut h) = IpAuthHeader::new(IpNumber(p(0) as u8), p(1) as u32, p(2) as u32, &first) else {
        return "noval".to_string();
    };
    if a[4] != "-" && h.set_raw_icv(&icv).is_err() {
        return "noval".to_string();
    }
    value_case(&auth_ops_c(), &h, &unhex(a[5]))
}
/// next_header,payload hex
fn rawext_canon(h: &Ipv6RawExtHeader) -> String {
    format!("{},{}", h.next_header.0, hex(h.payload()))
}
fn rawext_ops_c() -> Ops<Ipv6RawExtHeader> {
    let mut ops = rawext_ops();
    ops.canon = Some(rawext_canon);
    ops
}
/// v rawext <nh> <payload> <stale|-> <trail>: new_raw(.., stale) then set_payload(payload)
fn rawext_value(a: &[&str]) -> String {
    let p = |i: usize| -> u64 { a[i].parse().unwrap() };
    if p(0) > 255 {
        return "noval".to_string();
    }
    let pl = unhex(a[1]);
    let first = if a[2] == "-" { pl.clone() } else { unhex(a[2]) };
    let Ok(mut h) = Ipv6RawExtHeader::new_raw(IpNumber(p(0) as u8), &first) else {
        return "noval".to_string();
    };
    if a[2] != "-" && h.set_payload(&pl).is_err() {
        return "noval".to_string();
    }
    value_case(&rawext_ops_c(), &h, &unhex(a[3]))
}
/// traffic_class,flow_label,payload_length,next_header,hop_limit,src hex,dst hex
fn ipv6_canon(h: &Ipv6Header) -> String {
    format!(
        "{},{},{},{},{},{},{}",
        h.traffic_class,
        h.flow_label.value(),
        h.payload_length,
        h.next_header.0,
        h.hop_limit,
        hex(&h.source),
        hex(&h.destination)
    )
}
fn ipv6_ops_c() -> Ops<Ipv6Header> {
    let mut ops = ipv6_ops();
    ops.canon = Some(ipv6_canon);
    ops
}
fn ipv6_value(a: &[&str]) -> String {
    let p = |i: usize| -> u64 { a[i].parse().unwrap() };
    let arr16 = |s: &str| -> Option<[u8; 16]> { unhex(s).try_into().ok() };
    let (Some(src), Some(dst)) = (arr16(a[5]), arr16(a[6])) else {
        return "noval".to_string();
    };
    if p(0) > 255 || p(1) > u32::MAX as u64 || p(2) > 65535 || p(3) > 255 || p(4) > 255 {
        return "noval".to_string();
    }
    let Ok(fl) = Ipv6FlowLabel::try_new(p(1) as u32) else {
        return "noval".to_string();
    };
    let h = Ipv6Header {
        traffic_class: p(0) as u8,
        flow_label: fl,
        payload_length: p(2) as u16,
        next_header: IpNumber(p(3) as u8),
        hop_limit: p(4) as u8,
        source: src,
        destination: dst,
    };
    value_case(&ipv6_ops_c(), &h, &unhex(a[7]))
}
/// destination hex,source hex,ether_type
fn eth_canon(h: &Ethernet2Header) -> String {
    format!("{},{},{}", hex(&h.destination), hex(&h.source), h.ether_type.0)
}
fn eth_ops_c() -> Ops<Ethernet2Header> {
    let mut ops = eth_ops();
    ops.canon = Some(eth_canon);
    ops
}
fn eth_value(a: &[&str]) -> String {
    let arr6 = |s: &str| -> Option<[u8; 6]> { unhex(s).try_into().ok() };
    let (Some(dst), Some(src)) = (arr6(a[0]), arr6(a[1])) else {
        return "noval".to_string();
    };
    let et: u64 = a[2].parse().unwrap();
    if et > 65535 {
        return "noval".to_string();
    }
    let h = Ethernet2Header {
        source: src,
        destination: dst,
        ether_type: EtherType(et as u16),
    };
    let fb = eth_canon(&Ethernet2Header::from_bytes(h.to_bytes()));
    format!("{} fb={}", value_case(&eth_ops_c(), &h, &unhex(a[3])), fb)
}
/// pcp,dei,vlan_id,ether_type
fn vlan_canon(h: &SingleVlanHeader) -> String {
    format!(
        "{},{},{},{}",
        h.pcp.value(),
        h.drop_eligible_indicator as u8,
        h.vlan_id.value(),
        h.ether_type.0
    )
}
fn vlan_ops_c() -> Ops<SingleVlanHeader> {
    let mut ops = vlan_ops();
    ops.canon = Some(vlan_canon);
    ops
}
fn vlan_value(a: &[&str]) -> String {
    let p = |i: usize| -> u64 { a[i].parse().unwrap() };
    if p(0) > 255 || p(2) > 65535 || p(3) > 65535 {
        return "noval".to_string();
    }
    let (Ok(pcp), Ok(vid)) = (VlanPcp::try_new(p(0) as u8), VlanId::try_new(p(2) as u16)) else {
        return "noval".to_string();
    };
    let h = SingleVlanHeader {
        pcp,
        drop_eligible_indicator: a[1] == "1",
        vlan_id: vid,
        ether_type: EtherType(p(3) as u16),
    };
    let fb = vlan_canon(&SingleVlanHeader::from_bytes(h.to_bytes()));
    format!("{} fb={}", value_case(&vlan_ops_c(), &h, &unhex(a[4])), fb)
}
/// packet_type,arp_hrd_type,sender_address_valid_length,address hex,kind,value
fn sll_canon(h: &LinuxSllHeader) -> String {
    let (k, v) = match h.protocol_type {
        LinuxSllProtocolType::Ignored(v) => ("ign", v),
        LinuxSllProtocolType::NetlinkProtocolType(v) => ("nl", v),
        LinuxSllProtocolType::GenericRoutingEncapsulationProtocolType(v) => ("gre", v),
        LinuxSllProtocolType::EtherType(v) => ("et", v.0),
        LinuxSllProtocolType::LinuxNonstandardEtherType(v) => ("ns", u16::from(v)),
    };
    format!(
        "{},{},{},{},{},{}",
        u16::from(h.packet_type),
        u16::from(h.arp_hrd_type),
        h.sender_address_valid_length,
        hex(&h.sender_address),
        k,
        v
    )
}
fn sll_ops_c() -> Ops<LinuxSllHeader> {
    let mut ops = sll_ops();
    ops.canon = Some(sll_canon);
    // read = read_exact(16) + from_bytes (no precondition needed on this tree)
    ops.rd = Some(|b| cur_read!(b, |c: &mut Cursor<&[u8]>| LinuxSllHeader::read(c)));
    ops
}
fn sll_value(a: &[&str]) -> String {
    let p = |i: usize| -> u64 { a[i].parse().unwrap() };
    if p(0) > 65535 || p(1) > 65535 || p(2) > 65535 || p(5) > 65535 {
        return "noval".to_string();
    }
    let Ok(pt) = LinuxSllPacketType::try_from(p(0) as u16) else {
        return "noval".to_string();
    };
    let Ok(addr): Result<[u8; 8], _> = unhex(a[3]).try_into() else {
        return "noval".to_string();
    };
    let v = p(5) as u16;
    let proto = match a[4] {
        "ign" => LinuxSllProtocolType::Ignored(v),
        "nl" => LinuxSllProtocolType::NetlinkProtocolType(v),
        "gre" => LinuxSllProtocolType::GenericRoutingEncapsulationProtocolType(v),
        "et" => LinuxSllProtocolType::EtherType(EtherType(v)),
        _ => match LinuxNonstandardEtherType::try_from(v) {
            Ok(x) => LinuxSllProtocolType::LinuxNonstandardEtherType(x),
            Err(_) => return "noval".to_string(),
        },
    };
    let h = LinuxSllHeader {
        packet_type: pt,
        arp_hrd_type: ArpHardwareId(p(1) as u16),
        sender_address_valid_length: p(2) as u16,
        sender_address: addr,
        protocol_type: proto,
    };
    let fb = match LinuxSllHeader::from_bytes(h.to_bytes()) {
        Ok(x) => sll_canon(&x),
        Err(_) => "err".to_string(),
    };
    format!("{} fb={}", value_case(&sll_ops_c(), &h, &unhex(a[6])), fb)
}
/// hw type,proto type,hw size,proto size,operation,4 address slices hex
fn arp_canon(h: &ArpPacket) -> String {
    format!(
        "{},{},{},{},{},{},{},{},{}",
        h.hw_addr_type.0,
        h.proto_addr_type.0,
        h.hw_addr_size(),
        h.protocol_addr_size(),
        h.operation.0,
        hex(h.sender_hw_addr()),
        hex(h.sender_protocol_addr()),
        hex(h.target_hw_addr()),
        hex(h.target_protocol_addr())
    )
}
fn arp_ops_c() -> Ops<ArpPacket> {
    let mut ops = arp_ops();
    ops.canon = Some(arp_canon);
    ops
}
/// v arp <hat> <pat> <op> <sh> <sp> <th> <tp> <pre: - | a,b> <trail>
fn arp_value(a: &[&str]) -> String {
    let p = |i: usize| -> u64 { a[i].parse().unwrap() };
    if p(0) > 65535 || p(1) > 65535 || p(2) > 65535 {
        return "noval".to_string();
    }
    let (hat, pat, op) = (ArpHardwareId(p(0) as u16), EtherType(p(1) as u16), ArpOperation(p(2) as u16));
    let (sh, sp, th, tp) = (unhex(a[3]), unhex(a[4]), unhex(a[5]), unhex(a[6]));
    let h = if a[7] == "-" {
        match ArpPacket::new(hat, pat, op, &sh, &sp, &th, &tp) {
            Ok(h) => h,
            Err(_) => return "noval".to_string(),
        }
    } else {
        let ab: Vec<usize> = a[7].split(',').map(|x| x.parse().unwrap()).collect();
        let (x, y) = (vec![0xaau8; ab[0]], vec![0xaau8; ab[1]]);
        let Ok(mut h) = ArpPacket::new(hat, pat, op, &x, &y, &x, &y) else {
            return "noval".to_string();
        };
        if h.set_hw_addrs(&sh, &th).is_err() || h.set_protocol_addrs(&sp, &tp).is_err() {
            return "noval".to_string();
        }
        h
    };
    value_case(&arp_ops_c(), &h, &unhex(a[8]))
}
/// operation,sender mac,sender ip,target mac,target ip
fn arpeth_canon(h: &ArpEthIpv4Packet) -> String {
    format!(
        "{},{},{},{},{}",
        h.operation.0,
        hex(&h.sender_mac),
        hex(&h.sender_ipv4),
        hex(&h.target_mac),
        hex(&h.target_ipv4)
    )
}
fn arpeth_ops_c() -> Ops<ArpEthIpv4Packet> {
    let mut ops = arpeth_ops();
    ops.canon = Some(arpeth_canon);
    ops
}
fn arpeth_value(a: &[&str]) -> String {
    let op: u64 = a[0].parse().unwrap();
    let a6 = |s: &str| -> Option<[u8; 6]> { unhex(s).try_into().ok() };
    let a4 = |s: &str| -> Option<[u8; 4]> { unhex(s).try_into().ok() };
    let (Some(sm), Some(si), Some(tm), Some(ti)) = (a6(a[1]), a4(a[2]), a6(a[3]), a4(a[4])) else {
        return "noval".to_string();
    };
    if op > 65535 {
        return "noval".to_string();
    }
    let h = ArpEthIpv4Packet {
        operation: ArpOperation(op as u16),
        sender_mac: sm,
        sender_ipv4: si,
        target_mac: tm,
        target_ipv4: ti,
    };
    value_case(&arpeth_ops_c(), &h, &unhex(a[5]))
}
/// start,final,nh:spi:seq:icv | -
fn ext4_canon(h: &Ext4) -> String {
    format!(
        "{},{},{}",
        h.0 .0,
        h.2 .0,
        match &h.1.auth {
            Some(a) => format!("{}:{}:{}:{}", a.next_header.0, a.spi, a.sequence_number, hex(a.raw_icv())),
            None => "-".to_string(),
        }
    )
}
fn ext4_ops_c() -> Ops<Ext4> {
    let mut ops = ext4_ops();
    ops.canon = Some(ext4_canon);
    ops
}
/// v ext4 <start> <nh:spi:seq:icv | -> <trail>
fn ext4_value(a: &[&str]) -> String {
    let start: u64 = a[0].parse().unwrap();
    if start > 255 {
        return "noval".to_string();
    }
    let auth = if a[1] == "-" {
        None
    } else {
        let f: Vec<&str> = a[1].split(':').collect();
        let p = |i: usize| -> u64 { f[i].parse().unwrap() };
        if p(0) > 255 || p(1) > u32::MAX as u64 || p(2) > u32::MAX as u64 {
            return "noval".to_string();
        }
        match IpAuthHeader::new(IpNumber(p(0) as u8), p(1) as u32, p(2) as u32, &unhex(f[3])) {
            Ok(h) => Some(h),
            Err(_) => return "noval".to_string(),
        }
    };
    let fin = match &auth {
        Some(h) => h.next_header,
        None => IpNumber(start as u8),
    };
    let v = Ext4(IpNumber(start as u8), Ipv4Extensions { auth }, fin);
    value_case(&ext4_ops_c(), &v, &unhex(a[2]))
}
fn run_linknet(parts: &[&str]) -> Option<String> {
    match (parts[0], parts[1]) {
        ("v", "ext4") => Some(ext4_value(&parts[2..])),
        ("b", "ext4") => Some(bytes_case(&ext4_ops_c(), &unhex(parts[2]))),
        ("v", "eth") => Some(eth_value(&parts[2..])),
        ("b", "eth") => Some(bytes_case(&eth_ops_c(), &unhex(parts[2]))),
        ("v", "vlan") => Some(vlan_value(&parts[2..])),
        ("b", "vlan") => Some(bytes_case(&vlan_ops_c(), &unhex(parts[2]))),
        ("v", "sll") => Some(sll_value(&parts[2..])),
        ("b", "sll") => Some(bytes_case(&sll_ops_c(), &unhex(parts[2]))),
        ("v", "arp") => Some(arp_value(&parts[2..])),
        ("b", "arp") => Some(bytes_case(&arp_ops_c(), &unhex(parts[2]))),
        ("v", "arpeth") => Some(arpeth_value(&parts[2..])),
        ("b", "arpeth") => Some(bytes_case(&arpeth_ops_c(), &unhex(parts[2]))),
        ("v", "macsec") => Some(macsec_value(&parts[2..])),
        ("b", "macsec") => {
            let mut ops = macsec_ops();
            ops.canon = Some(macsec_canon);
            Some(bytes_case(&ops, &unhex(parts[2])))
        }
        ("v", "auth") => Some(auth_value(&parts[2..])),
        ("b", "auth") => Some(bytes_case(&auth_ops_c(), &unhex(parts[2]))),
        ("v", "rawext") => Some(rawext_value(&parts[2..])),
        ("b", "rawext") => Some(bytes_case(&rawext_ops_c(), &unhex(parts[2]))),
        ("v", "ipv6") => Some(ipv6_value(&parts[2..])),
        ("b", "ipv6") => Some(bytes_case(&ipv6_ops_c(), &unhex(parts[2]))),
        _ => None,
    }
}
// ---- end extend-c08a ----

// ---- IpHeaders (extend-c08c) ----
// Cases (same file is read by ocaml/run_c08_iph.ml.in, which prints the model's answers in the same format):
//   b iph <hex> [mask]
//     v=<canon|-> fs=<S> f4=<S> f6=<S> rd=<R> [w=<W> hl=<n> nh=<N> d2=<S>]
//   v iph 4 <13 Ipv4Header fields as `v ipv4`> <auth nh:spi:seq:icv|-> <stale hex|-> <payload> <trail> <last>
//   v iph 6 <7 Ipv6Header fields as `v ipv6`> <hop> <dst> <routing> <final dst> <frag> <auth> <payload> <trail> <last>
//     v=<canon> w=<W> hl=<n> nh=<N> fr=<0|1> fs=<S> f4=<S> f6=<S> rd=<R>     (decoders on write(v) ++ payload ++ trail)
//     b=<canon> et=<ether type> spl=<ok|err> bw=<W> bfs=<S> brd=<R>           (after set_next_headers(last), set_payload_len(len payload))
// <canon> = 4|<ipv4 canon>|<nh:spi:seq:icv or -> resp. 6|<ipv6 canon>|[hop;dst;routing;final dst;frag;auth]
// <S> = ok:<=|canon>:<ip number>,<fragmented>,<len source 0|4|6>,<payload offset>+<len> | err:len | err:content
//       (from_slice, from_ipv4_slice, from_ipv6_slice; `=` when the canon equals the v= / b= one)
// <R> = ok:<=|canon>:<ip number>,<cursor position> | err:io | err:len | err:content   (read over a Cursor)
// <W> = <ok | v4:nr:51 | v6:hbh | v6:nr:<n>>:<content of the Vec afterwards>
// <N> = ok:<n> | v4:nr:51 | v6:hbh | v6:nr:<n>
fn iph_raw_s(h: &Ipv6RawExtHeader) -> String {
    format!("{}:{}", h.next_header.0, hex(h.payload()))
}
fn iph_frag_s(h: &Ipv6FragmentHeader) -> String {
    format!(
        "{}:{}:{}:{}",
        h.next_header.0,
        h.fragment_offset.value(),
        h.more_fragments as u8,
        h.identification
    )
}
fn iph_auth_s(h: &IpAuthHeader) -> String {
    format!("{}:{}:{}:{}", h.next_header.0, h.spi, h.sequence_number, hex(h.raw_icv()))
}
fn iph_opt<T>(o: &Option<T>, f: fn(&T) -> String) -> String {
    match o {
        Some(x) => f(x),
        None => "-".to_string(),
    }
}
fn iph_exts6_s(e: &Ipv6Extensions) -> String {
    format!(
        "[{};{};{};{};{};{}]",
        iph_opt(&e.hop_by_hop_options, iph_raw_s),
        iph_opt(&e.destination_options, iph_raw_s),
        match &e.routing {
            Some(r) => iph_raw_s(&r.routing),
            None => "-".to_string(),
        },
        match &e.routing {
            Some(r) => iph_opt(&r.final_destination_options, iph_raw_s),
            None => "-".to_string(),
        },
        iph_opt(&e.fragment, iph_frag_s),
        iph_opt(&e.auth, iph_auth_s)
    )
}
fn iph_canon(h: &IpHeaders) -> String {
    match h {
        IpHeaders::Ipv4(hd, e) => format!("4|{}|{}", ipv4_canon(hd), iph_opt(&e.auth, iph_auth_s)),
        IpHeaders::Ipv6(hd, e) => format!("6|{}|{}", ipv6_canon(hd), iph_exts6_s(e)),
    }
}
fn iph_same(reference: Option<&str>, c: String) -> String {
    match reference {
        Some(r) if r == c => "=".to_string(),
        _ => c,
    }
}
fn iph_ls(l: LenSource) -> &'static str {
    match l {
        LenSource::Slice => "0",
        LenSource::Ipv4HeaderTotalLen => "4",
        LenSource::Ipv6HeaderPayloadLen => "6",
        _ => "?",
    }
}
fn iph_sres(reference: Option<&str>, input: &[u8], r: Result<(IpHeaders, IpPayloadSlice<'_>), &'static str>) -> String {
    match r {
        Ok((h, p)) => format!(
            "ok:{}:{},{},{},{}",
            iph_same(reference, iph_canon(&h)),
            p.ip_number.0,
            p.fragmented as u8,
            iph_ls(p.len_source),
            off(input, p.payload)
        ),
        Err(k) => format!("err:{}", k),
    }
}
fn iph_fs(b: &[u8]) -> Result<(IpHeaders, IpPayloadSlice<'_>), &'static str> {
    use err::ip::HeadersSliceError as E;
    IpHeaders::from_slice(b).map_err(|e| match e {
        E::Len(_) => "len",
        E::Content(_) => "content",
    })
}
fn iph_f4(b: &[u8]) -> Result<(IpHeaders, IpPayloadSlice<'_>), &'static str> {
    use err::ipv4::SliceError as E;
    IpHeaders::from_ipv4_slice(b).map_err(|e| match e {
        E::Len(_) => "len",
        E::Header(_) | E::Exts(_) => "content",
    })
}
fn iph_f6(b: &[u8]) -> Result<(IpHeaders, IpPayloadSlice<'_>), &'static str> {
    use err::ipv6::SliceError as E;
    IpHeaders::from_ipv6_slice(b).map_err(|e| match e {
        E::Len(_) => "len",
        E::Header(_) | E::Exts(_) => "content",
    })
}
fn iph_rres(reference: Option<&str>, input: &[u8]) -> String {
    use err::ip::HeaderReadError as E;
    let mut c = Cursor::new(input);
    let r = IpHeaders::read(&mut c);
    let pos = c.position();
    match r {
        Ok((h, n)) => format!("ok:{}:{},{}", iph_same(reference, iph_canon(&h)), n.0, pos),
        Err(E::Io(_)) => "err:io".to_string(),
        Err(E::Len(_)) => "err:len".to_string(),
        Err(E::Content(_)) => "err:content".to_string(),
    }
}
fn iph_walk6(e: &err::ipv6_exts::ExtsWalkError) -> String {
    use err::ipv6_exts::ExtsWalkError as W;
    match e {
        W::HopByHopNotAtStart => "v6:hbh".to_string(),
        W::ExtNotReferenced { missing_ext } => format!("v6:nr:{}", missing_ext.0),
    }
}
fn iph_walk4(e: &err::ipv4_exts::ExtsWalkError) -> String {
    use err::ipv4_exts::ExtsWalkError as W;
    match e {
        W::ExtNotReferenced { missing_ext } => format!("v4:nr:{}", missing_ext.0),
    }
}
fn iph_nh_s(h: &IpHeaders) -> String {
    use err::ip_exts::ExtsWalkError as W;
    match h.next_header() {
        Ok(n) => format!("ok:{}", n.0),
        Err(W::Ipv4Exts(e)) => iph_walk4(&e),
        Err(W::Ipv6Exts(e)) => iph_walk6(&e),
    }
}
fn iph_w(h: &IpHeaders) -> (Vec<u8>, String) {
    use err::ip::HeadersWriteError as W;
    let mut v = Vec::new();
    let st = match h.write(&mut v) {
        Ok(()) => "ok".to_string(),
        Err(W::Io(_)) => "io".to_string(),
        Err(W::Ipv4Exts(e)) => iph_walk4(&e),
        Err(W::Ipv6Exts(e)) => iph_walk6(&e),
    };
    let s = format!("{}:{}", st, hex(&v));
    (v, s)
}
fn iph_bytes(bs: &[u8]) -> String {
    let fs = iph_fs(bs);
    let reference: Option<String> = fs.as_ref().ok().map(|(h, _)| iph_canon(h));
    let r = reference.as_deref();
    let head = format!(
        "v={} fs={} f4={} f6={} rd={}",
        r.unwrap_or("-"),
        iph_sres(r, bs, iph_fs(bs)),
        iph_sres(r, bs, iph_f4(bs)),
        iph_sres(r, bs, iph_f6(bs)),
        iph_rres(r, bs)
    );
    match fs {
        Err(_) => head,
        Ok((h, _)) => {
            let (w, ws) = iph_w(&h);
            let hl = h.header_len();
            let mut again = w.clone();
            again.extend_from_slice(&bs[hl.min(bs.len())..]);
            format!(
                "{} w={} hl={} nh={} d2={}",
                head,
                ws,
                hl,
                iph_nh_s(&h),
                iph_sres(r, &again, iph_fs(&again))
            )
        }
    }
}
fn iph_value_line(h: IpHeaders, payload: &[u8], trail: &[u8], last: u8) -> String {
    let c = iph_canon(&h);
    let (w, ws) = iph_w(&h);
    let mut input = w.clone();
    input.extend_from_slice(payload);
    input.extend_from_slice(trail);
    let r = Some(c.as_str());
    let part1 = format!(
        "v={} w={} hl={} nh={} fr={} fs={} f4={} f6={} rd={}",
        c,
        ws,
        h.header_len(),
        iph_nh_s(&h),
        h.is_fragmenting_payload() as u8,
        iph_sres(r, &input, iph_fs(&input)),
        iph_sres(r, &input, iph_f4(&input)),
        iph_sres(r, &input, iph_f6(&input)),
        iph_rres(r, &input)
    );
    let mut b = h.clone();
    let et = b.set_next_headers(IpNumber(last));
    let part2 = match b.set_payload_len(payload.len()) {
        Err(_) => format!("b={} et={} spl=err bw=- bfs=- brd=-", iph_canon(&b), et.0),
        Ok(()) => {
            let cb = iph_canon(&b);
            let (bw, bws) = iph_w(&b);
            let mut binput = bw.clone();
            binput.extend_from_slice(payload);
            binput.extend_from_slice(trail);
            let rb = Some(cb.as_str());
            format!(
                "b={} et={} spl=ok bw={} bfs={} brd={}",
                cb,
                et.0,
                bws,
                iph_sres(rb, &binput, iph_fs(&binput)),
                iph_rres(rb, &binput)
            )
        }
    };
    format!("{} {}", part1, part2)
}
fn iph_num(s: &str, top: u64) -> Option<u64> {
    match s.parse::<u128>() {
        Ok(v) if v <= top as u128 => Some(v as u64),
        _ => None,
    }
}
fn iph_raw_of(t: &str) -> Option<Option<Ipv6RawExtHeader>> {
    if t == "-" {
        return Some(None);
    }
    let (nh, p) = t.split_once(':').unwrap();
    let nh = iph_num(nh, 255)?;
    Ipv6RawExtHeader::new_raw(IpNumber(nh as u8), &unhex(p)).ok().map(Some)
}
fn iph_frag_of(t: &str) -> Option<Option<Ipv6FragmentHeader>> {
    if t == "-" {
        return Some(None);
    }
    let p: Vec<&str> = t.split(':').collect();
    let nh = iph_num(p[0], 255)?;
    let fo = IpFragOffset::try_new(iph_num(p[1], 65535)? as u16).ok()?;
    let id = iph_num(p[3], u32::MAX as u64)?;
    Some(Some(Ipv6FragmentHeader::new(IpNumber(nh as u8), fo, p[2] == "1", id as u32)))
}
fn iph_auth_of(t: &str, stale: &str) -> Option<Option<IpAuthHeader>> {
    if t == "-" {
        return Some(None);
    }
    let p: Vec<&str> = t.split(':').collect();
    let nh = iph_num(p[0], 255)?;
    let spi = iph_num(p[1], u32::MAX as u64)?;
    let seq = iph_num(p[2], u32::MAX as u64)?;
    let icv = unhex(p[3]);
    let first = if stale == "-" { icv.clone() } else { unhex(stale) };
    let mut h = IpAuthHeader::new(IpNumber(nh as u8), spi as u32, seq as u32, &first).ok()?;
    if stale != "-" {
        h.set_raw_icv(&icv).ok()?;
    }
    Some(Some(h))
}
fn iph_value(a: &[&str]) -> String {
    let noval = "noval".to_string();
    if a[0] == "4" {
        let f = &a[1..];
        let p = |i: usize, top: u64| iph_num(f[i], top);
        let arr4 = |s: &str| -> Option<[u8; 4]> { unhex(s).try_into().ok() };
        let (Some(src), Some(dst)) = (arr4(f[10]), arr4(f[11])) else {
            return noval;
        };
        let (Some(dscp), Some(ecn), Some(tl), Some(id), Some(fo), Some(ttl), Some(pr), Some(ck), Some(last)) = (
            p(0, 255),
            p(1, 255),
            p(2, 65535),
            p(3, 65535),
            p(6, 65535),
            p(7, 255),
            p(8, 255),
            p(9, 65535),
            p(17, 255),
        ) else {
            return noval;
        };
        let (Ok(dscp), Ok(ecn), Ok(fo), Ok(opts)) = (
            IpDscp::try_new(dscp as u8),
            IpEcn::try_new(ecn as u8),
            IpFragOffset::try_new(fo as u16),
            Ipv4Options::try_from(&unhex(f[12])[..]),
        ) else {
            return noval;
        };
        let Some(auth) = iph_auth_of(f[13], f[14]) else {
            return noval;
        };
        let hd = Ipv4Header {
            dscp,
            ecn,
            total_len: tl as u16,
            identification: id as u16,
            dont_fragment: f[4] == "1",
            more_fragments: f[5] == "1",
            fragment_offset: fo,
            time_to_live: ttl as u8,
            protocol: IpNumber(pr as u8),
            header_checksum: ck as u16,
            source: src,
            destination: dst,
            options: opts,
        };
        iph_value_line(
            IpHeaders::Ipv4(hd, Ipv4Extensions { auth }),
            &unhex(f[15]),
            &unhex(f[16]),
            last as u8,
        )
    } else {
        let f = &a[1..];
        let p = |i: usize, top: u64| iph_num(f[i], top);
        let arr16 = |s: &str| -> Option<[u8; 16]> { unhex(s).try_into().ok() };
        let (Some(src), Some(dst)) = (arr16(f[5]), arr16(f[6])) else {
            return noval;
        };
        let (Some(tc), Some(fl), Some(pl), Some(nh), Some(hop), Some(last)) =
            (p(0, 255), p(1, u32::MAX as u64), p(2, 65535), p(3, 255), p(4, 255), p(15, 255))
        else {
            return noval;
        };
        let Ok(fl) = Ipv6FlowLabel::try_new(fl as u32) else {
            return noval;
        };
        let (Some(xhop), Some(xdst), Some(xrt), Some(xfd), Some(xfrag), Some(xauth)) = (
            iph_raw_of(f[7]),
            iph_raw_of(f[8]),
            iph_raw_of(f[9]),
            iph_raw_of(f[10]),
            iph_frag_of(f[11]),
            iph_auth_of(f[12], "-"),
        ) else {
            return noval;
        };
        if xrt.is_none() && xfd.is_some() {
            return noval;
        }
        let hd = Ipv6Header {
            traffic_class: tc as u8,
            flow_label: fl,
            payload_length: pl as u16,
            next_header: IpNumber(nh as u8),
            hop_limit: hop as u8,
            source: src,
            destination: dst,
        };
        let e = Ipv6Extensions {
            hop_by_hop_options: xhop,
            destination_options: xdst,
            routing: xrt.map(|r| Ipv6RoutingExtensions {
                routing: r,
                final_destination_options: xfd,
            }),
            fragment: xfrag,
            auth: xauth,
        };
        iph_value_line(IpHeaders::Ipv6(hd, e), &unhex(f[13]), &unhex(f[14]), last as u8)
    }
}
fn run_iph(parts: &[&str]) -> Option<String> {
    match (parts[0], parts[1]) {
        ("v", "iph") => Some(iph_value(&parts[2..])),
        ("b", "iph") => Some(iph_bytes(&unhex(parts[2]))),
        _ => None,
    }
}
// ---- end extend-c08c ----

fn run(line: &str) -> String {
    let parts: Vec<&str> = line.split_whitespace().collect();
    if let Some(r) = run_linknet(&parts) {
        return r; // extend-c08a hook
    }
    if let Some(r) = run_iph(&parts) {
        return r; // extend-c08c hook
    }
    match (parts[0], parts[1]) {
        ("v", "tcp") => tcp_value(&parts[2..]),
        ("v", "ipv4") => ipv4_value(&parts[2..]),
        ("v", "frag") => frag_value(&parts[2..]),
        ("b", t) => {
            let bs = unhex(parts[2]);
            match t {
                "tcp" => bytes_case(&tcp_ops(), &bs),
                "ipv4" => bytes_case(&ipv4_ops(), &bs),
                "ipv6" => bytes_case(&ipv6_ops(), &bs),
                "udp" => bytes_case(&udp_ops(), &bs),
                "eth" => bytes_case(&eth_ops(), &bs),
                "vlan" => bytes_case(&vlan_ops(), &bs),
                "sll" => bytes_case(&sll_ops(), &bs),
                "macsec" => bytes_case(&macsec_ops(), &bs),
                "arp" => bytes_case(&arp_ops(), &bs),
                "arpeth" => bytes_case(&arpeth_ops(), &bs),
                "auth" => bytes_case(&auth_ops(), &bs),
                "rawext" => bytes_case(&rawext_ops(), &bs),
                "frag" => bytes_case(&frag_ops(), &bs),
                "icmp4" => bytes_case(&icmp4_ops(), &bs),
                "icmp6" => bytes_case(&icmp6_ops(), &bs),
                "igmp" => bytes_case(&igmp_ops(), &bs),
                "grec" => bytes_case(&grec_ops(), &bs),
                "prefix" => bytes_case(&prefix_ops(), &bs),
                "ext4" => bytes_case(&ext4_ops(), &bs),
                "ext6" => bytes_case(&ext6_ops(), &bs),
                "iph" => bytes_case(&iph_ops(), &bs),
                _ => panic!("bad c08 type {}", t),
            }
        }
        _ => panic!("bad c08 case {}", line),
    }
}
