//! C15: bounded bit-field types, packing and unpacking of bit fields.
//! Case and output formats: see tools/props/c15.py and ocaml/run_c15.ml.
use etherparse::*;
use std::convert::TryFrom;
use vh::*;

fn main() {
    main_loop(run);
}

fn fnv(recs: &[String]) -> String {
    let mut h: u64 = 0xcbf29ce484222325;
    for r in recs {
        for b in r.bytes().chain(std::iter::once(b'\n')) {
            h ^= b as u64;
            h = h.wrapping_mul(0x100000001b3);
        }
    }
    format!("{:016x}", h)
}

fn batch<F: FnMut(u64) -> String>(prefix: &str, lo: u64, hi: u64, mut f: F) -> String {
    let p = if prefix.is_empty() {
        String::new()
    } else {
        format!("{} ", prefix)
    };
    if hi - lo == 1 {
        format!("{}{}", p, f(lo))
    } else {
        let recs: Vec<String> = (lo..hi).map(|v| f(v)).collect();
        format!("{}n={} h={}", p, hi - lo, fnv(&recs))
    }
}

fn rle<F: FnMut(u64) -> char>(lo: u64, hi: u64, mut f: F) -> String {
    let mut out = String::new();
    let mut cur = ' ';
    let mut cnt = 0u64;
    for v in lo..hi {
        let c = f(v);
        if c == cur {
            cnt += 1;
        } else {
            if cnt > 0 {
                if !out.is_empty() {
                    out.push(',');
                }
                out.push_str(&format!("{}*{}", cur, cnt));
            }
            cur = c;
            cnt = 1;
        }
    }
    if cnt > 0 {
        if !out.is_empty() {
            out.push(',');
        }
        out.push_str(&format!("{}*{}", cur, cnt));
    }
    out
}

fn sb(b: bool) -> &'static str {
    if b {
        "1"
    } else {
        "0"
    }
}

/// classification of one checked construction: value type $t, argument type $a
macro_rules! cls {
    ($r:expr, $v:expr, $max:expr) => {
        match $r {
            Ok(x) => {
                if x.value() == $v {
                    'k'
                } else {
                    'X'
                }
            }
            Err(e) => {
                if e.actual == $v && e.max_allowed == $max {
                    'e'
                } else {
                    'X'
                }
            }
        }
    };
}

macro_rules! try_ty {
    ($lo:expr, $hi:expr, $ty:ty, $arg:ty, $max:expr, $new:path) => {{
        let max = $max;
        format!(
            "max={} {}",
            max,
            rle($lo, $hi, |v| {
                let v = v as $arg;
                let a = cls!($new(v), v, max);
                let b = cls!(<$ty>::try_from(v), v, max);
                if a == b {
                    a
                } else {
                    'X'
                }
            })
        )
    }};
}

fn vlan_fields(h: &SingleVlanHeader) -> String {
    format!(
        "{},{},{},{}",
        h.pcp.value(),
        sb(h.drop_eligible_indicator),
        h.vlan_id.value(),
        h.ether_type.0
    )
}

fn vlan_dec(bs: &[u8]) -> String {
    let b = if bs.len() == 4 {
        vlan_fields(&SingleVlanHeader::from_bytes([bs[0], bs[1], bs[2], bs[3]]))
    } else {
        "-".to_string()
    };
    let h = match SingleVlanHeaderSlice::from_slice(bs) {
        Ok(s) => {
            // accessors one by one, then to_header must agree
            let a = format!(
                "{},{},{},{}",
                s.priority_code_point().value(),
                sb(s.drop_eligible_indicator()),
                s.vlan_identifier().value(),
                s.ether_type().0
            );
            let t = vlan_fields(&s.to_header());
            let f = match SingleVlanHeader::from_slice(bs) {
                Ok((h, _)) => vlan_fields(&h),
                Err(_) => "err-len".to_string(),
            };
            if a == t && t == f {
                a
            } else {
                format!("DIFF({}|{}|{})", a, t, f)
            }
        }
        Err(_) => "err-len".to_string(),
    };
    let s = match SingleVlanSlice::from_slice(bs) {
        Ok(s) => {
            let a = format!(
                "{},{},{},{}",
                s.priority_code_point().value(),
                sb(s.drop_eligible_indicator()),
                s.vlan_identifier().value(),
                s.ether_type().0
            );
            let t = vlan_fields(&s.to_header());
            if a == t {
                a
            } else {
                format!("DIFF({}|{})", a, t)
            }
        }
        Err(_) => "err-len".to_string(),
    };
    format!("b:{} h:{} s:{}", b, h, s)
}

fn v4_fields(h: &Ipv4Header) -> String {
    format!(
        "{},{},{},{},{},{},{},{},{},{},{},{},{}",
        h.dscp.value(),
        h.ecn.value(),
        h.total_len,
        h.identification,
        sb(h.dont_fragment),
        sb(h.more_fragments),
        h.fragment_offset.value(),
        h.time_to_live,
        h.protocol.0,
        h.header_checksum,
        hex(&h.source),
        hex(&h.destination),
        hex(&h.options[..])
    )
}

fn v4_dec(bs: &[u8]) -> String {
    use err::ipv4::{HeaderReadError, HeaderSliceError};
    let s = match Ipv4HeaderSlice::from_slice(bs) {
        Ok(s) => {
            let a = format!(
                "{},{},{},{},{},{},{},{},{},{},{},{},{}",
                s.dcp().value(),
                s.ecn().value(),
                s.total_len(),
                s.identification(),
                sb(s.dont_fragment()),
                sb(s.more_fragments()),
                s.fragments_offset().value(),
                s.ttl(),
                s.protocol().0,
                s.header_checksum(),
                hex(&s.source()),
                hex(&s.destination()),
                hex(s.options())
            );
            let t = v4_fields(&s.to_header());
            let f = match Ipv4Header::from_slice(bs) {
                Ok((h, _)) => v4_fields(&h),
                Err(_) => "err".to_string(),
            };
            if a == t && t == f {
                a
            } else {
                format!("DIFF({}|{}|{})", a, t, f)
            }
        }
        Err(HeaderSliceError::Len(_)) => "err-len".to_string(),
        Err(HeaderSliceError::Content(_)) => "err-content".to_string(),
    };
    let mut cur = std::io::Cursor::new(bs);
    let r = match Ipv4Header::read(&mut cur) {
        Ok(h) => v4_fields(&h),
        Err(HeaderReadError::Io(_)) => "err-io".to_string(),
        Err(HeaderReadError::Content(_)) => "err-content".to_string(),
    };
    format!("s:{} r:{}", s, r)
}

fn v6_tail(h: &Ipv6Header) -> String {
    format!(
        "{},{},{},{},{},{}",
        h.flow_label.value(),
        h.payload_length,
        h.next_header.0,
        h.hop_limit,
        hex(&h.source),
        hex(&h.destination)
    )
}

fn v6_dec(bs: &[u8]) -> String {
    use err::ipv6::{HeaderReadError, HeaderSliceError};
    let s = match Ipv6HeaderSlice::from_slice(bs) {
        Ok(s) => {
            let a = format!(
                "{},{},{},{},{},{},{},{},{}",
                s.traffic_class(),
                s.dscp().value(),
                s.ecn().value(),
                s.flow_label().value(),
                s.payload_length(),
                s.next_header().0,
                s.hop_limit(),
                hex(&s.source()),
                hex(&s.destination())
            );
            let h = s.to_header();
            let t = format!(
                "{},{},{},{}",
                h.traffic_class,
                s.dscp().value(),
                s.ecn().value(),
                v6_tail(&h)
            );
            let f = match Ipv6Header::from_slice(bs) {
                Ok((h, _)) => format!(
                    "{},{},{},{}",
                    h.traffic_class,
                    s.dscp().value(),
                    s.ecn().value(),
                    v6_tail(&h)
                ),
                Err(_) => "err".to_string(),
            };
            if a == t && t == f {
                a
            } else {
                format!("DIFF({}|{}|{})", a, t, f)
            }
        }
        Err(HeaderSliceError::Len(_)) => "err-len".to_string(),
        Err(HeaderSliceError::Content(_)) => "err-content".to_string(),
    };
    let mut cur = std::io::Cursor::new(bs);
    let r = match Ipv6Header::read(&mut cur) {
        Ok(h) => format!("{},{}", h.traffic_class, v6_tail(&h)),
        Err(HeaderReadError::Io(_)) => "err-io".to_string(),
        Err(HeaderReadError::Content(_)) => "err-content".to_string(),
    };
    format!("s:{} r:{}", s, r)
}

fn fr_fields(h: &Ipv6FragmentHeader) -> String {
    format!(
        "{},{},{},{}",
        h.next_header.0,
        h.fragment_offset.value(),
        sb(h.more_fragments),
        h.identification
    )
}

fn fr_dec(bs: &[u8]) -> String {
    let s = match Ipv6FragmentHeaderSlice::from_slice(bs) {
        Ok(s) => {
            let a = format!(
                "{},{},{},{}",
                s.next_header().0,
                s.fragment_offset().value(),
                sb(s.more_fragments()),
                s.identification()
            );
            let t = fr_fields(&s.to_header());
            let f = match Ipv6FragmentHeader::from_slice(bs) {
                Ok((h, _)) => fr_fields(&h),
                Err(_) => "err".to_string(),
            };
            if a == t && t == f {
                a
            } else {
                format!("DIFF({}|{}|{})", a, t, f)
            }
        }
        Err(_) => "err-len".to_string(),
    };
    let mut cur = std::io::Cursor::new(bs);
    let r = match Ipv6FragmentHeader::read(&mut cur) {
        Ok(h) => fr_fields(&h),
        Err(_) => "err-io".to_string(),
    };
    format!("s:{} r:{}", s, r)
}

fn pt_str(p: &MacsecPType) -> String {
    match p {
        MacsecPType::Unmodified(e) => format!("u{}", e.0),
        MacsecPType::Modified => "m".to_string(),
        MacsecPType::Encrypted => "e".to_string(),
        MacsecPType::EncryptedUnmodified => "eu".to_string(),
    }
}

fn ms_fields(h: &MacsecHeader) -> String {
    format!(
        "{},{},{},{},{},{},{}",
        pt_str(&h.ptype),
        sb(h.endstation_id),
        sb(h.scb),
        h.an.value(),
        h.short_len.value(),
        h.packet_nr,
        match h.sci {
            Some(s) => s.to_string(),
            None => "-".to_string(),
        }
    )
}

fn ms_dec(bs: &[u8]) -> String {
    use err::macsec::HeaderSliceError;
    let s = match MacsecHeaderSlice::from_slice(bs) {
        Ok(s) => {
            let a = format!(
                "{},{},{},{},{},{},{}",
                pt_str(&s.ptype()),
                sb(s.endstation_id()),
                sb(s.tci_scb()),
                s.an().value(),
                s.short_len().value(),
                s.packet_nr(),
                match s.sci() {
                    Some(x) => x.to_string(),
                    None => "-".to_string(),
                }
            );
            let t = ms_fields(&s.to_header());
            let f = match MacsecHeader::from_slice(bs) {
                Ok(h) => ms_fields(&h),
                Err(_) => "err".to_string(),
            };
            // derived accessors of the slice must agree with those of the decoded struct (they read the
            // same 6 bit short length / TCI bits; reserved bits of byte 1 must not leak into them)
            let h = s.to_header();
            let derived_ok = s.expected_payload_len() == h.expected_payload_len()
                && s.header_len() == h.header_len()
                && s.next_ether_type() == h.next_ether_type();
            if a == t && t == f && derived_ok {
                a
            } else if !derived_ok {
                format!(
                    "DIFF(derived: slice epl={:?} hl={} net={:?} | struct epl={:?} hl={} net={:?})",
                    s.expected_payload_len(), s.header_len(), s.next_ether_type().map(|e| e.0),
                    h.expected_payload_len(), h.header_len(), h.next_ether_type().map(|e| e.0)
                )
            } else {
                format!("DIFF({}|{}|{})", a, t, f)
            }
        }
        Err(HeaderSliceError::Len(_)) => "err-len".to_string(),
        Err(HeaderSliceError::Content(_)) => "err-content".to_string(),
    };
    format!("s:{}", s)
}

fn arr<const N: usize>(h: &str) -> [u8; N] {
    let v = unhex(h);
    let mut a = [0u8; N];
    a.copy_from_slice(&v);
    a
}

fn run(line: &str) -> String {
    let p: Vec<&str> = line.split_whitespace().collect();
    let num = |i: usize| -> u64 { p[i].parse().unwrap() };
    match p[0] {
        "try" => {
            let (lo, hi) = (num(2), num(3));
            match p[1] {
                "VlanId" => try_ty!(lo, hi, VlanId, u16, VlanId::MAX_U16, VlanId::try_new),
                "VlanPcp" => try_ty!(lo, hi, VlanPcp, u8, VlanPcp::MAX_U8, VlanPcp::try_new),
                "IpDscp" => try_ty!(lo, hi, IpDscp, u8, IpDscp::MAX_U8, IpDscp::try_new),
                "IpEcn" => try_ty!(lo, hi, IpEcn, u8, IpEcn::MAX_U8, IpEcn::try_new),
                "IpFragOffset" => try_ty!(
                    lo,
                    hi,
                    IpFragOffset,
                    u16,
                    IpFragOffset::MAX_U16,
                    IpFragOffset::try_new
                ),
                "Ipv6FlowLabel" => try_ty!(
                    lo,
                    hi,
                    Ipv6FlowLabel,
                    u32,
                    Ipv6FlowLabel::MAX_U32,
                    Ipv6FlowLabel::try_new
                ),
                "MacsecAn" => try_ty!(lo, hi, MacsecAn, u8, MacsecAn::MAX_U8, MacsecAn::try_new),
                "MacsecShortLen" => try_ty!(
                    lo,
                    hi,
                    MacsecShortLen,
                    u8,
                    MacsecShortLen::MAX_U8,
                    MacsecShortLen::try_from_u8
                ),
                "Qrv" => try_ty!(lo, hi, igmp::Qrv, u8, igmp::Qrv::MAX_U8, igmp::Qrv::try_new),
                t => panic!("bad type {}", t),
            }
        }
        "fromlen" => {
            let v: Vec<String> = (num(1)..num(2))
                .map(|v| MacsecShortLen::from_len(v as usize).value().to_string())
                .collect();
            v.join(",")
        }
        "fromlenbig" => {
            let v: u128 = p[1].parse().unwrap();
            MacsecShortLen::from_len(v as usize).value().to_string()
        }
        "setpl" => {
            let unm = p[1] == "1";
            let v: Vec<String> = (num(2)..num(3))
                .map(|v| {
                    let mut h = MacsecHeader {
                        ptype: if unm {
                            MacsecPType::Unmodified(EtherType(2048))
                        } else {
                            MacsecPType::Modified
                        },
                        endstation_id: false,
                        scb: false,
                        an: MacsecAn::ZERO,
                        short_len: MacsecShortLen::try_from_u8(33).unwrap(),
                        packet_nr: 0,
                        sci: None,
                    };
                    h.set_payload_len(v as usize);
                    h.short_len.value().to_string()
                })
                .collect();
            v.join(",")
        }
        "vlan" => {
            let base = SingleVlanHeader {
                pcp: VlanPcp::try_new(num(4) as u8).unwrap(),
                drop_eligible_indicator: p[5] == "1",
                vlan_id: VlanId::try_new(num(6) as u16).unwrap(),
                ether_type: EtherType(num(7) as u16),
            };
            let f = p[1];
            let b2 = base.clone();
            batch(
                &format!("base={}", hex(&base.to_bytes())),
                num(2),
                num(3),
                move |v| {
                    let mut h = b2.clone();
                    match f {
                        "pcp" => h.pcp = VlanPcp::try_new(v as u8).unwrap(),
                        "dei" => h.drop_eligible_indicator = v != 0,
                        "vid" => h.vlan_id = VlanId::try_new(v as u16).unwrap(),
                        "et" => h.ether_type = EtherType(v as u16),
                        "none" => {}
                        _ => panic!("vlan field"),
                    }
                    let bs = h.to_bytes();
                    format!("{} {}", hex(&bs), vlan_dec(&bs))
                },
            )
        }
        "ipv4" => {
            let opt = unhex(p[16]);
            let base = Ipv4Header {
                dscp: IpDscp::try_new(num(4) as u8).unwrap(),
                ecn: IpEcn::try_new(num(5) as u8).unwrap(),
                total_len: num(6) as u16,
                identification: num(7) as u16,
                dont_fragment: p[8] == "1",
                more_fragments: p[9] == "1",
                fragment_offset: IpFragOffset::try_new(num(10) as u16).unwrap(),
                time_to_live: num(11) as u8,
                protocol: IpNumber(num(12) as u8),
                header_checksum: num(13) as u16,
                source: arr::<4>(p[14]),
                destination: arr::<4>(p[15]),
                options: Ipv4Options::try_from(&opt[..]).unwrap(),
            };
            let f = p[1];
            let b2 = base.clone();
            batch(
                &format!("base={}", hex(&base.to_bytes())),
                num(2),
                num(3),
                move |v| {
                    let mut h = b2.clone();
                    match f {
                        "dscp" => h.dscp = IpDscp::try_new(v as u8).unwrap(),
                        "ecn" => h.ecn = IpEcn::try_new(v as u8).unwrap(),
                        "tl" => h.total_len = v as u16,
                        "id" => h.identification = v as u16,
                        "df" => h.dont_fragment = v != 0,
                        "mf" => h.more_fragments = v != 0,
                        "fo" => h.fragment_offset = IpFragOffset::try_new(v as u16).unwrap(),
                        "ttl" => h.time_to_live = v as u8,
                        "pr" => h.protocol = IpNumber(v as u8),
                        "ck" => h.header_checksum = v as u16,
                        "none" => {}
                        _ => panic!("ipv4 field"),
                    }
                    let bs = h.to_bytes();
                    let mut w = Vec::new();
                    h.write_raw(&mut w).unwrap();
                    format!("{} wr={} {}", hex(&bs), sb(w[..] == bs[..]), v4_dec(&bs))
                },
            )
        }
        "ipv6" => {
            let base = Ipv6Header {
                traffic_class: num(4) as u8,
                flow_label: Ipv6FlowLabel::try_new(num(5) as u32).unwrap(),
                payload_length: num(6) as u16,
                next_header: IpNumber(num(7) as u8),
                hop_limit: num(8) as u8,
                source: arr::<16>(p[9]),
                destination: arr::<16>(p[10]),
            };
            let f = p[1];
            let b2 = base.clone();
            batch(
                &format!("base={}", hex(&base.to_bytes())),
                num(2),
                num(3),
                move |v| {
                    let mut h = b2.clone();
                    match f {
                        "dscp" => h.set_dscp(IpDscp::try_new(v as u8).unwrap()),
                        "ecn" => h.set_ecn(IpEcn::try_new(v as u8).unwrap()),
                        "tc" => h.traffic_class = v as u8,
                        "fl" => h.flow_label = Ipv6FlowLabel::try_new(v as u32).unwrap(),
                        "pl" => h.payload_length = v as u16,
                        "nh" => h.next_header = IpNumber(v as u8),
                        "hl" => h.hop_limit = v as u8,
                        "none" => {}
                        _ => panic!("ipv6 field"),
                    }
                    let bs = h.to_bytes();
                    format!(
                        "{} tc={} g:{},{} {}",
                        hex(&bs),
                        h.traffic_class,
                        h.dscp().value(),
                        h.ecn().value(),
                        v6_dec(&bs)
                    )
                },
            )
        }
        "frag" => {
            let base = Ipv6FragmentHeader::new(
                IpNumber(num(4) as u8),
                IpFragOffset::try_new(num(5) as u16).unwrap(),
                p[6] == "1",
                num(7) as u32,
            );
            let f = p[1];
            let b2 = base.clone();
            batch(
                &format!("base={}", hex(&base.to_bytes())),
                num(2),
                num(3),
                move |v| {
                    let mut h = b2.clone();
                    match f {
                        "nh" => h.next_header = IpNumber(v as u8),
                        "fo" => h.fragment_offset = IpFragOffset::try_new(v as u16).unwrap(),
                        "mf" => h.more_fragments = v != 0,
                        "id" => h.identification = v as u32,
                        "none" => {}
                        _ => panic!("frag field"),
                    }
                    let bs = h.to_bytes();
                    format!("{} {}", hex(&bs), fr_dec(&bs))
                },
            )
        }
        "macsec" => {
            let pt = match p[4] {
                "m" => MacsecPType::Modified,
                "e" => MacsecPType::Encrypted,
                "eu" => MacsecPType::EncryptedUnmodified,
                s => MacsecPType::Unmodified(EtherType(s[1..].parse().unwrap())),
            };
            let base = MacsecHeader {
                ptype: pt,
                endstation_id: p[5] == "1",
                scb: p[6] == "1",
                an: MacsecAn::try_new(num(7) as u8).unwrap(),
                short_len: MacsecShortLen::try_from_u8(num(8) as u8).unwrap(),
                packet_nr: num(9) as u32,
                sci: if p[10] == "-" {
                    None
                } else {
                    Some(p[10].parse::<u64>().unwrap())
                },
            };
            let f = p[1];
            let b2 = base.clone();
            batch(
                &format!("base={}", hex(&base.to_bytes())),
                num(2),
                num(3),
                move |v| {
                    let mut h = b2.clone();
                    match f {
                        "es" => h.endstation_id = v != 0,
                        "scb" => h.scb = v != 0,
                        "an" => h.an = MacsecAn::try_new(v as u8).unwrap(),
                        "sl" => h.short_len = MacsecShortLen::try_from_u8(v as u8).unwrap(),
                        "pn" => h.packet_nr = v as u32,
                        "none" => {}
                        _ => panic!("macsec field"),
                    }
                    let bs = h.to_bytes();
                    format!("{} {}", hex(&bs), ms_dec(&bs))
                },
            )
        }
        "igmp" => {
            use igmp::*;
            let raw = num(1) as u8;
            let t = MembershipQueryWithSourcesHeader {
                max_response_code: MaxResponseCode(100),
                group_address: GroupAddress::new([224, 0, 0, 1]),
                raw_byte_8: raw,
                qqic: 125,
                num_of_sources: 3,
            };
            let hx2 = |v: Vec<u8>| -> String { v.iter().map(|b| format!("{:02x}", b)).collect() };
            let q: Vec<u8> = (0..8u8)
                .map(|q| {
                    let mut h = t.clone();
                    h.set_qrv(Qrv::try_new(q).unwrap());
                    h.raw_byte_8
                })
                .collect();
            let s: Vec<u8> = [false, true]
                .iter()
                .map(|b| {
                    let mut h = t.clone();
                    h.set_s_flag(*b);
                    h.raw_byte_8
                })
                .collect();
            let f: Vec<u8> = (0..=255u8)
                .map(|v| {
                    let mut h = t.clone();
                    h.set_flags(v);
                    h.raw_byte_8
                })
                .collect();
            let hdr = IgmpHeader {
                igmp_type: IgmpType::MembershipQueryWithSources(t.clone()),
                checksum: 0xabcd,
            };
            let enc = hdr.to_bytes();
            let dec = match IgmpHeader::from_slice(&enc) {
                Ok((h, _)) => match h.igmp_type {
                    IgmpType::MembershipQueryWithSources(x) => x.raw_byte_8.to_string(),
                    _ => "other".to_string(),
                },
                Err(_) => "err-len".to_string(),
            };
            format!(
                "g={},{},{} q={} s={} f={} enc={} dec={}",
                t.flags(),
                sb(t.s_flag()),
                t.qrv().value(),
                hx2(q),
                hx2(s),
                hx2(f),
                hex(&enc),
                dec
            )
        }
        "dec" => {
            let t = unhex(p[5]);
            let pos = num(4) as usize;
            let hdr = p[1];
            batch("", num(2), num(3), move |v| {
                let mut bs = t.clone();
                bs[pos] = (v >> 8) as u8;
                bs[pos + 1] = (v & 255) as u8;
                match hdr {
                    "vlan" => vlan_dec(&bs),
                    "ipv4" => v4_dec(&bs),
                    "ipv6" => v6_dec(&bs),
                    "frag" => fr_dec(&bs),
                    "macsec" => ms_dec(&bs),
                    _ => panic!("dec hdr"),
                }
            })
        }
        t => panic!("bad c15 tag {}", t),
    }
}
