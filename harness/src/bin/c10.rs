//! C10: PacketBuilder.  Case format: see tools/props/c10.py / ocaml/run_c10.ml.
//!   b <link> <vlan> <net> <transport> <payload>
//! Output: "<verdict> size=<size()> <hex written through write(io::Write)> ; vec=.. slice=.. short=.. parse=.. crate=.."
//! The part in front of " ; " is what the model prints; the rest is evaluated by the
//! oracle in tools/props/c10.py.
use etherparse::err::packet::{BuildSliceWriteError, BuildVecWriteError, BuildWriteError};
use etherparse::err::ValueTooBigError;
use etherparse::*;
use vh::*;

fn main() {
    main_loop(run);
}

fn num(s: &str) -> u64 {
    s.parse().unwrap()
}

fn arr<const N: usize>(h: &str) -> [u8; N] {
    let v = unhex(h);
    assert!(v.len() == N, "array length");
    let mut a = [0u8; N];
    a.copy_from_slice(&v);
    a
}

fn payload_of(t: &str) -> Vec<u8> {
    if t == "-" {
        return Vec::new();
    }
    if let Some(r) = t.strip_prefix('g') {
        let (l, seed) = r.split_once('.').unwrap();
        let (l, seed) = (num(l) as usize, num(seed) as usize);
        return (0..l).map(|i| ((seed + 131 * i + 7 * (i >> 8)) & 255) as u8).collect();
    }
    if let (Some(r), true) = (t.strip_prefix('c'), t.contains('.')) {
        let (l, b) = r.split_once('.').unwrap();
        return vec![num(b) as u8; num(l) as usize];
    }
    unhex(t)
}

// ---------------------------------------------------------------- configuration
enum Start {
    None,
    Eth(PacketBuilderStep<Ethernet2Header>),
    Sll(PacketBuilderStep<LinuxSllHeader>),
    Vlan(PacketBuilderStep<VlanHeader>),
}

enum NetSpec {
    V4s([u8; 4], [u8; 4], u8),
    V6s([u8; 16], [u8; 16], u8),
    Ip(IpHeaders),
    Arp(ArpPacket),
}

enum Mid {
    Ip(PacketBuilderStep<IpHeaders>),
    Arp(PacketBuilderStep<ArpPacket>),
}

enum Fin {
    Udp(PacketBuilderStep<UdpHeader>),
    Tcp(PacketBuilderStep<TcpHeader>),
    I4(PacketBuilderStep<Icmpv4Header>),
    I6(PacketBuilderStep<Icmpv6Header>),
    Raw(PacketBuilderStep<IpHeaders>, IpNumber),
    Arp(PacketBuilderStep<ArpPacket>),
}

fn vlan1(t: &str) -> SingleVlanHeader {
    let p: Vec<&str> = t.split('.').collect();
    SingleVlanHeader {
        pcp: VlanPcp::try_new(num(p[0]) as u8).unwrap(),
        drop_eligible_indicator: p[1] == "1",
        vlan_id: VlanId::try_new(num(p[2]) as u16).unwrap(),
        ether_type: EtherType(num(p[3]) as u16),
    }
}

fn start_of(link: &str, vlan: &str) -> Start {
    let l: Vec<&str> = link.split('/').collect();
    let v: Vec<&str> = vlan.split('/').collect();
    match l[0] {
        "n" => {
            assert!(v[0] == "n", "vlan without ethernet2");
            Start::None
        }
        "s" => {
            assert!(v[0] == "n", "vlan behind linux_sll");
            Start::Sll(PacketBuilder::linux_sll(
                LinuxSllPacketType::try_from(num(l[1]) as u16).unwrap(),
                num(l[2]) as u16,
                arr::<8>(l[3]),
            ))
        }
        "e" => {
            let b = PacketBuilder::ethernet2(arr::<6>(l[1]), arr::<6>(l[2]));
            match v[0] {
                "n" => Start::Eth(b),
                "1s" => Start::Vlan(b.single_vlan(VlanId::try_new(num(v[1]) as u16).unwrap())),
                "2s" => Start::Vlan(b.double_vlan(
                    VlanId::try_new(num(v[1]) as u16).unwrap(),
                    VlanId::try_new(num(v[2]) as u16).unwrap(),
                )),
                "1h" => Start::Vlan(b.vlan(VlanHeader::Single(vlan1(v[1])))),
                "2h" => Start::Vlan(b.vlan(VlanHeader::Double(DoubleVlanHeader {
                    outer: vlan1(v[1]),
                    inner: vlan1(v[2]),
                }))),
                _ => panic!("vlan token"),
            }
        }
        _ => panic!("link token"),
    }
}

fn raw_of(t: &str) -> Option<Ipv6RawExtHeader> {
    if t == "-" {
        return None;
    }
    let (nh, p) = t.split_once(':').unwrap();
    Some(Ipv6RawExtHeader::new_raw(IpNumber(num(nh) as u8), &unhex(p)).unwrap())
}
fn frag_of(t: &str) -> Option<Ipv6FragmentHeader> {
    if t == "-" {
        return None;
    }
    let p: Vec<&str> = t.split(':').collect();
    Some(Ipv6FragmentHeader::new(
        IpNumber(num(p[0]) as u8),
        IpFragOffset::try_new(num(p[1]) as u16).unwrap(),
        p[2] == "1",
        num(p[3]) as u32,
    ))
}
fn auth_of(t: &str) -> Option<IpAuthHeader> {
    if t == "-" {
        return None;
    }
    let p: Vec<&str> = t.split(':').collect();
    Some(IpAuthHeader::new(IpNumber(num(p[0]) as u8), num(p[1]) as u32, num(p[2]) as u32, &unhex(p[3])).unwrap())
}

fn net_of(t: &str) -> NetSpec {
    let p: Vec<&str> = t.split('/').collect();
    match p[0] {
        "4s" => NetSpec::V4s(arr::<4>(p[1]), arr::<4>(p[2]), num(p[3]) as u8),
        "6s" => NetSpec::V6s(arr::<16>(p[1]), arr::<16>(p[2]), num(p[3]) as u8),
        "4h" => {
            let f: Vec<&str> = p[1].split('.').collect();
            let mut h = Ipv4Header::default();
            h.dscp = IpDscp::try_new(num(f[0]) as u8).unwrap();
            h.ecn = IpEcn::try_new(num(f[1]) as u8).unwrap();
            h.total_len = num(f[2]) as u16;
            h.identification = num(f[3]) as u16;
            h.dont_fragment = f[4] == "1";
            h.more_fragments = f[5] == "1";
            h.fragment_offset = IpFragOffset::try_new(num(f[6]) as u16).unwrap();
            h.time_to_live = num(f[7]) as u8;
            h.protocol = IpNumber(num(f[8]) as u8);
            h.header_checksum = num(f[9]) as u16;
            h.source = arr::<4>(p[2]);
            h.destination = arr::<4>(p[3]);
            h.options = Ipv4Options::try_from(&unhex(p[4])[..]).unwrap();
            let exts = Ipv4Extensions { auth: auth_of(p[5]) };
            NetSpec::Ip(IpHeaders::Ipv4(h, exts))
        }
        "6h" => {
            let f: Vec<&str> = p[1].split('.').collect();
            let h = Ipv6Header {
                traffic_class: num(f[0]) as u8,
                flow_label: Ipv6FlowLabel::try_new(num(f[1]) as u32).unwrap(),
                payload_length: num(f[2]) as u16,
                next_header: IpNumber(num(f[3]) as u8),
                hop_limit: num(f[4]) as u8,
                source: arr::<16>(p[2]),
                destination: arr::<16>(p[3]),
            };
            let x: Vec<&str> = p[4].split(';').collect();
            let exts = Ipv6Extensions {
                hop_by_hop_options: raw_of(x[0]),
                destination_options: raw_of(x[1]),
                routing: raw_of(x[2]).map(|r| Ipv6RoutingExtensions {
                    routing: r,
                    final_destination_options: raw_of(x[3]),
                }),
                fragment: frag_of(x[4]),
                auth: auth_of(x[5]),
            };
            NetSpec::Ip(IpHeaders::Ipv6(h, exts))
        }
        "a" => {
            let f: Vec<&str> = p[1].split('.').collect();
            NetSpec::Arp(
                ArpPacket::new(
                    ArpHardwareId(num(f[0]) as u16),
                    EtherType(num(f[1]) as u16),
                    ArpOperation(num(f[2]) as u16),
                    &unhex(p[2]),
                    &unhex(p[3]),
                    &unhex(p[4]),
                    &unhex(p[5]),
                )
                .unwrap(),
            )
        }
        _ => panic!("net token"),
    }
}

fn add_net(s: Start, n: NetSpec) -> Mid {
    macro_rules! go {
        ($b:expr) => {
            match n {
                NetSpec::V4s(a, b, t) => Mid::Ip($b.ipv4(a, b, t)),
                NetSpec::V6s(a, b, t) => Mid::Ip($b.ipv6(a, b, t)),
                NetSpec::Ip(h) => Mid::Ip($b.ip(h)),
                NetSpec::Arp(a) => Mid::Arp($b.arp(a)),
            }
        };
    }
    match s {
        Start::Eth(b) => go!(b),
        Start::Sll(b) => go!(b),
        Start::Vlan(b) => go!(b),
        Start::None => match n {
            NetSpec::V4s(a, b, t) => Mid::Ip(PacketBuilder::ipv4(a, b, t)),
            NetSpec::V6s(a, b, t) => Mid::Ip(PacketBuilder::ipv6(a, b, t)),
            NetSpec::Ip(h) => Mid::Ip(PacketBuilder::ip(h)),
            NetSpec::Arp(_) => panic!("arp without link layer"),
        },
    }
}

fn tcp_want(f: &[&str], opts: &[u8]) -> TcpHeader {
    let fl = num(f[4]);
    let bit = |k: u32| fl & (1 << k) != 0;
    let mut h = TcpHeader::new(num(f[0]) as u16, num(f[1]) as u16, num(f[2]) as u32, num(f[5]) as u16);
    h.acknowledgment_number = num(f[3]) as u32;
    h.fin = bit(0);
    h.syn = bit(1);
    h.rst = bit(2);
    h.psh = bit(3);
    h.ack = bit(4);
    h.urg = bit(5);
    h.ece = bit(6);
    h.cwr = bit(7);
    h.ns = bit(8);
    h.urgent_pointer = num(f[6]) as u16;
    h.checksum = num(f[7]) as u16;
    h.set_options_raw(opts).unwrap();
    h
}

fn tcp_elements(t: &str) -> Vec<TcpOptionElement> {
    let mut v = Vec::new();
    if t == "-" {
        return v;
    }
    for e in t.split(',') {
        let (k, a) = e.split_at(1);
        v.push(match k {
            "N" => TcpOptionElement::Noop,
            "M" => TcpOptionElement::MaximumSegmentSize(num(a) as u16),
            "W" => TcpOptionElement::WindowScale(num(a) as u8),
            "S" => TcpOptionElement::SelectiveAcknowledgementPermitted,
            "T" => {
                let (x, y) = a.split_once('-').unwrap();
                TcpOptionElement::Timestamp(num(x) as u32, num(y) as u32)
            }
            "K" => {
                let (x, y) = a.split_once('-').unwrap();
                TcpOptionElement::SelectiveAcknowledgement((num(x) as u32, num(y) as u32), [None, None, None])
            }
            _ => panic!("tcp option element"),
        });
    }
    v
}

struct Want {
    tcp: Option<TcpHeader>,
    icmp4: Option<Icmpv4Type>,
    icmp6: Option<Icmpv6Type>,
    udp: Option<(u16, u16)>,
}

fn add_transport(b: PacketBuilderStep<IpHeaders>, t: &str, want: &mut Want) -> Fin {
    let p: Vec<&str> = t.split('/').collect();
    match p[0] {
        "r" => Fin::Raw(b, IpNumber(num(p[1]) as u8)),
        "u" => {
            let (sp, dp) = p[1].split_once('.').unwrap();
            want.udp = Some((num(sp) as u16, num(dp) as u16));
            Fin::Udp(b.udp(num(sp) as u16, num(dp) as u16))
        }
        "ts" | "te" | "th" => {
            let f: Vec<&str> = p[1].split('.').collect();
            let opts = unhex(p[2]);
            let w = tcp_want(&f, &opts);
            want.tcp = Some(w.clone());
            if p[0] == "th" {
                return Fin::Tcp(b.tcp_header(w));
            }
            let mut s = b.tcp(w.source_port, w.destination_port, w.sequence_number, w.window_size);
            if w.ns {
                s = s.ns();
            }
            if w.fin {
                s = s.fin();
            }
            if w.syn {
                s = s.syn();
            }
            if w.rst {
                s = s.rst();
            }
            if w.psh {
                s = s.psh();
            }
            if w.ack {
                s = s.ack(w.acknowledgment_number);
            }
            if w.urg {
                s = s.urg(w.urgent_pointer);
            }
            if w.ece {
                s = s.ece();
            }
            if w.cwr {
                s = s.cwr();
            }
            if p[0] == "te" {
                s = s.options(&tcp_elements(p[3])).unwrap();
            } else {
                s = s.options_raw(&opts).unwrap();
            }
            Fin::Tcp(s)
        }
        "i4" => {
            let k: Vec<&str> = p[1].split('.').collect();
            match k[0] {
                "u" => {
                    let ty = Icmpv4Type::Unknown {
                        type_u8: num(k[1]) as u8,
                        code_u8: num(k[2]) as u8,
                        bytes5to8: arr::<4>(k[3]),
                    };
                    want.icmp4 = Some(ty);
                    Fin::I4(b.icmpv4_raw(num(k[1]) as u8, num(k[2]) as u8, arr::<4>(k[3])))
                }
                "q" | "Q" | "p" | "P" => {
                    let e = IcmpEchoHeader { id: num(k[1]) as u16, seq: num(k[2]) as u16 };
                    let ty = if k[0] == "q" || k[0] == "Q" { Icmpv4Type::EchoRequest(e) } else { Icmpv4Type::EchoReply(e) };
                    want.icmp4 = Some(ty.clone());
                    match k[0] {
                        "q" => Fin::I4(b.icmpv4_echo_request(e.id, e.seq)),
                        "p" => Fin::I4(b.icmpv4_echo_reply(e.id, e.seq)),
                        _ => Fin::I4(b.icmpv4(ty)),
                    }
                }
                "x" => {
                    // typed kinds: decoded by the crate from canonical header bytes
                    let hb = unhex(k[1]);
                    let (h, _) = Icmpv4Header::from_slice(&hb).unwrap();
                    want.icmp4 = Some(h.icmp_type.clone());
                    Fin::I4(b.icmpv4(h.icmp_type))
                }
                "du" | "rd" | "te" | "pp" | "tq" | "tp" => {
                    // typed kinds, constructed field by field (no decoder involved)
                    let ty = icmp4_typed(&k);
                    want.icmp4 = Some(ty.clone());
                    Fin::I4(b.icmpv4(ty))
                }
                _ => panic!("icmp4 token"),
            }
        }
        "i6" => {
            let k: Vec<&str> = p[1].split('.').collect();
            match k[0] {
                "u" => {
                    let ty = Icmpv6Type::Unknown {
                        type_u8: num(k[1]) as u8,
                        code_u8: num(k[2]) as u8,
                        bytes5to8: arr::<4>(k[3]),
                    };
                    want.icmp6 = Some(ty);
                    Fin::I6(b.icmpv6_raw(num(k[1]) as u8, num(k[2]) as u8, arr::<4>(k[3])))
                }
                "q" | "Q" | "p" | "P" => {
                    let e = IcmpEchoHeader { id: num(k[1]) as u16, seq: num(k[2]) as u16 };
                    let ty = if k[0] == "q" || k[0] == "Q" { Icmpv6Type::EchoRequest(e) } else { Icmpv6Type::EchoReply(e) };
                    want.icmp6 = Some(ty.clone());
                    match k[0] {
                        "q" => Fin::I6(b.icmpv6_echo_request(e.id, e.seq)),
                        "p" => Fin::I6(b.icmpv6_echo_reply(e.id, e.seq)),
                        _ => Fin::I6(b.icmpv6(ty)),
                    }
                }
                "x" => {
                    let hb = unhex(k[1]);
                    let (h, _) = Icmpv6Header::from_slice(&hb).unwrap();
                    want.icmp6 = Some(h.icmp_type.clone());
                    Fin::I6(b.icmpv6(h.icmp_type))
                }
                "du" | "tb" | "te" | "pp" | "rs" | "ra" | "ns" | "na" | "rd" => {
                    let ty = icmp6_typed(&k);
                    want.icmp6 = Some(ty.clone());
                    Fin::I6(b.icmpv6(ty))
                }
                _ => panic!("icmp6 token"),
            }
        }
        _ => panic!("transport token"),
    }
}

// ---------------------------------------------------------------- typed ICMP kinds
/// du.<code>.<mtu> | rd.<code>.<gateway hex> | te.<code> | pp.<code>.<pointer> |
/// tq|tp.<id>.<seq>.<originate>.<receive>.<transmit>
fn icmp4_typed(k: &[&str]) -> Icmpv4Type {
    use etherparse::icmpv4::*;
    match k[0] {
        "du" => {
            use DestUnreachableHeader::*;
            let mtu = num(k[2]) as u16;
            Icmpv4Type::DestinationUnreachable(match num(k[1]) {
                0 => Network,
                1 => Host,
                2 => Protocol,
                3 => Port,
                4 => FragmentationNeeded { next_hop_mtu: mtu },
                5 => SourceRouteFailed,
                6 => NetworkUnknown,
                7 => HostUnknown,
                8 => Isolated,
                9 => NetworkProhibited,
                10 => HostProhibited,
                11 => TosNetwork,
                12 => TosHost,
                13 => FilterProhibited,
                14 => HostPrecedenceViolation,
                15 => PrecedenceCutoff,
                _ => panic!("du code"),
            })
        }
        "rd" => Icmpv4Type::Redirect(RedirectHeader {
            code: match num(k[1]) {
                0 => RedirectCode::RedirectForNetwork,
                1 => RedirectCode::RedirectForHost,
                2 => RedirectCode::RedirectForTypeOfServiceAndNetwork,
                3 => RedirectCode::RedirectForTypeOfServiceAndHost,
                _ => panic!("rd code"),
            },
            gateway_internet_address: arr::<4>(k[2]),
        }),
        "te" => Icmpv4Type::TimeExceeded(match num(k[1]) {
            0 => TimeExceededCode::TtlExceededInTransit,
            1 => TimeExceededCode::FragmentReassemblyTimeExceeded,
            _ => panic!("te code"),
        }),
        "pp" => Icmpv4Type::ParameterProblem(match num(k[1]) {
            0 => ParameterProblemHeader::PointerIndicatesError(num(k[2]) as u8),
            1 => ParameterProblemHeader::MissingRequiredOption,
            2 => ParameterProblemHeader::BadLength,
            _ => panic!("pp code"),
        }),
        "tq" | "tp" => {
            let m = TimestampMessage {
                id: num(k[1]) as u16,
                seq: num(k[2]) as u16,
                originate_timestamp: num(k[3]) as u32,
                receive_timestamp: num(k[4]) as u32,
                transmit_timestamp: num(k[5]) as u32,
            };
            if k[0] == "tq" {
                Icmpv4Type::TimestampRequest(m)
            } else {
                Icmpv4Type::TimestampReply(m)
            }
        }
        _ => panic!("icmp4 typed token"),
    }
}

/// du.<code> | tb.<mtu> | te.<code> | pp.<code>.<pointer> | rs | ra.<cur hop limit>.<m>.<o>.<lifetime> |
/// ns | na.<r>.<s>.<o> | rd
fn icmp6_typed(k: &[&str]) -> Icmpv6Type {
    use etherparse::icmpv6::*;
    match k[0] {
        "du" => Icmpv6Type::DestinationUnreachable(match num(k[1]) {
            0 => DestUnreachableCode::NoRoute,
            1 => DestUnreachableCode::Prohibited,
            2 => DestUnreachableCode::BeyondScope,
            3 => DestUnreachableCode::Address,
            4 => DestUnreachableCode::Port,
            5 => DestUnreachableCode::SourceAddressFailedPolicy,
            6 => DestUnreachableCode::RejectRoute,
            _ => panic!("du6 code"),
        }),
        "tb" => Icmpv6Type::PacketTooBig { mtu: num(k[1]) as u32 },
        "te" => Icmpv6Type::TimeExceeded(match num(k[1]) {
            0 => TimeExceededCode::HopLimitExceeded,
            1 => TimeExceededCode::FragmentReassemblyTimeExceeded,
            _ => panic!("te6 code"),
        }),
        "pp" => Icmpv6Type::ParameterProblem(ParameterProblemHeader {
            code: match num(k[1]) {
                0 => ParameterProblemCode::ErroneousHeaderField,
                1 => ParameterProblemCode::UnrecognizedNextHeader,
                2 => ParameterProblemCode::UnrecognizedIpv6Option,
                3 => ParameterProblemCode::Ipv6FirstFragmentIncompleteHeaderChain,
                4 => ParameterProblemCode::SrUpperLayerHeaderError,
                5 => ParameterProblemCode::UnrecognizedNextHeaderByIntermediateNode,
                6 => ParameterProblemCode::ExtensionHeaderTooBig,
                7 => ParameterProblemCode::ExtensionHeaderChainTooLong,
                8 => ParameterProblemCode::TooManyExtensionHeaders,
                9 => ParameterProblemCode::TooManyOptionsInExtensionHeader,
                10 => ParameterProblemCode::OptionTooBig,
                _ => panic!("pp6 code"),
            },
            pointer: num(k[2]) as u32,
        }),
        "rs" => Icmpv6Type::RouterSolicitation,
        "ra" => Icmpv6Type::RouterAdvertisement(RouterAdvertisementHeader {
            cur_hop_limit: num(k[1]) as u8,
            managed_address_config: k[2] == "1",
            other_config: k[3] == "1",
            router_lifetime: num(k[4]) as u16,
        }),
        "ns" => Icmpv6Type::NeighborSolicitation,
        "na" => Icmpv6Type::NeighborAdvertisement(NeighborAdvertisementHeader {
            router: k[1] == "1",
            solicited: k[2] == "1",
            r#override: k[3] == "1",
        }),
        "rd" => Icmpv6Type::Redirect,
        _ => panic!("icmp6 typed token"),
    }
}

fn make(link: &str, vlan: &str, net: &str, tr: &str, want: &mut Want) -> Fin {
    match add_net(start_of(link, vlan), net_of(net)) {
        Mid::Arp(b) => Fin::Arp(b),
        Mid::Ip(b) => add_transport(b, tr, want),
    }
}

// ---------------------------------------------------------------- errors
fn vtb(e: &ValueTooBigError<usize>) -> String {
    format!("payloadlen:{}:{}:{:?}", e.actual, e.max_allowed, e.value_type)
}
fn w4(e: &err::ipv4_exts::ExtsWalkError) -> String {
    match e {
        err::ipv4_exts::ExtsWalkError::ExtNotReferenced { missing_ext } => format!("ip4exts:nr:{}", missing_ext.0),
    }
}
fn w6(e: &err::ipv6_exts::ExtsWalkError) -> String {
    match e {
        err::ipv6_exts::ExtsWalkError::HopByHopNotAtStart => "ip6exts:hbh".to_string(),
        err::ipv6_exts::ExtsWalkError::ExtNotReferenced { missing_ext } => format!("ip6exts:nr:{}", missing_ext.0),
    }
}
fn e_io(e: &BuildWriteError) -> String {
    match e {
        BuildWriteError::Io(_) => "io".to_string(),
        BuildWriteError::PayloadLen(v) => vtb(v),
        BuildWriteError::Ipv4Exts(w) => w4(w),
        BuildWriteError::Ipv6Exts(w) => w6(w),
        BuildWriteError::Icmpv6InIpv4 => "icmpv6inipv4".to_string(),
        BuildWriteError::ArpHeaderNotMatch => "arpheadernotmatch".to_string(),
    }
}
fn e_vec(e: &BuildVecWriteError) -> String {
    match e {
        BuildVecWriteError::PayloadLen(v) => vtb(v),
        BuildVecWriteError::Ipv4Exts(w) => w4(w),
        BuildVecWriteError::Ipv6Exts(w) => w6(w),
        BuildVecWriteError::Icmpv6InIpv4 => "icmpv6inipv4".to_string(),
        BuildVecWriteError::ArpHeaderNotMatch => "arpheadernotmatch".to_string(),
    }
}
fn e_slice(e: &BuildSliceWriteError) -> String {
    match e {
        BuildSliceWriteError::Space(n) => format!("space:{}", n),
        BuildSliceWriteError::PayloadLen(v) => vtb(v),
        BuildSliceWriteError::Ipv4Exts(w) => w4(w),
        BuildSliceWriteError::Ipv6Exts(w) => w6(w),
        BuildSliceWriteError::Icmpv6InIpv4 => "icmpv6inipv4".to_string(),
        BuildSliceWriteError::ArpHeaderNotMatch => "arpheadernotmatch".to_string(),
    }
}

fn size_of(f: &Fin, n: usize) -> usize {
    match f {
        Fin::Udp(b) => b.size(n),
        Fin::Tcp(b) => b.size(n),
        Fin::I4(b) => b.size(n),
        Fin::I6(b) => b.size(n),
        Fin::Raw(b, _) => b.size(n),
        Fin::Arp(b) => b.size(),
    }
}
fn fin_io(f: Fin, w: &mut Vec<u8>, p: &[u8]) -> Result<(), String> {
    match f {
        Fin::Udp(b) => b.write(w, p),
        Fin::Tcp(b) => b.write(w, p),
        Fin::I4(b) => b.write(w, p),
        Fin::I6(b) => b.write(w, p),
        Fin::Raw(b, n) => b.write(w, n, p),
        Fin::Arp(b) => b.write(w),
    }
    .map_err(|e| e_io(&e))
}
fn fin_vec(f: Fin, w: &mut Vec<u8>, p: &[u8]) -> Result<(), String> {
    match f {
        Fin::Udp(b) => b.write_to_vec(w, p),
        Fin::Tcp(b) => b.write_to_vec(w, p),
        Fin::I4(b) => b.write_to_vec(w, p),
        Fin::I6(b) => b.write_to_vec(w, p),
        Fin::Raw(b, n) => b.write_to_vec(w, n, p),
        Fin::Arp(b) => b.write_to_vec(w),
    }
    .map_err(|e| e_vec(&e))
}
fn fin_slice(f: Fin, w: &mut [u8], p: &[u8]) -> Result<usize, String> {
    match f {
        Fin::Udp(b) => b.write_to_slice(w, p),
        Fin::Tcp(b) => b.write_to_slice(w, p),
        Fin::I4(b) => b.write_to_slice(w, p),
        Fin::I6(b) => b.write_to_slice(w, p),
        Fin::Raw(b, n) => b.write_to_slice(w, n, p),
        Fin::Arp(b) => b.write_to_slice(w),
    }
    .map_err(|e| e_slice(&e))
}

// ---------------------------------------------------------------- decode o build by the crate
fn clear6(mut e: Ipv6Extensions) -> Ipv6Extensions {
    let z = IpNumber(0);
    if let Some(h) = e.hop_by_hop_options.as_mut() {
        h.next_header = z;
    }
    if let Some(h) = e.destination_options.as_mut() {
        h.next_header = z;
    }
    if let Some(r) = e.routing.as_mut() {
        r.routing.next_header = z;
        if let Some(h) = r.final_destination_options.as_mut() {
            h.next_header = z;
        }
    }
    if let Some(h) = e.fragment.as_mut() {
        h.next_header = z;
    }
    if let Some(h) = e.auth.as_mut() {
        h.next_header = z;
    }
    e
}

/// compares what the crate's strict parser recovers with what was configured
fn crate_check(out: &[u8], r: &Result<SlicedPacket, err::packet::SliceError>, link: &str, vlan: &str, net: &str,
               tr: &str, want: &Want, payload: &[u8]) -> String {
    let p = match r {
        Ok(p) => p,
        Err(_) => return "noparse".to_string(),
    };
    let mut bad: Vec<String> = Vec::new();
    // link
    let l: Vec<&str> = link.split('/').collect();
    match (&p.link, l[0]) {
        (None, "n") => {}
        (Some(LinkSlice::Ethernet2(e)), "e") => {
            if e.source() != arr::<6>(l[1]) || e.destination() != arr::<6>(l[2]) {
                bad.push("ethaddr".into());
            }
        }
        (Some(LinkSlice::LinuxSll(s)), "s") => {
            if u16::from(s.packet_type()) != num(l[1]) as u16
                || s.sender_address_valid_length() != num(l[2]) as u16
                || s.sender_address_full() != arr::<8>(l[3])
                || s.arp_hardware_type() != ArpHardwareId::ETHERNET
            {
                bad.push("sll".into());
            }
        }
        _ => bad.push("linkkind".into()),
    }
    // vlan
    let v: Vec<&str> = vlan.split('/').collect();
    let want_v: Vec<(u8, bool, u16)> = match v[0] {
        "n" => vec![],
        "1s" => vec![(0, false, num(v[1]) as u16)],
        "2s" => vec![(0, false, num(v[1]) as u16), (0, false, num(v[2]) as u16)],
        _ => v[1..]
            .iter()
            .map(|t| {
                let h = vlan1(t);
                (h.pcp.value(), h.drop_eligible_indicator, h.vlan_id.value())
            })
            .collect(),
    };
    let got_v: Vec<(u8, bool, u16)> = p
        .link_exts
        .iter()
        .filter_map(|x| match x {
            LinkExtSlice::Vlan(s) => Some((s.priority_code_point().value(), s.drop_eligible_indicator(), s.vlan_identifier().value())),
            _ => None,
        })
        .collect();
    if want_v != got_v || p.link_exts.len() != want_v.len() {
        bad.push("vlan".into());
    }
    // net
    let ip_payload: Option<&[u8]> = match (&p.net, net_of(net)) {
        (Some(NetSlice::Ipv4(s)), NetSpec::V4s(a, b, t)) => {
            let h = s.header().to_header();
            let mut w = Ipv4Header::default();
            w.source = a;
            w.destination = b;
            w.time_to_live = t;
            w.total_len = h.total_len;
            w.protocol = h.protocol;
            w.header_checksum = h.header_checksum;
            if h != w || s.extensions().auth.is_some() {
                bad.push("ipv4".into());
            }
            Some(s.payload().payload)
        }
        (Some(NetSlice::Ipv4(s)), NetSpec::Ip(IpHeaders::Ipv4(mut w, x))) => {
            let h = s.header().to_header();
            w.total_len = h.total_len;
            w.protocol = h.protocol;
            w.header_checksum = h.header_checksum;
            if h != w {
                bad.push("ipv4".into());
            }
            let got = s.extensions().auth.map(|a| {
                let mut a = a.to_header();
                a.next_header = IpNumber(0);
                a
            });
            let wx = x.auth.map(|mut a| {
                a.next_header = IpNumber(0);
                a
            });
            if got != wx {
                bad.push("ipv4exts".into());
            }
            Some(s.payload().payload)
        }
        (Some(NetSlice::Ipv6(s)), NetSpec::V6s(a, b, t)) => {
            let h = s.header().to_header();
            if h.source != a || h.destination != b || h.hop_limit != t || h.traffic_class != 0 || h.flow_label.value() != 0 {
                bad.push("ipv6".into());
            }
            if !s.extensions().slice().is_empty() {
                bad.push("ipv6exts".into());
            }
            Some(s.payload().payload)
        }
        (Some(NetSlice::Ipv6(s)), NetSpec::Ip(IpHeaders::Ipv6(w, x))) => {
            let h = s.header().to_header();
            if h.source != w.source
                || h.destination != w.destination
                || h.hop_limit != w.hop_limit
                || h.traffic_class != w.traffic_class
                || h.flow_label != w.flow_label
            {
                bad.push("ipv6".into());
            }
            match Ipv6Extensions::from_slice(h.next_header, s.extensions().slice()) {
                Ok((got, _, rest)) => {
                    if clear6(got) != clear6(x) || !rest.is_empty() {
                        bad.push("ipv6exts".into());
                    }
                }
                Err(_) => bad.push("ipv6exts-decode".into()),
            }
            Some(s.payload().payload)
        }
        (Some(NetSlice::Arp(s)), NetSpec::Arp(a)) => {
            if s.to_packet() != a {
                bad.push("arp".into());
            }
            None
        }
        _ => {
            bad.push("netkind".into());
            None
        }
    };
    // transport + payload (a raw ip payload may happen to parse as a transport layer: not compared)
    let raw = tr.starts_with("r/");
    match &p.transport {
        Some(_) if raw => {
            if !out.ends_with(payload) {
                bad.push("payload".into());
            }
        }
        Some(TransportSlice::Udp(u)) => {
            if want.udp != Some((u.source_port(), u.destination_port())) {
                bad.push("udp".into());
            }
            if u.payload() != payload {
                bad.push("payload".into());
            }
        }
        Some(TransportSlice::Tcp(t)) => {
            let mut h = t.to_header();
            match &want.tcp {
                Some(w) => {
                    h.checksum = w.checksum;
                    if &h != w {
                        bad.push("tcp".into());
                    }
                }
                None => bad.push("tcp-unexpected".into()),
            }
            if t.payload() != payload {
                bad.push("payload".into());
            }
        }
        Some(TransportSlice::Icmpv4(i)) => {
            // a raw (type, code, bytes5to8) triple that happens to name a typed kind decodes to
            // the typed variant: compare the raw accessors then
            let same = match &want.icmp4 {
                Some(Icmpv4Type::Unknown { type_u8, code_u8, bytes5to8 }) => {
                    i.type_u8() == *type_u8 && i.code_u8() == *code_u8 && i.bytes5to8() == *bytes5to8
                }
                w => w.as_ref() == Some(&i.icmp_type()),
            };
            if !same {
                bad.push("icmp4".into());
            }
            // a raw type 13/14 message of 20 bytes is a timestamp message: header 20 bytes, no payload
            if !i.slice().ends_with(payload) {
                bad.push("payload".into());
            }
        }
        Some(TransportSlice::Icmpv6(i)) => {
            let same = match &want.icmp6 {
                Some(Icmpv6Type::Unknown { type_u8, code_u8, bytes5to8 }) => {
                    i.type_u8() == *type_u8 && i.code_u8() == *code_u8 && i.bytes5to8() == *bytes5to8
                }
                w => w.as_ref() == Some(&i.icmp_type()),
            };
            if !same {
                bad.push("icmp6".into());
            }
            if i.payload() != payload {
                bad.push("payload".into());
            }
        }
        None => {
            if let Some(ipp) = ip_payload {
                // raw payload or fragmented: the ip payload is transport header + payload
                if !ipp.ends_with(payload) {
                    bad.push("payload".into());
                }
            }
        }
    }
    let _ = out;
    if bad.is_empty() {
        "ok".to_string()
    } else {
        bad.join(",")
    }
}

// ---------------------------------------------------------------- one case
fn run(line: &str) -> String {
    let t: Vec<&str> = line.split_whitespace().collect();
    assert!(t.len() == 6 && t[0] == "b", "bad c10 case");
    let (link, vlan, net, tr) = (t[1], t[2], t[3], t[4]);
    let payload = payload_of(t[5]);
    let mut want = Want { tcp: None, icmp4: None, icmp6: None, udp: None };

    // sink 1: write(std::io::Write)
    let f = make(link, vlan, net, tr, &mut want);
    let size = size_of(&f, payload.len());
    let mut out: Vec<u8> = Vec::new();
    let r1 = fin_io(f, &mut out, &payload);
    let verdict = match &r1 {
        Ok(()) => "ok".to_string(),
        Err(e) => format!("err {}", e),
    };
    let head = format!("{} size={} {}", verdict, size, hex(&out));

    // sink 2: write_to_vec (appends)
    let mut w2 = Want { tcp: None, icmp4: None, icmp6: None, udp: None };
    let mut v2: Vec<u8> = vec![0x5a, 0x5b];
    let r2 = fin_vec(make(link, vlan, net, tr, &mut w2), &mut v2, &payload);
    let vec_s = if r2 == r1 && v2[..2] == [0x5a, 0x5b] && v2[2..] == out[..] {
        "same".to_string()
    } else {
        format!("DIFF({:?},{})", r2, hex(&v2[2.min(v2.len())..]))
    };

    // sink 3: write_to_slice with room to spare
    let mut buf = vec![0xa5u8; size + 3];
    let r3 = fin_slice(make(link, vlan, net, tr, &mut w2), &mut buf, &payload);
    let slice_s = match (&r3, &r1) {
        (Ok(n), Ok(())) => {
            if *n == size && *n == out.len() && buf[..*n] == out[..] && buf[*n..].iter().all(|b| *b == 0xa5) {
                "same".to_string()
            } else {
                format!("DIFF(ok {},{})", n, hex(&buf))
            }
        }
        (Err(a), Err(b)) => {
            if a == b && out.len() <= buf.len() && buf[..out.len()] == out[..] && buf[out.len()..].iter().all(|b| *b == 0xa5) {
                "same".to_string()
            } else {
                format!("DIFF(err {},{})", a, hex(&buf))
            }
        }
        _ => format!("DIFF({:?})", r3),
    };

    // sink 3 with a buffer one byte too short: Space(size), buffer untouched
    let short_s = if size == 0 {
        "na".to_string()
    } else {
        let mut sb = vec![0xa5u8; size - 1];
        let r4 = fin_slice(make(link, vlan, net, tr, &mut w2), &mut sb, &payload);
        if r4 == Err(format!("space:{}", size)) && sb.iter().all(|b| *b == 0xa5) {
            "space".to_string()
        } else {
            format!("DIFF({:?})", r4)
        }
    };

    // strict parsing of the result by the crate
    let (parse_s, crate_s) = if r1.is_ok() {
        let l0 = link.split('/').next().unwrap();
        let r = match l0 {
            "e" => SlicedPacket::from_ethernet(&out),
            "s" => SlicedPacket::from_linux_sll(&out),
            _ => SlicedPacket::from_ip(&out),
        };
        (
            parsefmt::sliced(&out, &r).replace(' ', "_"),
            crate_check(&out, &r, link, vlan, net, tr, &want, &payload),
        )
    } else {
        ("-".to_string(), "-".to_string())
    };
    format!("{} ; vec={} slice={} short={} parse={} crate={}", head, vec_s, slice_s, short_s, parse_s, crate_s)
}
