//! C14: out-of-range lengths are rejected, never truncated.
//! One case per line: `<api tag> <parameters ...> <length>`; prints the outcome,
//! every error field, the header fields / encoded bytes after the call.
#![allow(deprecated)]
use etherparse::err::ValueType;
use etherparse::*;
use vh::*;

fn main() {
    main_loop(run);
}

const SRC4: [u8; 4] = [192, 168, 1, 1];
const DST4: [u8; 4] = [10, 0, 0, 7];
const SRC6: [u8; 16] = [1, 2, 3, 4, 5, 6, 7, 8, 9, 10, 11, 12, 13, 14, 15, 16];
const DST6: [u8; 16] = [21, 22, 23, 24, 25, 26, 27, 28, 29, 30, 31, 32, 33, 34, 35, 36];
const SP: u16 = 0x1234;
const DP: u16 = 0x5678;

// ---------------------------------------------------------------- payloads
const SMALL: usize = 1 << 17;
static ZEROS: [u8; SMALL] = [0u8; SMALL];
/// size of the lazily mapped zero region (a bit more than 4 GiB)
const BIG: usize = (1usize << 32) + (1usize << 17);
static mut BIG_PTR: usize = 0;

fn big_region() -> *mut u8 {
    unsafe {
        if BIG_PTR == 0 {
            let p = libc::mmap(
                std::ptr::null_mut(),
                BIG,
                libc::PROT_READ | libc::PROT_WRITE,
                libc::MAP_PRIVATE | libc::MAP_ANONYMOUS | libc::MAP_NORESERVE,
                -1,
                0,
            );
            if p == libc::MAP_FAILED {
                panic!("NOMAP");
            }
            BIG_PTR = p as usize;
        }
        BIG_PTR as *mut u8
    }
}

/// a slice of `n` zero bytes
fn zeros(n: usize) -> &'static [u8] {
    if n <= SMALL {
        &ZEROS[..n]
    } else if n <= BIG {
        unsafe { std::slice::from_raw_parts(big_region(), n) }
    } else {
        panic!("TOO-LARGE-FOR-HARNESS")
    }
}

/// non-zero data for address / option / ICV buffers
fn pattern(n: usize) -> Vec<u8> {
    (0..n).map(|i| (i as u8).wrapping_mul(7).wrapping_add(1)).collect()
}

// ------------------------------------------------------------------ output
fn tag(t: ValueType) -> &'static str {
    use ValueType::*;
    match t {
        Ipv4PayloadLength => "Ipv4PayloadLength",
        Ipv6PayloadLength => "Ipv6PayloadLength",
        UdpPayloadLengthIpv4 => "UdpPayloadLengthIpv4",
        UdpPayloadLengthIpv6 => "UdpPayloadLengthIpv6",
        TcpPayloadLengthIpv4 => "TcpPayloadLengthIpv4",
        TcpPayloadLengthIpv6 => "TcpPayloadLengthIpv6",
        Icmpv6PayloadLength => "Icmpv6PayloadLength",
        MacsecShortLen => "MacsecShortLen",
        _ => "OtherValueType",
    }
}

fn vtb<T: std::fmt::Display + Clone + std::fmt::Debug + Eq + std::hash::Hash>(
    e: &err::ValueTooBigError<T>,
) -> String {
    format!("Err a={} m={} t={}", e.actual, e.max_allowed, tag(e.value_type))
}

fn b01(b: bool) -> u8 {
    if b {
        1
    } else {
        0
    }
}

fn num<T: std::str::FromStr>(s: Option<&str>) -> T
where
    T::Err: std::fmt::Debug,
{
    s.expect("missing argument").parse::<T>().expect("number")
}

fn opt_u8(s: Option<&str>) -> Option<u8> {
    let s = s.expect("missing argument");
    if s == "-" {
        None
    } else {
        Some(s.parse::<u8>().expect("u8"))
    }
}

fn be16(b: &[u8]) -> u16 {
    u16::from_be_bytes([b[0], b[1]])
}

// ----------------------------------------------------------------- headers
fn ipv4_with(ol: usize, total_len: u16, seed: u64) -> Ipv4Header {
    let s = seed.to_le_bytes();
    Ipv4Header {
        dscp: IpDscp::try_new(s[0] & 0x3f).unwrap(),
        ecn: IpEcn::try_new(s[1] & 3).unwrap(),
        total_len,
        identification: u16::from_le_bytes([s[2], s[3]]),
        dont_fragment: s[4] & 1 == 1,
        more_fragments: s[4] & 2 == 2,
        fragment_offset: IpFragOffset::try_new(u16::from_le_bytes([s[5], s[6]]) & 0x1fff).unwrap(),
        time_to_live: s[7],
        protocol: IpNumber(17),
        header_checksum: 0xabcd,
        source: SRC4,
        destination: DST4,
        options: Ipv4Options::try_from(&pattern(ol)[..]).expect("valid initial options"),
    }
}

fn ipv6_with(payload_length: u16, seed: u64) -> Ipv6Header {
    let s = seed.to_le_bytes();
    Ipv6Header {
        traffic_class: s[0],
        flow_label: Ipv6FlowLabel::try_new(u32::from_le_bytes([s[1], s[2], s[3], 0]) & 0xfffff).unwrap(),
        payload_length,
        next_header: IpNumber(17),
        hop_limit: s[4],
        source: SRC6,
        destination: DST6,
    }
}

fn ah_with(l: u8) -> IpAuthHeader {
    IpAuthHeader::new(IpNumber(6), 0x01020304, 0x05060708, &pattern(usize::from(l) * 4))
        .expect("valid initial ICV")
}

fn raw_with(hl: u8) -> Ipv6RawExtHeader {
    Ipv6RawExtHeader::new_raw(IpNumber(6), &pattern(6 + usize::from(hl) * 8))
        .expect("valid initial ext payload")
}

fn v4exts(icv: Option<u8>) -> Ipv4Extensions {
    Ipv4Extensions { auth: icv.map(ah_with) }
}

fn v6exts(it: &mut std::str::SplitWhitespace) -> Ipv6Extensions {
    let hop = opt_u8(it.next());
    let dst = opt_u8(it.next());
    let route = opt_u8(it.next());
    let fin = opt_u8(it.next());
    let frag: u8 = num(it.next());
    let auth = opt_u8(it.next());
    Ipv6Extensions {
        hop_by_hop_options: hop.map(raw_with),
        destination_options: dst.map(raw_with),
        routing: route.map(|r| Ipv6RoutingExtensions {
            routing: raw_with(r),
            final_destination_options: fin.map(raw_with),
        }),
        fragment: if frag == 1 {
            Some(Ipv6FragmentHeader::new(IpNumber(6), IpFragOffset::try_new(0).unwrap(), false, 7))
        } else {
            None
        },
        auth: auth.map(ah_with),
    }
}

fn tcp_with(ol: usize) -> TcpHeader {
    let mut t = TcpHeader::new(SP, DP, 0, 0);
    t.set_options_raw(&zeros(ol)).expect("valid initial tcp options");
    t
}

fn macsec_with(unmod: bool, sl0: u8, seed: u64) -> MacsecHeader {
    let s = seed.to_le_bytes();
    MacsecHeader {
        ptype: if unmod {
            MacsecPType::Unmodified(EtherType(0x0800))
        } else {
            match s[0] % 3 {
                0 => MacsecPType::Modified,
                1 => MacsecPType::Encrypted,
                _ => MacsecPType::EncryptedUnmodified,
            }
        },
        endstation_id: s[1] & 1 == 1,
        scb: s[1] & 2 == 2,
        an: MacsecAn::try_new(s[2] & 3).unwrap(),
        short_len: MacsecShortLen::try_from_u8(sl0).expect("valid initial short len"),
        packet_nr: u32::from_le_bytes([s[3], s[4], s[5], s[6]]),
        sci: if s[7] & 1 == 1 { Some(seed) } else { None },
    }
}

fn arp_with(hw: usize, pr: usize) -> ArpPacket {
    ArpPacket::new(
        ArpHardwareId::ETHERNET,
        EtherType::IPV4,
        ArpOperation::REQUEST,
        &pattern(hw),
        &pattern(pr),
        &pattern(hw),
        &pattern(pr),
    )
    .expect("valid initial arp")
}

fn icv_err(e: &err::ip_auth::IcvLenError) -> String {
    use err::ip_auth::IcvLenError::*;
    match e {
        TooBig(n) => format!("Err big {}", n),
        Unaligned(n) => format!("Err unal {}", n),
    }
}

fn ext_err(e: &err::ipv6_exts::ExtPayloadLenError) -> String {
    use err::ipv6_exts::ExtPayloadLenError::*;
    match e {
        TooSmall(n) => format!("Err small {}", n),
        TooBig(n) => format!("Err big {}", n),
        Unaligned(n) => format!("Err unal {}", n),
    }
}

fn ah_state(h: &IpAuthHeader) -> String {
    format!("f={} hl={} n={}", h.to_bytes()[1], h.header_len(), h.raw_icv().len())
}

fn ext_state(h: &Ipv6RawExtHeader) -> String {
    format!("f={} hl={} n={}", h.to_bytes()[1], h.header_len(), h.payload().len())
}

fn tcp_state(h: &TcpHeader) -> String {
    format!(
        "ol={} do={} hl={} enc={}",
        h.options.len(),
        h.data_offset(),
        h.header_len(),
        h.to_bytes()[12] >> 4
    )
}

fn arp_state(h: &ArpPacket) -> String {
    let b = h.to_bytes();
    format!(
        "hw={} pr={} enc={} len={}",
        h.hw_addr_size(),
        h.protocol_addr_size(),
        hex(&b[4..6]),
        h.packet_len()
    )
}

fn arp_hw_err(e: &err::arp::ArpHwAddrError) -> String {
    use err::arp::ArpHwAddrError::*;
    match e {
        LenTooBig(a) => format!("Err hwbig {}", a),
        LenNonMatching(a, b) => format!("Err hwnm {} {}", a, b),
    }
}

fn arp_pr_err(e: &err::arp::ArpProtoAddrError) -> String {
    use err::arp::ArpProtoAddrError::*;
    match e {
        LenTooBig(a) => format!("Err prbig {}", a),
        LenNonMatching(a, b) => format!("Err prnm {} {}", a, b),
    }
}

fn tcp_elements(s: &str) -> Vec<TcpOptionElement> {
    use TcpOptionElement::*;
    let mut out = Vec::new();
    let b = s.as_bytes();
    let mut i = 0;
    while i < b.len() {
        match b[i] {
            b'-' => {}
            b'n' => out.push(Noop),
            b'm' => out.push(MaximumSegmentSize(1400)),
            b'w' => out.push(WindowScale(3)),
            b'p' => out.push(SelectiveAcknowledgementPermitted),
            b't' => out.push(Timestamp(1, 2)),
            b's' => {
                i += 1;
                let k = (b[i] - b'0') as usize;
                let mut rest = [None, None, None];
                for r in rest.iter_mut().take(k) {
                    *r = Some((5, 6));
                }
                out.push(SelectiveAcknowledgement((3, 4), rest));
            }
            _ => panic!("bad element"),
        }
        i += 1;
    }
    out
}

/// transport part of a builder case: (step applied, offset of the checksum in the transport header)
enum Tr {
    None,
    Udp,
    Tcp(usize),
    Icmp4,
    Icmp6,
}

fn transport(s: &str) -> Tr {
    if s == "none" {
        Tr::None
    } else if s == "udp" {
        Tr::Udp
    } else if s == "icmp4" {
        Tr::Icmp4
    } else if s == "icmp6" {
        Tr::Icmp6
    } else if let Some(ol) = s.strip_prefix("tcp:") {
        Tr::Tcp(ol.parse().unwrap())
    } else {
        panic!("bad transport")
    }
}

fn build(ip: IpHeaders, tr: &Tr, payload: &[u8]) -> String {
    use err::packet::BuildWriteError;
    let net_len = ip.header_len();
    let mut out: Vec<u8> = Vec::new();
    let b = PacketBuilder::ip(ip);
    let (size, r) = match tr {
        Tr::None => {
            let s = b.size(payload.len());
            (s, b.write(&mut out, IpNumber(253), payload))
        }
        Tr::Udp => {
            let b = b.udp(SP, DP);
            (b.size(payload.len()), b.write(&mut out, payload))
        }
        Tr::Tcp(ol) => {
            let b = b.tcp(SP, DP, 0, 0).options_raw(zeros(*ol)).unwrap();
            (b.size(payload.len()), b.write(&mut out, payload))
        }
        Tr::Icmp4 => {
            let b = b.icmpv4_echo_request(0x0102, 0x0304);
            (b.size(payload.len()), b.write(&mut out, payload))
        }
        Tr::Icmp6 => {
            let b = b.icmpv6_echo_request(0x0102, 0x0304);
            (b.size(payload.len()), b.write(&mut out, payload))
        }
    };
    match r {
        Ok(()) => {
            let ip_field = if out[0] >> 4 == 4 { be16(&out[2..4]) } else { be16(&out[4..6]) };
            let t = &out[net_len..];
            let (udp, ck) = match tr {
                Tr::None => ("-".to_string(), "-".to_string()),
                Tr::Udp => (be16(&t[4..6]).to_string(), be16(&t[6..8]).to_string()),
                Tr::Tcp(_) => ("-".to_string(), be16(&t[16..18]).to_string()),
                Tr::Icmp4 => ("-".to_string(), "-".to_string()),
                Tr::Icmp6 => ("-".to_string(), be16(&t[2..4]).to_string()),
            };
            let mut s = format!("Ok ip={} udp={} ck={}", ip_field, udp, ck);
            if out.len() != size {
                s.push_str(" SIZE-MISMATCH");
            }
            if &out[out.len() - payload.len()..] != payload {
                s.push_str(" PAYLOAD-MISMATCH");
            }
            s
        }
        Err(BuildWriteError::PayloadLen(e)) => vtb(&e),
        Err(BuildWriteError::Icmpv6InIpv4) => "Err icmp6in4".to_string(),
        Err(_) => "Err other".to_string(),
    }
}

fn run(line: &str) -> String {
    let mut it = line.split_whitespace();
    let t = it.next().unwrap();
    match t {
        // ------------------------------------------------------------ IPv4
        "v4new" => {
            let seed: u64 = num(it.next());
            let plen: u16 = num(it.next());
            let s = seed.to_le_bytes();
            match Ipv4Header::new(plen, s[0], IpNumber(s[1]), SRC4, DST4) {
                Ok(h) => {
                    let mut o = format!(
                        "Ok tl={} ol={} enc={} dec={}",
                        h.total_len,
                        h.options.len(),
                        hex(&h.to_bytes()[2..4]),
                        h.payload_len().map(|v| v.to_string()).unwrap_or("-".to_string())
                    );
                    if h.time_to_live != s[0] || h.protocol != IpNumber(s[1]) || h.source != SRC4 || h.destination != DST4 {
                        o.push_str(" REST-MISMATCH");
                    }
                    o
                }
                Err(e) => vtb(&e),
            }
        }
        "v4set" => {
            let ol: usize = num(it.next());
            let tl0: u16 = num(it.next());
            let seed: u64 = num(it.next());
            let v: usize = num(it.next());
            let mut h = ipv4_with(ol, tl0, seed);
            let before = h.clone();
            let r = h.set_payload_len(v);
            let mut cmp = h.clone();
            cmp.total_len = before.total_len;
            let rest = b01(cmp == before);
            match r {
                Ok(()) => format!(
                    "Ok tl={} enc={} dec={} rest={}",
                    h.total_len,
                    hex(&h.to_bytes()[2..4]),
                    h.payload_len().map(|v| v.to_string()).unwrap_or("-".to_string()),
                    rest
                ),
                Err(e) => format!("{} tl={} rest={}", vtb(&e), h.total_len, rest),
            }
        }
        "v4opt" => {
            let n: usize = num(it.next());
            let d = pattern(n);
            match Ipv4Options::try_from(&d[..]) {
                Ok(o) => {
                    let mut s = format!("Ok len={}", o.len_u8());
                    if o.as_slice() != &d[..] {
                        s.push_str(" DATA-MISMATCH");
                    }
                    s
                }
                Err(e) => format!("Err bad_len={}", e.bad_len),
            }
        }
        "v4setopt" => {
            let ol0: usize = num(it.next());
            let n: usize = num(it.next());
            let mut h = ipv4_with(ol0, 1000, 77);
            let d: Vec<u8> = pattern(n).iter().map(|x| x ^ 0x55).collect();
            let r = h.set_options(&d);
            let st = format!(
                "ol={} ihl={} hl={} enc={}",
                h.options.len(),
                h.ihl(),
                h.header_len(),
                h.to_bytes()[0] & 0xf
            );
            match r {
                Ok(()) => {
                    let mut s = format!("Ok {}", st);
                    if h.options.as_slice() != &d[..] || h.to_bytes().len() != h.header_len() {
                        s.push_str(" DATA-MISMATCH");
                    }
                    s
                }
                Err(e) => {
                    let mut s = format!("Err bad_len={} {}", e.bad_len, st);
                    if h != ipv4_with(ol0, 1000, 77) {
                        s.push_str(" MODIFIED");
                    }
                    s
                }
            }
        }
        // ------------------------------------------------------------ IPv6
        "v6set" => {
            let pl0: u16 = num(it.next());
            let seed: u64 = num(it.next());
            let v: usize = num(it.next());
            let mut h = ipv6_with(pl0, seed);
            let before = h.clone();
            let r = h.set_payload_length(v);
            let mut cmp = h.clone();
            cmp.payload_length = before.payload_length;
            let rest = b01(cmp == before);
            match r {
                Ok(()) => format!(
                    "Ok pl={} enc={} rest={}",
                    h.payload_length,
                    hex(&h.to_bytes()[4..6]),
                    rest
                ),
                Err(e) => format!("{} pl={} rest={}", vtb(&e), h.payload_length, rest),
            }
        }
        // ------------------------------------------------------- IpHeaders
        "iph4" => {
            let ol: usize = num(it.next());
            let icv = opt_u8(it.next());
            let tl0: u16 = num(it.next());
            let v: usize = num(it.next());
            let mut h = IpHeaders::Ipv4(ipv4_with(ol, tl0, 99), v4exts(icv));
            let before = h.clone();
            let r = h.set_payload_len(v);
            let (len, rest) = match (&h, &before) {
                (IpHeaders::Ipv4(a, ax), IpHeaders::Ipv4(b, bx)) => {
                    let mut c = a.clone();
                    c.total_len = b.total_len;
                    (a.total_len, b01(c == *b && ax == bx))
                }
                _ => (0, 0),
            };
            match r {
                Ok(()) => format!("Ok len={} rest={}", len, rest),
                Err(e) => format!("{} len={} rest={}", vtb(&e), len, rest),
            }
        }
        "iph6" => {
            let x = v6exts(&mut it);
            let pl0: u16 = num(it.next());
            let v: usize = num(it.next());
            let mut h = IpHeaders::Ipv6(ipv6_with(pl0, 99), x);
            let before = h.clone();
            let r = h.set_payload_len(v);
            let (len, rest) = match (&h, &before) {
                (IpHeaders::Ipv6(a, ax), IpHeaders::Ipv6(b, bx)) => {
                    let mut c = a.clone();
                    c.payload_length = b.payload_length;
                    (a.payload_length, b01(c == *b && ax == bx))
                }
                _ => (0, 0),
            };
            match r {
                Ok(()) => format!("Ok len={} rest={}", len, rest),
                Err(e) => format!("{} len={} rest={}", vtb(&e), len, rest),
            }
        }
        // ------------------------------------------------------------- UDP
        "udpwo" => {
            let v: usize = num(it.next());
            match UdpHeader::without_ipv4_checksum(SP, DP, v) {
                Ok(h) => udp_ok(&h),
                Err(e) => vtb(&e),
            }
        }
        "udpw4" => {
            let v: usize = num(it.next());
            let ip = ipv4_with(0, 0, 5);
            match UdpHeader::with_ipv4_checksum(SP, DP, &ip, zeros(v)) {
                Ok(h) => udp_ok(&h),
                Err(e) => vtb(&e),
            }
        }
        "udpw6" => {
            let v: usize = num(it.next());
            let ip = ipv6_with(0, 5);
            match UdpHeader::with_ipv6_checksum(SP, DP, &ip, zeros(v)) {
                Ok(h) => udp_ok(&h),
                Err(e) => vtb(&e),
            }
        }
        "udpc4" | "udpc6" => {
            let len0: u16 = num(it.next());
            let v: usize = num(it.next());
            let h = UdpHeader { source_port: SP, destination_port: DP, length: len0, checksum: 0x7777 };
            let r = if t == "udpc4" {
                h.calc_checksum_ipv4_raw(SRC4, DST4, zeros(v))
            } else {
                h.calc_checksum_ipv6_raw(SRC6, DST6, zeros(v))
            };
            match r {
                Ok(c) => format!("Ok ck={}", c),
                Err(e) => vtb(&e),
            }
        }
        // ------------------------------------------------------------- TCP
        "tcpc4" | "tcpc6" | "tcphs4" | "tcphs6" => {
            let ol: usize = num(it.next());
            let v: usize = num(it.next());
            let h = tcp_with(ol);
            let bytes = h.to_bytes();
            let r = match t {
                "tcpc4" => h.calc_checksum_ipv4_raw(SRC4, DST4, zeros(v)),
                "tcpc6" => h.calc_checksum_ipv6_raw(SRC6, DST6, zeros(v)),
                "tcphs4" => TcpHeaderSlice::from_slice(&bytes).unwrap().calc_checksum_ipv4_raw(SRC4, DST4, zeros(v)),
                _ => TcpHeaderSlice::from_slice(&bytes).unwrap().calc_checksum_ipv6_raw(SRC6, DST6, zeros(v)),
            };
            match r {
                Ok(c) => format!("Ok ck={}", c),
                Err(e) => vtb(&e),
            }
        }
        "tcps4" | "tcps6" => {
            let ol: usize = num(it.next());
            let v: usize = num(it.next());
            let h = tcp_with(ol);
            let hb = h.to_bytes();
            let total = hb.len() + v;
            // segment = header followed by v zero bytes
            let r = if total <= SMALL {
                let mut buf = vec![0u8; total];
                buf[..hb.len()].copy_from_slice(&hb);
                let s = TcpSlice::from_slice(&buf).unwrap();
                if t == "tcps4" { s.calc_checksum_ipv4(SRC4, DST4) } else { s.calc_checksum_ipv6(SRC6, DST6) }
            } else {
                if total > BIG {
                    panic!("TOO-LARGE-FOR-HARNESS");
                }
                let p = big_region();
                let r = {
                    let buf = unsafe { std::slice::from_raw_parts_mut(p, total) };
                    buf[..hb.len()].copy_from_slice(&hb);
                    let s = TcpSlice::from_slice(buf).unwrap();
                    if t == "tcps4" { s.calc_checksum_ipv4(SRC4, DST4) } else { s.calc_checksum_ipv6(SRC6, DST6) }
                };
                // restore the zero region
                unsafe { std::slice::from_raw_parts_mut(p, hb.len()) }.fill(0);
                r
            };
            match r {
                Ok(c) => format!("Ok ck={}", c),
                Err(e) => vtb(&e),
            }
        }
        // ---------------------------------------------------------- ICMPv6
        "icmp6" | "icmp6w" => {
            let v: usize = num(it.next());
            let ty = Icmpv6Type::EchoRequest(IcmpEchoHeader { id: 0x0102, seq: 0x0304 });
            let r = if t == "icmp6" {
                ty.calc_checksum(SRC6, DST6, zeros(v))
            } else {
                Icmpv6Header::with_checksum(ty, SRC6, DST6, zeros(v)).map(|h| h.checksum)
            };
            match r {
                Ok(c) => format!("Ok ck={}", c),
                Err(e) => vtb(&e),
            }
        }
        // ---------------------------------------------------------- MACsec
        "macsec" => {
            let unmod: u8 = num(it.next());
            let sl0: u8 = num(it.next());
            let seed: u64 = num(it.next());
            let v: usize = num(it.next());
            let mut h = macsec_with(unmod == 1, sl0, seed);
            let before = h.clone();
            h.set_payload_len(v);
            let mut cmp = h.clone();
            cmp.short_len = before.short_len;
            format!(
                "Ok sl={} enc={} dec={} rest={}",
                h.short_len.value(),
                h.to_bytes()[1],
                h.expected_payload_len().map(|v| v.to_string()).unwrap_or("-".to_string()),
                b01(cmp == before)
            )
        }
        "mslfl" => {
            let v: usize = num(it.next());
            format!("sl={}", MacsecShortLen::from_len(v).value())
        }
        "msltry" => {
            let v: u8 = num(it.next());
            match MacsecShortLen::try_from_u8(v) {
                Ok(s) => format!("Ok sl={}", s.value()),
                Err(e) => vtb(&e),
            }
        }
        // -------------------------------------------------------------- AH
        "ahnew" => {
            let n: usize = num(it.next());
            let d = pattern(n);
            match IpAuthHeader::new(IpNumber(6), 1, 2, &d) {
                Ok(h) => {
                    let mut s = format!("Ok {}", ah_state(&h));
                    if h.raw_icv() != &d[..] || h.to_bytes().len() != h.header_len() {
                        s.push_str(" DATA-MISMATCH");
                    }
                    s
                }
                Err(e) => icv_err(&e),
            }
        }
        "ahset" => {
            let l0: u8 = num(it.next());
            let n: usize = num(it.next());
            let mut h = ah_with(l0);
            let d: Vec<u8> = pattern(n).iter().map(|x| x ^ 0x55).collect();
            match h.set_raw_icv(&d) {
                Ok(()) => {
                    let mut s = format!("Ok {}", ah_state(&h));
                    if h.raw_icv() != &d[..] {
                        s.push_str(" DATA-MISMATCH");
                    }
                    s
                }
                Err(e) => {
                    let mut s = format!("{} {}", icv_err(&e), ah_state(&h));
                    if h != ah_with(l0) {
                        s.push_str(" MODIFIED");
                    }
                    s
                }
            }
        }
        // ------------------------------------------------ IPv6 raw ext hdr
        "extnew" => {
            let n: usize = num(it.next());
            let d = pattern(n);
            match Ipv6RawExtHeader::new_raw(IpNumber(6), &d) {
                Ok(h) => {
                    let mut s = format!("Ok {}", ext_state(&h));
                    if h.payload() != &d[..] || h.to_bytes().len() != h.header_len() {
                        s.push_str(" DATA-MISMATCH");
                    }
                    s
                }
                Err(e) => ext_err(&e),
            }
        }
        "extset" => {
            let hl0: u8 = num(it.next());
            let n: usize = num(it.next());
            let mut h = raw_with(hl0);
            let d: Vec<u8> = pattern(n).iter().map(|x| x ^ 0x55).collect();
            match h.set_payload(&d) {
                Ok(()) => {
                    let mut s = format!("Ok {}", ext_state(&h));
                    if h.payload() != &d[..] {
                        s.push_str(" DATA-MISMATCH");
                    }
                    s
                }
                Err(e) => {
                    let mut s = format!("{} {}", ext_err(&e), ext_state(&h));
                    if h != raw_with(hl0) {
                        s.push_str(" MODIFIED");
                    }
                    s
                }
            }
        }
        // ----------------------------------------------------- TCP options
        "tcpoptraw" => {
            let ol0: usize = num(it.next());
            let n: usize = num(it.next());
            let mut h = tcp_with(ol0);
            let d = pattern(n);
            match h.set_options_raw(&d) {
                Ok(()) => {
                    let mut s = format!("Ok {}", tcp_state(&h));
                    let o = h.options.as_slice();
                    if o.len() < n || &o[..n] != &d[..] || o[n..].iter().any(|x| *x != 0) {
                        s.push_str(" DATA-MISMATCH");
                    }
                    s
                }
                Err(TcpOptionWriteError::NotEnoughSpace(k)) => {
                    let mut s = format!("Err nes={} {}", k, tcp_state(&h));
                    if h != tcp_with(ol0) {
                        s.push_str(" MODIFIED");
                    }
                    s
                }
            }
        }
        "tcpoptel" => {
            let ol0: usize = num(it.next());
            let els = tcp_elements(it.next().unwrap());
            let mut h = tcp_with(ol0);
            match h.set_options(&els) {
                Ok(()) => format!("Ok {}", tcp_state(&h)),
                Err(TcpOptionWriteError::NotEnoughSpace(k)) => {
                    let mut s = format!("Err nes={} {}", k, tcp_state(&h));
                    if h != tcp_with(ol0) {
                        s.push_str(" MODIFIED");
                    }
                    s
                }
            }
        }
        // ------------------------------------------------------------- ARP
        "arpnew" => {
            let shw: usize = num(it.next());
            let sp: usize = num(it.next());
            let thw: usize = num(it.next());
            let tp: usize = num(it.next());
            let (a, b, c, d) = (pattern(shw), pattern(sp), pattern(thw), pattern(tp));
            match ArpPacket::new(ArpHardwareId::ETHERNET, EtherType::IPV4, ArpOperation::REQUEST, &a, &b, &c, &d) {
                Ok(h) => {
                    let mut s = format!("Ok {}", arp_state(&h));
                    if h.sender_hw_addr() != &a[..] || h.sender_protocol_addr() != &b[..]
                        || h.target_hw_addr() != &c[..] || h.target_protocol_addr() != &d[..]
                        || h.to_bytes().len() != h.packet_len()
                    {
                        s.push_str(" DATA-MISMATCH");
                    }
                    s
                }
                Err(err::arp::ArpNewError::HwAddr(e)) => arp_hw_err(&e),
                Err(err::arp::ArpNewError::ProtoAddr(e)) => arp_pr_err(&e),
            }
        }
        "arphw" | "arppr" => {
            let hw0: usize = num(it.next());
            let pr0: usize = num(it.next());
            let s_: usize = num(it.next());
            let t_: usize = num(it.next());
            let mut h = arp_with(hw0, pr0);
            let (a, b): (Vec<u8>, Vec<u8>) = (
                pattern(s_).iter().map(|x| x ^ 0x55).collect(),
                pattern(t_).iter().map(|x| x ^ 0xaa).collect(),
            );
            let r = if t == "arphw" {
                h.set_hw_addrs(&a, &b).map_err(|e| arp_hw_err(&e))
            } else {
                h.set_protocol_addrs(&a, &b).map_err(|e| arp_pr_err(&e))
            };
            match r {
                Ok(()) => {
                    let mut s = format!("Ok {}", arp_state(&h));
                    let ok = if t == "arphw" {
                        h.sender_hw_addr() == &a[..] && h.target_hw_addr() == &b[..]
                    } else {
                        h.sender_protocol_addr() == &a[..] && h.target_protocol_addr() == &b[..]
                    };
                    if !ok {
                        s.push_str(" DATA-MISMATCH");
                    }
                    s
                }
                Err(e) => {
                    let mut s = format!("{} {}", e, arp_state(&h));
                    if h != arp_with(hw0, pr0) {
                        s.push_str(" MODIFIED");
                    }
                    s
                }
            }
        }
        // --------------------------------------------------------- builder
        "bld4" => {
            let ol: usize = num(it.next());
            let icv = opt_u8(it.next());
            let tr = transport(it.next().unwrap());
            let v: usize = num(it.next());
            build(IpHeaders::Ipv4(ipv4_with(ol, 0, 3), v4exts(icv)), &tr, zeros(v))
        }
        "bld6" => {
            let x = v6exts(&mut it);
            let tr = transport(it.next().unwrap());
            let v: usize = num(it.next());
            build(IpHeaders::Ipv6(ipv6_with(0, 3), x), &tr, zeros(v))
        }
        "bsz" => {
            let ol: usize = num(it.next());
            let icv = opt_u8(it.next());
            let tr = transport(it.next().unwrap());
            let v: usize = num(it.next());
            let b = PacketBuilder::ethernet2([1, 2, 3, 4, 5, 6], [7, 8, 9, 10, 11, 12])
                .ip(IpHeaders::Ipv4(ipv4_with(ol, 0, 3), v4exts(icv)));
            let s = match tr {
                Tr::None => b.size(v),
                Tr::Udp => b.udp(SP, DP).size(v),
                Tr::Tcp(o) => b.tcp(SP, DP, 0, 0).options_raw(zeros(o)).unwrap().size(v),
                Tr::Icmp4 => b.icmpv4_echo_request(1, 2).size(v),
                Tr::Icmp6 => b.icmpv6_echo_request(1, 2).size(v),
            };
            format!("size={}", s)
        }
        _ => panic!("bad c14 tag {}", t),
    }
}

fn udp_ok(h: &UdpHeader) -> String {
    let mut s = format!("Ok len={} enc={} ck={}", h.length, hex(&h.to_bytes()[4..6]), h.checksum);
    if h.source_port != SP || h.destination_port != DP {
        s.push_str(" REST-MISMATCH");
    }
    s
}
