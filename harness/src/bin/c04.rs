//! C04 (struct decoding agrees with slicing): PacketHeaders::{from_ethernet_slice,
//! from_ether_type, from_ip_slice} and SlicedPacket::{from_ethernet,
//! from_ether_type, from_ip} on the same bytes.  Output per case:
//!   `<PacketHeaders rendering> || <SlicedPacket converted with to_header()> || hdrs=<eq|diff(..)|-> || <lax families>`
use etherparse::*;
use vh::*;

#[path = "../hdrfmt.rs"]
mod hdrfmt;
#[path = "../hdrlax.rs"]
mod hdrlax;

fn main() {
    main_loop(run);
}

fn run(line: &str) -> String {
    let mut it = line.split_whitespace();
    let entry = it.next().unwrap();
    let data = unhex(it.next().unwrap());
    if entry == "sll" {
        return hdrlax::run_sll(&data);
    }
    let (h, s) = if entry == "eth" {
        (PacketHeaders::from_ethernet_slice(&data), SlicedPacket::from_ethernet(&data))
    } else if entry == "ip" {
        (PacketHeaders::from_ip_slice(&data), SlicedPacket::from_ip(&data))
    } else if let Some(et) = entry.strip_prefix("et:") {
        let et = EtherType(et.parse().unwrap());
        (PacketHeaders::from_ether_type(et, &data), SlicedPacket::from_ether_type(et, &data))
    } else {
        panic!("bad entry {}", entry)
    };
    let hh = h.as_ref().ok().map(hdrfmt::of_packet_headers);
    let ss = s.as_ref().ok().map(hdrfmt::of_sliced);
    let hl = match (&h, &hh) {
        (Err(e), _) => format!("err {}", parsefmt::slice_err(e)),
        (_, Some(x)) => hdrfmt::render(&data, x),
        _ => unreachable!(),
    };
    let sl = match (&s, &ss) {
        (Err(e), _) => format!("err {}", parsefmt::slice_err(e)),
        (_, Some(x)) => hdrfmt::render(&data, x),
        _ => unreachable!(),
    };
    let cmp = match (&hh, &ss) {
        (Some(a), Some(b)) => hdrfmt::compare(a, b),
        _ => "-".to_string(),
    };
    // ---- audit1-c04 ----
    // the slots of the struct Ipv6Extensions one by one (strict and lax struct family),
    // appended behind " ## " (stripped by tools/props/c04.py before the older fields are parsed)
    let lh = if entry == "eth" {
        LaxPacketHeaders::from_ethernet(&data).ok()
    } else if entry == "ip" {
        LaxPacketHeaders::from_ip(&data).ok()
    } else if let Some(et) = entry.strip_prefix("et:") {
        Some(LaxPacketHeaders::from_ether_type(EtherType(et.parse().unwrap()), &data))
    } else {
        None
    };
    let slots = format!(
        "slots={} laxslots={}",
        slots_of(h.as_ref().ok().and_then(|p| p.net.as_ref())),
        slots_of(lh.as_ref().and_then(|p| p.net.as_ref()))
    );
    return format!(
        "{} || {} || hdrs={} || {} ## {}",
        hl,
        sl,
        cmp,
        hdrlax::run(entry, &data),
        slots
    );
    // ---- end audit1-c04 ----
}

// ---- audit1-c04 ----
/// `hbh:<len>/<next header>,dst:..,rt:..,fdst:..,frag:..,auth:..` of an IPv6 network layer
/// ("-" for an empty slot, for no or another network layer)
fn slots_of(net: Option<&NetHeaders>) -> String {
    let x = match net {
        Some(NetHeaders::Ipv6(_, x)) => x,
        _ => return "-".to_string(),
    };
    let raw = |o: &Option<Ipv6RawExtHeader>| match o {
        Some(h) => format!("{}/{}", h.header_len(), h.next_header.0),
        None => "-".to_string(),
    };
    let (rt, fdst) = match &x.routing {
        Some(r) => (
            format!("{}/{}", r.routing.header_len(), r.routing.next_header.0),
            raw(&r.final_destination_options),
        ),
        None => ("-".to_string(), "-".to_string()),
    };
    format!(
        "hbh:{},dst:{},rt:{},fdst:{},frag:{},auth:{}",
        raw(&x.hop_by_hop_options),
        raw(&x.destination_options),
        rt,
        fdst,
        match &x.fragment {
            Some(f) => format!("{}/{}", Ipv6FragmentHeader::LEN, f.next_header.0),
            None => "-".to_string(),
        },
        match &x.auth {
            Some(a) => format!("{}/{}", a.header_len(), a.next_header.0),
            None => "-".to_string(),
        }
    )
}
// ---- end audit1-c04 ----
