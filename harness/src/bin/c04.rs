//! C04 (struct decoding agrees with slicing): PacketHeaders::{from_ethernet_slice,
//! from_ether_type, from_ip_slice} and SlicedPacket::{from_ethernet,
//! from_ether_type, from_ip} on the same bytes.  Output per case:
//!   `<PacketHeaders rendering> || <SlicedPacket converted with to_header()> || hdrs=<eq|diff(..)|-> || <lax families>`
use etherparse::*;
use vh::*;

#[path = "../hdrfmt.rs"]
mod hdrfmt;
#[path = "../hdrlax.rs"]
mod hdrlax;

fn main() {
    main_loop(run);
}

fn run(line: &str) -> String {
    let mut it = line.split_whitespace();
    let entry = it.next().unwrap();
    let data = unhex(it.next().unwrap());
    if entry == "sll" {
        return hdrlax::run_sll(&data);
    }
    let (h, s) = if entry == "eth" {
        (PacketHeaders::from_ethernet_slice(&data), SlicedPacket::from_ethernet(&data))
    } else if entry == "ip" {
        (PacketHeaders::from_ip_slice(&data), SlicedPacket::from_ip(&data))
    } else if let Some(et) = entry.strip_prefix("et:") {
        let et = EtherType(et.parse().unwrap());
        (PacketHeaders::from_ether_type(et, &data), SlicedPacket::from_ether_type(et, &data))
    } else {
        panic!("bad entry {}", entry)
    };
    let hh = h.as_ref().ok().map(hdrfmt::of_packet_headers);
    let ss = s.as_ref().ok().map(hdrfmt::of_sliced);
    let hl = match (&h, &hh) {
        (Err(e), _) => format!("err {}", parsefmt::slice_err(e)),
        (_, Some(x)) => hdrfmt::render(&data, x),
        _ => unreachable!(),
    };
    let sl = match (&s, &ss) {
        (Err(e), _) => format!("err {}", parsefmt::slice_err(e)),
        (_, Some(x)) => hdrfmt::render(&data, x),
        _ => unreachable!(),
    };
    let cmp = match (&hh, &ss) {
        (Some(a), Some(b)) => hdrfmt::compare(a, b),
        _ => "-".to_string(),
    };
    format!("{} || {} || hdrs={} || {}", hl, sl, cmp, hdrlax::run(entry, &data))
}
