//! C05 (lax extends strict): every case is run through the lax entry point and
//! through its strict counterpart; prints `<lax> || <strict>`.
//! Whole packet: eth, et:<n>, ip.  Single layer: lip (LaxIpSlice), lip4
//! (LaxIpv4Slice), lip6 (LaxIpv6Slice), lmacsec (LaxMacsecSlice), ludp
//! (UdpSlice::from_slice_lax), lx6:<nh> (Ipv6ExtensionsSlice::from_slice_lax),
//! lx4:<nh> (Ipv4ExtensionsSlice::from_slice_lax).
//! Whole-packet cases additionally print `## <LaxPacketHeaders> ## <PacketHeaders>`
//! (implementation side only: layer presence, payload kind/window/flags, stop error).
use etherparse::*;
use vh::parsefmt;
use vh::*;

#[path = "../laxfmt.rs"]
mod laxfmt;
use laxfmt::*;

fn main() {
    main_loop(run);
}

fn strict_ip_err(e: &err::ip::SliceError) -> String {
    use err::ip::HeadersError as H;
    match e {
        err::ip::SliceError::Len(l) => parsefmt::len_err(l),
        err::ip::SliceError::IpHeaders(H::Ip(h)) => ip_hdr_err(h),
        err::ip::SliceError::IpHeaders(H::Ipv4Ext(h)) => auth_err(h),
        err::ip::SliceError::IpHeaders(H::Ipv6Ext(h)) => ipv6_exts_err(h),
    }
}

fn run(line: &str) -> String {
    let mut it = line.split_whitespace();
    let entry = it.next().unwrap();
    let data = unhex(it.next().unwrap());
    let b: &[u8] = &data;
    if entry == "eth" {
        let lax = match LaxSlicedPacket::from_ethernet(b) {
            Ok(p) => lax_sliced(b, &p),
            Err(e) => err_len(&e),
        };
        let lh = match LaxPacketHeaders::from_ethernet(b) {
            Ok(h) => lax_headers(b, &h),
            Err(e) => err_len(&e),
        };
        format!(
            "{} || {} ## {} ## {}",
            lax,
            parsefmt::sliced(b, &SlicedPacket::from_ethernet(b)),
            lh,
            strict_headers(b, &PacketHeaders::from_ethernet_slice(b))
        )
    } else if entry == "ip" {
        let lax = match LaxSlicedPacket::from_ip(b) {
            Ok(p) => lax_sliced(b, &p),
            Err(err::ip::LaxHeaderSliceError::Len(l)) => err_len(&l),
            Err(err::ip::LaxHeaderSliceError::Content(c)) => format!("err {}", ip_hdr_err(&c)),
        };
        let lh = match LaxPacketHeaders::from_ip(b) {
            Ok(h) => lax_headers(b, &h),
            Err(err::ip::LaxHeaderSliceError::Len(l)) => err_len(&l),
            Err(err::ip::LaxHeaderSliceError::Content(c)) => format!("err {}", ip_hdr_err(&c)),
        };
        format!(
            "{} || {} ## {} ## {}",
            lax,
            parsefmt::sliced(b, &SlicedPacket::from_ip(b)),
            lh,
            strict_headers(b, &PacketHeaders::from_ip_slice(b))
        )
    } else if let Some(et) = entry.strip_prefix("et:") {
        let et = EtherType(et.parse().unwrap());
        let lax = lax_sliced(b, &LaxSlicedPacket::from_ether_type(et, b));
        format!(
            "{} || {} ## {} ## {}",
            lax,
            parsefmt::sliced(b, &SlicedPacket::from_ether_type(et, b)),
            lax_headers(b, &LaxPacketHeaders::from_ether_type(et, b)),
            strict_headers(b, &PacketHeaders::from_ether_type(et, b))
        )
    } else if entry == "lip" {
        let lax = match LaxIpSlice::from_slice(b) {
            Ok((ip, st)) => format!(
                "ok net={} stop={}",
                match &ip {
                    LaxIpSlice::Ipv4(v) => lax_v4(b, v),
                    LaxIpSlice::Ipv6(v) => lax_v6(b, v),
                },
                stop_exts(&st)
            ),
            Err(err::ip::LaxHeaderSliceError::Len(l)) => err_len(&l),
            Err(err::ip::LaxHeaderSliceError::Content(c)) => format!("err {}", ip_hdr_err(&c)),
        };
        let strict = match IpSlice::from_slice(b) {
            Ok(ip) => format!("ok net={}", parsefmt::net(b, &Some(NetSlice::from(ip)))),
            Err(e) => format!("err {}", strict_ip_err(&e)),
        };
        format!("{} || {}", lax, strict)
    } else if entry == "lip4" {
        let lax = match LaxIpv4Slice::from_slice(b) {
            Ok((v, st)) => format!("ok net={} stop={}", lax_v4(b, &v), stop_auth(&st)),
            Err(err::ipv4::HeaderSliceError::Len(l)) => err_len(&l),
            Err(err::ipv4::HeaderSliceError::Content(c)) => format!("err {}", ipv4_hdr_err(&c)),
        };
        let strict = match Ipv4Slice::from_slice(b) {
            Ok(v) => format!("ok net={}", parsefmt::net(b, &Some(NetSlice::from(v)))),
            Err(err::ipv4::SliceError::Len(l)) => err_len(&l),
            Err(err::ipv4::SliceError::Header(c)) => format!("err {}", ipv4_hdr_err(&c)),
            Err(err::ipv4::SliceError::Exts(c)) => format!("err {}", auth_err(&c)),
        };
        format!("{} || {}", lax, strict)
    } else if entry == "lip6" {
        let lax = match LaxIpv6Slice::from_slice(b) {
            Ok((v, st)) => format!("ok net={} stop={}", lax_v6(b, &v), stop_exts(&st)),
            Err(err::ipv6::HeaderSliceError::Len(l)) => err_len(&l),
            Err(err::ipv6::HeaderSliceError::Content(c)) => format!("err {}", ipv6_hdr_err(&c)),
        };
        let strict = match Ipv6Slice::from_slice(b) {
            Ok(v) => format!("ok net={}", parsefmt::net(b, &Some(NetSlice::from(v)))),
            Err(err::ipv6::SliceError::Len(l)) => err_len(&l),
            Err(err::ipv6::SliceError::Header(c)) => format!("err {}", ipv6_hdr_err(&c)),
            Err(err::ipv6::SliceError::Exts(c)) => format!("err {}", ipv6_exts_err(&c)),
        };
        format!("{} || {}", lax, strict)
    } else if entry == "lmacsec" {
        let lax = match LaxMacsecSlice::from_slice(b) {
            Ok(m) => format!("ok {}", lax_macsec(b, &m)),
            Err(err::macsec::HeaderSliceError::Len(l)) => err_len(&l),
            Err(err::macsec::HeaderSliceError::Content(c)) => format!("err {}", macsec_err(&c)),
        };
        let strict = match MacsecSlice::from_slice(b) {
            Ok(m) => format!("ok {}", parsefmt::link_ext(b, &LinkExtSlice::Macsec(m))),
            Err(err::macsec::HeaderSliceError::Len(l)) => err_len(&l),
            Err(err::macsec::HeaderSliceError::Content(c)) => format!("err {}", macsec_err(&c)),
        };
        format!("{} || {}", lax, strict)
    } else if entry == "ludp" {
        let lax = match UdpSlice::from_slice_lax(b) {
            Ok(u) => format!("ok udp({})", off(b, u.slice())),
            Err(l) => err_len(&l),
        };
        let strict = match UdpSlice::from_slice(b) {
            Ok(u) => format!("ok udp({})", off(b, u.slice())),
            Err(l) => err_len(&l),
        };
        format!("{} || {}", lax, strict)
    } else if let Some(nh) = entry.strip_prefix("lx6:") {
        let nh = IpNumber(nh.parse().unwrap());
        let (x, next, rest, st) = Ipv6ExtensionsSlice::from_slice_lax(nh, b);
        let lax = format!(
            "ok x6({}) next={} rest={} stop={}",
            x6_fields(b, &x),
            next.0,
            off(b, rest),
            stop_exts(&st)
        );
        let strict = match Ipv6ExtensionsSlice::from_slice(nh, b) {
            Ok((x, next, rest)) => {
                format!("ok x6({}) next={} rest={}", x6_fields(b, &x), next.0, off(b, rest))
            }
            Err(e) => format!("err {}", ipv6_exts_slice_err(&e)),
        };
        format!("{} || {}", lax, strict)
    } else if let Some(nh) = entry.strip_prefix("lx4:") {
        let nh = IpNumber(nh.parse().unwrap());
        let (x, next, rest, st) = Ipv4ExtensionsSlice::from_slice_lax(nh, b);
        let aw = |a: &Option<IpAuthHeaderSlice>| match a {
            Some(a) => off(b, a.slice()),
            None => "-".to_string(),
        };
        let lax = format!(
            "ok auth={} next={} rest={} stop={}",
            aw(&x.auth),
            next.0,
            off(b, rest),
            stop_auth(&st)
        );
        let strict = match Ipv4ExtensionsSlice::from_slice(nh, b) {
            Ok((x, next, rest)) => {
                format!("ok auth={} next={} rest={}", aw(&x.auth), next.0, off(b, rest))
            }
            Err(e) => format!("err {}", auth_slice_err(&e)),
        };
        format!("{} || {}", lax, strict)
    } else {
        panic!("bad entry {}", entry)
    }
}
