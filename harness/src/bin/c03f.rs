//! C03 (field values): SlicedPacket::{from_ethernet, from_linux_sll, from_ether_type,
//! from_ip} on arbitrary bytes, then the header field values of every layer read
//! through the real slice accessors (canonical line, see ../fieldfmt.rs), followed by the
//! values of the derived / typed accessors as `<layer>.d:` items (../fieldfmt2.rs).
use etherparse::*;
use vh::*;
#[path = "../fieldfmt.rs"]
mod fieldfmt;
// -- begin audit follow-up: derived / typed accessors --
#[path = "../fieldfmt2.rs"]
mod fieldfmt2;
// -- end audit follow-up --

fn main() {
    main_loop(run);
}

fn run(line: &str) -> String {
    let mut it = line.split_whitespace();
    let entry = it.next().unwrap();
    let data = unhex(it.next().unwrap());
    let r = if entry == "eth" {
        SlicedPacket::from_ethernet(&data)
    } else if entry == "sll" {
        SlicedPacket::from_linux_sll(&data)
    } else if entry == "ip" {
        SlicedPacket::from_ip(&data)
    } else if let Some(et) = entry.strip_prefix("et:") {
        SlicedPacket::from_ether_type(EtherType(et.parse().unwrap()), &data)
    } else {
        panic!("bad entry {}", entry)
    };
    match r {
        Ok(p) => {
            // raw header fields, then (audit follow-up) the derived / typed accessors
            let mut o = fieldfmt::packet_out(&p);
            fieldfmt2::packet(&mut o, &p, &data);
            o.finish()
        }
        Err(_) => "err".to_string(),
    }
}
