//! C13: TCP options (TcpOptions, TcpOptionsIterator, TcpHeader::set_options*).
use etherparse::*;
use vh::*;

fn main() {
    main_loop(run);
}

fn s_slot(s: &Option<(u32, u32)>) -> String {
    match s {
        None => "-".to_string(),
        Some((a, b)) => format!("{}-{}", a, b),
    }
}

fn s_element(e: &TcpOptionElement) -> String {
    use TcpOptionElement::*;
    match e {
        Noop => "N".to_string(),
        MaximumSegmentSize(v) => format!("M:{}", v),
        WindowScale(v) => format!("W:{}", v),
        SelectiveAcknowledgementPermitted => "P".to_string(),
        SelectiveAcknowledgement(f, r) => format!(
            "S:{}-{},{},{},{}",
            f.0,
            f.1,
            s_slot(&r[0]),
            s_slot(&r[1]),
            s_slot(&r[2])
        ),
        Timestamp(a, b) => format!("T:{}-{}", a, b),
    }
}

fn s_error(e: &TcpOptionReadError) -> String {
    use TcpOptionReadError::*;
    match e {
        UnexpectedEndOfSlice {
            option_id,
            expected_len,
            actual_len,
        } => format!("E:eos:{}:{}:{}", option_id, expected_len, actual_len),
        UnexpectedSize { option_id, size } => format!("E:size:{}:{}", option_id, size),
        UnknownId(id) => format!("E:unk:{}", id),
    }
}

fn s_item(i: &Result<TcpOptionElement, TcpOptionReadError>) -> String {
    match i {
        Ok(e) => s_element(e),
        Err(e) => s_error(e),
    }
}

/// drives the iterator by hand: every item with rest() after the call, rest()
/// after the first None, two more calls
fn iter_line(base: &[u8], mut it: TcpOptionsIterator) -> String {
    let mut out: Vec<String> = Vec::new();
    let mut calls = 0usize;
    loop {
        calls += 1;
        if calls > base.len() + 2 {
            out.push("RUNAWAY".to_string());
            break;
        }
        match it.next() {
            Some(item) => out.push(format!("{}@{}", s_item(&item), off(base, it.rest()))),
            None => break,
        }
    }
    out.push(format!("end@{}", off(base, it.rest())));
    for _ in 0..2 {
        match it.next() {
            None => out.push("x:none".to_string()),
            Some(item) => out.push(format!("x:{}", s_item(&item))),
        }
    }
    out.push(format!("last@{}", off(base, it.rest())));
    out.join(" ")
}

fn items(it: TcpOptionsIterator, max: usize) -> Vec<Result<TcpOptionElement, TcpOptionReadError>> {
    it.take(max).collect()
}

/// the same options seen through TcpHeader (options_iterator, options field,
/// header_len, data_offset) and through the serialised header + TcpHeaderSlice
fn via_header(hdr: &TcpHeader, direct: &TcpOptions) -> &'static str {
    let max = 64;
    let a = items(direct.elements_iter(), max);
    let b = items(hdr.options_iterator(), max);
    let mut same = a == b
        && hdr.options.as_slice() == direct.as_slice()
        && hdr.options == *direct
        && hdr.header_len() == 20 + direct.len()
        && hdr.data_offset() == direct.data_offset()
        && direct.len_u8() as usize == direct.len()
        && direct.is_empty() == (direct.len() == 0);
    let bytes = hdr.to_bytes();
    match TcpHeaderSlice::from_slice(&bytes) {
        Ok(s) => {
            let c = items(s.options_iterator(), max);
            same = same
                && c == a
                && s.options() == direct.as_slice()
                && s.data_offset() == direct.data_offset()
                && s.to_header().options == *direct;
        }
        Err(_) => same = false,
    }
    match TcpHeader::from_slice(&bytes) {
        Ok((h2, rest)) => {
            same = same && rest.is_empty() && h2.options == *direct && items(h2.options_iterator(), max) == a;
        }
        Err(_) => same = false,
    }
    if same {
        "same"
    } else {
        "DIFF"
    }
}

fn options_line(direct: Result<TcpOptions, TcpOptionWriteError>, hdr: Result<TcpHeader, TcpOptionWriteError>) -> String {
    match (direct, hdr) {
        (Err(TcpOptionWriteError::NotEnoughSpace(a)), Err(TcpOptionWriteError::NotEnoughSpace(b))) => {
            if a == b {
                format!("err nes={}", a)
            } else {
                format!("err nes={} hdr-nes={}", a, b)
            }
        }
        (Ok(o), Ok(h)) => {
            let s = o.as_slice();
            format!(
                "ok len={} do={} bytes={} hdr={} {}",
                o.len(),
                o.data_offset(),
                hex(s),
                via_header(&h, &o),
                iter_line(s, o.elements_iter())
            )
        }
        (Ok(_), Err(_)) => "MIXED direct=ok hdr=err".to_string(),
        (Err(_), Ok(_)) => "MIXED direct=err hdr=ok".to_string(),
    }
}

fn pair_of(s: &str) -> (u32, u32) {
    let (a, b) = s.split_once('-').expect("pair");
    (a.parse().unwrap(), b.parse().unwrap())
}

fn slot_of(s: &str) -> Option<(u32, u32)> {
    if s == "-" {
        None
    } else {
        Some(pair_of(s))
    }
}

fn element_of(s: &str) -> TcpOptionElement {
    use TcpOptionElement::*;
    let arg = || &s[2..];
    match s.as_bytes()[0] {
        b'N' => Noop,
        b'P' => SelectiveAcknowledgementPermitted,
        b'M' => MaximumSegmentSize(arg().parse().unwrap()),
        b'W' => WindowScale(arg().parse().unwrap()),
        b'T' => {
            let (a, b) = pair_of(arg());
            Timestamp(a, b)
        }
        b'S' => {
            let p: Vec<&str> = arg().split(',').collect();
            assert!(p.len() == 4, "sack");
            SelectiveAcknowledgement(pair_of(p[0]), [slot_of(p[1]), slot_of(p[2]), slot_of(p[3])])
        }
        _ => panic!("bad element {}", s),
    }
}

fn new_header() -> TcpHeader {
    TcpHeader::new(1234, 80, 0x11223344, 4321)
}

fn run(line: &str) -> String {
    let mut it = line.split_whitespace();
    let tag = it.next().unwrap();
    match tag {
        "raw" => {
            // the area sits inside a larger buffer so that every offset is meaningful
            let bs = unhex(it.next().unwrap());
            let mut buf = vec![0xa5u8; 8];
            buf.extend_from_slice(&bs);
            buf.extend_from_slice(&[0x5au8; 8]);
            let area = &buf[8..8 + bs.len()];
            iter_line(area, TcpOptionsIterator::from_slice(area))
        }
        "hraw" => {
            let bs = unhex(it.next().unwrap());
            let direct = TcpOptions::try_from_slice(&bs);
            let mut h = new_header();
            let hr = h.set_options_raw(&bs).map(|_| h);
            options_line(direct, hr)
        }
        "els" => {
            let els: Vec<TcpOptionElement> = it.map(element_of).collect();
            let direct = TcpOptions::try_from_elements(&els);
            let mut h = new_header();
            let hr = h.set_options(&els).map(|_| h);
            options_line(direct, hr)
        }
        _ => panic!("bad c13 tag {}", tag),
    }
}
