//! C13: TCP options (TcpOptions, TcpOptionsIterator) and their header level paths
//! (TcpHeader::set_options / set_options_raw / options_iterator / to_bytes / from_slice / read,
//! TcpHeaderSlice / TcpSlice ::from_slice / options / options_iterator).
use etherparse::*;
use vh::*;

fn main() {
    main_loop(run);
}

fn s_slot(s: &Option<(u32, u32)>) -> String {
    match s {
        None => "-".to_string(),
        Some((a, b)) => format!("{}-{}", a, b),
    }
}

fn s_element(e: &TcpOptionElement) -> String {
    use TcpOptionElement::*;
    match e {
        Noop => "N".to_string(),
        MaximumSegmentSize(v) => format!("M:{}", v),
        WindowScale(v) => format!("W:{}", v),
        SelectiveAcknowledgementPermitted => "P".to_string(),
        SelectiveAcknowledgement(f, r) => format!(
            "S:{}-{},{},{},{}",
            f.0,
            f.1,
            s_slot(&r[0]),
            s_slot(&r[1]),
            s_slot(&r[2])
        ),
        Timestamp(a, b) => format!("T:{}-{}", a, b),
    }
}

fn s_error(e: &TcpOptionReadError) -> String {
    use TcpOptionReadError::*;
    match e {
        UnexpectedEndOfSlice {
            option_id,
            expected_len,
            actual_len,
        } => format!("E:eos:{}:{}:{}", option_id, expected_len, actual_len),
        UnexpectedSize { option_id, size } => format!("E:size:{}:{}", option_id, size),
        UnknownId(id) => format!("E:unk:{}", id),
    }
}

fn s_item(i: &Result<TcpOptionElement, TcpOptionReadError>) -> String {
    match i {
        Ok(e) => s_element(e),
        Err(e) => s_error(e),
    }
}

/// drives the iterator by hand: every item with rest() after the call, rest()
/// after the first None, two more calls
fn iter_line(base: &[u8], mut it: TcpOptionsIterator) -> String {
    let mut out: Vec<String> = Vec::new();
    let mut calls = 0usize;
    loop {
        calls += 1;
        if calls > base.len() + 2 {
            out.push("RUNAWAY".to_string());
            break;
        }
        match it.next() {
            Some(item) => out.push(format!("{}@{}", s_item(&item), off(base, it.rest()))),
            None => break,
        }
    }
    out.push(format!("end@{}", off(base, it.rest())));
    for _ in 0..2 {
        match it.next() {
            None => out.push("x:none".to_string()),
            Some(item) => out.push(format!("x:{}", s_item(&item))),
        }
    }
    out.push(format!("last@{}", off(base, it.rest())));
    out.join(" ")
}

fn items(it: TcpOptionsIterator, max: usize) -> Vec<Result<TcpOptionElement, TcpOptionReadError>> {
    it.take(max).collect()
}

/// the same options seen through TcpHeader (options_iterator, options field,
/// header_len, data_offset) and through the serialised header + TcpHeaderSlice
fn via_header(hdr: &TcpHeader, direct: &TcpOptions) -> &'static str {
    let max = 64;
    let a = items(direct.elements_iter(), max);
    let b = items(hdr.options_iterator(), max);
    let mut same = a == b
        && hdr.options.as_slice() == direct.as_slice()
        && hdr.options == *direct
        && hdr.header_len() == 20 + direct.len()
        && hdr.data_offset() == direct.data_offset()
        && direct.len_u8() as usize == direct.len()
        && direct.is_empty() == (direct.len() == 0);
    let bytes = hdr.to_bytes();
    match TcpHeaderSlice::from_slice(&bytes) {
        Ok(s) => {
            let c = items(s.options_iterator(), max);
            same = same
                && c == a
                && s.options() == direct.as_slice()
                && s.data_offset() == direct.data_offset()
                && s.to_header().options == *direct;
        }
        Err(_) => same = false,
    }
    match TcpHeader::from_slice(&bytes) {
        Ok((h2, rest)) => {
            same = same && rest.is_empty() && h2.options == *direct && items(h2.options_iterator(), max) == a;
        }
        Err(_) => same = false,
    }
    if same {
        "same"
    } else {
        "DIFF"
    }
}

fn options_line(direct: Result<TcpOptions, TcpOptionWriteError>, hdr: Result<TcpHeader, TcpOptionWriteError>) -> String {
    match (direct, hdr) {
        (Err(TcpOptionWriteError::NotEnoughSpace(a)), Err(TcpOptionWriteError::NotEnoughSpace(b))) => {
            if a == b {
                format!("err nes={}", a)
            } else {
                format!("err nes={} hdr-nes={}", a, b)
            }
        }
        (Ok(o), Ok(h)) => {
            let s = o.as_slice();
            format!(
                "ok len={} do={} bytes={} hdr={} {}",
                o.len(),
                o.data_offset(),
                hex(s),
                via_header(&h, &o),
                iter_line(s, o.elements_iter())
            )
        }
        (Ok(_), Err(_)) => "MIXED direct=ok hdr=err".to_string(),
        (Err(_), Ok(_)) => "MIXED direct=err hdr=ok".to_string(),
    }
}

fn pair_of(s: &str) -> (u32, u32) {
    let (a, b) = s.split_once('-').expect("pair");
    (a.parse().unwrap(), b.parse().unwrap())
}

fn slot_of(s: &str) -> Option<(u32, u32)> {
    if s == "-" {
        None
    } else {
        Some(pair_of(s))
    }
}

fn element_of(s: &str) -> TcpOptionElement {
    use TcpOptionElement::*;
    let arg = || &s[2..];
    match s.as_bytes()[0] {
        b'N' => Noop,
        b'P' => SelectiveAcknowledgementPermitted,
        b'M' => MaximumSegmentSize(arg().parse().unwrap()),
        b'W' => WindowScale(arg().parse().unwrap()),
        b'T' => {
            let (a, b) = pair_of(arg());
            Timestamp(a, b)
        }
        b'S' => {
            let p: Vec<&str> = arg().split(',').collect();
            assert!(p.len() == 4, "sack");
            SelectiveAcknowledgement(pair_of(p[0]), [slot_of(p[1]), slot_of(p[2]), slot_of(p[3])])
        }
        _ => panic!("bad element {}", s),
    }
}

fn new_header() -> TcpHeader {
    TcpHeader::new(1234, 80, 0x11223344, 4321)
}

// ---------------------------------------------------------------- header level
fn same_or(reference: &str, s: String) -> String {
    if s == reference {
        "=".to_string()
    } else {
        s
    }
}

fn s_slice_err(e: &err::tcp::HeaderSliceError) -> String {
    use err::tcp::{HeaderError::*, HeaderSliceError::*};
    match e {
        Len(_) => "ERR:len".to_string(),
        Content(DataOffsetTooSmall { data_offset }) => format!("ERR:doff:{}", data_offset),
    }
}

fn s_read_err(e: &err::tcp::HeaderReadError) -> String {
    use err::tcp::{HeaderError::*, HeaderReadError::*};
    match e {
        Io(_) => "ERR:io".to_string(),
        Content(DataOffsetTooSmall { data_offset }) => format!("ERR:doff:{}", data_offset),
    }
}

/// `buf` (header + whatever follows) seen through TcpHeaderSlice, TcpSlice,
/// TcpHeader::from_slice and TcpHeader::read.  `ref_area` / `ref_it`: the option
/// bytes / iteration already printed on the line ("" = nothing printed yet);
/// equal strings are abbreviated to "=".
fn views_line(buf: &[u8], ref_area: &str, ref_it: &str, hdr: Option<&TcpHeader>) -> String {
    let mut out: Vec<String> = Vec::new();
    let mut area_ref = ref_area.to_string();
    let mut it_ref = ref_it.to_string();
    // TcpHeaderSlice
    match TcpHeaderSlice::from_slice(buf) {
        Err(e) => out.push(format!("hs={}", s_slice_err(&e))),
        Ok(s) => {
            let o = s.options();
            let area = hex(o);
            let it = iter_line(o, s.options_iterator());
            out.push(format!(
                "hs={} hsdo={} hsopt={}:{} hsit[ {} ]",
                off(buf, s.slice()),
                s.data_offset(),
                off(buf, o),
                same_or(&area_ref, area.clone()),
                same_or(&it_ref, it.clone())
            ));
            if area_ref.is_empty() {
                area_ref = area;
            }
            if it_ref.is_empty() {
                it_ref = it;
            }
        }
    }
    // TcpSlice
    match TcpSlice::from_slice(buf) {
        Err(e) => out.push(format!("ts={}", s_slice_err(&e))),
        Ok(s) => {
            let o = s.options();
            out.push(format!(
                "ts={} tsdo={} tshs={} tspl={} tsopt={}:{} tsit[ {} ]",
                s.header_len(),
                s.data_offset(),
                off(buf, s.header_slice()),
                off(buf, s.payload()),
                off(buf, o),
                same_or(&area_ref, hex(o)),
                same_or(&it_ref, iter_line(o, s.options_iterator()))
            ));
        }
    }
    // TcpHeader::from_slice
    let mut decoded: Option<TcpHeader> = None;
    match TcpHeader::from_slice(buf) {
        Err(e) => out.push(format!("fs={}", s_slice_err(&e))),
        Ok((h2, rest)) => {
            let o = h2.options.as_slice();
            out.push(format!(
                "fs={} fshl={} fsdo={} fsopt={} fsit[ {} ]",
                off(buf, rest),
                h2.header_len(),
                h2.data_offset(),
                same_or(&area_ref, hex(o)),
                same_or(&it_ref, iter_line(o, h2.options_iterator()))
            ));
            if let Some(h) = hdr {
                out.push(format!("fseq={}", if *h == h2 { "eq" } else { "ne" }));
            }
            decoded = Some(h2);
        }
    }
    // TcpHeader::read
    let mut cur = std::io::Cursor::new(buf);
    match TcpHeader::read(&mut cur) {
        Err(e) => out.push(format!("rd={}", s_read_err(&e))),
        Ok(h3) => {
            let o = h3.options.as_slice();
            out.push(format!(
                "rd={} rdopt={} rdeq={}",
                cur.position(),
                same_or(&area_ref, hex(o)),
                match &decoded {
                    Some(h2) => {
                        if *h2 == h3 {
                            "eq"
                        } else {
                            "ne"
                        }
                    }
                    None => "none",
                }
            ));
        }
    }
    out.join(" ")
}

/// the header after one operation: data offset, header length, option area,
/// TcpHeader::options_iterator, to_bytes, and the serialised header followed by
/// `payload` through every reader
fn state_line(h: &TcpHeader, payload: &[u8]) -> String {
    let o = h.options.as_slice();
    let area = hex(o);
    let it = iter_line(o, h.options_iterator());
    let bytes = h.to_bytes();
    let mut buf: Vec<u8> = bytes.to_vec();
    buf.extend_from_slice(payload);
    format!(
        "do={} hl={} area={} hit[ {} ] bytes={} {}",
        h.data_offset(),
        h.header_len(),
        area,
        it,
        hex(&bytes),
        views_line(&buf, &area, &it, Some(h))
    )
}

fn s_write_res(r: &Result<(), TcpOptionWriteError>) -> String {
    match r {
        Ok(()) => "ok".to_string(),
        Err(TcpOptionWriteError::NotEnoughSpace(n)) => format!("err:nes={}", n),
    }
}

/// hdr <sp> <dp> <seq> <ack> <flags> <win> <csum> <urg> <payload hex> / op / op ...
///   op = raw <hex> | els <el> ...
fn hdr_case(line: &str) -> String {
    let segs: Vec<&str> = line.split(" / ").collect();
    let f: Vec<&str> = segs[0].split_whitespace().collect();
    assert!(f.len() == 10, "hdr fields");
    let flags: u32 = f[5].parse().unwrap();
    let mut h = TcpHeader::new(f[1].parse().unwrap(), f[2].parse().unwrap(), f[3].parse().unwrap(), f[6].parse().unwrap());
    h.acknowledgment_number = f[4].parse().unwrap();
    h.ns = flags & 1 != 0;
    h.fin = flags & 2 != 0;
    h.syn = flags & 4 != 0;
    h.rst = flags & 8 != 0;
    h.psh = flags & 16 != 0;
    h.ack = flags & 32 != 0;
    h.urg = flags & 64 != 0;
    h.ece = flags & 128 != 0;
    h.cwr = flags & 256 != 0;
    h.checksum = f[7].parse().unwrap();
    h.urgent_pointer = f[8].parse().unwrap();
    let payload = unhex(f[9]);
    let mut out: Vec<String> = Vec::new();
    for seg in &segs[1..] {
        let mut it = seg.split_whitespace();
        let r = match it.next() {
            Some("raw") => h.set_options_raw(&unhex(it.next().unwrap())),
            Some("els") => {
                let els: Vec<TcpOptionElement> = it.map(element_of).collect();
                h.set_options(&els)
            }
            _ => panic!("bad hdr op {}", seg),
        };
        out.push(format!("{} {}", s_write_res(&r), state_line(&h, &payload)));
    }
    out.join(" ; ")
}

fn run(line: &str) -> String {
    let mut it = line.split_whitespace();
    let tag = it.next().unwrap();
    match tag {
        "raw" => {
            // the area sits inside a larger buffer so that every offset is meaningful
            let bs = unhex(it.next().unwrap());
            let mut buf = vec![0xa5u8; 8];
            buf.extend_from_slice(&bs);
            buf.extend_from_slice(&[0x5au8; 8]);
            let area = &buf[8..8 + bs.len()];
            iter_line(area, TcpOptionsIterator::from_slice(area))
        }
        "hraw" => {
            let bs = unhex(it.next().unwrap());
            let direct = TcpOptions::try_from_slice(&bs);
            let mut h = new_header();
            let hr = h.set_options_raw(&bs).map(|_| h);
            options_line(direct, hr)
        }
        "els" => {
            let els: Vec<TcpOptionElement> = it.map(element_of).collect();
            let direct = TcpOptions::try_from_elements(&els);
            let mut h = new_header();
            let hr = h.set_options(&els).map(|_| h);
            options_line(direct, hr)
        }
        "hdr" => hdr_case(line),
        "wire" => {
            // arbitrary bytes: a TCP header (any data offset) + payload, or less
            let bs = unhex(it.next().unwrap());
            views_line(&bs, "", "", None)
        }
        _ => panic!("bad c13 tag {}", tag),
    }
}
