//! C07, second comparison: the length errors of the `std::io::Read` based IP
//! decoders (the only readers that go through `LimitedReader` and so report a
//! `LenError`): IpHeaders::read on a Cursor over the case's bytes.  Prints the
//! error record in the rendering of parsefmt (`err len req,len,src,layer,off`),
//! `ok <header bytes consumed>`, `io` or `content`.
use etherparse::*;
use vh::*;

fn main() {
    main_loop(run);
}

fn run(line: &str) -> String {
    let mut it = line.split_whitespace();
    let _entry = it.next().unwrap();
    let data = unhex(it.next().unwrap());
    let mut c = std::io::Cursor::new(&data[..]);
    match IpHeaders::read(&mut c) {
        Ok(_) => format!("ok {}", c.position()),
        Err(err::ip::HeaderReadError::Io(_)) => "io".to_string(),
        Err(err::ip::HeaderReadError::Len(l)) => format!("err {}", parsefmt::len_err(&l)),
        Err(err::ip::HeaderReadError::Content(_)) => "content".to_string(),
    }
}
