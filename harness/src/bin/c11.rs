//! C11: IP defragmentation (IpDefragBuf driven directly, IpDefragPool through
//! process_sliced_packet with packets built and sliced by the crate).
use etherparse::defrag::*;
use etherparse::*;
use vh::*;

fn main() {
    main_loop(run);
}

fn pattern(len: usize, seed: usize) -> Vec<u8> {
    (0..len).map(|i| ((i * 7 + seed) & 255) as u8).collect()
}

/// data string: hex with ".." for masked bytes when short, else a checksum.
/// `get(i)` returns None for a byte that must not be looked at.
fn datastr(n: usize, get: &dyn Fn(usize) -> Option<u8>) -> String {
    if n == 0 {
        return "-".to_string();
    }
    if n <= 48 {
        let mut s = String::new();
        for i in 0..n {
            match get(i) {
                Some(b) => s.push_str(&format!("{:02x}", b)),
                None => s.push_str(".."),
            }
        }
        s
    } else {
        let mut a: u64 = 1;
        let mut b: u64 = 0;
        for i in 0..n {
            let v = match get(i) {
                Some(x) => x as u64,
                None => 256,
            };
            a = (a + v) % 65521;
            b = (b + a) % 65521;
        }
        format!("h{}", b * 65536 + a)
    }
}

fn err_str(e: &IpDefragError) -> String {
    use IpDefragError::*;
    match e {
        UnalignedFragmentPayloadLen {
            offset,
            payload_len,
        } => format!("unaligned:{}:{}", offset.value(), payload_len),
        SegmentTooBig {
            offset,
            payload_len,
            max,
        } => format!("toobig:{}:{}:{}", offset.value(), payload_len, max),
        ConflictingEnd {
            previous_end,
            conflicting_end,
        } => format!("conflict:{}:{}", previous_end, conflicting_end),
        AllocationFailure { len } => format!("alloc:{}", len),
    }
}

struct Frag {
    fo: u16,
    mf: bool,
    data: Vec<u8>,
}

fn frag_of(parts: &[&str]) -> Frag {
    match parts[0] {
        "a" | "p" => Frag {
            fo: parts[1].parse().unwrap(),
            mf: parts[2] == "1",
            data: unhex(parts[3]),
        },
        "z" | "q" => Frag {
            fo: parts[1].parse().unwrap(),
            mf: parts[2] == "1",
            data: pattern(parts[3].parse().unwrap(), parts[4].parse().unwrap()),
        },
        _ => panic!("frag op"),
    }
}

fn run_buf(args: &[&str]) -> String {
    let ipn: u8 = args[0].parse().unwrap();
    let stale = unhex(args[1]);
    let nstale: u16 = args[2].parse().unwrap();
    let stale_s: Vec<IpFragRange> = (0..nstale)
        .map(|i| IpFragRange {
            start: i * 16,
            end: i * 16 + 8,
        })
        .collect();
    let mut buf = IpDefragBuf::new(IpNumber(ipn), stale, stale_s);
    let mut out: Vec<String> = Vec::new();
    for op in &args[3..] {
        let parts: Vec<&str> = op.split(':').collect();
        let f = frag_of(&parts);
        let r = buf.add(IpFragOffset::try_new(f.fo).unwrap(), f.mf, &f.data);
        let v = match &r {
            Ok(()) => "ok".to_string(),
            Err(e) => err_str(e),
        };
        let secs = buf.sections().clone();
        let s = if secs.is_empty() {
            "-".to_string()
        } else {
            secs.iter()
                .map(|r| format!("{}-{}", r.start, r.end))
                .collect::<Vec<_>>()
                .join(",")
        };
        let data = buf.data();
        let n = data.len();
        // bytes outside every section were never written by this datagram: not looked at
        let get = |i: usize| -> Option<u8> {
            if secs
                .iter()
                .any(|r| (r.start as usize) <= i && i < (r.end as usize))
            {
                Some(data[i])
            } else {
                None
            }
        };
        out.push(format!(
            "{} c={} e={} n={} s={} d={}",
            v,
            if buf.is_complete() { 1 } else { 0 },
            match buf.end() {
                Some(e) => e.to_string(),
                None => "-".to_string(),
            },
            n,
            s,
            datastr(n, &get)
        ));
    }
    // take_bufs hands out exactly the observed vectors
    let (d, s) = buf.clone().take_bufs();
    assert!(d.len() == buf.data().len() && s == *buf.sections());
    out.join(" ; ")
}

struct Stream {
    v4: bool,
    vlans: Vec<u16>,
    src: Vec<u8>,
    dst: Vec<u8>,
    ident: u32,
    proto: u8,
    chan: u32,
}

fn stream_of(s: &str) -> Stream {
    let p: Vec<&str> = s.split('/').collect();
    Stream {
        v4: p[0] == "4",
        vlans: if p[1] == "-" {
            Vec::new()
        } else {
            p[1].split('.').map(|x| x.parse().unwrap()).collect()
        },
        src: unhex(p[2]),
        dst: unhex(p[3]),
        ident: p[4].parse().unwrap(),
        proto: p[5].parse().unwrap(),
        chan: p[6].parse().unwrap(),
    }
}

/// Ethernet II + VLAN tags + IPv4 / IPv6 with fragment header, serialised by the crate.
fn build_packet(st: &Stream, f: &Frag) -> Vec<u8> {
    let mut buf = Vec::new();
    let ip_ether_type = if st.v4 {
        EtherType::IPV4
    } else {
        EtherType::IPV6
    };
    buf.extend_from_slice(
        &Ethernet2Header {
            source: [1, 2, 3, 4, 5, 6],
            destination: [7, 8, 9, 10, 11, 12],
            ether_type: if st.vlans.is_empty() {
                ip_ether_type
            } else {
                EtherType::VLAN_TAGGED_FRAME
            },
        }
        .to_bytes(),
    );
    for (i, v) in st.vlans.iter().enumerate() {
        buf.extend_from_slice(
            &SingleVlanHeader {
                pcp: VlanPcp::try_new(0).unwrap(),
                drop_eligible_indicator: false,
                vlan_id: VlanId::try_new(*v).unwrap(),
                ether_type: if i + 1 < st.vlans.len() {
                    EtherType::VLAN_TAGGED_FRAME
                } else {
                    ip_ether_type
                },
            }
            .to_bytes(),
        );
    }
    let fo = IpFragOffset::try_new(f.fo).unwrap();
    if st.v4 {
        let mut header = Ipv4Header {
            identification: st.ident as u16,
            more_fragments: f.mf,
            fragment_offset: fo,
            protocol: IpNumber(st.proto),
            source: [st.src[0], st.src[1], st.src[2], st.src[3]],
            destination: [st.dst[0], st.dst[1], st.dst[2], st.dst[3]],
            total_len: (Ipv4Header::MIN_LEN + f.data.len()) as u16,
            time_to_live: 2,
            ..Default::default()
        };
        header.header_checksum = header.calc_header_checksum();
        buf.extend_from_slice(&header.to_bytes());
    } else {
        let mut s = [0u8; 16];
        s.copy_from_slice(&st.src);
        let mut d = [0u8; 16];
        d.copy_from_slice(&st.dst);
        buf.extend_from_slice(
            &Ipv6Header {
                traffic_class: 0,
                flow_label: Default::default(),
                payload_length: (f.data.len() + Ipv6FragmentHeader::LEN) as u16,
                next_header: IpNumber::IPV6_FRAGMENTATION_HEADER,
                hop_limit: 2,
                source: s,
                destination: d,
            }
            .to_bytes(),
        );
        buf.extend_from_slice(
            &Ipv6FragmentHeader {
                next_header: IpNumber(st.proto),
                fragment_offset: fo,
                more_fragments: f.mf,
                identification: st.ident,
            }
            .to_bytes(),
        );
    }
    buf.extend_from_slice(&f.data);
    buf
}

/// (active streams, pooled data buffers, pooled section buffers) through the add-only hook
/// `IpDefragPool::verif_stats` (only with `--cfg etherparse_verif`)
#[cfg(etherparse_verif)]
fn stats_str(pool: &IpDefragPool<u64, u32>) -> String {
    let (a, d, s) = pool.verif_stats();
    format!("stats={},{},{}", a, d, s)
}

#[cfg(not(etherparse_verif))]
fn stats_str(_pool: &IpDefragPool<u64, u32>) -> String {
    "stats=-".to_string()
}

fn run_pool(args: &[&str]) -> String {
    let ns: usize = args[0].parse().unwrap();
    let streams: Vec<Stream> = args[1..1 + ns].iter().map(|s| stream_of(s)).collect();
    let mut pool = IpDefragPool::<u64, u32>::new();
    let mut held: Vec<IpDefragPayloadVec> = Vec::new();
    let mut out: Vec<String> = Vec::new();
    for op in &args[1 + ns..] {
        let parts: Vec<&str> = op.split(':').collect();
        match parts[0] {
            "p" | "q" => {
                let sid: usize = parts[1].parse().unwrap();
                let ts: u64 = parts[4].parse().unwrap();
                let mut fp = vec![parts[0], parts[2], parts[3]];
                fp.extend_from_slice(&parts[5..]);
                let f = frag_of(&fp);
                let st = &streams[sid];
                let pdata = build_packet(st, &f);
                let probe_store: Vec<u8>;
                let slice = match SlicedPacket::from_ethernet(&pdata) {
                    Ok(s) => s,
                    Err(e) => {
                        // only an unfragmented packet whose payload is not a well-formed
                        // transport header may fail to slice: take link + net without transport
                        assert!(f.fo == 0 && !f.mf, "slicing the built packet: {:?}", e);
                        let ip_off = 14 + 4 * st.vlans.len();
                        let mut probe = pdata.clone();
                        if st.v4 {
                            probe[ip_off + 9] = 253;
                            probe[ip_off + 10] = 0;
                            probe[ip_off + 11] = 0;
                            let h = Ipv4Header::from_slice(&probe[ip_off..]).unwrap().0;
                            let c = h.calc_header_checksum().to_be_bytes();
                            probe[ip_off + 10] = c[0];
                            probe[ip_off + 11] = c[1];
                        } else {
                            probe[ip_off + 40] = 253;
                        }
                        probe_store = probe;
                        let outer = SlicedPacket::from_ethernet(&probe_store).expect("probe slicing");
                        let net = if st.v4 {
                            NetSlice::Ipv4(Ipv4Slice::from_slice(&pdata[ip_off..]).expect("ipv4 slice"))
                        } else {
                            NetSlice::Ipv6(Ipv6Slice::from_slice(&pdata[ip_off..]).expect("ipv6 slice"))
                        };
                        SlicedPacket {
                            link: outer.link,
                            link_exts: outer.link_exts,
                            net: Some(net),
                            transport: None,
                        }
                    }
                };
                let r = pool.process_sliced_packet(&slice, ts, st.chan);
                out.push(match r {
                    Ok(None) => "none".to_string(),
                    Ok(Some(p)) => {
                        let pl = &p.payload;
                        let s = format!(
                            "done:{}:{}:n={}:d={}",
                            p.ip_number.0,
                            match p.len_source {
                                LenSource::Ipv4HeaderTotalLen => "4",
                                LenSource::Ipv6HeaderPayloadLen => "6",
                                _ => "?",
                            },
                            pl.len(),
                            datastr(pl.len(), &|i| Some(pl[i]))
                        );
                        held.push(p);
                        s
                    }
                    Err(e) => format!("err:{}", err_str(&e)),
                });
            }
            "r" => {
                if let Some(p) = held.pop() {
                    pool.return_buf(p);
                    out.push("ret1".to_string());
                } else {
                    out.push("ret0".to_string());
                }
            }
            "rf" => {
                // a vector the pool never handed out (the fields of IpDefragPayloadVec are public)
                pool.return_buf(IpDefragPayloadVec {
                    ip_number: IpNumber(253),
                    len_source: LenSource::Ipv4HeaderTotalLen,
                    payload: unhex(parts[1]),
                });
                out.push("retf".to_string());
            }
            "t" => {
                if parts.len() == 2 {
                    let cutoff: u64 = parts[1].parse().unwrap();
                    pool.retain(|t| cutoff <= *t);
                } else {
                    // the same table as in ocaml/run_c11.ml
                    let arg: u64 = parts[2].parse().unwrap();
                    match parts[1] {
                        "ge" => pool.retain(|t| arg <= *t),
                        "lt" => pool.retain(|t| *t < arg),
                        "ne" => pool.retain(|t| *t != arg),
                        "eq" => pool.retain(|t| *t == arg),
                        "mod" => pool.retain(|t| *t % 2 == (arg & 1)),
                        "all" => pool.retain(|_| true),
                        "none" => pool.retain(|_| false),
                        _ => panic!("retain predicate"),
                    }
                }
                out.push("retain".to_string());
            }
            _ => panic!("pool op"),
        }
        // the numbers of the verification hook after every operation
        let last = out.pop().unwrap();
        out.push(format!("{} {}", last, stats_str(&pool)));
    }
    out.join(" ; ")
}

/// third part: what `process_sliced_packet` reads from the slice, through the same public
/// accessors (`vlan_ids`, header `source` / `destination` / `identification` /
/// `fragments_offset` / `more_fragments`, the extension iterator, `payload()`), rendered as
/// ver/vlans/src/dst/ident/proto/chan:offset:mf:payload window; "-" = not fragmenting.
fn key_str(frame: &[u8], slice: &SlicedPacket, chan: u32) -> String {
    let vl = slice.vlan_ids();
    let vls = if vl.is_empty() {
        "-".to_string()
    } else {
        vl.iter()
            .map(|v| v.value().to_string())
            .collect::<Vec<_>>()
            .join(".")
    };
    match &slice.net {
        Some(NetSlice::Ipv4(ipv4)) => {
            let h = ipv4.header();
            if !h.is_fragmenting_payload() {
                return "-".to_string();
            }
            format!(
                "4/{}/{}/{}/{}/{}/{}:{}:{}:{}",
                vls,
                hex(&h.source()),
                hex(&h.destination()),
                h.identification(),
                ipv4.payload().ip_number.0,
                chan,
                h.fragments_offset().value(),
                if h.more_fragments() { 1 } else { 0 },
                off(frame, ipv4.payload().payload)
            )
        }
        Some(NetSlice::Ipv6(ipv6)) => {
            let mut f = None;
            for ext in ipv6.extensions().clone().into_iter() {
                if let Ipv6ExtensionSlice::Fragment(x) = ext {
                    f = Some(x);
                    break;
                }
            }
            match f {
                Some(f) if f.is_fragmenting_payload() => format!(
                    "6/{}/{}/{}/{}/{}/{}:{}:{}:{}",
                    vls,
                    hex(&ipv6.header().source()),
                    hex(&ipv6.header().destination()),
                    f.identification(),
                    ipv6.payload().ip_number.0,
                    chan,
                    f.fragment_offset().value(),
                    if f.more_fragments() { 1 } else { 0 },
                    off(frame, ipv6.payload().payload)
                ),
                _ => "-".to_string(),
            }
        }
        _ => "-".to_string(),
    }
}

fn pres_str(r: Result<Option<IpDefragPayloadVec>, IpDefragError>, held: &mut Vec<IpDefragPayloadVec>) -> String {
    match r {
        Ok(None) => "none".to_string(),
        Ok(Some(p)) => {
            let pl = &p.payload;
            let s = format!(
                "done:{}:{}:n={}:d={}",
                p.ip_number.0,
                match p.len_source {
                    LenSource::Ipv4HeaderTotalLen => "4",
                    LenSource::Ipv6HeaderPayloadLen => "6",
                    _ => "?",
                },
                pl.len(),
                datastr(pl.len(), &|i| Some(pl[i]))
            );
            held.push(p);
            s
        }
        Err(e) => format!("err:{}", err_str(&e)),
    }
}

/// histories of raw FRAMES: sliced with the named entry point of SlicedPacket, then handed to the pool
/// (a frame the slicer rejects is not handed over)
fn run_pk(args: &[&str]) -> String {
    let mut pool = IpDefragPool::<u64, u32>::new();
    let mut held: Vec<IpDefragPayloadVec> = Vec::new();
    let mut out: Vec<String> = Vec::new();
    for op in args {
        let parts: Vec<&str> = op.split(':').collect();
        match parts[0] {
            "k" => {
                let ent = parts[2];
                let chan: u32 = parts[3].parse().unwrap();
                let ts: u64 = parts[4].parse().unwrap();
                let frame = unhex(parts[5]);
                let sliced = match ent {
                    "eth" => SlicedPacket::from_ethernet(&frame),
                    "sll" => SlicedPacket::from_linux_sll(&frame),
                    "ip" => SlicedPacket::from_ip(&frame),
                    _ => SlicedPacket::from_ether_type(EtherType(ent[2..].parse().unwrap()), &frame),
                };
                match sliced {
                    Ok(slice) => {
                        let key = key_str(&frame, &slice, chan);
                        let r = pool.process_sliced_packet(&slice, ts, chan);
                        out.push(format!("sl key={} {}", key, pres_str(r, &mut held)));
                    }
                    Err(_) => out.push("unsl key=- none".to_string()),
                }
            }
            "r" => {
                if let Some(p) = held.pop() {
                    pool.return_buf(p);
                    out.push("ret1".to_string());
                } else {
                    out.push("ret0".to_string());
                }
            }
            "rf" => {
                pool.return_buf(IpDefragPayloadVec {
                    ip_number: IpNumber(253),
                    len_source: LenSource::Ipv4HeaderTotalLen,
                    payload: unhex(parts[1]),
                });
                out.push("retf".to_string());
            }
            _ => panic!("pk op"),
        }
        let last = out.pop().unwrap();
        out.push(format!("{} {}", last, stats_str(&pool)));
    }
    out.join(" ; ")
}

fn run(line: &str) -> String {
    let toks: Vec<&str> = line.split_whitespace().collect();
    match toks[0] {
        "buf" => run_buf(&toks[1..]),
        "pool" => run_pool(&toks[1..]),
        "pk" => run_pk(&toks[1..]),
        _ => panic!("bad c11 tag {}", toks[0]),
    }
}
