//! C16: I/O faults and short buffers.  Instrumented std::io::Write / std::io::Read
//! devices that fail at byte k, output slices with canaries behind them, and the
//! `ref` mode that turns a header description into the part list of the model.
use etherparse::err::{Layer, LenError};
use etherparse::io::LimitedReader;
use etherparse::*;
use std::io::{self, Read, Seek, SeekFrom, Write};
use vh::*;

fn main() {
    main_loop(run);
}

// ---------------------------------------------------------------- devices
/// accepts `budget` bytes in total, at most `chunk` per call, then Err(Other) or Ok(0)
struct FSink {
    budget: usize,
    chunk: usize,
    zero: bool,
    got: Vec<u8>,
    /// transient fault: the device fails ONCE when the budget is used up and accepts data again
    /// afterwards; whatever arrives then was written after the operation had been told of the failure
    transient: bool,
    faulted: bool,
    after: Vec<u8>,
    calls_after: usize,
}
impl FSink {
    fn new(budget: usize, chunk: usize, zero: bool, transient: bool) -> FSink {
        FSink { budget, chunk, zero, got: Vec::new(), transient, faulted: false, after: Vec::new(), calls_after: 0 }
    }
}
impl Write for FSink {
    fn write(&mut self, buf: &[u8]) -> io::Result<usize> {
        if self.faulted {
            self.calls_after += 1;
            if self.transient {
                self.after.extend_from_slice(buf);
                return Ok(buf.len());
            }
        }
        if self.budget == 0 {
            self.faulted = true;
            return if self.zero { Ok(0) } else { Err(io::Error::new(io::ErrorKind::Other, "fault")) };
        }
        let n = self.budget.min(self.chunk).min(buf.len());
        self.got.extend_from_slice(&buf[..n]);
        self.budget -= n;
        Ok(n)
    }
    fn flush(&mut self) -> io::Result<()> {
        Ok(())
    }
}

/// delivers `data` (already truncated at k), at most `chunk` per call, then Err(Other) or Ok(0)
struct FSource {
    data: Vec<u8>,
    pos: usize,
    chunk: usize,
    err: bool,
    /// set once the source was asked for bytes it does not have (the fault was hit)
    hit: bool,
}
impl Read for FSource {
    fn read(&mut self, buf: &mut [u8]) -> io::Result<usize> {
        if self.pos == self.data.len() {
            if !buf.is_empty() {
                self.hit = true;
            }
            return if self.err { Err(io::Error::new(io::ErrorKind::Other, "fault")) } else { Ok(0) };
        }
        let n = (self.data.len() - self.pos).min(self.chunk).min(buf.len());
        buf[..n].copy_from_slice(&self.data[self.pos..self.pos + n]);
        self.pos += n;
        Ok(n)
    }
}
impl Seek for FSource {
    fn seek(&mut self, _p: SeekFrom) -> io::Result<u64> {
        // the read functions only require the bound; a call would be a finding
        panic!("seek called")
    }
}

fn io_kind(e: &io::Error) -> String {
    match e.kind() {
        io::ErrorKind::Other => "io:other".into(),
        io::ErrorKind::WriteZero => "io:wz".into(),
        io::ErrorKind::UnexpectedEof => "io:eof".into(),
        k => format!("io:?{:?}", k),
    }
}

fn layer_tag(l: Layer) -> u32 {
    match l {
        Layer::Ethernet2Header => 1,
        Layer::LinuxSllHeader => 2,
        Layer::Ipv4Header => 3,
        Layer::Ipv4Packet => 4,
        Layer::IpAuthHeader => 5,
        Layer::Ipv6Header => 6,
        Layer::Ipv6ExtHeader => 7,
        Layer::Ipv6FragHeader => 8,
        _ => 99,
    }
}
fn tag_layer(t: u32) -> Layer {
    match t {
        1 => Layer::Ethernet2Header,
        2 => Layer::LinuxSllHeader,
        3 => Layer::Ipv4Header,
        4 => Layer::Ipv4Packet,
        5 => Layer::IpAuthHeader,
        6 => Layer::Ipv6Header,
        7 => Layer::Ipv6ExtHeader,
        8 => Layer::Ipv6FragHeader,
        _ => panic!("layer tag"),
    }
}
fn src_tag(s: LenSource) -> u32 {
    match s {
        LenSource::Slice => 0,
        LenSource::Ipv4HeaderTotalLen => 1,
        LenSource::Ipv6HeaderPayloadLen => 2,
        _ => 9,
    }
}
fn len_err(e: &LenError) -> String {
    format!(
        "{} {} {} {} {}",
        e.required_len,
        e.len,
        src_tag(e.len_source),
        layer_tag(e.layer),
        e.layer_start_offset
    )
}

fn walk6(e: &err::ipv6_exts::ExtsWalkError) -> String {
    use err::ipv6_exts::ExtsWalkError::*;
    match e {
        HopByHopNotAtStart => "content:hop".into(),
        ExtNotReferenced { missing_ext } => format!("content:notref{}", missing_ext.0),
    }
}
fn walk4(e: &err::ipv4_exts::ExtsWalkError) -> String {
    use err::ipv4_exts::ExtsWalkError::*;
    match e {
        ExtNotReferenced { missing_ext } => format!("content:notref{}", missing_ext.0),
    }
}

// ---------------------------------------------------------------- building values from the description
fn opt<T>(s: &str, f: impl Fn(&[u8]) -> T) -> Option<T> {
    if s == "-" {
        None
    } else {
        Some(f(&unhex(s)))
    }
}
fn raw_ext(b: &[u8]) -> Ipv6RawExtHeader {
    Ipv6RawExtHeader::from_slice(b).unwrap().0
}
fn frag(b: &[u8]) -> Ipv6FragmentHeader {
    Ipv6FragmentHeader::from_slice(b).unwrap().0
}
fn auth(b: &[u8]) -> IpAuthHeader {
    IpAuthHeader::from_slice(b).unwrap().0
}
/// hop;dest;routing;final;frag;auth
fn exts6(t: &[&str]) -> Ipv6Extensions {
    assert!(t.len() == 6, "x6 slots");
    Ipv6Extensions {
        hop_by_hop_options: opt(t[0], raw_ext),
        destination_options: opt(t[1], raw_ext),
        routing: opt(t[2], raw_ext).map(|r| Ipv6RoutingExtensions {
            routing: r,
            final_destination_options: opt(t[3], raw_ext),
        }),
        fragment: opt(t[4], frag),
        auth: opt(t[5], auth),
    }
}
fn exts4(t: &str) -> Ipv4Extensions {
    Ipv4Extensions { auth: opt(t, auth) }
}

fn slot(nh: u8, len: usize, b: &[u8]) -> String {
    format!("{}:{}:{}", nh, len, hex(b))
}
fn slot_raw(o: &Option<Ipv6RawExtHeader>) -> String {
    match o {
        Some(h) => slot(h.next_header.0, h.header_len(), &h.to_bytes()),
        None => "-".into(),
    }
}
fn slot_auth(o: &Option<IpAuthHeader>) -> String {
    match o {
        Some(h) => slot(h.next_header.0, h.header_len(), &h.to_bytes()),
        None => "-".into(),
    }
}
fn slots6(x: &Ipv6Extensions) -> String {
    let (r, f) = match &x.routing {
        Some(r) => (slot_raw(&Some(r.routing.clone())), slot_raw(&r.final_destination_options)),
        None => ("-".to_string(), "-".to_string()),
    };
    let fr = match &x.fragment {
        Some(h) => slot(h.next_header.0, h.header_len(), &h.to_bytes()),
        None => "-".into(),
    };
    format!(
        "{};{};{};{};{};{}",
        slot_raw(&x.hop_by_hop_options),
        slot_raw(&x.destination_options),
        r,
        f,
        fr,
        slot_auth(&x.auth)
    )
}


fn slots_total(s: &str, sep: char) -> usize {
    s.split(sep).filter(|t| *t != "-").map(|t| t.rsplit(':').next().map(|h| if h == "-" { 0 } else { h.len() / 2 }).unwrap()).sum()
}

// ---------------------------------------------------------------- the writers under test
enum Val {
    Eth(Ethernet2Header),
    Vlan(SingleVlanHeader),
    Sll(LinuxSllHeader),
    Link(LinkHeader),
    Macsec(MacsecHeader),
    Arp(ArpPacket),
    Ip6h(Ipv6Header),
    Frag(Ipv6FragmentHeader),
    Udp(UdpHeader),
    Icmp4(Icmpv4Header),
    Icmp6(Icmpv6Header),
    Tr(TransportHeader),
    Ip4h(Ipv4Header, bool), // raw?
    Auth(IpAuthHeader),
    RawExt(Ipv6RawExtHeader),
    Tcp(TcpHeader),
    X4(Ipv4Extensions, u8),
    X6(Ipv6Extensions, u8),
    Iph(IpHeaders),
}

fn make(entry: &str, spec: &str) -> Val {
    let t: Vec<&str> = spec.split(';').collect();
    let b = |i: usize| unhex(t[i]);
    match entry {
        "eth" => Val::Eth(Ethernet2Header::from_slice(&b(0)).unwrap().0),
        "vlan" => Val::Vlan(SingleVlanHeader::from_slice(&b(0)).unwrap().0),
        "sll" => Val::Sll(LinuxSllHeader::from_slice(&b(0)).unwrap().0),
        "link_eth" => Val::Link(LinkHeader::Ethernet2(Ethernet2Header::from_slice(&b(0)).unwrap().0)),
        "link_sll" => Val::Link(LinkHeader::LinuxSll(LinuxSllHeader::from_slice(&b(0)).unwrap().0)),
        "macsec" => Val::Macsec(MacsecHeader::from_slice(&b(0)).unwrap()),
        "arp" => Val::Arp(ArpPacket::from_slice(&b(0)).unwrap()),
        "ip6h" => Val::Ip6h(Ipv6Header::from_slice(&b(0)).unwrap().0),
        "frag" => Val::Frag(frag(&b(0))),
        "udp" => Val::Udp(UdpHeader::from_slice(&b(0)).unwrap().0),
        "icmp4" => Val::Icmp4(Icmpv4Header::from_slice(&b(0)).unwrap().0),
        "icmp6" => Val::Icmp6(Icmpv6Header::from_slice(&b(0)).unwrap().0),
        "tr_udp" => Val::Tr(TransportHeader::Udp(UdpHeader::from_slice(&b(0)).unwrap().0)),
        "tr_tcp" => Val::Tr(TransportHeader::Tcp(TcpHeader::from_slice(&b(0)).unwrap().0)),
        "tr_icmp4" => Val::Tr(TransportHeader::Icmpv4(Icmpv4Header::from_slice(&b(0)).unwrap().0)),
        "tr_icmp6" => Val::Tr(TransportHeader::Icmpv6(Icmpv6Header::from_slice(&b(0)).unwrap().0)),
        "ip4h" => Val::Ip4h(Ipv4Header::from_slice(&b(0)).unwrap().0, false),
        "ip4h_raw" => Val::Ip4h(Ipv4Header::from_slice(&b(0)).unwrap().0, true),
        "auth" => Val::Auth(auth(&b(0))),
        "rawext" => Val::RawExt(raw_ext(&b(0))),
        "tcp" => Val::Tcp(TcpHeader::from_slice(&b(0)).unwrap().0),
        "x4" => Val::X4(exts4(t[1]), t[0].parse().unwrap()),
        "x6" => Val::X6(exts6(&t[1..]), t[0].parse().unwrap()),
        "iph4" => Val::Iph(IpHeaders::Ipv4(Ipv4Header::from_slice(&b(0)).unwrap().0, exts4(t[1]))),
        "iph6" => Val::Iph(IpHeaders::Ipv6(Ipv6Header::from_slice(&b(0)).unwrap().0, exts6(&t[1..]))),
        _ => panic!("entry {}", entry),
    }
}

/// the model's description of the value: to_bytes() of every part (a different code
/// path than `write` for the two-part headers), header_len() of every slot
fn reference(v: &Val) -> String {
    let two = |all: &[u8], fixed: usize| format!("{},{}", hex(&all[..fixed]), hex(&all[fixed..]));
    match v {
        Val::Eth(h) => hex(&h.to_bytes()),
        Val::Vlan(h) => hex(&h.to_bytes()),
        Val::Sll(h) => hex(&h.to_bytes()),
        Val::Link(LinkHeader::Ethernet2(h)) => hex(&h.to_bytes()),
        Val::Link(LinkHeader::LinuxSll(h)) => hex(&h.to_bytes()),
        Val::Macsec(h) => hex(&h.to_bytes()),
        Val::Arp(h) => hex(&h.to_bytes()),
        Val::Ip6h(h) => hex(&h.to_bytes()),
        Val::Frag(h) => hex(&h.to_bytes()),
        Val::Udp(h) => hex(&h.to_bytes()),
        Val::Icmp4(h) => hex(&h.to_bytes()),
        Val::Icmp6(h) => hex(&h.to_bytes()),
        Val::Tr(TransportHeader::Udp(h)) => hex(&h.to_bytes()),
        Val::Tr(TransportHeader::Icmpv4(h)) => hex(&h.to_bytes()),
        Val::Tr(TransportHeader::Icmpv6(h)) => hex(&h.to_bytes()),
        Val::Tr(TransportHeader::Tcp(h)) => two(&h.to_bytes(), 20),
        Val::Tcp(h) => two(&h.to_bytes(), 20),
        Val::Ip4h(h, raw) => {
            let mut h = h.clone();
            if !*raw {
                h.header_checksum = h.calc_header_checksum();
            }
            two(&h.to_bytes(), 20)
        }
        Val::Auth(h) => two(&h.to_bytes(), 12),
        Val::RawExt(h) => two(&h.to_bytes(), 2),
        Val::X4(x, start) => format!("{};{}", start, slot_auth(&x.auth)),
        Val::X6(x, first) => format!("{};{}", first, slots6(x)),
        Val::Iph(IpHeaders::Ipv4(h, x)) => {
            let mut h2 = h.clone();
            h2.header_checksum = h2.calc_header_checksum();
            format!("{};{};{}", two(&h2.to_bytes(), 20), h.protocol.0, slot_auth(&x.auth))
        }
        Val::Iph(IpHeaders::Ipv6(h, x)) => format!("{};{};{}", hex(&h.to_bytes()), h.next_header.0, slots6(x)),
    }
}

fn write_val(v: &Val, w: &mut FSink) -> String {
    let io = |r: Result<(), io::Error>| match r {
        Ok(()) => "ok".to_string(),
        Err(e) => io_kind(&e),
    };
    match v {
        Val::Eth(h) => io(h.write(w)),
        Val::Vlan(h) => io(h.write(w)),
        Val::Sll(h) => io(h.write(w)),
        Val::Link(h) => io(h.write(w)),
        Val::Macsec(h) => io(h.write(w)),
        Val::Arp(h) => io(h.write(w)),
        Val::Ip6h(h) => io(h.write(w)),
        Val::Frag(h) => io(h.write(w)),
        Val::Udp(h) => io(h.write(w)),
        Val::Icmp4(h) => io(h.write(w)),
        Val::Icmp6(h) => io(h.write(w)),
        Val::Tr(h) => io(h.write(w)),
        Val::Ip4h(h, raw) => io(if *raw { h.write_raw(w) } else { h.write(w) }),
        Val::Auth(h) => io(h.write(w)),
        Val::RawExt(h) => io(h.write(w)),
        Val::Tcp(h) => io(h.write(w)),
        Val::X4(x, start) => match x.write(w, IpNumber(*start)) {
            Ok(()) => "ok".into(),
            Err(err::ipv4_exts::HeaderWriteError::Io(e)) => io_kind(&e),
            Err(err::ipv4_exts::HeaderWriteError::Content(e)) => walk4(&e),
        },
        Val::X6(x, first) => match x.write(w, IpNumber(*first)) {
            Ok(()) => "ok".into(),
            Err(err::ipv6_exts::HeaderWriteError::Io(e)) => io_kind(&e),
            Err(err::ipv6_exts::HeaderWriteError::Content(e)) => walk6(&e),
        },
        Val::Iph(h) => match h.write(w) {
            Ok(()) => "ok".into(),
            Err(err::ip::HeadersWriteError::Io(e)) => io_kind(&e),
            Err(err::ip::HeadersWriteError::Ipv4Exts(e)) => walk4(&e),
            Err(err::ip::HeadersWriteError::Ipv6Exts(e)) => walk6(&e),
        },
    }
}

// ---------------------------------------------------------------- builder
/// link;vlan;net;transport;payload  (see tools/props/c16.py)
struct Bld<'a> {
    link: &'a str,
    vlan: u8,
    net: Vec<&'a str>,
    tr: Vec<&'a str>,
    payload: Vec<u8>,
}
fn parse_bld(spec: &str) -> Bld<'_> {
    let t: Vec<&str> = spec.split(';').collect();
    assert!(t.len() == 5, "bld spec");
    Bld {
        link: t[0],
        vlan: t[1].parse().unwrap(),
        net: t[2].split('/').collect(),
        tr: t[3].split('/').collect(),
        payload: unhex(t[4]),
    }
}
fn bld_ip(b: &Bld) -> IpHeaders {
    match b.net[0] {
        "4" => IpHeaders::Ipv4(Ipv4Header::from_slice(&unhex(b.net[1])).unwrap().0, exts4(b.net[2])),
        "6" => IpHeaders::Ipv6(Ipv6Header::from_slice(&unhex(b.net[1])).unwrap().0, exts6(&b.net[2..])),
        _ => panic!("net"),
    }
}
fn bld_vlan(n: u8) -> VlanHeader {
    let s = |id: u16| SingleVlanHeader {
        pcp: VlanPcp::try_new(3).unwrap(),
        drop_eligible_indicator: true,
        vlan_id: VlanId::try_new(id).unwrap(),
        ether_type: EtherType(0),
    };
    if n == 1 {
        VlanHeader::Single(s(0x123))
    } else {
        VlanHeader::Double(DoubleVlanHeader { outer: s(0x234), inner: s(0x345) })
    }
}

enum Out<'a> {
    Io(&'a mut FSink),
    Vec(&'a mut Vec<u8>),
    Slice(&'a mut [u8]),
    Size,
}
enum BRes {
    Io(Result<(), err::packet::BuildWriteError>),
    Vec(Result<(), err::packet::BuildVecWriteError>),
    Slice(Result<usize, err::packet::BuildSliceWriteError>),
    Size(usize),
}

macro_rules! fin {
    ($step:expr, $out:expr, $payload:expr) => {{
        let s = $step;
        match $out {
            Out::Io(w) => BRes::Io(s.write(w, $payload)),
            Out::Vec(v) => BRes::Vec(s.write_to_vec(v, $payload)),
            Out::Slice(b) => BRes::Slice(s.write_to_slice(b, $payload)),
            Out::Size => BRes::Size(s.size($payload.len())),
        }
    }};
}
macro_rules! fin_ip {
    ($step:expr, $out:expr, $last:expr, $payload:expr) => {{
        let s = $step;
        match $out {
            Out::Io(w) => BRes::Io(s.write(w, $last, $payload)),
            Out::Vec(v) => BRes::Vec(s.write_to_vec(v, $last, $payload)),
            Out::Slice(b) => BRes::Slice(s.write_to_slice(b, $last, $payload)),
            Out::Size => BRes::Size(s.size($payload.len())),
        }
    }};
}
macro_rules! fin_arp {
    ($step:expr, $out:expr) => {{
        let s = $step;
        match $out {
            Out::Io(w) => BRes::Io(s.write(w)),
            Out::Vec(v) => BRes::Vec(s.write_to_vec(v)),
            Out::Slice(b) => BRes::Slice(s.write_to_slice(b)),
            Out::Size => BRes::Size(s.size()),
        }
    }};
}
macro_rules! transport {
    ($ipstep:expr, $b:expr, $out:expr) => {{
        let ip = $ipstep;
        let p: &[u8] = &$b.payload;
        match $b.tr[0] {
            "u" => fin!(ip.udp(0x1234, 0x5678), $out, p),
            "t" => {
                let o = unhex($b.tr[1]);
                fin!(ip.tcp(1, 2, 0x01020304, 0x0506).ack(7).options_raw(&o).unwrap(), $out, p)
            }
            "i4" => fin!(ip.icmpv4_echo_request(0x1111, 0x2222), $out, p),
            "i6" => fin!(ip.icmpv6_echo_request(0x3333, 0x4444), $out, p),
            "n" => fin_ip!(ip, $out, IpNumber($b.tr[1].parse().unwrap()), p),
            _ => panic!("transport"),
        }
    }};
}
macro_rules! net {
    ($linkstep:expr, $b:expr, $out:expr) => {{
        let l = $linkstep;
        if $b.net[0] == "a" {
            fin_arp!(l.arp(ArpPacket::from_slice(&unhex($b.net[1])).unwrap()), $out)
        } else {
            transport!(l.ip(bld_ip($b)), $b, $out)
        }
    }};
}

fn run_bld(b: &Bld, out: Out) -> BRes {
    match (b.link, b.vlan) {
        ("n", _) => transport!(PacketBuilder::ip(bld_ip(b)), b, out),
        ("e", 0) => net!(PacketBuilder::ethernet2([1, 2, 3, 4, 5, 6], [7, 8, 9, 10, 11, 12]), b, out),
        ("e", v) => net!(
            PacketBuilder::ethernet2([1, 2, 3, 4, 5, 6], [7, 8, 9, 10, 11, 12]).vlan(bld_vlan(v)),
            b,
            out
        ),
        ("s", _) => {
            let l = PacketBuilder::linux_sll(LinuxSllPacketType::OTHERHOST, 6, [1, 2, 3, 4, 5, 6, 0, 0]);
            if b.net[0] == "a" {
                panic!("sll+arp not offered by the builder")
            } else {
                transport!(l.ip(bld_ip(b)), b, out)
            }
        }
        _ => panic!("link"),
    }
}

fn bld_content(e: &str) -> String {
    format!("content:{}", e)
}
fn bres_io(r: Result<(), err::packet::BuildWriteError>) -> String {
    use err::packet::BuildWriteError::*;
    match r {
        Ok(()) => "ok".into(),
        Err(Io(e)) => io_kind(&e),
        Err(PayloadLen(_)) => bld_content("plen"),
        Err(Ipv4Exts(e)) => walk4(&e),
        Err(Ipv6Exts(e)) => walk6(&e),
        Err(Icmpv6InIpv4) => bld_content("i6in4"),
        Err(ArpHeaderNotMatch) => bld_content("arp"),
    }
}

/// declared lengths (header_len()/LEN as final_size uses them) and the parts of the
/// reference output of write_to_vec, cut at those lengths
fn bld_reference(b: &Bld) -> String {
    let mut full = Vec::new();
    let r = match run_bld(b, Out::Vec(&mut full)) {
        BRes::Vec(r) => r,
        _ => unreachable!(),
    };
    let mid = match &r {
        Ok(()) => "-",
        Err(err::packet::BuildVecWriteError::Icmpv6InIpv4) => "i6in4",
        Err(e) => panic!("REF-FAIL builder reference failed: {:?}", e),
    };
    let pos = std::cell::Cell::new(0usize);
    let cut = |n: usize| -> String {
        let p = pos.get();
        let s = format!("{}:{}", n, hex(&full[p..p + n]));
        pos.set(p + n);
        s
    };
    let link = match b.link {
        "e" => cut(Ethernet2Header::LEN),
        "s" => cut(LinuxSllHeader::LEN),
        _ => "-".to_string(),
    };
    let vlan = if b.link == "e" && b.vlan > 0 {
        (0..b.vlan).map(|_| cut(SingleVlanHeader::LEN)).collect::<Vec<_>>().join("+")
    } else {
        "-".to_string()
    };
    let tr_proto = match b.tr[0] {
        "u" => 17u8,
        "t" => 6,
        "i4" => 1,
        "i6" => 58,
        "n" => b.tr[1].parse().unwrap(),
        _ => panic!(),
    };
    let net = if b.net[0] == "a" {
        let a = ArpPacket::from_slice(&unhex(b.net[1])).unwrap();
        format!("a/{}", cut(a.packet_len()))
    } else {
        match bld_ip(b) {
            IpHeaders::Ipv4(h, mut x) => {
                let proto = x.set_next_headers(IpNumber(tr_proto));
                let ip = cut(h.header_len());
                let s = slot_auth(&x.auth);
                pos.set(pos.get() + slots_total(&s, '/'));
                format!("4/{}/{}/{}", ip, proto.0, s)
            }
            IpHeaders::Ipv6(_, mut x) => {
                let nh = x.set_next_headers(IpNumber(tr_proto));
                let ip = cut(Ipv6Header::LEN);
                let s = slots6(&x).replace(';', "/");
                pos.set(pos.get() + slots_total(&s, '/'));
                format!("6/{}/{}/{}", ip, nh.0, s)
            }
        }
    };
    let tr = if b.net[0] == "a" {
        "-".to_string()
    } else if mid != "-" {
        // transport header never went out; its declared length still counts for size()
        match b.tr[0] {
            "i6" => format!("{}:{}", 8, hex(&Icmpv6Header::new(Icmpv6Type::EchoRequest(IcmpEchoHeader { id: 0x3333, seq: 0x4444 })).to_bytes())),
            _ => panic!("REF-FAIL mid error with other transport"),
        }
    } else {
        match b.tr[0] {
            "u" => cut(UdpHeader::LEN),
            "t" => cut(20 + unhex(b.tr[1]).len()),
            "i4" | "i6" => cut(8),
            _ => "-".to_string(),
        }
    };
    if mid == "-" {
        assert!(full[pos.get()..] == b.payload[..], "REF-FAIL payload not at the end");
    }
    format!("{};{};{};-;{};{};{}", link, vlan, net, mid, tr, hex(&b.payload))
}

// ---------------------------------------------------------------- readers
fn init_buf(n: usize) -> Vec<u8> {
    (0..n).map(|i| ((i * 7 + 3) & 255) as u8).collect()
}
const CANARY: usize = 16;
/// CANARY bytes 0xA5, the n slice bytes of init_buf, CANARY bytes 0xA5
fn framed_buf(n: usize) -> Vec<u8> {
    let mut big: Vec<u8> = std::iter::repeat(0xA5u8).take(CANARY).collect();
    big.extend(init_buf(n));
    big.extend(std::iter::repeat(0xA5u8).take(CANARY));
    big
}
fn canaries_ok(big: &[u8], n: usize) -> bool {
    big.len() == n + 2 * CANARY && big[..CANARY].iter().all(|&x| x == 0xA5) && big[CANARY + n..].iter().all(|&x| x == 0xA5)
}

fn nums(v: &[usize]) -> String {
    v.iter().map(|x| x.to_string()).collect::<Vec<_>>().join(",")
}
fn mask6(x: &Ipv6Extensions) -> usize {
    let mut m = 0;
    if x.hop_by_hop_options.is_some() {
        m |= 1
    }
    if x.destination_options.is_some() {
        m |= 2
    }
    if let Some(r) = &x.routing {
        m |= 4;
        if r.final_destination_options.is_some() {
            m |= 8
        }
    }
    if x.fragment.is_some() {
        m |= 16
    }
    if x.auth.is_some() {
        m |= 32
    }
    m
}
fn auth_content(e: &err::ip_auth::HeaderError) -> String {
    match e {
        err::ip_auth::HeaderError::ZeroPayloadLen => "content:authzero".into(),
    }
}
fn x6_content(e: &err::ipv6_exts::HeaderError) -> String {
    match e {
        err::ipv6_exts::HeaderError::HopByHopNotAtStart => "content:hop".into(),
        err::ipv6_exts::HeaderError::IpAuth(e) => auth_content(e),
    }
}

fn read_plain(entry: &str, r: &mut FSource) -> String {
    let ioe = |e: &io::Error| io_kind(e);
    let t: Vec<&str> = entry.split(':').collect();
    match t[0] {
        "eth" => match Ethernet2Header::read(r) { Ok(_) => "ok ".into(), Err(e) => ioe(&e) },
        "vlan" => match SingleVlanHeader::read(r) { Ok(_) => "ok ".into(), Err(e) => ioe(&e) },
        "sll" => match LinuxSllHeader::read(r) {
            Ok(_) => "ok ".into(),
            Err(err::ReadError::Io(e)) => ioe(&e),
            Err(_) => "content:sll".into(),
        },
        "frag8" => match Ipv6FragmentHeader::read(r) { Ok(_) => "ok ".into(), Err(e) => ioe(&e) },
        "udp" => match UdpHeader::read(r) { Ok(_) => "ok ".into(), Err(e) => ioe(&e) },
        "icmp6" => match Icmpv6Header::read(r) { Ok(_) => "ok ".into(), Err(e) => ioe(&e) },
        "ip4h" => match Ipv4Header::read(r) {
            Ok(h) => format!("ok {}", h.header_len()),
            Err(err::ipv4::HeaderReadError::Io(e)) => ioe(&e),
            Err(err::ipv4::HeaderReadError::Content(e)) => match e {
                err::ipv4::HeaderError::UnexpectedVersion { .. } => "content:version".into(),
                err::ipv4::HeaderError::HeaderLengthSmallerThanHeader { .. } => "content:ihl".into(),
                _ => "content:?".into(),
            },
        },
        "ip6h" => match Ipv6Header::read(r) {
            Ok(h) => format!("ok {}", h.header_len()),
            Err(err::ipv6::HeaderReadError::Io(e)) => ioe(&e),
            Err(err::ipv6::HeaderReadError::Content(_)) => "content:version".into(),
        },
        "tcp" => match TcpHeader::read(r) {
            Ok(h) => format!("ok {}", h.header_len()),
            Err(err::tcp::HeaderReadError::Io(e)) => ioe(&e),
            Err(err::tcp::HeaderReadError::Content(_)) => "content:doff".into(),
        },
        "icmp4" => match Icmpv4Header::read(r) { Ok(h) => format!("ok {}", h.header_len()), Err(e) => ioe(&e) },
        "macsec" => match MacsecHeader::read(r) {
            Ok(h) => format!("ok {}", h.header_len()),
            Err(err::macsec::HeaderReadError::Io(e)) => ioe(&e),
            Err(err::macsec::HeaderReadError::Content(e)) => match e {
                err::macsec::HeaderError::UnexpectedVersion => "content:msver".into(),
                err::macsec::HeaderError::InvalidUnmodifiedShortLen => "content:msshort".into(),
            },
        },
        "arp" => match ArpPacket::read(r) { Ok(h) => format!("ok {}", h.packet_len()), Err(e) => ioe(&e) },
        "auth" => match IpAuthHeader::read(r) {
            Ok(h) => format!("ok {}", h.next_header.0),
            Err(err::ip_auth::HeaderReadError::Io(e)) => ioe(&e),
            Err(err::ip_auth::HeaderReadError::Content(e)) => auth_content(&e),
        },
        "rawext" => match Ipv6RawExtHeader::read(r) { Ok(h) => format!("ok {}", h.next_header.0), Err(e) => ioe(&e) },
        "frag" => match Ipv6FragmentHeader::read(r) { Ok(h) => format!("ok {}", h.next_header.0), Err(e) => ioe(&e) },
        "x4" => match Ipv4Extensions::read(r, IpNumber(t[1].parse().unwrap())) {
            Ok((x, n)) => format!("ok {}", nums(&[n.0 as usize, x.auth.is_some() as usize])),
            Err(err::ip_auth::HeaderReadError::Io(e)) => ioe(&e),
            Err(err::ip_auth::HeaderReadError::Content(e)) => auth_content(&e),
        },
        "x6" => match Ipv6Extensions::read(r, IpNumber(t[1].parse().unwrap())) {
            Ok((x, n)) => format!("ok {}", nums(&[n.0 as usize, mask6(&x)])),
            Err(err::ipv6_exts::HeaderReadError::Io(e)) => ioe(&e),
            Err(err::ipv6_exts::HeaderReadError::Content(e)) => x6_content(&e),
        },
        "iph" => match IpHeaders::read(r) {
            Ok((IpHeaders::Ipv4(_, x), n)) => format!("ok {}", nums(&[n.0 as usize, x.auth.is_some() as usize])),
            Ok((IpHeaders::Ipv6(_, x), n)) => format!("ok {}", nums(&[n.0 as usize, mask6(&x)])),
            Err(err::ip::HeaderReadError::Io(e)) => ioe(&e),
            Err(err::ip::HeaderReadError::Len(e)) => format!("len {}", len_err(&e)),
            Err(err::ip::HeaderReadError::Content(e)) => match e {
                err::ip::HeadersError::Ip(err::ip::HeaderError::UnsupportedIpVersion { .. }) => "content:version".into(),
                err::ip::HeadersError::Ip(err::ip::HeaderError::Ipv4HeaderLengthSmallerThanHeader { .. }) => "content:ihl".into(),
                err::ip::HeadersError::Ipv4Ext(e) => auth_content(&e),
                err::ip::HeadersError::Ipv6Ext(e) => x6_content(&e),
            },
        },
        _ => panic!("reader {}", entry),
    }
}

fn lim_err(e: err::io::LimitedReadError) -> String {
    match e {
        err::io::LimitedReadError::Io(e) => io_kind(&e),
        err::io::LimitedReadError::Len(e) => format!("len {}", len_err(&e)),
    }
}

fn read_limited(entry: &str, r: &mut LimitedReader<&mut FSource>) -> String {
    let t: Vec<&str> = entry.split(':').collect();
    match t[0] {
        "authl" => match IpAuthHeader::read_limited(r) {
            Ok(h) => format!("ok {}", h.next_header.0),
            Err(err::ip_auth::HeaderLimitedReadError::Io(e)) => io_kind(&e),
            Err(err::ip_auth::HeaderLimitedReadError::Len(e)) => format!("len {}", len_err(&e)),
            Err(err::ip_auth::HeaderLimitedReadError::Content(e)) => auth_content(&e),
        },
        "rawextl" => match Ipv6RawExtHeader::read_limited(r) { Ok(h) => format!("ok {}", h.next_header.0), Err(e) => lim_err(e) },
        "fragl" => match Ipv6FragmentHeader::read_limited(r) { Ok(h) => format!("ok {}", h.next_header.0), Err(e) => lim_err(e) },
        "x4l" => match Ipv4Extensions::read_limited(r, IpNumber(t[1].parse().unwrap())) {
            Ok((x, n)) => format!("ok {}", nums(&[n.0 as usize, x.auth.is_some() as usize])),
            Err(err::ip_auth::HeaderLimitedReadError::Io(e)) => io_kind(&e),
            Err(err::ip_auth::HeaderLimitedReadError::Len(e)) => format!("len {}", len_err(&e)),
            Err(err::ip_auth::HeaderLimitedReadError::Content(e)) => auth_content(&e),
        },
        "x6l" => match Ipv6Extensions::read_limited(r, IpNumber(t[1].parse().unwrap())) {
            Ok((x, n)) => format!("ok {}", nums(&[n.0 as usize, mask6(&x)])),
            Err(err::ipv6_exts::HeaderLimitedReadError::Io(e)) => io_kind(&e),
            Err(err::ipv6_exts::HeaderLimitedReadError::Len(e)) => format!("len {}", len_err(&e)),
            Err(err::ipv6_exts::HeaderLimitedReadError::Content(e)) => x6_content(&e),
        },
        _ => panic!("limited reader {}", entry),
    }
}

fn lim_state<T: Read>(r: &LimitedReader<T>) -> String {
    format!(" max={} read={} loff={} layer={}", r.max_len(), r.read_len(), r.layer_offset(), layer_tag(r.layer()))
}

// ---------------------------------------------------------------- cases
fn run(line: &str) -> String {
    let a: Vec<&str> = line.split_whitespace().collect();
    match a[0] {
        "ref" => {
            if a[1] == "bld" {
                bld_reference(&parse_bld(a[2]))
            } else {
                reference(&make(a[1], a[2]))
            }
        }
        "w" | "wt" => {
            let mut sink = FSink::new(a[2].parse().unwrap(), a[3].parse().unwrap(), a[4] == "1", a[0] == "wt");
            let r = if a[1] == "bld" {
                match run_bld(&parse_bld(a[5]), Out::Io(&mut sink)) {
                    BRes::Io(r) => bres_io(r),
                    _ => unreachable!(),
                }
            } else {
                write_val(&make(a[1], a[5]), &mut sink)
            };
            if a[0] == "wt" {
                format!("{} got={} # after={} calls={}", r, hex(&sink.got), hex(&sink.after), sink.calls_after)
            } else {
                format!("{} got={}", r, hex(&sink.got))
            }
        }
        "ws" => {
            let n: usize = a[2].parse().unwrap();
            // the slice is the window [CANARY, CANARY+n) of a larger buffer (C16_slice_frame):
            // canary bytes in front of it and behind it
            let mut big = framed_buf(n);
            let base = big.as_ptr() as usize + CANARY;
            let (res, extra) = {
                let r = match make(a[1], a[3]) {
                    Val::Eth(h) => h.write_to_slice(&mut big[CANARY..CANARY + n]).map(|rest| (rest.as_ptr() as usize - base, rest.len())),
                    Val::Sll(h) => h.write_to_slice(&mut big[CANARY..CANARY + n]).map(|rest| (rest.as_ptr() as usize - base, rest.len())),
                    _ => panic!("ws entry"),
                };
                match r {
                    Ok((o, l)) => (format!("ok rest={}+{}", o, l), String::new()),
                    Err(e) => (
                        format!("err req={} len={} layer={} off={}", e.required_len, e.len, layer_tag(e.layer), e.layer_start_offset),
                        String::new(),
                    ),
                }
            };
            let canary = canaries_ok(&big, n);
            format!("{} buf={} # canary={}{}", res, hex(&big[CANARY..CANARY + n]), if canary { "ok" } else { "BAD" }, extra)
        }
        "wsb" => {
            let n: usize = a[1].parse().unwrap();
            let b = parse_bld(a[2]);
            let size = match run_bld(&b, Out::Size) {
                BRes::Size(s) => s,
                _ => unreachable!(),
            };
            let mut big = framed_buf(n);
            let r = match run_bld(&b, Out::Slice(&mut big[CANARY..CANARY + n])) {
                BRes::Slice(r) => r,
                _ => unreachable!(),
            };
            use err::packet::BuildSliceWriteError::*;
            let res = match r {
                Ok(w) => format!("ok {}", w),
                Err(Space(q)) => format!("space {}", q),
                Err(PayloadLen(_)) => bld_content("plen"),
                Err(Ipv4Exts(e)) => walk4(&e),
                Err(Ipv6Exts(e)) => walk6(&e),
                Err(Icmpv6InIpv4) => bld_content("i6in4"),
                Err(ArpHeaderNotMatch) => bld_content("arp"),
            };
            let canary = canaries_ok(&big, n);
            format!("{} buf={} # canary={} size={}", res, hex(&big[CANARY..CANARY + n]), if canary { "ok" } else { "BAD" }, size)
        }
        "r" => {
            let k: usize = a[2].parse().unwrap();
            let data = unhex(a[5]);
            let mut src = FSource { data: data[..k.min(data.len())].to_vec(), pos: 0, chunk: a[3].parse().unwrap(), err: a[4] == "1", hit: false };
            if a.len() > 6 {
                let mx: usize = a[6].parse().unwrap();
                let off: usize = a[7].parse().unwrap();
                let (res, st) = {
                    let mut lr = LimitedReader::new(&mut src, mx, LenSource::Slice, off, Layer::Ipv4Header);
                    let res = read_limited(a[1], &mut lr);
                    (res, lim_state(&lr))
                };
                format!("{} pulled={}{} # hit={}", res, src.pos, st, src.hit as u8)
            } else {
                let res = read_plain(a[1], &mut src);
                format!("{} pulled={} # hit={}", res, src.pos, src.hit as u8)
            }
        }
        "lr" => {
            let mx: usize = a[1].parse().unwrap();
            let off: usize = a[2].parse().unwrap();
            let k: usize = a[3].parse().unwrap();
            let data = unhex(a[6]);
            let mut src = FSource { data: data[..k.min(data.len())].to_vec(), pos: 0, chunk: a[4].parse().unwrap(), err: a[5] == "1", hit: false };
            let (out, st) = {
                let mut lr = LimitedReader::new(&mut src, mx, LenSource::Slice, off, Layer::Ipv4Header);
                let mut out = Vec::new();
                for op in a[7].split(',') {
                    let arg: usize = op[1..].parse().unwrap();
                    if op.starts_with('r') {
                        let mut buf = vec![0u8; arg];
                        out.push(match lr.read_exact(&mut buf) {
                            Ok(()) => format!("ok:{}", hex(&buf)),
                            Err(err::io::LimitedReadError::Io(e)) => io_kind(&e),
                            Err(err::io::LimitedReadError::Len(e)) => format!("len:{}", len_err(&e)),
                        });
                    } else {
                        lr.start_layer(tag_layer(arg as u32));
                        out.push("st".to_string());
                    }
                }
                (out.join(";"), lim_state(&lr))
            };
            format!("{}{} pulled={}", out, st, src.pos)
        }
        _ => panic!("bad c16 tag {}", a[0]),
    }
}
