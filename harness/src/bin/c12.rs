//! C12: extension-header chain bookkeeping (Ipv6Extensions / Ipv4Extensions /
//! IpHeaders / NetHeaders).  Case format and output: see ocaml/run_c12.ml.
use etherparse::err::{self, Layer, LenError};
use etherparse::*;
use vh::*;

fn main() {
    main_loop(run);
}

fn num(s: &str) -> u64 {
    s.parse().unwrap()
}

fn raw_of(t: &str) -> Option<Ipv6RawExtHeader> {
    if t == "-" {
        return None;
    }
    let (nh, p) = t.split_once(':').unwrap();
    Some(Ipv6RawExtHeader::new_raw(IpNumber(num(nh) as u8), &unhex(p)).unwrap())
}

fn frag_of(t: &str) -> Option<Ipv6FragmentHeader> {
    if t == "-" {
        return None;
    }
    let p: Vec<&str> = t.split(':').collect();
    Some(Ipv6FragmentHeader::new(
        IpNumber(num(p[0]) as u8),
        IpFragOffset::try_new(num(p[1]) as u16).unwrap(),
        p[2] == "1",
        num(p[3]) as u32,
    ))
}

fn auth_of(t: &str) -> Option<IpAuthHeader> {
    if t == "-" {
        return None;
    }
    let p: Vec<&str> = t.split(':').collect();
    Some(IpAuthHeader::new(IpNumber(num(p[0]) as u8), num(p[1]) as u32, num(p[2]) as u32, &unhex(p[3])).unwrap())
}

fn raw_s(h: &Ipv6RawExtHeader) -> String {
    format!("{}:{}", h.next_header.0, hex(h.payload()))
}
fn frag_s(h: &Ipv6FragmentHeader) -> String {
    format!(
        "{}:{}:{}:{}",
        h.next_header.0,
        h.fragment_offset.value(),
        if h.more_fragments { 1 } else { 0 },
        h.identification
    )
}
fn auth_s(h: &IpAuthHeader) -> String {
    format!("{}:{}:{}:{}", h.next_header.0, h.spi, h.sequence_number, hex(h.raw_icv()))
}
fn opt<T>(o: &Option<T>, f: fn(&T) -> String) -> String {
    match o {
        Some(x) => f(x),
        None => "-".to_string(),
    }
}
fn exts6_s(e: &Ipv6Extensions) -> String {
    format!(
        "[{};{};{};{};{};{}]",
        opt(&e.hop_by_hop_options, raw_s),
        opt(&e.destination_options, raw_s),
        match &e.routing {
            Some(r) => raw_s(&r.routing),
            None => "-".to_string(),
        },
        match &e.routing {
            Some(r) => opt(&r.final_destination_options, raw_s),
            None => "-".to_string(),
        },
        opt(&e.fragment, frag_s),
        opt(&e.auth, auth_s)
    )
}
fn exts4_s(e: &Ipv4Extensions) -> String {
    format!("[{}]", opt(&e.auth, auth_s))
}
fn nhs6(e: &Ipv6Extensions) -> String {
    let n = |x: IpNumber| x.0.to_string();
    let d = || "-".to_string();
    [
        e.hop_by_hop_options.as_ref().map(|h| n(h.next_header)).unwrap_or_else(d),
        e.destination_options.as_ref().map(|h| n(h.next_header)).unwrap_or_else(d),
        e.routing.as_ref().map(|r| n(r.routing.next_header)).unwrap_or_else(d),
        e.routing
            .as_ref()
            .and_then(|r| r.final_destination_options.as_ref())
            .map(|h| n(h.next_header))
            .unwrap_or_else(d),
        e.fragment.as_ref().map(|h| n(h.next_header)).unwrap_or_else(d),
        e.auth.as_ref().map(|h| n(h.next_header)).unwrap_or_else(d),
    ]
    .join(",")
}

fn layer_s(l: Layer) -> &'static str {
    match l {
        Layer::IpAuthHeader => "IpAuthHeader",
        Layer::Ipv6ExtHeader => "Ipv6ExtHeader",
        Layer::Ipv6HopByHopHeader => "Ipv6HopByHopHeader",
        Layer::Ipv6DestOptionsHeader => "Ipv6DestOptionsHeader",
        Layer::Ipv6RouteHeader => "Ipv6RouteHeader",
        Layer::Ipv6FragHeader => "Ipv6FragHeader",
        _ => "OtherLayer",
    }
}
fn len_err_s(e: &LenError) -> String {
    let src = if e.len_source == LenSource::Slice { "" } else { "/notslice" };
    format!(
        "len:{},{},{}{},{}",
        e.required_len,
        e.len,
        layer_s(e.layer),
        src,
        e.layer_start_offset
    )
}
fn hse_s(e: &err::ipv6_exts::HeaderSliceError) -> String {
    use err::ipv6_exts::{HeaderError as H, HeaderSliceError as S};
    match e {
        S::Len(l) => len_err_s(l),
        S::Content(H::HopByHopNotAtStart) => "hbh".to_string(),
        S::Content(H::IpAuth(err::ip_auth::HeaderError::ZeroPayloadLen)) => "authzero".to_string(),
    }
}
fn ase_s(e: &err::ip_auth::HeaderSliceError) -> String {
    use err::ip_auth::{HeaderError as H, HeaderSliceError as S};
    match e {
        S::Len(l) => len_err_s(l),
        S::Content(H::ZeroPayloadLen) => "authzero".to_string(),
    }
}
fn walk6_err_s(e: &err::ipv6_exts::ExtsWalkError) -> String {
    use err::ipv6_exts::ExtsWalkError::*;
    match e {
        HopByHopNotAtStart => "hbh".to_string(),
        ExtNotReferenced { missing_ext } => format!("nr:{}", missing_ext.0),
    }
}
fn walk4_err_s(e: &err::ipv4_exts::ExtsWalkError) -> String {
    use err::ipv4_exts::ExtsWalkError::*;
    match e {
        ExtNotReferenced { missing_ext } => format!("nr:{}", missing_ext.0),
    }
}
fn walk6_s(r: &Result<IpNumber, err::ipv6_exts::ExtsWalkError>) -> String {
    match r {
        Ok(n) => format!("ok:{}", n.0),
        Err(e) => walk6_err_s(e),
    }
}
fn walk4_s(r: &Result<IpNumber, err::ipv4_exts::ExtsWalkError>) -> String {
    match r {
        Ok(n) => format!("ok:{}", n.0),
        Err(e) => walk4_err_s(e),
    }
}
fn write6(e: &Ipv6Extensions, first: IpNumber) -> (Vec<u8>, bool, String) {
    let mut v = Vec::new();
    let r = e.write(&mut v, first);
    let st = match &r {
        Ok(()) => "ok".to_string(),
        Err(err::ipv6_exts::HeaderWriteError::Content(c)) => walk6_err_s(c),
        Err(err::ipv6_exts::HeaderWriteError::Io(_)) => "io".to_string(),
    };
    let s = format!("{}:{}", st, hex(&v));
    (v, r.is_ok(), s)
}
fn write4(e: &Ipv4Extensions, first: IpNumber) -> (Vec<u8>, bool, String) {
    let mut v = Vec::new();
    let r = e.write(&mut v, first);
    let st = match &r {
        Ok(()) => "ok".to_string(),
        Err(err::ipv4_exts::HeaderWriteError::Content(c)) => walk4_err_s(c),
        Err(err::ipv4_exts::HeaderWriteError::Io(_)) => "io".to_string(),
    };
    let s = format!("{}:{}", st, hex(&v));
    (v, r.is_ok(), s)
}

fn dec6_s(orig: Option<&Ipv6Extensions>, first: IpNumber, bs: &[u8]) -> String {
    match Ipv6Extensions::from_slice(first, bs) {
        Ok((e, n, rest)) => format!(
            "ok:{}:{}:{}",
            if Some(&e) == orig { "same".to_string() } else { exts6_s(&e) },
            n.0,
            rest.len()
        ),
        Err(e) => hse_s(&e),
    }
}
fn lax6_s(orig: Option<&Ipv6Extensions>, first: IpNumber, bs: &[u8]) -> String {
    let (e, n, rest, er) = Ipv6Extensions::from_slice_lax(first, bs);
    format!(
        "{}:{}:{}:{}",
        if Some(&e) == orig { "same".to_string() } else { exts6_s(&e) },
        n.0,
        rest.len(),
        match &er {
            None => "none".to_string(),
            Some((x, l)) => format!("{}/{}", hse_s(x), layer_s(*l)),
        }
    )
}
fn dec4_s(orig: Option<&Ipv4Extensions>, first: IpNumber, bs: &[u8]) -> String {
    match Ipv4Extensions::from_slice(first, bs) {
        Ok((e, n, rest)) => format!(
            "ok:{}:{}:{}",
            if Some(&e) == orig { "same".to_string() } else { exts4_s(&e) },
            n.0,
            rest.len()
        ),
        Err(e) => ase_s(&e),
    }
}
fn lax4_s(orig: Option<&Ipv4Extensions>, first: IpNumber, bs: &[u8]) -> String {
    let (e, n, rest, er) = Ipv4Extensions::from_slice_lax(first, bs);
    format!(
        "{}:{}:{}:{}",
        if Some(&e) == orig { "same".to_string() } else { exts4_s(&e) },
        n.0,
        rest.len(),
        match &er {
            None => "none".to_string(),
            Some(x) => ase_s(x),
        }
    )
}
fn ipn_s(r: &Result<IpNumber, err::ip_exts::ExtsWalkError>) -> String {
    use err::ip_exts::ExtsWalkError::*;
    match r {
        Ok(n) => format!("ok:{}", n.0),
        Err(Ipv4Exts(e)) => format!("v4:{}", walk4_err_s(e)),
        Err(Ipv6Exts(e)) => format!("v6:{}", walk6_err_s(e)),
    }
}
fn net_s(r: &Result<EtherType, err::net::NetSetNextHeaderError>) -> String {
    match r {
        Ok(t) => format!("ok:{}", t.0),
        Err(err::net::NetSetNextHeaderError::ArpHeader) => "err:arp".to_string(),
    }
}

// ---- arbitrary byte chains: rest as offset+length, readers ----
fn dec6x_s(first: IpNumber, bs: &[u8]) -> String {
    match Ipv6Extensions::from_slice(first, bs) {
        Ok((e, n, rest)) => format!("ok:{}:{}:{}", exts6_s(&e), n.0, off(bs, rest)),
        Err(e) => hse_s(&e),
    }
}
fn lax6x_s(first: IpNumber, bs: &[u8]) -> String {
    let (e, n, rest, er) = Ipv6Extensions::from_slice_lax(first, bs);
    format!(
        "{}:{}:{}:{}",
        exts6_s(&e),
        n.0,
        off(bs, rest),
        match &er {
            None => "none".to_string(),
            Some((x, l)) => format!("{}/{}", hse_s(x), layer_s(*l)),
        }
    )
}
fn dec4x_s(first: IpNumber, bs: &[u8]) -> String {
    match Ipv4Extensions::from_slice(first, bs) {
        Ok((e, n, rest)) => format!("ok:{}:{}:{}", exts4_s(&e), n.0, off(bs, rest)),
        Err(e) => ase_s(&e),
    }
}
fn lax4x_s(first: IpNumber, bs: &[u8]) -> String {
    let (e, n, rest, er) = Ipv4Extensions::from_slice_lax(first, bs);
    format!(
        "{}:{}:{}:{}",
        exts4_s(&e),
        n.0,
        off(bs, rest),
        match &er {
            None => "none".to_string(),
            Some(x) => ase_s(x),
        }
    )
}
fn io_s(e: &std::io::Error) -> String {
    if e.kind() == std::io::ErrorKind::UnexpectedEof {
        "io:eof".to_string()
    } else {
        "io:other".to_string()
    }
}
fn lim_len_s(e: &LenError) -> String {
    let src = match e.len_source {
        LenSource::Slice => "Slice",
        LenSource::Ipv4HeaderTotalLen => "Ipv4HeaderTotalLen",
        LenSource::Ipv6HeaderPayloadLen => "Ipv6HeaderPayloadLen",
        _ => "OtherSource",
    };
    let layer = match e.layer {
        Layer::Ipv4Header => "Ipv4Header",
        Layer::Ipv6Header => "Ipv6Header",
        l => layer_s(l),
    };
    format!("len:{},{},{},{},{}", e.required_len, e.len, layer, e.layer_start_offset, src)
}
fn content6_s(e: &err::ipv6_exts::HeaderError) -> String {
    use err::ipv6_exts::HeaderError as H;
    match e {
        H::HopByHopNotAtStart => "hbh".to_string(),
        H::IpAuth(err::ip_auth::HeaderError::ZeroPayloadLen) => "authzero".to_string(),
    }
}
fn ok6_s(dref: Option<&Ipv6Extensions>, e: &Ipv6Extensions, n: IpNumber, pos: u64) -> String {
    format!("ok:{}:{}:{}", if Some(e) == dref { "=d".to_string() } else { exts6_s(e) }, n.0, pos)
}
fn ok4_s(dref: Option<&Ipv4Extensions>, e: &Ipv4Extensions, n: IpNumber, pos: u64) -> String {
    format!("ok:{}:{}:{}", if Some(e) == dref { "=d".to_string() } else { exts4_s(e) }, n.0, pos)
}
fn read6_s(dref: Option<&Ipv6Extensions>, first: IpNumber, bs: &[u8]) -> String {
    use err::ipv6_exts::HeaderReadError as R;
    let mut c = std::io::Cursor::new(bs);
    match Ipv6Extensions::read(&mut c, first) {
        Ok((e, n)) => ok6_s(dref, &e, n, c.position()),
        Err(R::Io(e)) => io_s(&e),
        Err(R::Content(e)) => content6_s(&e),
    }
}
fn lim6_s(dref: Option<&Ipv6Extensions>, first: IpNumber, budget: usize, offset: usize, bs: &[u8]) -> String {
    use err::ipv6_exts::HeaderLimitedReadError as R;
    let mut lr = etherparse::io::LimitedReader::new(
        std::io::Cursor::new(bs),
        budget,
        LenSource::Ipv6HeaderPayloadLen,
        offset,
        Layer::Ipv6Header,
    );
    match Ipv6Extensions::read_limited(&mut lr, first) {
        Ok((e, n)) => ok6_s(dref, &e, n, lr.take_reader().position()),
        Err(R::Io(e)) => io_s(&e),
        Err(R::Len(e)) => lim_len_s(&e),
        Err(R::Content(e)) => content6_s(&e),
    }
}
fn read4_s(dref: Option<&Ipv4Extensions>, first: IpNumber, bs: &[u8]) -> String {
    use err::ip_auth::HeaderReadError as R;
    let mut c = std::io::Cursor::new(bs);
    match Ipv4Extensions::read(&mut c, first) {
        Ok((e, n)) => ok4_s(dref, &e, n, c.position()),
        Err(R::Io(e)) => io_s(&e),
        Err(R::Content(err::ip_auth::HeaderError::ZeroPayloadLen)) => "authzero".to_string(),
    }
}
fn lim4_s(dref: Option<&Ipv4Extensions>, first: IpNumber, budget: usize, offset: usize, bs: &[u8]) -> String {
    use err::ip_auth::HeaderLimitedReadError as R;
    let mut lr = etherparse::io::LimitedReader::new(
        std::io::Cursor::new(bs),
        budget,
        LenSource::Ipv4HeaderTotalLen,
        offset,
        Layer::Ipv4Header,
    );
    match Ipv4Extensions::read_limited(&mut lr, first) {
        Ok((e, n)) => ok4_s(dref, &e, n, lr.take_reader().position()),
        Err(R::Io(e)) => io_s(&e),
        Err(R::Len(e)) => lim_len_s(&e),
        Err(R::Content(err::ip_auth::HeaderError::ZeroPayloadLen)) => "authzero".to_string(),
    }
}

/// true when `b` equals `a` except for next_header fields
fn keep6(a: &Ipv6Extensions, b: &Ipv6Extensions) -> bool {
    let mut c = b.clone();
    if let (Some(x), Some(y)) = (c.hop_by_hop_options.as_mut(), a.hop_by_hop_options.as_ref()) {
        x.next_header = y.next_header;
    }
    if let (Some(x), Some(y)) = (c.destination_options.as_mut(), a.destination_options.as_ref()) {
        x.next_header = y.next_header;
    }
    if let (Some(x), Some(y)) = (c.routing.as_mut(), a.routing.as_ref()) {
        x.routing.next_header = y.routing.next_header;
        if let (Some(p), Some(q)) = (
            x.final_destination_options.as_mut(),
            y.final_destination_options.as_ref(),
        ) {
            p.next_header = q.next_header;
        }
    }
    if let (Some(x), Some(y)) = (c.fragment.as_mut(), a.fragment.as_ref()) {
        x.next_header = y.next_header;
    }
    if let (Some(x), Some(y)) = (c.auth.as_mut(), a.auth.as_ref()) {
        x.next_header = y.next_header;
    }
    &c == a
}

fn run(line: &str) -> String {
    let p: Vec<&str> = line.split_whitespace().collect();
    match p[0] {
        "e6" => {
            let first = IpNumber(num(p[1]) as u8);
            let last = IpNumber(num(p[2]) as u8);
            let routing = match (raw_of(p[5]), raw_of(p[6])) {
                (Some(rt), fin) => Some(Ipv6RoutingExtensions {
                    routing: rt,
                    final_destination_options: fin,
                }),
                (None, None) => None,
                (None, Some(_)) => panic!("final destination options without routing header"),
            };
            let e = Ipv6Extensions {
                hop_by_hop_options: raw_of(p[3]),
                destination_options: raw_of(p[4]),
                routing,
                fragment: frag_of(p[7]),
                auth: auth_of(p[8]),
            };
            let (bs, ok, ws) = write6(&e, first);
            let dx = if ok {
                format!("d={} x={}", dec6_s(Some(&e), first, &bs), lax6_s(Some(&e), first, &bs))
            } else {
                "d=- x=-".to_string()
            };
            let mut e2 = e.clone();
            let first2 = e2.set_next_headers(last);
            let (bs2, ok2, ws2) = write6(&e2, first2);
            let sd = if ok2 { dec6_s(Some(&e2), first2, &bs2) } else { "-".to_string() };
            let hdr = Ipv6Header { next_header: first, ..Default::default() };
            let mut iph = IpHeaders::Ipv6(hdr.clone(), e.clone());
            let et = iph.set_next_headers(last);
            let mut net = NetHeaders::Ipv6(hdr, e.clone());
            let netr = net.try_set_next_headers(last);
            format!(
                "n={} w={} l={} fp={} {} s={}/{} keep={} sn={} sw={} sd={} et={} ipn={} ipl={} net={}",
                walk6_s(&e.next_header(first)),
                ws,
                e.header_len(),
                if e.is_fragmenting_payload() { 1 } else { 0 },
                dx,
                first2.0,
                nhs6(&e2),
                if keep6(&e, &e2) { 1 } else { 0 },
                walk6_s(&e2.next_header(first2)),
                ws2,
                sd,
                et.0,
                ipn_s(&iph.next_header()),
                iph.header_len(),
                net_s(&netr)
            )
        }
        "e4" => {
            let first = IpNumber(num(p[1]) as u8);
            let last = IpNumber(num(p[2]) as u8);
            let optlen = num(p[3]) as usize;
            let e = Ipv4Extensions { auth: auth_of(p[4]) };
            let (bs, ok, ws) = write4(&e, first);
            let dx = if ok {
                format!("d={} x={}", dec4_s(Some(&e), first, &bs), lax4_s(Some(&e), first, &bs))
            } else {
                "d=- x=-".to_string()
            };
            let mut e2 = e.clone();
            let first2 = e2.set_next_headers(last);
            let (bs2, ok2, ws2) = write4(&e2, first2);
            let sd = if ok2 { dec4_s(Some(&e2), first2, &bs2) } else { "-".to_string() };
            let mut hdr = Ipv4Header { protocol: first, ..Default::default() };
            let optbytes = vec![1u8; optlen];
            hdr.options = Ipv4Options::try_from(&optbytes[..]).unwrap();
            let mut iph = IpHeaders::Ipv4(hdr.clone(), e.clone());
            let et = iph.set_next_headers(last);
            let mut net = NetHeaders::Ipv4(hdr, e.clone());
            let netr = net.try_set_next_headers(last);
            let keep = {
                let mut c = e2.clone();
                if let (Some(x), Some(y)) = (c.auth.as_mut(), e.auth.as_ref()) {
                    x.next_header = y.next_header;
                }
                c == e
            };
            format!(
                "n={} w={} l={} {} s={}/{} keep={} sn={} sw={} sd={} et={} ipn={} ipl={} net={}",
                walk4_s(&e.next_header(first)),
                ws,
                e.header_len(),
                dx,
                first2.0,
                e2.auth.as_ref().map(|h| h.next_header.0.to_string()).unwrap_or_else(|| "-".to_string()),
                if keep { 1 } else { 0 },
                walk4_s(&e2.next_header(first2)),
                ws2,
                sd,
                et.0,
                ipn_s(&iph.next_header()),
                iph.header_len(),
                net_s(&netr)
            )
        }
        "d6" => {
            let first = IpNumber(num(p[1]) as u8);
            let bs = unhex(p[2]);
            let d = Ipv6Extensions::from_slice(first, &bs);
            let dref = d.as_ref().ok().map(|v| v.0.clone());
            format!(
                "d={} x={} wb={} r={} l={}",
                dec6x_s(first, &bs),
                lax6x_s(first, &bs),
                match &d {
                    Ok((e, _, _)) => format!("{}/{}", write6(e, first).2, walk6_s(&e.next_header(first))),
                    Err(_) => "-".to_string(),
                },
                read6_s(dref.as_ref(), first, &bs),
                lim6_s(dref.as_ref(), first, bs.len(), 40, &bs)
            )
        }
        "l6" => {
            let first = IpNumber(num(p[1]) as u8);
            let bs = unhex(p[4]);
            format!("l={}", lim6_s(None, first, num(p[2]) as usize, num(p[3]) as usize, &bs))
        }
        "d4" => {
            let first = IpNumber(num(p[1]) as u8);
            let bs = unhex(p[2]);
            let d = Ipv4Extensions::from_slice(first, &bs);
            let dref = d.as_ref().ok().map(|v| v.0.clone());
            format!(
                "d={} x={} wb={} r={} l={}",
                dec4x_s(first, &bs),
                lax4x_s(first, &bs),
                match &d {
                    Ok((e, _, _)) => format!("{}/{}", write4(e, first).2, walk4_s(&e.next_header(first))),
                    Err(_) => "-".to_string(),
                },
                read4_s(dref.as_ref(), first, &bs),
                lim4_s(dref.as_ref(), first, bs.len(), 20, &bs)
            )
        }
        "l4" => {
            let first = IpNumber(num(p[1]) as u8);
            let bs = unhex(p[4]);
            format!("l={}", lim4_s(None, first, num(p[2]) as usize, num(p[3]) as usize, &bs))
        }
        "arp" => {
            let last = IpNumber(num(p[1]) as u8);
            // ethernet / ipv4 ARP request
            let raw: [u8; 28] = [
                0, 1, 8, 0, 6, 4, 0, 1, 1, 2, 3, 4, 5, 6, 10, 0, 0, 1, 0, 0, 0, 0, 0, 0, 10, 0, 0, 2,
            ];
            let mut net = NetHeaders::Arp(ArpPacket::from_slice(&raw).unwrap());
            let before = net.clone();
            let r = net.try_set_next_headers(last);
            if net != before {
                return "net=changed".to_string();
            }
            format!("net={}", net_s(&r))
        }
        t => panic!("bad c12 tag {}", t),
    }
}
