//! C06 (equivalent entry points give equivalent answers).  Case kinds:
//!   eth <hex>        from_ethernet vs from_ether_type on the bytes behind the
//!                    Ethernet II header, four whole-packet families
//!   sll <hex>        from_linux_sll vs from_ether_type on the bytes behind the SLL
//!                    header (SlicedPacket, LaxPacketHeaders: the two families that
//!                    have this entry point)
//!   et4|et6 <hex>    from_ether_type(IPv4|IPv6) vs from_ip, four families
//!   ipb <hex>        the IP boundary implementations (12 + Ipv6Slice::from_slice_lax)
//!   rd:<T>[:n] <hex> T::read(Cursor) vs T::from_slice for the 17 header types
//! Output: fields `name=value` joined by " ;; ".
use etherparse::err::packet::SliceError;
use etherparse::*;
use std::io::Cursor;
use vh::parsefmt::{len_err, slice_err};
use vh::*;

#[path = "../c06fmt.rs"]
mod f;

fn main() {
    main_loop(run);
}

fn run(line: &str) -> String {
    let mut it = line.split_whitespace();
    let entry = it.next().unwrap();
    let data = unhex(it.next().unwrap());
    if entry == "eth" {
        eth(&data)
    } else if entry == "sll" {
        sll(&data)
    } else if entry == "et4" {
        ett(&data, EtherType::IPV4)
    } else if entry == "et6" {
        ett(&data, EtherType::IPV6)
    } else if entry == "ipb" {
        ipb(&data)
    } else if let Some(t) = entry.strip_prefix("rd:") {
        rd(t, &data)
    } else {
        panic!("bad entry {}", entry)
    }
}

fn sliced(base: &[u8], r: &Result<SlicedPacket, SliceError>, k: usize) -> String {
    match r {
        Ok(_) => parsefmt::sliced(base, r),
        Err(e) => format!("err {}", slice_err(&f::shift_slice_err(e, k))),
    }
}
fn hdrs(base: &[u8], r: &Result<PacketHeaders, SliceError>, k: usize) -> String {
    match r {
        Ok(h) => f::headers(base, h),
        Err(e) => format!("err {}", slice_err(&f::shift_slice_err(e, k))),
    }
}

// ---- group 1a -------------------------------------------------------------------
fn eth(data: &[u8]) -> String {
    let mut out = Vec::new();
    let sa = SlicedPacket::from_ethernet(data);
    let pa = PacketHeaders::from_ethernet_slice(data);
    let la = LaxSlicedPacket::from_ethernet(data);
    let qa = LaxPacketHeaders::from_ethernet(data);
    out.push(format!("S.a={}", sliced(data, &sa, 0)));
    out.push(format!("P.a={}", hdrs(data, &pa, 0)));
    out.push(format!(
        "L.a={}",
        match &la {
            Ok(p) => f::lax_sliced(data, p, 0),
            Err(e) => format!("err {}", len_err(e)),
        }
    ));
    out.push(format!(
        "Q.a={}",
        match &qa {
            Ok(p) => f::lax_headers(data, p, 0),
            Err(e) => format!("err {}", len_err(e)),
        }
    ));
    if data.len() >= 14 {
        let et = EtherType(u16::from_be_bytes([data[12], data[13]]));
        let rest = &data[14..];
        let sb = SlicedPacket::from_ether_type(et, rest);
        let pb = PacketHeaders::from_ether_type(et, rest);
        let lb = LaxSlicedPacket::from_ether_type(et, rest);
        let qb = LaxPacketHeaders::from_ether_type(et, rest);
        out.push(format!("S.b={}", sliced(data, &sb, 14)));
        out.push(format!("P.b={}", hdrs(data, &pb, 14)));
        out.push(format!("L.b={}", f::lax_sliced(data, &lb, 14)));
        out.push(format!("Q.b={}", f::lax_headers(data, &qb, 14)));
        // decoded header values of the struct families (PartialEq of the crate)
        let ph = match (&pa, &pb) {
            (Ok(a), Ok(b)) => {
                if a.link_exts == b.link_exts && a.net == b.net && a.transport == b.transport {
                    "same"
                } else {
                    "DIFF"
                }
            }
            _ => "-",
        };
        let qh = match &qa {
            Ok(a) => {
                if a.link_exts == qb.link_exts && a.net == qb.net && a.transport == qb.transport {
                    "same"
                } else {
                    "DIFF"
                }
            }
            _ => "-",
        };
        out.push(format!("P.h={}", ph));
        out.push(format!("Q.h={}", qh));
    } else {
        out.push("S.b=-".to_string());
    }
    out.join(" ;; ")
}

// ---- group 1a, Linux SLL start ------------------------------------------------------
/// `cls` = what LinuxSllHeader::from_slice makes of the first 16 bytes:
/// short | reject | other | ether:<ether type>
fn sll(data: &[u8]) -> String {
    let mut out = Vec::new();
    let sa = SlicedPacket::from_linux_sll(data);
    let qa = LaxPacketHeaders::from_linux_sll(data);
    out.push(format!("S.a={}", sliced(data, &sa, 0)));
    out.push(format!(
        "Q.a={}",
        match &qa {
            Ok(p) => f::lax_headers(data, p, 0),
            Err(e) => format!("err {}", f::sll_slice_err(e)),
        }
    ));
    let cls = match LinuxSllHeader::from_slice(data) {
        Err(err::linux_sll::HeaderSliceError::Len(_)) => "short".to_string(),
        Err(err::linux_sll::HeaderSliceError::Content(_)) => "reject".to_string(),
        Ok((h, _)) => match h.protocol_type {
            LinuxSllProtocolType::EtherType(et) => format!("ether:{}", et.0),
            _ => "other".to_string(),
        },
    };
    if let Some(ets) = cls.strip_prefix("ether:") {
        let et = EtherType(ets.parse().unwrap());
        let rest = &data[16..];
        let sb = SlicedPacket::from_ether_type(et, rest);
        let qb = LaxPacketHeaders::from_ether_type(et, rest);
        out.push(format!("S.b={}", sliced(data, &sb, 16)));
        out.push(format!("Q.b={}", f::lax_headers(data, &qb, 16)));
        let qh = match &qa {
            Ok(a) => {
                if a.link_exts == qb.link_exts && a.net == qb.net && a.transport == qb.transport {
                    "same"
                } else {
                    "DIFF"
                }
            }
            _ => "-",
        };
        out.push(format!("Q.h={}", qh));
    } else {
        out.push("S.b=-".to_string());
        out.push("Q.b=-".to_string());
    }
    out.push(format!("cls={}", cls));
    out.join(" ;; ")
}

// ---- group 1b -------------------------------------------------------------------
fn ett(data: &[u8], et: EtherType) -> String {
    let mut out = Vec::new();
    let sa = SlicedPacket::from_ether_type(et, data);
    let sb = SlicedPacket::from_ip(data);
    let pa = PacketHeaders::from_ether_type(et, data);
    let pb = PacketHeaders::from_ip_slice(data);
    let la = LaxSlicedPacket::from_ether_type(et, data);
    let lb = LaxSlicedPacket::from_ip(data);
    let qa = LaxPacketHeaders::from_ether_type(et, data);
    let qb = LaxPacketHeaders::from_ip(data);
    out.push(format!("S.a={}", sliced(data, &sa, 0)));
    out.push(format!("S.b={}", sliced(data, &sb, 0)));
    out.push(format!("P.a={}", hdrs(data, &pa, 0)));
    out.push(format!("P.b={}", hdrs(data, &pb, 0)));
    out.push(format!("L.a={}", f::lax_sliced(data, &la, 0)));
    out.push(format!(
        "L.b={}",
        match &lb {
            Ok(p) => f::lax_sliced(data, p, 0),
            Err(e) => format!("err {}", f::lax_hdr_slice_err(e)),
        }
    ));
    out.push(format!("Q.a={}", f::lax_headers(data, &qa, 0)));
    out.push(format!(
        "Q.b={}",
        match &qb {
            Ok(p) => f::lax_headers(data, p, 0),
            Err(e) => format!("err {}", f::lax_hdr_slice_err(e)),
        }
    ));
    let ph = match (&pa, &pb) {
        (Ok(a), Ok(b)) => {
            if a.link_exts == b.link_exts && a.net == b.net && a.transport == b.transport {
                "same"
            } else {
                "DIFF"
            }
        }
        _ => "-",
    };
    let qh = match &qb {
        Ok(b) => {
            if qa.link_exts == b.link_exts && qa.net == b.net && qa.transport == b.transport {
                "same"
            } else {
                "DIFF"
            }
        }
        _ => "-",
    };
    out.push(format!("P.h={}", ph));
    out.push(format!("Q.h={}", qh));
    out.join(" ;; ")
}

// ---- group 2 --------------------------------------------------------------------
fn rec_v4(base: &[u8], v: &Ipv4Slice) -> String {
    format!(
        "ok 4 h={} x={} {}",
        off(base, v.header().slice()),
        v.extensions().auth.map(|a| a.slice().len()).unwrap_or(0),
        f::ip_payload(base, v.payload())
    )
}
fn rec_v6(base: &[u8], v: &Ipv6Slice) -> String {
    format!(
        "ok 6 h={} x={} {}",
        off(base, v.header().slice()),
        v.extensions().slice().len(),
        f::ip_payload(base, v.payload())
    )
}
fn rec_lv4(base: &[u8], v: &LaxIpv4Slice, stop: String) -> String {
    format!(
        "ok 4 h={} x={} {} stop={}",
        off(base, v.header().slice()),
        v.extensions().auth.map(|a| a.slice().len()).unwrap_or(0),
        f::lax_ip_payload(base, v.payload()),
        stop
    )
}
fn rec_lv6(base: &[u8], v: &LaxIpv6Slice, stop: String) -> String {
    format!(
        "ok 6 h={} x={} {} stop={}",
        off(base, v.header().slice()),
        v.extensions().slice().len(),
        f::lax_ip_payload(base, v.payload()),
        stop
    )
}
fn rec_h(h: &IpHeaders, pl: String) -> String {
    match h {
        IpHeaders::Ipv4(h, x) => format!("ok 4 h=0+{} x={} {}", h.header_len(), x.header_len(), pl),
        IpHeaders::Ipv6(h, x) => format!("ok 6 h=0+{} x={} {}", h.header_len(), x.header_len(), pl),
    }
}
fn e_ip_headers(e: &err::ip::HeadersError) -> String {
    match e {
        err::ip::HeadersError::Ip(h) => f::ip_hdr_err(h),
        err::ip::HeadersError::Ipv4Ext(a) => f::auth_err(a),
        err::ip::HeadersError::Ipv6Ext(x) => f::ipv6_exts_err(x),
    }
}
fn e_v4_slice(e: &err::ipv4::SliceError) -> String {
    match e {
        err::ipv4::SliceError::Len(l) => len_err(l),
        err::ipv4::SliceError::Header(h) => f::ipv4_hdr_err(h),
        err::ipv4::SliceError::Exts(a) => f::auth_err(a),
    }
}
fn e_v6_slice(e: &err::ipv6::SliceError) -> String {
    match e {
        err::ipv6::SliceError::Len(l) => len_err(l),
        err::ipv6::SliceError::Header(h) => f::ipv6_hdr_err(h),
        err::ipv6::SliceError::Exts(x) => f::ipv6_exts_err(x),
    }
}

fn ipb(data: &[u8]) -> String {
    let mut out = Vec::new();
    // strict slice trio
    let s0 = IpSlice::from_slice(data);
    let s4 = Ipv4Slice::from_slice(data);
    let s6 = Ipv6Slice::from_slice(data);
    out.push(format!(
        "IpSlice={}",
        match &s0 {
            Ok(IpSlice::Ipv4(v)) => rec_v4(data, v),
            Ok(IpSlice::Ipv6(v)) => rec_v6(data, v),
            Err(err::ip::SliceError::Len(l)) => format!("err {}", len_err(l)),
            Err(err::ip::SliceError::IpHeaders(h)) => format!("err {}", e_ip_headers(h)),
        }
    ));
    out.push(format!(
        "Ipv4Slice={}",
        match &s4 {
            Ok(v) => rec_v4(data, v),
            Err(e) => format!("err {}", e_v4_slice(e)),
        }
    ));
    out.push(format!(
        "Ipv6Slice={}",
        match &s6 {
            Ok(v) => rec_v6(data, v),
            Err(e) => format!("err {}", e_v6_slice(e)),
        }
    ));
    // lax slice trio
    let l0 = LaxIpSlice::from_slice(data);
    let l4 = LaxIpv4Slice::from_slice(data);
    let l6 = LaxIpv6Slice::from_slice(data);
    out.push(format!(
        "LaxIpSlice={}",
        match &l0 {
            Ok((LaxIpSlice::Ipv4(v), st)) => rec_lv4(data, v, f::stop_exts(st)),
            Ok((LaxIpSlice::Ipv6(v), st)) => rec_lv6(data, v, f::stop_exts(st)),
            Err(e) => format!("err {}", f::lax_hdr_slice_err(e)),
        }
    ));
    out.push(format!(
        "LaxIpv4Slice={}",
        match &l4 {
            Ok((v, st)) => rec_lv4(data, v, f::stop_auth(st)),
            Err(err::ipv4::HeaderSliceError::Len(l)) => format!("err {}", len_err(l)),
            Err(err::ipv4::HeaderSliceError::Content(c)) => format!("err {}", f::ipv4_hdr_err(c)),
        }
    ));
    out.push(format!(
        "LaxIpv6Slice={}",
        match &l6 {
            Ok((v, st)) => rec_lv6(data, v, f::stop_exts(st)),
            Err(err::ipv6::HeaderSliceError::Len(l)) => format!("err {}", len_err(l)),
            Err(err::ipv6::HeaderSliceError::Content(c)) => format!("err {}", f::ipv6_hdr_err(c)),
        }
    ));
    // struct trio
    let h0 = IpHeaders::from_slice(data);
    let h4 = IpHeaders::from_ipv4_slice(data);
    let h6 = IpHeaders::from_ipv6_slice(data);
    out.push(format!(
        "IpHeaders={}",
        match &h0 {
            Ok((h, p)) => rec_h(h, f::ip_payload(data, p)),
            Err(err::ip::HeadersSliceError::Len(l)) => format!("err {}", len_err(l)),
            Err(err::ip::HeadersSliceError::Content(c)) => format!("err {}", e_ip_headers(c)),
        }
    ));
    out.push(format!(
        "IpHeaders4={}",
        match &h4 {
            Ok((h, p)) => rec_h(h, f::ip_payload(data, p)),
            Err(e) => format!("err {}", e_v4_slice(e)),
        }
    ));
    out.push(format!(
        "IpHeaders6={}",
        match &h6 {
            Ok((h, p)) => rec_h(h, f::ip_payload(data, p)),
            Err(e) => format!("err {}", e_v6_slice(e)),
        }
    ));
    // struct trio, lax
    let k0 = IpHeaders::from_slice_lax(data);
    let k4 = IpHeaders::from_ipv4_slice_lax(data);
    let k6 = IpHeaders::from_ipv6_slice_lax(data);
    out.push(format!(
        "IpHeadersLax={}",
        match &k0 {
            Ok((h, p, st)) => format!("{} stop={}", rec_h(h, f::lax_ip_payload(data, p)), f::stop_ip_exts(st)),
            Err(e) => format!("err {}", f::lax_hdr_slice_err(e)),
        }
    ));
    out.push(format!(
        "IpHeaders4Lax={}",
        match &k4 {
            Ok((h, p, st)) => format!("{} stop={}", rec_h(h, f::lax_ip_payload(data, p)), f::stop_auth(st)),
            Err(e) => format!("err {}", f::lax_hdr_slice_err(e)),
        }
    ));
    out.push(format!(
        "IpHeaders6Lax={}",
        match &k6 {
            Ok((h, p, st)) => format!("{} stop={}", rec_h(h, f::lax_ip_payload(data, p)), f::stop_exts(st)),
            Err(err::ipv6::HeaderSliceError::Len(l)) => format!("err {}", len_err(l)),
            Err(err::ipv6::HeaderSliceError::Content(c)) => format!("err {}", f::ipv6_hdr_err(c)),
        }
    ));
    // the 13th copy
    let s6l = Ipv6Slice::from_slice_lax(data);
    out.push(format!(
        "Ipv6SliceLax={}",
        match &s6l {
            Ok(v) => rec_v6(data, v),
            Err(e) => format!("err {}", e_v6_slice(e)),
        }
    ));
    // slice family vs struct family through to_header (PartialEq of the crate)
    let eqf = |a: Option<IpHeaders>, b: Option<&IpHeaders>| -> &'static str {
        match (a, b) {
            (Some(a), Some(b)) => {
                if &a == b {
                    "1"
                } else {
                    "0"
                }
            }
            _ => "-",
        }
    };
    let th0 = eqf(s0.as_ref().ok().map(|s| s.to_header()), h0.as_ref().ok().map(|h| &h.0));
    let th4 = eqf(
        s4.as_ref()
            .ok()
            .map(|s| IpHeaders::Ipv4(s.header().to_header(), s.extensions().to_header())),
        h4.as_ref().ok().map(|h| &h.0),
    );
    let th6 = eqf(
        s6.as_ref().ok().map(|s| {
            IpHeaders::Ipv6(
                s.header().to_header(),
                Ipv6Extensions::from_slice(s.header().next_header(), s.extensions().slice())
                    .map(|v| v.0)
                    .unwrap_or_default(),
            )
        }),
        h6.as_ref().ok().map(|h| &h.0),
    );
    out.push(format!("TH={}{}{}", th0, th4, th6));
    out.join(" ;; ")
}

// ---- group 3 --------------------------------------------------------------------
fn io_tag(e: &std::io::Error) -> String {
    if e.kind() == std::io::ErrorKind::UnexpectedEof {
        "eof".to_string()
    } else {
        "io".to_string()
    }
}

/// `r=<read outcome> ;; s=<from_slice outcome> ;; eq=<headers equal> ;; pos=<cursor position>`
fn fin(r: String, s: String, eq: &str, pos: u64) -> String {
    format!("r={} ;; s={} ;; eq={} ;; pos={}", r, s, eq, pos)
}
fn eqs<T: PartialEq>(a: &Option<T>, b: &Option<T>) -> &'static str {
    match (a, b) {
        (Some(a), Some(b)) => {
            if a == b {
                "1"
            } else {
                "0"
            }
        }
        _ => "-",
    }
}

fn rd(t: &str, data: &[u8]) -> String {
    let mut parts = t.split(':');
    let ty = parts.next().unwrap();
    let arg: u8 = parts.next().map(|v| v.parse().unwrap()).unwrap_or(0);
    let mut c = Cursor::new(data);
    macro_rules! plain_io {
        ($T:ty, $fs:expr) => {{
            let r = <$T>::read(&mut c);
            let pos = c.position();
            let s = $fs;
            let rs = match &r {
                Ok(h) => format!("ok {}", h.header_len()),
                Err(e) => io_tag(e),
            };
            let (ss, sh) = match s {
                Ok((h, rest)) => (format!("ok {}", data.len() - rest.len()), Some(h)),
                Err(e) => (format!("err {}", len_err(&e)), None),
            };
            fin(rs, ss, eqs(&r.ok(), &sh), pos)
        }};
    }
    match ty {
        "Ethernet2Header" => plain_io!(Ethernet2Header, Ethernet2Header::from_slice(data)),
        "SingleVlanHeader" => plain_io!(SingleVlanHeader, SingleVlanHeader::from_slice(data)),
        "Ipv6FragmentHeader" => plain_io!(Ipv6FragmentHeader, Ipv6FragmentHeader::from_slice(data)),
        "Ipv6RawExtHeader" => plain_io!(Ipv6RawExtHeader, Ipv6RawExtHeader::from_slice(data)),
        "UdpHeader" => plain_io!(UdpHeader, UdpHeader::from_slice(data)),
        "Icmpv4Header" | "Icmpv6Header" => {
            // rules that depend on the total slice length are compared on the
            // slice that ends with the header
            if ty == "Icmpv4Header" {
                let r = Icmpv4Header::read(&mut c);
                let pos = c.position();
                let n = match &r {
                    Ok(h) => h.header_len().min(data.len()),
                    Err(_) => data.len(),
                };
                let s = Icmpv4Header::from_slice(&data[..n]);
                let rs = match &r {
                    Ok(h) => format!("ok {}", h.header_len()),
                    Err(e) => io_tag(e),
                };
                let (ss, sh) = match s {
                    Ok((h, rest)) => (format!("ok {}", n - rest.len()), Some(h)),
                    Err(e) => (format!("err {}", len_err(&e)), None),
                };
                fin(rs, ss, eqs(&r.ok(), &sh), pos)
            } else {
                let r = Icmpv6Header::read(&mut c);
                let pos = c.position();
                let n = match &r {
                    Ok(h) => h.header_len().min(data.len()),
                    Err(_) => data.len(),
                };
                let s = Icmpv6Header::from_slice(&data[..n]);
                let rs = match &r {
                    Ok(h) => format!("ok {}", h.header_len()),
                    Err(e) => io_tag(e),
                };
                let (ss, sh) = match s {
                    Ok((h, rest)) => (format!("ok {}", n - rest.len()), Some(h)),
                    Err(e) => (format!("err {}", len_err(&e)), None),
                };
                fin(rs, ss, eqs(&r.ok(), &sh), pos)
            }
        }
        "ArpPacket" => {
            let r = ArpPacket::read(&mut c);
            let pos = c.position();
            let s = ArpPacket::from_slice(data);
            let rs = match &r {
                Ok(h) => format!("ok {}", h.packet_len()),
                Err(e) => io_tag(e),
            };
            let (ss, sh) = match s {
                Ok(h) => (format!("ok {}", h.packet_len()), Some(h)),
                Err(e) => (format!("err {}", len_err(&e)), None),
            };
            fin(rs, ss, eqs(&r.ok(), &sh), pos)
        }
        "LinuxSllHeader" => {
            let r = LinuxSllHeader::read(&mut c);
            let pos = c.position();
            let s = LinuxSllHeader::from_slice(data);
            let rs = match &r {
                Ok(h) => format!("ok {}", h.header_len()),
                Err(err::ReadError::Io(e)) => io_tag(e),
                Err(err::ReadError::LinuxSll(e)) => f::sll_err(e),
                Err(_) => "other".to_string(),
            };
            let (ss, sh) = match s {
                Ok((h, rest)) => (format!("ok {}", data.len() - rest.len()), Some(h)),
                Err(err::linux_sll::HeaderSliceError::Len(l)) => (format!("err {}", len_err(&l)), None),
                Err(err::linux_sll::HeaderSliceError::Content(e)) => (format!("err {}", f::sll_err(&e)), None),
            };
            fin(rs, ss, eqs(&r.ok(), &sh), pos)
        }
        "MacsecHeader" => {
            let r = MacsecHeader::read(&mut c);
            let pos = c.position();
            let s = MacsecHeader::from_slice(data);
            let rs = match &r {
                Ok(h) => format!("ok {}", h.header_len()),
                Err(err::macsec::HeaderReadError::Io(e)) => io_tag(e),
                Err(err::macsec::HeaderReadError::Content(e)) => f::macsec_err(e),
            };
            let (ss, sh) = match s {
                Ok(h) => (format!("ok {}", h.header_len()), Some(h)),
                Err(err::macsec::HeaderSliceError::Len(l)) => (format!("err {}", len_err(&l)), None),
                Err(err::macsec::HeaderSliceError::Content(e)) => (format!("err {}", f::macsec_err(&e)), None),
            };
            fin(rs, ss, eqs(&r.ok(), &sh), pos)
        }
        "Ipv4Header" => {
            let r = Ipv4Header::read(&mut c);
            let pos = c.position();
            let s = Ipv4Header::from_slice(data);
            let rs = match &r {
                Ok(h) => format!("ok {}", h.header_len()),
                Err(err::ipv4::HeaderReadError::Io(e)) => io_tag(e),
                Err(err::ipv4::HeaderReadError::Content(e)) => f::ipv4_hdr_err(e),
            };
            let (ss, sh) = match s {
                Ok((h, rest)) => (format!("ok {}", data.len() - rest.len()), Some(h)),
                Err(err::ipv4::HeaderSliceError::Len(l)) => (format!("err {}", len_err(&l)), None),
                Err(err::ipv4::HeaderSliceError::Content(e)) => (format!("err {}", f::ipv4_hdr_err(&e)), None),
            };
            fin(rs, ss, eqs(&r.ok(), &sh), pos)
        }
        "Ipv6Header" => {
            let r = Ipv6Header::read(&mut c);
            let pos = c.position();
            let s = Ipv6Header::from_slice(data);
            let rs = match &r {
                Ok(h) => format!("ok {}", h.header_len()),
                Err(err::ipv6::HeaderReadError::Io(e)) => io_tag(e),
                Err(err::ipv6::HeaderReadError::Content(e)) => f::ipv6_hdr_err(e),
            };
            let (ss, sh) = match s {
                Ok((h, rest)) => (format!("ok {}", data.len() - rest.len()), Some(h)),
                Err(err::ipv6::HeaderSliceError::Len(l)) => (format!("err {}", len_err(&l)), None),
                Err(err::ipv6::HeaderSliceError::Content(e)) => (format!("err {}", f::ipv6_hdr_err(&e)), None),
            };
            fin(rs, ss, eqs(&r.ok(), &sh), pos)
        }
        "IpAuthHeader" => {
            let r = IpAuthHeader::read(&mut c);
            let pos = c.position();
            let s = IpAuthHeader::from_slice(data);
            let rs = match &r {
                Ok(h) => format!("ok {}", h.header_len()),
                Err(err::ip_auth::HeaderReadError::Io(e)) => io_tag(e),
                Err(err::ip_auth::HeaderReadError::Content(e)) => f::auth_err(e),
            };
            let (ss, sh) = match s {
                Ok((h, rest)) => (format!("ok {}", data.len() - rest.len()), Some(h)),
                Err(e) => (format!("err {}", f::auth_slice_err(&e)), None),
            };
            fin(rs, ss, eqs(&r.ok(), &sh), pos)
        }
        "TcpHeader" => {
            let r = TcpHeader::read(&mut c);
            let pos = c.position();
            let s = TcpHeader::from_slice(data);
            let rs = match &r {
                Ok(h) => format!("ok {}", h.header_len()),
                Err(err::tcp::HeaderReadError::Io(e)) => io_tag(e),
                Err(err::tcp::HeaderReadError::Content(e)) => f::tcp_err(e),
            };
            let (ss, sh) = match s {
                Ok((h, rest)) => (format!("ok {}", data.len() - rest.len()), Some(h)),
                Err(err::tcp::HeaderSliceError::Len(l)) => (format!("err {}", len_err(&l)), None),
                Err(err::tcp::HeaderSliceError::Content(e)) => (format!("err {}", f::tcp_err(&e)), None),
            };
            fin(rs, ss, eqs(&r.ok(), &sh), pos)
        }
        "Ipv4Extensions" => {
            let r = Ipv4Extensions::read(&mut c, IpNumber(arg));
            let pos = c.position();
            let s = Ipv4Extensions::from_slice(IpNumber(arg), data);
            let rs = match &r {
                Ok((h, n)) => format!("ok {} next={}", h.header_len(), n.0),
                Err(err::ip_auth::HeaderReadError::Io(e)) => io_tag(e),
                Err(err::ip_auth::HeaderReadError::Content(e)) => f::auth_err(e),
            };
            let (ss, sh) = match s {
                Ok((h, n, rest)) => (format!("ok {} next={}", data.len() - rest.len(), n.0), Some(h)),
                Err(e) => (format!("err {}", f::auth_slice_err(&e)), None),
            };
            fin(rs, ss, eqs(&r.ok().map(|v| v.0), &sh), pos)
        }
        "Ipv6Extensions" => {
            let r = Ipv6Extensions::read(&mut c, IpNumber(arg));
            let pos = c.position();
            let s = Ipv6Extensions::from_slice(IpNumber(arg), data);
            let rs = match &r {
                Ok((h, n)) => format!("ok {} next={}", h.header_len(), n.0),
                Err(err::ipv6_exts::HeaderReadError::Io(e)) => io_tag(e),
                Err(err::ipv6_exts::HeaderReadError::Content(e)) => f::ipv6_exts_err(e),
            };
            let (ss, sh) = match s {
                Ok((h, n, rest)) => (format!("ok {} next={}", data.len() - rest.len(), n.0), Some(h)),
                Err(e) => (format!("err {}", f::ipv6_exts_slice_err(&e)), None),
            };
            fin(rs, ss, eqs(&r.ok().map(|v| v.0), &sh), pos)
        }
        "IpHeaders" => {
            let r = IpHeaders::read(&mut c);
            let pos = c.position();
            let s = IpHeaders::from_slice(data);
            let rs = match &r {
                Ok((h, n)) => format!("ok {} next={}", h.header_len(), n.0),
                Err(err::ip::HeaderReadError::Io(e)) => io_tag(e),
                Err(err::ip::HeaderReadError::Len(l)) => len_err(l),
                Err(err::ip::HeaderReadError::Content(e)) => e_ip_headers(e),
            };
            let (ss, sh) = match s {
                Ok((h, p)) => (
                    format!(
                        "ok {} next={}",
                        (p.payload.as_ptr() as usize) - (data.as_ptr() as usize),
                        p.ip_number.0
                    ),
                    Some(h),
                ),
                Err(err::ip::HeadersSliceError::Len(l)) => (format!("err {}", len_err(&l)), None),
                Err(err::ip::HeadersSliceError::Content(e)) => (format!("err {}", e_ip_headers(&e)), None),
            };
            fin(rs, ss, eqs(&r.ok().map(|v| v.0), &sh), pos)
        }
        _ => panic!("unknown header type {}", ty),
    }
}
