//! C03 (derived / typed accessor values, audit follow-up): the values of the REAL slice
//! accessors that combine several raw fields or return a sub-slice, appended to the line of
//! fieldfmt.rs as layers `<layer>.d:<field>=<value>;...` (same format as ocaml/run_c03f.ml):
//! numbers decimal, flags 0/1, sub-slices as `offset+len` relative to the input buffer
//! (`vh::off`), optional values `none`, length sources as `vh::parsefmt::src_tag`.
use crate::fieldfmt::Out;
use etherparse::*;
use vh::parsefmt::src_tag;

struct L {
    tag: &'static str,
    f: Vec<String>,
}

impl L {
    fn new(tag: &'static str) -> L {
        L { tag, f: Vec::new() }
    }
    fn n(&mut self, k: &str, v: u128) {
        self.f.push(format!("{}={}", k, v));
    }
    fn b(&mut self, k: &str, v: bool) {
        self.f.push(format!("{}={}", k, if v { 1 } else { 0 }));
    }
    fn w(&mut self, k: &str, base: &[u8], sub: &[u8]) {
        self.f.push(format!("{}={}", k, vh::off(base, sub)));
    }
    fn on(&mut self, k: &str, v: Option<u128>) {
        match v {
            Some(x) => self.f.push(format!("{}={}", k, x)),
            None => self.f.push(format!("{}=none", k)),
        }
    }
    fn s(&mut self, k: &str, v: &str) {
        self.f.push(format!("{}={}", k, v));
    }
    fn end(self, o: &mut Out) {
        o.add_layer(format!("{}.d:{}", self.tag, self.f.join(";")));
    }
}

fn ip_payload(l: &mut L, base: &[u8], p: &IpPayloadSlice) {
    l.n("pl_ip_number", p.ip_number.0 as u128);
    l.b("pl_fragmented", p.fragmented);
    l.s("pl_len_source", src_tag(p.len_source));
    l.w("pl_window", base, p.payload);
}

pub fn packet(o: &mut Out, p: &SlicedPacket, base: &[u8]) {
    if let Some(l) = &p.link {
        match l {
            LinkSlice::Ethernet2(e) => {
                let mut d = L::new("eth");
                match e.fcs() {
                    Some(f) => d.s("fcs", &vh::hex(&f)),
                    None => d.s("fcs", "none"),
                }
                d.w("header", base, e.header_slice());
                d.w("payload", base, e.payload_slice());
                d.end(o);
            }
            LinkSlice::LinuxSll(s) => {
                let mut d = L::new("sll");
                d.w("sender_address", base, s.sender_address());
                d.w("payload", base, s.payload_slice());
                d.end(o);
            }
            LinkSlice::EtherPayload(_) => {}
            LinkSlice::LinuxSllPayload(_) => {}
        }
    }
    for x in p.link_exts.iter() {
        match x {
            LinkExtSlice::Vlan(v) => {
                let mut d = L::new("vlan");
                d.w("header", base, v.header_slice());
                d.w("payload", base, v.payload_slice());
                d.end(o);
            }
            LinkExtSlice::Macsec(m) => {
                let h = &m.header;
                let mut d = L::new("macsec");
                d.b("is_unmodified", h.is_unmodified());
                let (code, et) = match h.ptype() {
                    MacsecPType::Unmodified(e) => (0u128, Some(e.0 as u128)),
                    MacsecPType::Modified => (1, None),
                    MacsecPType::EncryptedUnmodified => (2, None),
                    MacsecPType::Encrypted => (3, None),
                };
                d.n("ptype", code);
                d.on("ptype_ether_type", et);
                d.on("next_ether_type", h.next_ether_type().map(|e| e.0 as u128));
                d.n("header_len", h.header_len() as u128);
                d.on("expected_payload_len", h.expected_payload_len().map(|v| v as u128));
                d.end(o);
            }
        }
    }
    if let Some(n) = &p.net {
        match n {
            NetSlice::Ipv4(v) => {
                let h = v.header();
                let mut d = L::new("ipv4");
                match h.payload_len() {
                    Ok(l) => d.n("payload_len", l as u128),
                    Err(_) => d.s("payload_len", "ERR"),
                }
                d.b("is_fragmenting_payload", h.is_fragmenting_payload());
                ip_payload(&mut d, base, v.payload());
                d.end(o);
            }
            NetSlice::Ipv6(v) => {
                let h = v.header();
                let mut d = L::new("ipv6");
                d.n("dscp", h.dscp().value() as u128);
                d.n("ecn", h.ecn().value() as u128);
                ip_payload(&mut d, base, v.payload());
                d.end(o);
                for e in v.extensions().clone().into_iter() {
                    if let Ipv6ExtensionSlice::Fragment(f) = e {
                        let mut d = L::new("fragment");
                        d.b("is_fragmenting_payload", f.is_fragmenting_payload());
                        d.end(o);
                    }
                }
            }
            NetSlice::Arp(a) => {
                let mut d = L::new("arp");
                d.w("sender_hw", base, a.sender_hw_addr());
                d.w("sender_proto", base, a.sender_protocol_addr());
                d.w("target_hw", base, a.target_hw_addr());
                d.w("target_proto", base, a.target_protocol_addr());
                d.end(o);
            }
        }
    }
    if let Some(t) = &p.transport {
        match t {
            TransportSlice::Udp(u) => {
                let mut d = L::new("udp");
                d.w("header", base, u.header_slice());
                d.w("payload", base, u.payload());
                d.s("payload_len_source", src_tag(u.payload_len_source()));
                d.end(o);
            }
            TransportSlice::Tcp(t) => {
                let mut d = L::new("tcp");
                d.n("header_len", t.header_len() as u128);
                d.w("header", base, t.header_slice());
                d.w("payload", base, t.payload());
                d.end(o);
            }
            TransportSlice::Icmpv4(i) => {
                let mut d = L::new("icmp4");
                d.n("header_len", i.header_len() as u128);
                d.w("payload", base, i.payload());
                d.end(o);
            }
            TransportSlice::Icmpv6(i) => {
                let mut d = L::new("icmp6");
                d.n("header_len", i.header_len() as u128);
                d.w("payload", base, i.payload());
                d.end(o);
            }
        }
    }
}
