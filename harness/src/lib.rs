//! Shared helpers of the implementation-side runners (one binary per property
//! under src/bin/): hex conversion, offsets of sub-slices, the case loop.
#![allow(dead_code)]
pub mod parsefmt;
use std::io::{BufRead, Write};

/// Runs `f` on every case line of the file given as first argument and prints
/// one line per case. A panic inside `f` is caught and reported as `PANIC <msg>`.
pub fn main_loop(f: fn(&str) -> String) {
    let args: Vec<String> = std::env::args().collect();
    if args.len() < 2 {
        eprintln!("usage: {} <casefile>", args[0]);
        std::process::exit(2);
    }
    let file = std::fs::File::open(&args[1]).expect("case file");
    let reader = std::io::BufReader::new(file);
    let stdout = std::io::stdout();
    let mut out = std::io::BufWriter::new(stdout.lock());
    std::panic::set_hook(Box::new(|_| {}));
    for line in reader.lines() {
        let line = line.expect("read");
        let line = line.trim();
        if line.is_empty() || line.starts_with('#') {
            continue;
        }
        let l2 = line.to_string();
        let r = std::panic::catch_unwind(move || f(&l2));
        match r {
            Ok(s) => writeln!(out, "{}", s).unwrap(),
            Err(e) => {
                let msg = if let Some(s) = e.downcast_ref::<&str>() {
                    s.to_string()
                } else if let Some(s) = e.downcast_ref::<String>() {
                    s.clone()
                } else {
                    "?".to_string()
                };
                writeln!(out, "PANIC {}", msg.replace('\n', " ")).unwrap()
            }
        }
    }
    out.flush().unwrap();
}

pub fn unhex(s: &str) -> Vec<u8> {
    let s = s.trim();
    if s == "-" {
        return Vec::new();
    }
    assert!(s.len() % 2 == 0, "odd hex length: {}", s);
    let b = s.as_bytes();
    let nib = |c: u8| -> u8 {
        match c {
            b'0'..=b'9' => c - b'0',
            b'a'..=b'f' => c - b'a' + 10,
            b'A'..=b'F' => c - b'A' + 10,
            _ => panic!("bad hex digit"),
        }
    };
    (0..b.len() / 2).map(|i| nib(b[2 * i]) << 4 | nib(b[2 * i + 1])).collect()
}

pub fn hex(b: &[u8]) -> String {
    if b.is_empty() {
        return "-".to_string();
    }
    let mut s = String::with_capacity(b.len() * 2);
    for x in b {
        s.push_str(&format!("{:02x}", x));
    }
    s
}

/// offset of `sub` inside `base` (both must come from the same allocation)
pub fn off(base: &[u8], sub: &[u8]) -> String {
    let b = base.as_ptr() as usize;
    let s = sub.as_ptr() as usize;
    if s < b || s + sub.len() > b + base.len() {
        format!("OUTSIDE({}+{})", (s as isize) - (b as isize), sub.len())
    } else {
        format!("{}+{}", s - b, sub.len())
    }
}
