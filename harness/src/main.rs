//! Implementation side of the correspondence checks: runs the real crate on
//! the cases of a case file and prints one canonical line per case.
mod util;
mod c09;

use std::io::{BufRead, Write};

fn main() {
    let args: Vec<String> = std::env::args().collect();
    if args.len() < 3 {
        eprintln!("usage: verif_harness <property> <casefile>");
        std::process::exit(2);
    }
    let prop = args[1].as_str();
    let file = std::fs::File::open(&args[2]).expect("case file");
    let reader = std::io::BufReader::new(file);
    let stdout = std::io::stdout();
    let mut out = std::io::BufWriter::new(stdout.lock());
    // panics are reported per case, not printed
    std::panic::set_hook(Box::new(|_| {}));
    for line in reader.lines() {
        let line = line.expect("read");
        let line = line.trim();
        if line.is_empty() || line.starts_with('#') {
            continue;
        }
        let p = prop.to_string();
        let l2 = line.to_string();
        let r = std::panic::catch_unwind(move || dispatch(&p, &l2));
        match r {
            Ok(s) => writeln!(out, "{}", s).unwrap(),
            Err(e) => {
                let msg = if let Some(s) = e.downcast_ref::<&str>() {
                    s.to_string()
                } else if let Some(s) = e.downcast_ref::<String>() {
                    s.clone()
                } else {
                    "?".to_string()
                };
                writeln!(out, "PANIC {}", msg.replace('\n', " ")).unwrap()
            }
        }
    }
}


fn dispatch(prop: &str, line: &str) -> String {
    match prop {
        "c09" => c09::run(line),
        _ => panic!("unknown property {}", prop),
    }
}
