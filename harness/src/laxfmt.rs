//! Canonical rendering of lax slicing results (C05): every layer window, payload
//! window, `incomplete` flags, length sources and the stop error (error record +
//! layer tag).  Same format as ocaml/run_c05.ml.
use etherparse::err::packet::SliceError;
use etherparse::err::{Layer, LenError};
use etherparse::*;
use vh::off;
use vh::parsefmt::{layer_tag, len_err, link, slice_err, src_tag, transport};

pub fn b01(b: bool) -> u8 {
    if b {
        1
    } else {
        0
    }
}

// ---- content errors of the single-layer error enums -------------------------
pub fn ip_hdr_err(h: &err::ip::HeaderError) -> String {
    match h {
        err::ip::HeaderError::UnsupportedIpVersion { version_number } => {
            format!("content IpUnsupportedVersion {}", version_number)
        }
        err::ip::HeaderError::Ipv4HeaderLengthSmallerThanHeader { ihl } => {
            format!("content IpIhl {}", ihl)
        }
    }
}
pub fn ipv4_hdr_err(h: &err::ipv4::HeaderError) -> String {
    match h {
        err::ipv4::HeaderError::UnexpectedVersion { version_number } => {
            format!("content Ipv4Version {}", version_number)
        }
        err::ipv4::HeaderError::HeaderLengthSmallerThanHeader { ihl } => {
            format!("content Ipv4Ihl {}", ihl)
        }
    }
}
pub fn ipv6_hdr_err(h: &err::ipv6::HeaderError) -> String {
    match h {
        err::ipv6::HeaderError::UnexpectedVersion { version_number } => {
            format!("content Ipv6Version {}", version_number)
        }
    }
}
pub fn auth_err(h: &err::ip_auth::HeaderError) -> String {
    match h {
        err::ip_auth::HeaderError::ZeroPayloadLen => "content AuthZeroPayloadLen -".to_string(),
    }
}
pub fn ipv6_exts_err(h: &err::ipv6_exts::HeaderError) -> String {
    match h {
        err::ipv6_exts::HeaderError::HopByHopNotAtStart => "content HopByHopNotAtStart -".to_string(),
        err::ipv6_exts::HeaderError::IpAuth(_) => "content Ipv6AuthZeroPayloadLen -".to_string(),
    }
}
pub fn macsec_err(h: &err::macsec::HeaderError) -> String {
    match h {
        err::macsec::HeaderError::UnexpectedVersion => "content MacsecVersion -".to_string(),
        err::macsec::HeaderError::InvalidUnmodifiedShortLen => {
            "content MacsecUnmodifiedShortLen -".to_string()
        }
    }
}
pub fn auth_slice_err(e: &err::ip_auth::HeaderSliceError) -> String {
    match e {
        err::ip_auth::HeaderSliceError::Len(l) => len_err(l),
        err::ip_auth::HeaderSliceError::Content(c) => auth_err(c),
    }
}
pub fn ipv6_exts_slice_err(e: &err::ipv6_exts::HeaderSliceError) -> String {
    match e {
        err::ipv6_exts::HeaderSliceError::Len(l) => len_err(l),
        err::ipv6_exts::HeaderSliceError::Content(c) => ipv6_exts_err(c),
    }
}

// ---- stop errors ---------------------------------------------------------------
pub fn stop(s: &Option<(SliceError, Layer)>) -> String {
    match s {
        None => "none".to_string(),
        Some((e, l)) => format!("({})@{}", slice_err(e), layer_tag(*l)),
    }
}
pub fn stop_exts(s: &Option<(err::ipv6_exts::HeaderSliceError, Layer)>) -> String {
    match s {
        None => "none".to_string(),
        Some((e, l)) => format!("({})@{}", ipv6_exts_slice_err(e), layer_tag(*l)),
    }
}
pub fn stop_auth(s: &Option<err::ip_auth::HeaderSliceError>) -> String {
    match s {
        None => "none".to_string(),
        Some(e) => format!("({})", auth_slice_err(e)),
    }
}

// ---- payloads and layers -----------------------------------------------------
pub fn lax_ether_payload(base: &[u8], e: &LaxEtherPayloadSlice) -> String {
    format!(
        "{},{},{},{}",
        b01(e.incomplete),
        e.ether_type.0,
        src_tag(e.len_source),
        off(base, e.payload)
    )
}

pub fn lax_ip_payload(base: &[u8], p: &LaxIpPayloadSlice) -> String {
    format!(
        "pl({},{},{},{},{})",
        b01(p.incomplete),
        p.ip_number.0,
        b01(p.fragmented),
        src_tag(p.len_source),
        off(base, p.payload)
    )
}

pub fn lax_macsec(base: &[u8], m: &LaxMacsecSlice) -> String {
    match &m.payload {
        LaxMacsecPayloadSlice::Unmodified(e) => format!(
            "macsec({},un({}))",
            off(base, m.header.slice()),
            lax_ether_payload(base, e)
        ),
        LaxMacsecPayloadSlice::Modified { incomplete, payload } => format!(
            "macsec({},mod({},{}))",
            off(base, m.header.slice()),
            b01(*incomplete),
            off(base, payload)
        ),
    }
}

pub fn lax_link_ext(base: &[u8], x: &LaxLinkExtSlice) -> String {
    match x {
        LaxLinkExtSlice::Vlan(v) => format!("vlan({})", off(base, v.slice())),
        LaxLinkExtSlice::Macsec(m) => lax_macsec(base, m),
    }
}

pub fn lax_v4(base: &[u8], v: &LaxIpv4Slice) -> String {
    format!(
        "v4({},{},{})",
        off(base, v.header().slice()),
        match v.extensions().auth {
            Some(a) => off(base, a.slice()),
            None => "-".to_string(),
        },
        lax_ip_payload(base, v.payload())
    )
}

pub fn x6_fields(base: &[u8], x: &Ipv6ExtensionsSlice) -> String {
    format!(
        "{},{},{}",
        match x.first_header() {
            Some(f) => format!("{}", f.0),
            None => "-".to_string(),
        },
        b01(x.is_fragmenting_payload()),
        off(base, x.slice())
    )
}

pub fn lax_v6(base: &[u8], v: &LaxIpv6Slice) -> String {
    format!(
        "v6({},{},{})",
        off(base, v.header().slice()),
        x6_fields(base, v.extensions()),
        lax_ip_payload(base, v.payload())
    )
}

pub fn lax_net(base: &[u8], n: &Option<LaxNetSlice>) -> String {
    match n {
        None => "none".to_string(),
        Some(LaxNetSlice::Ipv4(v)) => lax_v4(base, v),
        Some(LaxNetSlice::Ipv6(v)) => lax_v6(base, v),
        Some(LaxNetSlice::Arp(a)) => format!("arp({})", off(base, a.slice())),
    }
}

pub fn lax_sliced(base: &[u8], p: &LaxSlicedPacket) -> String {
    let exts: Vec<String> = p.link_exts.iter().map(|x| lax_link_ext(base, x)).collect();
    format!(
        "ok link={} exts=[{}] net={} tr={} stop={}",
        link(base, &p.link),
        exts.join(";"),
        lax_net(base, &p.net),
        transport(base, &p.transport),
        stop(&p.stop_err)
    )
}

pub fn err_len(e: &LenError) -> String {
    format!("err {}", len_err(e))
}

// ---- header-struct family (implementation side only; the model covers the slice family) ----
pub fn lax_payload(base: &[u8], p: &LaxPayloadSlice) -> String {
    match p {
        LaxPayloadSlice::Empty => "empty".to_string(),
        LaxPayloadSlice::Ether(e) => format!("ether({},{},{})", b01(e.incomplete), e.ether_type.0, off(base, e.payload)),
        LaxPayloadSlice::MacsecModified { payload, incomplete } => {
            format!("macsecmod({},{})", b01(*incomplete), off(base, payload))
        }
        LaxPayloadSlice::Ip(i) => format!("ip({},{},{},{})", b01(i.incomplete), i.ip_number.0, b01(i.fragmented), off(base, i.payload)),
        LaxPayloadSlice::Udp { payload, incomplete } => format!("udp({},{})", b01(*incomplete), off(base, payload)),
        LaxPayloadSlice::Tcp { payload, incomplete } => format!("tcp({},{})", b01(*incomplete), off(base, payload)),
        LaxPayloadSlice::Icmpv4 { payload, incomplete } => format!("icmp4({},{})", b01(*incomplete), off(base, payload)),
        LaxPayloadSlice::Icmpv6 { payload, incomplete } => format!("icmp6({},{})", b01(*incomplete), off(base, payload)),
        LaxPayloadSlice::LinuxSll(l) => format!("sll({})", off(base, l.payload)),
    }
}

pub fn strict_payload(base: &[u8], p: &PayloadSlice) -> String {
    match p {
        PayloadSlice::Empty => "empty".to_string(),
        PayloadSlice::Ether(e) => format!("ether({},{})", e.ether_type.0, off(base, e.payload)),
        PayloadSlice::MacsecMod(s) => format!("macsecmod({})", off(base, s)),
        PayloadSlice::Ip(i) => format!("ip({},{},{})", i.ip_number.0, b01(i.fragmented), off(base, i.payload)),
        PayloadSlice::Udp(s) => format!("udp({})", off(base, s)),
        PayloadSlice::Tcp(s) => format!("tcp({})", off(base, s)),
        PayloadSlice::Icmpv4(s) => format!("icmp4({})", off(base, s)),
        PayloadSlice::Icmpv6(s) => format!("icmp6({})", off(base, s)),
    }
}

pub fn lax_headers(base: &[u8], h: &LaxPacketHeaders) -> String {
    format!(
        "ok layers={}{}{}{} pay={} stop={}",
        b01(h.link.is_some()),
        h.link_exts.len(),
        b01(h.net.is_some()),
        b01(h.transport.is_some()),
        lax_payload(base, &h.payload),
        stop(&h.stop_err)
    )
}

pub fn strict_headers(base: &[u8], r: &Result<PacketHeaders, SliceError>) -> String {
    match r {
        Ok(h) => format!(
            "ok layers={}{}{}{} pay={}",
            b01(h.link.is_some()),
            h.link_exts.len(),
            b01(h.net.is_some()),
            b01(h.transport.is_some()),
            strict_payload(base, &h.payload)
        ),
        Err(e) => format!("err {}", slice_err(e)),
    }
}
