#![allow(dead_code)]
pub fn unhex(s: &str) -> Vec<u8> {
    let s = s.trim();
    if s == "-" {
        return Vec::new();
    }
    assert!(s.len() % 2 == 0, "odd hex length: {}", s);
    let b = s.as_bytes();
    let nib = |c: u8| -> u8 {
        match c {
            b'0'..=b'9' => c - b'0',
            b'a'..=b'f' => c - b'a' + 10,
            b'A'..=b'F' => c - b'A' + 10,
            _ => panic!("bad hex digit"),
        }
    };
    (0..b.len() / 2).map(|i| nib(b[2 * i]) << 4 | nib(b[2 * i + 1])).collect()
}

pub fn hex(b: &[u8]) -> String {
    if b.is_empty() {
        return "-".to_string();
    }
    let mut s = String::with_capacity(b.len() * 2);
    for x in b {
        s.push_str(&format!("{:02x}", x));
    }
    s
}

/// offset of `sub` inside `base` (both must come from the same allocation)
pub fn off(base: &[u8], sub: &[u8]) -> String {
    let b = base.as_ptr() as usize;
    let s = sub.as_ptr() as usize;
    if s < b || s + sub.len() > b + base.len() {
        format!("OUTSIDE({}+{})", (s as isize) - (b as isize), sub.len())
    } else {
        format!("{}+{}", s - b, sub.len())
    }
}
