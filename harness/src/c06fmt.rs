//! C06 helpers: canonical rendering of the results of sibling entry points.
//! Windows are printed relative to the buffer of the FIRST entry point of a
//! pair (so the windows of `from_ether_type(&data[14..])` come out shifted by
//! 14 without further ado); error offsets are shifted explicitly.
use etherparse::err::packet::SliceError;
use etherparse::err::{Layer, LenError};
use etherparse::*;
use vh::off;
use vh::parsefmt::{layer_tag, len_err, link, slice_err, src_tag, transport};

pub fn b01(b: bool) -> u8 {
    if b {
        1
    } else {
        0
    }
}

// ---- content errors of the single-layer error enums -------------------------
pub fn ip_hdr_err(h: &err::ip::HeaderError) -> String {
    match h {
        err::ip::HeaderError::UnsupportedIpVersion { version_number } => {
            format!("content IpUnsupportedVersion {}", version_number)
        }
        err::ip::HeaderError::Ipv4HeaderLengthSmallerThanHeader { ihl } => {
            format!("content IpIhl {}", ihl)
        }
    }
}
pub fn ipv4_hdr_err(h: &err::ipv4::HeaderError) -> String {
    match h {
        err::ipv4::HeaderError::UnexpectedVersion { version_number } => {
            format!("content Ipv4Version {}", version_number)
        }
        err::ipv4::HeaderError::HeaderLengthSmallerThanHeader { ihl } => {
            format!("content Ipv4Ihl {}", ihl)
        }
    }
}
pub fn ipv6_hdr_err(h: &err::ipv6::HeaderError) -> String {
    match h {
        err::ipv6::HeaderError::UnexpectedVersion { version_number } => {
            format!("content Ipv6Version {}", version_number)
        }
    }
}
pub fn auth_err(_h: &err::ip_auth::HeaderError) -> String {
    "content AuthZeroPayloadLen -".to_string()
}
pub fn ipv6_exts_err(h: &err::ipv6_exts::HeaderError) -> String {
    match h {
        err::ipv6_exts::HeaderError::HopByHopNotAtStart => "content HopByHopNotAtStart -".to_string(),
        err::ipv6_exts::HeaderError::IpAuth(_) => "content Ipv6AuthZeroPayloadLen -".to_string(),
    }
}
pub fn macsec_err(h: &err::macsec::HeaderError) -> String {
    match h {
        err::macsec::HeaderError::UnexpectedVersion => "content MacsecVersion -".to_string(),
        err::macsec::HeaderError::InvalidUnmodifiedShortLen => {
            "content MacsecUnmodifiedShortLen -".to_string()
        }
    }
}
pub fn sll_err(h: &err::linux_sll::HeaderError) -> String {
    match h {
        err::linux_sll::HeaderError::UnsupportedPacketTypeField { packet_type } => {
            format!("content LinuxSllPacketType {}", packet_type)
        }
        err::linux_sll::HeaderError::UnsupportedArpHardwareId { arp_hardware_type } => {
            format!("content LinuxSllArpHardwareId {}", arp_hardware_type.0)
        }
    }
}
pub fn tcp_err(h: &err::tcp::HeaderError) -> String {
    match h {
        err::tcp::HeaderError::DataOffsetTooSmall { data_offset } => {
            format!("content TcpDataOffset {}", data_offset)
        }
    }
}
pub fn auth_slice_err(e: &err::ip_auth::HeaderSliceError) -> String {
    match e {
        err::ip_auth::HeaderSliceError::Len(l) => len_err(l),
        err::ip_auth::HeaderSliceError::Content(c) => auth_err(c),
    }
}
pub fn ipv6_exts_slice_err(e: &err::ipv6_exts::HeaderSliceError) -> String {
    match e {
        err::ipv6_exts::HeaderSliceError::Len(l) => len_err(l),
        err::ipv6_exts::HeaderSliceError::Content(c) => ipv6_exts_err(c),
    }
}
pub fn ip_exts_slice_err(e: &err::ip_exts::HeadersSliceError) -> String {
    match e {
        err::ip_exts::HeadersSliceError::Len(l) => len_err(l),
        err::ip_exts::HeadersSliceError::Content(c) => match c {
            err::ip_exts::HeaderError::Ipv4Ext(a) => auth_err(a),
            err::ip_exts::HeaderError::Ipv6Ext(x) => ipv6_exts_err(x),
        },
    }
}
pub fn lax_hdr_slice_err(e: &err::ip::LaxHeaderSliceError) -> String {
    match e {
        err::ip::LaxHeaderSliceError::Len(l) => len_err(l),
        err::ip::LaxHeaderSliceError::Content(c) => ip_hdr_err(c),
    }
}

// ---- shifting error offsets ---------------------------------------------------
pub fn shift_len(l: &LenError, k: usize) -> LenError {
    let mut l = l.clone();
    l.layer_start_offset += k;
    l
}
pub fn shift_slice_err(e: &SliceError, k: usize) -> SliceError {
    match e {
        SliceError::Len(l) => SliceError::Len(shift_len(l, k)),
        o => o.clone(),
    }
}

// ---- stop errors ---------------------------------------------------------------
pub fn stop(s: &Option<(SliceError, Layer)>, k: usize) -> String {
    match s {
        None => "none".to_string(),
        Some((e, l)) => format!("({})@{}", slice_err(&shift_slice_err(e, k)), layer_tag(*l)),
    }
}

// ---- lax slicing ------------------------------------------------------------------
pub fn lax_ether_payload(base: &[u8], e: &LaxEtherPayloadSlice) -> String {
    format!(
        "{},{},{},{}",
        b01(e.incomplete),
        e.ether_type.0,
        src_tag(e.len_source),
        off(base, e.payload)
    )
}
pub fn lax_ip_payload(base: &[u8], p: &LaxIpPayloadSlice) -> String {
    format!(
        "pl({},{},{},{},{})",
        b01(p.incomplete),
        p.ip_number.0,
        b01(p.fragmented),
        src_tag(p.len_source),
        off(base, p.payload)
    )
}
pub fn lax_link_ext(base: &[u8], x: &LaxLinkExtSlice) -> String {
    match x {
        LaxLinkExtSlice::Vlan(v) => format!("vlan({})", off(base, v.slice())),
        LaxLinkExtSlice::Macsec(m) => match &m.payload {
            LaxMacsecPayloadSlice::Unmodified(e) => format!(
                "macsec({},un({}))",
                off(base, m.header.slice()),
                lax_ether_payload(base, e)
            ),
            LaxMacsecPayloadSlice::Modified { incomplete, payload } => format!(
                "macsec({},mod({},{}))",
                off(base, m.header.slice()),
                b01(*incomplete),
                off(base, payload)
            ),
        },
    }
}
pub fn x6_fields(base: &[u8], x: &Ipv6ExtensionsSlice) -> String {
    format!(
        "{},{},{}",
        match x.first_header() {
            Some(f) => format!("{}", f.0),
            None => "-".to_string(),
        },
        b01(x.is_fragmenting_payload()),
        off(base, x.slice())
    )
}
pub fn lax_net(base: &[u8], n: &Option<LaxNetSlice>) -> String {
    match n {
        None => "none".to_string(),
        Some(LaxNetSlice::Ipv4(v)) => format!(
            "v4({},{},{})",
            off(base, v.header().slice()),
            match v.extensions().auth {
                Some(a) => off(base, a.slice()),
                None => "-".to_string(),
            },
            lax_ip_payload(base, v.payload())
        ),
        Some(LaxNetSlice::Ipv6(v)) => format!(
            "v6({},{},{})",
            off(base, v.header().slice()),
            x6_fields(base, v.extensions()),
            lax_ip_payload(base, v.payload())
        ),
        Some(LaxNetSlice::Arp(a)) => format!("arp({})", off(base, a.slice())),
    }
}
/// `k`: bytes in front of the buffer this packet was sliced from (added to the
/// stop error's offset)
pub fn lax_sliced(base: &[u8], p: &LaxSlicedPacket, k: usize) -> String {
    let exts: Vec<String> = p.link_exts.iter().map(|x| lax_link_ext(base, x)).collect();
    format!(
        "ok link={} exts=[{}] net={} tr={} stop={}",
        link(base, &p.link),
        exts.join(";"),
        lax_net(base, &p.net),
        transport(base, &p.transport),
        stop(&p.stop_err, k)
    )
}

/// protocol type of a Linux SLL header: variant tag and its u16
pub fn sll_ptype(p: LinuxSllProtocolType) -> String {
    let tag = match p {
        LinuxSllProtocolType::Ignored(_) => "ign",
        LinuxSllProtocolType::NetlinkProtocolType(_) => "netlink",
        LinuxSllProtocolType::GenericRoutingEncapsulationProtocolType(_) => "gre",
        LinuxSllProtocolType::EtherType(_) => "et",
        LinuxSllProtocolType::LinuxNonstandardEtherType(_) => "nonstd",
    };
    format!("{}:{}", tag, u16::from(p))
}
pub fn sll_slice_err(e: &err::linux_sll::HeaderSliceError) -> String {
    match e {
        err::linux_sll::HeaderSliceError::Len(l) => len_err(l),
        err::linux_sll::HeaderSliceError::Content(c) => sll_err(c),
    }
}

// ---- header-struct families ----------------------------------------------------
pub fn lax_payload(base: &[u8], p: &LaxPayloadSlice) -> String {
    match p {
        LaxPayloadSlice::Empty => "empty".to_string(),
        LaxPayloadSlice::Ether(e) => format!(
            "ether({},{},{},{})",
            b01(e.incomplete),
            e.ether_type.0,
            src_tag(e.len_source),
            off(base, e.payload)
        ),
        LaxPayloadSlice::MacsecModified { payload, incomplete } => {
            format!("macsecmod({},{})", b01(*incomplete), off(base, payload))
        }
        LaxPayloadSlice::Ip(i) => lax_ip_payload(base, i),
        LaxPayloadSlice::Udp { payload, incomplete } => format!("udp({},{})", b01(*incomplete), off(base, payload)),
        LaxPayloadSlice::Tcp { payload, incomplete } => format!("tcp({},{})", b01(*incomplete), off(base, payload)),
        LaxPayloadSlice::Icmpv4 { payload, incomplete } => format!("icmp4({},{})", b01(*incomplete), off(base, payload)),
        LaxPayloadSlice::Icmpv6 { payload, incomplete } => format!("icmp6({},{})", b01(*incomplete), off(base, payload)),
        LaxPayloadSlice::LinuxSll(l) => format!("sll({},{})", sll_ptype(l.protocol_type), off(base, l.payload)),
    }
}
pub fn strict_payload(base: &[u8], p: &PayloadSlice) -> String {
    match p {
        PayloadSlice::Empty => "empty".to_string(),
        PayloadSlice::Ether(e) => format!("ether({},{},{})", e.ether_type.0, src_tag(e.len_source), off(base, e.payload)),
        PayloadSlice::MacsecMod(s) => format!("macsecmod({})", off(base, s)),
        PayloadSlice::Ip(i) => vh::parsefmt::ip_payload(base, i),
        PayloadSlice::Udp(s) => format!("udp({})", off(base, s)),
        PayloadSlice::Tcp(s) => format!("tcp({})", off(base, s)),
        PayloadSlice::Icmpv4(s) => format!("icmp4({})", off(base, s)),
        PayloadSlice::Icmpv6(s) => format!("icmp6({})", off(base, s)),
    }
}
pub fn headers(base: &[u8], h: &PacketHeaders) -> String {
    format!(
        "ok layers={}{}{}{} pay={}",
        b01(h.link.is_some()),
        h.link_exts.len(),
        b01(h.net.is_some()),
        b01(h.transport.is_some()),
        strict_payload(base, &h.payload)
    )
}
pub fn lax_headers(base: &[u8], h: &LaxPacketHeaders, k: usize) -> String {
    format!(
        "ok layers={}{}{}{} pay={} stop={}",
        b01(h.link.is_some()),
        h.link_exts.len(),
        b01(h.net.is_some()),
        b01(h.transport.is_some()),
        lax_payload(base, &h.payload),
        stop(&h.stop_err, k)
    )
}

// ---- the IP boundary record ------------------------------------------------------
pub fn ip_payload(base: &[u8], p: &IpPayloadSlice) -> String {
    vh::parsefmt::ip_payload(base, p)
}
pub fn stop_exts(s: &Option<(err::ipv6_exts::HeaderSliceError, Layer)>) -> String {
    match s {
        None => "none".to_string(),
        Some((e, l)) => format!("({})@{}", ipv6_exts_slice_err(e), layer_tag(*l)),
    }
}
pub fn stop_ip_exts(s: &Option<(err::ip_exts::HeadersSliceError, Layer)>) -> String {
    match s {
        None => "none".to_string(),
        Some((e, l)) => format!("({})@{}", ip_exts_slice_err(e), layer_tag(*l)),
    }
}
/// an ip_auth::HeaderSliceError handed back without a layer: printed with the
/// layer the dispatching siblings attach (IpAuthHeader)
pub fn stop_auth(s: &Option<err::ip_auth::HeaderSliceError>) -> String {
    match s {
        None => "none".to_string(),
        Some(e) => format!("({})@IpAuthHeader", auth_slice_err(e)),
    }
}
