//! Canonical rendering of whole-packet slicing results and errors.  Only
//! integers, small tags and `off+len` windows relative to the input buffer are
//! printed; the same format is produced by ocaml/run_c03.ml for model and spec.
use crate::off;
use etherparse::err::packet::SliceError;
use etherparse::err::{Layer, LenError};
use etherparse::*;

pub fn src_tag(s: LenSource) -> &'static str {
    match s {
        LenSource::Slice => "slice",
        LenSource::MacsecShortLength => "macsecsl",
        LenSource::Ipv4HeaderTotalLen => "ip4tl",
        LenSource::Ipv6HeaderPayloadLen => "ip6pl",
        LenSource::UdpHeaderLen => "udplen",
        LenSource::TcpHeaderLen => "tcphl",
        LenSource::ArpAddrLengths => "arplen",
    }
}

pub fn layer_tag(l: Layer) -> &'static str {
    match l {
        Layer::LinuxSllHeader => "LinuxSllHeader",
        Layer::Ethernet2Header => "Ethernet2Header",
        Layer::EtherPayload => "EtherPayload",
        Layer::VlanHeader => "VlanHeader",
        Layer::MacsecHeader => "MacsecHeader",
        Layer::MacsecPacket => "MacsecPacket",
        Layer::IpHeader => "IpHeader",
        Layer::Ipv4Header => "Ipv4Header",
        Layer::Ipv4Packet => "Ipv4Packet",
        Layer::IpAuthHeader => "IpAuthHeader",
        Layer::Ipv6Header => "Ipv6Header",
        Layer::Ipv6Packet => "Ipv6Packet",
        Layer::Ipv6ExtHeader => "Ipv6ExtHeader",
        Layer::Ipv6HopByHopHeader => "Ipv6HopByHopHeader",
        Layer::Ipv6DestOptionsHeader => "Ipv6DestOptionsHeader",
        Layer::Ipv6RouteHeader => "Ipv6RouteHeader",
        Layer::Ipv6FragHeader => "Ipv6FragHeader",
        Layer::UdpHeader => "UdpHeader",
        Layer::UdpPayload => "UdpPayload",
        Layer::TcpHeader => "TcpHeader",
        Layer::Icmpv4 => "Icmpv4",
        Layer::Icmpv4Timestamp => "Icmpv4Timestamp",
        Layer::Icmpv4TimestampReply => "Icmpv4TimestampReply",
        Layer::Icmpv6 => "Icmpv6",
        Layer::Igmp => "Igmp",
        Layer::Arp => "Arp",
    }
}

pub fn len_err(e: &LenError) -> String {
    format!(
        "len {},{},{},{},{}",
        e.required_len,
        e.len,
        src_tag(e.len_source),
        layer_tag(e.layer),
        e.layer_start_offset
    )
}

pub fn slice_err(e: &SliceError) -> String {
    use SliceError::*;
    match e {
        Len(l) => len_err(l),
        LinuxSll(h) => match h {
            err::linux_sll::HeaderError::UnsupportedPacketTypeField { packet_type } => {
                format!("content LinuxSllPacketType {}", packet_type)
            }
            err::linux_sll::HeaderError::UnsupportedArpHardwareId { arp_hardware_type } => {
                format!("content LinuxSllArpHardwareId {}", arp_hardware_type.0)
            }
        },
        Macsec(h) => match h {
            err::macsec::HeaderError::UnexpectedVersion => "content MacsecVersion -".to_string(),
            err::macsec::HeaderError::InvalidUnmodifiedShortLen => {
                "content MacsecUnmodifiedShortLen -".to_string()
            }
        },
        Ip(h) => match h {
            err::ip::HeaderError::UnsupportedIpVersion { version_number } => {
                format!("content IpUnsupportedVersion {}", version_number)
            }
            err::ip::HeaderError::Ipv4HeaderLengthSmallerThanHeader { ihl } => {
                format!("content IpIhl {}", ihl)
            }
        },
        Ipv4(h) => match h {
            err::ipv4::HeaderError::UnexpectedVersion { version_number } => {
                format!("content Ipv4Version {}", version_number)
            }
            err::ipv4::HeaderError::HeaderLengthSmallerThanHeader { ihl } => {
                format!("content Ipv4Ihl {}", ihl)
            }
        },
        Ipv6(h) => match h {
            err::ipv6::HeaderError::UnexpectedVersion { version_number } => {
                format!("content Ipv6Version {}", version_number)
            }
        },
        Ipv4Exts(h) => match h {
            err::ip_auth::HeaderError::ZeroPayloadLen => "content AuthZeroPayloadLen -".to_string(),
        },
        Ipv6Exts(h) => match h {
            err::ipv6_exts::HeaderError::HopByHopNotAtStart => {
                "content HopByHopNotAtStart -".to_string()
            }
            err::ipv6_exts::HeaderError::IpAuth(_) => "content Ipv6AuthZeroPayloadLen -".to_string(),
        },
        Tcp(h) => match h {
            err::tcp::HeaderError::DataOffsetTooSmall { data_offset } => {
                format!("content TcpDataOffset {}", data_offset)
            }
        },
    }
}

pub fn ether_payload(base: &[u8], e: &EtherPayloadSlice) -> String {
    format!("{},{},{}", e.ether_type.0, src_tag(e.len_source), off(base, e.payload))
}

pub fn ip_payload(base: &[u8], p: &IpPayloadSlice) -> String {
    format!(
        "pl({},{},{},{})",
        p.ip_number.0,
        if p.fragmented { 1 } else { 0 },
        src_tag(p.len_source),
        off(base, p.payload)
    )
}

pub fn link(base: &[u8], l: &Option<LinkSlice>) -> String {
    match l {
        None => "none".to_string(),
        Some(LinkSlice::Ethernet2(s)) => format!("eth({})", off(base, s.slice())),
        Some(LinkSlice::LinuxSll(s)) => {
            format!("sll({},{})", off(base, s.header_slice()), off(base, s.slice()))
        }
        Some(LinkSlice::EtherPayload(e)) => format!("etp({})", ether_payload(base, e)),
        Some(LinkSlice::LinuxSllPayload(_)) => "sllpayload".to_string(),
    }
}

pub fn link_ext(base: &[u8], x: &LinkExtSlice) -> String {
    match x {
        LinkExtSlice::Vlan(v) => format!("vlan({})", off(base, v.slice())),
        LinkExtSlice::Macsec(m) => match &m.payload {
            MacsecPayloadSlice::Unmodified(e) => format!(
                "macsec({},un({}))",
                off(base, m.header.slice()),
                ether_payload(base, e)
            ),
            MacsecPayloadSlice::Modified(p) => {
                format!("macsec({},mod({}))", off(base, m.header.slice()), off(base, p))
            }
        },
    }
}

pub fn net(base: &[u8], n: &Option<NetSlice>) -> String {
    match n {
        None => "none".to_string(),
        Some(NetSlice::Ipv4(v)) => format!(
            "v4({},{},{})",
            off(base, v.header().slice()),
            match v.extensions().auth {
                Some(a) => off(base, a.slice()),
                None => "-".to_string(),
            },
            ip_payload(base, v.payload())
        ),
        Some(NetSlice::Ipv6(v)) => format!(
            "v6({},{},{},{},{})",
            off(base, v.header().slice()),
            match v.extensions().first_header() {
                Some(f) => format!("{}", f.0),
                None => "-".to_string(),
            },
            if v.extensions().is_fragmenting_payload() { 1 } else { 0 },
            off(base, v.extensions().slice()),
            ip_payload(base, v.payload())
        ),
        Some(NetSlice::Arp(a)) => format!("arp({})", off(base, a.slice())),
    }
}

pub fn transport(base: &[u8], t: &Option<TransportSlice>) -> String {
    match t {
        None => "none".to_string(),
        Some(TransportSlice::Udp(u)) => format!("udp({})", off(base, u.slice())),
        Some(TransportSlice::Tcp(t)) => {
            format!("tcp({},{})", t.header_slice().len(), off(base, t.slice()))
        }
        Some(TransportSlice::Icmpv4(i)) => format!("icmp4({})", off(base, i.slice())),
        Some(TransportSlice::Icmpv6(i)) => format!("icmp6({})", off(base, i.slice())),
    }
}

pub fn sliced(base: &[u8], r: &Result<SlicedPacket, SliceError>) -> String {
    match r {
        Ok(p) => {
            let exts: Vec<String> = p.link_exts.iter().map(|x| link_ext(base, x)).collect();
            format!(
                "ok link={} exts=[{}] net={} tr={}",
                link(base, &p.link),
                exts.join(";"),
                net(base, &p.net),
                transport(base, &p.transport)
            )
        }
        Err(e) => format!("err {}", slice_err(e)),
    }
}
