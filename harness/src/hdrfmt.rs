//! C04: canonical rendering of decoded header structs (PacketHeaders and the
//! `to_header()` conversion of a SlicedPacket).  Header structs carry no
//! position, so a header is printed as its kind and its serialized length; the
//! payload is printed with its kind, the numbers that identify its content and
//! its window `off+len` in the input.  The same format is produced by
//! ocaml/run_c04.ml for the models.
use etherparse::*;
use vh::off;
use vh::parsefmt::src_tag;

/// what both families are reduced to before they are compared
pub struct Hdrs<'a> {
    pub link: Option<LinkHeader>,
    pub exts: Vec<LinkExtHeader>,
    pub net: Option<NetHeaders>,
    pub transport: Option<TransportHeader>,
    pub payload: PayloadSlice<'a>,
    /// IPv6 only, slicing side only: (first extension number, fragmentation flag,
    /// length of the extension area) as the SLICE reports them.  `to_header()` of an
    /// IPv6 slice re-decodes the extension bytes with the struct decoder and so
    /// stops at a repeated kind; the rendering shows what the slice covers, the
    /// `hdrs=` comparison uses the converted struct values.
    pub v6: Option<(Option<u8>, bool, usize)>,
}

pub fn of_packet_headers<'a>(h: &PacketHeaders<'a>) -> Hdrs<'a> {
    Hdrs {
        link: h.link.clone(),
        exts: h.link_exts.iter().cloned().collect(),
        net: h.net.clone(),
        transport: h.transport.clone(),
        payload: h.payload.clone(),
        v6: None,
    }
}

/// `to_header()` of every slice plus the innermost payload
pub fn of_sliced<'a>(s: &SlicedPacket<'a>) -> Hdrs<'a> {
    let link = match &s.link {
        Some(l) => l.to_header(),
        None => None,
    };
    let exts: Vec<LinkExtHeader> = s.link_exts.iter().map(|x| x.to_header()).collect();
    let net = match &s.net {
        None => None,
        Some(NetSlice::Ipv4(v)) => Some(NetHeaders::Ipv4(
            v.header().to_header(),
            v.extensions().to_header(),
        )),
        Some(NetSlice::Ipv6(v)) => match IpSlice::Ipv6(v.clone()).to_header() {
            IpHeaders::Ipv6(h, x) => Some(NetHeaders::Ipv6(h, x)),
            IpHeaders::Ipv4(h, x) => Some(NetHeaders::Ipv4(h, x)),
        },
        Some(NetSlice::Arp(a)) => Some(NetHeaders::Arp(a.to_packet())),
    };
    let transport = match &s.transport {
        None => None,
        Some(TransportSlice::Udp(u)) => Some(TransportHeader::Udp(u.to_header())),
        Some(TransportSlice::Tcp(t)) => Some(TransportHeader::Tcp(t.to_header())),
        Some(TransportSlice::Icmpv4(i)) => Some(TransportHeader::Icmpv4(i.header())),
        Some(TransportSlice::Icmpv6(i)) => Some(TransportHeader::Icmpv6(i.header())),
    };
    let payload = innermost(s);
    let v6 = match &s.net {
        Some(NetSlice::Ipv6(v)) => Some((
            v.extensions().first_header().map(|f| f.0),
            v.extensions().is_fragmenting_payload(),
            v.extensions().slice().len(),
        )),
        _ => None,
    };
    Hdrs { link, exts, net, transport, payload, v6 }
}

pub fn innermost<'a>(s: &SlicedPacket<'a>) -> PayloadSlice<'a> {
    if let Some(t) = &s.transport {
        return match t {
            TransportSlice::Udp(u) => PayloadSlice::Udp(u.payload()),
            TransportSlice::Tcp(t) => PayloadSlice::Tcp(t.payload()),
            TransportSlice::Icmpv4(i) => PayloadSlice::Icmpv4(i.payload()),
            TransportSlice::Icmpv6(i) => PayloadSlice::Icmpv6(i.payload()),
        };
    }
    if let Some(n) = &s.net {
        return match n {
            NetSlice::Ipv4(v) => PayloadSlice::Ip(v.payload().clone()),
            NetSlice::Ipv6(v) => PayloadSlice::Ip(v.payload().clone()),
            NetSlice::Arp(_) => PayloadSlice::Empty,
        };
    }
    if let Some(LinkExtSlice::Macsec(m)) = s.link_exts.last() {
        if let MacsecPayloadSlice::Modified(p) = &m.payload {
            return PayloadSlice::MacsecMod(p);
        }
    }
    match s.ether_payload() {
        Some(e) => PayloadSlice::Ether(e),
        None => PayloadSlice::Empty,
    }
}

pub fn payload(base: &[u8], p: &PayloadSlice) -> String {
    match p {
        PayloadSlice::Empty => "empty".to_string(),
        PayloadSlice::Ether(e) => format!(
            "ether({},{},{})",
            e.ether_type.0,
            src_tag(e.len_source),
            off(base, e.payload)
        ),
        PayloadSlice::MacsecMod(s) => format!("macsecmod({})", off(base, s)),
        PayloadSlice::Ip(p) => format!(
            "ip({},{},{},{})",
            p.ip_number.0,
            if p.fragmented { 1 } else { 0 },
            src_tag(p.len_source),
            off(base, p.payload)
        ),
        PayloadSlice::Udp(s) => format!("udp({})", off(base, s)),
        PayloadSlice::Tcp(s) => format!("tcp({})", off(base, s)),
        PayloadSlice::Icmpv4(s) => format!("icmp4({})", off(base, s)),
        PayloadSlice::Icmpv6(s) => format!("icmp6({})", off(base, s)),
    }
}

pub fn render(base: &[u8], h: &Hdrs) -> String {
    let link = match &h.link {
        None => "none".to_string(),
        Some(LinkHeader::Ethernet2(_)) => format!("eth({})", Ethernet2Header::LEN),
        Some(LinkHeader::LinuxSll(_)) => format!("sll({})", LinuxSllHeader::LEN),
    };
    let exts: Vec<String> = h
        .exts
        .iter()
        .map(|x| match x {
            LinkExtHeader::Vlan(_) => format!("vlan({})", SingleVlanHeader::LEN),
            LinkExtHeader::Macsec(m) => format!("macsec({})", m.header_len()),
        })
        .collect();
    let net = match &h.net {
        None => "none".to_string(),
        Some(NetHeaders::Ipv4(hd, x)) => format!(
            "v4({},{})",
            hd.header_len(),
            match &x.auth {
                Some(a) => format!("{}", a.header_len()),
                None => "-".to_string(),
            }
        ),
        Some(NetHeaders::Ipv6(hd, x)) => {
            let (first, frag, xlen) = match &h.v6 {
                Some(t) => t.clone(),
                None => (
                    if x.is_empty() { None } else { Some(hd.next_header.0) },
                    x.is_fragmenting_payload(),
                    x.header_len(),
                ),
            };
            format!(
                "v6({},{},{},{})",
                Ipv6Header::LEN,
                match first {
                    Some(f) => format!("{}", f),
                    None => "-".to_string(),
                },
                if frag { 1 } else { 0 },
                xlen
            )
        }
        Some(NetHeaders::Arp(a)) => format!("arp({})", a.packet_len()),
    };
    let tr = match &h.transport {
        None => "none".to_string(),
        Some(TransportHeader::Udp(_)) => format!("udp({})", UdpHeader::LEN),
        Some(TransportHeader::Tcp(t)) => format!("tcp({})", t.header_len()),
        Some(TransportHeader::Icmpv4(i)) => format!("icmp4({})", i.header_len()),
        Some(TransportHeader::Icmpv6(i)) => format!("icmp6({})", i.header_len()),
    };
    format!(
        "ok link={} exts=[{}] net={} tr={} pl={}",
        link,
        exts.join(";"),
        net,
        tr,
        payload(base, &h.payload)
    )
}

/// field-by-field equality of the decoded header values of the two families
/// (Rust `==` on the structs): "eq" or "diff(<first layer that differs>)"
pub fn compare(a: &Hdrs, b: &Hdrs) -> String {
    if a.link != b.link {
        return "diff(link)".to_string();
    }
    if a.exts.len() != b.exts.len() {
        return "diff(exts.len)".to_string();
    }
    for (i, (x, y)) in a.exts.iter().zip(b.exts.iter()).enumerate() {
        if x != y {
            return format!("diff(ext{})", i);
        }
    }
    if a.net != b.net {
        return "diff(net)".to_string();
    }
    if a.transport != b.transport {
        return "diff(transport)".to_string();
    }
    "eq".to_string()
}
