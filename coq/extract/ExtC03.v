(* Extraction of the strict slicing model and the wire specification. *)
From EP Require Import Base.Bytes Parse.Types Parse.Slices Parse.Cursor Parse.View Parse.WireSpec.
From Coq Require Import Extraction ExtrOcamlBasic.
Extraction Language OCaml.
Extraction "m_c03.ml"
  N.add N.mul N.of_nat
  SlicedPacket.from_ethernet SlicedPacket.from_linux_sll SlicedPacket.from_ether_type
  SlicedPacket.from_ip vres_of
  wire_ethernet wire_linux_sll wire_ether_type wire_from_ip.
