(* Extraction of the C08 models and layouts to OCaml (ExtrOcamlBasic only). *)
From EP Require Import Base.Bytes Roundtrip.Common Roundtrip.Spec.
From EP Require Roundtrip.Tcp Roundtrip.Ipv4 Roundtrip.Frag Checksum.Model.
From Coq Require Import Extraction ExtrOcamlBasic.
Extraction Language OCaml.
Extraction "m_c08.ml"
  N.add N.mul N.of_nat len masked ones zeros
  Tcp.to_bytes Tcp.write Tcp.header_len Tcp.from_slice Tcp.read Tcp.opt_try_from_slice
  Tcp.tcp_eqb Tcp.keep_mask Tcp.opt_as_slice
  Ipv4.ip4_to_bytes Ipv4.ip4_write_raw Ipv4.ip4_write Ipv4.ip4_header_len Ipv4.ip4_from_slice Ipv4.ip4_read
  Ipv4.i4o_try_from Ipv4.ip4_eqb Ipv4.ip4_keep_mask Ipv4.i4o_as_slice Ipv4.wf_ip4
  Frag.frag_to_bytes Frag.frag_write Frag.frag_header_len Frag.frag_from_slice Frag.frag_read
  Frag.wf_frag Frag.frag_keep_mask
  tcp_layout ipv4_layout frag_layout.
