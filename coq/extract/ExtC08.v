(* Extraction of the C08 models and layouts to OCaml (ExtrOcamlBasic only). *)
From EP Require Import Base.Bytes Roundtrip.Common Roundtrip.Spec.
From EP Require Roundtrip.Tcp Roundtrip.Ipv4 Roundtrip.Frag Checksum.Model.
(* ---- link/net types (extend-c08a) ---- *)
From EP Require Roundtrip.SpecLinkNet Roundtrip.Macsec Roundtrip.Auth Roundtrip.RawExt Roundtrip.Ipv6.
From EP Require Roundtrip.Eth Roundtrip.Vlan Roundtrip.Sll Roundtrip.Arp Roundtrip.Exts4 Roundtrip.Exts4Proofs.
(* ---- end extend-c08a ---- *)
(* ---- transport/control types (extend-c08b) ---- *)
From EP Require Roundtrip.Udp Roundtrip.Icmp4 Roundtrip.Icmp6 Roundtrip.Igmp Roundtrip.Grec Roundtrip.Prefix.
(* ---- end extend-c08b ---- *)
(* ---- IpHeaders (extend-c08c) ---- *)
From EP Require Roundtrip.IpHeaders.
(* ---- end extend-c08c ---- *)
From Coq Require Import Extraction ExtrOcamlBasic.
Extraction Language OCaml.
Extraction "m_c08.ml"
  N.add N.mul N.of_nat len masked ones zeros
  Tcp.to_bytes Tcp.write Tcp.header_len Tcp.from_slice Tcp.read Tcp.opt_try_from_slice
  Tcp.tcp_eqb Tcp.keep_mask Tcp.opt_as_slice
  Ipv4.ip4_to_bytes Ipv4.ip4_write_raw Ipv4.ip4_write Ipv4.ip4_header_len Ipv4.ip4_from_slice Ipv4.ip4_read
  Ipv4.i4o_try_from Ipv4.ip4_eqb Ipv4.ip4_keep_mask Ipv4.i4o_as_slice Ipv4.wf_ip4
  Frag.frag_to_bytes Frag.frag_write Frag.frag_header_len Frag.frag_from_slice Frag.frag_read
  Frag.wf_frag Frag.frag_keep_mask
  (* ---- link/net types (extend-c08a) ---- *)
  Macsec.mac_to_bytes Macsec.mac_write Macsec.mac_header_len Macsec.mac_from_slice Macsec.mac_read
  Macsec.wf_mac Macsec.mac_in_range Macsec.mac_keep_mask Macsec.mac_encrypted Macsec.mac_userdata_changed
  Macsec.mac_sci_some
  Auth.ah_new Auth.ah_set_raw_icv Auth.ah_raw_icv Auth.ah_to_bytes Auth.ah_write Auth.ah_header_len
  Auth.ah_from_slice Auth.ah_read Auth.ah_eqb Auth.ah_keep_mask Auth.wf_ah
  RawExt.rx_new_raw RawExt.rx_set_payload RawExt.rx_payload RawExt.rx_to_bytes RawExt.rx_write
  RawExt.rx_header_len RawExt.rx_from_slice RawExt.rx_read RawExt.rx_eqb RawExt.wf_rx
  Ipv6.ip6_to_bytes Ipv6.ip6_write Ipv6.ip6_header_len Ipv6.ip6_from_slice Ipv6.ip6_read Ipv6.wf_ip6
  Eth.eth_to_bytes Eth.eth_write Eth.eth_write_to_slice Eth.eth_header_len Eth.eth_from_slice Eth.eth_from_bytes
  Eth.eth_read Eth.wf_eth
  Vlan.vl_to_bytes Vlan.vl_write Vlan.vl_header_len Vlan.vl_from_slice Vlan.vl_from_bytes Vlan.vl_read Vlan.wf_vl
  Sll.sll_to_bytes Sll.sll_write Sll.sll_write_to_slice Sll.sll_header_len Sll.sll_from_slice Sll.sll_from_bytes
  Sll.sll_read Sll.wf_sll Sll.sll_in_range Sll.sll_protocol_u16 Sll.sll_nonstd_try_from
  Arp.arp_new Arp.arp_set_hw_addrs Arp.arp_set_protocol_addrs Arp.arp_sender_hw_addr Arp.arp_sender_protocol_addr
  Arp.arp_target_hw_addr Arp.arp_target_protocol_addr Arp.arp_to_bytes Arp.arp_write Arp.arp_packet_len
  Arp.arp_from_slice Arp.arp_read Arp.arp_eqb Arp.wf_arp Arp.ae_to_bytes Arp.ae_to_arp_packet Arp.arp_try_eth_ipv4
  Arp.wf_ae
  Exts4.x4_write Exts4.x4_header_len Exts4.x4_from_slice Exts4.x4_read Exts4.x4_eqb Exts4.wf_x4 Exts4.x4_linked
  Exts4.x4_final Exts4Proofs.x4_keep_mask
  SpecLinkNet.macsec_layout SpecLinkNet.ah_layout SpecLinkNet.rawext_layout SpecLinkNet.ipv6_layout
  SpecLinkNet.eth_layout SpecLinkNet.vlan_layout SpecLinkNet.sll_layout SpecLinkNet.arp_layout
  (* ---- end extend-c08a ---- *)
  (* ---- transport/control types (extend-c08b) ---- *)
  Udp.udp_to_bytes Udp.udp_write Udp.udp_header_len Udp.udp_from_slice Udp.udp_read Udp.wf_udp
  Udp.udp_keep_mask Udp.udp_layout
  Icmp4.icmp4_to_bytes Icmp4.icmp4_write Icmp4.icmp4_header_len Icmp4.icmp4_from_slice Icmp4.icmp4_read
  Icmp4.wf_icmp4 Icmp4.icmp4_keep_mask
  Icmp6.icmp6_to_bytes Icmp6.icmp6_write Icmp6.icmp6_header_len Icmp6.icmp6_from_slice Icmp6.icmp6_read
  Icmp6.wf_icmp6 Icmp6.icmp6_keep_mask
  Igmp.igmp_to_bytes Igmp.igmp_header_len Igmp.igmp_from_slice Igmp.wf_igmp Igmp.igmp_keep_mask
  Grec.grec_to_bytes Grec.grec_len Grec.grec_from_slice Grec.wf_grec Grec.grec_keep_mask
  Prefix.pi_to_bytes Prefix.pi_len Prefix.pi_from_slice Prefix.pi_from_bytes Prefix.wf_pi Prefix.pi_keep_mask
  Prefix.pi_layout
  (* ---- end extend-c08b ---- *)
  (* ---- IpHeaders (extend-c08c): only additions behind everything else, so that the names the
     monolithic extraction gives to the earlier items do not change ---- *)
  IpHeaders.iph_from_slice IpHeaders.iph_from_ipv4_slice IpHeaders.iph_from_ipv6_slice IpHeaders.iph_read
  IpHeaders.iph_write_code IpHeaders.iph_header_len IpHeaders.iph_next_header_code IpHeaders.iph_set_next_headers
  IpHeaders.iph_set_payload_len IpHeaders.iph_wf IpHeaders.iph_is_fragmenting_payload IpHeaders.iph_written
  IpHeaders.iph_checksum_ok IpHeaders.iph_announced IpHeaders.ls_code
  ExtChain.Model.exts6_valid ExtChain.Model.exts6_default
  (* ---- end extend-c08c ---- *)
  tcp_layout ipv4_layout frag_layout.
