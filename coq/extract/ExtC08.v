(* Extraction of the C08 models and layouts to OCaml (ExtrOcamlBasic only). *)
From EP Require Import Base.Bytes Roundtrip.Common Roundtrip.Spec.
From EP Require Roundtrip.Tcp.
From Coq Require Import Extraction ExtrOcamlBasic.
Extraction Language OCaml.
Extraction "m_c08.ml"
  N.add N.mul N.of_nat len masked ones zeros
  Tcp.to_bytes Tcp.write Tcp.header_len Tcp.from_slice Tcp.read Tcp.opt_try_from_slice
  Tcp.tcp_eqb Tcp.keep_mask Tcp.opt_as_slice
  tcp_layout.
