(* Extraction of the C17 model and specification to OCaml.
   ExtrOcamlBasic only: bool, option, list, prod, unit map to OCaml's;
   N / positive / nat stay the extracted inductive types. *)
From EP Require Import Base.Bytes CtlMsg.Spec CtlMsg.Model.
(* ---- audit1-c17 ---- *)
From EP Require Import CtlMsg.NdpOptCtors.
(* ---- end audit1-c17 ---- *)
From Coq Require Import Extraction ExtrOcamlBasic.
Extraction Language OCaml.
Extraction "m_c17.ml"
  N.add N.of_nat len
  Icmpv4Slice.view icmp4
  Icmpv6Slice.view icmp6
  Icmpv6PayloadSlice.payload_slice_view Icmpv6PayloadSlice.payload_slice_view_by_type icmp6_payload
  Ndp.next Ndp.collect parse_opts Ndp.opt_accessors opt_view
  Igmp.view igmp Igmp.group_record_from_slice group_record
  Igmp.as_10th_secs Igmp.flags Igmp.s_flag Igmp.qrv
  max_resp_time query_flags query_s_flag query_qrv
  Arp.slice_view arp_view Arp.eth_ipv4_view arp_eth_ipv4
  (* ---- audit1-c17 ---- *) typed_ctor typed_ctor_spec (* ---- end audit1-c17 ---- *).
