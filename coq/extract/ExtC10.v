(* Extraction of the C10 model (Builder/Model.v), its layout specification
   (Builder/Spec.v, expected_x / upto_net / chain_ok of Builder/SpecX.v), the wire reference
   decoder of C03 and -- for the value theorems of the typed ICMP kinds -- the C08 decoder
   models Icmpv4Header / Icmpv6Header ::from_slice to OCaml.
   ExtrOcamlBasic only; N / positive / nat stay the extracted inductive types. *)
From EP Require Import Base.Bytes Checksum.Spec Checksum.Model Parse.Types Parse.View Parse.WireSpec
  Builder.Model Builder.Spec Builder.SpecX.
From EP Require CtlMsg.Spec Roundtrip.Common Roundtrip.Icmp4 Roundtrip.Icmp6.
From Coq Require Import Extraction ExtrOcamlBasic.
Extraction Language OCaml.
Extraction "m_c10.ml"
  N.add N.mul N.of_nat len drop
  build_run final_size write_to_slice
  expected parse_pre expected_x payload_admitted off_net off_transport off_payload
  chain_ok upto_net is_fragmented_x ip_len_src ts_layer icmp4_admits tr_header_len tr_ip_number
  wire_ethernet wire_linux_sll wire_from_ip wire_transport cut
  Icmp4.icmp4_from_slice Icmp4.wf_icmp4_type Icmp4.icmp4_type_header_len
  Icmp6.icmp6_from_slice Icmp6.wf_icmp6_type
  rfc1071 folds_to_ffff.
