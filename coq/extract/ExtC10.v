(* Extraction of the C10 model (Builder/Model.v), its layout specification
   (Builder/Spec.v, expected_x of Builder/SpecX.v) and the wire reference decoder of C03 to OCaml.
   ExtrOcamlBasic only; N / positive / nat stay the extracted inductive types. *)
From EP Require Import Base.Bytes Checksum.Spec Checksum.Model Parse.Types Parse.View Parse.WireSpec
  Builder.Model Builder.Spec Builder.SpecX.
From Coq Require Import Extraction ExtrOcamlBasic.
Extraction Language OCaml.
Extraction "m_c10.ml"
  N.add N.mul N.of_nat len
  build_run final_size write_to_slice
  expected parse_pre expected_x payload_admitted off_net off_transport off_payload
  wire_ethernet wire_linux_sll wire_from_ip
  rfc1071 folds_to_ffff.
