(* Extraction of the C14 model and specification to OCaml.
   ExtrOcamlBasic only: bool, option, list, prod, unit map to OCaml's;
   N / positive / nat stay the extracted inductive types. *)
From EP Require Import Base.Bytes Checksum.Spec Limits.Spec Limits.Model.
From Coq Require Import Extraction ExtrOcamlBasic.
Extraction Language OCaml.
Extraction "m_c14.ml"
  N.add N.mul N.of_nat N.eqb
  rfc1071 to_be16 to_be32
  (* specification *)
  field_max
  ipv4_opts_reprb ipv4_opts_max ipv4_opts_dec ipv4_reprb ipv4_max ipv4_dec
  iph4_reprb iph4_max iph4_dec ipv6_reprb ipv6_max iph6_reprb iph6_max iph6_dec
  udp_reprb udp_max udp_dec udp6_pseudo_reprb udp6_pseudo_max
  tcp_opts_reprb tcp_opts_max tcp_opts_dec pad4 tcp_hdr_len tcp4_reprb tcp4_max tcp6_reprb tcp6_max
  icmp6_reprb icmp6_max
  macsec_reprb macsec_max macsec_sl macsec_dec macsec_unknown
  ah_reprb ah_max ah_dec ah_bad ext_reprb ext_min ext_max ext_dec ext_bad
  arp_reprb arp_max build4_reprb build4_max build6_reprb build6_max ipv4_hdr_len
  (* model *)
  ipv4_options_try_from ipv4_set_options ipv4_ihl ipv4_header_len ipv4_new
  ipv4_set_payload_len ipv4_payload_len ipv6_set_payload_length
  ah_header_len rawext_header_len v4exts_header_len v6exts_header_len iph_set_payload_len
  udp_without_ipv4_checksum udp_with_ipv4_checksum udp_with_ipv6_checksum
  udp_calc_checksum_ipv4 udp_calc_checksum_ipv6
  tcp_options_try_from_slice tcp_options_try_from_elements tcp_data_offset
  tcp_set_options_raw tcp_set_options tcp_header_len
  tcp_calc_checksum_ipv4 tcp_calc_checksum_ipv6 tcphs_calc_checksum_ipv4 tcphs_calc_checksum_ipv6
  tcpslice_calc_checksum_ipv4 tcpslice_calc_checksum_ipv6 icmpv6_calc_checksum
  macsec_short_len_try_from_u8 macsec_short_len_from_len macsec_set_payload_len
  macsec_sl_byte macsec_expected_payload_len
  ah_new ah_set_raw_icv ah_len_byte ah_raw_icv_len_bytes
  rawext_new_raw rawext_set_payload rawext_payload_len
  arp_new arp_set_hw_addrs arp_set_protocol_addrs
  transport_header_len build_ipv4 build_ipv6 build_size.
