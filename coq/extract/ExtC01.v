(* Extraction of the strict slicing model together with the accessor model
   (Parse/Access.v): windows of every component and of every accessor result. *)
From EP Require Import Base.Bytes Parse.Types Parse.Slices Parse.Cursor Parse.Access.
From Coq Require Import Extraction ExtrOcamlBasic.
Extraction Language OCaml.
Extraction "m_c01.ml"
  N.add N.mul N.of_nat
  SlicedPacket.from_ethernet SlicedPacket.from_linux_sll SlicedPacket.from_ether_type
  SlicedPacket.from_ip SlicedPacketA.windows SlicedPacketA.accessors win_of.
