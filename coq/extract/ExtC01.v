(* Extraction of the strict slicing model together with the accessor model
   (Parse/Access.v): windows of every component and of every accessor result. *)
From EP Require Import Base.Bytes Parse.Types Parse.Slices Parse.Cursor Parse.Access
  Parse.LaxSlices Parse.LaxCursor Parse.LaxAccess Parse.PacketAccess.
From Coq Require Import Extraction ExtrOcamlBasic.
Extraction Language OCaml.
Extraction "m_c01.ml"
  N.add N.mul N.of_nat
  SlicedPacket.from_ethernet SlicedPacket.from_linux_sll SlicedPacket.from_ether_type
  SlicedPacket.from_ip SlicedPacketA.windows SlicedPacketA.accessors win_of
  (* extend-c01b: the lax whole-packet entry points and their accessor model *)
  LaxSlicedPacket.from_ethernet LaxSlicedPacket.from_ether_type LaxSlicedPacket.from_ip
  LaxSlicedPacketA.windows LaxSlicedPacketA.accessors LaxSlicedPacketA.vlan_ids
  (* round 3: the packet-level accessors of a STRICT result (Parse/PacketAccess.v) *)
  SlicedPacketPA.payload_ether_type SlicedPacketPA.ether_payload SlicedPacketPA.ip_payload
  SlicedPacketPA.is_ip_payload_fragmented SlicedPacketPA.vlan SlicedPacketPA.vlan_ids
  SlicedPacketPA.packet_accessors SlicedPacketPA.packet_windows.
