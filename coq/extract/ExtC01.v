(* Extraction of the strict slicing model together with the accessor model
   (Parse/Access.v): windows of every component and of every accessor result. *)
From EP Require Import Base.Bytes Parse.Types Parse.Slices Parse.Cursor Parse.Access
  Parse.LaxSlices Parse.LaxCursor Parse.LaxAccess.
From Coq Require Import Extraction ExtrOcamlBasic.
Extraction Language OCaml.
Extraction "m_c01.ml"
  N.add N.mul N.of_nat
  SlicedPacket.from_ethernet SlicedPacket.from_linux_sll SlicedPacket.from_ether_type
  SlicedPacket.from_ip SlicedPacketA.windows SlicedPacketA.accessors win_of
  (* extend-c01b: the lax whole-packet entry points and their accessor model *)
  LaxSlicedPacket.from_ethernet LaxSlicedPacket.from_ether_type LaxSlicedPacket.from_ip
  LaxSlicedPacketA.windows LaxSlicedPacketA.accessors LaxSlicedPacketA.vlan_ids.
