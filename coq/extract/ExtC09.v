(* Extraction of the C09 model and specification to OCaml.
   ExtrOcamlBasic only: bool, option, list, prod, unit map to OCaml's;
   N / positive / nat stay the extracted inductive types. *)
From EP Require Import Base.Bytes Checksum.Spec Checksum.Model.
From Coq Require Import Extraction ExtrOcamlBasic.
Extraction Language OCaml.
Extraction "m_c09.ml"
  N.add N.mul N.of_nat
  U64.add_slice U64.ones_complement U64.ones_complement_with_no_zero
  U32.add_slice U32.ones_complement U32.ones_complement_with_no_zero
  to_be16v sum_pieces64 sum_pieces32
  checksum64 checksum32 checksum64_no_zero checksum32_no_zero
  rfc1071 pieces_bytes.
