(* Extraction of the C09 model and specification to OCaml.
   ExtrOcamlBasic only: bool, option, list, prod, unit map to OCaml's;
   N / positive / nat stay the extracted inductive types. *)
From EP Require Import Base.Bytes Checksum.Spec Checksum.Model.
From EP Require Import Checksum.ProtoTypes Checksum.ProtoSpec Checksum.Proto.
From Coq Require Import Extraction ExtrOcamlBasic.
Extraction Language OCaml.
Extraction "m_c09.ml"
  N.add N.mul N.of_nat
  U64.add_slice U64.ones_complement U64.ones_complement_with_no_zero
  U32.add_slice U32.ones_complement U32.ones_complement_with_no_zero
  to_be16v sum_pieces64 sum_pieces32
  checksum64 checksum32 checksum64_no_zero checksum32_no_zero
  rfc1071 pieces_bytes
  (* protocol level: model functions ... *)
  ipv4_calc_header_checksum
  udp_calc_checksum_ipv4_raw udp_calc_checksum_ipv6_raw udp_with_ipv4_checksum udp_with_ipv6_checksum
  tcp_calc_checksum_ipv4_raw tcp_calc_checksum_ipv6_raw
  tcp_header_slice_from_slice tcp_hslice_calc_checksum_ipv4_raw tcp_hslice_calc_checksum_ipv6_raw
  tcp_slice_calc_checksum_ipv4 tcp_slice_calc_checksum_ipv6
  icmp4_calc_checksum icmp6_calc_checksum icmp6_is_checksum_valid igmp_calc_checksum
  update_checksum_ipv4 update_checksum_ipv6
  (* ... and the RFC side (printed next to the model value, informational: the
     oracle of the check is the independent Python computation) *)
  ipv4_header_checksum_spec udp4_spec udp6_spec tcp4_spec tcp6_spec tcp4_raw_spec tcp6_raw_spec
  icmp4_spec icmp6_spec icmp6_valid_spec igmp_spec update4_spec update6_spec.
