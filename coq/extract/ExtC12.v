(* Extraction of the C12 model (ExtChain/Model.v, ExtChain/ReadModel.v) and of the
   specification oracles (RFC 8200 order + wire formats: View.rfc_order_bytes; the
   reference walk over arbitrary bytes: WalkSpec.ref_walk with its readings
   WalkView.strict_of_walk / lax_of_walk / normalised, ReadView.read_of_walk) to OCaml.
   ExtrOcamlBasic only: bool, option, list, prod, unit map to OCaml's;
   N / positive / nat stay the extracted inductive types. *)
From EP Require Import Base.Bytes IoFault.Spec IoFault.Model ExtChain.Spec ExtChain.Model ExtChain.View
  ExtChain.WalkSpec ExtChain.WalkView ExtChain.ReadModel ExtChain.ReadView.
From Coq Require Import Extraction ExtrOcamlBasic.
Extraction Language OCaml.
Extraction "m_c12.ml"
  N.add N.mul N.of_nat len
  exts6_valid exts4_valid
  from_slice from_slice_lax write next_header header_len set_next_headers is_fragmenting_payload
  from_slice4 from_slice_lax4 write4 next_header4 header_len4 set_next_headers4
  ip_header_len ip_next_header ip_set_next_headers net_try_set_next_headers net_of_ip
  is_ext_number is_ext_number_v4 rfc_order_bytes rfc_order_bytes4
  ETHER_TYPE_IPV4 ETHER_TYPE_IPV6
  ref_walk ref_walk4 consumed strict_of_walk lax_of_walk strict4_of_walk lax4_of_walk
  struct_of_chain struct4_of_chain normalised
  read6 read4 mk_st view lr_new read_of_walk read4_of_walk
  LS_IPV4_TOTAL LS_IPV6_PAYLOAD L_IPV4H L_IPV6H L_AUTH L_IPV6EXT L_IPV6FRAG.
