(* Extraction of the C12 model (ExtChain/Model.v) and of the specification
   oracle (RFC 8200 order + wire formats: View.rfc_order_bytes) to OCaml.
   ExtrOcamlBasic only: bool, option, list, prod, unit map to OCaml's;
   N / positive / nat stay the extracted inductive types. *)
From EP Require Import Base.Bytes ExtChain.Spec ExtChain.Model ExtChain.View.
From Coq Require Import Extraction ExtrOcamlBasic.
Extraction Language OCaml.
Extraction "m_c12.ml"
  N.add N.mul N.of_nat len
  exts6_valid exts4_valid
  from_slice from_slice_lax write next_header header_len set_next_headers is_fragmenting_payload
  from_slice4 from_slice_lax4 write4 next_header4 header_len4 set_next_headers4
  ip_header_len ip_next_header ip_set_next_headers net_try_set_next_headers net_of_ip
  is_ext_number is_ext_number_v4 rfc_order_bytes rfc_order_bytes4
  ETHER_TYPE_IPV4 ETHER_TYPE_IPV6.
