(* Extraction for C06: the entry points that are compared pairwise, the
   canonicalisation (shift), and the reader / from_slice outcome functions. *)
From EP Require Import Base.Bytes Parse.Types Parse.Slices Parse.Cursor Parse.View
  Parse.HdrModel Parse.HdrView Parse.LaxSlices Parse.HdrLaxModel Equiv.Model Equiv.ModelRead
  Equiv.ModelLaxIp Equiv.HdrLaxShift Equiv.SllStart Parse.Ipv6SliceLax.
From Coq Require Import Extraction ExtrOcamlBasic.
Extraction Language OCaml.
Extraction "m_c06.ml"
  N.add N.mul N.of_nat
  SlicedPacket.from_ethernet SlicedPacket.from_ether_type SlicedPacket.from_ip vres_of
  shift_vres rd be16 drop take len
  IpSlice.from_slice Ipv4Slice.from_slice Ipv6Slice.from_slice
  LaxIpSlice.from_slice LaxIpv4Slice.from_slice LaxIpv6Slice.from_slice
  IpHeaders.from_slice IpHeaders.from_ipv4_slice IpHeaders.from_ipv6_slice
  view_ipp win_of s_len exts6_len olen mk_slice
  read_outcome slice_outcome
  (* LaxPacketHeaders family, Linux SLL start, the _lax struct copies of the IP boundary *)
  SlicedPacket.from_linux_sll
  LaxPacketHeaders.from_ethernet LaxPacketHeaders.from_ether_type LaxPacketHeaders.from_ip
  LaxPacketHeaders.from_linux_sll lh_behind sll_head
  LaxIpHeaders.from_slice_lax LaxIpHeadersSpecific.from_ipv4_slice_lax
  LaxIpHeadersSpecific.from_ipv6_slice_lax
  (* round 3 (v6lax): the 13th copy of the IP boundary, Ipv6Slice::from_slice_lax *)
  Ipv6SliceLax.from_slice_lax.
