(* Extraction of the C13 model and specification to OCaml.
   ExtrOcamlBasic only; N / positive / nat stay the extracted inductive types.
   The header level functions (TcpOpt/Header.v) sit on top of the C08 model
   Roundtrip/Tcp.v; both have a record for struct TcpOptions and a result type,
   the monolithic extraction renames the second occurrence of a clashing name
   (see the comment at the top of ocaml/run_c13.ml). *)
From EP Require Import Base.Bytes TcpOpt.Spec TcpOpt.Model TcpOpt.Header.
From EP Require Roundtrip.Common Roundtrip.Tcp.
From Coq Require Import Extraction ExtrOcamlBasic.
Extraction Language OCaml.
Extraction "m_c13.ml"
  N.add N.mul N.of_nat N.to_nat len
  next iterate next_n
  try_from_elements try_from_slice as_slice elements_iterate options_len data_offset
  required_len to_opt compact
  wire wire_list pad4 padding spec_next spec_decode
  (* header level *)
  to_c08 of_c08 set_options set_options_raw hdr_header_len hdr_data_offset
  hdr_options_area hdr_options_iterate
  hs_data_offset hs_options hs_options_iterate
  ts_from_slice ts_header_len ts_header_slice ts_payload ts_data_offset ts_options ts_options_iterate
  Tcp.to_bytes Tcp.slice_from_slice Tcp.to_header Tcp.from_slice Tcp.read Tcp.tcp_eqb Tcp.wf_tcp.
