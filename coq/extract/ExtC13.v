(* Extraction of the C13 model and specification to OCaml.
   ExtrOcamlBasic only; N / positive / nat stay the extracted inductive types. *)
From EP Require Import Base.Bytes TcpOpt.Spec TcpOpt.Model.
From Coq Require Import Extraction ExtrOcamlBasic.
Extraction Language OCaml.
Extraction "m_c13.ml"
  N.add N.mul N.of_nat N.to_nat len
  next iterate next_n
  try_from_elements try_from_slice as_slice elements_iterate options_len data_offset
  required_len to_opt compact
  wire wire_list pad4 padding spec_next spec_decode.
