(* Extraction of the struct-decoding model (PacketHeaders), the strict slicing
   model, the cut variant, the two observer views, and the lax struct-decoding
   model (LaxPacketHeaders) with its observer view. *)
From EP Require Import Base.Bytes Parse.Types Parse.Slices Parse.Cursor Parse.View
  Parse.HdrModel Parse.HdrView Parse.HdrCut Parse.LaxSlices Parse.HdrLaxModel Parse.HdrLaxView.
From Coq Require Import Extraction ExtrOcamlBasic.
Extraction Language OCaml.
Extraction "m_c04.ml"
  N.add N.mul N.of_nat
  PacketHeaders.from_ethernet_slice PacketHeaders.from_ether_type PacketHeaders.from_ip_slice
  SlicedPacket.from_ethernet SlicedPacket.from_ether_type SlicedPacket.from_ip
  Cut.from_ethernet Cut.from_ether_type Cut.from_ip
  hvres_of_h hvres_of_s stopped_at_ext vres_of
  LaxPacketHeaders.from_ethernet LaxPacketHeaders.from_ether_type LaxPacketHeaders.from_ip
  LaxPacketHeaders.from_linux_sll lhvres_of_h.
