(* Extraction of the C11 model and specification to OCaml.
   ExtrOcamlBasic only: bool, option, list, prod, unit map to OCaml's;
   N / positive / nat stay the extracted inductive types. *)
From EP Require Import Base.Bytes Defrag.Spec Defrag.Model Defrag.PoolModel.
From Coq Require Import Extraction ExtrOcamlBasic.
Extraction Language OCaml.
Extraction "m_c11.ml"
  N.add N.mul N.of_nat
  buf_new add is_complete model_step
  pool_new process return_buf retain
  spec_new spec_add spec_complete spec_payload
  spec_process spec_retain
  retain_f stats spec_retain_f.
