(* Extraction of the C11 model and specification to OCaml.
   ExtrOcamlBasic only: bool, option, list, prod, unit map to OCaml's;
   N / positive / nat stay the extracted inductive types.
   Third part (the packet step): the strict slicing model (directory Parse), `frag_key_of`,
   `pk_step` and the wire specification `wire_frag_of` of Defrag/PacketStep.v. *)
From EP Require Import Base.Bytes Defrag.Spec Defrag.Model Defrag.PoolModel.
From EP Require Import Parse.Types Parse.Slices Parse.Cursor Parse.View Parse.WireSpec
  Parse.Access Parse.Fields.
From EP Require Import Defrag.PacketStep.
From Coq Require Import Extraction ExtrOcamlBasic.
Extraction Language OCaml.
Extraction "m_c11.ml"
  N.add N.mul N.of_nat
  buf_new add is_complete model_step
  pool_new process return_buf retain
  spec_new spec_add spec_complete spec_payload
  spec_process spec_retain
  retain_f stats spec_retain_f
  slice_with frag_key_of pkt_of_key pk_step encode_id wire_frag_of frag_of_wire.
