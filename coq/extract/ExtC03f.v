(* Extraction of the strict slicing model with the field-value model and the
   field-value specification (Parse/Fields.v). *)
From EP Require Import Base.Bytes Parse.Types Parse.Slices Parse.Cursor Parse.View Parse.WireSpec
  Parse.Access Parse.Fields.
(* -- begin audit follow-up: derived / typed accessor values (Parse/Fields2.v) -- *)
From EP Require Import Parse.Fields2.
(* -- end audit follow-up -- *)
From Coq Require Import Extraction ExtrOcamlBasic.
Extraction Language OCaml.
Extraction "m_c03f.ml"
  N.add N.mul N.of_nat
  SlicedPacket.from_ethernet SlicedPacket.from_linux_sll SlicedPacket.from_ether_type
  SlicedPacket.from_ip fields_of_packet spec_fields
  fields2_of_packet spec_fields2
  wire_ethernet wire_linux_sll wire_ether_type wire_from_ip.
