(* Extraction of the lax slicing model, the strict slicing model, the wire
   specification and the two reference decoders of Parse/LaxWire.v (lax reference decoder
   `lwire_*`, instrumented strict reference decoder `pwire_*`) (C05). *)
From EP Require Import Base.Bytes Parse.Types Parse.Slices Parse.Cursor Parse.View Parse.WireSpec
  Parse.LaxSlices Parse.LaxCursor Parse.LaxView Parse.LaxWire.
(* ---- audit round 1: the finer instrumented strict reference decoder `pwire2_*` ---- *)
From EP Require Import Parse.LaxWire2.
(* ---- end audit round 1 ---- *)
(* ---- round 3 c05d: `pwire3_*`, MACsec short-length fallback with resumed decoding ---- *)
From EP Require Import Parse.LaxWire3.
(* ---- end round 3 c05d ---- *)
From Coq Require Import Extraction ExtrOcamlBasic.
Extraction Language OCaml.
Extraction "m_c05.ml"
  N.add N.mul N.of_nat mk_slice win_of
  SlicedPacket.from_ethernet SlicedPacket.from_ether_type SlicedPacket.from_ip vres_of
  wire_ethernet wire_ether_type wire_from_ip
  lwire_ethernet lwire_ether_type lwire_from_ip pwire_ethernet pwire_ether_type pwire_from_ip
  LaxSlicedPacket.from_ethernet LaxSlicedPacket.from_ether_type LaxSlicedPacket.from_ip lvres_of
  LaxIpSlice.from_slice LaxIpv4Slice.from_slice LaxIpv6Slice.from_slice LaxMacsecSlice.from_slice
  LaxIpv6Exts.from_slice_lax LaxIpv4Exts.from_slice_lax Ipv4Exts.from_slice UdpSlice.from_slice_lax
  IpSlice.from_slice Ipv4Slice.from_slice Ipv6Slice.from_slice Macsec.from_slice UdpSlice.from_slice
  Ipv6ExtensionsSlice.from_slice
  lview_v4 lview_v6 lview_macsec view_net view_ext
  (* audit round 1 *) pwire2_ethernet pwire2_ether_type pwire2_from_ip
  (* round 3 c05d *) pwire3_ethernet pwire3_ether_type.
