(* Extraction of the C16 model and specification to OCaml.
   ExtrOcamlBasic only; N / positive / nat stay the extracted inductive types. *)
From EP Require Import Base.Bytes IoFault.Spec IoFault.Model IoFault.Propagate IoFault.ReadPropagate.
From Coq Require Import Extraction ExtrOcamlBasic.
Extraction Language OCaml.
Extraction "m_c16.ml"
  N.add N.mul N.of_nat len
  fs_write spec_write_all spec_fault_write spec_slice_write src_read spec_read_exact
  io_write_all vec_write_all sw_write_all run_w wprog_bytes wprog_verdict
  single_write ipv4_header_write ip_auth_header_write ipv6_raw_ext_header_write tcp_header_write
  x4_write_internal x6_write_internal ip_headers_write_v4 ip_headers_write_v6
  header_write_to_slice final_write_with_net final_size final_write_to_slice builder_write
  io_read_exact lr_new lr_start_layer lr_read_exact run_r
  read_fixed ipv4_header_read ipv6_header_read tcp_header_read icmpv4_header_read
  macsec_header_read arp_packet_read ip_auth_read ipv6_raw_ext_read ipv6_frag_read
  x4_read x6_read ip_headers_read
  run_x x_single_write x_ipv4_header_write x_ip_auth_header_write x_ipv6_raw_ext_header_write
  x_tcp_header_write x_x4_write_internal x_x6_write_internal x_ip_headers_write_v4
  x_ip_headers_write_v6 x_final_write_with_net
  run_y y_read_fixed y_ipv4_header_read y_ipv6_header_read y_tcp_header_read y_icmpv4_header_read
  y_macsec_header_read y_arp_packet_read y_ip_auth_read y_ipv6_raw_ext_read y_ipv6_frag_read
  y_x4_read y_x6_read y_ip_headers_read
  L_ETH L_SLL.
