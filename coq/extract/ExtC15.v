(* Extraction of the C15 model and specification to OCaml.
   ExtrOcamlBasic only: bool, option, list, prod, unit map to OCaml's;
   N / positive / nat stay the extracted inductive types. *)
From EP Require Import Base.Bytes BitFields.Spec BitFields.Model BitFields.Fields.
From Coq Require Import Extraction ExtrOcamlBasic.
Extraction Language OCaml.
Extraction "m_c15.ml"
  N.add N.mul N.of_nat N.div N.modulo N.ltb N.leb N.eqb
  (* spec *)
  nbits bits_of bits_val field layout_bits layout_bytes F octets b2n
  vlan_layout ipv4_layout ipv6_layout ipv6_layout_ds frag_layout macsec_layout
  igmp_query_layout igmp_byte8_layout
  vlan_range ipv4_range ipv6_range frag_range macsec_range igmp_range
  W_VlanId W_VlanPcp W_IpDscp W_IpEcn W_IpFragOffset W_Ipv6FlowLabel W_MacsecAn W_MacsecShortLen W_Qrv
  vlan_spec_layout ipv4_spec_layout ipv6_spec_layout frag_spec_layout macsec_spec_layout query_spec_layout
  (* model: bounded types *)
  VlanId_try_new VlanId_try_from VlanPcp_try_new VlanPcp_try_from IpDscp_try_new IpDscp_try_from
  IpEcn_try_new IpEcn_try_from IpFragOffset_try_new IpFragOffset_try_from
  Ipv6FlowLabel_try_new Ipv6FlowLabel_try_from MacsecAn_try_new MacsecAn_try_from
  MacsecShortLen_try_from_u8 MacsecShortLen_try_from MacsecShortLen_from_len
  Qrv_try_new Qrv_try_from MacsecHeader_set_payload_len
  (* model: headers *)
  SingleVlanHeader_to_bytes SingleVlanHeader_from_bytes SingleVlanHeader_from_slice SingleVlanSlice_decode
  Ipv4Header_to_bytes Ipv4Header_write_raw Ipv4Header_from_slice Ipv4Header_read
  Ipv6Header_to_bytes Ipv6Header_from_slice Ipv6Header_read
  Ipv6Header_set_dscp Ipv6Header_set_ecn Ipv6Header_dscp Ipv6Header_ecn V6S_dscp V6S_ecn
  Ipv6HeaderSlice_from_slice
  Ipv6FragmentHeader_to_bytes Ipv6FragmentHeader_from_slice Ipv6FragmentHeader_read
  MacsecHeader_to_bytes MacsecHeader_from_slice
  Query_flags Query_set_flags Query_s_flag Query_set_s_flag Query_qrv Query_set_qrv
  IgmpQuery_to_bytes IgmpQuery_from_slice.
