(* CtlMsg/Proofs.v -- lemmas for property C17: the model of the typed
   control-message views (CtlMsg/Model.v) against the RFC tables
   (CtlMsg/Spec.v).  The dispatch lemmas are proved by case analysis of the
   type and code numbers down to 9 (resp. 5) binary digits: every literal of
   the tables becomes a closed number and every other number keeps a symbolic
   tail that no literal can match, so the lemmas hold for all N, not only for
   octets. *)
From EP Require Import Base.Bytes CtlMsg.Spec CtlMsg.Model.
Local Open Scope N_scope.

(* ---------------- tactics ---------------- *)
(* case analysis of a number down to k binary digits: every literal below 2^k
   becomes a closed term, everything else keeps a symbolic tail that no
   literal pattern can match *)
Ltac dpos p k :=
  match k with
  | O => idtac
  | S ?k' => destruct p as [p|p|]; [dpos p k' | dpos p k' | ]
  end.
Ltac dN t k := destruct t as [|t]; [| dpos t k].

Ltac len_absurd H := exfalso; revert H; clear; unfold len; cbn [length]; lia.

Lemma len_ge_cons8 (bs : bytes) : (len bs <? 8) = false ->
  exists a b c d e f g h r, bs = a::b::c::d::e::f::g::h::r.
Proof.
  intros H. apply N.ltb_ge in H.
  do 8 (destruct bs as [|? bs]; [len_absurd H|]).
  repeat eexists.
Qed.
(* ---------------- generic reader lemmas ---------------- *)
Lemma nth_skipn_add {A} (d : A) n : forall (l : list A) i, nth (n + i) l d = nth i (skipn n l) d.
Proof.
  induction n as [|n IH]; intros l i; [reflexivity|].
  destruct l as [|x l]; [destruct i; reflexivity|]. cbn [plus nth skipn]. apply IH.
Qed.

Lemma byte_at_drop s off i : byte_at (drop off s) i = byte_at s (off + i).
Proof.
  unfold byte_at, drop. rewrite N2Nat.inj_add. symmetry. apply nth_skipn_add.
Qed.

Lemma byte_at_take s n i : i < n -> byte_at (take n s) i = byte_at s i.
Proof.
  intros H. unfold byte_at, take.
  rewrite <- (firstn_skipn (N.to_nat n) s) at 2.
  destruct (Nat.lt_ge_cases (N.to_nat i) (length (firstn (N.to_nat n) s))) as [L|L].
  - rewrite app_nth1 by exact L. reflexivity.
  - rewrite (nth_overflow (firstn _ _)) by exact L.
    rewrite firstn_length in L.
    assert (length s <= N.to_nat i)%nat by lia.
    rewrite nth_overflow; [reflexivity|]. rewrite app_length, firstn_length, skipn_length. lia.
Qed.

Lemma rd_byte_at s i : i < len s -> rd s i = Some (byte_at s i).
Proof.
  intros H. unfold rd, byte_at. apply nth_error_nth'. unfold len in H. lia.
Qed.

Lemma get_unchecked_spec s i : i < len s -> get_unchecked s i = Some (byte_at s i).
Proof. apply rd_byte_at. Qed.

Lemma get_unchecked_be_u16_spec s i : i + 2 <= len s -> get_unchecked_be_u16 s i = Some (u16_at s i).
Proof.
  intros H. unfold get_unchecked_be_u16, u16_at. rewrite !rd_byte_at by lia. reflexivity.
Qed.

Lemma get_unchecked_be_u32_spec s i : i + 4 <= len s -> get_unchecked_be_u32 s i = Some (u32_at s i).
Proof.
  intros H. unfold get_unchecked_be_u32, u32_at. rewrite !rd_byte_at by lia. reflexivity.
Qed.

Lemma get4_unchecked_spec s i : i + 4 <= len s ->
  get4_unchecked s i = Some (byte_at s i, byte_at s (i + 1), byte_at s (i + 2), byte_at s (i + 3)).
Proof.
  intros H. unfold get4_unchecked. rewrite !rd_byte_at by lia. reflexivity.
Qed.

Lemma from_raw_parts_spec s off n : off + n <= len s -> from_raw_parts s off n = Some (bytes_at s off n).
Proof.
  intros H. unfold from_raw_parts. apply N.leb_le in H. rewrite H. reflexivity.
Qed.

Lemma take_all {A} (l : list A) n : len l <= n -> take n l = l.
Proof. intros H. unfold take. apply firstn_all2. unfold len in H. lia. Qed.

Lemma from_raw_parts_rest s h : h <= len s -> from_raw_parts s h (len s - h) = Some (drop h s).
Proof.
  intros H. rewrite from_raw_parts_spec by lia. unfold bytes_at.
  rewrite take_all; [reflexivity|]. rewrite len_drop. lia.
Qed.

Lemma slice_from_spec s off : off <= len s -> slice_from s off = Some (drop off s).
Proof. intros H. unfold slice_from. apply N.leb_le in H. rewrite H. reflexivity. Qed.

Lemma first_chunk_spec s n : n <= len s -> first_chunk s n = Some (take n s).
Proof. intros H. unfold first_chunk. apply N.leb_le in H. rewrite H. reflexivity. Qed.

Lemma take4_bytes r : 4 <= len r ->
  take 4 r = [byte_at r 0; byte_at r 1; byte_at r 2; byte_at r 3].
Proof.
  intros H.
  do 4 (destruct r as [|? r]; [exfalso; revert H; clear; unfold len; cbn [length]; lia|]).
  reflexivity.
Qed.

Lemma be_u32_at_spec s off : off + 4 <= len s ->
  Icmpv6PayloadSlice.be_u32_at s off = Some (u32_at s off).
Proof.
  intros H. unfold Icmpv6PayloadSlice.be_u32_at.
  rewrite slice_from_spec by lia.
  rewrite first_chunk_spec by (rewrite len_drop; lia).
  rewrite take4_bytes by (rewrite len_drop; lia).
  unfold u32_at. rewrite !byte_at_drop. rewrite N.add_0_r. reflexivity.
Qed.

Lemma addr_at_spec s off : off + 16 <= len s ->
  Icmpv6PayloadSlice.addr_at s off = Some (bytes_at s off 16).
Proof.
  intros H. unfold Icmpv6PayloadSlice.addr_at.
  rewrite slice_from_spec by lia.
  rewrite first_chunk_spec by (rewrite len_drop; lia). reflexivity.
Qed.

Lemma ltb_0_r x : (x <? 0) = false.
Proof. apply N.ltb_ge. lia. Qed.

Lemma land_pow2 b k : N.land b (2 ^ k) = if N.testbit b k then 2 ^ k else 0.
Proof.
  apply N.bits_inj. intros m. rewrite N.land_spec, N.pow2_bits_eqb.
  destruct (N.eqb_spec k m) as [->|Hne].
  - destruct (N.testbit b m) eqn:E.
    + rewrite N.pow2_bits_true. reflexivity.
    + rewrite N.bits_0. reflexivity.
  - rewrite andb_false_r. destruct (N.testbit b k).
    + rewrite N.pow2_bits_false by congruence. reflexivity.
    + rewrite N.bits_0. reflexivity.
Qed.

Lemma pow2_ne0 k : 2 ^ k <> 0.
Proof. apply N.pow_nonzero. discriminate. Qed.

Lemma mask_ne0_bit b k : mask_ne0 b (2 ^ k) = N.testbit b k.
Proof.
  unfold mask_ne0. rewrite land_pow2. destruct (N.testbit b k).
  - destruct (N.eqb_spec (2 ^ k) 0) as [E|E]; [exfalso; revert E; apply pow2_ne0 | reflexivity].
  - reflexivity.
Qed.
Lemma mask_eq_bit b k : mask_eq b (2 ^ k) = N.testbit b k.
Proof.
  unfold mask_eq. rewrite land_pow2. destruct (N.testbit b k).
  - apply N.eqb_refl.
  - destruct (N.eqb_spec 0 (2 ^ k)) as [E|E]; [exfalso; symmetry in E; revert E; apply pow2_ne0 | reflexivity].
Qed.
Lemma mask_ne0_128 b : mask_ne0 b 128 = bit_msb b 0. Proof. exact (mask_ne0_bit b 7). Qed.
Lemma mask_ne0_64 b : mask_ne0 b 64 = bit_msb b 1. Proof. exact (mask_ne0_bit b 6). Qed.
Lemma mask_eq_128 b : mask_eq b 128 = bit_msb b 0. Proof. exact (mask_eq_bit b 7). Qed.
Lemma mask_eq_64 b : mask_eq b 64 = bit_msb b 1. Proof. exact (mask_eq_bit b 6). Qed.
Lemma mask_eq_32 b : mask_eq b 32 = bit_msb b 2. Proof. exact (mask_eq_bit b 5). Qed.
(* ---------------- ICMPv4 ---------------- *)
Lemma icmp4_cases t c k0 k1 b4 b5 b6 b7 rest :
  let s := t::c::k0::k1::b4::b5::b6::b7::rest in
  match lookup t c icmp4_fixed_table with
  | Some (n, lay, mk) =>
      n = 20 /\ Icmpv4Slice.header_len s = Some 20 /\
      Icmpv4Slice.from_slice s =
        (if len s <? 8 then ErrLen (mkLenError 8 (len s) LsSlice LIcmpv4 0)
         else if len s =? 20 then Ok s else ErrLen (mkLenError 20 (len s) LsSlice lay 0)) /\
      exists u, Icmpv4Slice.icmp_type s =
        match Icmpv4Slice.timestamp_message s with Some m => Ok (mk m) | None => UB u end
  | None =>
      Icmpv4Slice.from_slice s =
        (if len s <? 8 then ErrLen (mkLenError 8 (len s) LsSlice LIcmpv4 0) else Ok s) /\
      Icmpv4Slice.header_len s = Some 8 /\
      Icmpv4Slice.icmp_type s =
        Ok (match lookup t c icmp4_table with Some f => f s | None => V4Unknown t c b4 b5 b6 b7 end)
  end.
Proof.
  intros s. subst s. unfold Icmpv4Slice.from_slice, Icmpv4Slice.MIN_LEN, Icmpv4Slice.TIMESTAMP_LEN.
  generalize (len (t::c::k0::k1::b4::b5::b6::b7::rest)). intros L.
  dN t 9%nat; try (repeat split; reflexivity);
    dN c 5%nat; try (repeat split; reflexivity).
  all: repeat split; try reflexivity; try (eexists; reflexivity).
  all: rewrite (N.eqb_sym 20 L); destruct (L <? 8), (L =? 20); reflexivity.
Qed.



Lemma timestamp_message_20 s : len s = 20 ->
  Icmpv4Slice.timestamp_message s = Some (timestamp_at s).
Proof.
  intros H.
  do 20 (destruct s as [|? s]; [exfalso; revert H; clear; unfold len; cbn [length]; lia|]).
  destruct s; [reflexivity|].
  exfalso; revert H; clear; unfold len; cbn [length]; lia.
Qed.

Lemma icmp4_eq bs : Icmpv4Slice.view bs = icmp4 bs.
Proof.
  unfold Icmpv4Slice.view, icmp4.
  destruct (len bs <? 8) eqn:E8.
  { unfold Icmpv4Slice.from_slice, Icmpv4Slice.MIN_LEN. rewrite E8. reflexivity. }
  destruct (len_ge_cons8 bs E8) as (t & c & k0 & k1 & b4 & b5 & b6 & b7 & rest & ->).
  pose proof (icmp4_cases t c k0 k1 b4 b5 b6 b7 rest) as C. cbv zeta in C.
  change (byte_at (t :: c :: k0 :: k1 :: b4 :: b5 :: b6 :: b7 :: rest) 0) with t.
  change (byte_at (t :: c :: k0 :: k1 :: b4 :: b5 :: b6 :: b7 :: rest) 1) with c.
  change (byte_at (t :: c :: k0 :: k1 :: b4 :: b5 :: b6 :: b7 :: rest) 4) with b4.
  change (byte_at (t :: c :: k0 :: k1 :: b4 :: b5 :: b6 :: b7 :: rest) 5) with b5.
  change (byte_at (t :: c :: k0 :: k1 :: b4 :: b5 :: b6 :: b7 :: rest) 6) with b6.
  change (byte_at (t :: c :: k0 :: k1 :: b4 :: b5 :: b6 :: b7 :: rest) 7) with b7.
  set (s := t :: c :: k0 :: k1 :: b4 :: b5 :: b6 :: b7 :: rest) in *.
  apply N.ltb_ge in E8.
  destruct (lookup t c icmp4_fixed_table) as [[[n lay] mk]|].
  - destruct C as (-> & Hh & Hf & u & Ht). rewrite Hf.
    destruct (len s <? 8) eqn:E; [apply N.ltb_lt in E; lia|].
    destruct (len s =? 20) eqn:E20; [|reflexivity].
    apply N.eqb_eq in E20.
    rewrite Ht, (timestamp_message_20 s E20).
    unfold Icmpv4Slice.payload. rewrite Hh.
    replace (20 <=? len s) with true by (symmetry; apply N.leb_le; lia).
    rewrite from_raw_parts_rest by lia. reflexivity.
  - destruct C as (Hf & Hh & Ht). rewrite Hf.
    destruct (len s <? 8) eqn:E; [apply N.ltb_lt in E; lia|].
    rewrite Ht. unfold Icmpv4Slice.payload. rewrite Hh.
    replace (8 <=? len s) with true by (symmetry; apply N.leb_le; lia).
    rewrite from_raw_parts_rest by lia.
    destruct (lookup t c icmp4_table); reflexivity.
Qed.
(* ---------------- ICMPv6 ---------------- *)
Definition spec6_type (t c b4 b5 b6 b7 : N) (s : bytes) : Icmpv6Type :=
  match lookup t c icmp6_table with Some f => f s | None => V6Unknown t c b4 b5 b6 b7 end.

Lemma icmp6_cases t c k0 k1 b4 b5 b6 b7 rest :
  let s := t::c::k0::k1::b4::b5::b6::b7::rest in
  Icmpv6Slice.icmp_type s = Ok (spec6_type t c b4 b5 b6 b7 s) /\
  forall p, Icmpv6PayloadSlice.from_type_u8 t c p =
            Icmpv6PayloadSlice.from_slice (spec6_type t c b4 b5 b6 b7 s) p.
Proof.
  intros s. subst s. unfold spec6_type.
  dN t 9%nat; try (split; reflexivity);
    dN c 5%nat; try (split; reflexivity).
  - split; [|reflexivity].
    transitivity (@Ok Icmpv6Type (V6RouterAdvertisement b4 (bit_msb b5 0) (bit_msb b5 1) (be16 b6 b7))); [|reflexivity].
    rewrite <- mask_ne0_128, <- mask_ne0_64. reflexivity.
  - split; [|reflexivity].
    transitivity (@Ok Icmpv6Type (V6NeighborAdvertisement (bit_msb b4 0) (bit_msb b4 1) (bit_msb b4 2))); [|reflexivity].
    rewrite <- mask_eq_128, <- mask_eq_64, <- mask_eq_32. reflexivity.
Qed.

Lemma icmp6_payload_rest s : (len s <? 8) = false -> Icmpv6Slice.payload s = Some (drop 8 s).
Proof.
  intros H. apply N.ltb_ge in H. unfold Icmpv6Slice.payload.
  replace (8 <=? len s) with true by (symmetry; apply N.leb_le; lia).
  apply from_raw_parts_rest. lia.
Qed.

Lemma icmp6_eq bs : Icmpv6Slice.view bs = icmp6 bs.
Proof.
  unfold Icmpv6Slice.view, icmp6, Icmpv6Slice.from_slice, Icmpv6Slice.MIN_LEN,
    Icmpv6Slice.MAX_ICMPV6_BYTE_LEN, MAX_ICMPV6_BYTE_LEN.
  destruct (len bs <? 8) eqn:E8; [reflexivity|].
  destruct (4294967295 <? len bs) eqn:Emax; [reflexivity|].
  rewrite (icmp6_payload_rest bs E8).
  destruct (len_ge_cons8 bs E8) as (t & c & k0 & k1 & b4 & b5 & b6 & b7 & rest & ->).
  destruct (icmp6_cases t c k0 k1 b4 b5 b6 b7 rest) as [Ht _]. cbv zeta in Ht.
  rewrite Ht. unfold spec6_type.
  change (byte_at (t :: c :: k0 :: k1 :: b4 :: b5 :: b6 :: b7 :: rest) 0) with t.
  change (byte_at (t :: c :: k0 :: k1 :: b4 :: b5 :: b6 :: b7 :: rest) 1) with c.
  destruct (lookup t c icmp6_table); reflexivity.
Qed.

(* ---------------- ICMPv6 typed payloads ---------------- *)
Lemma payload_from_slice_spec ty p :
  Icmpv6PayloadSlice.from_slice ty p =
    if len p <? ndp_fixed_len (payload_kind_of ty)
    then ErrLen (mkLenError (ndp_fixed_len (payload_kind_of ty)) (len p) LsSlice LIcmpv6 0)
    else Ok (payload_kind_of ty, p).
Proof.
  destruct ty; cbn [payload_kind_of ndp_fixed_len Icmpv6PayloadSlice.from_slice];
    unfold Icmpv6PayloadSlice.plain_from_slice; rewrite ?ltb_0_r; reflexivity.
Qed.

Lemma payload_accessors_spec k p : ndp_fixed_len k <= len p ->
  Icmpv6PayloadSlice.accessors (k, p) = Ok (ndp_payload_view k p).
Proof.
  intros H. destruct k; cbn [ndp_fixed_len] in H;
    cbn [Icmpv6PayloadSlice.accessors ndp_payload_view]; try reflexivity.
  - unfold Icmpv6PayloadSlice.RA_FIXED_PART_LEN.
    rewrite !be_u32_at_spec, slice_from_spec by lia. reflexivity.
  - unfold Icmpv6PayloadSlice.NS_FIXED_PART_LEN.
    rewrite addr_at_spec, slice_from_spec by lia. reflexivity.
  - unfold Icmpv6PayloadSlice.NA_FIXED_PART_LEN.
    rewrite addr_at_spec, slice_from_spec by lia. reflexivity.
  - unfold Icmpv6PayloadSlice.REDIRECT_FIXED_PART_LEN.
    rewrite !addr_at_spec, slice_from_spec by lia. reflexivity.
Qed.

Lemma payload_by_type_eq bs : Icmpv6PayloadSlice.payload_slice_view_by_type bs = icmp6_payload bs.
Proof.
  unfold Icmpv6PayloadSlice.payload_slice_view_by_type, icmp6_payload.
  rewrite icmp6_eq. destruct (icmp6 bs) as [[ty p]|e|n]; try reflexivity.
  rewrite payload_from_slice_spec.
  destruct (len p <? ndp_fixed_len (payload_kind_of ty)) eqn:E; [reflexivity|].
  apply N.ltb_ge in E. apply payload_accessors_spec. exact E.
Qed.

Lemma payload_eq bs : Icmpv6PayloadSlice.payload_slice_view bs = icmp6_payload bs.
Proof.
  rewrite <- payload_by_type_eq.
  unfold Icmpv6PayloadSlice.payload_slice_view, Icmpv6PayloadSlice.payload_slice_view_by_type,
    Icmpv6Slice.view.
  destruct (Icmpv6Slice.from_slice bs) as [s|e|n] eqn:F; try reflexivity.
  assert (E8 : (len s <? 8) = false /\ s = bs).
  { unfold Icmpv6Slice.from_slice, Icmpv6Slice.MIN_LEN in F.
    destruct (len bs <? 8) eqn:E; [discriminate|].
    destruct (_ <? len bs); [discriminate|]. inversion F. subst. auto. }
  destruct E8 as [E8 ->].
  rewrite (icmp6_payload_rest bs E8).
  destruct (len_ge_cons8 bs E8) as (t & c & k0 & k1 & b4 & b5 & b6 & b7 & rest & ->).
  destruct (icmp6_cases t c k0 k1 b4 b5 b6 b7 rest) as [Ht Hp]. cbv zeta in Ht, Hp.
  rewrite Ht. rewrite <- Hp. reflexivity.
Qed.
(* ---------------- NDP options ---------------- *)
Lemma take_cons2 {A} (a b : A) tl n : 2 <= n -> take n (a :: b :: tl) = a :: b :: take (n - 2) tl.
Proof.
  intros H. unfold take.
  replace (N.to_nat n) with (S (S (N.to_nat (n - 2)))) by lia. reflexivity.
Qed.

Lemma mul8_eqb lu k : (lu * 8 =? k * 8) = (lu =? k).
Proof.
  destruct (N.eqb_spec lu k) as [->|H]; [apply N.eqb_refl|].
  apply N.eqb_neq. lia.
Qed.

Lemma parse_next_spec ty lu tl :
  let r := ty :: lu :: tl in
  Ndp.parse_next_option r =
    if opt_reject r then Ndp.NErr (opt_error r)
    else Ndp.NOk (opt_kind ty, take (lu * 8) r, drop (lu * 8) r).
Proof.
  intros r. subst r.
  unfold Ndp.parse_next_option, opt_reject, opt_error.
  cbn [Ndp.header_from_slice].
  rewrite (N.eqb_sym 0 lu).
  destruct (lu =? 0) eqn:E0; [reflexivity|].
  cbn [orb]. unfold Ndp.split_at_checked, Ndp.byte_len.
  rewrite (N.ltb_antisym (lu * 8) (len (ty :: lu :: tl))).
  destruct (lu * 8 <=? len (ty :: lu :: tl)) eqn:El; [|reflexivity].
  cbn [negb orb].
  apply N.eqb_neq in E0. apply N.leb_le in El.
  assert (Hlen : len (take (lu * 8) (ty :: lu :: tl)) = lu * 8) by (rewrite len_take; lia).
  rewrite take_cons2 in * by lia.
  set (o := take (lu * 8 - 2) tl) in *.
  assert (E0' : (0 =? lu) = false) by (apply N.eqb_neq; lia).
  assert (E8 : (lu * 8 <? 8) = false) by (apply N.ltb_ge; lia).
  dN ty 4%nat;
    cbn [opt_fixed_units opt_kind];
    unfold Ndp.unknown_from_slice, Ndp.link_layer_from_slice, Ndp.redirected_header_from_slice,
      Ndp.mtu_from_slice, Ndp.prefix_information_from_slice, Ndp.byte_len, Ndp.MTU_LEN,
      Ndp.PREFIX_INFORMATION_LEN;
    cbn [Ndp.header_from_slice]; rewrite ?Hlen, ?E8, ?E0', ?N.eqb_refl; try reflexivity.
  - (* 5 MTU *)
    replace (lu * 8 =? 8) with (lu =? 1) by (symmetry; apply (mul8_eqb lu 1)).
    destruct (lu =? 1) eqn:E1; [|reflexivity].
    cbn [negb]. change (rd (5 :: lu :: o) 0) with (Some 5). change (rd (5 :: lu :: o) 1) with (Some lu).
    cbv beta iota. rewrite ?E1. reflexivity.
  - (* 3 prefix information *)
    replace (lu * 8 =? 32) with (lu =? 4) by (symmetry; apply (mul8_eqb lu 4)).
    destruct (lu =? 4) eqn:E4; [|reflexivity].
    cbn [negb]. cbv beta iota. rewrite ?E4. reflexivity.
Qed.

Lemma accepted_shrinks ty lu tl :
  opt_reject (ty :: lu :: tl) = false ->
  (length (drop (lu * 8) (ty :: lu :: tl)) + 8 <= length (ty :: lu :: tl))%nat
  /\ lu <> 0 /\ lu * 8 <= len (ty :: lu :: tl).
Proof.
  unfold opt_reject. intros H.
  apply orb_false_elim in H. destruct H as [H _].
  apply orb_false_elim in H. destruct H as [H0 Hl].
  apply N.eqb_neq in H0. apply N.ltb_ge in Hl.
  repeat split; try assumption.
  unfold drop. rewrite skipn_length. unfold len in Hl. lia.
Qed.

Lemma collect_S f r :
  Ndp.collect (S f) r =
    match Ndp.next r with
    | None => Some []
    | Some (it, r') => match Ndp.collect f r' with Some l => Some (it :: l) | None => None end
    end.
Proof. reflexivity. Qed.

Lemma collect_eq : forall n r, (length r <= n)%nat ->
  Ndp.collect (S n) r = Some (parse_opts n r).
Proof.
  induction n as [|m IH]; intros r Hr.
  - destruct r; [reflexivity|cbn [length] in Hr; lia].
  - destruct r as [|ty [|lu tl]]; [reflexivity|reflexivity|].
    rewrite collect_S. cbn [parse_opts]. unfold Ndp.next.
    rewrite parse_next_spec. cbv zeta.
    destruct (opt_reject (ty :: lu :: tl)) eqn:Er; [reflexivity|].
    destruct (accepted_shrinks ty lu tl Er) as (Hs & _ & _).
    rewrite IH by (cbn [length] in *; lia). reflexivity.
Qed.

Lemma parse_opts_tile : forall n r, (length r <= n)%nat -> opts_tile r (parse_opts n r).
Proof.
  induction n as [|m IH]; intros r Hr.
  - destruct r; [constructor|cbn [length] in Hr; lia].
  - destruct r as [|ty [|lu tl]].
    + constructor.
    + cbn [parse_opts]. apply T_rej; [discriminate|reflexivity].
    + cbn [parse_opts].
      destruct (opt_reject (ty :: lu :: tl)) eqn:Er.
      * apply T_rej; [discriminate|exact Er].
      * apply T_acc; [exact Er|].
        destruct (accepted_shrinks ty lu tl Er) as (Hs & _ & _).
        apply IH. cbn [length] in *. lia.
Qed.

Lemma ndp_iter_spec area :
  Ndp.collect (S (length area)) area = Some (parse_opts (length area) area)
  /\ opts_tile area (parse_opts (length area) area).
Proof. split; [apply collect_eq | apply parse_opts_tile]; apply Nat.le_refl. Qed.

Definition is_ok (i : item) : Prop := exists k s, i = IOk k s.

Lemma tile_split r items : opts_tile r items ->
  exists rest, r = ok_bytes items ++ rest /\
    ((rest = [] /\ Forall is_ok items) \/
     (rest <> [] /\ opt_reject rest = true /\
      exists oks, items = oks ++ [IErr (opt_error rest)] /\ Forall is_ok oks)).
Proof.
  induction 1 as [|r Hne Hr|ty lu tl items Hr Ht IH].
  - exists []. split; [reflexivity|]. left. split; [reflexivity|constructor].
  - exists r. split; [reflexivity|]. right. repeat split; try assumption.
    exists []. split; [reflexivity|constructor].
  - destruct IH as (rest & Heq & Hcase). exists rest. split.
    + cbn [ok_bytes]. rewrite <- app_assoc, <- Heq. symmetry. apply take_drop.
    + destruct Hcase as [[-> Hall]|(Hne & Hrej & oks & -> & Hall)].
      * left. split; [reflexivity|]. constructor; [eexists; eexists; reflexivity|exact Hall].
      * right. repeat split; try assumption.
        exists (IOk (opt_kind ty) (take (lu * 8) (ty :: lu :: tl)) :: oks). split; [reflexivity|].
        constructor; [eexists; eexists; reflexivity|exact Hall].
Qed.

Lemma tile_shapes r items : opts_tile r items ->
  Forall (fun i => match i with IOk k s => opt_shape_ok k s | IErr _ => True | IUB _ => False end) items.
Proof.
  induction 1 as [|r Hne Hr|ty lu tl items Hr Ht IH].
  - constructor.
  - constructor; [exact I|constructor].
  - constructor; [|exact IH].
    destruct (accepted_shrinks ty lu tl Hr) as (_ & H0 & Hl).
    unfold opt_shape_ok. rewrite take_cons2 by lia.
    exists ty, lu, (take (lu * 8 - 2) tl). repeat split; try assumption.
    + rewrite <- take_cons2 by lia. rewrite len_take. lia.
    + intros u Hu. unfold opt_reject in Hr. rewrite Hu in Hr.
      apply orb_false_elim in Hr. destruct Hr as [_ Hr].
      apply negb_false_iff in Hr. apply N.eqb_eq in Hr. exact Hr.
Qed.

Lemma tile_count r items : opts_tile r items -> 8 * ok_count items <= len r.
Proof.
  induction 1 as [|r Hne Hr|ty lu tl items Hr Ht IH].
  - cbn. lia.
  - cbn [ok_count]. lia.
  - cbn [ok_count]. destruct (accepted_shrinks ty lu tl Hr) as (_ & H0 & Hl).
    rewrite len_drop in IH. lia.
Qed.

Lemma tile_count_div r items : opts_tile r items -> ok_count items <= len r / 8.
Proof.
  intros H. apply tile_count in H. apply N.div_le_lower_bound; [discriminate|exact H].
Qed.

Lemma tile_det r i1 : opts_tile r i1 -> forall i2, opts_tile r i2 -> i1 = i2.
Proof.
  induction 1 as [|r Hne Hr|ty lu tl items Hr Ht IH]; intros i2 H2.
  - inversion H2; subst; [reflexivity|congruence].
  - inversion H2; subst; [congruence|reflexivity|congruence].
  - inversion H2; subst; [congruence|]. f_equal. apply IH. assumption.
Qed.

Lemma next_err_exhausted r e r' : Ndp.next r = Some (IErr e, r') -> r' = [] /\ Ndp.next r' = None.
Proof.
  unfold Ndp.next. destruct r as [|x r0]; [discriminate|].
  destruct (Ndp.parse_next_option (x :: r0)) as [[[k s] rest]|e'|n]; intros H; inversion H; subst.
  split; reflexivity.
Qed.

Lemma next_ok_prefix r k s r' : Ndp.next r = Some (IOk k s, r') -> r = s ++ r' /\ 8 <= len s.
Proof.
  unfold Ndp.next. destruct r as [|ty [|lu tl]]; [discriminate|cbn; discriminate|].
  rewrite parse_next_spec. cbv zeta.
  destruct (opt_reject (ty :: lu :: tl)) eqn:Er; intros H; inversion H; subst.
  destruct (accepted_shrinks ty lu tl Er) as (_ & H0 & Hl).
  split; [symmetry; apply take_drop|]. rewrite len_take. lia.
Qed.

Lemma opt_accessors_spec k s : opt_shape_ok k s -> Ndp.opt_accessors k s = Ok (opt_view k s).
Proof.
  intros (ty & lu & tl & -> & -> & H0 & Hl & Hfix).
  assert (H8 : 8 <= len (ty :: lu :: tl)) by lia.
  dN ty 4%nat; cbn [opt_kind Ndp.opt_accessors opt_view]; unfold Ndp.NDP_OPTION_HEADER_LEN;
    try (rewrite slice_from_spec by lia; reflexivity).
  - (* MTU *) rewrite get_unchecked_be_u32_spec by lia. reflexivity.
  - (* prefix *)
    assert (lu = 4) by (apply Hfix; reflexivity). subst lu.
    rewrite !rd_byte_at, slice_from_spec, !be_u32_at_spec by lia.
    rewrite first_chunk_spec by (rewrite len_drop; lia).
    rewrite mask_ne0_128, mask_ne0_64. reflexivity.
Qed.
(* ---------------- IGMP ---------------- *)
Lemma rest_after_spec s n : n <= len s -> Igmp.rest_after s n = Some (drop n s).
Proof.
  intros H. unfold Igmp.rest_after.
  replace (n <=? len s) with true by (symmetry; apply N.leb_le; exact H).
  apply from_raw_parts_rest. exact H.
Qed.

Definition spec_igmp_type (t m g0 g1 g2 g3 : N) (s : bytes) : IgmpType :=
  match lookup1 t igmp_table with Some f => f s | None => IgUnknown t m g0 g1 g2 g3 end.

Lemma igmp_cases t m c0 c1 g0 g1 g2 g3 rest :
  let s := t :: m :: c0 :: c1 :: g0 :: g1 :: g2 :: g3 :: rest in
  Igmp.from_slice s =
    if len s <? 8 then ErrLen (mkLenError 8 (len s) LsSlice LIgmp 0) else
    if t =? 17 then
      if 8 =? len s then
        match Igmp.rest_after s 8 with
        | Some r => Ok (IgMembershipQuery m g0 g1 g2 g3, be16 c0 c1, r)
        | None => UB 60
        end
      else if 12 <=? len s then
        match get_unchecked s 8, get_unchecked s 9, get_unchecked_be_u16 s 10, Igmp.rest_after s 12 with
        | Some raw_byte_8, Some qqic, Some n, Some r =>
            Ok (IgMembershipQueryWithSources m g0 g1 g2 g3 raw_byte_8 qqic n, be16 c0 c1, r)
        | _, _, _, _ => UB 61
        end
      else ErrLen (mkLenError 12 (len s) LsSlice LIgmp 0)
    else
      match Igmp.rest_after s 8 with
      | Some r => Ok (spec_igmp_type t m g0 g1 g2 g3 s, be16 c0 c1, r)
      | None => UB 60
      end.
Proof.
  intros s. subst s. unfold Igmp.from_slice, Igmp.MIN_LEN, Igmp.QUERY_LEN, Igmp.QUERY_WITH_SOURCES_LEN,
    spec_igmp_type.
  generalize (len (t :: m :: c0 :: c1 :: g0 :: g1 :: g2 :: g3 :: rest)). intros L.
  dN t 9%nat; reflexivity.
Qed.

Lemma spec_igmp_type_hl t m g0 g1 g2 g3 s : Igmp.header_len (spec_igmp_type t m g0 g1 g2 g3 s) = 8.
Proof.
  unfold spec_igmp_type, igmp_table, lookup1.
  repeat (destruct (_ =? t); [reflexivity|]). reflexivity.
Qed.

Lemma igmp_eq bs : Igmp.view bs = igmp bs.
Proof.
  unfold Igmp.view, igmp.
  destruct (len bs <? 8) eqn:E8.
  { unfold Igmp.from_slice, Igmp.MIN_LEN. rewrite E8. reflexivity. }
  destruct (len_ge_cons8 bs E8) as (t & m & c0 & c1 & g0 & g1 & g2 & g3 & rest & ->).
  rewrite igmp_cases. cbv zeta. rewrite E8.
  change (byte_at (t :: m :: c0 :: c1 :: g0 :: g1 :: g2 :: g3 :: rest) 0) with t.
  set (s := t :: m :: c0 :: c1 :: g0 :: g1 :: g2 :: g3 :: rest) in *.
  apply N.ltb_ge in E8.
  destruct (t =? 17).
  - rewrite (N.eqb_sym 8 (len s)).
    destruct (len s =? 8) eqn:E.
    + rewrite rest_after_spec by lia. reflexivity.
    + destruct (12 <=? len s) eqn:E12; [|reflexivity].
      apply N.leb_le in E12.
      rewrite !get_unchecked_spec, get_unchecked_be_u16_spec, rest_after_spec by lia.
      reflexivity.
  - rewrite rest_after_spec by lia. rewrite spec_igmp_type_hl. unfold spec_igmp_type.
    destruct (lookup1 t igmp_table); reflexivity.
Qed.

Lemma group_record_eq bs : Igmp.group_record_from_slice bs = group_record bs.
Proof.
  unfold Igmp.group_record_from_slice, group_record.
  destruct (len bs <? 8) eqn:E8; [reflexivity|]. apply N.ltb_ge in E8.
  rewrite !get_unchecked_spec, get_unchecked_be_u16_spec, get4_unchecked_spec, rest_after_spec by lia.
  reflexivity.
Qed.

(* finite sweeps over one octet *)
Fixpoint range (n : nat) : list N :=
  match n with O => [] | S k => range k ++ [N.of_nat k] end.
Lemma range_complete n x : x < N.of_nat n -> In x (range n).
Proof.
  induction n as [|k IH]; intros H; [lia|].
  cbn [range]. apply in_or_app.
  destruct (N.eq_dec x (N.of_nat k)) as [->|Hne]; [right; left; reflexivity|].
  left. apply IH. lia.
Qed.
Lemma byte_sweep (P : N -> bool) : forallb P (range 256) = true -> forall x, x < 256 -> P x = true.
Proof.
  intros H x Hx. rewrite forallb_forall in H. apply H. apply range_complete. exact Hx.
Qed.

Definition beq (a b : bool) : bool := if a then b else negb b.
Lemma beq_eq a b : beq a b = true -> a = b.
Proof. destruct a, b; cbn; congruence. Qed.

Lemma igmp_byte_fields c : c < 256 ->
  Igmp.as_10th_secs c = max_resp_time c /\ Igmp.flags c = query_flags c /\
  Igmp.s_flag c = query_s_flag c /\ Igmp.qrv c = query_qrv c.
Proof.
  intros H.
  assert (S : forallb (fun c => (Igmp.as_10th_secs c =? max_resp_time c) && (Igmp.flags c =? query_flags c)
                         && beq (Igmp.s_flag c) (query_s_flag c) && (Igmp.qrv c =? query_qrv c))
                (range 256) = true) by (vm_compute; reflexivity).
  pose proof (byte_sweep _ S c H) as B. cbv beta in B.
  apply andb_prop in B. destruct B as [B B4].
  apply andb_prop in B. destruct B as [B B3].
  apply andb_prop in B. destruct B as [B1 B2].
  repeat split; [apply N.eqb_eq | apply N.eqb_eq | apply beq_eq | apply N.eqb_eq]; assumption.
Qed.
(* ---------------- ARP ---------------- *)
Lemma bytes_at_take s total off n : off + n <= total ->
  bytes_at (take total s) off n = bytes_at s off n.
Proof.
  intros H. unfold bytes_at, take, drop.
  rewrite skipn_firstn_comm, firstn_firstn. f_equal. lia.
Qed.

Lemma u16_at_take s n i : i + 2 <= n -> u16_at (take n s) i = u16_at s i.
Proof. intros H. unfold u16_at. rewrite !byte_at_take by lia. reflexivity. Qed.

Lemma len_bytes_at s off n : off + n <= len s -> len (bytes_at s off n) = n.
Proof. intros H. unfold bytes_at. rewrite len_take, len_drop. lia. Qed.

Lemma byte_at_ok bs i : bytes_ok bs -> byte_at bs i < 256.
Proof.
  intros H. unfold byte_at.
  destruct (nth_in_or_default (N.to_nat i) bs 0) as [Hin| ->]; [|lia].
  unfold bytes_ok in H. rewrite Forall_forall in H. apply H. exact Hin.
Qed.

Definition arp_total (bs : bytes) : N := 8 + 2 * byte_at bs 4 + 2 * byte_at bs 5.

Lemma arp_from_slice_spec bs :
  Arp.from_slice bs =
    if len bs <? 8 then ErrLen (mkLenError 8 (len bs) LsSlice LArp 0)
    else if len bs <? arp_total bs then ErrLen (mkLenError (arp_total bs) (len bs) LsArpAddrLengths LArp 0)
    else Ok (take (arp_total bs) bs).
Proof.
  unfold Arp.from_slice, arp_total.
  destruct (len bs <? 8) eqn:E8; [reflexivity|]. apply N.ltb_ge in E8.
  rewrite !get_unchecked_spec by lia.
  replace (8 + byte_at bs 4 * 2 + byte_at bs 5 * 2) with (8 + 2 * byte_at bs 4 + 2 * byte_at bs 5) by lia.
  destruct (len bs <? _) eqn:Et; [reflexivity|]. apply N.ltb_ge in Et.
  rewrite from_raw_parts_spec by lia. reflexivity.
Qed.

Section ArpAccessors.
  Variable bs : bytes.
  Hypothesis H8 : 8 <= len bs.
  Hypothesis Ht : arp_total bs <= len bs.
  Let s := take (arp_total bs) bs.
  Let hs := byte_at bs 4.
  Let ps := byte_at bs 5.

  Lemma arp_len_s : len s = 8 + 2 * hs + 2 * ps.
  Proof. subst s hs ps. rewrite len_take. unfold arp_total in *. lia. Qed.

  Lemma arp_fields :
    Arp.hw_addr_type s = Some (u16_at bs 0) /\ Arp.proto_addr_type s = Some (u16_at bs 2) /\
    Arp.hw_addr_size s = Some hs /\ Arp.proto_addr_size s = Some ps /\
    Arp.operation s = Some (u16_at bs 6).
  Proof.
    pose proof arp_len_s as L.
    unfold Arp.hw_addr_type, Arp.proto_addr_type, Arp.hw_addr_size, Arp.proto_addr_size, Arp.operation.
    rewrite !get_unchecked_be_u16_spec, !get_unchecked_spec by lia.
    subst s. rewrite !u16_at_take, !byte_at_take by (unfold arp_total; lia).
    repeat split; reflexivity.
  Qed.

  Lemma arp_addr off n : off + n <= 8 + 2 * hs + 2 * ps ->
    Arp.addr s off n = Some (off, bytes_at bs off n).
  Proof.
    intros H. pose proof arp_len_s as L. unfold Arp.addr.
    rewrite from_raw_parts_spec by lia.
    subst s. rewrite bytes_at_take by (unfold arp_total; subst hs ps; lia). reflexivity.
  Qed.

  Lemma arp_addrs :
    Arp.sender_hw_addr s = Some (8, bytes_at bs 8 hs) /\
    Arp.sender_protocol_addr s = Some (8 + hs, bytes_at bs (8 + hs) ps) /\
    Arp.target_hw_addr s = Some (8 + hs + ps, bytes_at bs (8 + hs + ps) hs) /\
    Arp.target_protocol_addr s = Some (8 + 2 * hs + ps, bytes_at bs (8 + 2 * hs + ps) ps).
  Proof.
    destruct arp_fields as (_ & _ & Hh & Hp & _).
    unfold Arp.sender_hw_addr, Arp.sender_protocol_addr, Arp.target_hw_addr, Arp.target_protocol_addr.
    rewrite Hh, Hp.
    replace (8 + hs * 2 + ps) with (8 + 2 * hs + ps) by lia.
    rewrite !arp_addr by lia. repeat split; reflexivity.
  Qed.
End ArpAccessors.

Lemma arp_view_eq bs : Arp.slice_view bs = arp_view bs.
Proof.
  unfold Arp.slice_view, arp_view. rewrite arp_from_slice_spec. fold (arp_total bs).
  destruct (len bs <? 8) eqn:E8; [reflexivity|]. apply N.ltb_ge in E8.
  destruct (len bs <? arp_total bs) eqn:Et; [reflexivity|]. apply N.ltb_ge in Et.
  destruct (arp_fields bs E8 Et) as (-> & -> & -> & -> & ->).
  destruct (arp_addrs bs E8 Et) as (-> & -> & -> & ->).
  rewrite (arp_len_s bs E8 Et). reflexivity.
Qed.

Lemma arp_eth_ipv4_eq bs : bytes_ok bs -> Arp.eth_ipv4_view bs = arp_eth_ipv4 bs.
Proof.
  intros Hok. unfold Arp.eth_ipv4_view, arp_eth_ipv4. rewrite arp_from_slice_spec. fold (arp_total bs).
  destruct (len bs <? 8) eqn:E8; [reflexivity|]. apply N.ltb_ge in E8.
  destruct (len bs <? arp_total bs) eqn:Et; [reflexivity|]. apply N.ltb_ge in Et.
  unfold Arp.to_packet.
  destruct (arp_fields bs E8 Et) as (-> & -> & _ & _ & ->).
  destruct (arp_addrs bs E8 Et) as (-> & -> & -> & ->).
  pose proof (byte_at_ok bs 4 Hok) as Hh. pose proof (byte_at_ok bs 5 Hok) as Hp.
  unfold arp_total in Et.
  unfold Arp.try_eth_ipv4, Arp.new_unchecked.
  cbn [Arp.p_hw_addr_type Arp.p_proto_addr_type Arp.p_hw_addr_size Arp.p_proto_addr_size Arp.p_operation
       Arp.sender_hw_addr_buf Arp.sender_protocol_addr_buf Arp.target_hw_addr_buf Arp.target_protocol_addr_buf].
  rewrite !len_bytes_at by lia.
  rewrite (N.mod_small (byte_at bs 4)), (N.mod_small (byte_at bs 5)) by assumption.
  unfold ARP_HW_ETHERNET, ETHER_TYPE_IPV4.
  destruct (u16_at bs 0 =? 1); [|reflexivity].
  destruct (u16_at bs 2 =? 2048); [|reflexivity].
  destruct (byte_at bs 4 =? 6) eqn:E6; [|reflexivity].
  destruct (byte_at bs 5 =? 4) eqn:E4; [|reflexivity].
  apply N.eqb_eq in E6, E4. rewrite E6, E4 in *.
  cbn [negb]. unfold Arp.assume_init.
  rewrite !len_bytes_at by lia. cbn [N.leb N.compare Pos.compare Pos.compare_cont].
  rewrite !take_all by (rewrite len_bytes_at by lia; lia).
  reflexivity.
Qed.
(* ---------------- corollaries used by Props/C17.v ---------------- *)
Lemma icmp4_short bs : len bs < 8 ->
  Icmpv4Slice.view bs = ErrLen (mkLenError 8 (len bs) LsSlice LIcmpv4 0).
Proof.
  intros H. rewrite icmp4_eq. unfold icmp4. apply N.ltb_lt in H. rewrite H. reflexivity.
Qed.

Lemma icmp4_unassigned bs : 8 <= len bs ->
  lookup (byte_at bs 0) (byte_at bs 1) icmp4_fixed_table = None ->
  lookup (byte_at bs 0) (byte_at bs 1) icmp4_table = None ->
  Icmpv4Slice.view bs =
    Ok (V4Unknown (byte_at bs 0) (byte_at bs 1) (byte_at bs 4) (byte_at bs 5) (byte_at bs 6) (byte_at bs 7),
        8, drop 8 bs).
Proof.
  intros H H1 H2. rewrite icmp4_eq. unfold icmp4.
  apply N.ltb_ge in H. rewrite H, H1, H2. reflexivity.
Qed.

Lemma icmp4_timestamp_exact bs : 8 <= len bs ->
  (byte_at bs 0 = 13 \/ byte_at bs 0 = 14) -> byte_at bs 1 = 0 ->
  ((exists v, Icmpv4Slice.view bs = Ok v) <-> len bs = 20).
Proof.
  intros H Ht Hc. rewrite icmp4_eq. unfold icmp4.
  apply N.ltb_ge in H. rewrite H, Hc.
  destruct Ht as [-> | ->];
    [change (lookup 13 0 icmp4_fixed_table) with (Some (20, LIcmpv4Timestamp, V4TimestampRequest))
    |change (lookup 14 0 icmp4_fixed_table) with (Some (20, LIcmpv4TimestampReply, V4TimestampReply))];
    cbv beta iota;
    (destruct (len bs =? 20) eqn:E;
     [apply N.eqb_eq in E; split; [intros _; exact E | intros _; eexists; reflexivity]
     |apply N.eqb_neq in E; split; [intros [v Hv]; discriminate | intros; contradiction]]).
Qed.

Lemma icmp4_untyped_raw t c : In t icmp4_untyped_assigned ->
  lookup t c icmp4_table = None /\ lookup t c icmp4_fixed_table = None.
Proof.
  intros Hin. unfold icmp4_untyped_assigned in Hin.
  repeat (destruct Hin as [<-|Hin]; [split; reflexivity|]). destruct Hin.
Qed.

Lemma icmp6_short bs : len bs < 8 ->
  Icmpv6Slice.view bs = ErrLen (mkLenError 8 (len bs) LsSlice LIcmpv6 0).
Proof.
  intros H. rewrite icmp6_eq. unfold icmp6. apply N.ltb_lt in H. rewrite H. reflexivity.
Qed.

Lemma icmp6_unassigned bs : 8 <= len bs -> len bs <= MAX_ICMPV6_BYTE_LEN ->
  lookup (byte_at bs 0) (byte_at bs 1) icmp6_table = None ->
  Icmpv6Slice.view bs =
    Ok (V6Unknown (byte_at bs 0) (byte_at bs 1) (byte_at bs 4) (byte_at bs 5) (byte_at bs 6) (byte_at bs 7),
        drop 8 bs).
Proof.
  intros H Hm H1. rewrite icmp6_eq. unfold icmp6.
  apply N.ltb_ge in H. apply N.ltb_ge in Hm. rewrite H, Hm, H1. reflexivity.
Qed.

(* the NDP payload split in offsets of the whole ICMPv6 message *)
Lemma ndp_payload_split bs ty p : icmp6 bs = Ok (ty, p) ->
  p = drop 8 bs /\
  (ndp_fixed_len (payload_kind_of ty) <= len p ->
   Icmpv6PayloadSlice.payload_slice_view bs = Ok (ndp_payload_view (payload_kind_of ty) p)) /\
  (len p < ndp_fixed_len (payload_kind_of ty) ->
   Icmpv6PayloadSlice.payload_slice_view bs =
     ErrLen (mkLenError (ndp_fixed_len (payload_kind_of ty)) (len p) LsSlice LIcmpv6 0)).
Proof.
  intros H. split.
  - unfold icmp6 in H. destruct (len bs <? 8); [discriminate|].
    destruct (_ <? len bs); [discriminate|].
    destruct (lookup _ _ _); inversion H; reflexivity.
  - rewrite payload_eq. unfold icmp6_payload. rewrite H. split; intros L.
    + apply N.ltb_ge in L. rewrite L. reflexivity.
    + apply N.ltb_lt in L. rewrite L. reflexivity.
Qed.

Lemma ndp_options_full area :
  exists items,
    Ndp.collect (S (length area)) area = Some items /\
    items = parse_opts (length area) area /\
    opts_tile area items /\
    (exists rest, area = ok_bytes items ++ rest /\
       ((rest = [] /\ Forall is_ok items) \/
        (rest <> [] /\ opt_reject rest = true /\
         exists oks, items = oks ++ [IErr (opt_error rest)] /\ Forall is_ok oks))) /\
    Forall (fun i => match i with IOk k s => opt_shape_ok k s /\ Ndp.opt_accessors k s = Ok (opt_view k s)
                     | IErr _ => True | IUB _ => False end) items /\
    ok_count items <= len area / 8.
Proof.
  destruct (ndp_iter_spec area) as [Hc Ht].
  exists (parse_opts (length area) area). repeat split; try assumption.
  - apply tile_split. exact Ht.
  - pose proof (tile_shapes _ _ Ht) as Hs. rewrite Forall_forall in *. intros i Hi.
    specialize (Hs i Hi). destruct i; try assumption.
    split; [exact Hs|apply opt_accessors_spec; exact Hs].
  - apply tile_count_div. exact Ht.
Qed.

(* reject <-> : whatever satisfies the declarative relation is what the iterator yields *)
Lemma ndp_options_unique area items :
  opts_tile area items -> Ndp.collect (S (length area)) area = Some items.
Proof.
  intros H. destruct (ndp_iter_spec area) as [Hc Ht]. rewrite Hc. f_equal.
  eapply tile_det; eassumption.
Qed.

Lemma opt_reject_iff r : r <> [] ->
  (opt_reject r = true <->
   len r < 2 \/ byte_at r 1 = 0 \/ len r < byte_at r 1 * 8 \/
   exists u, opt_fixed_units (byte_at r 0) = Some u /\ byte_at r 1 <> u).
Proof.
  intros Hne. destruct r as [|ty [|lu tl]]; [congruence| |].
  - split; [intros _; left; unfold len; cbn; lia|reflexivity].
  - unfold opt_reject. change (byte_at (ty :: lu :: tl) 1) with lu. change (byte_at (ty :: lu :: tl) 0) with ty.
    rewrite !orb_true_iff, N.eqb_eq, N.ltb_lt. split.
    + intros [[H|H]|H]; [right; left; exact H|right; right; left; exact H|].
      right; right; right. destruct (opt_fixed_units ty) as [u|]; [|discriminate].
      exists u. split; [reflexivity|]. apply negb_true_iff in H. apply N.eqb_neq in H. exact H.
    + intros [H|[H|[H|(u & Hu & H)]]].
      * exfalso. revert H. unfold len. cbn [length]. lia.
      * left; left; exact H.
      * left; right; exact H.
      * right. rewrite Hu. apply negb_true_iff. apply N.eqb_neq. exact H.
Qed.
