(* CtlMsg/NdpOptCtors.v -- property C17, audit round 1 follow-up.

   The typed NDP option slices can be constructed directly from ARBITRARY bytes:
     SourceLinkLayerAddressOptionSlice::from_slice, TargetLinkLayerAddressOptionSlice::from_slice,
     PrefixInformationOptionSlice::from_slice (= length check + PrefixInformation::from_bytes,
     which is also what the owned PrefixInformation::from_slice runs),
     RedirectedHeaderOptionSlice::from_slice, MtuOptionSlice::from_slice,
     UnknownNdpOptionSlice::from_slice
   (models: CtlMsg/Model.v, Ndp.link_layer_from_slice .. Ndp.unknown_from_slice).
   Through the iterator the option id and the length always fit, so the theorems about
   NdpOptionsIterator never see the `UnexpectedHeader` results.  Here: for every byte
   string, each constructor equals a closed form written with the fields at their RFC 4861
   offsets (Type = octet 0, Length = octet 1 in units of 8 octets): which check fails
   first and the exact error record; acceptance is exactly the option shape of
   CtlMsg/Spec.v (`opt_shape_ok`), so the field theorem (Proofs.opt_accessors_spec)
   applies to every directly constructed slice.  No `NUB` (the unwraps behind the length
   checks are unreachable). *)
From EP Require Import Base.Bytes CtlMsg.Spec CtlMsg.Model CtlMsg.Proofs.
From Coq Require Import Lia.
Local Open Scope N_scope.

Import Ndp.

(* ---- closed forms ---------------------------------------------------------------- *)
(* NdpOptionHeader::from_slice on fewer than 2 octets: the option id of the error is the
   first octet, 0 when there is none (byte_at's default is exactly that) *)
Definition hdr_short (s : bytes) : ndp_err := UnexpectedSize (byte_at s 0) 2 (len s).

(* Source / Target link-layer address (expected = 1 / 2), RFC 4861 4.6.1 *)
Definition link_layer_ctor (expected : N) (s : bytes) : nres bytes :=
  if len s <? 2 then NErr (hdr_short s)
  else if negb (byte_at s 0 =? expected) then
    NErr (UnexpectedHeader expected (byte_at s 0) (byte_at s 1) (byte_at s 1))
  else if byte_at s 1 =? 0 then NErr (ZeroLength (byte_at s 0))
  else if negb (byte_at s 1 * 8 =? len s) then NErr (UnexpectedSize (byte_at s 0) (byte_at s 1 * 8) (len s))
  else NOk s.

(* Prefix information, 4.6.2: exactly 32 octets, Type 3, Length 4 *)
Definition prefix_ctor (s : bytes) : nres bytes :=
  if negb (len s =? 32) then NErr (UnexpectedSize 3 32 (len s))
  else if (byte_at s 0 =? 3) && (byte_at s 1 =? 4) then NOk s
  else NErr (UnexpectedHeader 3 (byte_at s 0) 4 (byte_at s 1)).

(* Redirected header, 4.6.3: at least the 8 fixed octets, Type 4, Length * 8 = size *)
Definition redirected_ctor (s : bytes) : nres bytes :=
  if len s <? 8 then NErr (UnexpectedSize 4 8 (len s))
  else if negb (byte_at s 0 =? 4) then NErr (UnexpectedHeader 4 (byte_at s 0) (byte_at s 1) (byte_at s 1))
  else if byte_at s 1 =? 0 then NErr (ZeroLength (byte_at s 0))
  else if negb (byte_at s 1 * 8 =? len s) then NErr (UnexpectedSize (byte_at s 0) (byte_at s 1 * 8) (len s))
  else NOk s.

(* MTU, 4.6.4: exactly 8 octets, Type 5, Length 1 *)
Definition mtu_ctor (s : bytes) : nres bytes :=
  if negb (len s =? 8) then NErr (UnexpectedSize 5 8 (len s))
  else if (byte_at s 0 =? 5) && (byte_at s 1 =? 1) then NOk s
  else NErr (UnexpectedHeader 5 (byte_at s 0) 1 (byte_at s 1)).

(* any other option: only the generic rule, the type is not looked at *)
Definition unknown_ctor (s : bytes) : nres bytes :=
  if len s <? 2 then NErr (hdr_short s)
  else if byte_at s 1 =? 0 then NErr (ZeroLength (byte_at s 0))
  else if negb (byte_at s 1 * 8 =? len s) then NErr (UnexpectedSize (byte_at s 0) (byte_at s 1 * 8) (len s))
  else NOk s.

(* the typed constructors by option kind *)
Definition typed_ctor (k : ndp_kind) (s : bytes) : nres bytes :=
  match k with
  | KSrcLL => link_layer_from_slice 1 s
  | KTgtLL => link_layer_from_slice 2 s
  | KPrefix => prefix_information_from_slice s
  | KRedir => redirected_header_from_slice s
  | KMtu => mtu_from_slice s
  | KUnknownOpt => unknown_from_slice s
  end.
Definition typed_ctor_spec (k : ndp_kind) (s : bytes) : nres bytes :=
  match k with
  | KSrcLL => link_layer_ctor 1 s
  | KTgtLL => link_layer_ctor 2 s
  | KPrefix => prefix_ctor s
  | KRedir => redirected_ctor s
  | KMtu => mtu_ctor s
  | KUnknownOpt => unknown_ctor s
  end.

(* ---- proofs ---------------------------------------------------------------------- *)
Lemma len_lt2_cases (s : bytes) : (len s <? 2) = true -> s = [] \/ exists x, s = [x].
Proof.
  intros H. apply N.ltb_lt in H. destruct s as [|x [|y r]]; [now left|right; now exists x|].
  len_absurd H.
Qed.

Lemma len_cons2 {A} (a b : A) tl : (len (a :: b :: tl) <? 2) = false.
Proof. apply N.ltb_ge. unfold len. cbn [length]. lia. Qed.

Lemma link_layer_ctor_eq expected s : link_layer_from_slice expected s = link_layer_ctor expected s.
Proof.
  unfold link_layer_from_slice, link_layer_ctor, hdr_short.
  destruct (len s <? 2) eqn:E2.
  - destruct (len_lt2_cases s E2) as [->|(x & ->)]; reflexivity.
  - destruct s as [|t [|l tl]]; try discriminate E2.
    cbn [header_from_slice]. change (byte_at (t :: l :: tl) 0) with t. change (byte_at (t :: l :: tl) 1) with l.
    rewrite (N.eqb_sym expected t), (N.eqb_sym 0 l). unfold byte_len. reflexivity.
Qed.

Lemma unknown_ctor_eq s : unknown_from_slice s = unknown_ctor s.
Proof.
  unfold unknown_from_slice, unknown_ctor, hdr_short.
  destruct (len s <? 2) eqn:E2.
  - destruct (len_lt2_cases s E2) as [->|(x & ->)]; reflexivity.
  - destruct s as [|t [|l tl]]; try discriminate E2.
    cbn [header_from_slice]. change (byte_at (t :: l :: tl) 0) with t. change (byte_at (t :: l :: tl) 1) with l.
    rewrite (N.eqb_sym 0 l). unfold byte_len. reflexivity.
Qed.

Lemma redirected_ctor_eq s : redirected_header_from_slice s = redirected_ctor s.
Proof.
  unfold redirected_header_from_slice, redirected_ctor.
  destruct (len s <? 8) eqn:E8; [reflexivity|].
  destruct s as [|t [|l tl]]; try (exfalso; apply N.ltb_ge in E8; revert E8; unfold len; cbn [length]; lia).
  cbn [header_from_slice]. change (byte_at (t :: l :: tl) 0) with t. change (byte_at (t :: l :: tl) 1) with l.
  rewrite (N.eqb_sym 4 t), (N.eqb_sym 0 l). unfold byte_len. reflexivity.
Qed.

Lemma prefix_ctor_eq s : prefix_information_from_slice s = prefix_ctor s.
Proof.
  unfold prefix_information_from_slice, prefix_ctor, PREFIX_INFORMATION_LEN.
  destruct (len s =? 32) eqn:E; cbn [negb]; [|reflexivity].
  apply N.eqb_eq in E.
  destruct s as [|t [|l tl]]; try (exfalso; revert E; unfold len; cbn [length]; lia).
  change (byte_at (t :: l :: tl) 0) with t. change (byte_at (t :: l :: tl) 1) with l. reflexivity.
Qed.

Lemma mtu_ctor_eq s : mtu_from_slice s = mtu_ctor s.
Proof.
  unfold mtu_from_slice, mtu_ctor, MTU_LEN.
  destruct (len s =? 8) eqn:E; cbn [negb]; [|reflexivity].
  apply N.eqb_eq in E.
  destruct s as [|t [|l tl]]; try (exfalso; revert E; unfold len; cbn [length]; lia).
  change (rd (t :: l :: tl) 0) with (Some t). change (rd (t :: l :: tl) 1) with (Some l).
  change (byte_at (t :: l :: tl) 0) with t. change (byte_at (t :: l :: tl) 1) with l.
  cbv beta iota. destruct (t =? 5), (l =? 1); reflexivity.
Qed.

Theorem typed_ctor_eq k s : typed_ctor k s = typed_ctor_spec k s.
Proof.
  destruct k; cbn [typed_ctor typed_ctor_spec].
  - apply link_layer_ctor_eq.
  - apply link_layer_ctor_eq.
  - apply prefix_ctor_eq.
  - apply redirected_ctor_eq.
  - apply mtu_ctor_eq.
  - apply unknown_ctor_eq.
Qed.

(* ---- acceptance = the RFC shape -------------------------------------------------- *)
(* the kind a constructor is for and the first octet *)
Definition kind_type_ok (k : ndp_kind) (ty : N) : Prop :=
  match k with
  | KSrcLL => ty = 1 | KTgtLL => ty = 2 | KPrefix => ty = 3 | KRedir => ty = 4 | KMtu => ty = 5
  | KUnknownOpt => True
  end.

(* accepted: at least Type and Length, Type is the constructor's (any for the unknown
   option slice), Length is not 0, Length * 8 is the size, and the fixed size of the type
   when it has one (3: 4 units, 5: 1 unit; only checked by the constructors of these
   types, the unknown option slice accepts e.g. type 3 with 1 unit) *)
Definition ctor_shape (k : ndp_kind) (s : bytes) : Prop :=
  exists ty lu tl, s = ty :: lu :: tl /\ kind_type_ok k ty /\ lu <> 0 /\ len s = lu * 8 /\
    (k <> KUnknownOpt -> forall u, opt_fixed_units ty = Some u -> lu = u).

Lemma nres_ok_inj (a b : bytes) : @NOk bytes a = NOk b -> a = b.
Proof. intros H. now injection H. Qed.

Theorem typed_ctor_accept_iff k s : (exists r, typed_ctor k s = NOk r) <-> ctor_shape k s.
Proof.
  rewrite typed_ctor_eq. split.
  - intros (r & H).
    destruct k; cbn [typed_ctor_spec] in H;
      unfold link_layer_ctor, prefix_ctor, redirected_ctor, mtu_ctor, unknown_ctor in H.
    + destruct (len s <? 2) eqn:E2; [discriminate|].
      destruct (byte_at s 0 =? 1) eqn:Et; cbn [negb] in H; [|discriminate].
      destruct (byte_at s 1 =? 0) eqn:E0; [discriminate|].
      destruct (byte_at s 1 * 8 =? len s) eqn:El; cbn [negb] in H; [|discriminate].
      destruct s as [|t [|l tl]]; try discriminate E2.
      change (byte_at (t :: l :: tl) 0) with t in *. change (byte_at (t :: l :: tl) 1) with l in *.
      apply N.eqb_eq in Et, El. apply N.eqb_neq in E0. subst t.
      exists 1, l, tl. repeat split; auto. intros _ u Hu. discriminate Hu.
    + destruct (len s <? 2) eqn:E2; [discriminate|].
      destruct (byte_at s 0 =? 2) eqn:Et; cbn [negb] in H; [|discriminate].
      destruct (byte_at s 1 =? 0) eqn:E0; [discriminate|].
      destruct (byte_at s 1 * 8 =? len s) eqn:El; cbn [negb] in H; [|discriminate].
      destruct s as [|t [|l tl]]; try discriminate E2.
      change (byte_at (t :: l :: tl) 0) with t in *. change (byte_at (t :: l :: tl) 1) with l in *.
      apply N.eqb_eq in Et, El. apply N.eqb_neq in E0. subst t.
      exists 2, l, tl. repeat split; auto. intros _ u Hu. discriminate Hu.
    + destruct (len s =? 32) eqn:E; cbn [negb] in H; [|discriminate].
      destruct ((byte_at s 0 =? 3) && (byte_at s 1 =? 4)) eqn:Eh; [|discriminate].
      apply andb_prop in Eh. destruct Eh as (Et & El). apply N.eqb_eq in E, Et, El.
      destruct s as [|t [|l tl]]; try (exfalso; revert E; unfold len; cbn [length]; lia).
      change (byte_at (t :: l :: tl) 0) with t in *. change (byte_at (t :: l :: tl) 1) with l in *.
      subst t l. exists 3, 4, tl. repeat split; auto; try discriminate.
      intros _ u Hu. cbn in Hu. now injection Hu.
    + destruct (len s <? 8) eqn:E8; [discriminate|].
      destruct (byte_at s 0 =? 4) eqn:Et; cbn [negb] in H; [|discriminate].
      destruct (byte_at s 1 =? 0) eqn:E0; [discriminate|].
      destruct (byte_at s 1 * 8 =? len s) eqn:El; cbn [negb] in H; [|discriminate].
      destruct s as [|t [|l tl]]; try (exfalso; apply N.ltb_ge in E8; revert E8; unfold len; cbn [length]; lia).
      change (byte_at (t :: l :: tl) 0) with t in *. change (byte_at (t :: l :: tl) 1) with l in *.
      apply N.eqb_eq in Et, El. apply N.eqb_neq in E0. subst t.
      exists 4, l, tl. repeat split; auto. intros _ u Hu. discriminate Hu.
    + destruct (len s =? 8) eqn:E; cbn [negb] in H; [|discriminate].
      destruct ((byte_at s 0 =? 5) && (byte_at s 1 =? 1)) eqn:Eh; [|discriminate].
      apply andb_prop in Eh. destruct Eh as (Et & El). apply N.eqb_eq in E, Et, El.
      destruct s as [|t [|l tl]]; try (exfalso; revert E; unfold len; cbn [length]; lia).
      change (byte_at (t :: l :: tl) 0) with t in *. change (byte_at (t :: l :: tl) 1) with l in *.
      subst t l. exists 5, 1, tl. repeat split; auto; try discriminate.
      intros _ u Hu. cbn in Hu. now injection Hu.
    + destruct (len s <? 2) eqn:E2; [discriminate|].
      destruct (byte_at s 1 =? 0) eqn:E0; [discriminate|].
      destruct (byte_at s 1 * 8 =? len s) eqn:El; cbn [negb] in H; [|discriminate].
      destruct s as [|t [|l tl]]; try discriminate E2.
      change (byte_at (t :: l :: tl) 1) with l in *.
      apply N.eqb_eq in El. apply N.eqb_neq in E0.
      exists t, l, tl. repeat split; auto. intros X. now destruct X.
  - intros (ty & lu & tl & -> & Hk & H0 & Hl & Hf). exists (ty :: lu :: tl).
    assert (E0 : (lu =? 0) = false) by now apply N.eqb_neq.
    assert (El : (lu * 8 =? len (ty :: lu :: tl)) = true) by (apply N.eqb_eq; now rewrite Hl).
    assert (L8 : 8 <= len (ty :: lu :: tl)) by lia.
    destruct k; cbn [typed_ctor_spec kind_type_ok] in *;
      unfold link_layer_ctor, prefix_ctor, redirected_ctor, mtu_ctor, unknown_ctor;
      rewrite ?len_cons2;
      change (byte_at (ty :: lu :: tl) 0) with ty; change (byte_at (ty :: lu :: tl) 1) with lu;
      try subst ty; rewrite ?E0, ?El; cbn [negb N.eqb Pos.eqb]; try reflexivity.
    + assert (lu = 4) by (apply Hf; [discriminate|reflexivity]). subst lu.
      rewrite Hl. reflexivity.
    + destruct (len (4 :: lu :: tl) <? 8) eqn:E8; [apply N.ltb_lt in E8; lia|reflexivity].
    + assert (lu = 1) by (apply Hf; [discriminate|reflexivity]). subst lu.
      rewrite Hl. reflexivity.
Qed.

(* the accepted slice is the input, and for the five typed kinds it has the option shape
   of the specification, so its accessors return the RFC fields (opt_accessors_spec) *)
Theorem typed_ctor_ok k s r : typed_ctor k s = NOk r ->
  r = s /\ (k <> KUnknownOpt -> opt_shape_ok k s /\ opt_accessors k s = Ok (opt_view k s)).
Proof.
  intros H. assert (Hs : ctor_shape k s) by (apply typed_ctor_accept_iff; eauto).
  split.
  - rewrite typed_ctor_eq in H.
    destruct k; cbn [typed_ctor_spec] in H;
      unfold link_layer_ctor, prefix_ctor, redirected_ctor, mtu_ctor, unknown_ctor in H;
      repeat match type of H with
             | (if ?c then _ else _) = _ => destruct c; try discriminate H
             end; now injection H.
  - intros Hk. destruct Hs as (ty & lu & tl & -> & Ht & H0 & Hl & Hf).
    assert (S : opt_shape_ok k (ty :: lu :: tl)).
    { exists ty, lu, tl. repeat split; auto.
      destruct k; cbn [kind_type_ok] in Ht; try subst ty; try reflexivity. now destruct Hk. }
    split; [exact S|now apply opt_accessors_spec].
Qed.

(* a constructor never reaches one of its unwraps / indexing out of range *)
Theorem typed_ctor_no_ub k s n : typed_ctor k s <> NUB n.
Proof.
  rewrite typed_ctor_eq.
  destruct k; cbn [typed_ctor_spec];
    unfold link_layer_ctor, prefix_ctor, redirected_ctor, mtu_ctor, unknown_ctor;
    repeat match goal with
           | |- (if ?c then _ else _) <> _ => destruct c
           end; discriminate.
Qed.

(* ---- ICMPv4: RFC-assigned types without a typed view, against the MODEL --------------- *)
(* Icmpv4Slice::from_slice + icmp_type() hand every message of an assigned-but-untyped type
   (4 source quench, 6 alternate host address, 9/10 router discovery, 15/16 information,
   17/18 address mask) out in the raw form, with every code, header length 8 *)
Theorem icmp4_untyped_raw_model bs : 8 <= len bs -> In (byte_at bs 0) icmp4_untyped_assigned ->
  Icmpv4Slice.view bs =
    Ok (V4Unknown (byte_at bs 0) (byte_at bs 1) (byte_at bs 4) (byte_at bs 5) (byte_at bs 6) (byte_at bs 7),
        8, drop 8 bs).
Proof.
  intros H8 Hin. destruct (icmp4_untyped_raw _ (byte_at bs 1) Hin) as (A & B).
  now apply icmp4_unassigned.
Qed.
