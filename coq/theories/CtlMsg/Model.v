(* CtlMsg/Model.v -- transliteration of the Rust functions of etherparse that
   property C17 is about.  Function by function, same order of tests, same
   fall-through structure.  Slices are byte lists; `usize` is unbounded N.
   Every unchecked read (`get_unchecked`, `*ptr.add(i)`, `from_raw_parts`),
   `unwrap`, index `[i]` / `[a..]` and `assume_init` is partial: it yields
   None here and `UB <site>` in the caller; the theorems show that these are
   unreachable.  The result vocabulary (enums, error records) is the one of
   Spec.v; no function of Spec.v other than the big-endian combinators
   be16/be32 of Base is used.

   sources: transport/icmpv4_slice.rs, transport/icmpv6_slice.rs,
   transport/icmpv6/*.rs, transport/icmpv6/icmpv6_payload_slice/*.rs,
   transport/icmpv6/ndp_options_iterator.rs, transport/icmpv6/ndp_option/*.rs,
   transport/igmp_header.rs, transport/igmp/*.rs, net/arp_packet_slice.rs,
   net/arp_packet.rs, net/arp_eth_ipv4_packet.rs *)
From EP Require Import Base.Bytes CtlMsg.Spec.
Local Open Scope N_scope.

(* *slice.get_unchecked(i) / *ptr.add(i) *)
Definition get_unchecked (s : bytes) (i : N) : option N := rd s i.
(* get_unchecked_be_u16(ptr.add(i)) *)
Definition get_unchecked_be_u16 (s : bytes) (i : N) : option N :=
  match rd s i, rd s (i + 1) with
  | Some a, Some b => Some (be16 a b)
  | _, _ => None
  end.
Definition get_unchecked_be_u32 (s : bytes) (i : N) : option N :=
  match rd s i, rd s (i + 1), rd s (i + 2), rd s (i + 3) with
  | Some a, Some b, Some c, Some d => Some (be32 a b c d)
  | _, _, _, _ => None
  end.
(* [*s.get_unchecked(i), .., *s.get_unchecked(i+3)] *)
Definition get4_unchecked (s : bytes) (i : N) : option (N * N * N * N) :=
  match rd s i, rd s (i + 1), rd s (i + 2), rd s (i + 3) with
  | Some a, Some b, Some c, Some d => Some (a, b, c, d)
  | _, _, _, _ => None
  end.
(* core::slice::from_raw_parts(ptr.add(off), n): in bounds or undefined *)
Definition from_raw_parts (s : bytes) (off n : N) : option bytes :=
  if off + n <=? len s then Some (take n (drop off s)) else None.
(* &slice[off..] : panics if off > len *)
Definition slice_from (s : bytes) (off : N) : option bytes :=
  if off <=? len s then Some (drop off s) else None.
(* slice.first_chunk::<n>() *)
Definition first_chunk (s : bytes) (n : N) : option bytes :=
  if n <=? len s then Some (take n s) else None.
(* (b & mask) != 0  and  (b & mask) == mask *)
Definition mask_ne0 (b m : N) : bool := negb (N.land b m =? 0).
Definition mask_eq (b m : N) : bool := N.land b m =? m.

(* ================================================================== *)
(* transport/icmpv4_slice.rs                                            *)
Module Icmpv4Slice.

  Definition MIN_LEN : N := 8.            (* Icmpv4Header::MIN_LEN *)
  Definition TIMESTAMP_LEN : N := 20.     (* TimestampMessage::LEN *)

  (* from_slice: the slice itself is the state of Icmpv4Slice *)
  Definition from_slice (slice : bytes) : res bytes :=
    if len slice <? MIN_LEN then
      ErrLen (mkLenError MIN_LEN (len slice) LsSlice LIcmpv4 0)
    else
      match get_unchecked slice 0, get_unchecked slice 1 with
      | Some icmp_type, Some icmp_code =>
          match icmp_type with
          | 13 => (* TYPE_TIMESTAMP if 0 == icmp_code && LEN != slice.len() *)
              if (0 =? icmp_code) && negb (TIMESTAMP_LEN =? len slice) then
                ErrLen (mkLenError TIMESTAMP_LEN (len slice) LsSlice LIcmpv4Timestamp 0)
              else Ok slice
          | 14 =>
              if (0 =? icmp_code) && negb (TIMESTAMP_LEN =? len slice) then
                ErrLen (mkLenError TIMESTAMP_LEN (len slice) LsSlice LIcmpv4TimestampReply 0)
              else Ok slice
          | _ => Ok slice
          end
      | _, _ => UB 1
      end.

  Definition type_u8 (s : bytes) : option N := get_unchecked s 0.
  Definition code_u8 (s : bytes) : option N := get_unchecked s 1.
  Definition checksum (s : bytes) : option N := get_unchecked_be_u16 s 2.
  Definition bytes5to8 (s : bytes) : option (N * N * N * N) := get4_unchecked s 4.

  Definition timestamp_message (s : bytes) : option TimestampMessage :=
    match get_unchecked_be_u16 s 4, get_unchecked_be_u16 s 6,
          get_unchecked_be_u32 s 8, get_unchecked_be_u32 s 12, get_unchecked_be_u32 s 16 with
    | Some id, Some seq, Some o, Some r, Some t => Some (mkTimestamp id seq o r t)
    | _, _, _, _, _ => None
    end.

  (* IcmpEchoHeader::from_bytes(self.bytes5to8()) *)
  Definition echo_from (s : bytes) (mk : N -> N -> Icmpv4Type) : res Icmpv4Type :=
    match bytes5to8 s with
    | Some (a, b, c, d) => Ok (mk (be16 a b) (be16 c d))
    | None => UB 2
    end.

  Definition unknown (s : bytes) (t c : N) : res Icmpv4Type :=
    match bytes5to8 s with
    | Some (b4, b5, b6, b7) => Ok (V4Unknown t c b4 b5 b6 b7)
    | None => UB 3
    end.

  Definition icmp_type (s : bytes) : res Icmpv4Type :=
    match type_u8 s, code_u8 s with
    | Some t, Some c =>
        let du h := Ok (V4DestinationUnreachable h) in
        match t with
        | 0 => if 0 =? c then echo_from s V4EchoReply else unknown s t c
        | 3 =>
            match c with
            | 0 => du DuNetwork
            | 1 => du DuHost
            | 2 => du DuProtocol
            | 3 => du DuPort
            | 4 => match get_unchecked_be_u16 s 6 with
                   | Some m => du (DuFragmentationNeeded m)
                   | None => UB 4
                   end
            | 5 => du DuSourceRouteFailed
            | 6 => du DuNetworkUnknown
            | 7 => du DuHostUnknown
            | 8 => du DuIsolated
            | 9 => du DuNetworkProhibited
            | 10 => du DuHostProhibited
            | 11 => du DuTosNetwork
            | 12 => du DuTosHost
            | 13 => du DuFilterProhibited
            | 14 => du DuHostPrecedenceViolation
            | 15 => du DuPrecedenceCutoff
            | _ => unknown s t c
            end
        | 5 =>
            let code := match c with
                        | 0 => Some RedirectForNetwork
                        | 1 => Some RedirectForHost
                        | 2 => Some RedirectForTypeOfServiceAndNetwork
                        | 3 => Some RedirectForTypeOfServiceAndHost
                        | _ => None
                        end in
            match code with
            | Some code =>
                match bytes5to8 s with
                | Some (a, b, c', d) => Ok (V4Redirect code a b c' d)
                | None => UB 5
                end
            | None => unknown s t c
            end
        | 8 => if 0 =? c then echo_from s V4EchoRequest else unknown s t c
        | 11 =>
            match c with
            | 0 => Ok (V4TimeExceeded TtlExceededInTransit)
            | 1 => Ok (V4TimeExceeded FragmentReassemblyTimeExceeded4)
            | _ => unknown s t c
            end
        | 12 =>
            match c with
            | 0 => match get_unchecked s 4 with
                   | Some p => Ok (V4ParameterProblem (PointerIndicatesError p))
                   | None => UB 6
                   end
            | 1 => Ok (V4ParameterProblem MissingRequiredOption)
            | 2 => Ok (V4ParameterProblem BadLength)
            | _ => unknown s t c
            end
        | 13 =>
            if 0 =? c then
              match timestamp_message s with
              | Some m => Ok (V4TimestampRequest m)
              | None => UB 7
              end
            else unknown s t c
        | 14 =>
            if 0 =? c then
              match timestamp_message s with
              | Some m => Ok (V4TimestampReply m)
              | None => UB 8
              end
            else unknown s t c
        | _ => unknown s t c
        end
    | _, _ => UB 9
    end.

  (* header_len() and the header length inlined in payload() *)
  Definition header_len (s : bytes) : option N :=
    match type_u8 s, code_u8 s with
    | Some t, Some c =>
        match t with
        | 13 | 14 => if 0 =? c then Some TIMESTAMP_LEN else Some 8
        | _ => Some 8
        end
    | _, _ => None
    end.

  (* from_raw_parts(ptr.add(header_len), len - header_len): the subtraction is a
     usize subtraction, a negative value would wrap and is out of bounds *)
  Definition payload (s : bytes) : option bytes :=
    match header_len s with
    | Some h => if h <=? len s then from_raw_parts s h (len s - h) else None
    | None => None
    end.

  (* what a caller observes: from_slice, then icmp_type(), header_len(), payload() *)
  Definition view (bs : bytes) : res (Icmpv4Type * N * bytes) :=
    match from_slice bs with
    | Ok s =>
        match icmp_type s with
        | Ok ty =>
            match header_len s, payload s with
            | Some h, Some p => Ok (ty, h, p)
            | _, _ => UB 10
            end
        | ErrLen e => ErrLen e
        | UB n => UB n
        end
    | ErrLen e => ErrLen e
    | UB n => UB n
    end.
End Icmpv4Slice.

(* ================================================================== *)
(* transport/icmpv6_slice.rs, icmpv6/{dest_unreachable,time_exceeded,parameter_problem}_code.rs *)
Module Icmpv6Slice.

  Definition MIN_LEN : N := 8.
  Definition MAX_ICMPV6_BYTE_LEN : N := 4294967295.   (* u32::MAX as usize *)

  Definition from_slice (slice : bytes) : res bytes :=
    if len slice <? MIN_LEN then
      ErrLen (mkLenError MIN_LEN (len slice) LsSlice LIcmpv6 0)
    else if MAX_ICMPV6_BYTE_LEN <? len slice then
      ErrLen (mkLenError MAX_ICMPV6_BYTE_LEN (len slice) LsSlice LIcmpv6 0)
    else Ok slice.

  Definition DestUnreachableCode_from_u8 (c : N) : option DestUnreachableCode6 :=
    match c with
    | 0 => Some NoRoute | 1 => Some Prohibited | 2 => Some BeyondScope | 3 => Some Address6
    | 4 => Some Port6 | 5 => Some SourceAddressFailedPolicy | 6 => Some RejectRoute
    | _ => None
    end.
  Definition TimeExceededCode_from_u8 (c : N) : option TimeExceededCode6 :=
    match c with
    | 0 => Some HopLimitExceeded | 1 => Some FragmentReassemblyTimeExceeded6 | _ => None
    end.
  Definition ParameterProblemCode_from_u8 (c : N) : option ParameterProblemCode6 :=
    match c with
    | 0 => Some ErroneousHeaderField | 1 => Some UnrecognizedNextHeader
    | 2 => Some UnrecognizedIpv6Option | 3 => Some Ipv6FirstFragmentIncompleteHeaderChain
    | 4 => Some SrUpperLayerHeaderError | 5 => Some UnrecognizedNextHeaderByIntermediateNode
    | 6 => Some ExtensionHeaderTooBig | 7 => Some ExtensionHeaderChainTooLong
    | 8 => Some TooManyExtensionHeaders | 9 => Some TooManyOptionsInExtensionHeader
    | 10 => Some OptionTooBig
    | _ => None
    end.

  Definition type_u8 (s : bytes) : option N := get_unchecked s 0.
  Definition code_u8 (s : bytes) : option N := get_unchecked s 1.
  Definition checksum (s : bytes) : option N := get_unchecked_be_u16 s 2.
  Definition bytes5to8 (s : bytes) : option (N * N * N * N) := get4_unchecked s 4.

  (* RouterAdvertisementHeader::from_bytes *)
  Definition RouterAdvertisementHeader_from_bytes (a b c d : N) : Icmpv6Type :=
    V6RouterAdvertisement a (mask_ne0 b 128) (mask_ne0 b 64) (be16 c d).
  (* NeighborAdvertisementHeader::from_bytes *)
  Definition NeighborAdvertisementHeader_from_bytes (a b c d : N) : Icmpv6Type :=
    V6NeighborAdvertisement (mask_eq a 128) (mask_eq a 64) (mask_eq a 32).

  Definition with_bytes (s : bytes) (f : N -> N -> N -> N -> Icmpv6Type) : res Icmpv6Type :=
    match bytes5to8 s with
    | Some (a, b, c, d) => Ok (f a b c d)
    | None => UB 20
    end.
  Definition unknown (s : bytes) (t c : N) : res Icmpv6Type := with_bytes s (V6Unknown t c).

  Definition icmp_type (s : bytes) : res Icmpv6Type :=
    match type_u8 s, code_u8 s with
    | Some t, Some c =>
        match t with
        | 1 => match DestUnreachableCode_from_u8 c with
               | Some code => Ok (V6DestinationUnreachable code)
               | None => unknown s t c
               end
        | 2 => if 0 =? c then with_bytes s (fun a b c' d => V6PacketTooBig (be32 a b c' d))
               else unknown s t c
        | 3 => match TimeExceededCode_from_u8 c with
               | Some code => Ok (V6TimeExceeded code)
               | None => unknown s t c
               end
        | 4 => match ParameterProblemCode_from_u8 c with
               | Some code => with_bytes s (fun a b c' d => V6ParameterProblem code (be32 a b c' d))
               | None => unknown s t c
               end
        | 128 => if 0 =? c then with_bytes s (fun a b c' d => V6EchoRequest (be16 a b) (be16 c' d))
                 else unknown s t c
        | 129 => if 0 =? c then with_bytes s (fun a b c' d => V6EchoReply (be16 a b) (be16 c' d))
                 else unknown s t c
        | 133 => if 0 =? c then Ok V6RouterSolicitation else unknown s t c
        | 134 => if 0 =? c then with_bytes s RouterAdvertisementHeader_from_bytes else unknown s t c
        | 135 => if 0 =? c then Ok V6NeighborSolicitation else unknown s t c
        | 136 => if 0 =? c then with_bytes s NeighborAdvertisementHeader_from_bytes else unknown s t c
        | 137 => if 0 =? c then Ok V6Redirect else unknown s t c
        | _ => unknown s t c
        end
    | _, _ => UB 21
    end.

  (* from_raw_parts(ptr.add(8), len - 8) *)
  Definition payload (s : bytes) : option bytes :=
    if 8 <=? len s then from_raw_parts s 8 (len s - 8) else None.

  Definition view (bs : bytes) : res (Icmpv6Type * bytes) :=
    match from_slice bs with
    | Ok s =>
        match icmp_type s with
        | Ok ty => match payload s with Some p => Ok (ty, p) | None => UB 22 end
        | ErrLen e => ErrLen e
        | UB n => UB n
        end
    | ErrLen e => ErrLen e
    | UB n => UB n
    end.
End Icmpv6Slice.

(* ================================================================== *)
(* transport/icmpv6/icmpv6_payload_slice/*.rs                           *)
Module Icmpv6PayloadSlice.
  Import Icmpv6Slice.

  (* each XxxPayloadSlice { slice } ; the enum Icmpv6PayloadSlice is kind x slice *)
  Definition t := (ps_kind * bytes)%type.

  (* XxxPayloadSlice::from_slice with FIXED_PART_LEN = n (n = 0: no check at all) *)
  Definition fixed_from_slice (k : ps_kind) (n : N) (slice : bytes) : res t :=
    if len slice <? n then ErrLen (mkLenError n (len slice) LsSlice LIcmpv6 0)
    else Ok (k, slice).
  Definition plain_from_slice (k : ps_kind) (slice : bytes) : res t := Ok (k, slice).

  Definition RA_FIXED_PART_LEN : N := 8.      (* RouterAdvertisementPayload::LEN *)
  Definition NS_FIXED_PART_LEN : N := 16.     (* NeighborSolicitationPayload::LEN *)
  Definition NA_FIXED_PART_LEN : N := 16.     (* NeighborAdvertisementPayload::LEN *)
  Definition REDIRECT_FIXED_PART_LEN : N := 32. (* RedirectPayload::LEN *)

  Definition is_some {A} (o : option A) : bool := match o with Some _ => true | None => false end.

  (* Icmpv6PayloadSlice::from_type_u8 *)
  Definition from_type_u8 (type_u8 code_u8 : N) (payload : bytes) : res t :=
    match type_u8 with
    | 1 => if is_some (DestUnreachableCode_from_u8 code_u8)
           then plain_from_slice PkDestinationUnreachable payload else Ok (PkRaw, payload)
    | 2 => if 0 =? code_u8 then plain_from_slice PkPacketTooBig payload else Ok (PkRaw, payload)
    | 3 => if is_some (TimeExceededCode_from_u8 code_u8)
           then plain_from_slice PkTimeExceeded payload else Ok (PkRaw, payload)
    | 4 => if is_some (ParameterProblemCode_from_u8 code_u8)
           then plain_from_slice PkParameterProblem payload else Ok (PkRaw, payload)
    | 128 => if 0 =? code_u8 then plain_from_slice PkEchoRequest payload else Ok (PkRaw, payload)
    | 129 => if 0 =? code_u8 then plain_from_slice PkEchoReply payload else Ok (PkRaw, payload)
    | 133 => if 0 =? code_u8 then plain_from_slice PkRouterSolicitation payload else Ok (PkRaw, payload)
    | 134 => if 0 =? code_u8 then fixed_from_slice PkRouterAdvertisement RA_FIXED_PART_LEN payload
             else Ok (PkRaw, payload)
    | 135 => if 0 =? code_u8 then fixed_from_slice PkNeighborSolicitation NS_FIXED_PART_LEN payload
             else Ok (PkRaw, payload)
    | 136 => if 0 =? code_u8 then fixed_from_slice PkNeighborAdvertisement NA_FIXED_PART_LEN payload
             else Ok (PkRaw, payload)
    | 137 => if 0 =? code_u8 then fixed_from_slice PkRedirect REDIRECT_FIXED_PART_LEN payload
             else Ok (PkRaw, payload)
    | _ => Ok (PkRaw, payload)
    end.

  (* Icmpv6PayloadSlice::from_slice(&Icmpv6Type, payload) *)
  Definition from_slice (ty : Icmpv6Type) (payload : bytes) : res t :=
    match ty with
    | V6DestinationUnreachable _ => plain_from_slice PkDestinationUnreachable payload
    | V6PacketTooBig _ => plain_from_slice PkPacketTooBig payload
    | V6TimeExceeded _ => plain_from_slice PkTimeExceeded payload
    | V6ParameterProblem _ _ => plain_from_slice PkParameterProblem payload
    | V6EchoRequest _ _ => plain_from_slice PkEchoRequest payload
    | V6EchoReply _ _ => plain_from_slice PkEchoReply payload
    | V6RouterSolicitation => plain_from_slice PkRouterSolicitation payload
    | V6RouterAdvertisement _ _ _ _ => fixed_from_slice PkRouterAdvertisement RA_FIXED_PART_LEN payload
    | V6NeighborSolicitation => fixed_from_slice PkNeighborSolicitation NS_FIXED_PART_LEN payload
    | V6NeighborAdvertisement _ _ _ => fixed_from_slice PkNeighborAdvertisement NA_FIXED_PART_LEN payload
    | V6Redirect => fixed_from_slice PkRedirect REDIRECT_FIXED_PART_LEN payload
    | V6Unknown _ _ _ _ _ _ => Ok (PkRaw, payload)
    end.

  (* u32::from_be_bytes( *slice[off..].first_chunk().unwrap()) *)
  Definition be_u32_at (s : bytes) (off : N) : option N :=
    match slice_from s off with
    | Some r =>
        match first_chunk r 4 with
        | Some [a; b; c; d] => Some (be32 a b c d)
        | _ => None
        end
    | None => None
    end.
  (* Ipv6Addr::from( *slice[off..].first_chunk().unwrap()) *)
  Definition addr_at (s : bytes) (off : N) : option bytes :=
    match slice_from s off with
    | Some r => first_chunk r 16
    | None => None
    end.

  (* all accessors of the typed payload slice: reachable_time(), retrans_timer(),
     target_address(), destination_address(), options() *)
  Definition accessors (p : t) : res pview :=
    let '(k, s) := p in
    match k with
    | PkRouterSolicitation => Ok (PvRouterSolicitation s)
    | PkRouterAdvertisement =>
        match be_u32_at s 0, be_u32_at s 4, slice_from s RA_FIXED_PART_LEN with
        | Some r, Some t, Some o => Ok (PvRouterAdvertisement r t o)
        | _, _, _ => UB 30
        end
    | PkNeighborSolicitation =>
        match addr_at s 0, slice_from s NS_FIXED_PART_LEN with
        | Some a, Some o => Ok (PvNeighborSolicitation a o)
        | _, _ => UB 31
        end
    | PkNeighborAdvertisement =>
        match addr_at s 0, slice_from s NA_FIXED_PART_LEN with
        | Some a, Some o => Ok (PvNeighborAdvertisement a o)
        | _, _ => UB 32
        end
    | PkRedirect =>
        match addr_at s 0, addr_at s 16, slice_from s REDIRECT_FIXED_PART_LEN with
        | Some a, Some d, Some o => Ok (PvRedirect a d o)
        | _, _, _ => UB 33
        end
    | _ => Ok (PvWhole k s)
    end.

  (* Icmpv6Slice::payload_slice() followed by the accessors *)
  Definition payload_slice_view (bs : bytes) : res pview :=
    match Icmpv6Slice.from_slice bs with
    | Ok s =>
        match type_u8 s, code_u8 s, payload s with
        | Some t, Some c, Some p =>
            match from_type_u8 t c p with
            | Ok ps => accessors ps
            | ErrLen e => ErrLen e
            | UB n => UB n
            end
        | _, _, _ => UB 34
        end
    | ErrLen e => ErrLen e
    | UB n => UB n
    end.

  (* the other route: icmp_type() then Icmpv6PayloadSlice::from_slice *)
  Definition payload_slice_view_by_type (bs : bytes) : res pview :=
    match Icmpv6Slice.view bs with
    | Ok (ty, p) =>
        match from_slice ty p with
        | Ok ps => accessors ps
        | ErrLen e => ErrLen e
        | UB n => UB n
        end
    | ErrLen e => ErrLen e
    | UB n => UB n
    end.
End Icmpv6PayloadSlice.

(* ================================================================== *)
(* transport/icmpv6/ndp_option/*.rs, ndp_options_iterator.rs            *)
Module Ndp.

  Inductive nres (A : Type) : Type := NOk (a : A) | NErr (e : ndp_err) | NUB (site : N).
  Arguments NOk {A} _.
  Arguments NErr {A} _.
  Arguments NUB {A} _.

  Definition NDP_OPTION_HEADER_LEN : N := 2.

  (* NdpOptionHeader::from_slice: split_first_chunk::<2>() *)
  Definition header_from_slice (slice : bytes) : nres (N * N) :=
    match slice with
    | t :: l :: _ => NOk (t, l)
    | _ => NErr (UnexpectedSize (match slice with x :: _ => x | [] => 0 end)   (* first().copied().unwrap_or(0) *)
                   NDP_OPTION_HEADER_LEN (len slice))
    end.
  (* NdpOptionHeader::byte_len: (length_units as usize) * 8 *)
  Definition byte_len (length_units : N) : N := length_units * 8.

  (* Source/TargetLinkLayerAddressOptionSlice::from_slice (expected = 1 / 2) *)
  Definition link_layer_from_slice (expected : N) (slice : bytes) : nres bytes :=
    match header_from_slice slice with
    | NOk (ty, lu) =>
        if negb (expected =? ty) then NErr (UnexpectedHeader expected ty lu lu)
        else if 0 =? lu then NErr (ZeroLength ty)
        else if negb (byte_len lu =? len slice) then NErr (UnexpectedSize ty (byte_len lu) (len slice))
        else NOk slice
    | NErr e => NErr e
    | NUB n => NUB n
    end.

  (* PrefixInformationOptionSlice::from_slice + PrefixInformation::from_bytes *)
  Definition PREFIX_INFORMATION_LEN : N := 32.
  Definition prefix_information_from_slice (slice : bytes) : nres bytes :=
    if negb (len slice =? PREFIX_INFORMATION_LEN) then       (* try_into::<&[u8;32]>() *)
      NErr (UnexpectedSize 3 PREFIX_INFORMATION_LEN (len slice))
    else
      match slice with
      | t :: l :: _ =>                                        (* split_first_chunk::<2>().unwrap() *)
          if (t =? 3) && (l =? 4) then NOk slice
          else NErr (UnexpectedHeader 3 t 4 l)
      | _ => NUB 40
      end.

  (* RedirectedHeaderOptionSlice::from_slice *)
  Definition redirected_header_from_slice (slice : bytes) : nres bytes :=
    if len slice <? 8 then NErr (UnexpectedSize 4 8 (len slice))
    else
      match header_from_slice slice with
      | NOk (ty, lu) =>
          if negb (4 =? ty) then NErr (UnexpectedHeader 4 ty lu lu)
          else if 0 =? lu then NErr (ZeroLength ty)
          else if negb (byte_len lu =? len slice) then NErr (UnexpectedSize ty (byte_len lu) (len slice))
          else NOk slice
      | NErr e => NErr e
      | NUB n => NUB n
      end.

  (* MtuOptionSlice::from_slice *)
  Definition MTU_LEN : N := 8.
  Definition mtu_from_slice (slice : bytes) : nres bytes :=
    if negb (len slice =? MTU_LEN) then NErr (UnexpectedSize 5 MTU_LEN (len slice))
    else
      match rd slice 0, rd slice 1 with                       (* slice[0], slice[1] on [u8;8] *)
      | Some t, Some l =>
          if negb (t =? 5) || negb (l =? 1) then NErr (UnexpectedHeader 5 t 1 l)
          else NOk slice
      | _, _ => NUB 41
      end.

  (* UnknownNdpOptionSlice::from_slice *)
  Definition unknown_from_slice (slice : bytes) : nres bytes :=
    match header_from_slice slice with
    | NOk (ty, lu) =>
        if 0 =? lu then NErr (ZeroLength ty)
        else if negb (byte_len lu =? len slice) then NErr (UnexpectedSize ty (byte_len lu) (len slice))
        else NOk slice
    | NErr e => NErr e
    | NUB n => NUB n
    end.

  (* slice.split_at_checked(n) *)
  Definition split_at_checked (s : bytes) (n : N) : option (bytes * bytes) :=
    if n <=? len s then Some (take n s, drop n s) else None.

  (* NdpOptionsIterator { options }: the state is the remaining byte list.
     parse_next_option returns the parsed option and the new state *)
  Definition parse_next_option (options : bytes) : nres (ndp_kind * bytes * bytes) :=
    match header_from_slice options with
    | NOk (option_id, length_units) =>
        if 0 =? length_units then NErr (ZeroLength option_id)
        else
          let option_len := byte_len length_units in
          match split_at_checked options option_len with
          | None => NErr (UnexpectedEndOfSlice option_id option_len (len options))
          | Some (option, rest) =>
              let parsed :=
                match option_id with
                | 1 => match link_layer_from_slice 1 option with
                       | NOk s => NOk (KSrcLL, s) | NErr e => NErr e | NUB n => NUB n end
                | 2 => match link_layer_from_slice 2 option with
                       | NOk s => NOk (KTgtLL, s) | NErr e => NErr e | NUB n => NUB n end
                | 3 => match prefix_information_from_slice option with
                       | NOk s => NOk (KPrefix, s) | NErr e => NErr e | NUB n => NUB n end
                | 4 => match redirected_header_from_slice option with
                       | NOk s => NOk (KRedir, s) | NErr e => NErr e | NUB n => NUB n end
                | 5 => match mtu_from_slice option with
                       | NOk s => NOk (KMtu, s) | NErr e => NErr e | NUB n => NUB n end
                | _ => match unknown_from_slice option with
                       | NOk s => NOk (KUnknownOpt, s) | NErr e => NErr e | NUB n => NUB n end
                end in
              match parsed with
              | NOk (k, s) => NOk (k, s, rest)              (* self.options = rest *)
              | NErr e => NErr e
              | NUB n => NUB n
              end
          end
    | NErr e => NErr e
    | NUB n => NUB n
    end.

  (* Iterator::next: None when empty; on error the iterator empties itself *)
  Definition next (options : bytes) : option (item * bytes) :=
    match options with
    | [] => None
    | _ =>
        match parse_next_option options with
        | NOk (k, s, rest) => Some (IOk k s, rest)
        | NErr e => Some (IErr e, [])
        | NUB n => Some (IUB n, [])
        end
    end.

  (* running the iterator to its end; None = out of fuel *)
  Fixpoint collect (fuel : nat) (options : bytes) : option (list item) :=
    match fuel with
    | O => None
    | S f =>
        match next options with
        | None => Some []
        | Some (it, options') =>
            match collect f options' with
            | Some l => Some (it :: l)
            | None => None
            end
        end
    end.

  (* accessors of the option slices *)
  Definition opt_accessors (k : ndp_kind) (s : bytes) : res oview :=
    match k with
    | KSrcLL | KTgtLL =>                                       (* link_layer_address(): &slice[2..] *)
        match slice_from s NDP_OPTION_HEADER_LEN with
        | Some a => Ok (OvLinkLayer k a)
        | None => UB 50
        end
    | KPrefix =>                                              (* slice is a [u8;32] *)
        match rd s 2, rd s 3, slice_from s 16 with
        | Some pl, Some fl, Some r16 =>
            match Icmpv6PayloadSlice.be_u32_at s 4, Icmpv6PayloadSlice.be_u32_at s 8, first_chunk r16 16 with
            | Some v, Some p, Some pre => Ok (OvPrefix pl (mask_ne0 fl 128) (mask_ne0 fl 64) v p pre)
            | _, _, _ => UB 51
            end
        | _, _, _ => UB 52
        end
    | KRedir =>                                               (* redirected_packet(): &slice[8..] *)
        match slice_from s 8 with
        | Some p => Ok (OvRedirected p)
        | None => UB 53
        end
    | KMtu =>                                                 (* [slice[4], slice[5], slice[6], slice[7]] *)
        match get_unchecked_be_u32 s 4 with
        | Some m => Ok (OvMtu m)
        | None => UB 54
        end
    | KUnknownOpt =>                                          (* option_type(): slice[0]; data(): &slice[2..] *)
        match rd s 0, slice_from s NDP_OPTION_HEADER_LEN with
        | Some t, Some d => Ok (OvUnknown t d)
        | _, _ => UB 55
        end
    end.
End Ndp.

(* ================================================================== *)
(* transport/igmp_header.rs, igmp/*.rs                                  *)
Module Igmp.

  Definition MIN_LEN : N := 8.
  Definition QUERY_LEN : N := 8.                  (* MembershipQueryType::LEN *)
  Definition QUERY_WITH_SOURCES_LEN : N := 12.    (* MembershipQueryWithSourcesHeader::LEN *)

  (* the rest after n header bytes: from_raw_parts(ptr.add(n), len - n) *)
  Definition rest_after (slice : bytes) (n : N) : option bytes :=
    if n <=? len slice then from_raw_parts slice n (len slice - n) else None.

  (* IgmpHeader::from_slice : (igmp_type, checksum, rest) *)
  Definition from_slice (slice : bytes) : res (IgmpType * N * bytes) :=
    if len slice <? MIN_LEN then ErrLen (mkLenError MIN_LEN (len slice) LsSlice LIgmp 0)
    else
      match get_unchecked slice 0, get_unchecked slice 1,
            get_unchecked slice 2, get_unchecked slice 3,
            get4_unchecked slice 4 with
      | Some type_u8, Some max_resp, Some c0, Some c1, Some (g0, g1, g2, g3) =>
          let checksum := be16 c0 c1 in
          let with_rest (ty : IgmpType) :=
            match rest_after slice MIN_LEN with
            | Some r => Ok (ty, checksum, r)
            | None => UB 60
            end in
          match type_u8 with
          | 17 =>
              if QUERY_LEN =? len slice then with_rest (IgMembershipQuery max_resp g0 g1 g2 g3)
              else if QUERY_WITH_SOURCES_LEN <=? len slice then
                match get_unchecked slice 8, get_unchecked slice 9, get_unchecked_be_u16 slice 10,
                      rest_after slice QUERY_WITH_SOURCES_LEN with
                | Some raw_byte_8, Some qqic, Some num_of_sources, Some r =>
                    Ok (IgMembershipQueryWithSources max_resp g0 g1 g2 g3 raw_byte_8 qqic num_of_sources,
                        checksum, r)
                | _, _, _, _ => UB 61
                end
              else ErrLen (mkLenError QUERY_WITH_SOURCES_LEN (len slice) LsSlice LIgmp 0)
          | 18 => with_rest (IgMembershipReportV1 g0 g1 g2 g3)
          | 22 => with_rest (IgMembershipReportV2 g0 g1 g2 g3)
          | 23 => with_rest (IgLeaveGroup g0 g1 g2 g3)
          | 34 =>
              match get_unchecked slice 4, get_unchecked slice 5, get_unchecked_be_u16 slice 6 with
              | Some f0, Some f1, Some n => with_rest (IgMembershipReportV3 f0 f1 n)
              | _, _, _ => UB 62
              end
          | _ => with_rest (IgUnknown type_u8 max_resp g0 g1 g2 g3)
          end
      | _, _, _, _, _ => UB 63
      end.

  (* IgmpHeader::header_len *)
  Definition header_len (ty : IgmpType) : N :=
    match ty with
    | IgMembershipQueryWithSources _ _ _ _ _ _ _ _ => 12
    | _ => 8
    end.

  Definition view (bs : bytes) : res (IgmpType * N * N * bytes) :=
    match from_slice bs with
    | Ok (ty, ck, r) => Ok (ty, ck, header_len ty, r)
    | ErrLen e => ErrLen e
    | UB n => UB n
    end.

  (* ReportGroupRecordV3Header::from_slice *)
  Definition group_record_from_slice (slice : bytes) : res (GroupRecord * bytes) :=
    if len slice <? 8 then ErrLen (mkLenError 8 (len slice) LsSlice LIgmp 0)
    else
      match get_unchecked slice 0, get_unchecked slice 1, get_unchecked_be_u16 slice 2,
            get4_unchecked slice 4, rest_after slice 8 with
      | Some t, Some a, Some n, Some (x0, x1, x2, x3), Some r =>
          Ok (mkGroupRecord t a n x0 x1 x2 x3, r)
      | _, _, _, _, _ => UB 64
      end.

  (* MaxResponseCode::as_10th_secs (u16 arithmetic: the shift result is narrowed) *)
  Definition as_10th_secs (c : N) : N :=
    if negb (N.land c 128 =? 0) then
      (N.shiftl (N.lor (N.land c 15) 16) (N.shiftr (N.land c 112) 4 + 3)) mod 65536
    else c.
  (* MembershipQueryWithSourcesHeader::flags / s_flag / qrv *)
  Definition flags (raw_byte_8 : N) : N := N.shiftr (N.land raw_byte_8 240) 4.
  Definition s_flag (raw_byte_8 : N) : bool := negb (0 =? N.land raw_byte_8 8).
  Definition qrv (raw_byte_8 : N) : N := N.land raw_byte_8 7.
End Igmp.

(* ================================================================== *)
(* net/arp_packet_slice.rs, net/arp_packet.rs                           *)
Module Arp.

  (* ArpPacketSlice::from_slice : the slice cut to min_len *)
  Definition from_slice (slice : bytes) : res bytes :=
    if len slice <? 8 then ErrLen (mkLenError 8 (len slice) LsSlice LArp 0)
    else
      match get_unchecked slice 4, get_unchecked slice 5 with
      | Some hw_addr_size, Some protocol_addr_size =>
          let min_len := 8 + hw_addr_size * 2 + protocol_addr_size * 2 in
          if len slice <? min_len then ErrLen (mkLenError min_len (len slice) LsArpAddrLengths LArp 0)
          else match from_raw_parts slice 0 min_len with
               | Some s => Ok s
               | None => UB 70
               end
      | _, _ => UB 71
      end.

  Definition hw_addr_type (s : bytes) := get_unchecked_be_u16 s 0.
  Definition proto_addr_type (s : bytes) := get_unchecked_be_u16 s 2.
  Definition hw_addr_size (s : bytes) := get_unchecked s 4.
  Definition proto_addr_size (s : bytes) := get_unchecked s 5.
  Definition operation (s : bytes) := get_unchecked_be_u16 s 6.

  (* an address accessor: offset inside the slice and the bytes *)
  Definition addr (s : bytes) (off n : N) : option (N * bytes) :=
    match from_raw_parts s off n with
    | Some b => Some (off, b)
    | None => None
    end.
  Definition sender_hw_addr (s : bytes) : option (N * bytes) :=
    match hw_addr_size s with Some hs => addr s 8 hs | None => None end.
  Definition sender_protocol_addr (s : bytes) : option (N * bytes) :=
    match hw_addr_size s, proto_addr_size s with
    | Some hs, Some ps => addr s (8 + hs) ps
    | _, _ => None
    end.
  Definition target_hw_addr (s : bytes) : option (N * bytes) :=
    match hw_addr_size s, proto_addr_size s with
    | Some hs, Some ps => addr s (8 + hs + ps) hs
    | _, _ => None
    end.
  Definition target_protocol_addr (s : bytes) : option (N * bytes) :=
    match hw_addr_size s, proto_addr_size s with
    | Some hs, Some ps => addr s (8 + hs * 2 + ps) ps
    | _, _ => None
    end.

  Definition slice_view (bs : bytes) : res ArpView :=
    match from_slice bs with
    | Ok s =>
        match hw_addr_type s, proto_addr_type s, hw_addr_size s, proto_addr_size s, operation s with
        | Some ht, Some pt, Some hs, Some ps, Some op =>
            match sender_hw_addr s, sender_protocol_addr s, target_hw_addr s, target_protocol_addr s with
            | Some a, Some b, Some c, Some d => Ok (mkArpView (len s) ht pt hs ps op a b c d)
            | _, _, _, _ => UB 72
            end
        | _, _, _, _, _ => UB 73
        end
    | ErrLen e => ErrLen e
    | UB n => UB n
    end.

  (* ArpPacket: the four buffers hold only the copied bytes; reading an index
     beyond them is a read of uninitialised memory *)
  Record ArpPacket := mkArpPacket {
    p_hw_addr_type : N; p_proto_addr_type : N; p_hw_addr_size : N; p_proto_addr_size : N;
    p_operation : N;
    sender_hw_addr_buf : bytes; sender_protocol_addr_buf : bytes;
    target_hw_addr_buf : bytes; target_protocol_addr_buf : bytes }.

  (* ArpPacket::new_unchecked: `len() as u8` narrows *)
  Definition new_unchecked (ht pt op : N) (sh sp th tp : bytes) : ArpPacket :=
    mkArpPacket ht pt (len sh mod 256) (len sp mod 256) op sh sp th tp.

  (* ArpPacketSlice::to_packet *)
  Definition to_packet (s : bytes) : option ArpPacket :=
    match hw_addr_type s, proto_addr_type s, operation s,
          sender_hw_addr s, sender_protocol_addr s, target_hw_addr s, target_protocol_addr s with
    | Some ht, Some pt, Some op, Some (_, a), Some (_, b), Some (_, c), Some (_, d) =>
        Some (new_unchecked ht pt op a b c d)
    | _, _, _, _, _, _, _ => None
    end.

  (* buf[0..n].assume_init() *)
  Definition assume_init (buf : bytes) (n : N) : option bytes :=
    if n <=? len buf then Some (take n buf) else None.

  (* ArpPacket::try_eth_ipv4 *)
  Definition try_eth_ipv4 (p : ArpPacket) : arp_res :=
    if negb (p_hw_addr_type p =? 1) then ArpFromErr (NonMatchingHwType (p_hw_addr_type p))
    else if negb (p_proto_addr_type p =? 2048) then ArpFromErr (NonMatchingProtocolType (p_proto_addr_type p))
    else if negb (p_hw_addr_size p =? 6) then ArpFromErr (NonMatchingHwAddrSize (p_hw_addr_size p))
    else if negb (p_proto_addr_size p =? 4) then ArpFromErr (NonMatchingProtoAddrSize (p_proto_addr_size p))
    else
      match assume_init (sender_hw_addr_buf p) 6, assume_init (sender_protocol_addr_buf p) 4,
            assume_init (target_hw_addr_buf p) 6, assume_init (target_protocol_addr_buf p) 4 with
      | Some a, Some b, Some c, Some d => ArpOk (mkArpEthIpv4 (p_operation p) a b c d)
      | _, _, _, _ => ArpUB 74
      end.

  (* ArpPacket::from_slice(bs)?.try_eth_ipv4()  (= TryFrom<ArpPacket>) *)
  Definition eth_ipv4_view (bs : bytes) : arp_res :=
    match from_slice bs with
    | Ok s =>
        match to_packet s with
        | Some p => try_eth_ipv4 p
        | None => ArpUB 75
        end
    | ErrLen e => ArpLenErr e
    | UB n => ArpUB n
    end.
End Arp.
