(* CtlMsg/Spec.v -- property C17: what the RFCs prescribe for the typed
   control-message views.  Written from the RFC texts as tables
   (type, code) -> message kind + field offsets; nothing here follows the
   structure of the Rust code.

     ICMPv4 : RFC 792, code extensions RFC 1122 (3/6..12, 12/2), RFC 1108 (12/1),
              RFC 1812 (3/13..15), next-hop MTU RFC 1191
     ICMPv6 : RFC 4443 (+ parameter problem codes RFC 7112, 8754, 8883 as the
              crate documents), RFC 4861 (NDP 133..137, options)
     IGMP   : RFC 1112 (v1 report 0x12), RFC 2236 (0x11, 0x16, 0x17),
              RFC 3376 / 9776 (0x22, query version by length, group records)
     ARP    : RFC 826 (layout), Ethernet/IPv4 instance

   The result vocabulary (message kinds, error records) is shared with the
   model; the values are the ones the crate's public types can represent. *)
From EP Require Import Base.Bytes.
Local Open Scope N_scope.

(* ------------------------------------------------------------------ *)
(* fields at fixed offsets of a message (total readers; every use below is
   behind a length check, the default 0 is never observable -- see
   Proofs.rd_byte_at)                                                    *)
Definition byte_at (bs : bytes) (i : N) : N := nth (N.to_nat i) bs 0.
Definition u16_at (bs : bytes) (i : N) : N := be16 (byte_at bs i) (byte_at bs (i + 1)).
Definition u32_at (bs : bytes) (i : N) : N :=
  be32 (byte_at bs i) (byte_at bs (i + 1)) (byte_at bs (i + 2)) (byte_at bs (i + 3)).
Definition bytes_at (bs : bytes) (off n : N) : bytes := take n (drop off bs).
(* RFC bit numbering: bit 0 is the most significant bit of the octet *)
Definition bit_msb (b : N) (i : N) : bool := N.testbit b (7 - i).

(* ------------------------------------------------------------------ *)
(* errors                                                               *)
Inductive len_source := LsSlice | LsArpAddrLengths.
Inductive layer := LIcmpv4 | LIcmpv4Timestamp | LIcmpv4TimestampReply | LIcmpv6 | LIgmp | LArp.
Record len_error := mkLenError {
  required_len : N; elen : N; len_src : len_source; elayer : layer; layer_start_offset : N }.

(* UB n: an unchecked read / unwrap / slice index of the Rust code would be out
   of bounds (site number n).  Only the model can produce it; the
   specifications never do. *)
Inductive res (A : Type) : Type :=
| Ok (a : A) | ErrLen (e : len_error) | UB (site : N).
Arguments Ok {A} _.
Arguments ErrLen {A} _.
Arguments UB {A} _.

Fixpoint lookup {A : Type} (t c : N) (tbl : list (N * N * A)) : option A :=
  match tbl with
  | [] => None
  | (t', c', a) :: r => if (t' =? t) && (c' =? c) then Some a else lookup t c r
  end.

(* ================================================================== *)
(* ICMPv4                                                               *)
Inductive DestUnreachableHeader :=
| DuNetwork | DuHost | DuProtocol | DuPort | DuFragmentationNeeded (next_hop_mtu : N)
| DuSourceRouteFailed | DuNetworkUnknown | DuHostUnknown | DuIsolated
| DuNetworkProhibited | DuHostProhibited | DuTosNetwork | DuTosHost
| DuFilterProhibited | DuHostPrecedenceViolation | DuPrecedenceCutoff.
Inductive RedirectCode :=
| RedirectForNetwork | RedirectForHost | RedirectForTypeOfServiceAndNetwork
| RedirectForTypeOfServiceAndHost.
Inductive TimeExceededCode4 := TtlExceededInTransit | FragmentReassemblyTimeExceeded4.
Inductive ParameterProblemHeader4 := PointerIndicatesError (pointer : N) | MissingRequiredOption | BadLength.
Record TimestampMessage := mkTimestamp {
  ts_id : N; ts_seq : N; ts_originate : N; ts_receive : N; ts_transmit : N }.
Inductive Icmpv4Type :=
| V4Unknown (type_u8 code_u8 b4 b5 b6 b7 : N)
| V4EchoReply (id seq : N)
| V4DestinationUnreachable (h : DestUnreachableHeader)
| V4Redirect (code : RedirectCode) (g0 g1 g2 g3 : N)
| V4EchoRequest (id seq : N)
| V4TimeExceeded (code : TimeExceededCode4)
| V4ParameterProblem (h : ParameterProblemHeader4)
| V4TimestampRequest (m : TimestampMessage)
| V4TimestampReply (m : TimestampMessage).

Definition du (h : DestUnreachableHeader) : bytes -> Icmpv4Type := fun _ => V4DestinationUnreachable h.
Definition redirect4 (c : RedirectCode) : bytes -> Icmpv4Type :=
  fun bs => V4Redirect c (byte_at bs 4) (byte_at bs 5) (byte_at bs 6) (byte_at bs 7).

(* (type, code) -> message kind with its fields (offsets in the ICMP message) *)
Definition icmp4_table : list (N * N * (bytes -> Icmpv4Type)) := [
  (* RFC 792 "Echo or Echo Reply Message": identifier 4..6, sequence number 6..8 *)
  (0, 0, fun bs => V4EchoReply (u16_at bs 4) (u16_at bs 6));
  (8, 0, fun bs => V4EchoRequest (u16_at bs 4) (u16_at bs 6));
  (* RFC 792 "Destination Unreachable Message" codes 0..5 *)
  (3, 0, du DuNetwork); (3, 1, du DuHost); (3, 2, du DuProtocol); (3, 3, du DuPort);
  (* code 4: RFC 1191 section 4 puts the next-hop MTU into octets 6..8 *)
  (3, 4, fun bs => V4DestinationUnreachable (DuFragmentationNeeded (u16_at bs 6)));
  (3, 5, du DuSourceRouteFailed);
  (* RFC 1122 section 3.2.2.1: codes 6..12 *)
  (3, 6, du DuNetworkUnknown); (3, 7, du DuHostUnknown); (3, 8, du DuIsolated);
  (3, 9, du DuNetworkProhibited); (3, 10, du DuHostProhibited);
  (3, 11, du DuTosNetwork); (3, 12, du DuTosHost);
  (* RFC 1812 section 5.2.7.1: codes 13..15 *)
  (3, 13, du DuFilterProhibited); (3, 14, du DuHostPrecedenceViolation); (3, 15, du DuPrecedenceCutoff);
  (* RFC 792 "Redirect Message": gateway internet address 4..8, codes 0..3 *)
  (5, 0, redirect4 RedirectForNetwork); (5, 1, redirect4 RedirectForHost);
  (5, 2, redirect4 RedirectForTypeOfServiceAndNetwork); (5, 3, redirect4 RedirectForTypeOfServiceAndHost);
  (* RFC 792 "Time Exceeded Message": codes 0, 1 *)
  (11, 0, fun _ => V4TimeExceeded TtlExceededInTransit);
  (11, 1, fun _ => V4TimeExceeded FragmentReassemblyTimeExceeded4);
  (* RFC 792 "Parameter Problem Message": code 0 with pointer in octet 4;
     code 1 RFC 1108, code 2 RFC 1122 *)
  (12, 0, fun bs => V4ParameterProblem (PointerIndicatesError (byte_at bs 4)));
  (12, 1, fun _ => V4ParameterProblem MissingRequiredOption);
  (12, 2, fun _ => V4ParameterProblem BadLength)
].

(* RFC 792 "Timestamp or Timestamp Reply Message": a fixed 20-octet message
   (id 4..6, seq 6..8, originate 8..12, receive 12..16, transmit 16..20) *)
Definition icmp4_fixed_table : list (N * N * (N * layer * (TimestampMessage -> Icmpv4Type))) := [
  (13, 0, (20, LIcmpv4Timestamp, V4TimestampRequest));
  (14, 0, (20, LIcmpv4TimestampReply, V4TimestampReply))
].
Definition timestamp_at (bs : bytes) : TimestampMessage :=
  mkTimestamp (u16_at bs 4) (u16_at bs 6) (u32_at bs 8) (u32_at bs 12) (u32_at bs 16).

(* RFC 792 types that are assigned but for which the crate has no typed view
   (Icmpv4Type has no variant): they are handed out in the raw form.
   4 source quench, 15/16 information request/reply (RFC 792), 17/18 address
   mask (RFC 950), 9/10 router discovery (RFC 1256), 6 alternate host address *)
Definition icmp4_untyped_assigned : list N := [4; 6; 9; 10; 15; 16; 17; 18].

(* the decoded view: message kind, header length, payload *)
Definition icmp4 (bs : bytes) : res (Icmpv4Type * N * bytes) :=
  if len bs <? 8 then ErrLen (mkLenError 8 (len bs) LsSlice LIcmpv4 0) else
  let t := byte_at bs 0 in
  let c := byte_at bs 1 in
  match lookup t c icmp4_fixed_table with
  | Some (n, lay, mk) =>
      if len bs =? n then Ok (mk (timestamp_at bs), n, drop n bs)
      else ErrLen (mkLenError n (len bs) LsSlice lay 0)
  | None =>
      match lookup t c icmp4_table with
      | Some f => Ok (f bs, 8, drop 8 bs)
      | None => Ok (V4Unknown t c (byte_at bs 4) (byte_at bs 5) (byte_at bs 6) (byte_at bs 7), 8, drop 8 bs)
      end
  end.

(* ================================================================== *)
(* ICMPv6                                                               *)
Inductive DestUnreachableCode6 :=
| NoRoute | Prohibited | BeyondScope | Address6 | Port6 | SourceAddressFailedPolicy | RejectRoute.
Inductive TimeExceededCode6 := HopLimitExceeded | FragmentReassemblyTimeExceeded6.
Inductive ParameterProblemCode6 :=
| ErroneousHeaderField | UnrecognizedNextHeader | UnrecognizedIpv6Option
| Ipv6FirstFragmentIncompleteHeaderChain | SrUpperLayerHeaderError
| UnrecognizedNextHeaderByIntermediateNode | ExtensionHeaderTooBig
| ExtensionHeaderChainTooLong | TooManyExtensionHeaders
| TooManyOptionsInExtensionHeader | OptionTooBig.
Inductive Icmpv6Type :=
| V6Unknown (type_u8 code_u8 b4 b5 b6 b7 : N)
| V6DestinationUnreachable (c : DestUnreachableCode6)
| V6PacketTooBig (mtu : N)
| V6TimeExceeded (c : TimeExceededCode6)
| V6ParameterProblem (c : ParameterProblemCode6) (pointer : N)
| V6EchoRequest (id seq : N)
| V6EchoReply (id seq : N)
| V6RouterSolicitation
| V6RouterAdvertisement (cur_hop_limit : N) (managed other : bool) (router_lifetime : N)
| V6NeighborSolicitation
| V6NeighborAdvertisement (router solicited override : bool)
| V6Redirect.

Definition pp6 (c : ParameterProblemCode6) : bytes -> Icmpv6Type :=
  fun bs => V6ParameterProblem c (u32_at bs 4).

Definition icmp6_table : list (N * N * (bytes -> Icmpv6Type)) := [
  (* RFC 4443 section 3.1 destination unreachable, codes 0..6 *)
  (1, 0, fun _ => V6DestinationUnreachable NoRoute);
  (1, 1, fun _ => V6DestinationUnreachable Prohibited);
  (1, 2, fun _ => V6DestinationUnreachable BeyondScope);
  (1, 3, fun _ => V6DestinationUnreachable Address6);
  (1, 4, fun _ => V6DestinationUnreachable Port6);
  (1, 5, fun _ => V6DestinationUnreachable SourceAddressFailedPolicy);
  (1, 6, fun _ => V6DestinationUnreachable RejectRoute);
  (* RFC 4443 section 3.2 packet too big, code 0, MTU 4..8 *)
  (2, 0, fun bs => V6PacketTooBig (u32_at bs 4));
  (* RFC 4443 section 3.3 time exceeded, codes 0, 1 *)
  (3, 0, fun _ => V6TimeExceeded HopLimitExceeded);
  (3, 1, fun _ => V6TimeExceeded FragmentReassemblyTimeExceeded6);
  (* RFC 4443 section 3.4 parameter problem, pointer 4..8; codes 0..2 RFC 4443,
     3 RFC 7112, 4 RFC 8754, 5..10 RFC 8883 *)
  (4, 0, pp6 ErroneousHeaderField); (4, 1, pp6 UnrecognizedNextHeader);
  (4, 2, pp6 UnrecognizedIpv6Option); (4, 3, pp6 Ipv6FirstFragmentIncompleteHeaderChain);
  (4, 4, pp6 SrUpperLayerHeaderError); (4, 5, pp6 UnrecognizedNextHeaderByIntermediateNode);
  (4, 6, pp6 ExtensionHeaderTooBig); (4, 7, pp6 ExtensionHeaderChainTooLong);
  (4, 8, pp6 TooManyExtensionHeaders); (4, 9, pp6 TooManyOptionsInExtensionHeader);
  (4, 10, pp6 OptionTooBig);
  (* RFC 4443 section 4.1 / 4.2 echo request / reply: identifier 4..6, sequence 6..8 *)
  (128, 0, fun bs => V6EchoRequest (u16_at bs 4) (u16_at bs 6));
  (129, 0, fun bs => V6EchoReply (u16_at bs 4) (u16_at bs 6));
  (* RFC 4861 section 4.1 router solicitation: code 0, octets 4..8 reserved *)
  (133, 0, fun _ => V6RouterSolicitation);
  (* RFC 4861 section 4.2 router advertisement: cur hop limit octet 4, M = bit 0
     and O = bit 1 of octet 5, router lifetime 6..8 *)
  (134, 0, fun bs => V6RouterAdvertisement (byte_at bs 4) (bit_msb (byte_at bs 5) 0)
                       (bit_msb (byte_at bs 5) 1) (u16_at bs 6));
  (* RFC 4861 section 4.3 neighbor solicitation *)
  (135, 0, fun _ => V6NeighborSolicitation);
  (* RFC 4861 section 4.4 neighbor advertisement: R, S, O = bits 0, 1, 2 of octet 4 *)
  (136, 0, fun bs => V6NeighborAdvertisement (bit_msb (byte_at bs 4) 0) (bit_msb (byte_at bs 4) 1)
                       (bit_msb (byte_at bs 4) 2));
  (* RFC 4861 section 4.5 redirect *)
  (137, 0, fun _ => V6Redirect)
].

(* the payload length of an IPv6 packet (even a jumbogram, RFC 2675) is a
   32-bit number: a longer ICMPv6 message cannot exist *)
Definition MAX_ICMPV6_BYTE_LEN : N := 4294967295.

Definition icmp6 (bs : bytes) : res (Icmpv6Type * bytes) :=
  if len bs <? 8 then ErrLen (mkLenError 8 (len bs) LsSlice LIcmpv6 0) else
  if MAX_ICMPV6_BYTE_LEN <? len bs then ErrLen (mkLenError MAX_ICMPV6_BYTE_LEN (len bs) LsSlice LIcmpv6 0) else
  let t := byte_at bs 0 in
  let c := byte_at bs 1 in
  match lookup t c icmp6_table with
  | Some f => Ok (f bs, drop 8 bs)
  | None => Ok (V6Unknown t c (byte_at bs 4) (byte_at bs 5) (byte_at bs 6) (byte_at bs 7), drop 8 bs)
  end.

(* ------------------------------------------------------------------ *)
(* ICMPv6 typed payloads (everything after the 8-octet ICMPv6 header)   *)
Inductive ps_kind :=
| PkDestinationUnreachable | PkPacketTooBig | PkTimeExceeded | PkParameterProblem
| PkEchoRequest | PkEchoReply | PkRouterSolicitation | PkRouterAdvertisement
| PkNeighborSolicitation | PkNeighborAdvertisement | PkRedirect | PkRaw.

(* decoded view of a payload: fixed fields, variable part *)
Inductive pview :=
| PvWhole (k : ps_kind) (payload : bytes)    (* error / echo / raw: the whole payload *)
| PvRouterSolicitation (options : bytes)
| PvRouterAdvertisement (reachable_time retrans_timer : N) (options : bytes)
| PvNeighborSolicitation (target : bytes) (options : bytes)
| PvNeighborAdvertisement (target : bytes) (options : bytes)
| PvRedirect (target destination : bytes) (options : bytes).

(* kind of the payload by (type, code): the same assigned pairs as icmp6_table *)
Definition payload_kind_of (ty : Icmpv6Type) : ps_kind :=
  match ty with
  | V6Unknown _ _ _ _ _ _ => PkRaw
  | V6DestinationUnreachable _ => PkDestinationUnreachable
  | V6PacketTooBig _ => PkPacketTooBig
  | V6TimeExceeded _ => PkTimeExceeded
  | V6ParameterProblem _ _ => PkParameterProblem
  | V6EchoRequest _ _ => PkEchoRequest
  | V6EchoReply _ _ => PkEchoReply
  | V6RouterSolicitation => PkRouterSolicitation
  | V6RouterAdvertisement _ _ _ _ => PkRouterAdvertisement
  | V6NeighborSolicitation => PkNeighborSolicitation
  | V6NeighborAdvertisement _ _ _ => PkNeighborAdvertisement
  | V6Redirect => PkRedirect
  end.

(* RFC 4861 sections 4.1 .. 4.5: size of the fixed part after the first 8
   octets of the ICMPv6 message (RS 8-8, RA 16-8, NS 24-8, NA 24-8, Redirect 40-8) *)
Definition ndp_fixed_len (k : ps_kind) : N :=
  match k with
  | PkRouterAdvertisement => 8
  | PkNeighborSolicitation | PkNeighborAdvertisement => 16
  | PkRedirect => 32
  | _ => 0
  end.

Definition ndp_payload_view (k : ps_kind) (p : bytes) : pview :=
  match k with
  | PkRouterSolicitation => PvRouterSolicitation p
  | PkRouterAdvertisement => PvRouterAdvertisement (u32_at p 0) (u32_at p 4) (drop 8 p)
  | PkNeighborSolicitation => PvNeighborSolicitation (bytes_at p 0 16) (drop 16 p)
  | PkNeighborAdvertisement => PvNeighborAdvertisement (bytes_at p 0 16) (drop 16 p)
  | PkRedirect => PvRedirect (bytes_at p 0 16) (bytes_at p 16 16) (drop 32 p)
  | _ => PvWhole k p
  end.

(* payload view of a whole ICMPv6 message *)
Definition icmp6_payload (bs : bytes) : res pview :=
  match icmp6 bs with
  | Ok (ty, p) =>
      let k := payload_kind_of ty in
      if len p <? ndp_fixed_len k then ErrLen (mkLenError (ndp_fixed_len k) (len p) LsSlice LIcmpv6 0)
      else Ok (ndp_payload_view k p)
  | ErrLen e => ErrLen e
  | UB n => UB n
  end.

(* ------------------------------------------------------------------ *)
(* NDP options, RFC 4861 section 4.6: Type (1 octet), Length (1 octet, in
   units of 8 octets, the value 0 is invalid), then the rest of the option. *)
Inductive ndp_kind := KSrcLL | KTgtLL | KPrefix | KRedir | KMtu | KUnknownOpt.
Inductive ndp_err :=
| UnexpectedEndOfSlice (option_id expected_size actual_size : N)
| ZeroLength (option_id : N)
| UnexpectedSize (option_id expected_size actual_size : N)
| UnexpectedHeader (expected_option_id actual_option_id expected_length_units actual_length_units : N).
Inductive item := IOk (k : ndp_kind) (s : bytes) | IErr (e : ndp_err) | IUB (site : N).

(* 4.6.1 source/target link-layer address (1, 2), 4.6.2 prefix information (3),
   4.6.3 redirected header (4), 4.6.4 MTU (5) *)
Definition opt_kind (ty : N) : ndp_kind :=
  match ty with 1 => KSrcLL | 2 => KTgtLL | 3 => KPrefix | 4 => KRedir | 5 => KMtu | _ => KUnknownOpt end.
(* options with a fixed size: prefix information "Length 4", MTU "Length 1" *)
Definition opt_fixed_units (ty : N) : option N :=
  match ty with 3 => Some 4 | 5 => Some 1 | _ => None end.

(* r = the not yet consumed, non-empty rest of the option area *)
Definition opt_reject (r : bytes) : bool :=
  match r with
  | ty :: lu :: _ =>
      (lu =? 0) || (len r <? lu * 8)
      || match opt_fixed_units ty with Some u => negb (lu =? u) | None => false end
  | _ => true    (* fewer than 2 octets left *)
  end.

(* the error value reported for a rejected rest (crate API, first failing rule) *)
Definition opt_error (r : bytes) : ndp_err :=
  match r with
  | [] => UnexpectedSize 0 2 0
  | [x] => UnexpectedSize x 2 1
  | ty :: lu :: _ =>
      if lu =? 0 then ZeroLength ty
      else if len r <? lu * 8 then UnexpectedEndOfSlice ty (lu * 8) (len r)
      else match opt_fixed_units ty with
           | Some u => UnexpectedSize ty (u * 8) (lu * 8)
           | None => UnexpectedSize ty 0 0     (* not rejected *)
           end
  end.

(* declarative: the item sequence of an option area *)
Inductive opts_tile : bytes -> list item -> Prop :=
| T_end : opts_tile [] []
| T_rej : forall r, r <> [] -> opt_reject r = true -> opts_tile r [IErr (opt_error r)]
| T_acc : forall ty lu tl items,
    opt_reject (ty :: lu :: tl) = false ->
    opts_tile (drop (lu * 8) (ty :: lu :: tl)) items ->
    opts_tile (ty :: lu :: tl) (IOk (opt_kind ty) (take (lu * 8) (ty :: lu :: tl)) :: items).

(* executable form (fuel = number of octets is always enough) *)
Fixpoint parse_opts (fuel : nat) (r : bytes) : list item :=
  match fuel with
  | O => []
  | S f =>
      match r with
      | [] => []
      | ty :: lu :: _ =>
          if opt_reject r then [IErr (opt_error r)]
          else IOk (opt_kind ty) (take (lu * 8) r) :: parse_opts f (drop (lu * 8) r)
      | _ => [IErr (opt_error r)]
      end
  end.

(* the accepted options, in order, and what is left after them *)
Fixpoint ok_bytes (items : list item) : bytes :=
  match items with
  | IOk _ s :: r => s ++ ok_bytes r
  | _ => []
  end.
Fixpoint ok_count (items : list item) : N :=
  match items with
  | IOk _ _ :: r => 1 + ok_count r
  | _ => 0
  end.

(* typed fields of an accepted option (offsets inside the option) *)
Inductive oview :=
| OvLinkLayer (k : ndp_kind) (addr : bytes)                        (* 4.6.1: address 2.. *)
| OvPrefix (prefix_length : N) (on_link autonomous : bool) (valid_lifetime preferred_lifetime : N) (prefix : bytes)
| OvRedirected (packet : bytes)                                    (* 4.6.3: IP header + data 8.. *)
| OvMtu (mtu : N)                                                  (* 4.6.4: MTU 4..8 *)
| OvUnknown (ty : N) (data : bytes).
Definition opt_view (k : ndp_kind) (s : bytes) : oview :=
  match k with
  | KSrcLL | KTgtLL => OvLinkLayer k (drop 2 s)
  | KPrefix =>     (* 4.6.2: prefix length 2, L = bit 0 / A = bit 1 of octet 3, valid 4..8,
                      preferred 8..12, reserved2 12..16, prefix 16..32 *)
      OvPrefix (byte_at s 2) (bit_msb (byte_at s 3) 0) (bit_msb (byte_at s 3) 1)
               (u32_at s 4) (u32_at s 8) (bytes_at s 16 16)
  | KRedir => OvRedirected (drop 8 s)
  | KMtu => OvMtu (u32_at s 4)
  | KUnknownOpt => OvUnknown (byte_at s 0) (drop 2 s)
  end.
(* shape of an accepted option *)
Definition opt_shape_ok (k : ndp_kind) (s : bytes) : Prop :=
  exists ty lu tl, s = ty :: lu :: tl /\ k = opt_kind ty /\ lu <> 0 /\ len s = lu * 8
                   /\ (forall u, opt_fixed_units ty = Some u -> lu = u).

(* ================================================================== *)
(* IGMP                                                                 *)
Inductive IgmpType :=
| IgMembershipQuery (max_response_time g0 g1 g2 g3 : N)
| IgMembershipQueryWithSources (max_response_code g0 g1 g2 g3 raw_byte_8 qqic num_of_sources : N)
| IgMembershipReportV1 (g0 g1 g2 g3 : N)
| IgMembershipReportV2 (g0 g1 g2 g3 : N)
| IgMembershipReportV3 (flags0 flags1 num_of_records : N)
| IgLeaveGroup (g0 g1 g2 g3 : N)
| IgUnknown (igmp_type raw_byte_1 b4 b5 b6 b7 : N).

(* common 8 octets (RFC 2236 section 2): type 0, max resp time 1, checksum 2..4,
   group address 4..8.  message types: 0x11 query, 0x12 v1 report (RFC 1112),
   0x16 v2 report, 0x17 leave group; 0x22 v3 report (RFC 3376 section 4.2:
   reserved 4..6 -- flags in RFC 9776 --, number of group records 6..8) *)
Definition igmp_table : list (N * (bytes -> IgmpType)) := [
  (18, fun bs => IgMembershipReportV1 (byte_at bs 4) (byte_at bs 5) (byte_at bs 6) (byte_at bs 7));
  (22, fun bs => IgMembershipReportV2 (byte_at bs 4) (byte_at bs 5) (byte_at bs 6) (byte_at bs 7));
  (23, fun bs => IgLeaveGroup (byte_at bs 4) (byte_at bs 5) (byte_at bs 6) (byte_at bs 7));
  (34, fun bs => IgMembershipReportV3 (byte_at bs 4) (byte_at bs 5) (u16_at bs 6))
].
Fixpoint lookup1 {A : Type} (t : N) (tbl : list (N * A)) : option A :=
  match tbl with
  | [] => None
  | (t', a) :: r => if t' =? t then Some a else lookup1 t r
  end.

(* result: (type, checksum, header length, rest after the header) *)
Definition igmp (bs : bytes) : res (IgmpType * N * N * bytes) :=
  if len bs <? 8 then ErrLen (mkLenError 8 (len bs) LsSlice LIgmp 0) else
  let t := byte_at bs 0 in
  if t =? 17 then
    (* RFC 3376 section 7.1 / RFC 9776 section 7.1: query version by length:
       exactly 8 octets: IGMPv1/v2 query (v1 iff max resp code = 0);
       12 octets or more: IGMPv3 query (S/QRV 8, QQIC 9, number of sources 10..12);
       anything else is not a valid query *)
    if len bs =? 8 then
      Ok (IgMembershipQuery (byte_at bs 1) (byte_at bs 4) (byte_at bs 5) (byte_at bs 6) (byte_at bs 7),
          u16_at bs 2, 8, drop 8 bs)
    else if 12 <=? len bs then
      Ok (IgMembershipQueryWithSources (byte_at bs 1) (byte_at bs 4) (byte_at bs 5) (byte_at bs 6) (byte_at bs 7)
            (byte_at bs 8) (byte_at bs 9) (u16_at bs 10), u16_at bs 2, 12, drop 12 bs)
    else ErrLen (mkLenError 12 (len bs) LsSlice LIgmp 0)
  else
    match lookup1 t igmp_table with
    | Some f => Ok (f bs, u16_at bs 2, 8, drop 8 bs)
    | None => Ok (IgUnknown t (byte_at bs 1) (byte_at bs 4) (byte_at bs 5) (byte_at bs 6) (byte_at bs 7),
                  u16_at bs 2, 8, drop 8 bs)
    end.

(* IGMP version of a query per RFC 3376 section 7.1 *)
Inductive query_version := QV1 | QV2 | QV3.
Definition igmp_query_version (bs : bytes) : option query_version :=
  if len bs =? 8 then (if byte_at bs 1 =? 0 then Some QV1 else Some QV2)
  else if 12 <=? len bs then Some QV3 else None.

(* RFC 3376 section 4.2.x group record: record type 0, aux data len 1 (in
   32-bit words), number of sources 2..4, multicast address 4..8, then
   4 * number_of_sources octets of source addresses and 4 * aux_data_len
   octets of auxiliary data *)
Record GroupRecord := mkGroupRecord {
  record_type : N; aux_data_len : N; gr_num_of_sources : N; m0 : N; m1 : N; m2 : N; m3 : N }.
Definition group_record (bs : bytes) : res (GroupRecord * bytes) :=
  if len bs <? 8 then ErrLen (mkLenError 8 (len bs) LsSlice LIgmp 0) else
  Ok (mkGroupRecord (byte_at bs 0) (byte_at bs 1) (u16_at bs 2)
        (byte_at bs 4) (byte_at bs 5) (byte_at bs 6) (byte_at bs 7), drop 8 bs).
Definition group_record_total_len (g : GroupRecord) : N :=
  8 + 4 * gr_num_of_sources g + 4 * aux_data_len g.

(* RFC 3376 section 4.1.1 max resp code (and 4.1.7 QQIC): values >= 128 are a
   floating point number 1|exp(3)|mant(4) meaning (mant | 0x10) << (exp + 3) *)
Definition max_resp_time (c : N) : N :=
  if c <? 128 then c else ((c mod 16) + 16) * 2 ^ (((c / 16) mod 8) + 3).
(* section 4.1.5/4.1.6: octet 8 = Resv(4) | S(1) | QRV(3) *)
Definition query_flags (b : N) : N := b / 16.
Definition query_s_flag (b : N) : bool := bit_msb b 4.
Definition query_qrv (b : N) : N := b mod 8.

(* ================================================================== *)
(* ARP, RFC 826: hardware type 0..2, protocol type 2..4, hardware address
   length 4, protocol address length 5, opcode 6..8, then sender hardware /
   sender protocol / target hardware / target protocol address *)
Inductive arp_from_err :=
| NonMatchingHwType (t : N) | NonMatchingProtocolType (t : N)
| NonMatchingHwAddrSize (n : N) | NonMatchingProtoAddrSize (n : N).
Record ArpEthIpv4Packet := mkArpEthIpv4 {
  arp_operation : N; sender_mac : bytes; sender_ipv4 : bytes; target_mac : bytes; target_ipv4 : bytes }.
Inductive arp_res :=
| ArpOk (p : ArpEthIpv4Packet) | ArpLenErr (e : len_error) | ArpFromErr (e : arp_from_err) | ArpUB (site : N).

Definition ARP_HW_ETHERNET : N := 1.       (* RFC 826 / IANA hardware type 1 *)
Definition ETHER_TYPE_IPV4 : N := 2048.    (* 0x0800 *)

Definition arp_eth_ipv4 (bs : bytes) : arp_res :=
  if len bs <? 8 then ArpLenErr (mkLenError 8 (len bs) LsSlice LArp 0) else
  let hs := byte_at bs 4 in
  let ps := byte_at bs 5 in
  let total := 8 + 2 * hs + 2 * ps in
  if len bs <? total then ArpLenErr (mkLenError total (len bs) LsArpAddrLengths LArp 0) else
  if negb (u16_at bs 0 =? ARP_HW_ETHERNET) then ArpFromErr (NonMatchingHwType (u16_at bs 0)) else
  if negb (u16_at bs 2 =? ETHER_TYPE_IPV4) then ArpFromErr (NonMatchingProtocolType (u16_at bs 2)) else
  if negb (hs =? 6) then ArpFromErr (NonMatchingHwAddrSize hs) else
  if negb (ps =? 4) then ArpFromErr (NonMatchingProtoAddrSize ps) else
  ArpOk (mkArpEthIpv4 (u16_at bs 6) (bytes_at bs 8 6) (bytes_at bs 14 4) (bytes_at bs 18 6) (bytes_at bs 24 4)).

(* generic ARP view: all fields and the four address ranges *)
Record ArpView := mkArpView {
  av_len : N; av_hw_type : N; av_proto_type : N; av_hw_size : N; av_proto_size : N; av_operation : N;
  av_sender_hw : N * bytes; av_sender_proto : N * bytes; av_target_hw : N * bytes; av_target_proto : N * bytes }.
Definition arp_view (bs : bytes) : res ArpView :=
  if len bs <? 8 then ErrLen (mkLenError 8 (len bs) LsSlice LArp 0) else
  let hs := byte_at bs 4 in
  let ps := byte_at bs 5 in
  let total := 8 + 2 * hs + 2 * ps in
  if len bs <? total then ErrLen (mkLenError total (len bs) LsArpAddrLengths LArp 0) else
  Ok (mkArpView total (u16_at bs 0) (u16_at bs 2) hs ps (u16_at bs 6)
        (8, bytes_at bs 8 hs) (8 + hs, bytes_at bs (8 + hs) ps)
        (8 + hs + ps, bytes_at bs (8 + hs + ps) hs) (8 + 2 * hs + ps, bytes_at bs (8 + 2 * hs + ps) ps)).
