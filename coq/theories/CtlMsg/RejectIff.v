(* CtlMsg/RejectIff.v -- property C17, round 3 ("small closures"): the sentence
   "reject exactly the inputs that are too short or whose length units are zero or
   inconsistent" as NAMED iff statements for the views whose exactness was so far only
   implicit in the equality with the specification function: Icmpv4Slice, Icmpv6Slice,
   IgmpHeader::from_slice, ReportGroupRecordV3Header::from_slice, ArpPacketSlice and
   ArpPacket::from_slice(..)?.try_eth_ipv4().  Each lemma has three parts: a LenError is
   returned exactly for the named inputs (with the exact record), a value exactly for all
   the others, and the out-of-bounds marker `UB` never.  Only compositions of the
   existing equalities (CtlMsg/Proofs.v) with the RFC functions of CtlMsg/Spec.v; no new
   model. *)
From EP Require Import Base.Bytes CtlMsg.Spec CtlMsg.Model CtlMsg.Proofs.
Local Open Scope N_scope.

(* shape of every statement below, for a result r and the rejection condition R *)
Definition rejects_exactly {A : Type} (r : res A) (R : Prop) : Prop :=
  ((exists e, r = ErrLen e) <-> R) /\ ((exists v, r = Ok v) <-> ~ R) /\ (forall n, r <> UB n).

Lemma rejects_err {A} (e : len_error) (R : Prop) : R -> rejects_exactly (@ErrLen A e) R.
Proof.
  intros HR. split; [|split].
  - split; [intros _; exact HR | intros _; eexists; reflexivity].
  - split; [intros [v Hv]; discriminate | intros Hn; contradiction].
  - intros n; discriminate.
Qed.
Lemma rejects_ok {A} (v : A) (R : Prop) : ~ R -> rejects_exactly (Ok v) R.
Proof.
  intros HR. split; [|split].
  - split; [intros [e He]; discriminate | intros Hr; contradiction].
  - split; [intros _; exact HR | intros _; eexists; reflexivity].
  - intros n; discriminate.
Qed.

(* ---------------- ICMPv4 ---------------- *)
Definition icmp4_rejected (bs : bytes) : Prop :=
  len bs < 8 \/ ((byte_at bs 0 = 13 \/ byte_at bs 0 = 14) /\ byte_at bs 1 = 0 /\ len bs <> 20).

Lemma icmp4_reject_iff bs : rejects_exactly (Icmpv4Slice.view bs) (icmp4_rejected bs).
Proof.
  rewrite icmp4_eq. unfold icmp4, icmp4_rejected.
  destruct (len bs <? 8) eqn:E8.
  { apply N.ltb_lt in E8. apply rejects_err. left; exact E8. }
  apply N.ltb_ge in E8.
  set (t := byte_at bs 0). set (c := byte_at bs 1).
  unfold icmp4_fixed_table. cbn [lookup].
  destruct (13 =? t) eqn:E13; [apply N.eqb_eq in E13|apply N.eqb_neq in E13];
  (destruct (0 =? c) eqn:E0; [apply N.eqb_eq in E0|apply N.eqb_neq in E0]); cbn [andb];
  try (destruct (14 =? t) eqn:E14; [apply N.eqb_eq in E14|apply N.eqb_neq in E14]; cbn [andb]);
  try (destruct (len bs =? 20) eqn:E20; [apply N.eqb_eq in E20|apply N.eqb_neq in E20]);
  try (apply rejects_err; right; repeat split; auto; lia);
  try (destruct (lookup t c icmp4_table));
  apply rejects_ok; intros [Hs|[[H13|H14] [Hc Hl]]]; try lia; congruence.
Qed.

(* the error record of each of the two rejection classes *)
Lemma icmp4_reject_record bs e : Icmpv4Slice.view bs = ErrLen e ->
  (len bs < 8 /\ e = mkLenError 8 (len bs) LsSlice LIcmpv4 0) \/
  (8 <= len bs /\ byte_at bs 0 = 13 /\ byte_at bs 1 = 0 /\ len bs <> 20 /\
   e = mkLenError 20 (len bs) LsSlice LIcmpv4Timestamp 0) \/
  (8 <= len bs /\ byte_at bs 0 = 14 /\ byte_at bs 1 = 0 /\ len bs <> 20 /\
   e = mkLenError 20 (len bs) LsSlice LIcmpv4TimestampReply 0).
Proof.
  rewrite icmp4_eq. unfold icmp4.
  destruct (len bs <? 8) eqn:E8.
  { apply N.ltb_lt in E8. intros H; injection H as <-. left; split; [exact E8|reflexivity]. }
  apply N.ltb_ge in E8.
  set (t := byte_at bs 0). set (c := byte_at bs 1).
  unfold icmp4_fixed_table. cbn [lookup].
  destruct (13 =? t) eqn:E13; [apply N.eqb_eq in E13|apply N.eqb_neq in E13];
  (destruct (0 =? c) eqn:E0; [apply N.eqb_eq in E0|apply N.eqb_neq in E0]); cbn [andb];
  try (destruct (14 =? t) eqn:E14; [apply N.eqb_eq in E14|apply N.eqb_neq in E14]; cbn [andb]);
  try (destruct (len bs =? 20) eqn:E20; [apply N.eqb_eq in E20|apply N.eqb_neq in E20]);
  try discriminate; try (destruct (lookup t c icmp4_table); discriminate);
  intros H; injection H as <-;
  first [ solve [right; left; repeat split; auto] | solve [right; right; repeat split; auto] ].
Qed.

(* ---------------- ICMPv6 ---------------- *)
Definition icmp6_rejected (bs : bytes) : Prop := len bs < 8 \/ MAX_ICMPV6_BYTE_LEN < len bs.

Lemma icmp6_reject_iff bs : rejects_exactly (Icmpv6Slice.view bs) (icmp6_rejected bs).
Proof.
  rewrite icmp6_eq. unfold icmp6, icmp6_rejected.
  destruct (len bs <? 8) eqn:E8.
  { apply N.ltb_lt in E8. apply rejects_err. left; exact E8. }
  apply N.ltb_ge in E8.
  destruct (MAX_ICMPV6_BYTE_LEN <? len bs) eqn:EM.
  { apply N.ltb_lt in EM. apply rejects_err. right; exact EM. }
  apply N.ltb_ge in EM.
  cbv zeta. destruct (lookup (byte_at bs 0) (byte_at bs 1) icmp6_table);
  apply rejects_ok; intros [H|H]; lia.
Qed.

Lemma icmp6_reject_record bs e : Icmpv6Slice.view bs = ErrLen e ->
  (len bs < 8 /\ e = mkLenError 8 (len bs) LsSlice LIcmpv6 0) \/
  (MAX_ICMPV6_BYTE_LEN < len bs /\ e = mkLenError MAX_ICMPV6_BYTE_LEN (len bs) LsSlice LIcmpv6 0).
Proof.
  rewrite icmp6_eq. unfold icmp6.
  destruct (len bs <? 8) eqn:E8.
  { apply N.ltb_lt in E8. intros H; injection H as <-. left; split; [exact E8|reflexivity]. }
  destruct (MAX_ICMPV6_BYTE_LEN <? len bs) eqn:EM.
  { apply N.ltb_lt in EM. intros H; injection H as <-. right; split; [exact EM|reflexivity]. }
  cbv zeta. destruct (lookup (byte_at bs 0) (byte_at bs 1) icmp6_table); discriminate.
Qed.

(* ---------------- IGMP ---------------- *)
Definition igmp_rejected (bs : bytes) : Prop :=
  len bs < 8 \/ (byte_at bs 0 = 17 /\ 8 < len bs /\ len bs < 12).

Lemma igmp_reject_iff bs : rejects_exactly (Igmp.view bs) (igmp_rejected bs).
Proof.
  rewrite igmp_eq. unfold igmp, igmp_rejected.
  destruct (len bs <? 8) eqn:E8.
  { apply N.ltb_lt in E8. apply rejects_err. left; exact E8. }
  apply N.ltb_ge in E8. cbv zeta.
  destruct (byte_at bs 0 =? 17) eqn:E17; [apply N.eqb_eq in E17|apply N.eqb_neq in E17].
  - destruct (len bs =? 8) eqn:E; [apply N.eqb_eq in E|apply N.eqb_neq in E].
    { apply rejects_ok. intros [H|[_ [H _]]]; lia. }
    destruct (12 <=? len bs) eqn:E12; [apply N.leb_le in E12|apply N.leb_gt in E12].
    { apply rejects_ok. intros [H|[_ [_ H]]]; lia. }
    apply rejects_err. right. repeat split; [exact E17|lia|exact E12].
  - destruct (lookup1 (byte_at bs 0) igmp_table);
    apply rejects_ok; intros [H|[H _]]; [lia|contradiction|lia|contradiction].
Qed.

Lemma igmp_reject_record bs e : Igmp.view bs = ErrLen e ->
  (len bs < 8 /\ e = mkLenError 8 (len bs) LsSlice LIgmp 0) \/
  (byte_at bs 0 = 17 /\ 8 < len bs /\ len bs < 12 /\ e = mkLenError 12 (len bs) LsSlice LIgmp 0).
Proof.
  rewrite igmp_eq. unfold igmp.
  destruct (len bs <? 8) eqn:E8.
  { apply N.ltb_lt in E8. intros H; injection H as <-. left; split; [exact E8|reflexivity]. }
  apply N.ltb_ge in E8. cbv zeta.
  destruct (byte_at bs 0 =? 17) eqn:E17; [apply N.eqb_eq in E17|apply N.eqb_neq in E17].
  - destruct (len bs =? 8) eqn:E; [discriminate|apply N.eqb_neq in E].
    destruct (12 <=? len bs) eqn:E12; [discriminate|apply N.leb_gt in E12].
    intros H; injection H as <-. right. repeat split; [exact E17|lia|exact E12].
  - destruct (lookup1 (byte_at bs 0) igmp_table); discriminate.
Qed.

(* the 8-octet group-record header: rejected exactly when fewer than 8 octets are left *)
Lemma group_record_reject_iff bs :
  rejects_exactly (Igmp.group_record_from_slice bs) (len bs < 8).
Proof.
  rewrite group_record_eq. unfold group_record.
  destruct (len bs <? 8) eqn:E8.
  - apply N.ltb_lt in E8. apply rejects_err. exact E8.
  - apply N.ltb_ge in E8. apply rejects_ok. lia.
Qed.

(* ---------------- ARP ---------------- *)
Definition arp_total (bs : bytes) : N := 8 + 2 * byte_at bs 4 + 2 * byte_at bs 5.
Definition arp_rejected (bs : bytes) : Prop := len bs < 8 \/ len bs < arp_total bs.

Lemma arp_view_reject_iff bs : rejects_exactly (Arp.slice_view bs) (arp_rejected bs).
Proof.
  rewrite arp_view_eq. unfold arp_view, arp_rejected, arp_total.
  destruct (len bs <? 8) eqn:E8.
  { apply N.ltb_lt in E8. apply rejects_err. left; exact E8. }
  apply N.ltb_ge in E8. cbv zeta.
  destruct (len bs <? 8 + 2 * byte_at bs 4 + 2 * byte_at bs 5) eqn:ET.
  { apply N.ltb_lt in ET. apply rejects_err. right; exact ET. }
  apply N.ltb_ge in ET. apply rejects_ok. intros [H|H]; lia.
Qed.

Lemma arp_view_reject_record bs e : Arp.slice_view bs = ErrLen e ->
  (len bs < 8 /\ e = mkLenError 8 (len bs) LsSlice LArp 0) \/
  (8 <= len bs /\ len bs < arp_total bs /\ e = mkLenError (arp_total bs) (len bs) LsArpAddrLengths LArp 0).
Proof.
  rewrite arp_view_eq. unfold arp_view, arp_total.
  destruct (len bs <? 8) eqn:E8.
  { apply N.ltb_lt in E8. intros H; injection H as <-. left; split; [exact E8|reflexivity]. }
  apply N.ltb_ge in E8. cbv zeta.
  destruct (len bs <? 8 + 2 * byte_at bs 4 + 2 * byte_at bs 5) eqn:ET; [|discriminate].
  apply N.ltb_lt in ET. intros H; injection H as <-. right. repeat split; assumption.
Qed.

(* ArpPacket::from_slice(..)?.try_eth_ipv4(): the three outcomes, the checks in the order
   hardware type, protocol type, hardware address size, protocol address size *)
Lemma arp_eth_ipv4_outcomes bs : bytes_ok bs ->
  let r := Arp.eth_ipv4_view bs in
  let hs := byte_at bs 4 in let ps := byte_at bs 5 in
  ((exists e, r = ArpLenErr e) <-> arp_rejected bs) /\
  (forall e, r = ArpFromErr e <->
     ~ arp_rejected bs /\
     (   (u16_at bs 0 <> 1 /\ e = NonMatchingHwType (u16_at bs 0))
      \/ (u16_at bs 0 = 1 /\ u16_at bs 2 <> 2048 /\ e = NonMatchingProtocolType (u16_at bs 2))
      \/ (u16_at bs 0 = 1 /\ u16_at bs 2 = 2048 /\ hs <> 6 /\ e = NonMatchingHwAddrSize hs)
      \/ (u16_at bs 0 = 1 /\ u16_at bs 2 = 2048 /\ hs = 6 /\ ps <> 4 /\ e = NonMatchingProtoAddrSize ps))) /\
  ((exists p, r = ArpOk p) <->
     ~ arp_rejected bs /\ u16_at bs 0 = 1 /\ u16_at bs 2 = 2048 /\ hs = 6 /\ ps = 4) /\
  (forall n, r <> ArpUB n).
Proof.
  intros Hok. cbv zeta. rewrite (arp_eth_ipv4_eq bs Hok).
  unfold arp_eth_ipv4, arp_rejected, arp_total, ARP_HW_ETHERNET, ETHER_TYPE_IPV4.
  destruct (len bs <? 8) eqn:E8; [apply N.ltb_lt in E8|apply N.ltb_ge in E8]; cbv zeta;
  [|destruct (len bs <? 8 + 2 * byte_at bs 4 + 2 * byte_at bs 5) eqn:ET;
    [apply N.ltb_lt in ET|apply N.ltb_ge in ET];
    [|destruct (u16_at bs 0 =? 1) eqn:E1; [apply N.eqb_eq in E1|apply N.eqb_neq in E1]; cbn [negb];
      [destruct (u16_at bs 2 =? 2048) eqn:E2; [apply N.eqb_eq in E2|apply N.eqb_neq in E2]; cbn [negb];
       [destruct (byte_at bs 4 =? 6) eqn:E3; [apply N.eqb_eq in E3|apply N.eqb_neq in E3]; cbn [negb];
        [destruct (byte_at bs 5 =? 4) eqn:E4; [apply N.eqb_eq in E4|apply N.eqb_neq in E4]; cbn [negb]|]|]|]]];
  (split; [|split; [intros e|split; [|intros n; discriminate]]]);
  (split; intros H);
  repeat match goal with
  | H : exists _, _ |- _ => destruct H as [? H]
  | H : ArpFromErr _ = ArpFromErr _ |- _ => injection H as H; subst
  end;
  try discriminate;
  try (eexists; reflexivity);
  try solve [intuition (try congruence; try lia)].
Qed.
