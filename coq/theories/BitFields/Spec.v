(* BitFields/Spec.v -- oracle of property C15, independent of the code.

   Headers are big-endian bit strings in the numbering of the RFCs: bit 0 is
   the most significant bit of the first octet.  A header format is a *layout*:
   the list of its fields in wire order, each with its width in bits and its
   value.  Nothing here uses shifts or masks; bits come from division by two.

   Sources of the layouts:
     IEEE 802.1Q  TCI: PCP 3, DEI 1, VID 12, then the 16 bit ether type
     RFC 791 / RFC 2474 / RFC 3168  IPv4: version 4, IHL 4, DSCP 6, ECN 2,
         total length 16, identification 16, reserved 1, DF 1, MF 1,
         fragment offset 13, TTL 8, protocol 8, checksum 16, src 32, dst 32
     RFC 8200  IPv6: version 4, traffic class 8 (= DSCP 6 + ECN 2),
         flow label 20, payload length 16, next header 8, hop limit 8, addresses
     RFC 8200 4.5  fragment header: next header 8, reserved 8,
         fragment offset 13, res 2, M 1, identification 32
     IEEE 802.1AE  SecTAG after the MACsec ether type: TCI (V, ES, SC, SCB, E, C),
         AN 2, [2 zero bits] SL 6, PN 32, optional SCI 64
     RFC 3376 4.1  IGMPv3 query: type 8, max resp code 8, checksum 16,
         group 32, Resv 4, S 1, QRV 3, QQIC 8, number of sources 16 *)
From EP Require Import Base.Bytes.
Local Open Scope N_scope.

(* ---- bit strings ------------------------------------------------------- *)

(* the low w bits of v, most significant first *)
Fixpoint nbits (w : nat) (v : N) : list bool :=
  match w with
  | O => []
  | S w' => nbits w' (v / 2) ++ [v mod 2 =? 1]
  end.

Definition bits_of (bs : bytes) : list bool := flat_map (nbits 8) bs.

Definition b2n (b : bool) : N := if b then 1 else 0.

(* value of a bit string read as a big-endian number *)
Definition bits_val (l : list bool) : N :=
  fold_left (fun a b => 2 * a + b2n b) l 0.

(* the field occupying bits [off, off+len) *)
Definition field (bits : list bool) (off len : nat) : N :=
  bits_val (firstn len (skipn off bits)).

(* two bit strings are equal everywhere except possibly inside [off, off+len) *)
Definition agree_outside (off len : nat) (x y : list bool) : Prop :=
  length x = length y /\
  forall i, (i < off \/ off + len <= i)%nat -> nth_error x i = nth_error y i.

(* ---- layouts ----------------------------------------------------------- *)

Definition layout := list (nat * N).
(* one field: width in bits, value *)
Definition F (w : nat) (v : N) : nat * N := (w, v).


Definition layout_bits (l : layout) : list bool :=
  flat_map (fun e => nbits (fst e) (snd e)) l.

Definition layout_width (l : layout) : nat :=
  fold_right (fun e a => (fst e + a)%nat) 0%nat l.

Definition octets (bs : bytes) : layout := map (fun b => F 8 b) bs.

(* a value fits a field of w bits *)
Definition fits (w : nat) (v : N) : Prop := v < 2 ^ N.of_nat w.

(* re-packing a bit string into octets (used by the runner to print a layout) *)
Fixpoint bytes_of_bits (l : list bool) : bytes :=
  match l with
  | a :: b :: c :: d :: e :: f :: g :: h :: r =>
      bits_val [a; b; c; d; e; f; g; h] :: bytes_of_bits r
  | _ => []
  end.

Definition layout_bytes (l : layout) : bytes := bytes_of_bits (layout_bits l).

(* ---- widths of the bounded types --------------------------------------- *)

Definition W_VlanId : nat := 12.
Definition W_VlanPcp : nat := 3.
Definition W_IpDscp : nat := 6.
Definition W_IpEcn : nat := 2.
Definition W_IpFragOffset : nat := 13.
Definition W_Ipv6FlowLabel : nat := 20.
Definition W_MacsecAn : nat := 2.
Definition W_MacsecShortLen : nat := 6.
Definition W_Qrv : nat := 3.

(* ---- 802.1Q tag -------------------------------------------------------- *)

Inductive vlan_field := VlanPCP | VlanDEI | VlanVID | VlanEtherType.

Definition vlan_range (f : vlan_field) : nat * nat :=
  match f with
  | VlanPCP => (0, 3) | VlanDEI => (3, 1) | VlanVID => (4, 12) | VlanEtherType => (16, 16)
  end%nat.

Definition vlan_layout (pcp dei vid ether_type : N) : layout :=
  [F 3 pcp; F 1 dei; F 12 vid; F 16 ether_type].

(* ---- IPv4 -------------------------------------------------------------- *)

Inductive ipv4_field :=
  V4Dscp | V4Ecn | V4TotalLen | V4Ident | V4DF | V4MF | V4FragOff | V4Ttl | V4Proto | V4Checksum.

Definition ipv4_range (f : ipv4_field) : nat * nat :=
  match f with
  | V4Dscp => (8, 6) | V4Ecn => (14, 2) | V4TotalLen => (16, 16) | V4Ident => (32, 16)
  | V4DF => (49, 1) | V4MF => (50, 1) | V4FragOff => (51, 13)
  | V4Ttl => (64, 8) | V4Proto => (72, 8) | V4Checksum => (80, 16)
  end%nat.

(* [rest] = source, destination, options: whole octets *)
Definition ipv4_layout (ihl dscp ecn total_len ident df mf frag_off ttl proto checksum : N)
           (rest : bytes) : layout :=
  [F 4 4; F 4 ihl; F 6 dscp; F 2 ecn; F 16 total_len; F 16 ident;
   F 1 0; F 1 df; F 1 mf; F 13 frag_off; F 8 ttl; F 8 proto; F 16 checksum]
  ++ octets rest.

(* ---- IPv6 -------------------------------------------------------------- *)

Inductive ipv6_field := V6Dscp | V6Ecn | V6FlowLabel | V6PayloadLen | V6NextHeader | V6HopLimit.

Definition ipv6_range (f : ipv6_field) : nat * nat :=
  match f with
  | V6Dscp => (4, 6) | V6Ecn => (10, 2) | V6FlowLabel => (12, 20)
  | V6PayloadLen => (32, 16) | V6NextHeader => (48, 8) | V6HopLimit => (56, 8)
  end%nat.

Definition ipv6_layout (traffic_class flow_label payload_len next_header hop_limit : N)
           (addrs : bytes) : layout :=
  [F 4 6; F 8 traffic_class; F 20 flow_label; F 16 payload_len; F 8 next_header;
   F 8 hop_limit] ++ octets addrs.

(* the same with the traffic class split as in RFC 2474 / RFC 3168 *)
Definition ipv6_layout_ds (dscp ecn flow_label payload_len next_header hop_limit : N)
           (addrs : bytes) : layout :=
  [F 4 6; F 6 dscp; F 2 ecn; F 20 flow_label; F 16 payload_len; F 8 next_header;
   F 8 hop_limit] ++ octets addrs.

(* the traffic class octet itself: RFC 2474 / RFC 3168 *)
Definition traffic_class_layout (dscp ecn : N) : layout := [F 6 dscp; F 2 ecn].

(* ---- IPv6 fragment header ---------------------------------------------- *)

Inductive frag_field := FrNextHeader | FrOffset | FrMore | FrIdent.

Definition frag_range (f : frag_field) : nat * nat :=
  match f with
  | FrNextHeader => (0, 8) | FrOffset => (16, 13) | FrMore => (31, 1) | FrIdent => (32, 32)
  end%nat.

Definition frag_layout (next_header frag_off more ident : N) : layout :=
  [F 8 next_header; F 8 0; F 13 frag_off; F 2 0; F 1 more; F 32 ident].

(* ---- MACsec SecTAG (without the leading MACsec ether type) ------------- *)

Inductive macsec_field := MsES | MsSC | MsSCB | MsE | MsC | MsAN | MsSL | MsPN.

Definition macsec_range (f : macsec_field) : nat * nat :=
  match f with
  | MsES => (1, 1) | MsSC => (2, 1) | MsSCB => (3, 1) | MsE => (4, 1) | MsC => (5, 1)
  | MsAN => (6, 2) | MsSL => (10, 6) | MsPN => (16, 32)
  end%nat.

(* [sci] present iff SC = 1; [next] = the ether type etherparse keeps in the
   header when the user data is neither encrypted nor changed *)
Definition macsec_layout (es sc scb e c an sl pn : N) (sci next : option N) : layout :=
  [F 1 0; F 1 es; F 1 sc; F 1 scb; F 1 e; F 1 c; F 2 an; F 2 0; F 6 sl; F 32 pn]
  ++ (match sci with Some s => [F 64 s] | None => [] end)
  ++ (match next with Some t => [F 16 t] | None => [] end).

(* ---- IGMPv3 membership query ------------------------------------------- *)

Inductive igmp_field := IgResv | IgS | IgQRV.

Definition igmp_range (f : igmp_field) : nat * nat :=
  match f with IgResv => (64, 4) | IgS => (68, 1) | IgQRV => (69, 3) end%nat.

Definition igmp_query_layout (max_resp checksum : N) (group : bytes) (resv s qrv qqic nsrc : N) : layout :=
  [F 8 17; F 8 max_resp; F 16 checksum] ++ octets group ++
  [F 4 resv; F 1 s; F 3 qrv; F 8 qqic; F 16 nsrc].

(* octet 8 of the query on its own *)
Definition igmp_byte8_layout (resv s qrv : N) : layout := [F 4 resv; F 1 s; F 3 qrv].
