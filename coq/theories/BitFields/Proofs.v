(* BitFields/Proofs.v -- lemmas of property C15. *)
From EP Require Import Base.Bytes BitFields.Spec BitFields.Model BitFields.Fields BitFields.BitLemmas.
From Coq Require Import ZArith Lia ZifyN ZifyBool.
Local Open Scope N_scope.

Arguments nbits : simpl never.

(* ======================================================================= *)
(* bounded types                                                            *)
(* ======================================================================= *)

Lemma checked_ctor_intro max w f g u :
  max = 2 ^ N.of_nat w - 1 ->
  (forall v, f v = if v <=? max then TOk v else TErr v max) ->
  (forall v, g v = f v) ->
  (forall v, u v = if v <=? max then Val v else Fail UBRange) ->
  checked_ctor max w f g u.
Proof.
  intros Hm Hf Hg Hu. unfold checked_ctor.
  split; [exact Hm|]. split; [|split; [|split; [exact Hg|split]]].
  - intros v. rewrite Hf. destruct (N.leb_spec v max); split; intros; try lia; try discriminate; reflexivity.
  - intros v Hv. rewrite Hf. destruct (N.leb_spec v max); [lia|reflexivity].
  - intros v. rewrite Hu. destruct (N.leb_spec v max); split; intros; try lia; try discriminate; reflexivity.
  - intros v Hv. rewrite Hu. destruct (N.leb_spec v max); [lia|reflexivity].
Qed.

Ltac ctor := apply checked_ctor_intro; [reflexivity | intros v; reflexivity ..].

Lemma VlanId_ctor : checked_ctor VlanId_MAX_U16 W_VlanId VlanId_try_new VlanId_try_from VlanId_new_unchecked.
Proof. ctor. Qed.
Lemma VlanPcp_ctor : checked_ctor VlanPcp_MAX_U8 W_VlanPcp VlanPcp_try_new VlanPcp_try_from VlanPcp_new_unchecked.
Proof. ctor. Qed.
Lemma IpDscp_ctor : checked_ctor IpDscp_MAX_U8 W_IpDscp IpDscp_try_new IpDscp_try_from IpDscp_new_unchecked.
Proof. ctor. Qed.
Lemma IpFragOffset_ctor : checked_ctor IpFragOffset_MAX_U16 W_IpFragOffset IpFragOffset_try_new IpFragOffset_try_from IpFragOffset_new_unchecked.
Proof. ctor. Qed.
Lemma Ipv6FlowLabel_ctor : checked_ctor Ipv6FlowLabel_MAX_U32 W_Ipv6FlowLabel Ipv6FlowLabel_try_new Ipv6FlowLabel_try_from Ipv6FlowLabel_new_unchecked.
Proof. ctor. Qed.
Lemma MacsecAn_ctor : checked_ctor MacsecAn_MAX_U8 W_MacsecAn MacsecAn_try_new MacsecAn_try_from MacsecAn_new_unchecked.
Proof. ctor. Qed.
Lemma MacsecShortLen_ctor : checked_ctor MacsecShortLen_MAX_U8 W_MacsecShortLen MacsecShortLen_try_from_u8 MacsecShortLen_try_from MacsecShortLen_from_u8_unchecked.
Proof. ctor. Qed.
Lemma Qrv_ctor : checked_ctor Qrv_MAX_U8 W_Qrv Qrv_try_new Qrv_try_from Qrv_new_unchecked.
Proof. ctor. Qed.

(* IpEcn::try_new goes through new_unchecked (a transmute): never UB *)
Lemma IpEcn_ctor :
  IpEcn_MAX_U8 = 2 ^ N.of_nat W_IpEcn - 1 /\
  (forall v, IpEcn_try_new v = Val (TOk v) <-> v <= IpEcn_MAX_U8) /\
  (forall v, IpEcn_MAX_U8 < v -> IpEcn_try_new v = Val (TErr v IpEcn_MAX_U8)) /\
  (forall v, IpEcn_try_from v = IpEcn_try_new v) /\
  (forall v, IpEcn_new_unchecked v = Val v <-> v <= IpEcn_MAX_U8) /\
  (forall v, IpEcn_MAX_U8 < v -> IpEcn_new_unchecked v = Fail UBRange).
Proof.
  unfold IpEcn_try_from, IpEcn_try_new, IpEcn_new_unchecked.
  split; [reflexivity|]. split; [|split; [|split; [reflexivity|split]]].
  - intros v. destruct (N.leb_spec v IpEcn_MAX_U8); cbn [bind]; split; intros; try lia; try discriminate; reflexivity.
  - intros v Hv. destruct (N.leb_spec v IpEcn_MAX_U8); [lia|reflexivity].
  - intros v. destruct (N.leb_spec v IpEcn_MAX_U8); split; intros; try lia; try discriminate; reflexivity.
  - intros v Hv. destruct (N.leb_spec v IpEcn_MAX_U8); [lia|reflexivity].
Qed.

(* MacsecShortLen::from_len never leaves the range, keeps values that fit, maps the rest to 0 *)
Lemma MacsecShortLen_from_len_spec l :
  MacsecShortLen_from_len l <= MacsecShortLen_MAX_U8 /\
  MacsecShortLen_from_len l = (if l <=? 63 then l else 0).
Proof.
  unfold MacsecShortLen_from_len, MacsecShortLen_MAX_U8.
  destruct (N.ltb_spec 63 l); destruct (N.leb_spec l 63); try lia.
Qed.

(* MacsecHeader::set_payload_len: no UB, no overflow, result in range and as documented *)
Lemma MacsecHeader_set_payload_len_spec p n :
  exists sl, MacsecHeader_set_payload_len p n = Val sl /\ sl <= MacsecShortLen_MAX_U8 /\
    sl = (if is_unmodified p then (if n <=? 61 then n + 2 else 0) else (if n <=? 63 then n else 0)).
Proof.
  unfold MacsecHeader_set_payload_len, MacsecShortLen_MAX_USIZE, MacsecShortLen_from_u8_unchecked,
    MacsecShortLen_MAX_U8.
  destruct (is_unmodified p).
  - change (63 - 2) with 61. destruct (N.ltb_spec 61 n); destruct (N.leb_spec n 61); try lia.
    + eexists; repeat split; lia.
    + rewrite (N.mod_small n 256) by lia.
      destruct (N.ltb_spec (n + 2) 256); [|lia].
      destruct (N.leb_spec (n + 2) 63); [|lia]. eexists; repeat split; lia.
  - destruct (N.ltb_spec 63 n); destruct (N.leb_spec n 63); try lia.
    + eexists; repeat split; lia.
    + rewrite (N.mod_small n 256) by lia.
      destruct (N.leb_spec n 63); [|lia]. eexists; repeat split; lia.
Qed.

(* helpers for the partial operations *)
Lemma unchecked_ok (max v : N) : v <= max -> (if v <=? max then Val v else @Fail N UBRange) = Val v.
Proof. intros H. destruct (N.leb_spec v max); [reflexivity|lia]. Qed.

Lemma eqb_true a b : (a =? b) = true -> a = b.
Proof. apply N.eqb_eq. Qed.

Lemma b2n_nonzero_b2n b : nonzero (b2n b) = b.
Proof. destruct b; reflexivity. Qed.

Lemma be16_bytes v : v < 65536 -> be16 (be16_0 v) (be16_1 v) = v.
Proof. unfold be16, be16_0, be16_1. intros H. dmlia. Qed.

Lemma be32_bytes v : v < 4294967296 -> be32 (be32_0 v) (be32_1 v) (be32_2 v) (be32_3 v) = v.
Proof.
  unfold be32, be32_0, be32_1, be32_2, be32_3. intros H.
  replace (v / 65536) with (v / 256 / 256) by (rewrite N.div_div by discriminate; reflexivity).
  replace (v / 16777216) with (v / 256 / 256 / 256) by (rewrite !N.div_div by discriminate; reflexivity).
  assert (H3 : v / 256 / 256 / 256 < 256).
  { rewrite !N.div_div by discriminate. apply N.div_lt_upper_bound; [discriminate|].
    change (256 * 256 * 256 * 256) with 4294967296. exact H. }
  rewrite (N.mod_small (v / 256 / 256 / 256) 256) by exact H3.
  pose proof (N.div_mod v 256 ltac:(discriminate)) as E0.
  pose proof (N.div_mod (v / 256) 256 ltac:(discriminate)) as E1.
  pose proof (N.div_mod (v / 256 / 256) 256 ltac:(discriminate)) as E2.
  generalize dependent (v mod 256). generalize dependent ((v / 256) mod 256).
  generalize dependent ((v / 256 / 256) mod 256).
  generalize dependent (v / 256 / 256 / 256). generalize dependent (v / 256 / 256).
  generalize dependent (v / 256). intros. lia.
Qed.

Ltac split_chk H :=
  repeat match type of H with
         | (_ && _)%bool = true => let H1 := fresh H in apply andb_prop in H; destruct H as [H H1]
         end;
  repeat match goal with
         | H : (_ =? _) = true |- _ => apply N.eqb_eq in H
         | H : Bool.eqb _ _ = true |- _ => apply Bool.eqb_prop in H
         | H : bits_eqb _ _ = true |- _ => apply bits_eqb_eq in H
         | H : (_ <? _) = true |- _ => apply N.ltb_lt in H
         | H : (_ <=? _) = true |- _ => apply N.leb_le in H
         end.

Ltac pows :=
  repeat match goal with
         | H : context [2 ^ N.of_nat ?n] |- _ =>
             let k := eval vm_compute in (2 ^ N.of_nat n) in change (2 ^ N.of_nat n) with k in H
         | |- context [2 ^ N.of_nat ?n] =>
             let k := eval vm_compute in (2 ^ N.of_nat n) in change (2 ^ N.of_nat n) with k
         end.


(* ======================================================================= *)
(* 802.1Q                                                                   *)
(* ======================================================================= *)

Definition vlan_b0 (pcp : N) (dei : bool) (vid : N) : N :=
  N.lor (if dei then N.lor (be16_0 vid) 16 else be16_0 vid) (shl8 pcp 5).

Definition vlan_chk (pcp vid : N) (dei : bool) : bool :=
  let b0 := vlan_b0 pcp dei vid in
  let b1 := be16_1 vid in
  bits_eqb (nbits 8 b0 ++ nbits 8 b1) (nbits 3 pcp ++ nbits 1 (b2n dei) ++ nbits 12 vid)
  && (N.land (N.shiftr b0 5) 7 =? pcp)
  && Bool.eqb (nonzero (N.land b0 16)) dei
  && (be16 (N.land b0 15) b1 =? vid)
  && (b0 <? 256) && (b1 <? 256).

(* complete sweep: 8 x 4096 x 2 *)
Lemma vlan_sweep :
  forallb (fun pcp => forallb (fun vid => vlan_chk pcp vid false && vlan_chk pcp vid true)
                              (range 4096)) (range 8) = true.
Proof. vm_compute. reflexivity. Qed.

Lemma vlan_chk_all pcp vid dei : pcp <= 7 -> vid <= 4095 -> vlan_chk pcp vid dei = true.
Proof.
  intros Hp Hv.
  pose proof (sweep2 8 4096 (fun pcp vid => vlan_chk pcp vid false && vlan_chk pcp vid true)
                vlan_sweep pcp vid) as H.
  cbv beta in H. apply andb_prop in H; [|change (N.of_nat 8) with 8; lia | change (N.of_nat 4096) with 4096; lia].
  destruct dei; tauto.
Qed.

Lemma vlan_enc_layout h : vlan_ok h ->
  bits_of (SingleVlanHeader_to_bytes h) = layout_bits (vlan_spec_layout h).
Proof.
  destruct h as [pcp dei vid et]. unfold vlan_ok, VlanPcp_MAX_U8, VlanId_MAX_U16. cbn [vlan_pcp vlan_id vlan_ether_type].
  intros (Hp & Hv & He).
  pose proof (vlan_chk_all pcp vid dei Hp Hv) as C. unfold vlan_chk in C. cbv zeta in C. split_chk C.
  unfold SingleVlanHeader_to_bytes, vlan_spec_layout, vlan_layout.
  cbn [vlan_pcp vlan_dei vlan_id vlan_ether_type].
  rewrite !bits_of_cons, !layout_bits_cons. change (bits_of []) with (@nil bool). change (layout_bits []) with (@nil bool).
  fold (vlan_b0 pcp dei vid).
  rewrite app_assoc, C. unfold be16_0, be16_1. rewrite app_nil_r, nbits16_bytes.
  rewrite <- !app_assoc. rewrite app_nil_r. reflexivity.
Qed.

Lemma vlan_set_ok f h v : vlan_ok h -> wfits (vlan_range f) v -> vlan_ok (vlan_set f h v).
Proof.
  destruct h as [pcp dei vid et]. unfold vlan_ok, wfits, fits, VlanPcp_MAX_U8, VlanId_MAX_U16.
  intros (Hp & Hv & He) Hf.
  destruct f; cbn [vlan_set vlan_range snd vlan_pcp vlan_dei vlan_id vlan_ether_type] in *;
    repeat split; try assumption; pows; lia.
Qed.

Lemma vlan_no_bleed f h v : vlan_ok h -> wfits (vlan_range f) v ->
  agree_outside (fst (vlan_range f)) (snd (vlan_range f))
    (bits_of (SingleVlanHeader_to_bytes (vlan_set f h v))) (bits_of (SingleVlanHeader_to_bytes h)).
Proof.
  intros Hh Hf. rewrite (vlan_enc_layout _ (vlan_set_ok f h v Hh Hf)), (vlan_enc_layout h Hh).
  destruct h as [pcp dei vid et]. destruct f.
  - exact (layout_agree [] 3 _ _ [_; _; _]).
  - exact (layout_agree [_] 1 _ _ [_; _]).
  - exact (layout_agree [_; _] 12 _ _ [_]).
  - exact (layout_agree [_; _; _] 16 _ _ []).
Qed.

Lemma vlan_from_bytes_enc h : vlan_ok h ->
  match SingleVlanHeader_to_bytes h with
  | [b0; b1; b2; b3] => SingleVlanHeader_from_bytes b0 b1 b2 b3 = Val h
  | _ => False
  end.
Proof.
  destruct h as [pcp dei vid et]. unfold vlan_ok, VlanPcp_MAX_U8, VlanId_MAX_U16. cbn [vlan_pcp vlan_id vlan_ether_type].
  intros (Hp & Hv & He).
  pose proof (vlan_chk_all pcp vid dei Hp Hv) as C. unfold vlan_chk in C. cbv zeta in C. split_chk C.
  unfold SingleVlanHeader_to_bytes. cbn [vlan_pcp vlan_dei vlan_id vlan_ether_type].
  fold (vlan_b0 pcp dei vid). unfold SingleVlanHeader_from_bytes.
  rewrite C4, C3, C2, be16_bytes by assumption.
  unfold VlanPcp_new_unchecked, VlanId_new_unchecked, VlanPcp_MAX_U8, VlanId_MAX_U16.
  rewrite !unchecked_ok by assumption. reflexivity.
Qed.

Lemma vlan_decoders_same a b c d :
  SingleVlanHeader_from_slice [a; b; c; d] = SingleVlanHeader_from_bytes a b c d /\
  SingleVlanSlice_decode [a; b; c; d] = SingleVlanHeader_from_bytes a b c d.
Proof. split; reflexivity. Qed.

(* ======================================================================= *)
(* IPv4                                                                     *)
(* ======================================================================= *)

(* ---- shared helpers ---- *)
Lemma app_tail {A} (x y z t : list A) : x ++ y = z -> x ++ y ++ t = z ++ t.
Proof. intros <-. rewrite app_assoc. reflexivity. Qed.

Lemma nbits16_bytes_t v t : nbits 8 (be16_0 v) ++ nbits 8 (be16_1 v) ++ t = nbits 16 v ++ t.
Proof. apply app_tail. apply nbits16_bytes. Qed.

Lemma take_app_exact {A} (x y : list A) n : len x = n -> take n (x ++ y) = x.
Proof.
  intros <-. unfold take, len. rewrite Nat2N.id, firstn_app, Nat.sub_diag, firstn_all.
  cbn [firstn]. apply app_nil_r.
Qed.

Lemma drop_app_exact {A} (x y : list A) n : len x = n -> drop n (x ++ y) = y.
Proof.
  intros <-. unfold drop, len. rewrite Nat2N.id, skipn_app, Nat.sub_diag, skipn_all. reflexivity.
Qed.

Lemma drop_app_ge {A} (x y : list A) n : len x <= n -> drop n (x ++ y) = drop (n - len x) y.
Proof.
  intros H. unfold drop, len in *. rewrite skipn_app.
  rewrite (skipn_all2 x) by lia. cbn [app]. f_equal. lia.
Qed.

Lemma take_all {A} (x : list A) : take (len x) x = x.
Proof. unfold take, len. rewrite Nat2N.id. apply firstn_all. Qed.

Ltac getu_norm :=
  unfold getu, rd;
  repeat match goal with
         | |- context [N.to_nat ?k] =>
             let n := eval vm_compute in (N.to_nat k) in change (N.to_nat k) with n
         end;
  cbn [nth_error bind].

(* ---- IPv4 sweeps ---- *)
Definition v4_b1 (dscp ecn : N) : N := N.lor (shl8 dscp 2) ecn.
Definition v4_chk1 (dscp ecn : N) : bool :=
  let b := v4_b1 dscp ecn in
  bits_eqb (nbits 8 b) (nbits 6 dscp ++ nbits 2 ecn)
  && (N.shiftr b 2 =? dscp) && (N.land b 3 =? ecn) && (b <? 256).
Lemma v4_sweep1 : forallb (fun d => forallb (v4_chk1 d) (range 4)) (range 64) = true.
Proof. vm_compute. reflexivity. Qed.

Definition v4_flags (df mf : bool) : N :=
  let result := 0 in
  let result := if df then N.lor result 64 else result in
  let result := if mf then N.lor result 32 else result in result.
Definition v4_b6 (df mf : bool) (fo : N) : N := N.lor (v4_flags df mf) (N.land (be16_0 fo) 31).
Definition v4_chk67 (df mf : bool) (fo : N) : bool :=
  let b6 := v4_b6 df mf fo in let b7 := be16_1 fo in
  bits_eqb (nbits 8 b6 ++ nbits 8 b7) (nbits 1 0 ++ nbits 1 (b2n df) ++ nbits 1 (b2n mf) ++ nbits 13 fo)
  && Bool.eqb (nonzero (N.land b6 64)) df && Bool.eqb (nonzero (N.land b6 32)) mf
  && (be16 (N.land b6 31) b7 =? fo) && (b6 <? 256) && (b7 <? 256).
Lemma v4_sweep67 :
  forallb (fun fo => v4_chk67 false false fo && v4_chk67 false true fo
                     && v4_chk67 true false fo && v4_chk67 true true fo) (range 8192) = true.
Proof. vm_compute. reflexivity. Qed.

Definition v4_b0 (k : N) : N := N.lor (shl8 4 4) (k + 5).
Definition v4_chk0 (k : N) : bool :=
  let b := v4_b0 k in
  bits_eqb (nbits 8 b) (nbits 4 4 ++ nbits 4 (k + 5))
  && (N.shiftr b 4 =? 4) && (N.land b 15 =? k + 5) && (b <? 256).
Lemma v4_sweep0 : forallb v4_chk0 (range 11) = true.
Proof. vm_compute. reflexivity. Qed.

Lemma v4_chk1_all d e : d <= 63 -> e <= 3 -> v4_chk1 d e = true.
Proof.
  intros. apply (sweep2 64 4 v4_chk1 v4_sweep1).
  - change (N.of_nat 64) with 64. lia.
  - change (N.of_nat 4) with 4. lia.
Qed.

Lemma v4_chk67_all df mf fo : fo <= 8191 -> v4_chk67 df mf fo = true.
Proof.
  intros H. pose proof (sweep 8192 _ v4_sweep67 fo) as S. cbv beta in S.
  assert (L : fo < N.of_nat 8192) by (change (N.of_nat 8192) with 8192; lia).
  specialize (S L). apply andb_prop in S. destruct S as [S S4].
  apply andb_prop in S. destruct S as [S S3]. apply andb_prop in S. destruct S as [S1 S2].
  destruct df, mf; assumption.
Qed.

Lemma v4_chk0_all k : k <= 10 -> v4_chk0 k = true.
Proof. intros. apply (sweep 11 v4_chk0 v4_sweep0). change (N.of_nat 11) with 11. lia. Qed.

Lemma v4_ihl_val h : len (v4_options h) <= 40 -> len (v4_options h) mod 4 = 0 ->
  Ipv4Header_ihl h = len (v4_options h) / 4 + 5 /\
  (20 + len (v4_options h)) / 4 = len (v4_options h) / 4 + 5 /\
  len (v4_options h) / 4 <= 10 /\ (len (v4_options h) / 4 + 5) * 4 = 20 + len (v4_options h).
Proof. unfold Ipv4Header_ihl. generalize (len (v4_options h)). intros n H1 H2. dmlia. Qed.

Lemma ipv4_enc_layout h : ipv4_ok h ->
  bits_of (Ipv4Header_to_bytes h) = layout_bits (ipv4_spec_layout h).
Proof.
  destruct h as [dscp ecn tl id df mf fo ttl pr ck src dst opt].
  unfold ipv4_ok, IpDscp_MAX_U8, IpEcn_MAX_U8, IpFragOffset_MAX_U16.
  cbn [v4_dscp v4_ecn v4_total_len v4_identification v4_dont_fragment v4_more_fragments
       v4_fragment_offset v4_time_to_live v4_protocol v4_header_checksum v4_source v4_destination v4_options].
  intros (Hd & He & Htl & Hid & Hfo & Httl & Hpr & Hck & Hs & Hsl & Hdst & Hdl & Ho & Hol & Hom).
  pose proof (v4_ihl_val (mkIpv4 dscp ecn tl id df mf fo ttl pr ck src dst opt) Hol Hom) as (I1 & I2 & I3 & I4).
  cbn [v4_options] in *.
  pose proof (v4_chk1_all dscp ecn Hd He) as P. unfold v4_chk1 in P. cbv zeta in P. split_chk P.
  pose proof (v4_chk67_all df mf fo Hfo) as Q. unfold v4_chk67 in Q. cbv zeta in Q. split_chk Q.
  pose proof (v4_chk0_all _ I3) as R. unfold v4_chk0 in R. cbv zeta in R. split_chk R.
  unfold Ipv4Header_to_bytes, v4_fixed, v4_frag_and_flags, ipv4_spec_layout, ipv4_layout.
  cbn [v4_dscp v4_ecn v4_total_len v4_identification v4_dont_fragment v4_more_fragments
       v4_fragment_offset v4_time_to_live v4_protocol v4_header_checksum v4_source v4_destination v4_options fst snd].
  rewrite I1, I2.
  fold (v4_flags df mf). fold (v4_b6 df mf fo). fold (v4_b1 dscp ecn). fold (v4_b0 (len opt / 4)).
  rewrite !bits_of_app, layout_bits_app, bits_of_octets, !bits_of_app.
  rewrite !bits_of_cons, !layout_bits_cons.
  change (bits_of []) with (@nil bool). change (layout_bits []) with (@nil bool).
  rewrite R, P.
  rewrite (nbits16_bytes_t tl), (nbits16_bytes_t id).
  rewrite (app_tail _ _ _ _ Q).
  rewrite (nbits16_bytes_t ck).
  rewrite <- !app_assoc. rewrite ?app_nil_r. cbn [app]. reflexivity.
Qed.


Lemma ipv4_set_ok f h v : ipv4_ok h -> wfits (ipv4_range f) v -> ipv4_ok (ipv4_set f h v).
Proof.
  destruct h as [dscp ecn tl id df mf fo ttl pr ck src dst opt].
  unfold ipv4_ok, wfits, fits, IpDscp_MAX_U8, IpEcn_MAX_U8, IpFragOffset_MAX_U16.
  intros (Hd & He & Htl & Hid & Hfo & Httl & Hpr & Hck & Hs & Hsl & Hdst & Hdl & Ho & Hol & Hom) Hf.
  destruct f; cbn [ipv4_set ipv4_range snd v4_dscp v4_ecn v4_total_len v4_identification v4_dont_fragment
       v4_more_fragments v4_fragment_offset v4_time_to_live v4_protocol v4_header_checksum v4_source
       v4_destination v4_options] in *;
    repeat split; try assumption; pows; lia.
Qed.

Lemma ipv4_no_bleed f h v : ipv4_ok h -> wfits (ipv4_range f) v ->
  agree_outside (fst (ipv4_range f)) (snd (ipv4_range f))
    (bits_of (Ipv4Header_to_bytes (ipv4_set f h v))) (bits_of (Ipv4Header_to_bytes h)).
Proof.
  intros Hh Hf. rewrite (ipv4_enc_layout _ (ipv4_set_ok f h v Hh Hf)), (ipv4_enc_layout h Hh).
  destruct h as [dscp ecn tl id df mf fo ttl pr ck src dst opt]. destruct f.
  - exact (layout_agree [_; _] 6 _ _ ([_; _; _; _; _; _; _; _; _; _] ++ octets _)).
  - exact (layout_agree [_; _; _] 2 _ _ ([_; _; _; _; _; _; _; _; _] ++ octets _)).
  - exact (layout_agree [_; _; _; _] 16 _ _ ([_; _; _; _; _; _; _; _] ++ octets _)).
  - exact (layout_agree [_; _; _; _; _] 16 _ _ ([_; _; _; _; _; _; _] ++ octets _)).
  - exact (layout_agree [_; _; _; _; _; _; _] 1 _ _ ([_; _; _; _; _] ++ octets _)).
  - exact (layout_agree [_; _; _; _; _; _; _; _] 1 _ _ ([_; _; _; _] ++ octets _)).
  - exact (layout_agree [_; _; _; _; _; _; _; _; _] 13 _ _ ([_; _; _] ++ octets _)).
  - exact (layout_agree [_; _; _; _; _; _; _; _; _; _] 8 _ _ ([_; _] ++ octets _)).
  - exact (layout_agree [_; _; _; _; _; _; _; _; _; _; _] 8 _ _ ([_] ++ octets _)).
  - exact (layout_agree [_; _; _; _; _; _; _; _; _; _; _; _] 16 _ _ ([] ++ octets _)).
Qed.

Lemma ipv4_roundtrip h : ipv4_ok h -> Ipv4Header_from_slice (Ipv4Header_to_bytes h) = Val h.
Proof.
  destruct h as [dscp ecn tl id df mf fo ttl pr ck src dst opt].
  unfold ipv4_ok, IpDscp_MAX_U8, IpEcn_MAX_U8, IpFragOffset_MAX_U16.
  cbn [v4_dscp v4_ecn v4_total_len v4_identification v4_dont_fragment v4_more_fragments
       v4_fragment_offset v4_time_to_live v4_protocol v4_header_checksum v4_source v4_destination v4_options].
  intros (Hd & He & Htl & Hid & Hfo & Httl & Hpr & Hck & Hs & Hsl & Hdst & Hdl & Ho & Hol & Hom).
  pose proof (v4_ihl_val (mkIpv4 dscp ecn tl id df mf fo ttl pr ck src dst opt) Hol Hom) as (I1 & I2 & I3 & I4).
  cbn [v4_options] in *.
  pose proof (v4_chk1_all dscp ecn Hd He) as P. unfold v4_chk1 in P. cbv zeta in P. split_chk P.
  pose proof (v4_chk67_all df mf fo Hfo) as Q. unfold v4_chk67 in Q. cbv zeta in Q. split_chk Q.
  pose proof (v4_chk0_all _ I3) as R. unfold v4_chk0 in R. cbv zeta in R. split_chk R.
  unfold Ipv4Header_from_slice, Ipv4Header_to_bytes, v4_fixed, v4_frag_and_flags.
  cbn [v4_dscp v4_ecn v4_total_len v4_identification v4_dont_fragment v4_more_fragments
       v4_fragment_offset v4_time_to_live v4_protocol v4_header_checksum v4_source v4_destination v4_options fst snd].
  rewrite I1.
  fold (v4_flags df mf). fold (v4_b6 df mf fo). fold (v4_b1 dscp ecn). fold (v4_b0 (len opt / 4)).
  rewrite <- !app_assoc.
  set (tail := src ++ dst ++ opt).
  assert (Ltail : len tail = 8 + len opt) by (unfold tail; rewrite !len_app; lia).
  match goal with |- bind (Ipv4HeaderSlice_from_slice (?p ++ tail)) _ = _ => set (pre := p) end.
  assert (Lpre : len pre = 12) by reflexivity.
  set (S := pre ++ tail).
  assert (LS : len S = 20 + len opt) by (unfold S; rewrite len_app; lia).
  assert (E : Ipv4HeaderSlice_from_slice S = Val S).
  { unfold Ipv4HeaderSlice_from_slice. rewrite LS.
    destruct (N.ltb_spec (20 + len opt) 20); [lia|].
    unfold S at 1. unfold pre at 1. cbn [app]. getu_norm. rewrite R2, R1. change (4 =? 4) with true. cbn [negb].
    destruct (N.ltb_spec (len opt / 4 + 5) 5); [lia|]. rewrite I4.
    destruct (N.ltb_spec (20 + len opt) (20 + len opt)); [lia|].
    rewrite <- LS. rewrite take_all. reflexivity. }
  rewrite E. cbn [bind].
  unfold V4S_to_header, V4S_dcp, V4S_ecn, V4S_total_len, V4S_identification, V4S_dont_fragment,
    V4S_more_fragments, V4S_fragments_offset, V4S_ttl, V4S_protocol, V4S_header_checksum,
    V4S_source, V4S_destination, V4S_options, getu_n.
  rewrite LS.
  destruct (N.leb_spec (12 + 4) (20 + len opt)); [|lia].
  destruct (N.leb_spec (16 + 4) (20 + len opt)); [|lia].
  destruct (N.leb_spec 20 (20 + len opt)); [|lia].
  assert (D12 : drop 12 S = tail) by (apply drop_app_exact; exact Lpre).
  assert (D16 : drop 16 S = drop 4 tail) by (unfold S; rewrite drop_app_ge by (rewrite Lpre; lia); reflexivity).
  assert (D20 : drop 20 S = drop 8 tail) by (unfold S; rewrite drop_app_ge by (rewrite Lpre; lia); reflexivity).
  rewrite D12, D16, D20.
  unfold S, pre. cbn [app]. getu_norm.
  rewrite P2, P1, Q4, Q3, Q2, !be16_bytes by assumption.
  unfold IpDscp_new_unchecked, IpEcn_new_unchecked, IpFragOffset_new_unchecked,
    IpDscp_MAX_U8, IpEcn_MAX_U8, IpFragOffset_MAX_U16.
  rewrite !unchecked_ok by assumption. cbn [bind].
  unfold tail.
  rewrite (take_app_exact src (dst ++ opt) 4 Hsl).
  rewrite (drop_app_exact src (dst ++ opt) 4 Hsl).
  rewrite (take_app_exact dst opt 4 Hdl).
  replace (drop 8 (src ++ dst ++ opt)) with opt.
  2:{ rewrite app_assoc. symmetry. apply drop_app_exact. rewrite len_app. lia. }
  reflexivity.
Qed.

(* ======================================================================= *)
(* IPv6 and the fragment header                                             *)
(* ======================================================================= *)

(* ---- IPv6 sweeps ---- *)
Definition v6_b0 (tc : N) : N := N.lor (shl8 6 4) (N.shiftr tc 4).
Definition v6_b1 (tc flhi : N) : N := N.lor (shl8 tc 4) flhi.
Definition v6_chk01 (tc flhi : N) : bool :=
  let b0 := v6_b0 tc in let b1 := v6_b1 tc flhi in
  bits_eqb (nbits 8 b0 ++ nbits 8 b1) (nbits 4 6 ++ nbits 8 tc ++ nbits 4 flhi)
  && (N.shiftr b0 4 =? 6) && (N.lor (shl8 b0 4) (N.shiftr b1 4) =? tc) && (N.land b1 15 =? flhi)
  && (b0 <? 256) && (b1 <? 256).
Lemma v6_sweep01 : forallb (fun tc => forallb (v6_chk01 tc) (range 16)) (range 256) = true.
Proof. vm_compute. reflexivity. Qed.
Lemma v6_chk01_all tc flhi : tc < 256 -> flhi < 16 -> v6_chk01 tc flhi = true.
Proof. intros. apply (sweep2 256 16 v6_chk01 v6_sweep01); assumption. Qed.

(* Ipv6Header::set_dscp / set_ecn / dscp / ecn on every traffic class *)
Definition v6_chk_dscp (tc d : N) : bool :=
  let t := Ipv6Header_set_dscp tc d in
  (t / 4 =? d) && (t mod 4 =? tc mod 4) && (t <? 256)
  && (N.land (N.shiftr t 2) 63 =? d) && (N.land t 3 =? tc mod 4).
Lemma v6_sweep_dscp : forallb (fun tc => forallb (v6_chk_dscp tc) (range 64)) (range 256) = true.
Proof. vm_compute. reflexivity. Qed.
Definition v6_chk_ecn (tc e : N) : bool :=
  let t := Ipv6Header_set_ecn tc e in
  (t / 4 =? tc / 4) && (t mod 4 =? e) && (t <? 256)
  && (N.land (N.shiftr t 2) 63 =? tc / 4) && (N.land t 3 =? e).
Lemma v6_sweep_ecn : forallb (fun tc => forallb (v6_chk_ecn tc) (range 4)) (range 256) = true.
Proof. vm_compute. reflexivity. Qed.
Definition v6_chk_tc (tc : N) : bool :=
  (N.land (N.shiftr tc 2) 63 =? tc / 4) && (N.land tc 3 =? tc mod 4) && (tc / 4 <=? 63) && (tc mod 4 <=? 3).
Lemma v6_sweep_tc : forallb v6_chk_tc (range 256) = true.
Proof. vm_compute. reflexivity. Qed.

Lemma v6_chk_dscp_all tc d : tc < 256 -> d <= 63 -> v6_chk_dscp tc d = true.
Proof. intros. apply (sweep2 256 64 v6_chk_dscp v6_sweep_dscp); [assumption|change (N.of_nat 64) with 64; lia]. Qed.
Lemma v6_chk_ecn_all tc e : tc < 256 -> e <= 3 -> v6_chk_ecn tc e = true.
Proof. intros. apply (sweep2 256 4 v6_chk_ecn v6_sweep_ecn); [assumption|change (N.of_nat 4) with 4; lia]. Qed.
Lemma v6_chk_tc_all tc : tc < 256 -> v6_chk_tc tc = true.
Proof. intros. apply (sweep 256 v6_chk_tc v6_sweep_tc); assumption. Qed.

(* the crate's DSCP/ECN accessors of the IPv6 traffic class *)
Lemma ipv6_tc_accessors tc : tc < 256 ->
  Ipv6Header_dscp tc = Val (tc / 4) /\ Ipv6Header_ecn tc = Val (tc mod 4) /\
  tc / 4 <= IpDscp_MAX_U8 /\ tc mod 4 <= IpEcn_MAX_U8.
Proof.
  intros H. pose proof (v6_chk_tc_all tc H) as C. unfold v6_chk_tc in C. split_chk C.
  unfold Ipv6Header_dscp, Ipv6Header_ecn, IpDscp_new_unchecked, IpEcn_new_unchecked, IpDscp_MAX_U8, IpEcn_MAX_U8.
  rewrite C, C2, !unchecked_ok by assumption. auto.
Qed.

Lemma ipv6_set_dscp_spec tc d : tc < 256 -> d <= IpDscp_MAX_U8 ->
  let t := Ipv6Header_set_dscp tc d in
  t < 256 /\ t / 4 = d /\ t mod 4 = tc mod 4 /\ Ipv6Header_dscp t = Val d /\ Ipv6Header_ecn t = Val (tc mod 4).
Proof.
  unfold IpDscp_MAX_U8. intros H Hd. cbv zeta.
  pose proof (v6_chk_dscp_all tc d H Hd) as C. unfold v6_chk_dscp in C. cbv zeta in C. split_chk C.
  pose proof (ipv6_tc_accessors _ C2) as (A1 & A2 & _).
  rewrite A1, A2, C, C3. auto.
Qed.

Lemma ipv6_set_ecn_spec tc e : tc < 256 -> e <= IpEcn_MAX_U8 ->
  let t := Ipv6Header_set_ecn tc e in
  t < 256 /\ t / 4 = tc / 4 /\ t mod 4 = e /\ Ipv6Header_dscp t = Val (tc / 4) /\ Ipv6Header_ecn t = Val e.
Proof.
  unfold IpEcn_MAX_U8. intros H He. cbv zeta.
  pose proof (v6_chk_ecn_all tc e H He) as C. unfold v6_chk_ecn in C. cbv zeta in C. split_chk C.
  pose proof (ipv6_tc_accessors _ C2) as (A1 & A2 & _).
  rewrite A1, A2, C, C3. auto.
Qed.

Lemma flow_label_bits fl : fl <= 1048575 ->
  nbits 4 (be32_1 fl) ++ nbits 8 (be32_2 fl) ++ nbits 8 (be32_3 fl) = nbits 20 fl
  /\ be32_1 fl < 16 /\ be32 0 (be32_1 fl) (be32_2 fl) (be32_3 fl) = fl.
Proof.
  intros H. unfold be32_1, be32_2, be32_3.
  assert (Hq : fl / 65536 < 16) by (apply N.div_lt_upper_bound; [discriminate|lia]).
  rewrite (N.mod_small (fl / 65536) 256) by lia.
  split; [|split; [exact Hq|]].
  - rewrite nbits16_bytes. change 20%nat with (4 + 16)%nat. rewrite nbits_split. reflexivity.
  - pose proof (be32_bytes fl ltac:(lia)) as E. unfold be32_0, be32_1, be32_2, be32_3 in E.
    assert (Z : fl / 16777216 = 0) by (apply N.div_small; lia).
    rewrite Z in E. rewrite (N.mod_small (fl / 65536) 256) in E by lia. exact E.
Qed.

Lemma tc_split tc : nbits 8 tc = nbits 6 (tc / 4) ++ nbits 2 (tc mod 4).
Proof.
  change 8%nat with (6 + 2)%nat. rewrite nbits_split. change (2 ^ N.of_nat 2) with 4.
  rewrite <- (nbits_mod 2 tc). reflexivity.
Qed.

Ltac v6_proj := cbn [v6_traffic_class v6_flow_label v6_payload_length v6_next_header v6_hop_limit v6_source v6_destination].

Lemma ipv6_enc_layout h : ipv6_ok h ->
  bits_of (Ipv6Header_to_bytes h) = layout_bits (ipv6_spec_layout h).
Proof.
  destruct h as [tc fl pl nh hl src dst]. unfold ipv6_ok, Ipv6FlowLabel_MAX_U32. v6_proj.
  intros (Htc & Hfl & Hpl & Hnh & Hhl & Hs & Hsl & Hd & Hdl).
  pose proof (flow_label_bits fl Hfl) as (F1 & F2 & F3).
  pose proof (v6_chk01_all tc _ Htc F2) as C. unfold v6_chk01 in C. cbv zeta in C. split_chk C.
  unfold Ipv6Header_to_bytes, ipv6_spec_layout, ipv6_layout. v6_proj.
  fold (v6_b0 tc). fold (v6_b1 tc (be32_1 fl)).
  rewrite !bits_of_app, layout_bits_app, bits_of_octets, !bits_of_app.
  rewrite !bits_of_cons, !layout_bits_cons.
  change (bits_of []) with (@nil bool). change (layout_bits []) with (@nil bool).
  rewrite (app_tail _ _ _ _ C). rewrite <- !app_assoc.
  rewrite (app_assoc (nbits 4 (be32_1 fl))), (app_assoc (nbits 4 (be32_1 fl) ++ _)).
  rewrite <- (app_assoc (nbits 4 (be32_1 fl))), F1.
  rewrite (nbits16_bytes_t pl). rewrite ?app_nil_r. reflexivity.
Qed.

Lemma ipv6_enc_layout_ds h : ipv6_ok h ->
  bits_of (Ipv6Header_to_bytes h) = layout_bits (ipv6_spec_layout_ds h).
Proof.
  intros H. rewrite (ipv6_enc_layout h H). destruct h as [tc fl pl nh hl src dst].
  unfold ipv6_spec_layout, ipv6_spec_layout_ds, ipv6_layout, ipv6_layout_ds. v6_proj.
  rewrite !layout_bits_app, !layout_bits_cons. rewrite (tc_split tc). rewrite <- !app_assoc. reflexivity.
Qed.

Lemma ipv6_set_ok f h v : ipv6_ok h -> wfits (ipv6_range f) v -> ipv6_ok (ipv6_set f h v).
Proof.
  destruct h as [tc fl pl nh hl src dst]. unfold ipv6_ok, wfits, fits, Ipv6FlowLabel_MAX_U32.
  intros (Htc & Hfl & Hpl & Hnh & Hhl & Hs & Hsl & Hd & Hdl) Hf.
  destruct f; cbn [ipv6_set ipv6_range snd] in *; v6_proj; pows.
  - pose proof (ipv6_set_dscp_spec tc v Htc ltac:(unfold IpDscp_MAX_U8; lia)) as (A & _). tauto.
  - pose proof (ipv6_set_ecn_spec tc v Htc ltac:(unfold IpEcn_MAX_U8; lia)) as (A & _). tauto.
  - repeat split; try assumption; lia.
  - repeat split; try assumption; lia.
  - repeat split; try assumption; lia.
  - repeat split; try assumption; lia.
Qed.

Lemma ipv6_no_bleed f h v : ipv6_ok h -> wfits (ipv6_range f) v ->
  agree_outside (fst (ipv6_range f)) (snd (ipv6_range f))
    (bits_of (Ipv6Header_to_bytes (ipv6_set f h v))) (bits_of (Ipv6Header_to_bytes h)).
Proof.
  intros Hh Hf. rewrite (ipv6_enc_layout_ds _ (ipv6_set_ok f h v Hh Hf)), (ipv6_enc_layout_ds h Hh).
  destruct h as [tc fl pl nh hl src dst].
  assert (Htc : tc < 256) by (destruct Hh as (A & _); exact A).
  unfold wfits, fits in Hf.
  destruct f; cbn [ipv6_set ipv6_range snd fst] in *; unfold ipv6_spec_layout_ds, ipv6_layout_ds; v6_proj; pows.
  - pose proof (ipv6_set_dscp_spec tc v Htc ltac:(unfold IpDscp_MAX_U8; lia)) as (_ & A & B & _).
    rewrite A, B. exact (layout_agree [_] 6 _ _ ([_; _; _; _; _] ++ octets _)).
  - pose proof (ipv6_set_ecn_spec tc v Htc ltac:(unfold IpEcn_MAX_U8; lia)) as (_ & A & B & _).
    rewrite A, B. exact (layout_agree [_; _] 2 _ _ ([_; _; _; _] ++ octets _)).
  - exact (layout_agree [_; _; _] 20 _ _ ([_; _; _] ++ octets _)).
  - exact (layout_agree [_; _; _; _] 16 _ _ ([_; _] ++ octets _)).
  - exact (layout_agree [_; _; _; _; _] 8 _ _ ([_] ++ octets _)).
  - exact (layout_agree [_; _; _; _; _; _] 8 _ _ ([] ++ octets _)).
Qed.

Lemma ipv6_roundtrip h : ipv6_ok h -> Ipv6Header_from_slice (Ipv6Header_to_bytes h) = Val h.
Proof.
  destruct h as [tc fl pl nh hl src dst]. unfold ipv6_ok, Ipv6FlowLabel_MAX_U32. v6_proj.
  intros (Htc & Hfl & Hpl & Hnh & Hhl & Hs & Hsl & Hd & Hdl).
  pose proof (flow_label_bits fl Hfl) as (F1 & F2 & F3).
  pose proof (v6_chk01_all tc _ Htc F2) as C. unfold v6_chk01 in C. cbv zeta in C. split_chk C.
  unfold Ipv6Header_from_slice, Ipv6Header_to_bytes. v6_proj.
  fold (v6_b0 tc). fold (v6_b1 tc (be32_1 fl)).
  set (tail := src ++ dst).
  match goal with |- bind (Ipv6HeaderSlice_from_slice (?p ++ tail)) _ = _ => set (pre := p) end.
  assert (Lpre : len pre = 8) by reflexivity.
  set (S := pre ++ tail).
  assert (LS : len S = 40) by (unfold S, tail; rewrite !len_app; lia).
  assert (E : Ipv6HeaderSlice_from_slice S = Val S).
  { unfold Ipv6HeaderSlice_from_slice. rewrite LS. change (40 <? 40) with false. cbv iota.
    unfold S at 1. unfold pre at 1. cbn [app]. getu_norm. rewrite C4. change (6 =? 6) with true. cbn [negb].
    rewrite <- LS, take_all. reflexivity. }
  rewrite E. cbn [bind].
  unfold V6S_to_header, V6S_traffic_class, V6S_flow_label, V6S_payload_length, V6S_next_header,
    V6S_hop_limit, V6S_source, V6S_destination, getu_n.
  rewrite LS. change (8 + 16 <=? 40) with true. change (24 + 16 <=? 40) with true. cbv iota.
  assert (D8 : drop 8 S = tail) by (apply drop_app_exact; exact Lpre).
  assert (D24 : drop 24 S = drop 16 tail) by (unfold S; rewrite drop_app_ge by (rewrite Lpre; lia); reflexivity).
  rewrite D8, D24.
  unfold S, pre. cbn [app]. getu_norm.
  rewrite C3, C2, F3, be16_bytes by assumption.
  unfold Ipv6FlowLabel_new_unchecked, Ipv6FlowLabel_MAX_U32. rewrite unchecked_ok by assumption. cbn [bind].
  unfold tail. rewrite (take_app_exact src dst 16 Hsl), (drop_app_exact src dst 16 Hsl).
  rewrite <- Hdl, take_all. reflexivity.
Qed.

(* ---- IPv6 fragment header ---- *)
Definition fr_fo16 (fo : N) (mf : bool) : N := N.lor (shl16 fo 3) (if mf then 1 else 0).
Definition fr_chk (fo : N) (mf : bool) : bool :=
  let b2 := be16_0 (fr_fo16 fo mf) in let b3 := be16_1 (fr_fo16 fo mf) in
  bits_eqb (nbits 8 b2 ++ nbits 8 b3) (nbits 13 fo ++ nbits 2 0 ++ nbits 1 (b2n mf))
  && (N.shiftr (be16 b2 b3) 3 =? fo) && Bool.eqb (nonzero (N.land b3 1)) mf
  && (b2 <? 256) && (b3 <? 256).
Lemma fr_sweep : forallb (fun fo => fr_chk fo false && fr_chk fo true) (range 8192) = true.
Proof. vm_compute. reflexivity. Qed.
Lemma fr_chk_all fo mf : fo <= 8191 -> fr_chk fo mf = true.
Proof.
  intros H. pose proof (sweep 8192 _ fr_sweep fo) as S. cbv beta in S.
  assert (L : fo < N.of_nat 8192) by (change (N.of_nat 8192) with 8192; lia).
  apply andb_prop in S; [|exact L]. destruct mf; tauto.
Qed.

Ltac fr_proj := cbn [fr_next_header fr_fragment_offset fr_more_fragments fr_identification].

Lemma frag_enc_layout h : frag_ok h ->
  bits_of (Ipv6FragmentHeader_to_bytes h) = layout_bits (frag_spec_layout h).
Proof.
  destruct h as [nh fo mf id]. unfold frag_ok, IpFragOffset_MAX_U16. fr_proj. intros (Hn & Hf & Hi).
  pose proof (fr_chk_all fo mf Hf) as C. unfold fr_chk in C. cbv zeta in C. split_chk C.
  unfold Ipv6FragmentHeader_to_bytes, frag_spec_layout, frag_layout. fr_proj. fold (fr_fo16 fo mf).
  rewrite !bits_of_cons, !layout_bits_cons.
  change (bits_of []) with (@nil bool). change (layout_bits []) with (@nil bool).
  rewrite (app_tail _ _ _ _ C). unfold be32_0, be32_1, be32_2, be32_3.
  rewrite app_nil_r, nbits32_bytes. rewrite <- !app_assoc, ?app_nil_r. reflexivity.
Qed.

Lemma frag_set_ok f h v : frag_ok h -> wfits (frag_range f) v -> frag_ok (frag_set f h v).
Proof.
  destruct h as [nh fo mf id]. unfold frag_ok, wfits, fits, IpFragOffset_MAX_U16.
  intros (Hn & Hf & Hi) Hv.
  destruct f; cbn [frag_set frag_range snd] in *; fr_proj; pows; repeat split; try assumption; lia.
Qed.

Lemma frag_no_bleed f h v : frag_ok h -> wfits (frag_range f) v ->
  agree_outside (fst (frag_range f)) (snd (frag_range f))
    (bits_of (Ipv6FragmentHeader_to_bytes (frag_set f h v))) (bits_of (Ipv6FragmentHeader_to_bytes h)).
Proof.
  intros Hh Hf. rewrite (frag_enc_layout _ (frag_set_ok f h v Hh Hf)), (frag_enc_layout h Hh).
  destruct h as [nh fo mf id]. destruct f.
  - exact (layout_agree [] 8 _ _ [_; _; _; _; _]).
  - exact (layout_agree [_; _] 13 _ _ [_; _; _]).
  - exact (layout_agree [_; _; _; _] 1 _ _ [_]).
  - exact (layout_agree [_; _; _; _; _] 32 _ _ []).
Qed.

Lemma frag_roundtrip h : frag_ok h ->
  Ipv6FragmentHeader_from_slice (Ipv6FragmentHeader_to_bytes h) = Val h /\
  Ipv6FragmentHeader_read (Ipv6FragmentHeader_to_bytes h) = Val h.
Proof.
  destruct h as [nh fo mf id]. unfold frag_ok, IpFragOffset_MAX_U16. fr_proj. intros (Hn & Hf & Hi).
  pose proof (fr_chk_all fo mf Hf) as C. unfold fr_chk in C. cbv zeta in C. split_chk C.
  unfold Ipv6FragmentHeader_from_slice, Ipv6FragmentHeader_read, Ipv6FragmentHeaderSlice_from_slice,
    Ipv6FragmentHeader_to_bytes. fr_proj. fold (fr_fo16 fo mf).
  match goal with |- bind (if len ?s <? 8 then _ else _) _ = _ /\ _ => set (S := s) end.
  change (len S <? 8) with false. cbv iota. change (take 8 S) with S. cbn [bind].
  assert (E : FRS_to_header S = Val (mkFrag nh fo mf id)).
  { unfold FRS_to_header, FRS_next_header, FRS_fragment_offset, FRS_more_fragments, FRS_identification, S.
    getu_norm. rewrite C3, C2, be32_bytes by assumption.
    unfold IpFragOffset_new_unchecked, IpFragOffset_MAX_U16. rewrite unchecked_ok by assumption. reflexivity. }
  split; exact E.
Qed.
