(* BitFields/Proofs3.v -- lemmas of property C15, third part: consequences of
   the round trips in the form "decode returns the new value, the others unchanged". *)
From EP Require Import Base.Bytes BitFields.Spec BitFields.Model BitFields.Fields BitFields.BitLemmas
  BitFields.Proofs BitFields.Proofs2.
From Coq Require Import ZArith Lia ZifyN ZifyBool.
Local Open Scope N_scope.
Arguments nbits : simpl never.

Lemma b2n_nonzero_small v : v < 2 -> b2n (nonzero v) = v.
Proof. intros H. assert (v = 0 \/ v = 1) as [-> | ->] by lia; reflexivity. Qed.

Lemma vlan_roundtrip_all h : vlan_ok h ->
  match SingleVlanHeader_to_bytes h with
  | [b0; b1; b2; b3] =>
      SingleVlanHeader_from_bytes b0 b1 b2 b3 = Val h /\
      SingleVlanHeader_from_slice [b0; b1; b2; b3] = Val h /\
      SingleVlanSlice_decode [b0; b1; b2; b3] = Val h
  | _ => False
  end.
Proof.
  intros H. pose proof (vlan_from_bytes_enc h H) as E.
  unfold SingleVlanHeader_to_bytes in *. cbv beta iota zeta in *.
  match goal with |- SingleVlanHeader_from_bytes ?a ?b ?c ?d = _ /\ _ =>
    destruct (vlan_decoders_same a b c d) as [D1 D2] end.
  rewrite D1, D2. auto.
Qed.

Lemma vlan_set_get f h v : vlan_ok h -> wfits (vlan_range f) v ->
  exists d, SingleVlanHeader_from_slice (SingleVlanHeader_to_bytes (vlan_set f h v)) = Val d /\
    vlan_get f d = v /\ forall g, g <> f -> vlan_get g d = vlan_get g h.
Proof.
  intros Hh Hf. exists (vlan_set f h v). split; [|split].
  - pose proof (vlan_roundtrip_all _ (vlan_set_ok f h v Hh Hf)) as R.
    unfold SingleVlanHeader_to_bytes in R |- *. cbv beta iota zeta in R |- *. tauto.
  - unfold wfits, fits in Hf. destruct h as [pcp dei vid et]; destruct f; cbn [vlan_get vlan_set vlan_range snd vlan_pcp vlan_dei vlan_id vlan_ether_type] in *;
      try reflexivity. pows. apply b2n_nonzero_small. exact Hf.
  - intros g Hg. destruct h as [pcp dei vid et]; destruct f, g; try congruence; reflexivity.
Qed.

Lemma ipv4_set_get f h v : ipv4_ok h -> wfits (ipv4_range f) v ->
  exists d, Ipv4Header_from_slice (Ipv4Header_to_bytes (ipv4_set f h v)) = Val d /\
    ipv4_get f d = v /\ forall g, g <> f -> ipv4_get g d = ipv4_get g h.
Proof.
  intros Hh Hf. exists (ipv4_set f h v). split; [|split].
  - apply ipv4_roundtrip. apply ipv4_set_ok; assumption.
  - unfold wfits, fits in Hf. destruct h as [dscp ecn tl id df mf fo ttl pr ck src dst opt]; destruct f; cbn [ipv4_get ipv4_set ipv4_range snd v4_dscp v4_ecn v4_total_len
      v4_identification v4_dont_fragment v4_more_fragments v4_fragment_offset v4_time_to_live v4_protocol
      v4_header_checksum] in *; try reflexivity; pows; apply b2n_nonzero_small; exact Hf.
  - intros g Hg. destruct h as [dscp ecn tl id df mf fo ttl pr ck src dst opt]; destruct f, g; try congruence; reflexivity.
Qed.

Lemma ipv6_set_get f h v : ipv6_ok h -> wfits (ipv6_range f) v ->
  exists d, Ipv6Header_from_slice (Ipv6Header_to_bytes (ipv6_set f h v)) = Val d /\
    ipv6_get f d = v /\ forall g, g <> f -> ipv6_get g d = ipv6_get g h.
Proof.
  intros Hh Hf. exists (ipv6_set f h v). split; [|split].
  - apply ipv6_roundtrip. apply ipv6_set_ok; assumption.
  - unfold wfits, fits in Hf. destruct h as [tc fl pl nh hl src dst].
    assert (Htc : tc < 256) by (destruct Hh as (A & _); exact A).
    destruct f; cbn [ipv6_get ipv6_set ipv6_range snd v6_traffic_class v6_flow_label v6_payload_length
      v6_next_header v6_hop_limit] in *; try reflexivity; pows.
    + pose proof (ipv6_set_dscp_spec tc v Htc ltac:(unfold IpDscp_MAX_U8; lia)) as (_ & A & _). exact A.
    + pose proof (ipv6_set_ecn_spec tc v Htc ltac:(unfold IpEcn_MAX_U8; lia)) as (_ & _ & A & _). exact A.
  - intros g Hg. unfold wfits, fits in Hf. destruct h as [tc fl pl nh hl src dst].
    assert (Htc : tc < 256) by (destruct Hh as (A & _); exact A).
    destruct f, g; try congruence; cbn [ipv6_get ipv6_set ipv6_range snd v6_traffic_class v6_flow_label
      v6_payload_length v6_next_header v6_hop_limit] in *; try reflexivity; pows.
    + pose proof (ipv6_set_dscp_spec tc v Htc ltac:(unfold IpDscp_MAX_U8; lia)) as (_ & _ & A & _). exact A.
    + pose proof (ipv6_set_ecn_spec tc v Htc ltac:(unfold IpEcn_MAX_U8; lia)) as (_ & A & _). exact A.
Qed.

Lemma frag_set_get f h v : frag_ok h -> wfits (frag_range f) v ->
  exists d, Ipv6FragmentHeader_from_slice (Ipv6FragmentHeader_to_bytes (frag_set f h v)) = Val d /\
    frag_get f d = v /\ forall g, g <> f -> frag_get g d = frag_get g h.
Proof.
  intros Hh Hf. exists (frag_set f h v). split; [|split].
  - apply frag_roundtrip. apply frag_set_ok; assumption.
  - unfold wfits, fits in Hf. destruct h as [nh fo mf id]; destruct f; cbn [frag_get frag_set frag_range snd fr_next_header
      fr_fragment_offset fr_more_fragments fr_identification] in *; try reflexivity.
    pows. apply b2n_nonzero_small. exact Hf.
  - intros g Hg. destruct h as [nh fo mf id]; destruct f, g; try congruence; reflexivity.
Qed.

Lemma macsec_set_get f h v : macsec_settable f = true -> macsec_ok h ->
  wfits (macsec_range f) v -> macsec_decodable (macsec_set f h v) = true ->
  exists d, MacsecHeader_from_slice (MacsecHeader_to_bytes (macsec_set f h v)) = Val d /\
    macsec_get f d = v /\ forall g, g <> f -> macsec_get g d = macsec_get g h.
Proof.
  intros Hs Hh Hf Hd. exists (macsec_set f h v). split; [|split].
  - rewrite (macsec_roundtrip _ (macsec_set_ok f h v Hh Hf)), Hd. reflexivity.
  - unfold wfits, fits in Hf. destruct h as [pt es scb an sl pn sci]; destruct f; try discriminate Hs;
      cbn [macsec_get macsec_set macsec_range snd ms_endstation_id ms_scb ms_an ms_short_len ms_packet_nr] in *;
      try reflexivity; pows; apply b2n_nonzero_small; exact Hf.
  - intros g Hg. destruct h as [pt es scb an sl pn sci]; destruct f; try discriminate Hs; destruct g; try congruence; reflexivity.
Qed.
