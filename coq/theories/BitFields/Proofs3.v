(* BitFields/Proofs3.v -- lemmas of property C15, third part: consequences of
   the round trips in the form "decode returns the new value, the others unchanged". *)
From EP Require Import Base.Bytes BitFields.Spec BitFields.Model BitFields.Fields BitFields.BitLemmas
  BitFields.Proofs BitFields.Proofs2.
From Coq Require Import ZArith Lia ZifyN ZifyBool.
Local Open Scope N_scope.
Arguments nbits : simpl never.

Lemma b2n_nonzero_small v : v < 2 -> b2n (nonzero v) = v.
Proof. intros H. assert (v = 0 \/ v = 1) as [-> | ->] by lia; reflexivity. Qed.

Lemma vlan_roundtrip_all h : vlan_ok h ->
  match SingleVlanHeader_to_bytes h with
  | [b0; b1; b2; b3] =>
      SingleVlanHeader_from_bytes b0 b1 b2 b3 = Val h /\
      SingleVlanHeader_from_slice [b0; b1; b2; b3] = Val h /\
      SingleVlanSlice_decode [b0; b1; b2; b3] = Val h
  | _ => False
  end.
Proof.
  intros H. pose proof (vlan_from_bytes_enc h H) as E.
  unfold SingleVlanHeader_to_bytes in *. cbv beta iota zeta in *.
  match goal with |- SingleVlanHeader_from_bytes ?a ?b ?c ?d = _ /\ _ =>
    destruct (vlan_decoders_same a b c d) as [D1 D2] end.
  rewrite D1, D2. auto.
Qed.

Lemma vlan_set_get f h v : vlan_ok h -> wfits (vlan_range f) v ->
  exists d, SingleVlanHeader_from_slice (SingleVlanHeader_to_bytes (vlan_set f h v)) = Val d /\
    vlan_get f d = v /\ forall g, g <> f -> vlan_get g d = vlan_get g h.
Proof.
  intros Hh Hf. exists (vlan_set f h v). split; [|split].
  - pose proof (vlan_roundtrip_all _ (vlan_set_ok f h v Hh Hf)) as R.
    unfold SingleVlanHeader_to_bytes in R |- *. cbv beta iota zeta in R |- *. tauto.
  - unfold wfits, fits in Hf. destruct h as [pcp dei vid et]; destruct f; cbn [vlan_get vlan_set vlan_range snd vlan_pcp vlan_dei vlan_id vlan_ether_type] in *;
      try reflexivity. pows. apply b2n_nonzero_small. exact Hf.
  - intros g Hg. destruct h as [pcp dei vid et]; destruct f, g; try congruence; reflexivity.
Qed.

Lemma ipv4_set_get f h v : ipv4_ok h -> wfits (ipv4_range f) v ->
  exists d, Ipv4Header_from_slice (Ipv4Header_to_bytes (ipv4_set f h v)) = Val d /\
    ipv4_get f d = v /\ forall g, g <> f -> ipv4_get g d = ipv4_get g h.
Proof.
  intros Hh Hf. exists (ipv4_set f h v). split; [|split].
  - apply ipv4_roundtrip. apply ipv4_set_ok; assumption.
  - unfold wfits, fits in Hf. destruct h as [dscp ecn tl id df mf fo ttl pr ck src dst opt]; destruct f; cbn [ipv4_get ipv4_set ipv4_range snd v4_dscp v4_ecn v4_total_len
      v4_identification v4_dont_fragment v4_more_fragments v4_fragment_offset v4_time_to_live v4_protocol
      v4_header_checksum] in *; try reflexivity; pows; apply b2n_nonzero_small; exact Hf.
  - intros g Hg. destruct h as [dscp ecn tl id df mf fo ttl pr ck src dst opt]; destruct f, g; try congruence; reflexivity.
Qed.

Lemma ipv6_set_get f h v : ipv6_ok h -> wfits (ipv6_range f) v ->
  exists d, Ipv6Header_from_slice (Ipv6Header_to_bytes (ipv6_set f h v)) = Val d /\
    ipv6_get f d = v /\ forall g, g <> f -> ipv6_get g d = ipv6_get g h.
Proof.
  intros Hh Hf. exists (ipv6_set f h v). split; [|split].
  - apply ipv6_roundtrip. apply ipv6_set_ok; assumption.
  - unfold wfits, fits in Hf. destruct h as [tc fl pl nh hl src dst].
    assert (Htc : tc < 256) by (destruct Hh as (A & _); exact A).
    destruct f; cbn [ipv6_get ipv6_set ipv6_range snd v6_traffic_class v6_flow_label v6_payload_length
      v6_next_header v6_hop_limit] in *; try reflexivity; pows.
    + pose proof (ipv6_set_dscp_spec tc v Htc ltac:(unfold IpDscp_MAX_U8; lia)) as (_ & A & _). exact A.
    + pose proof (ipv6_set_ecn_spec tc v Htc ltac:(unfold IpEcn_MAX_U8; lia)) as (_ & _ & A & _). exact A.
  - intros g Hg. unfold wfits, fits in Hf. destruct h as [tc fl pl nh hl src dst].
    assert (Htc : tc < 256) by (destruct Hh as (A & _); exact A).
    destruct f, g; try congruence; cbn [ipv6_get ipv6_set ipv6_range snd v6_traffic_class v6_flow_label
      v6_payload_length v6_next_header v6_hop_limit] in *; try reflexivity; pows.
    + pose proof (ipv6_set_dscp_spec tc v Htc ltac:(unfold IpDscp_MAX_U8; lia)) as (_ & _ & A & _). exact A.
    + pose proof (ipv6_set_ecn_spec tc v Htc ltac:(unfold IpEcn_MAX_U8; lia)) as (_ & A & _). exact A.
Qed.

Lemma frag_set_get f h v : frag_ok h -> wfits (frag_range f) v ->
  exists d, Ipv6FragmentHeader_from_slice (Ipv6FragmentHeader_to_bytes (frag_set f h v)) = Val d /\
    frag_get f d = v /\ forall g, g <> f -> frag_get g d = frag_get g h.
Proof.
  intros Hh Hf. exists (frag_set f h v). split; [|split].
  - apply frag_roundtrip. apply frag_set_ok; assumption.
  - unfold wfits, fits in Hf. destruct h as [nh fo mf id]; destruct f; cbn [frag_get frag_set frag_range snd fr_next_header
      fr_fragment_offset fr_more_fragments fr_identification] in *; try reflexivity.
    pows. apply b2n_nonzero_small. exact Hf.
  - intros g Hg. destruct h as [nh fo mf id]; destruct f, g; try congruence; reflexivity.
Qed.

Lemma macsec_set_get f h v : macsec_settable f = true -> macsec_ok h ->
  wfits (macsec_range f) v -> macsec_decodable (macsec_set f h v) = true ->
  exists d, MacsecHeader_from_slice (MacsecHeader_to_bytes (macsec_set f h v)) = Val d /\
    macsec_get f d = v /\ forall g, g <> f -> macsec_get g d = macsec_get g h.
Proof.
  intros Hs Hh Hf Hd. exists (macsec_set f h v). split; [|split].
  - rewrite (macsec_roundtrip _ (macsec_set_ok f h v Hh Hf)), Hd. reflexivity.
  - unfold wfits, fits in Hf. destruct h as [pt es scb an sl pn sci]; destruct f; try discriminate Hs;
      cbn [macsec_get macsec_set macsec_range snd ms_endstation_id ms_scb ms_an ms_short_len ms_packet_nr] in *;
      try reflexivity; pows; apply b2n_nonzero_small; exact Hf.
  - intros g Hg. destruct h as [pt es scb an sl pn sci]; destruct f; try discriminate Hs; destruct g; try congruence; reflexivity.
Qed.

(* ======================================================================= *)
(* the std::io read paths: never UB, only in-range values                   *)
(* ======================================================================= *)

Lemma getu_ok s i b : bytes_ok s -> getu s i = Val b -> b < 256.
Proof.
  unfold getu. intros Hs. destruct (rd s i) as [x|] eqn:E; [|discriminate].
  intros [= <-]. exact (rd_ok _ _ _ Hs E).
Qed.

Lemma getu_fail s i f : getu s i = Fail f -> f = OOB.
Proof. unfold getu. destruct (rd s i); [discriminate|]. intros [= <-]. reflexivity. Qed.

Lemma getu_n_fail s o n f : getu_n s o n = Fail f -> f = OOB.
Proof. unfold getu_n. destruct (o + n <=? len s); [discriminate|]. intros [= <-]. reflexivity. Qed.

Lemma no_ub_fail {A} f (P : A -> Prop) : f <> UBRange -> no_ub (Fail f) P.
Proof. intros H. split; [congruence|discriminate]. Qed.

Lemma no_ub_val {A} (a : A) (P : A -> Prop) : P a -> no_ub (Val a) P.
Proof. intros H. split; [discriminate|]. intros x [= <-]. exact H. Qed.

Ltac step Hs :=
  match goal with
  | |- no_ub (bind (getu ?s ?i) _) _ =>
      let b := fresh "b" in let f := fresh "f" in let E := fresh "E" in let Hb := fresh "Hb" in
      destruct (getu s i) as [b|f] eqn:E; cbn [bind];
      [ pose proof (getu_ok _ _ _ Hs E) as Hb
      | apply getu_fail in E; subst f; apply no_ub_fail; discriminate ]
  | |- no_ub (bind (getu_n ?s ?o ?n) _) _ =>
      let b := fresh "l" in let f := fresh "f" in let E := fresh "E" in
      destruct (getu_n s o n) as [b|f] eqn:E; cbn [bind];
      [ | apply getu_n_fail in E; subst f; apply no_ub_fail; discriminate ]
  | |- no_ub (if ?c then Fail ?f else _) _ =>
      destruct c; [apply no_ub_fail; discriminate|]
  end.

Lemma Ipv4Header_read_in_range reader : bytes_ok reader -> no_ub (Ipv4Header_read reader) v4_in_range.
Proof.
  intros Hr. unfold Ipv4Header_read. destruct reader as [|first rest]; [apply no_ub_fail; discriminate|].
  apply bytes_ok_cons in Hr. destruct Hr as [Hf Hrest].
  step Hrest. unfold Ipv4Header_read_without_version. step Hrest.
  assert (Hs : bytes_ok (first :: take 19 rest)).
  { apply bytes_ok_cons. split; [exact Hf|]. apply bytes_ok_take. exact Hrest. }
  cbv zeta. repeat step Hs.
  pose proof (dec1_all _ Hb0) as C1. unfold dec_chk1 in C1.
  pose proof (dec2_all _ _ Hb5 Hb6) as C2. unfold dec_chk2 in C2. cbv zeta in C2. split_all.
  unfold IpDscp_new_unchecked, IpEcn_new_unchecked, IpFragOffset_new_unchecked,
    IpDscp_MAX_U8, IpEcn_MAX_U8, IpFragOffset_MAX_U16.
  rewrite !unchecked_ok by assumption. cbn [bind].
  repeat step Hs.
  apply no_ub_val. unfold v4_in_range, IpDscp_MAX_U8, IpEcn_MAX_U8, IpFragOffset_MAX_U16.
  cbn [v4_dscp v4_ecn v4_fragment_offset]. auto.
Qed.

Lemma rd_tc_sweep :
  forallb (fun a => forallb (fun b => N.lor (shl8 a 4) (N.shiftr b 4) <? 256) (range 256)) (range 256) = true.
Proof. vm_compute. reflexivity. Qed.
Lemma rd_nib_sweep : forallb (fun a => N.land a 15 <? 256) (range 256) = true.
Proof. vm_compute. reflexivity. Qed.

Lemma Ipv6Header_read_in_range reader : bytes_ok reader -> no_ub (Ipv6Header_read reader) v6_in_range.
Proof.
  intros Hr. unfold Ipv6Header_read. destruct reader as [|value rest]; [apply no_ub_fail; discriminate|].
  apply bytes_ok_cons in Hr. destruct Hr as [Hf Hrest].
  step Hrest. unfold Ipv6Header_read_without_version. step Hrest.
  assert (Hs : bytes_ok (take 39 rest)) by (apply bytes_ok_take; exact Hrest).
  cbv zeta. repeat step Hs.
  unfold Ipv6FlowLabel_new_unchecked.
  rewrite unchecked_ok by (apply flow_raw_le; assumption). cbn [bind].
  repeat step Hs.
  apply no_ub_val. unfold v6_in_range. cbn [v6_traffic_class v6_flow_label]. split.
  - apply N.ltb_lt. apply (sweep2 256 256 _ rd_tc_sweep); [|assumption].
    apply N.ltb_lt. apply (sweep 256 _ rd_nib_sweep). exact Hf.
  - apply flow_raw_le; assumption.
Qed.

Lemma SingleVlanHeader_from_bytes_in_range a b c d : a < 256 -> b < 256 ->
  no_ub (SingleVlanHeader_from_bytes a b c d) vlan_in_range.
Proof.
  intros Ha Hb. pose proof (dec2_all a b Ha Hb) as C. unfold dec_chk2 in C. cbv zeta in C. split_all.
  unfold SingleVlanHeader_from_bytes, VlanPcp_new_unchecked, VlanId_new_unchecked, VlanPcp_MAX_U8, VlanId_MAX_U16.
  rewrite !unchecked_ok by assumption. cbn [bind]. apply no_ub_val. unfold vlan_in_range, VlanPcp_MAX_U8, VlanId_MAX_U16. cbn [vlan_pcp vlan_id]. auto.
Qed.
