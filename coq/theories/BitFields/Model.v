(* BitFields/Model.v -- transliteration of the Rust code of property C15.

   Every function below mirrors one Rust function (named in the comment) and
   keeps its shifts and masks as written: `<<` on u8/u16 is N.shiftl followed by
   an explicit `mod 2^k`, `>>` is N.shiftr, `&` N.land, `|` N.lor, `!m` on u8 is
   N.lxor m 255.  `to_be_bytes`/`from_be_bytes` are the arithmetic be16_i / be16.
   Partial operations have explicit failure values:
     OOB      get_unchecked / from_raw_parts outside the slice
     UBRange  new_unchecked / from_u8_unchecked with a value above MAX
              (debug_assert failure; for IpEcn an invalid enum transmute)
     Panic    debug overflow
     ErrLen / ErrContent / ErrIo   the Err(..) results of the crate
     Other    input handled by a part of the crate that is not modelled here
   No proofs in this file. *)
From EP Require Import Base.Bytes.
Local Open Scope N_scope.

Inductive failure := OOB | UBRange | Panic | ErrLen | ErrContent | ErrIo | Other.
Inductive res (A : Type) := Val (a : A) | Fail (f : failure).
Arguments Val {A} a.
Arguments Fail {A} f.

Definition bind {A B} (r : res A) (k : A -> res B) : res B :=
  match r with Val a => k a | Fail f => Fail f end.
Notation "x <- r ;; k" := (bind r (fun x => k))
  (at level 61, r at next level, right associativity).

(* *slice.get_unchecked(i) *)
Definition getu (s : bytes) (i : N) : res N :=
  match rd s i with Some b => Val b | None => Fail OOB end.

(* from_raw_parts(ptr.add(off), n) / get_unchecked_N_byte_array(ptr.add(off)) *)
Definition getu_n (s : bytes) (off n : N) : res bytes :=
  if off + n <=? len s then Val (take n (drop off s)) else Fail OOB.

Definition shl8 (a k : N) : N := (N.shiftl a k) mod 256.
Definition shl16 (a k : N) : N := (N.shiftl a k) mod 65536.
Definition not8 (a : N) : N := N.lxor a 255.

(* u16::to_be_bytes / u32::to_be_bytes / u64::to_be_bytes, element i *)
Definition be16_0 (v : N) : N := (v / 256) mod 256.
Definition be16_1 (v : N) : N := v mod 256.
Definition be32_0 (v : N) : N := (v / 16777216) mod 256.
Definition be32_1 (v : N) : N := (v / 65536) mod 256.
Definition be32_2 (v : N) : N := (v / 256) mod 256.
Definition be32_3 (v : N) : N := v mod 256.
Definition to_be64 (v : N) : bytes :=
  [(v / 72057594037927936) mod 256; (v / 281474976710656) mod 256;
   (v / 1099511627776) mod 256; (v / 4294967296) mod 256;
   (v / 16777216) mod 256; (v / 65536) mod 256; (v / 256) mod 256; v mod 256].

Definition nonzero (v : N) : bool := negb (v =? 0).      (* 0 != v *)

(* ======================================================================= *)
(* the bounded types                                                        *)
(* ======================================================================= *)

Inductive tried := TOk (v : N) | TErr (actual max_allowed : N).

(* link/vlan_id.rs *)
Definition VlanId_MAX_U16 : N := 4095.                      (* 0b0000_1111_1111_1111 *)
Definition VlanId_try_new (value : N) : tried :=
  if value <=? VlanId_MAX_U16 then TOk value else TErr value VlanId_MAX_U16.
Definition VlanId_try_from (value : N) : tried :=
  if value <=? VlanId_MAX_U16 then TOk value else TErr value VlanId_MAX_U16.
Definition VlanId_new_unchecked (value : N) : res N :=
  if value <=? VlanId_MAX_U16 then Val value else Fail UBRange.

(* link/vlan_pcp.rs *)
Definition VlanPcp_MAX_U8 : N := 7.                         (* 0b0000_0111 *)
Definition VlanPcp_try_new (value : N) : tried :=
  if value <=? VlanPcp_MAX_U8 then TOk value else TErr value VlanPcp_MAX_U8.
Definition VlanPcp_try_from (value : N) : tried :=
  if value <=? VlanPcp_MAX_U8 then TOk value else TErr value VlanPcp_MAX_U8.
Definition VlanPcp_new_unchecked (value : N) : res N :=
  if value <=? VlanPcp_MAX_U8 then Val value else Fail UBRange.

(* net/ip_dscp.rs *)
Definition IpDscp_MAX_U8 : N := 63.                         (* 0b0011_1111 *)
Definition IpDscp_try_new (value : N) : tried :=
  if value <=? IpDscp_MAX_U8 then TOk value else TErr value IpDscp_MAX_U8.
Definition IpDscp_try_from (value : N) : tried :=
  if value <=? IpDscp_MAX_U8 then TOk value else TErr value IpDscp_MAX_U8.
Definition IpDscp_new_unchecked (value : N) : res N :=
  if value <=? IpDscp_MAX_U8 then Val value else Fail UBRange.

(* net/ip_ecn.rs: an enum with discriminants 0..3; new_unchecked transmutes *)
Definition IpEcn_MAX_U8 : N := 3.                           (* 0b0000_0011 *)
Definition IpEcn_new_unchecked (value : N) : res N :=
  if value <=? IpEcn_MAX_U8 then Val value else Fail UBRange.
Definition IpEcn_try_new (value : N) : res tried :=
  if value <=? IpEcn_MAX_U8
  then (v <- IpEcn_new_unchecked value ;; Val (TOk v))
  else Val (TErr value IpEcn_MAX_U8).
Definition IpEcn_try_from (value : N) : res tried := IpEcn_try_new value.

(* net/ip_frag_offset.rs *)
Definition IpFragOffset_MAX_U16 : N := 8191.                (* 0b0001_1111_1111_1111 *)
Definition IpFragOffset_try_new (value : N) : tried :=
  if value <=? IpFragOffset_MAX_U16 then TOk value else TErr value IpFragOffset_MAX_U16.
Definition IpFragOffset_try_from (value : N) : tried :=
  if value <=? IpFragOffset_MAX_U16 then TOk value else TErr value IpFragOffset_MAX_U16.
Definition IpFragOffset_new_unchecked (value : N) : res N :=
  if value <=? IpFragOffset_MAX_U16 then Val value else Fail UBRange.
Definition IpFragOffset_byte_offset (v : N) : N := shl16 v 3.

(* net/ipv6_flow_label.rs *)
Definition Ipv6FlowLabel_MAX_U32 : N := 1048575.            (* 0b1111_1111_1111_1111_1111 *)
Definition Ipv6FlowLabel_try_new (value : N) : tried :=
  if value <=? Ipv6FlowLabel_MAX_U32 then TOk value else TErr value Ipv6FlowLabel_MAX_U32.
Definition Ipv6FlowLabel_try_from (value : N) : tried :=
  if value <=? Ipv6FlowLabel_MAX_U32 then TOk value else TErr value Ipv6FlowLabel_MAX_U32.
Definition Ipv6FlowLabel_new_unchecked (value : N) : res N :=
  if value <=? Ipv6FlowLabel_MAX_U32 then Val value else Fail UBRange.

(* link/macsec_an.rs *)
Definition MacsecAn_MAX_U8 : N := 3.                        (* 0b0000_0011 *)
Definition MacsecAn_try_new (value : N) : tried :=
  if value <=? MacsecAn_MAX_U8 then TOk value else TErr value MacsecAn_MAX_U8.
Definition MacsecAn_try_from (value : N) : tried :=
  if value <=? MacsecAn_MAX_U8 then TOk value else TErr value MacsecAn_MAX_U8.
Definition MacsecAn_new_unchecked (value : N) : res N :=
  if value <=? MacsecAn_MAX_U8 then Val value else Fail UBRange.

(* link/macsec_short_len.rs *)
Definition MacsecShortLen_MAX_U8 : N := 63.                 (* 0b0011_1111 *)
Definition MacsecShortLen_MAX_USIZE : N := 63.
Definition MacsecShortLen_try_from_u8 (value : N) : tried :=
  if value <=? MacsecShortLen_MAX_U8 then TOk value else TErr value MacsecShortLen_MAX_U8.
Definition MacsecShortLen_try_from (value : N) : tried :=
  if value <=? MacsecShortLen_MAX_U8 then TOk value else TErr value MacsecShortLen_MAX_U8.
Definition MacsecShortLen_from_u8_unchecked (value : N) : res N :=
  if value <=? MacsecShortLen_MAX_U8 then Val value else Fail UBRange.
(* from_len(len: usize): `if len > 0b0011_1111 { ZERO } else { MacsecShortLen(len as u8) }` *)
Definition MacsecShortLen_from_len (l : N) : N :=
  if 63 <? l then 0 else l mod 256.

(* transport/igmp/qrv.rs *)
Definition Qrv_MAX_U8 : N := 7.                             (* 0b0000_0111 *)
Definition Qrv_try_new (value : N) : tried :=
  if value <=? Qrv_MAX_U8 then TOk value else TErr value Qrv_MAX_U8.
Definition Qrv_try_from (value : N) : tried :=
  if value <=? Qrv_MAX_U8 then TOk value else TErr value Qrv_MAX_U8.
Definition Qrv_new_unchecked (value : N) : res N :=
  if value <=? Qrv_MAX_U8 then Val value else Fail UBRange.

(* ======================================================================= *)
(* link/single_vlan_header.rs, single_vlan_header_slice.rs, single_vlan_slice.rs *)
(* ======================================================================= *)

Record SingleVlanHeader := mkVlan {
  vlan_pcp : N; vlan_dei : bool; vlan_id : N; vlan_ether_type : N }.

(* SingleVlanHeader::to_bytes *)
Definition SingleVlanHeader_to_bytes (h : SingleVlanHeader) : bytes :=
  let id_be0 := be16_0 (vlan_id h) in
  let id_be1 := be16_1 (vlan_id h) in
  [ N.lor (if vlan_dei h then N.lor id_be0 16 else id_be0) (shl8 (vlan_pcp h) 5);
    id_be1;
    be16_0 (vlan_ether_type h);
    be16_1 (vlan_ether_type h) ].

(* SingleVlanHeader::from_bytes([u8;4]) *)
Definition SingleVlanHeader_from_bytes (b0 b1 b2 b3 : N) : res SingleVlanHeader :=
  pcp <- VlanPcp_new_unchecked (N.land (N.shiftr b0 5) 7) ;;
  vid <- VlanId_new_unchecked (be16 (N.land b0 15) b1) ;;
  Val (mkVlan pcp (nonzero (N.land b0 16)) vid (be16 b2 b3)).

(* SingleVlanHeaderSlice::from_slice: the validated 4 byte slice *)
Definition SingleVlanHeaderSlice_from_slice (s : bytes) : res bytes :=
  if len s <? 4 then Fail ErrLen else Val (take 4 s).

Definition VHS_priority_code_point (s : bytes) : res N :=
  b0 <- getu s 0 ;; VlanPcp_new_unchecked (N.land (N.shiftr b0 5) 7).
Definition VHS_drop_eligible_indicator (s : bytes) : res bool :=
  b0 <- getu s 0 ;; Val (nonzero (N.land b0 16)).
Definition VHS_vlan_identifier (s : bytes) : res N :=
  b0 <- getu s 0 ;; b1 <- getu s 1 ;; VlanId_new_unchecked (be16 (N.land b0 15) b1).
Definition VHS_ether_type (s : bytes) : res N :=
  b2 <- getu s 2 ;; b3 <- getu s 3 ;; Val (be16 b2 b3).
Definition VHS_to_header (s : bytes) : res SingleVlanHeader :=
  pcp <- VHS_priority_code_point s ;;
  dei <- VHS_drop_eligible_indicator s ;;
  vid <- VHS_vlan_identifier s ;;
  et <- VHS_ether_type s ;;
  Val (mkVlan pcp dei vid et).

(* SingleVlanHeader::from_slice (header part of the result) *)
Definition SingleVlanHeader_from_slice (s : bytes) : res SingleVlanHeader :=
  hs <- SingleVlanHeaderSlice_from_slice s ;; VHS_to_header hs.

(* SingleVlanSlice: keeps the whole slice; accessors are a second copy of the code *)
Definition SingleVlanSlice_from_slice (s : bytes) : res bytes :=
  if len s <? 4 then Fail ErrLen else Val s.
Definition VS_priority_code_point (s : bytes) : res N :=
  b0 <- getu s 0 ;; VlanPcp_new_unchecked (N.land (N.shiftr b0 5) 7).
Definition VS_drop_eligible_indicator (s : bytes) : res bool :=
  b0 <- getu s 0 ;; Val (nonzero (N.land b0 16)).
Definition VS_vlan_identifier (s : bytes) : res N :=
  b0 <- getu s 0 ;; b1 <- getu s 1 ;; VlanId_new_unchecked (be16 (N.land b0 15) b1).
Definition VS_ether_type (s : bytes) : res N :=
  b2 <- getu s 2 ;; b3 <- getu s 3 ;; Val (be16 b2 b3).
Definition VS_to_header (s : bytes) : res SingleVlanHeader :=
  pcp <- VS_priority_code_point s ;;
  dei <- VS_drop_eligible_indicator s ;;
  vid <- VS_vlan_identifier s ;;
  et <- VS_ether_type s ;;
  Val (mkVlan pcp dei vid et).
Definition SingleVlanSlice_decode (s : bytes) : res SingleVlanHeader :=
  vs <- SingleVlanSlice_from_slice s ;; VS_to_header vs.

(* ======================================================================= *)
(* net/ipv4_header.rs, net/ipv4_header_slice.rs                             *)
(* ======================================================================= *)

Record Ipv4Header := mkIpv4 {
  v4_dscp : N; v4_ecn : N; v4_total_len : N; v4_identification : N;
  v4_dont_fragment : bool; v4_more_fragments : bool; v4_fragment_offset : N;
  v4_time_to_live : N; v4_protocol : N; v4_header_checksum : N;
  v4_source : bytes; v4_destination : bytes; v4_options : bytes }.

(* Ipv4Header::ihl: (self.options.len_u8() / 4) + 5 *)
Definition Ipv4Header_ihl (h : Ipv4Header) : N := ((len (v4_options h) mod 256) / 4 + 5) mod 256.

(* the `frag_and_flags` block shared (textually) by to_bytes / write / calc_header_checksum *)
Definition v4_frag_and_flags (h : Ipv4Header) : N * N :=
  let frag_be0 := be16_0 (v4_fragment_offset h) in
  let frag_be1 := be16_1 (v4_fragment_offset h) in
  let flags :=
    let result := 0 in
    let result := if v4_dont_fragment h then N.lor result 64 else result in
    let result := if v4_more_fragments h then N.lor result 32 else result in
    result in
  (N.lor flags (N.land frag_be0 31), frag_be1).

(* the 20 fixed bytes with an explicit checksum (write_ipv4_header_internal) *)
Definition v4_fixed (h : Ipv4Header) (header_checksum : N) : bytes :=
  [ N.lor (shl8 4 4) (Ipv4Header_ihl h);
    N.lor (shl8 (v4_dscp h) 2) (v4_ecn h);
    be16_0 (v4_total_len h); be16_1 (v4_total_len h);
    be16_0 (v4_identification h); be16_1 (v4_identification h);
    fst (v4_frag_and_flags h); snd (v4_frag_and_flags h);
    v4_time_to_live h; v4_protocol h;
    be16_0 header_checksum; be16_1 header_checksum ]
  ++ v4_source h ++ v4_destination h.

(* Ipv4Header::to_bytes: the array of 60 bytes truncated to header_len() *)
Definition Ipv4Header_to_bytes (h : Ipv4Header) : bytes :=
  v4_fixed h (v4_header_checksum h) ++ v4_options h.

(* Ipv4Header::write_raw = write_ipv4_header_internal(writer, self.header_checksum) *)
Definition Ipv4Header_write_raw (h : Ipv4Header) : bytes :=
  v4_fixed h (v4_header_checksum h) ++ v4_options h.

(* Ipv4HeaderSlice::from_slice *)
Definition Ipv4HeaderSlice_from_slice (s : bytes) : res bytes :=
  if len s <? 20 then Fail ErrLen else
  b0 <- getu s 0 ;;
  let version_number := N.shiftr b0 4 in
  let ihl := N.land b0 15 in
  if negb (version_number =? 4) then Fail ErrContent else
  if ihl <? 5 then Fail ErrContent else
  let header_length := ihl * 4 in
  if len s <? header_length then Fail ErrLen else Val (take header_length s).

Definition V4S_dcp (s : bytes) : res N := b <- getu s 1 ;; IpDscp_new_unchecked (N.shiftr b 2).
Definition V4S_ecn (s : bytes) : res N := b <- getu s 1 ;; IpEcn_new_unchecked (N.land b 3).
Definition V4S_total_len (s : bytes) : res N := a <- getu s 2 ;; b <- getu s 3 ;; Val (be16 a b).
Definition V4S_identification (s : bytes) : res N := a <- getu s 4 ;; b <- getu s 5 ;; Val (be16 a b).
Definition V4S_dont_fragment (s : bytes) : res bool := b <- getu s 6 ;; Val (nonzero (N.land b 64)).
Definition V4S_more_fragments (s : bytes) : res bool := b <- getu s 6 ;; Val (nonzero (N.land b 32)).
Definition V4S_fragments_offset (s : bytes) : res N :=
  a <- getu s 6 ;; b <- getu s 7 ;; IpFragOffset_new_unchecked (be16 (N.land a 31) b).
Definition V4S_ttl (s : bytes) : res N := getu s 8.
Definition V4S_protocol (s : bytes) : res N := getu s 9.
Definition V4S_header_checksum (s : bytes) : res N := a <- getu s 10 ;; b <- getu s 11 ;; Val (be16 a b).
Definition V4S_source (s : bytes) : res bytes := getu_n s 12 4.
Definition V4S_destination (s : bytes) : res bytes := getu_n s 16 4.
Definition V4S_options (s : bytes) : res bytes :=
  if 20 <=? len s then Val (drop 20 s) else Fail OOB.

Definition V4S_to_header (s : bytes) : res Ipv4Header :=
  dscp <- V4S_dcp s ;; ecn <- V4S_ecn s ;; tl <- V4S_total_len s ;;
  id <- V4S_identification s ;; df <- V4S_dont_fragment s ;; mf <- V4S_more_fragments s ;;
  fo <- V4S_fragments_offset s ;; ttl <- V4S_ttl s ;; pr <- V4S_protocol s ;;
  ck <- V4S_header_checksum s ;; src <- V4S_source s ;; dst <- V4S_destination s ;;
  opt <- V4S_options s ;;
  Val (mkIpv4 dscp ecn tl id df mf fo ttl pr ck src dst opt).

Definition Ipv4Header_from_slice (s : bytes) : res Ipv4Header :=
  hs <- Ipv4HeaderSlice_from_slice s ;; V4S_to_header hs.

(* Ipv4Header::read_without_version: [reader] = the bytes after the first one *)
Definition Ipv4Header_read_without_version (reader : bytes) (first_byte : N) : res Ipv4Header :=
  if len reader <? 19 then Fail ErrIo else
  let header_raw := first_byte :: take 19 reader in
  r0 <- getu header_raw 0 ;;
  let ihl := N.land r0 15 in
  if ihl <? 5 then Fail ErrContent else
  value <- getu header_raw 1 ;;
  let dscp := N.shiftr value 2 in
  let ecn := N.land value 3 in
  r2 <- getu header_raw 2 ;; r3 <- getu header_raw 3 ;;
  r4 <- getu header_raw 4 ;; r5 <- getu header_raw 5 ;;
  r6 <- getu header_raw 6 ;; r7 <- getu header_raw 7 ;;
  let dont_fragment := nonzero (N.land r6 64) in
  let more_fragments := nonzero (N.land r6 32) in
  let fragments_offset := be16 (N.land r6 31) r7 in
  dscp' <- IpDscp_new_unchecked dscp ;;
  ecn' <- IpEcn_new_unchecked ecn ;;
  fo' <- IpFragOffset_new_unchecked fragments_offset ;;
  r8 <- getu header_raw 8 ;; r9 <- getu header_raw 9 ;;
  r10 <- getu header_raw 10 ;; r11 <- getu header_raw 11 ;;
  src <- getu_n header_raw 12 4 ;; dst <- getu_n header_raw 16 4 ;;
  let optlen := shl8 (ihl - 5) 2 in      (* (ihl - 5) * 4 on u8; ihl <= 15 *)
  if len (drop 19 reader) <? optlen then Fail ErrIo else
  Val (mkIpv4 dscp' ecn' (be16 r2 r3) (be16 r4 r5) dont_fragment more_fragments fo'
              r8 r9 (be16 r10 r11) src dst (take optlen (drop 19 reader))).

(* Ipv4Header::read *)
Definition Ipv4Header_read (reader : bytes) : res Ipv4Header :=
  match reader with
  | [] => Fail ErrIo
  | first :: rest =>
      if negb (N.shiftr first 4 =? 4) then Fail ErrContent
      else Ipv4Header_read_without_version rest first
  end.

(* ======================================================================= *)
(* net/ipv6_header.rs, net/ipv6_header_slice.rs                             *)
(* ======================================================================= *)

Record Ipv6Header := mkIpv6 {
  v6_traffic_class : N; v6_flow_label : N; v6_payload_length : N;
  v6_next_header : N; v6_hop_limit : N; v6_source : bytes; v6_destination : bytes }.

(* Ipv6Header::to_bytes *)
Definition Ipv6Header_to_bytes (h : Ipv6Header) : bytes :=
  let flow_label_be1 := be32_1 (v6_flow_label h) in
  let flow_label_be2 := be32_2 (v6_flow_label h) in
  let flow_label_be3 := be32_3 (v6_flow_label h) in
  [ N.lor (shl8 6 4) (N.shiftr (v6_traffic_class h) 4);
    N.lor (shl8 (v6_traffic_class h) 4) flow_label_be1;
    flow_label_be2;
    flow_label_be3;
    be16_0 (v6_payload_length h); be16_1 (v6_payload_length h);
    v6_next_header h; v6_hop_limit h ]
  ++ v6_source h ++ v6_destination h.

(* Ipv6Header::set_ecn / ecn / set_dscp / dscp, on the traffic class value *)
Definition Ipv6Header_set_ecn (traffic_class ecn : N) : N :=
  N.lor (N.land traffic_class 252) (N.land ecn 3).
Definition Ipv6Header_ecn (traffic_class : N) : res N :=
  IpEcn_new_unchecked (N.land traffic_class 3).
Definition Ipv6Header_set_dscp (traffic_class dscp : N) : N :=
  N.lor (N.land traffic_class 3) (N.land (shl8 dscp 2) 252).
Definition Ipv6Header_dscp (traffic_class : N) : res N :=
  IpDscp_new_unchecked (N.land (N.shiftr traffic_class 2) 63).

(* Ipv6HeaderSlice::from_slice *)
Definition Ipv6HeaderSlice_from_slice (s : bytes) : res bytes :=
  if len s <? 40 then Fail ErrLen else
  b0 <- getu s 0 ;;
  let version_number := N.shiftr b0 4 in
  if negb (version_number =? 6) then Fail ErrContent else Val (take 40 s).

Definition V6S_traffic_class (s : bytes) : res N :=
  b0 <- getu s 0 ;; b1 <- getu s 1 ;; Val (N.lor (shl8 b0 4) (N.shiftr b1 4)).
Definition V6S_ecn (s : bytes) : res N :=
  tc <- V6S_traffic_class s ;; IpEcn_new_unchecked (N.land tc 3).
Definition V6S_dscp (s : bytes) : res N :=
  tc <- V6S_traffic_class s ;; IpDscp_new_unchecked (N.land (N.shiftr tc 2) 63).
Definition V6S_flow_label (s : bytes) : res N :=
  b1 <- getu s 1 ;; b2 <- getu s 2 ;; b3 <- getu s 3 ;;
  Ipv6FlowLabel_new_unchecked (be32 0 (N.land b1 15) b2 b3).
Definition V6S_payload_length (s : bytes) : res N := a <- getu s 4 ;; b <- getu s 5 ;; Val (be16 a b).
Definition V6S_next_header (s : bytes) : res N := getu s 6.
Definition V6S_hop_limit (s : bytes) : res N := getu s 7.
Definition V6S_source (s : bytes) : res bytes := getu_n s 8 16.
Definition V6S_destination (s : bytes) : res bytes := getu_n s 24 16.
Definition V6S_to_header (s : bytes) : res Ipv6Header :=
  tc <- V6S_traffic_class s ;; fl <- V6S_flow_label s ;; pl <- V6S_payload_length s ;;
  nh <- V6S_next_header s ;; hl <- V6S_hop_limit s ;;
  src <- V6S_source s ;; dst <- V6S_destination s ;;
  Val (mkIpv6 tc fl pl nh hl src dst).

Definition Ipv6Header_from_slice (s : bytes) : res Ipv6Header :=
  hs <- Ipv6HeaderSlice_from_slice s ;; V6S_to_header hs.

(* Ipv6Header::read_without_version: [reader] = the bytes after the first one *)
Definition Ipv6Header_read_without_version (reader : bytes) (version_rest : N) : res Ipv6Header :=
  if len reader <? 39 then Fail ErrIo else
  let buffer := take 39 reader in
  b0 <- getu buffer 0 ;; b1 <- getu buffer 1 ;; b2 <- getu buffer 2 ;;
  b3 <- getu buffer 3 ;; b4 <- getu buffer 4 ;; b5 <- getu buffer 5 ;; b6 <- getu buffer 6 ;;
  fl <- Ipv6FlowLabel_new_unchecked (be32 0 (N.land b0 15) b1 b2) ;;
  src <- getu_n buffer 7 16 ;; dst <- getu_n buffer 23 16 ;;
  Val (mkIpv6 (N.lor (shl8 version_rest 4) (N.shiftr b0 4)) fl (be16 b3 b4) b5 b6 src dst).

(* Ipv6Header::read *)
Definition Ipv6Header_read (reader : bytes) : res Ipv6Header :=
  match reader with
  | [] => Fail ErrIo
  | value :: rest =>
      if negb (N.shiftr value 4 =? 6) then Fail ErrContent
      else Ipv6Header_read_without_version rest (N.land value 15)
  end.

(* ======================================================================= *)
(* net/ipv6_fragment_header.rs, net/ipv6_fragment_header_slice.rs           *)
(* ======================================================================= *)

Record Ipv6FragmentHeader := mkFrag {
  fr_next_header : N; fr_fragment_offset : N; fr_more_fragments : bool; fr_identification : N }.

(* Ipv6FragmentHeader::to_bytes *)
Definition Ipv6FragmentHeader_to_bytes (h : Ipv6FragmentHeader) : bytes :=
  let fo := N.lor (shl16 (fr_fragment_offset h) 3) (if fr_more_fragments h then 1 else 0) in
  [ fr_next_header h; 0; be16_0 fo; be16_1 fo;
    be32_0 (fr_identification h); be32_1 (fr_identification h);
    be32_2 (fr_identification h); be32_3 (fr_identification h) ].

(* Ipv6FragmentHeaderSlice::from_slice *)
Definition Ipv6FragmentHeaderSlice_from_slice (s : bytes) : res bytes :=
  if len s <? 8 then Fail ErrLen else Val (take 8 s).

Definition FRS_next_header (s : bytes) : res N := getu s 0.
Definition FRS_fragment_offset (s : bytes) : res N :=
  a <- getu s 2 ;; b <- getu s 3 ;; IpFragOffset_new_unchecked (N.shiftr (be16 a b) 3).
Definition FRS_more_fragments (s : bytes) : res bool :=
  b <- getu s 3 ;; Val (nonzero (N.land b 1)).
Definition FRS_identification (s : bytes) : res N :=
  a <- getu s 4 ;; b <- getu s 5 ;; c <- getu s 6 ;; d <- getu s 7 ;; Val (be32 a b c d).
Definition FRS_to_header (s : bytes) : res Ipv6FragmentHeader :=
  nh <- FRS_next_header s ;; fo <- FRS_fragment_offset s ;;
  mf <- FRS_more_fragments s ;; id <- FRS_identification s ;;
  Val (mkFrag nh fo mf id).

Definition Ipv6FragmentHeader_from_slice (s : bytes) : res Ipv6FragmentHeader :=
  hs <- Ipv6FragmentHeaderSlice_from_slice s ;; FRS_to_header hs.

(* Ipv6FragmentHeader::read: read_exact of 8 bytes, from_slice_unchecked, to_header *)
Definition Ipv6FragmentHeader_read (reader : bytes) : res Ipv6FragmentHeader :=
  if len reader <? 8 then Fail ErrIo else FRS_to_header (take 8 reader).

(* ======================================================================= *)
(* link/macsec_header.rs, link/macsec_header_slice.rs                       *)
(* ======================================================================= *)

Inductive MacsecPType := Unmodified (ether_type : N) | Modified | Encrypted | EncryptedUnmodified.

Record MacsecHeader := mkMacsec {
  ms_ptype : MacsecPType; ms_endstation_id : bool; ms_scb : bool;
  ms_an : N; ms_short_len : N; ms_packet_nr : N; ms_sci : option N }.

Definition MacsecHeader_encrypted (h : MacsecHeader) : bool :=
  match ms_ptype h with Encrypted | EncryptedUnmodified => true | _ => false end.
Definition MacsecHeader_userdata_changed (h : MacsecHeader) : bool :=
  match ms_ptype h with Encrypted | Modified => true | _ => false end.
Definition is_some {A} (o : option A) : bool := match o with Some _ => true | None => false end.
Definition is_unmodified (p : MacsecPType) : bool :=
  match p with Unmodified _ => true | _ => false end.

(* MacsecHeader::to_bytes *)
Definition MacsecHeader_to_bytes (h : MacsecHeader) : bytes :=
  let tci_an :=
    N.lor (N.lor (N.lor (N.lor (N.lor
      (N.land (ms_an h) 3)
      (if MacsecHeader_userdata_changed h then 4 else 0))
      (if MacsecHeader_encrypted h then 8 else 0))
      (if ms_scb h then 16 else 0))
      (if is_some (ms_sci h) then 32 else 0))
      (if ms_endstation_id h then 64 else 0) in
  let pn := ms_packet_nr h in
  let sci_be := to_be64 (match ms_sci h with Some s => s | None => 0 end) in
  let et := match ms_ptype h with Unmodified e => e | _ => 0 end in
  let result :=
    if is_some (ms_sci h) then
      [tci_an; N.land (ms_short_len h) 63; be32_0 pn; be32_1 pn; be32_2 pn; be32_3 pn]
      ++ sci_be ++ [be16_0 et; be16_1 et]
    else
      [tci_an; N.land (ms_short_len h) 63; be32_0 pn; be32_1 pn; be32_2 pn; be32_3 pn;
       be16_0 et; be16_1 et; 0; 0; 0; 0; 0; 0; 0; 0] in
  take (6 + (if is_some (ms_sci h) then 8 else 0)
          + (if is_unmodified (ms_ptype h) then 2 else 0)) result.

(* MacsecHeaderSlice::from_slice *)
Definition MacsecHeaderSlice_from_slice (s : bytes) : res bytes :=
  if len s <? 6 then Fail ErrLen else
  tci_an <- getu s 0 ;;
  if nonzero (N.land tci_an 128) then Fail ErrContent else
  let unmodified := N.land tci_an 12 =? 0 in
  sl <- getu s 1 ;;
  if unmodified && (N.land sl 63 =? 1) then Fail ErrContent else
  let required_len := 6 + (if unmodified then 2 else 0)
                        + (if nonzero (N.land tci_an 32) then 8 else 0) in
  if len s <? required_len then Fail ErrLen else Val (take required_len s).

Definition MS_endstation_id (s : bytes) : res bool := t <- getu s 0 ;; Val (nonzero (N.land t 64)).
Definition MS_tci_scb (s : bytes) : res bool := t <- getu s 0 ;; Val (nonzero (N.land t 16)).
Definition MS_encrypted (s : bytes) : res bool := t <- getu s 0 ;; Val (nonzero (N.land t 8)).
Definition MS_userdata_changed (s : bytes) : res bool := t <- getu s 0 ;; Val (nonzero (N.land t 4)).
Definition MS_sci_present (s : bytes) : res bool := t <- getu s 0 ;; Val (nonzero (N.land t 32)).
Definition MS_ptype (s : bytes) : res MacsecPType :=
  e <- MS_encrypted s ;; c <- MS_userdata_changed s ;;
  if e then (if c then Val Encrypted else Val EncryptedUnmodified)
  else if c then Val Modified
  else
    t <- getu s 0 ;;
    if nonzero (N.land t 32)
    then (a <- getu s 14 ;; b <- getu s 15 ;; Val (Unmodified (be16 a b)))
    else (a <- getu s 6 ;; b <- getu s 7 ;; Val (Unmodified (be16 a b))).
Definition MS_an (s : bytes) : res N := t <- getu s 0 ;; MacsecAn_new_unchecked (N.land t 3).
Definition MS_short_len (s : bytes) : res N :=
  b <- getu s 1 ;; MacsecShortLen_from_u8_unchecked (N.land b 63).
Definition MS_packet_nr (s : bytes) : res N :=
  a <- getu s 2 ;; b <- getu s 3 ;; c <- getu s 4 ;; d <- getu s 5 ;; Val (be32 a b c d).
Definition MS_sci (s : bytes) : res (option N) :=
  p <- MS_sci_present s ;;
  if p then (v <- getu_n s 6 8 ;; Val (Some (be_val v))) else Val None.
Definition MS_to_header (s : bytes) : res MacsecHeader :=
  pt <- MS_ptype s ;; es <- MS_endstation_id s ;; scb <- MS_tci_scb s ;;
  an <- MS_an s ;; sl <- MS_short_len s ;; pn <- MS_packet_nr s ;; sci <- MS_sci s ;;
  Val (mkMacsec pt es scb an sl pn sci).

Definition MacsecHeader_from_slice (s : bytes) : res MacsecHeader :=
  hs <- MacsecHeaderSlice_from_slice s ;; MS_to_header hs.

(* MacsecHeader::set_payload_len: the new short_len *)
Definition MacsecHeader_set_payload_len (p : MacsecPType) (payload_len : N) : res N :=
  if is_unmodified p then
    if MacsecShortLen_MAX_USIZE - 2 <? payload_len then Val 0
    else (let a := payload_len mod 256 in
          if a + 2 <? 256 then MacsecShortLen_from_u8_unchecked (a + 2) else Fail Panic)
  else if MacsecShortLen_MAX_USIZE <? payload_len then Val 0
  else MacsecShortLen_from_u8_unchecked (payload_len mod 256).

(* ======================================================================= *)
(* transport/igmp/membership_query_with_sources_header.rs (+ igmp_header.rs) *)
(* ======================================================================= *)

Record MembershipQueryWithSourcesHeader := mkQuery {
  q_max_response_code : N; q_group_address : bytes; q_raw_byte_8 : N;
  q_qqic : N; q_num_of_sources : N }.

Definition RAW_BYTE_8_MASK_FLAGS : N := 240.      (* 0b1111_0000 *)
Definition RAW_BYTE_8_OFFSET_FLAGS : N := 4.
Definition RAW_BYTE_8_MASK_S_FLAG : N := 8.       (* 0b0000_1000 *)
Definition RAW_BYTE_8_MASK_QRV : N := 7.          (* 0b0000_0111 *)

Definition Query_flags (raw : N) : N :=
  N.shiftr (N.land raw RAW_BYTE_8_MASK_FLAGS) RAW_BYTE_8_OFFSET_FLAGS.
Definition Query_set_flags (raw value : N) : N :=
  N.lor (N.land raw (not8 RAW_BYTE_8_MASK_FLAGS))
        (N.land (shl8 value RAW_BYTE_8_OFFSET_FLAGS) RAW_BYTE_8_MASK_FLAGS).
Definition Query_s_flag (raw : N) : bool := nonzero (N.land raw RAW_BYTE_8_MASK_S_FLAG).
Definition Query_set_s_flag (raw : N) (value : bool) : N :=
  if value then N.lor raw RAW_BYTE_8_MASK_S_FLAG else N.land raw (not8 RAW_BYTE_8_MASK_S_FLAG).
Definition Query_qrv (raw : N) : res N := Qrv_new_unchecked (N.land raw RAW_BYTE_8_MASK_QRV).
Definition Query_set_qrv (raw value : N) : N :=
  N.lor (N.land raw (not8 RAW_BYTE_8_MASK_QRV)) (N.land value RAW_BYTE_8_MASK_QRV).

(* IgmpHeader::to_bytes, arm MembershipQueryWithSources *)
Definition IgmpQuery_to_bytes (t : MembershipQueryWithSourcesHeader) (checksum : N) : bytes :=
  [17; q_max_response_code t; be16_0 checksum; be16_1 checksum]
  ++ q_group_address t
  ++ [q_raw_byte_8 t; q_qqic t; be16_0 (q_num_of_sources t); be16_1 (q_num_of_sources t)].

(* IgmpHeader::from_slice restricted to the IGMPv3 query arm (anything else = Other) *)
Definition IgmpQuery_from_slice (s : bytes) : res (MembershipQueryWithSourcesHeader * N) :=
  if len s <? 8 then Fail ErrLen else
  type_u8 <- getu s 0 ;; max_resp <- getu s 1 ;;
  c0 <- getu s 2 ;; c1 <- getu s 3 ;;
  group <- getu_n s 4 4 ;;
  if negb (type_u8 =? 17) then Fail Other else
  if len s =? 8 then Fail Other else
  if 12 <=? len s then
    raw <- getu s 8 ;; qqic <- getu s 9 ;; n0 <- getu s 10 ;; n1 <- getu s 11 ;;
    Val (mkQuery max_resp group raw qqic (be16 n0 n1), be16 c0 c1)
  else Fail ErrLen.
