(* BitFields/Proofs2.v -- lemmas of property C15, second part: IGMP, decoders, MACsec. *)
From EP Require Import Base.Bytes BitFields.Spec BitFields.Model BitFields.Fields BitFields.BitLemmas BitFields.Proofs.
From Coq Require Import ZArith Lia ZifyN ZifyBool.
Local Open Scope N_scope.
Arguments nbits : simpl never.

(* ======================================================================= *)
(* IGMPv3 query, octet 8                                                    *)
(* ======================================================================= *)

Definition ig_chk_raw (raw : N) : bool :=
  bits_eqb (nbits 8 raw) (nbits 4 (raw / 16) ++ nbits 1 ((raw / 8) mod 2) ++ nbits 3 (raw mod 8))
  && (Query_flags raw =? raw / 16) && (b2n (Query_s_flag raw) =? (raw / 8) mod 2)
  && (N.land raw RAW_BYTE_8_MASK_QRV =? raw mod 8) && (raw mod 8 <=? 7).
Lemma ig_sweep_raw : forallb ig_chk_raw (range 256) = true.
Proof. vm_compute. reflexivity. Qed.

(* set_flags takes any u8: the upper four bits of the argument are dropped *)
Definition ig_chk_flags (raw v : N) : bool :=
  let r := Query_set_flags raw v in
  (r / 16 =? v mod 16) && ((r / 8) mod 2 =? (raw / 8) mod 2) && (r mod 8 =? raw mod 8) && (r <? 256).
Lemma ig_sweep_flags : forallb (fun raw => forallb (ig_chk_flags raw) (range 256)) (range 256) = true.
Proof. vm_compute. reflexivity. Qed.

Definition ig_chk_s (raw : N) (b : bool) : bool :=
  let r := Query_set_s_flag raw b in
  (r / 16 =? raw / 16) && ((r / 8) mod 2 =? b2n b) && (r mod 8 =? raw mod 8) && (r <? 256).
Lemma ig_sweep_s : forallb (fun raw => ig_chk_s raw false && ig_chk_s raw true) (range 256) = true.
Proof. vm_compute. reflexivity. Qed.

Definition ig_chk_qrv (raw q : N) : bool :=
  let r := Query_set_qrv raw q in
  (r / 16 =? raw / 16) && ((r / 8) mod 2 =? (raw / 8) mod 2) && (r mod 8 =? q mod 8) && (r <? 256).
Lemma ig_sweep_qrv : forallb (fun raw => forallb (ig_chk_qrv raw) (range 256)) (range 256) = true.
Proof. vm_compute. reflexivity. Qed.

Lemma ig_raw_all raw : raw < 256 -> ig_chk_raw raw = true.
Proof. intros. apply (sweep 256 _ ig_sweep_raw); assumption. Qed.
Lemma ig_flags_all raw v : raw < 256 -> v < 256 -> ig_chk_flags raw v = true.
Proof. intros. apply (sweep2 256 256 _ ig_sweep_flags); assumption. Qed.
Lemma ig_s_all raw b : raw < 256 -> ig_chk_s raw b = true.
Proof.
  intros H. pose proof (sweep 256 _ ig_sweep_s raw H) as S. cbv beta in S.
  apply andb_prop in S. destruct b; tauto.
Qed.
Lemma ig_qrv_all raw q : raw < 256 -> q < 256 -> ig_chk_qrv raw q = true.
Proof. intros. apply (sweep2 256 256 _ ig_sweep_qrv); assumption. Qed.

(* the getters read exactly the RFC 3376 sub-fields; qrv() is never out of range *)
Lemma query_getters raw : raw < 256 ->
  Query_flags raw = raw / 16 /\ b2n (Query_s_flag raw) = (raw / 8) mod 2 /\
  Query_qrv raw = Val (raw mod 8) /\ raw mod 8 <= Qrv_MAX_U8 /\
  nbits 8 raw = layout_bits (igmp_byte8_layout (raw / 16) ((raw / 8) mod 2) (raw mod 8)).
Proof.
  intros H. pose proof (ig_raw_all raw H) as C. unfold ig_chk_raw in C. split_chk C.
  unfold Query_qrv, Qrv_new_unchecked, Qrv_MAX_U8. rewrite C1, unchecked_ok by assumption.
  split; [assumption|]. split; [assumption|]. split; [reflexivity|]. split; [assumption|].
  unfold igmp_byte8_layout. rewrite !layout_bits_cons. change (layout_bits []) with (@nil bool).
  rewrite app_nil_r. exact C.
Qed.

(* each setter changes its own sub-field only; the value stored is the argument
   reduced to the width of the field *)
Lemma query_setters raw v : raw < 256 -> v < 256 ->
  (let r := Query_set_flags raw v in
   r < 256 /\ r / 16 = v mod 16 /\ (r / 8) mod 2 = (raw / 8) mod 2 /\ r mod 8 = raw mod 8) /\
  (forall b, let r := Query_set_s_flag raw b in
   r < 256 /\ r / 16 = raw / 16 /\ (r / 8) mod 2 = b2n b /\ r mod 8 = raw mod 8) /\
  (let r := Query_set_qrv raw v in
   r < 256 /\ r / 16 = raw / 16 /\ (r / 8) mod 2 = (raw / 8) mod 2 /\ r mod 8 = v mod 8).
Proof.
  intros H Hv. split; [|split].
  - pose proof (ig_flags_all raw v H Hv) as C. unfold ig_chk_flags in C. cbv zeta in C. split_chk C. cbv zeta. tauto.
  - intros b. pose proof (ig_s_all raw b H) as C. unfold ig_chk_s in C. cbv zeta in C. split_chk C. cbv zeta. tauto.
  - pose proof (ig_qrv_all raw v H Hv) as C. unfold ig_chk_qrv in C. cbv zeta in C. split_chk C. cbv zeta. tauto.
Qed.

Ltac q_proj := cbn [q_max_response_code q_group_address q_raw_byte_8 q_qqic q_num_of_sources].

Lemma query_enc_layout t ck : query_ok t ck ->
  bits_of (IgmpQuery_to_bytes t ck) = layout_bits (query_spec_layout t ck).
Proof.
  destruct t as [mrc grp raw qqic ns]. unfold query_ok. q_proj.
  intros (Hm & Hg & Hgl & Hr & Hq & Hn & Hc).
  pose proof (query_getters raw Hr) as (_ & _ & _ & _ & B).
  unfold IgmpQuery_to_bytes, query_spec_layout, igmp_query_layout. q_proj.
  rewrite !bits_of_app, !layout_bits_app, bits_of_octets.
  rewrite !bits_of_cons, !layout_bits_cons.
  change (bits_of []) with (@nil bool). change (layout_bits []) with (@nil bool).
  rewrite B. unfold igmp_byte8_layout. rewrite !layout_bits_cons. change (layout_bits []) with (@nil bool).
  rewrite (nbits16_bytes_t ck). rewrite (app_tail _ _ _ _ (nbits16_bytes ns)).
  rewrite <- !app_assoc, ?app_nil_r. reflexivity.
Qed.

Lemma query_set_ok f t ck v : query_ok t ck -> v < 256 -> query_ok (query_set f t v) ck.
Proof.
  destruct t as [mrc grp raw qqic ns]. unfold query_ok, query_set. q_proj.
  intros (Hm & Hg & Hgl & Hr & Hq & Hn & Hc) Hv.
  pose proof (query_setters raw v Hr Hv) as (A & B & C). cbv zeta in A, B, C.
  specialize (B (nonzero v)).
  destruct f; repeat split; try assumption; tauto.
Qed.

Lemma query_no_bleed f t ck v : query_ok t ck -> wfits (igmp_range f) v ->
  agree_outside (fst (igmp_range f)) (snd (igmp_range f))
    (bits_of (IgmpQuery_to_bytes (query_set f t v) ck)) (bits_of (IgmpQuery_to_bytes t ck))
  /\ query_get f (query_set f t v) = v
  /\ forall g, g <> f -> query_get g (query_set f t v) = query_get g t.
Proof.
  intros Hh Hf.
  assert (Hv : v < 256).
  { unfold wfits, fits in Hf. destruct f; cbn [igmp_range snd] in Hf; pows; lia. }
  rewrite (query_enc_layout _ _ (query_set_ok f t ck v Hh Hv)), (query_enc_layout t ck Hh).
  destruct t as [mrc grp raw qqic ns].
  assert (Hr : raw < 256) by (destruct Hh as (_ & _ & _ & A & _); exact A).
  assert (Hgl : length grp = 4%nat) by (destruct Hh as (_ & _ & A & _); apply Nat2N.inj; exact A).
  pose proof (query_setters raw v Hr Hv) as (A & B & C). cbv zeta in A, B, C.
  specialize (B (nonzero v)).
  unfold wfits, fits in Hf.
  unfold query_spec_layout, igmp_query_layout, query_set, query_get. q_proj.
  destruct grp as [|g0 [|g1 [|g2 [|g3 [|? ?]]]]]; try discriminate Hgl.
  destruct f; cbn [igmp_range fst snd] in *; pows.
  - destruct A as (_ & A1 & A2 & A3). rewrite A1, A2, A3, (N.mod_small v 16) by lia.
    split; [exact (layout_agree [_; _; _; _; _; _; _] 4 _ _ [_; _; _; _])|].
    split; [reflexivity|]. intros g Hg. destruct g; try reflexivity; congruence.
  - destruct B as (_ & B1 & B2 & B3). rewrite B1, B2, B3.
    assert (E : b2n (nonzero v) = v) by (assert (v = 0 \/ v = 1) as [->| ->] by lia; reflexivity).
    rewrite E.
    split; [exact (layout_agree [_; _; _; _; _; _; _; _] 1 _ _ [_; _; _])|].
    split; [reflexivity|]. intros g Hg. destruct g; try reflexivity; congruence.
  - destruct C as (_ & C1 & C2 & C3). rewrite C1, C2, C3, (N.mod_small v 8) by lia.
    split; [exact (layout_agree [_; _; _; _; _; _; _; _; _] 3 _ _ [_; _])|].
    split; [reflexivity|]. intros g Hg. destruct g; try reflexivity; congruence.
Qed.

Lemma query_roundtrip t ck : query_ok t ck -> IgmpQuery_from_slice (IgmpQuery_to_bytes t ck) = Val (t, ck).
Proof.
  destruct t as [mrc grp raw qqic ns]. unfold query_ok. q_proj.
  intros (Hm & Hg & Hgl & Hr & Hq & Hn & Hc).
  assert (Hgl' : length grp = 4%nat) by (apply Nat2N.inj; exact Hgl).
  destruct grp as [|g0 [|g1 [|g2 [|g3 [|? ?]]]]]; try discriminate Hgl'.
  unfold IgmpQuery_from_slice, IgmpQuery_to_bytes, getu_n. q_proj. cbn [app].
  match goal with |- context [len ?s <? 8] => set (S := s) end.
  change (len S) with 12. change (12 <? 8) with false. change (4 + 4 <=? 12) with true.
  change (12 =? 8) with false. change (12 <=? 12) with true. cbv iota.
  unfold S. getu_norm. change (17 =? 17) with true. cbn [negb].
  unfold take, drop.
  repeat match goal with
         | |- context [N.to_nat ?k] =>
             let n := eval vm_compute in (N.to_nat k) in change (N.to_nat k) with n
         end.
  cbn [skipn firstn]. rewrite !be16_bytes by assumption. reflexivity.
Qed.

(* ======================================================================= *)
(* decoders: every input byte, in range, and the RFC's bit positions        *)
(* ======================================================================= *)

Definition dec_chk1 (b : N) : bool :=
  (* IPv4 octet 1 *)
  (N.shiftr b 2 <=? 63) && (N.land b 3 <=? 3)
  && (N.shiftr b 2 =? field (bits_of [b]) 0 6) && (N.land b 3 =? field (bits_of [b]) 6 2)
  (* MACsec TCI/AN and SL octets *)
  && (N.land b 3 =? field (bits_of [b]) 6 2) && (N.land b 63 <=? 63)
  && (N.land b 63 =? field (bits_of [b]) 2 6)
  && (b2n (nonzero (N.land b 64)) =? field (bits_of [b]) 1 1)
  && (b2n (nonzero (N.land b 32)) =? field (bits_of [b]) 2 1)
  && (b2n (nonzero (N.land b 16)) =? field (bits_of [b]) 3 1)
  && (b2n (nonzero (N.land b 8)) =? field (bits_of [b]) 4 1)
  && (b2n (nonzero (N.land b 4)) =? field (bits_of [b]) 5 1)
  && (b2n (nonzero (N.land b 128)) =? field (bits_of [b]) 0 1)
  (* low nibble used by the flow label *)
  && (N.land b 15 <=? 15) && (N.land b 15 =? field (bits_of [b]) 4 4).
Lemma dec_sweep1 : forallb dec_chk1 (range 256) = true.
Proof. vm_compute. reflexivity. Qed.

Definition dec_chk2 (a b : N) : bool :=
  (* 802.1Q TCI *)
  (N.land (N.shiftr a 5) 7 <=? 7) && (be16 (N.land a 15) b <=? 4095)
  && (N.land (N.shiftr a 5) 7 =? field (bits_of [a; b]) 0 3)
  && (b2n (nonzero (N.land a 16)) =? field (bits_of [a; b]) 3 1)
  && (be16 (N.land a 15) b =? field (bits_of [a; b]) 4 12)
  (* IPv4 octets 6-7 *)
  && (be16 (N.land a 31) b <=? 8191)
  && (b2n (nonzero (N.land a 64)) =? field (bits_of [a; b]) 1 1)
  && (b2n (nonzero (N.land a 32)) =? field (bits_of [a; b]) 2 1)
  && (be16 (N.land a 31) b =? field (bits_of [a; b]) 3 13)
  (* fragment header octets 2-3 *)
  && (N.shiftr (be16 a b) 3 <=? 8191)
  && (N.shiftr (be16 a b) 3 =? field (bits_of [a; b]) 0 13)
  && (b2n (nonzero (N.land b 1)) =? field (bits_of [a; b]) 15 1)
  (* IPv6 octets 0-1: traffic class, and DSCP / ECN derived from it *)
  && (let tc := N.lor (shl8 a 4) (N.shiftr b 4) in
      (tc <? 256) && (tc =? field (bits_of [a; b]) 4 8)
      && (N.land (N.shiftr tc 2) 63 <=? 63) && (N.land tc 3 <=? 3)
      && (N.land (N.shiftr tc 2) 63 =? field (bits_of [a; b]) 4 6)
      && (N.land tc 3 =? field (bits_of [a; b]) 10 2)).
Lemma dec_sweep2 : forallb (fun a => forallb (dec_chk2 a) (range 256)) (range 256) = true.
Proof. vm_compute. reflexivity. Qed.

Lemma dec1_all b : b < 256 -> dec_chk1 b = true.
Proof. intros. apply (sweep 256 _ dec_sweep1); assumption. Qed.
Lemma dec2_all a b : a < 256 -> b < 256 -> dec_chk2 a b = true.
Proof. intros. apply (sweep2 256 256 _ dec_sweep2); assumption. Qed.

Lemma unchecked_in_range max x : x <= max ->
  (if x <=? max then Val x else Fail UBRange) <> Fail UBRange /\
  forall v, (if x <=? max then Val x else @Fail N UBRange) = Val v -> v <= max.
Proof.
  intros H. rewrite unchecked_ok by assumption. split; [discriminate|].
  intros v E. injection E as <-. exact H.
Qed.

Lemma fail_in_range f max : f <> UBRange ->
  @Fail N f <> Fail UBRange /\ forall v, @Fail N f = Val v -> v <= max.
Proof. intros H. split; [congruence|discriminate]. Qed.

Ltac split_all :=
  repeat match goal with
         | H : (_ && _)%bool = true |- _ =>
             let H1 := fresh H in apply andb_prop in H; destruct H as [H H1]
         end;
  repeat match goal with
         | H : (_ =? _) = true |- _ => apply N.eqb_eq in H
         | H : (_ <? _) = true |- _ => apply N.ltb_lt in H
         | H : (_ <=? _) = true |- _ => apply N.leb_le in H
         end.

Ltac rd1 s i b E Hb Hs :=
  unfold getu; destruct (rd s i) as [b|] eqn:E; cbn [bind];
  [pose proof (rd_ok _ _ _ Hs E) as Hb | apply fail_in_range; discriminate].

Ltac in_range_1 i sel :=
  let s := fresh "s" in let Hs := fresh "Hs" in let b := fresh "b" in
  let E := fresh "E" in let Hb := fresh "Hb" in let C := fresh "C" in
  intros s Hs; rd1 s i b E Hb Hs;
  pose proof (dec1_all b Hb) as C; unfold dec_chk1 in C; split_chk C;
  apply unchecked_in_range; sel.

Ltac in_range_2 i j :=
  let s := fresh "s" in let Hs := fresh "Hs" in let a := fresh "a" in let b := fresh "b" in
  let Ea := fresh "Ea" in let Eb := fresh "Eb" in let Ha := fresh "Ha" in let Hb := fresh "Hb" in
  let C := fresh "C" in
  intros s Hs; rd1 s i a Ea Ha Hs; rd1 s j b Eb Hb Hs;
  pose proof (dec2_all a b Ha Hb) as C; unfold dec_chk2 in C; cbv zeta in C; split_all;
  apply unchecked_in_range; assumption.

Lemma VHS_pcp_in_range : acc_in_range VHS_priority_code_point VlanPcp_MAX_U8.
Proof.
  intros s Hs. unfold VHS_priority_code_point. rd1 s 0 b E Hb Hs.
  pose proof (dec2_all b 0 Hb ltac:(lia)) as C. unfold dec_chk2 in C. cbv zeta in C. split_chk C.
  apply unchecked_in_range. assumption.
Qed.
Lemma VS_pcp_in_range : acc_in_range VS_priority_code_point VlanPcp_MAX_U8.
Proof. exact VHS_pcp_in_range. Qed.
Lemma VHS_vid_in_range : acc_in_range VHS_vlan_identifier VlanId_MAX_U16.
Proof. unfold VHS_vlan_identifier. in_range_2 0 1. Qed.
Lemma VS_vid_in_range : acc_in_range VS_vlan_identifier VlanId_MAX_U16.
Proof. exact VHS_vid_in_range. Qed.
Lemma V4S_dcp_in_range : acc_in_range V4S_dcp IpDscp_MAX_U8.
Proof. unfold V4S_dcp. in_range_1 1 assumption. Qed.
Lemma V4S_ecn_in_range : acc_in_range V4S_ecn IpEcn_MAX_U8.
Proof. unfold V4S_ecn. in_range_1 1 assumption. Qed.
Lemma V4S_fo_in_range : acc_in_range V4S_fragments_offset IpFragOffset_MAX_U16.
Proof. unfold V4S_fragments_offset. in_range_2 6 7. Qed.
Lemma FRS_fo_in_range : acc_in_range FRS_fragment_offset IpFragOffset_MAX_U16.
Proof. unfold FRS_fragment_offset. in_range_2 2 3. Qed.
Lemma MS_an_in_range : acc_in_range MS_an MacsecAn_MAX_U8.
Proof. unfold MS_an. in_range_1 0 assumption. Qed.
Lemma MS_sl_in_range : acc_in_range MS_short_len MacsecShortLen_MAX_U8.
Proof. unfold MS_short_len. in_range_1 1 assumption. Qed.
Lemma V6S_ecn_in_range : acc_in_range V6S_ecn IpEcn_MAX_U8.
Proof. unfold V6S_ecn, V6S_traffic_class. in_range_2 0 1. Qed.
Lemma V6S_dscp_in_range : acc_in_range V6S_dscp IpDscp_MAX_U8.
Proof. unfold V6S_dscp, V6S_traffic_class. in_range_2 0 1. Qed.

Lemma flow_raw_le a b c : a < 256 -> b < 256 -> c < 256 -> be32 0 (N.land a 15) b c <= Ipv6FlowLabel_MAX_U32.
Proof.
  intros Ha Hb Hc. pose proof (dec1_all a Ha) as C. unfold dec_chk1 in C. split_chk C.
  unfold be32, Ipv6FlowLabel_MAX_U32. lia.
Qed.

Lemma V6S_flow_in_range : acc_in_range V6S_flow_label Ipv6FlowLabel_MAX_U32.
Proof.
  intros s Hs. unfold V6S_flow_label.
  rd1 s 1 a Ea Ha Hs. rd1 s 2 b Eb Hb Hs. rd1 s 3 c Ec Hc Hs.
  apply unchecked_in_range. apply flow_raw_le; assumption.
Qed.

Lemma Query_qrv_in_range raw : raw < 256 ->
  Query_qrv raw <> Fail UBRange /\ forall v, Query_qrv raw = Val v -> v <= Qrv_MAX_U8.
Proof.
  intros H. pose proof (query_getters raw H) as (_ & _ & E & L & _). rewrite E.
  split; [discriminate|]. intros v [= <-]. exact L.
Qed.

(* what the raw expressions of the decoders read, in the RFC's bit numbering *)
Lemma raw_fields_tci a b : a < 256 -> b < 256 ->
  N.land (N.shiftr a 5) 7 = field (bits_of [a; b]) 0 3 /\
  b2n (nonzero (N.land a 16)) = field (bits_of [a; b]) 3 1 /\
  be16 (N.land a 15) b = field (bits_of [a; b]) 4 12.
Proof. intros Ha Hb. pose proof (dec2_all a b Ha Hb) as C. unfold dec_chk2 in C. cbv zeta in C. split_all. auto. Qed.

Lemma raw_fields_ipv4_1 b : b < 256 ->
  N.shiftr b 2 = field (bits_of [b]) 0 6 /\ N.land b 3 = field (bits_of [b]) 6 2.
Proof. intros Hb. pose proof (dec1_all b Hb) as C. unfold dec_chk1 in C. split_all. auto. Qed.

Lemma raw_fields_ipv4_67 a b : a < 256 -> b < 256 ->
  b2n (nonzero (N.land a 64)) = field (bits_of [a; b]) 1 1 /\
  b2n (nonzero (N.land a 32)) = field (bits_of [a; b]) 2 1 /\
  be16 (N.land a 31) b = field (bits_of [a; b]) 3 13.
Proof. intros Ha Hb. pose proof (dec2_all a b Ha Hb) as C. unfold dec_chk2 in C. cbv zeta in C. split_all. auto. Qed.

Lemma raw_fields_frag a b : a < 256 -> b < 256 ->
  N.shiftr (be16 a b) 3 = field (bits_of [a; b]) 0 13 /\
  b2n (nonzero (N.land b 1)) = field (bits_of [a; b]) 15 1.
Proof. intros Ha Hb. pose proof (dec2_all a b Ha Hb) as C. unfold dec_chk2 in C. cbv zeta in C. split_all. auto. Qed.

Lemma raw_fields_ipv6_01 a b : a < 256 -> b < 256 ->
  let tc := N.lor (shl8 a 4) (N.shiftr b 4) in
  tc = field (bits_of [a; b]) 4 8 /\
  N.land (N.shiftr tc 2) 63 = field (bits_of [a; b]) 4 6 /\
  N.land tc 3 = field (bits_of [a; b]) 10 2 /\
  N.land b 15 = field (bits_of [b]) 4 4.
Proof.
  intros Ha Hb. pose proof (dec2_all a b Ha Hb) as C. unfold dec_chk2 in C. cbv zeta in C.
  pose proof (dec1_all b Hb) as D. unfold dec_chk1 in D. split_all. cbv zeta. auto.
Qed.

Lemma raw_fields_macsec t s : t < 256 -> s < 256 ->
  b2n (nonzero (N.land t 128)) = field (bits_of [t]) 0 1 /\
  b2n (nonzero (N.land t 64)) = field (bits_of [t]) 1 1 /\
  b2n (nonzero (N.land t 32)) = field (bits_of [t]) 2 1 /\
  b2n (nonzero (N.land t 16)) = field (bits_of [t]) 3 1 /\
  b2n (nonzero (N.land t 8)) = field (bits_of [t]) 4 1 /\
  b2n (nonzero (N.land t 4)) = field (bits_of [t]) 5 1 /\
  N.land t 3 = field (bits_of [t]) 6 2 /\
  N.land s 63 = field (bits_of [s]) 2 6.
Proof.
  intros Ht Hs. pose proof (dec1_all t Ht) as C. unfold dec_chk1 in C.
  pose proof (dec1_all s Hs) as D. unfold dec_chk1 in D. split_all. repeat split; assumption.
Qed.

(* ======================================================================= *)
(* MACsec                                                                   *)
(* ======================================================================= *)

Definition ms_tci (an : N) (uc enc scb sc es : bool) : N :=
  N.lor (N.lor (N.lor (N.lor (N.lor
    (N.land an 3) (if uc then 4 else 0)) (if enc then 8 else 0)) (if scb then 16 else 0))
    (if sc then 32 else 0)) (if es then 64 else 0).

Definition ms_chk_tci (an : N) (uc enc scb sc es : bool) : bool :=
  let t := ms_tci an uc enc scb sc es in
  bits_eqb (nbits 8 t)
    (nbits 1 0 ++ nbits 1 (b2n es) ++ nbits 1 (b2n sc) ++ nbits 1 (b2n scb) ++
     nbits 1 (b2n enc) ++ nbits 1 (b2n uc) ++ nbits 2 an)
  && Bool.eqb (nonzero (N.land t 128)) false
  && Bool.eqb (N.land t 12 =? 0) (negb enc && negb uc)
  && Bool.eqb (nonzero (N.land t 64)) es && Bool.eqb (nonzero (N.land t 32)) sc
  && Bool.eqb (nonzero (N.land t 16)) scb && Bool.eqb (nonzero (N.land t 8)) enc
  && Bool.eqb (nonzero (N.land t 4)) uc && (N.land t 3 =? an) && (t <? 256).

Definition allb (P : bool -> bool) : bool := P false && P true.
Lemma allb_spec P : allb P = true -> forall b, P b = true.
Proof. unfold allb. intros H b. apply andb_prop in H. destruct b; tauto. Qed.

Lemma ms_sweep_tci :
  forallb (fun an => allb (fun uc => allb (fun enc => allb (fun scb => allb (fun sc => allb (fun es =>
     ms_chk_tci an uc enc scb sc es)))))) (range 4) = true.
Proof. vm_compute. reflexivity. Qed.

Lemma ms_tci_all an uc enc scb sc es : an <= 3 -> ms_chk_tci an uc enc scb sc es = true.
Proof.
  intros H. pose proof (sweep 4 _ ms_sweep_tci an ltac:(change (N.of_nat 4) with 4; lia)) as S.
  cbv beta in S.
  apply (allb_spec _ (allb_spec _ (allb_spec _ (allb_spec _ (allb_spec _ S uc) enc) scb) sc) es).
Qed.

Definition ms_chk_sl (sl : N) : bool :=
  bits_eqb (nbits 8 (N.land sl 63)) (nbits 2 0 ++ nbits 6 sl)
  && (N.land (N.land sl 63) 63 =? sl) && (N.land sl 63 <? 256).
Lemma ms_sweep_sl : forallb ms_chk_sl (range 64) = true.
Proof. vm_compute. reflexivity. Qed.
Lemma ms_sl_all sl : sl <= 63 -> ms_chk_sl sl = true.
Proof. intros. apply (sweep 64 _ ms_sweep_sl). change (N.of_nat 64) with 64. lia. Qed.

Lemma nbits32_bytes_t v t :
  nbits 8 (be32_0 v) ++ nbits 8 (be32_1 v) ++ nbits 8 (be32_2 v) ++ nbits 8 (be32_3 v) ++ t
  = nbits 32 v ++ t.
Proof. rewrite <- nbits32_bytes, <- !app_assoc. reflexivity. Qed.

Lemma nbits64_bytes_t v t :
  nbits 8 ((v / 72057594037927936) mod 256) ++ nbits 8 ((v / 281474976710656) mod 256) ++
  nbits 8 ((v / 1099511627776) mod 256) ++ nbits 8 ((v / 4294967296) mod 256) ++
  nbits 8 ((v / 16777216) mod 256) ++ nbits 8 ((v / 65536) mod 256) ++
  nbits 8 ((v / 256) mod 256) ++ nbits 8 (v mod 256) ++ t = nbits 64 v ++ t.
Proof. rewrite <- nbits64_bytes, <- !app_assoc. reflexivity. Qed.

Lemma bits_of_be64 v : bits_of (to_be64 v) = nbits 64 v.
Proof.
  unfold to_be64. rewrite !bits_of_cons. change (bits_of []) with (@nil bool).
  rewrite app_nil_r. apply nbits64_bytes.
Qed.

Lemma be_val_bits bs : bytes_ok bs -> be_val bs = bits_val (bits_of bs).
Proof.
  induction bs as [|b r IH]; intros H; [reflexivity|].
  apply bytes_ok_cons in H. destruct H as [Hb Hr].
  cbn [be_val]. rewrite bits_of_cons, bits_val_app, bits_val_nbits, bits_of_length, <- (IH Hr).
  change (2 ^ N.of_nat 8) with 256. rewrite (N.mod_small b 256) by exact Hb.
  rewrite Nat2N.inj_mul, N.pow_mul_r. change (2 ^ N.of_nat 8) with 256. reflexivity.
Qed.

Lemma to_be64_ok v : bytes_ok (to_be64 v).
Proof.
  unfold to_be64. repeat (apply bytes_ok_cons; split; [apply N.mod_lt; discriminate|]). apply bytes_ok_nil.
Qed.

Lemma be_val_to_be64 v : v < 18446744073709551616 -> be_val (to_be64 v) = v.
Proof.
  intros H. rewrite (be_val_bits _ (to_be64_ok v)), bits_of_be64, bits_val_nbits.
  apply N.mod_small. exact H.
Qed.

Ltac ms_proj := cbn [ms_ptype ms_endstation_id ms_scb ms_an ms_short_len ms_packet_nr ms_sci].

Lemma macsec_tci_eq h : 
  N.lor (N.lor (N.lor (N.lor (N.lor
      (N.land (ms_an h) 3)
      (if MacsecHeader_userdata_changed h then 4 else 0))
      (if MacsecHeader_encrypted h then 8 else 0))
      (if ms_scb h then 16 else 0))
      (if is_some (ms_sci h) then 32 else 0))
      (if ms_endstation_id h then 64 else 0)
  = ms_tci (ms_an h) (MacsecHeader_userdata_changed h) (MacsecHeader_encrypted h) (ms_scb h)
      (is_some (ms_sci h)) (ms_endstation_id h).
Proof. reflexivity. Qed.

Ltac nat_consts :=
  repeat match goal with
         | |- context [N.to_nat ?k] =>
             let n := eval vm_compute in (N.to_nat k) in change (N.to_nat k) with n
         end.

Lemma macsec_enc_layout h : macsec_ok h ->
  bits_of (MacsecHeader_to_bytes h) = layout_bits (macsec_spec_layout h).
Proof.
  destruct h as [pt es scb an sl pn sci]. unfold macsec_ok, MacsecAn_MAX_U8, MacsecShortLen_MAX_U8. ms_proj.
  intros (Hp & Ha & Hs & Hn & Hsci).
  set (H := mkMacsec pt es scb an sl pn sci).
  pose proof (ms_tci_all an (MacsecHeader_userdata_changed H) (MacsecHeader_encrypted H) scb
      (is_some sci) es Ha) as T.
  unfold ms_chk_tci in T. cbv zeta in T. split_chk T.
  pose proof (ms_sl_all sl Hs) as L. unfold ms_chk_sl in L. split_chk L.
  unfold MacsecHeader_to_bytes, macsec_spec_layout, macsec_layout. cbv zeta.
  rewrite (macsec_tci_eq H). unfold H in *. ms_proj. clear H.
  remember (ms_tci _ _ _ _ _ _) as tci eqn:Etci. clear Etci T8 T7 T6 T5 T4 T3 T2 T1 T0.
  destruct sci as [s|]; destruct pt as [e| | |]; cbn [is_some is_unmodified];
    unfold MacsecHeader_userdata_changed, MacsecHeader_encrypted in *; cbn [ms_ptype b2n] in *;
    unfold take, to_be64; nat_consts; cbn [app firstn Nat.add];
    rewrite !bits_of_cons; change (bits_of []) with (@nil bool);
    rewrite ?layout_bits_app, !layout_bits_cons; change (layout_bits []) with (@nil bool);
    rewrite T, L, nbits32_bytes_t;
    rewrite ?nbits64_bytes_t; rewrite ?nbits16_bytes_t;
    rewrite <- ?app_assoc, ?app_nil_r; cbn [app].
  all: try reflexivity.
  all: unfold be16_0, be16_1; rewrite ?nbits16_bytes; try reflexivity.
Qed.

Lemma layout_agree2 l1 w1 a a' w2 b b' l2 :
  agree_outside (layout_width l1) (w1 + w2)
    (layout_bits (l1 ++ F w1 a :: F w2 b :: l2)) (layout_bits (l1 ++ F w1 a' :: F w2 b' :: l2)).
Proof.
  rewrite !layout_bits_app, !layout_bits_cons, <- layout_bits_length, !app_assoc.
  rewrite <- !(app_assoc (layout_bits l1)).
  replace (w1 + w2)%nat with (length (nbits w1 a ++ nbits w2 b)) by (rewrite app_length, !nbits_length; reflexivity).
  apply agree_mid. rewrite !app_length, !nbits_length. reflexivity.
Qed.

Lemma macsec_set_ok f h v : macsec_ok h -> wfits (macsec_range f) v -> macsec_ok (macsec_set f h v).
Proof.
  destruct h as [pt es scb an sl pn sci]. unfold macsec_ok, wfits, fits, MacsecAn_MAX_U8, MacsecShortLen_MAX_U8.
  ms_proj. intros (Hp & Ha & Hs & Hn & Hsci) Hv.
  destruct f; cbn [macsec_set macsec_range snd] in *; ms_proj; pows; repeat split; try assumption; lia.
Qed.

Lemma macsec_no_bleed f h v : macsec_settable f = true -> macsec_ok h -> wfits (macsec_range f) v ->
  agree_outside (fst (macsec_range f)) (snd (macsec_range f))
    (bits_of (MacsecHeader_to_bytes (macsec_set f h v))) (bits_of (MacsecHeader_to_bytes h)).
Proof.
  intros Hset Hh Hf. rewrite (macsec_enc_layout _ (macsec_set_ok f h v Hh Hf)), (macsec_enc_layout h Hh).
  destruct h as [pt es scb an sl pn sci]. destruct f; try discriminate Hset.
  - exact (layout_agree [_] 1 _ _ ([_; _; _; _; _; _; _; _] ++ _ ++ _)).
  - exact (layout_agree [_; _; _] 1 _ _ ([_; _; _; _; _; _] ++ _ ++ _)).
  - exact (layout_agree [_; _; _; _; _; _] 2 _ _ ([_; _; _] ++ _ ++ _)).
  - exact (layout_agree [_; _; _; _; _; _; _; _] 6 _ _ ([_] ++ _ ++ _)).
  - exact (layout_agree [_; _; _; _; _; _; _; _; _] 32 _ _ ([] ++ _ ++ _)).
Qed.

(* switching between the three payload types without an ether type touches E and C only *)
Lemma macsec_ptype_no_bleed h p : macsec_ok h ->
  is_unmodified (ms_ptype h) = false -> is_unmodified p = false ->
  agree_outside 4 2
    (bits_of (MacsecHeader_to_bytes (macsec_set_ptype h p))) (bits_of (MacsecHeader_to_bytes h)).
Proof.
  intros Hh U1 U2.
  assert (Hh' : macsec_ok (macsec_set_ptype h p)).
  { destruct h as [pt es scb an sl pn sci]. destruct Hh as (A & B). split; [|exact B].
    destruct p; try discriminate U2; exact I. }
  rewrite (macsec_enc_layout _ Hh'), (macsec_enc_layout h Hh).
  destruct h as [pt es scb an sl pn sci].
  destruct pt; try discriminate U1; destruct p; try discriminate U2;
    exact (layout_agree2 [_; _; _; _] 1 _ _ 1 _ _ ([_; _; _; _] ++ _ ++ _)).
Qed.

Lemma macsec_roundtrip h : macsec_ok h ->
  MacsecHeader_from_slice (MacsecHeader_to_bytes h)
  = (if macsec_decodable h then Val h else Fail ErrContent).
Proof.
  destruct h as [pt es scb an sl pn sci]. unfold macsec_ok, MacsecAn_MAX_U8, MacsecShortLen_MAX_U8. ms_proj.
  intros (Hp & Ha & Hs & Hn & Hsci).
  set (H := mkMacsec pt es scb an sl pn sci).
  pose proof (ms_tci_all an (MacsecHeader_userdata_changed H) (MacsecHeader_encrypted H) scb
      (is_some sci) es Ha) as T.
  unfold ms_chk_tci in T. cbv zeta in T. split_chk T.
  pose proof (ms_sl_all sl Hs) as L. unfold ms_chk_sl in L. split_chk L.
  unfold MacsecHeader_from_slice, MacsecHeader_to_bytes, macsec_decodable. cbv zeta.
  rewrite (macsec_tci_eq H). unfold H in *. ms_proj. clear H.
  remember (ms_tci _ _ _ _ _ _) as tci eqn:Etci. clear Etci T.
  destruct sci as [s|]; destruct pt as [e| | |]; cbn [is_some is_unmodified andb negb];
    unfold MacsecHeader_userdata_changed, MacsecHeader_encrypted in *; cbn [ms_ptype negb andb] in *;
    unfold take at 1, to_be64; nat_consts; cbn [app firstn Nat.add];
    match goal with |- bind (MacsecHeaderSlice_from_slice ?l) _ = _ => set (SL := l) end;
    unfold MacsecHeaderSlice_from_slice;
    (let k := eval vm_compute in (len SL) in change (len SL) with k);
    match goal with |- context [?a <? 6] => destruct (N.ltb_spec a 6); [lia|] end;
    unfold SL at 1 2; getu_norm; rewrite T8; cbv iota; rewrite T7; cbn [andb negb]; cbv iota;
    rewrite ?L1, T5; cbn [nonzero is_some]; cbv iota;
    try (destruct (N.eqb_spec sl 1) as [Esl|Esl]; cbn [negb bind]; [reflexivity|]);
    match goal with |- context [?a <? ?b] => destruct (N.ltb_spec a b); [lia|] end;
    unfold take, SL; nat_consts; cbn [firstn bind];
    unfold MS_to_header, MS_ptype, MS_encrypted, MS_userdata_changed, MS_endstation_id, MS_tci_scb,
      MS_an, MS_short_len, MS_packet_nr, MS_sci, MS_sci_present, getu_n;
    getu_norm; rewrite ?T6, ?T5, ?T4, ?T3, ?T2, ?T1, ?L1; cbn [bind is_some]; cbv iota;
    getu_norm; rewrite ?T5; cbn [is_some]; cbv iota; getu_norm;
    rewrite ?be16_bytes, ?be32_bytes by assumption;
    unfold MacsecAn_new_unchecked, MacsecShortLen_from_u8_unchecked, MacsecAn_MAX_U8, MacsecShortLen_MAX_U8;
    rewrite !unchecked_ok by assumption; cbn [bind];
    try (match goal with |- context [len ?l] => let k := eval vm_compute in (len l) in change (len l) with k end;
         match goal with |- context [?a <=? ?b] => destruct (N.leb_spec a b); [|lia] end;
         unfold take, drop; nat_consts; cbn [skipn firstn bind];
         fold (to_be64 s); rewrite (be_val_to_be64 s Hsci)).
  all: try reflexivity.
Qed.
