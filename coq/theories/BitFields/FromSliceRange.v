(* BitFields/FromSliceRange.v -- property C15, round 3 ("small closures"): clause (b)
   "decoding any bytes only ever produces in-range values" for the STRUCT decoders
   (`X::from_slice` = `XSlice::from_slice(s)?.to_header()`), on arbitrary bytes:
     SingleVlanHeader::from_slice, SingleVlanSlice (from_slice + to_header),
     Ipv4Header::from_slice, Ipv6Header::from_slice,
     Ipv6FragmentHeader::from_slice / ::read, MacsecHeader::from_slice,
     IgmpHeader::from_slice (IGMPv3 query arm).
   So far only the single slice accessors, Ipv4Header::read, Ipv6Header::read and
   SingleVlanHeader::from_bytes had an in-range theorem; here the accessor lemmas of
   Proofs2.v are composed along `to_header` (a sequence of those accessors on the
   validated window `take n s`).  No new model: every function is in BitFields/Model.v. *)
From EP Require Import Base.Bytes BitFields.Spec BitFields.Model BitFields.Fields BitFields.BitLemmas
  BitFields.Proofs BitFields.Proofs2 BitFields.Proofs3.
From Coq Require Import ZArith Lia ZifyN ZifyBool.
Local Open Scope N_scope.

(* the range predicates that did not exist yet *)
Definition frag_in_range (h : Ipv6FragmentHeader) : Prop :=
  fr_fragment_offset h <= IpFragOffset_MAX_U16.
Definition macsec_in_range (h : MacsecHeader) : Prop :=
  ms_an h <= MacsecAn_MAX_U8 /\ ms_short_len h <= MacsecShortLen_MAX_U8.
(* the IGMPv3 query stores octet 8 raw; the QRV getter on the stored octet is in range *)
Definition query_in_range (r : MembershipQueryWithSourcesHeader * N) : Prop :=
  q_raw_byte_8 (fst r) < 256 /\
  no_ub (Query_qrv (q_raw_byte_8 (fst r))) (fun v => v <= Qrv_MAX_U8).

Lemma no_ub_bind {A B} (r : res A) (k : A -> res B) (Q : A -> Prop) (P : B -> Prop) :
  no_ub r Q -> (forall a, Q a -> no_ub (k a) P) -> no_ub (bind r k) P.
Proof.
  intros [Hn Hq] Hk. destruct r as [a|f]; cbn [bind].
  - apply Hk, Hq. reflexivity.
  - apply no_ub_fail. congruence.
Qed.

(* accessors that construct no bounded value: they end in a value or in OOB *)
Ltac plain_tac :=
  repeat match goal with
  | |- context [getu ?s ?i] =>
      let b := fresh "b" in let f := fresh "f" in let E := fresh "E" in
      destruct (getu s i) as [b|f] eqn:E; [|apply getu_fail in E; subst f]; cbn [bind]
  | |- context [getu_n ?s ?o ?n] =>
      let b := fresh "l" in let f := fresh "f" in let E := fresh "E" in
      destruct (getu_n s o n) as [b|f] eqn:E; [|apply getu_n_fail in E; subst f]; cbn [bind]
  | |- no_ub (if ?c then _ else _) _ => destruct c
  end;
  first [apply no_ub_val; exact I | apply no_ub_fail; discriminate].

(* one accessor of a to_header sequence: bounded (lemma L) or plain *)
Ltac bounded L Hs := eapply no_ub_bind; [exact (L _ Hs) | intros ? ?].
Ltac plain := eapply (no_ub_bind _ _ (fun _ => True)); [plain_tac | intros ? _].

(* ---------------- 802.1Q ---------------- *)
Lemma VHS_to_header_in_range s : bytes_ok s -> no_ub (VHS_to_header s) vlan_in_range.
Proof.
  intros Hs. unfold VHS_to_header.
  bounded VHS_pcp_in_range Hs.
  unfold VHS_drop_eligible_indicator. plain.
  bounded VHS_vid_in_range Hs.
  unfold VHS_ether_type. plain.
  apply no_ub_val. split; assumption.
Qed.

Lemma SingleVlanHeader_from_slice_in_range s : bytes_ok s ->
  no_ub (SingleVlanHeader_from_slice s) vlan_in_range.
Proof.
  intros Hs. unfold SingleVlanHeader_from_slice, SingleVlanHeaderSlice_from_slice.
  destruct (len s <? 4); cbn [bind]; [apply no_ub_fail; discriminate|].
  apply VHS_to_header_in_range. apply bytes_ok_take. exact Hs.
Qed.

Lemma VS_to_header_in_range s : bytes_ok s -> no_ub (VS_to_header s) vlan_in_range.
Proof.
  intros Hs. unfold VS_to_header.
  bounded VS_pcp_in_range Hs.
  unfold VS_drop_eligible_indicator. plain.
  bounded VS_vid_in_range Hs.
  unfold VS_ether_type. plain.
  apply no_ub_val. split; assumption.
Qed.

Lemma SingleVlanSlice_decode_in_range s : bytes_ok s ->
  no_ub (SingleVlanSlice_decode s) vlan_in_range.
Proof.
  intros Hs. unfold SingleVlanSlice_decode, SingleVlanSlice_from_slice.
  destruct (len s <? 4); cbn [bind]; [apply no_ub_fail; discriminate|].
  apply VS_to_header_in_range. exact Hs.
Qed.

Lemma vlan_struct_decoders_in_range s : bytes_ok s ->
  no_ub (SingleVlanHeader_from_slice s) vlan_in_range /\ no_ub (SingleVlanSlice_decode s) vlan_in_range.
Proof.
  intros Hs. split; [exact (SingleVlanHeader_from_slice_in_range s Hs)
                    |exact (SingleVlanSlice_decode_in_range s Hs)].
Qed.

(* ---------------- IPv4 ---------------- *)
Lemma V4S_to_header_in_range s : bytes_ok s -> no_ub (V4S_to_header s) v4_in_range.
Proof.
  intros Hs. unfold V4S_to_header.
  bounded V4S_dcp_in_range Hs.
  bounded V4S_ecn_in_range Hs.
  unfold V4S_total_len. plain.
  unfold V4S_identification. plain.
  unfold V4S_dont_fragment. plain.
  unfold V4S_more_fragments. plain.
  bounded V4S_fo_in_range Hs.
  unfold V4S_ttl. plain.
  unfold V4S_protocol. plain.
  unfold V4S_header_checksum. plain.
  unfold V4S_source. plain.
  unfold V4S_destination. plain.
  unfold V4S_options. plain.
  apply no_ub_val. repeat split; assumption.
Qed.

Lemma Ipv4Header_from_slice_in_range s : bytes_ok s ->
  no_ub (Ipv4Header_from_slice s) v4_in_range.
Proof.
  intros Hs. unfold Ipv4Header_from_slice, Ipv4HeaderSlice_from_slice.
  destruct (len s <? 20); cbn [bind]; [apply no_ub_fail; discriminate|].
  destruct (getu s 0) as [b0|f] eqn:E0; cbn [bind];
    [|apply getu_fail in E0; subst f; apply no_ub_fail; discriminate].
  cbv zeta.
  destruct (negb (N.shiftr b0 4 =? 4)); cbn [bind]; [apply no_ub_fail; discriminate|].
  destruct (N.land b0 15 <? 5); cbn [bind]; [apply no_ub_fail; discriminate|].
  destruct (len s <? N.land b0 15 * 4); cbn [bind]; [apply no_ub_fail; discriminate|].
  apply V4S_to_header_in_range. apply bytes_ok_take. exact Hs.
Qed.

(* ---------------- IPv6 ---------------- *)
Lemma V6S_tc_lt s : bytes_ok s -> no_ub (V6S_traffic_class s) (fun tc => tc < 256).
Proof.
  intros Hs. unfold V6S_traffic_class.
  step Hs. step Hs. apply no_ub_val.
  apply N.ltb_lt. apply (sweep2 256 256 _ rd_tc_sweep); assumption.
Qed.

Lemma V6S_to_header_in_range s : bytes_ok s -> no_ub (V6S_to_header s) v6_in_range.
Proof.
  intros Hs. unfold V6S_to_header.
  eapply no_ub_bind; [exact (V6S_tc_lt s Hs)|intros tc Htc].
  bounded V6S_flow_in_range Hs.
  unfold V6S_payload_length. plain.
  unfold V6S_next_header. plain.
  unfold V6S_hop_limit. plain.
  unfold V6S_source. plain.
  unfold V6S_destination. plain.
  apply no_ub_val. split; assumption.
Qed.

Lemma Ipv6Header_from_slice_in_range s : bytes_ok s ->
  no_ub (Ipv6Header_from_slice s) v6_in_range.
Proof.
  intros Hs. unfold Ipv6Header_from_slice, Ipv6HeaderSlice_from_slice.
  destruct (len s <? 40); cbn [bind]; [apply no_ub_fail; discriminate|].
  destruct (getu s 0) as [b0|f] eqn:E0; cbn [bind];
    [|apply getu_fail in E0; subst f; apply no_ub_fail; discriminate].
  cbv zeta.
  destruct (negb (N.shiftr b0 4 =? 6)); cbn [bind]; [apply no_ub_fail; discriminate|].
  apply V6S_to_header_in_range. apply bytes_ok_take. exact Hs.
Qed.

(* ---------------- IPv6 fragment header ---------------- *)
Lemma FRS_to_header_in_range s : bytes_ok s -> no_ub (FRS_to_header s) frag_in_range.
Proof.
  intros Hs. unfold FRS_to_header.
  unfold FRS_next_header. plain.
  bounded FRS_fo_in_range Hs.
  unfold FRS_more_fragments. plain.
  unfold FRS_identification. plain.
  apply no_ub_val. assumption.
Qed.

Lemma Ipv6FragmentHeader_from_slice_in_range s : bytes_ok s ->
  no_ub (Ipv6FragmentHeader_from_slice s) frag_in_range.
Proof.
  intros Hs. unfold Ipv6FragmentHeader_from_slice, Ipv6FragmentHeaderSlice_from_slice.
  destruct (len s <? 8); cbn [bind]; [apply no_ub_fail; discriminate|].
  apply FRS_to_header_in_range. apply bytes_ok_take. exact Hs.
Qed.

Lemma Ipv6FragmentHeader_read_in_range reader : bytes_ok reader ->
  no_ub (Ipv6FragmentHeader_read reader) frag_in_range.
Proof.
  intros Hs. unfold Ipv6FragmentHeader_read.
  destruct (len reader <? 8); [apply no_ub_fail; discriminate|].
  apply FRS_to_header_in_range. apply bytes_ok_take. exact Hs.
Qed.

(* ---------------- MACsec ---------------- *)
Lemma MS_ptype_plain s : no_ub (MS_ptype s) (fun _ => True).
Proof.
  unfold MS_ptype, MS_encrypted, MS_userdata_changed.
  destruct (getu s 0) as [t|f] eqn:E0; [|apply getu_fail in E0; subst f]; cbn [bind];
    [|apply no_ub_fail; discriminate].
  destruct (nonzero (N.land t 8)); [destruct (nonzero (N.land t 4)); apply no_ub_val; exact I|].
  destruct (nonzero (N.land t 4)); [apply no_ub_val; exact I|].
  destruct (nonzero (N.land t 32)); plain_tac.
Qed.

Lemma MS_to_header_in_range s : bytes_ok s -> no_ub (MS_to_header s) macsec_in_range.
Proof.
  intros Hs. unfold MS_to_header.
  eapply no_ub_bind; [exact (MS_ptype_plain s)|intros pt _].
  unfold MS_endstation_id. plain.
  unfold MS_tci_scb. plain.
  bounded MS_an_in_range Hs.
  bounded MS_sl_in_range Hs.
  unfold MS_packet_nr. plain.
  unfold MS_sci, MS_sci_present. plain.
  apply no_ub_val. split; assumption.
Qed.

Lemma MacsecHeader_from_slice_in_range s : bytes_ok s ->
  no_ub (MacsecHeader_from_slice s) macsec_in_range.
Proof.
  intros Hs. unfold MacsecHeader_from_slice, MacsecHeaderSlice_from_slice.
  destruct (len s <? 6); cbn [bind]; [apply no_ub_fail; discriminate|].
  destruct (getu s 0) as [t|f] eqn:E0; cbn [bind];
    [|apply getu_fail in E0; subst f; apply no_ub_fail; discriminate].
  destruct (nonzero (N.land t 128)); cbn [bind]; [apply no_ub_fail; discriminate|].
  cbv zeta.
  destruct (getu s 1) as [sl|f] eqn:E1; cbn [bind];
    [|apply getu_fail in E1; subst f; apply no_ub_fail; discriminate].
  destruct ((N.land t 12 =? 0) && (N.land sl 63 =? 1))%bool; cbn [bind];
    [apply no_ub_fail; discriminate|].
  match goal with |- context [if ?c then Fail ErrLen else _] => destruct c end; cbn [bind];
    [apply no_ub_fail; discriminate|].
  apply MS_to_header_in_range. apply bytes_ok_take. exact Hs.
Qed.

(* ---------------- IGMPv3 query ---------------- *)
Lemma IgmpQuery_from_slice_in_range s : bytes_ok s ->
  no_ub (IgmpQuery_from_slice s) query_in_range.
Proof.
  intros Hs. unfold IgmpQuery_from_slice.
  destruct (len s <? 8); [apply no_ub_fail; discriminate|].
  repeat step Hs.
  destruct (12 <=? len s); [|apply no_ub_fail; discriminate].
  repeat step Hs.
  apply no_ub_val. unfold query_in_range. cbn [fst q_raw_byte_8].
  split; [assumption|]. apply Query_qrv_in_range. assumption.
Qed.
