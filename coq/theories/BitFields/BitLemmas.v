(* BitFields/BitLemmas.v -- generic facts about bit strings, layouts and
   complete finite sweeps.  Nothing here mentions the crate. *)
From EP Require Import Base.Bytes BitFields.Spec.
From Coq Require Import ZArith Lia ZifyN ZifyBool.
Local Open Scope N_scope.
Local Open Scope N_scope.

Arguments nbits : simpl never.

Ltac dmlia := zify; Z.div_mod_to_equations; lia.

(* ---- nbits ------------------------------------------------------------- *)

Lemma nbits_S w v : nbits (S w) v = nbits w (v / 2) ++ [v mod 2 =? 1].
Proof. reflexivity. Qed.

Lemma nbits_0 v : nbits 0 v = [].
Proof. reflexivity. Qed.

Lemma nbits_length w v : length (nbits w v) = w.
Proof.
  revert v. induction w as [|w IH]; intros v.
  - reflexivity.
  - rewrite nbits_S, app_length, IH. cbn [length]. lia.
Qed.

Lemma pow2_S n : 2 ^ N.of_nat (S n) = 2 * 2 ^ N.of_nat n.
Proof. rewrite Nat2N.inj_succ, N.pow_succ_r'. reflexivity. Qed.

Lemma pow2_nz n : 2 ^ N.of_nat n <> 0.
Proof. apply N.pow_nonzero. discriminate. Qed.

Lemma half_of_mod v p : p <> 0 -> (v mod (2 * p)) / 2 = (v / 2) mod p.
Proof.
  intros Hp. rewrite N.mod_mul_r by (try discriminate; assumption).
  assert (H2 : v mod 2 < 2) by (apply N.mod_lt; discriminate).
  generalize dependent (v mod 2). intros r Hr.
  generalize ((v / 2) mod p). intros q.
  symmetry. apply (N.div_unique _ 2 q r); lia.
Qed.

Lemma parity_of_mod v p : p <> 0 -> (v mod (2 * p)) mod 2 = v mod 2.
Proof.
  intros Hp. rewrite N.mod_mul_r by (try discriminate; assumption).
  assert (H2 : v mod 2 < 2) by (apply N.mod_lt; discriminate).
  generalize dependent (v mod 2). intros r Hr.
  generalize ((v / 2) mod p). intros q.
  symmetry. apply (N.mod_unique _ 2 q r); lia.
Qed.

(* only the low w bits matter *)
Lemma nbits_mod w v : nbits w (v mod 2 ^ N.of_nat w) = nbits w v.
Proof.
  revert v. induction w as [|w IH]; intros v.
  - reflexivity.
  - rewrite !nbits_S, pow2_S.
    rewrite half_of_mod by apply pow2_nz.
    rewrite parity_of_mod by apply pow2_nz.
    rewrite IH. reflexivity.
Qed.

Lemma nbits_split a b v :
  nbits (a + b) v = nbits a (v / 2 ^ N.of_nat b) ++ nbits b v.
Proof.
  revert v. induction b as [|b IH]; intros v.
  - rewrite Nat.add_0_r. cbn [N.of_nat]. rewrite N.pow_0_r, N.div_1_r, nbits_0, app_nil_r.
    reflexivity.
  - rewrite Nat.add_succ_r, !nbits_S, IH, pow2_S.
    rewrite N.div_div by (try discriminate; apply pow2_nz).
    rewrite app_assoc. reflexivity.
Qed.

(* ---- bits_val ---------------------------------------------------------- *)

Lemma fold_acc l a :
  fold_left (fun a b => 2 * a + b2n b) l a
  = a * 2 ^ N.of_nat (length l) + fold_left (fun a b => 2 * a + b2n b) l 0.
Proof.
  revert a. induction l as [|b l IH]; intros a.
  - cbn [fold_left length N.of_nat]. rewrite N.pow_0_r. lia.
  - cbn [fold_left length]. rewrite pow2_S.
    rewrite (IH (2 * a + b2n b)), (IH (2 * 0 + b2n b)).
    generalize (2 ^ N.of_nat (length l)). intros p.
    generalize (fold_left (fun a0 b0 => 2 * a0 + b2n b0) l 0). intros r. lia.
Qed.

Lemma bits_val_app x y :
  bits_val (x ++ y) = bits_val x * 2 ^ N.of_nat (length y) + bits_val y.
Proof. unfold bits_val. rewrite fold_left_app. apply fold_acc. Qed.

Lemma bits_val_nbits w v : bits_val (nbits w v) = v mod 2 ^ N.of_nat w.
Proof.
  revert v. induction w as [|w IH]; intros v.
  - cbn [N.of_nat]. rewrite N.pow_0_r, N.mod_1_r. reflexivity.
  - rewrite nbits_S, bits_val_app, IH, pow2_S. cbn [length N.of_nat].
    rewrite N.pow_1_r.
    rewrite (N.mod_mul_r v 2) by (try discriminate; apply pow2_nz).
    assert (H2 : v mod 2 < 2) by (apply N.mod_lt; discriminate).
    assert (E : bits_val [v mod 2 =? 1] = v mod 2).
    { unfold bits_val. cbn [fold_left]. destruct (N.eqb_spec (v mod 2) 1) as [e|e].
      - rewrite e. reflexivity.
      - cbn [b2n]. lia. }
    rewrite E. lia.
Qed.

Lemma bits_val_nbits_fits w v : fits w v -> bits_val (nbits w v) = v.
Proof. intros H. rewrite bits_val_nbits. apply N.mod_small. exact H. Qed.

(* ---- fields and agreement ---------------------------------------------- *)

Lemma field_mid x m y : field (x ++ m ++ y) (length x) (length m) = bits_val m.
Proof.
  unfold field. rewrite skipn_app, skipn_all, Nat.sub_diag. cbn [skipn app].
  rewrite firstn_app, firstn_all, Nat.sub_diag. cbn [firstn]. rewrite app_nil_r. reflexivity.
Qed.

Lemma field_prefix x y off n :
  (off + n <= length x)%nat -> field (x ++ y) off n = field x off n.
Proof.
  intros H. unfold field. rewrite skipn_app, firstn_app.
  rewrite skipn_length.
  replace (n - (length x - off))%nat with 0%nat by lia.
  cbn [firstn]. rewrite app_nil_r. reflexivity.
Qed.

Lemma agree_mid x m m' y :
  length m = length m' ->
  agree_outside (length x) (length m) (x ++ m ++ y) (x ++ m' ++ y).
Proof.
  intros E. split.
  - rewrite !app_length. lia.
  - intros i [Hi|Hi].
    + rewrite !nth_error_app1 by assumption. reflexivity.
    + rewrite !(nth_error_app2 x) by lia.
      rewrite !nth_error_app2 by lia. rewrite E. reflexivity.
Qed.

Lemma agree_refl off n x : agree_outside off n x x.
Proof. split; auto. Qed.

(* ---- layouts ----------------------------------------------------------- *)

Lemma layout_bits_app l1 l2 : layout_bits (l1 ++ l2) = layout_bits l1 ++ layout_bits l2.
Proof. unfold layout_bits. apply flat_map_app. Qed.

Lemma layout_bits_cons w v l : layout_bits (F w v :: l) = nbits w v ++ layout_bits l.
Proof. reflexivity. Qed.

Lemma layout_bits_length l : length (layout_bits l) = layout_width l.
Proof.
  induction l as [|[w v] l IH].
  - reflexivity.
  - change ((w, v) :: l) with (F w v :: l). rewrite layout_bits_cons, app_length, nbits_length, IH.
    reflexivity.
Qed.

(* the field at position k of a layout holds exactly the value put there *)
Lemma layout_field l1 w v l2 :
  field (layout_bits (l1 ++ F w v :: l2)) (layout_width l1) w = v mod 2 ^ N.of_nat w.
Proof.
  rewrite layout_bits_app, layout_bits_cons, <- layout_bits_length.
  rewrite <- (nbits_length w v) at 2. rewrite field_mid. apply bits_val_nbits.
Qed.

(* changing the value at position k changes no bit outside that field *)
Lemma layout_agree l1 w v v' l2 :
  agree_outside (layout_width l1) w
    (layout_bits (l1 ++ F w v :: l2)) (layout_bits (l1 ++ F w v' :: l2)).
Proof.
  rewrite !layout_bits_app, !layout_bits_cons, <- layout_bits_length.
  rewrite <- (nbits_length w v) at 1. apply agree_mid. rewrite !nbits_length. reflexivity.
Qed.

Lemma bits_of_cons b r : bits_of (b :: r) = nbits 8 b ++ bits_of r.
Proof. reflexivity. Qed.

Lemma bits_of_app a b : bits_of (a ++ b) = bits_of a ++ bits_of b.
Proof. unfold bits_of. apply flat_map_app. Qed.

Lemma bits_of_octets bs : layout_bits (octets bs) = bits_of bs.
Proof.
  induction bs as [|b r IH]; [reflexivity|].
  cbn [octets map]. rewrite layout_bits_cons, bits_of_cons. f_equal. exact IH.
Qed.

Lemma bits_of_length bs : length (bits_of bs) = (8 * length bs)%nat.
Proof.
  induction bs as [|b r IH]; [reflexivity|].
  rewrite bits_of_cons, app_length, nbits_length, IH. cbn [length]. lia.
Qed.

(* big-endian serialisation of integers, as bit strings *)
Lemma nbits8_mod256 v : nbits 8 (v mod 256) = nbits 8 v.
Proof. change 256 with (2 ^ N.of_nat 8). apply nbits_mod. Qed.

Lemma nbits16_bytes v : nbits 8 ((v / 256) mod 256) ++ nbits 8 (v mod 256) = nbits 16 v.
Proof.
  rewrite !nbits8_mod256. change 16%nat with (8 + 8)%nat. rewrite nbits_split. reflexivity.
Qed.

Lemma nbits32_bytes v :
  nbits 8 ((v / 16777216) mod 256) ++ nbits 8 ((v / 65536) mod 256) ++
  nbits 8 ((v / 256) mod 256) ++ nbits 8 (v mod 256) = nbits 32 v.
Proof.
  rewrite !nbits8_mod256.
  change 32%nat with (8 + 24)%nat. rewrite (nbits_split 8 24).
  change 24%nat with (8 + 16)%nat. rewrite (nbits_split 8 16).
  change 16%nat with (8 + 8)%nat. rewrite (nbits_split 8 8).
  change (2 ^ N.of_nat (8 + (8 + 8))) with 16777216.
  change (2 ^ N.of_nat (8 + 8)) with 65536. change (2 ^ N.of_nat 8) with 256.
  reflexivity.
Qed.

Lemma nbits64_bytes v :
  nbits 8 ((v / 72057594037927936) mod 256) ++ nbits 8 ((v / 281474976710656) mod 256) ++
  nbits 8 ((v / 1099511627776) mod 256) ++ nbits 8 ((v / 4294967296) mod 256) ++
  nbits 8 ((v / 16777216) mod 256) ++ nbits 8 ((v / 65536) mod 256) ++
  nbits 8 ((v / 256) mod 256) ++ nbits 8 (v mod 256) = nbits 64 v.
Proof.
  rewrite !nbits8_mod256.
  change 64%nat with (8 + 56)%nat. rewrite (nbits_split 8 56).
  change 56%nat with (8 + 48)%nat. rewrite (nbits_split 8 48).
  change 48%nat with (8 + 40)%nat. rewrite (nbits_split 8 40).
  change 40%nat with (8 + 32)%nat. rewrite (nbits_split 8 32).
  change 32%nat with (8 + 24)%nat. rewrite (nbits_split 8 24).
  change 24%nat with (8 + 16)%nat. rewrite (nbits_split 8 16).
  change 16%nat with (8 + 8)%nat. rewrite (nbits_split 8 8).
  reflexivity.
Qed.

(* ---- complete finite sweeps -------------------------------------------- *)

Definition range (n : nat) : list N := map N.of_nat (seq 0 n).

Lemma in_range n v : v < N.of_nat n -> In v (range n).
Proof.
  intros H. unfold range. apply in_map_iff. exists (N.to_nat v). split.
  - apply N2Nat.id.
  - apply in_seq. lia.
Qed.

Lemma sweep n (P : N -> bool) :
  forallb P (range n) = true -> forall v, v < N.of_nat n -> P v = true.
Proof. intros H v Hv. rewrite forallb_forall in H. apply H. apply in_range. exact Hv. Qed.

Lemma sweep2 n m (P : N -> N -> bool) :
  forallb (fun a => forallb (P a) (range m)) (range n) = true ->
  forall a b, a < N.of_nat n -> b < N.of_nat m -> P a b = true.
Proof.
  intros H a b Ha Hb. apply (sweep m (P a)); [|exact Hb].
  apply (sweep n (fun a => forallb (P a) (range m)) H a Ha).
Qed.

Lemma sweep3 n m k (P : N -> N -> N -> bool) :
  forallb (fun a => forallb (fun b => forallb (P a b) (range k)) (range m)) (range n) = true ->
  forall a b c, a < N.of_nat n -> b < N.of_nat m -> c < N.of_nat k -> P a b c = true.
Proof.
  intros H a b c Ha Hb Hc. apply (sweep k (P a b)); [|exact Hc].
  apply (sweep2 n m (fun a b => forallb (P a b) (range k)) H a b Ha Hb).
Qed.

Fixpoint bits_eqb (x y : list bool) : bool :=
  match x, y with
  | [], [] => true
  | a :: x', b :: y' => Bool.eqb a b && bits_eqb x' y'
  | _, _ => false
  end.

Lemma bits_eqb_eq x y : bits_eqb x y = true -> x = y.
Proof.
  revert y. induction x as [|a x IH]; intros [|b y] H; cbn [bits_eqb] in H; try discriminate.
  - reflexivity.
  - apply andb_prop in H. destruct H as [H1 H2]. apply Bool.eqb_prop in H1.
    f_equal; auto.
Qed.
