(* BitFields/Fields.v -- glue between the model's header records and the
   specification's layouts: which headers are "in range", the RFC layout of a
   header value, and get/set of one field by name.  Definitions only. *)
From EP Require Import Base.Bytes BitFields.Spec BitFields.Model.
Local Open Scope N_scope.

Definition wfits (r : nat * nat) (v : N) : Prop := fits (snd r) v.

(* ---- 802.1Q ------------------------------------------------------------ *)

Definition vlan_ok (h : SingleVlanHeader) : Prop :=
  vlan_pcp h <= VlanPcp_MAX_U8 /\ vlan_id h <= VlanId_MAX_U16 /\ vlan_ether_type h < 65536.

Definition vlan_spec_layout (h : SingleVlanHeader) : layout :=
  vlan_layout (vlan_pcp h) (b2n (vlan_dei h)) (vlan_id h) (vlan_ether_type h).

Definition vlan_get (f : vlan_field) (h : SingleVlanHeader) : N :=
  match f with
  | VlanPCP => vlan_pcp h | VlanDEI => b2n (vlan_dei h)
  | VlanVID => vlan_id h | VlanEtherType => vlan_ether_type h
  end.

Definition vlan_set (f : vlan_field) (h : SingleVlanHeader) (v : N) : SingleVlanHeader :=
  match f with
  | VlanPCP => mkVlan v (vlan_dei h) (vlan_id h) (vlan_ether_type h)
  | VlanDEI => mkVlan (vlan_pcp h) (nonzero v) (vlan_id h) (vlan_ether_type h)
  | VlanVID => mkVlan (vlan_pcp h) (vlan_dei h) v (vlan_ether_type h)
  | VlanEtherType => mkVlan (vlan_pcp h) (vlan_dei h) (vlan_id h) v
  end.

(* ---- IPv4 -------------------------------------------------------------- *)

Definition ipv4_ok (h : Ipv4Header) : Prop :=
  v4_dscp h <= IpDscp_MAX_U8 /\ v4_ecn h <= IpEcn_MAX_U8 /\
  v4_total_len h < 65536 /\ v4_identification h < 65536 /\
  v4_fragment_offset h <= IpFragOffset_MAX_U16 /\
  v4_time_to_live h < 256 /\ v4_protocol h < 256 /\ v4_header_checksum h < 65536 /\
  bytes_ok (v4_source h) /\ len (v4_source h) = 4 /\
  bytes_ok (v4_destination h) /\ len (v4_destination h) = 4 /\
  bytes_ok (v4_options h) /\ len (v4_options h) <= 40 /\ len (v4_options h) mod 4 = 0.

(* IHL = header length in 32 bit words *)
Definition ipv4_spec_layout (h : Ipv4Header) : layout :=
  ipv4_layout ((20 + len (v4_options h)) / 4) (v4_dscp h) (v4_ecn h) (v4_total_len h)
    (v4_identification h) (b2n (v4_dont_fragment h)) (b2n (v4_more_fragments h))
    (v4_fragment_offset h) (v4_time_to_live h) (v4_protocol h) (v4_header_checksum h)
    (v4_source h ++ v4_destination h ++ v4_options h).

Definition ipv4_get (f : ipv4_field) (h : Ipv4Header) : N :=
  match f with
  | V4Dscp => v4_dscp h | V4Ecn => v4_ecn h | V4TotalLen => v4_total_len h
  | V4Ident => v4_identification h | V4DF => b2n (v4_dont_fragment h)
  | V4MF => b2n (v4_more_fragments h) | V4FragOff => v4_fragment_offset h
  | V4Ttl => v4_time_to_live h | V4Proto => v4_protocol h | V4Checksum => v4_header_checksum h
  end.

Definition ipv4_set (f : ipv4_field) (h : Ipv4Header) (v : N) : Ipv4Header :=
  let '(mkIpv4 dscp ecn tl id df mf fo ttl pr ck src dst opt) := h in
  match f with
  | V4Dscp => mkIpv4 v ecn tl id df mf fo ttl pr ck src dst opt
  | V4Ecn => mkIpv4 dscp v tl id df mf fo ttl pr ck src dst opt
  | V4TotalLen => mkIpv4 dscp ecn v id df mf fo ttl pr ck src dst opt
  | V4Ident => mkIpv4 dscp ecn tl v df mf fo ttl pr ck src dst opt
  | V4DF => mkIpv4 dscp ecn tl id (nonzero v) mf fo ttl pr ck src dst opt
  | V4MF => mkIpv4 dscp ecn tl id df (nonzero v) fo ttl pr ck src dst opt
  | V4FragOff => mkIpv4 dscp ecn tl id df mf v ttl pr ck src dst opt
  | V4Ttl => mkIpv4 dscp ecn tl id df mf fo v pr ck src dst opt
  | V4Proto => mkIpv4 dscp ecn tl id df mf fo ttl v ck src dst opt
  | V4Checksum => mkIpv4 dscp ecn tl id df mf fo ttl pr v src dst opt
  end.

(* ---- IPv6 -------------------------------------------------------------- *)

Definition ipv6_ok (h : Ipv6Header) : Prop :=
  v6_traffic_class h < 256 /\ v6_flow_label h <= Ipv6FlowLabel_MAX_U32 /\
  v6_payload_length h < 65536 /\ v6_next_header h < 256 /\ v6_hop_limit h < 256 /\
  bytes_ok (v6_source h) /\ len (v6_source h) = 16 /\
  bytes_ok (v6_destination h) /\ len (v6_destination h) = 16.

Definition ipv6_spec_layout (h : Ipv6Header) : layout :=
  ipv6_layout (v6_traffic_class h) (v6_flow_label h) (v6_payload_length h)
    (v6_next_header h) (v6_hop_limit h) (v6_source h ++ v6_destination h).

(* DSCP = upper six bits, ECN = lower two bits of the traffic class (arithmetic) *)
Definition ipv6_spec_layout_ds (h : Ipv6Header) : layout :=
  ipv6_layout_ds (v6_traffic_class h / 4) (v6_traffic_class h mod 4) (v6_flow_label h)
    (v6_payload_length h) (v6_next_header h) (v6_hop_limit h)
    (v6_source h ++ v6_destination h).

Definition ipv6_get (f : ipv6_field) (h : Ipv6Header) : N :=
  match f with
  | V6Dscp => v6_traffic_class h / 4 | V6Ecn => v6_traffic_class h mod 4
  | V6FlowLabel => v6_flow_label h | V6PayloadLen => v6_payload_length h
  | V6NextHeader => v6_next_header h | V6HopLimit => v6_hop_limit h
  end.

(* DSCP and ECN are written through the crate's own setters *)
Definition ipv6_set (f : ipv6_field) (h : Ipv6Header) (v : N) : Ipv6Header :=
  let '(mkIpv6 tc fl pl nh hl src dst) := h in
  match f with
  | V6Dscp => mkIpv6 (Ipv6Header_set_dscp tc v) fl pl nh hl src dst
  | V6Ecn => mkIpv6 (Ipv6Header_set_ecn tc v) fl pl nh hl src dst
  | V6FlowLabel => mkIpv6 tc v pl nh hl src dst
  | V6PayloadLen => mkIpv6 tc fl v nh hl src dst
  | V6NextHeader => mkIpv6 tc fl pl v hl src dst
  | V6HopLimit => mkIpv6 tc fl pl nh v src dst
  end.

(* ---- IPv6 fragment header ---------------------------------------------- *)

Definition frag_ok (h : Ipv6FragmentHeader) : Prop :=
  fr_next_header h < 256 /\ fr_fragment_offset h <= IpFragOffset_MAX_U16 /\
  fr_identification h < 4294967296.

Definition frag_spec_layout (h : Ipv6FragmentHeader) : layout :=
  frag_layout (fr_next_header h) (fr_fragment_offset h) (b2n (fr_more_fragments h))
    (fr_identification h).

Definition frag_get (f : frag_field) (h : Ipv6FragmentHeader) : N :=
  match f with
  | FrNextHeader => fr_next_header h | FrOffset => fr_fragment_offset h
  | FrMore => b2n (fr_more_fragments h) | FrIdent => fr_identification h
  end.

Definition frag_set (f : frag_field) (h : Ipv6FragmentHeader) (v : N) : Ipv6FragmentHeader :=
  match f with
  | FrNextHeader => mkFrag v (fr_fragment_offset h) (fr_more_fragments h) (fr_identification h)
  | FrOffset => mkFrag (fr_next_header h) v (fr_more_fragments h) (fr_identification h)
  | FrMore => mkFrag (fr_next_header h) (fr_fragment_offset h) (nonzero v) (fr_identification h)
  | FrIdent => mkFrag (fr_next_header h) (fr_fragment_offset h) (fr_more_fragments h) v
  end.

(* ---- MACsec ------------------------------------------------------------ *)

Definition ptype_ok (p : MacsecPType) : Prop :=
  match p with Unmodified e => e < 65536 | _ => True end.

Definition macsec_ok (h : MacsecHeader) : Prop :=
  ptype_ok (ms_ptype h) /\ ms_an h <= MacsecAn_MAX_U8 /\ ms_short_len h <= MacsecShortLen_MAX_U8 /\
  ms_packet_nr h < 4294967296 /\
  match ms_sci h with Some s => s < 18446744073709551616 | None => True end.

Definition macsec_spec_layout (h : MacsecHeader) : layout :=
  macsec_layout (b2n (ms_endstation_id h)) (b2n (is_some (ms_sci h))) (b2n (ms_scb h))
    (b2n (MacsecHeader_encrypted h)) (b2n (MacsecHeader_userdata_changed h))
    (ms_an h) (ms_short_len h) (ms_packet_nr h) (ms_sci h)
    (match ms_ptype h with Unmodified e => Some e | _ => None end).

(* the fields whose change keeps the shape of the header; E and C are covered
   through the payload type below *)
Definition macsec_get (f : macsec_field) (h : MacsecHeader) : N :=
  match f with
  | MsES => b2n (ms_endstation_id h) | MsSC => b2n (is_some (ms_sci h))
  | MsSCB => b2n (ms_scb h) | MsE => b2n (MacsecHeader_encrypted h)
  | MsC => b2n (MacsecHeader_userdata_changed h)
  | MsAN => ms_an h | MsSL => ms_short_len h | MsPN => ms_packet_nr h
  end.

Definition macsec_settable (f : macsec_field) : bool :=
  match f with MsES | MsSCB | MsAN | MsSL | MsPN => true | _ => false end.

Definition macsec_set (f : macsec_field) (h : MacsecHeader) (v : N) : MacsecHeader :=
  let '(mkMacsec pt es scb an sl pn sci) := h in
  match f with
  | MsES => mkMacsec pt (nonzero v) scb an sl pn sci
  | MsSCB => mkMacsec pt es (nonzero v) an sl pn sci
  | MsAN => mkMacsec pt es scb v sl pn sci
  | MsSL => mkMacsec pt es scb an v pn sci
  | MsPN => mkMacsec pt es scb an sl v sci
  | _ => h
  end.

Definition macsec_set_ptype (h : MacsecHeader) (p : MacsecPType) : MacsecHeader :=
  mkMacsec p (ms_endstation_id h) (ms_scb h) (ms_an h) (ms_short_len h) (ms_packet_nr h) (ms_sci h).

(* the decoder rejects exactly this combination (IEEE 802.1AE: SL = 1 cannot
   hold the two ether type bytes of an unmodified frame) *)
Definition macsec_decodable (h : MacsecHeader) : bool :=
  negb (is_unmodified (ms_ptype h) && (ms_short_len h =? 1)).

(* ---- IGMPv3 query ------------------------------------------------------ *)

Definition query_ok (t : MembershipQueryWithSourcesHeader) (checksum : N) : Prop :=
  q_max_response_code t < 256 /\ bytes_ok (q_group_address t) /\ len (q_group_address t) = 4 /\
  q_raw_byte_8 t < 256 /\ q_qqic t < 256 /\ q_num_of_sources t < 65536 /\ checksum < 65536.

Definition query_spec_layout (t : MembershipQueryWithSourcesHeader) (checksum : N) : layout :=
  igmp_query_layout (q_max_response_code t) checksum (q_group_address t)
    (q_raw_byte_8 t / 16) ((q_raw_byte_8 t / 8) mod 2) (q_raw_byte_8 t mod 8)
    (q_qqic t) (q_num_of_sources t).

Definition query_get (f : igmp_field) (t : MembershipQueryWithSourcesHeader) : N :=
  match f with
  | IgResv => q_raw_byte_8 t / 16 | IgS => (q_raw_byte_8 t / 8) mod 2 | IgQRV => q_raw_byte_8 t mod 8
  end.

(* all three are written through the crate's setters *)
Definition query_set (f : igmp_field) (t : MembershipQueryWithSourcesHeader) (v : N)
  : MembershipQueryWithSourcesHeader :=
  let raw := q_raw_byte_8 t in
  let raw' := match f with
              | IgResv => Query_set_flags raw v
              | IgS => Query_set_s_flag raw (nonzero v)
              | IgQRV => Query_set_qrv raw v
              end in
  mkQuery (q_max_response_code t) (q_group_address t) raw' (q_qqic t) (q_num_of_sources t).

(* ---- what a checked constructor has to satisfy -------------------------- *)

Definition checked_ctor (max : N) (w : nat) (try_new try_from : N -> tried)
           (new_unchecked : N -> res N) : Prop :=
  max = 2 ^ N.of_nat w - 1 /\
  (forall v, try_new v = TOk v <-> v <= max) /\
  (forall v, max < v -> try_new v = TErr v max) /\
  (forall v, try_from v = try_new v) /\
  (forall v, new_unchecked v = Val v <-> v <= max) /\
  (forall v, max < v -> new_unchecked v = Fail UBRange).

(* an accessor that builds a bounded value with new_unchecked: on every slice
   it never hands new_unchecked an out-of-range value, and what it returns is in range *)
Definition acc_in_range (acc : bytes -> res N) (max : N) : Prop :=
  forall s, bytes_ok s -> acc s <> Fail UBRange /\ forall v, acc s = Val v -> v <= max.

(* a decoding function never reaches an out-of-range new_unchecked, and what it returns satisfies P *)
Definition no_ub {A} (r : res A) (P : A -> Prop) : Prop :=
  r <> Fail UBRange /\ forall a, r = Val a -> P a.

Definition v4_in_range (h : Ipv4Header) : Prop :=
  v4_dscp h <= IpDscp_MAX_U8 /\ v4_ecn h <= IpEcn_MAX_U8 /\ v4_fragment_offset h <= IpFragOffset_MAX_U16.

Definition v6_in_range (h : Ipv6Header) : Prop :=
  v6_traffic_class h < 256 /\ v6_flow_label h <= Ipv6FlowLabel_MAX_U32.

Definition vlan_in_range (h : SingleVlanHeader) : Prop :=
  vlan_pcp h <= VlanPcp_MAX_U8 /\ vlan_id h <= VlanId_MAX_U16.
