(* ExtChain/ChainView.v -- vocabulary that connects ChainSpec.v with the model
   (definitions used in statements of C12 only). *)
From EP Require Import Base.Bytes ExtChain.Spec ExtChain.Model ExtChain.View ExtChain.WalkSpec ExtChain.WalkView ExtChain.ChainSpec.
Local Open Scope N_scope.

(* the verdict of ChainSpec as the Result of Ipv6Extensions::next_header *)
Definition res_of_verdict (v : chain_verdict) : res walk_error N :=
  match v with
  | VOk n => Ok n
  | VHopByHopNotAtStart => Err HopByHopNotAtStart
  | VNotReferenced m => Err (ExtNotReferenced m)
  end.

(* ... and as the Result of Ipv6Extensions::write *)
Definition unit_of_verdict (v : chain_verdict) : res walk_error unit :=
  match v with
  | VOk _ => Ok tt
  | VHopByHopNotAtStart => Err HopByHopNotAtStart
  | VNotReferenced m => Err (ExtNotReferenced m)
  end.

(* the error a maximal chain that stops on [next] stands for when k is the first header in
   RFC 8200 order it does not mention *)
Definition error_of (next : N) (k : ext_kind) : walk_error :=
  if (next =? ip_number_of KHopByHop) && kind_eqb k KHopByHop then HopByHopNotAtStart
  else ExtNotReferenced (ip_number_of k).

(* RFC wire format (the wire_ functions of Spec) of the header at position k; nothing when there is none *)
Definition wire_at (e : Exts6) (k : ext_kind) : bytes :=
  match get_wire e k with Some b => b | None => [] end.

(* the headers at the positions ks, in that order *)
Definition wire_bytes (e : Exts6) (ks : list ext_kind) : bytes := concat (map (wire_at e) ks).

(* the positions of the struct that hold a header, in RFC 8200 order *)
Definition present_kinds (e : Exts6) : list ext_kind := map fst (in_rfc_order (get_nh e)).


(* Ipv4Extensions *)
Definition wire_bytes4 (e : Exts4) (ks : list ext_kind) : bytes :=
  concat (map (fun k => match get_wire4 e k with Some b => b | None => [] end) ks).

(* ------------------------------------------------------------------ *)
(* decoding a written chain: what the decoder does once it has re-read every
   header of e and looks at the final number n with nothing left to read
   (WalkSpec.decide with every position of e filled; start = no header at all):
   a non-extension number or an extension number whose position is filled ends
   the decoding; 0 is the hop-by-hop error; a number whose position is free makes
   the decoder look for that header in the empty rest -- a length error at the
   end of the written bytes, [total] = their length *)
Definition min_header_len (k : ext_kind) : N := match k with KAuth => 12 | _ => 8 end.

Definition is_nil {A} (l : list A) : bool := match l with [] => true | _ => false end.

Definition decode_end (e : Exts6) (n : N) (total : N) : res hdr_slice_error (Exts6 * N * bytes) :=
  match decide (is_nil (present_kinds e)) (present_kinds e) n with
  | DNonExt | DRefilled => Ok (e, n, [])
  | DHopNotAtStart => Err HHopByHopNotAtStart
  | DTake k => Err (fault_error total 0 k (FLen (min_header_len k)))
  end.
