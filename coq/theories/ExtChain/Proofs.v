(* ExtChain/Proofs.v -- the five walkers over the six optional extension
   headers agree (property C12). *)
From EP Require Import Base.Bytes ExtChain.Spec ExtChain.Model ExtChain.View.
From Coq Require Import ZArith Lia ZifyN ZifyBool.
Local Open Scope N_scope.

Ltac dmlia := zify; Z.div_mod_to_equations; lia.

(* ------------------------------------------------------------------ *)
(* lists *)

Lemma rd0 a l : rd (a :: l) 0 = Some a. Proof. reflexivity. Qed.
Lemma rd1 a0 a l : rd (a0 :: a :: l) 1 = Some a. Proof. reflexivity. Qed.
Lemma rd2 a0 a1 a l : rd (a0 :: a1 :: a :: l) 2 = Some a. Proof. reflexivity. Qed.
Lemma rd3 a0 a1 a2 a l : rd (a0 :: a1 :: a2 :: a :: l) 3 = Some a. Proof. reflexivity. Qed.
Lemma rd4 a0 a1 a2 a3 a l : rd (a0 :: a1 :: a2 :: a3 :: a :: l) 4 = Some a. Proof. reflexivity. Qed.
Lemma rd5 a0 a1 a2 a3 a4 a l : rd (a0 :: a1 :: a2 :: a3 :: a4 :: a :: l) 5 = Some a. Proof. reflexivity. Qed.
Lemma rd6 a0 a1 a2 a3 a4 a5 a l : rd (a0 :: a1 :: a2 :: a3 :: a4 :: a5 :: a :: l) 6 = Some a. Proof. reflexivity. Qed.
Lemma rd7 a0 a1 a2 a3 a4 a5 a6 a l : rd (a0 :: a1 :: a2 :: a3 :: a4 :: a5 :: a6 :: a :: l) 7 = Some a. Proof. reflexivity. Qed.
Lemma rd8 a0 a1 a2 a3 a4 a5 a6 a7 a l : rd (a0 :: a1 :: a2 :: a3 :: a4 :: a5 :: a6 :: a7 :: a :: l) 8 = Some a. Proof. reflexivity. Qed.
Lemma rd9 a0 a1 a2 a3 a4 a5 a6 a7 a8 a l : rd (a0 :: a1 :: a2 :: a3 :: a4 :: a5 :: a6 :: a7 :: a8 :: a :: l) 9 = Some a. Proof. reflexivity. Qed.
Lemma rd10 a0 a1 a2 a3 a4 a5 a6 a7 a8 a9 a l : rd (a0 :: a1 :: a2 :: a3 :: a4 :: a5 :: a6 :: a7 :: a8 :: a9 :: a :: l) 10 = Some a. Proof. reflexivity. Qed.
Lemma rd11 a0 a1 a2 a3 a4 a5 a6 a7 a8 a9 a10 a l : rd (a0 :: a1 :: a2 :: a3 :: a4 :: a5 :: a6 :: a7 :: a8 :: a9 :: a10 :: a :: l) 11 = Some a. Proof. reflexivity. Qed.

Lemma take_app_len {A} (a b : list A) : take (len a) (a ++ b) = a.
Proof.
  unfold take, len. rewrite Nat2N.id, firstn_app, firstn_all, Nat.sub_diag. cbn. apply app_nil_r.
Qed.

Lemma drop_app_len {A} (a b : list A) : drop (len a) (a ++ b) = b.
Proof.
  unfold drop, len. rewrite Nat2N.id, skipn_app, skipn_all, Nat.sub_diag. reflexivity.
Qed.

Lemma take_app_eq {A} n (a b : list A) : n = len a -> take n (a ++ b) = a.
Proof. intros ->. apply take_app_len. Qed.

Lemma drop_app_eq {A} n (a b : list A) : n = len a -> drop n (a ++ b) = b.
Proof. intros ->. apply drop_app_len. Qed.

Lemma slice_from_app (a b : bytes) : slice_from (a ++ b) (len a) = Some b.
Proof.
  unfold slice_from. rewrite len_app.
  destruct (len a <=? len a + len b) eqn:E; [|lia]. now rewrite drop_app_len.
Qed.

(* ------------------------------------------------------------------ *)
(* which arm a number takes *)

Lemma is_ext_number_false n :
  is_ext_number n = false <->
  (n =? 0) = false /\ (n =? 60) = false /\ (n =? 43) = false /\ (n =? 44) = false /\ (n =? 51) = false.
Proof.
  unfold is_ext_number. cbn [map rfc8200_order ip_number_of existsb].
  rewrite !orb_false_iff. tauto.
Qed.

Lemma arm_of_other n : is_ext_number n = false -> arm_of n = AOther.
Proof.
  rewrite is_ext_number_false. intros (H0 & H60 & H43 & H44 & H51).
  unfold arm_of, IPV6_HOP_BY_HOP, IPV6_DEST_OPTIONS, IPV6_ROUTE, IPV6_FRAG, AUTH.
  now rewrite H0, H60, H43, H44, H51.
Qed.

Lemma arm_of_cases n :
  (arm_of n = AHop /\ n = IPV6_HOP_BY_HOP) \/
  (arm_of n = ADest /\ n = IPV6_DEST_OPTIONS) \/
  (arm_of n = ARoute /\ n = IPV6_ROUTE) \/
  (arm_of n = AFrag /\ n = IPV6_FRAG) \/
  (arm_of n = AAuth /\ n = AUTH) \/
  (arm_of n = AOther /\ is_ext_number n = false).
Proof.
  unfold arm_of, IPV6_HOP_BY_HOP, IPV6_DEST_OPTIONS, IPV6_ROUTE, IPV6_FRAG, AUTH.
  destruct (n =? 0) eqn:E0; [left; split; [reflexivity|lia]|].
  destruct (n =? 60) eqn:E60; [right; left; split; [reflexivity|lia]|].
  destruct (n =? 43) eqn:E43; [right; right; left; split; [reflexivity|lia]|].
  destruct (n =? 44) eqn:E44; [right; right; right; left; split; [reflexivity|lia]|].
  destruct (n =? 51) eqn:E51; [right; right; right; right; left; split; [reflexivity|lia]|].
  right; right; right; right; right. split; [reflexivity|].
  apply is_ext_number_false. auto.
Qed.

Lemma arm_hop : arm_of IPV6_HOP_BY_HOP = AHop. Proof. reflexivity. Qed.
Lemma arm_dest : arm_of IPV6_DEST_OPTIONS = ADest. Proof. reflexivity. Qed.
Lemma arm_route : arm_of IPV6_ROUTE = ARoute. Proof. reflexivity. Qed.
Lemma arm_frag : arm_of IPV6_FRAG = AFrag. Proof. reflexivity. Qed.
Lemma arm_auth : arm_of AUTH = AAuth. Proof. reflexivity. Qed.

Lemma ext_hop : is_ext_number IPV6_HOP_BY_HOP = true. Proof. reflexivity. Qed.
Lemma ext_dest : is_ext_number IPV6_DEST_OPTIONS = true. Proof. reflexivity. Qed.
Lemma ext_route : is_ext_number IPV6_ROUTE = true. Proof. reflexivity. Qed.
Lemma ext_frag : is_ext_number IPV6_FRAG = true. Proof. reflexivity. Qed.
Lemma ext_auth : is_ext_number AUTH = true. Proof. reflexivity. Qed.

(* ------------------------------------------------------------------ *)
(* big-endian 32 bit *)

Lemma be32_to_be32 v : v < 4294967296 ->
  be32 ((v / 16777216) mod 256) ((v / 65536) mod 256) ((v / 256) mod 256) (v mod 256) = v.
Proof.
  intros Hv. unfold be32.
  pose proof (N.div_mod v 256 ltac:(lia)) as E1.
  pose proof (N.mod_lt v 256 ltac:(lia)) as L1.
  set (q1 := v / 256) in *. set (r1 := v mod 256) in *.
  pose proof (N.div_mod q1 256 ltac:(lia)) as E2.
  pose proof (N.mod_lt q1 256 ltac:(lia)) as L2.
  assert (Hq2 : v / 65536 = q1 / 256).
  { unfold q1. rewrite N.div_div by lia. reflexivity. }
  rewrite Hq2.
  set (q2 := q1 / 256) in *. set (r2 := q1 mod 256) in *.
  pose proof (N.div_mod q2 256 ltac:(lia)) as E3.
  pose proof (N.mod_lt q2 256 ltac:(lia)) as L3.
  assert (Hq3 : v / 16777216 = q2 / 256).
  { unfold q2, q1. rewrite !N.div_div by lia. reflexivity. }
  rewrite Hq3.
  set (q3 := q2 / 256) in *. set (r3 := q2 mod 256) in *.
  assert (q3 < 256) by lia.
  rewrite (N.mod_small q3 256) by lia. lia.
Qed.

Lemma wire_u32_to_be32 v : v < 4294967296 -> to_be32 v = wire_u32 v.
Proof.
  intros Hv. unfold to_be32, wire_u32. f_equal.
  apply N.mod_small. apply N.div_lt_upper_bound; lia.
Qed.

(* ------------------------------------------------------------------ *)
(* fragment offset / more-fragments word: all 2 * 8192 values *)

Definition fo_enc (off : N) (more : bool) : N :=
  N.lor ((N.shiftl off 3) mod 65536) (if more then 1 else 0).

Definition fo_check1 (off : N) (more : bool) : bool :=
  let fo := fo_enc off more in
  let w := off * 8 + (if more then 1 else 0) in
  (N.shiftr (be16 ((fo / 256) mod 256) (fo mod 256)) 3 =? off)
  && Bool.eqb (negb (N.land (fo mod 256) 1 =? 0)) more
  && ((fo / 256) mod 256 =? w / 256) && (fo mod 256 =? w mod 256).

Definition fo_check (off : N) : bool := fo_check1 off true && fo_check1 off false.

Lemma fo_sweep : forallb fo_check (map N.of_nat (seq 0 (N.to_nat 8192))) = true.
Proof. vm_compute. reflexivity. Qed.

Lemma fo_ok off more : off < 8192 -> fo_check1 off more = true.
Proof.
  intros H. pose proof fo_sweep as S. rewrite forallb_forall in S.
  assert (I : In off (map N.of_nat (seq 0 (N.to_nat 8192)))).
  { rewrite <- (N2Nat.id off). apply in_map. apply in_seq. lia. }
  specialize (S off I). unfold fo_check in S. apply andb_true_iff in S.
  destruct more; tauto.
Qed.

(* ------------------------------------------------------------------ *)
(* the three header codecs: to_bytes then from_slice gives the header back *)

Lemma raw_valid_inv h : raw_valid h = true ->
  r_next_header h < 256 /\ r_header_length h < 256 /\
  len (r_payload h) = 6 + r_header_length h * 8 /\ bytes_ok (r_payload h).
Proof.
  unfold raw_valid. rewrite !andb_true_iff, bytes_okb_spec, !N.ltb_lt, N.eqb_eq. tauto.
Qed.

Lemma raw_to_bytes_valid h : raw_valid h = true ->
  raw_to_bytes h = Some (r_next_header h :: r_header_length h :: r_payload h).
Proof.
  intros V. apply raw_valid_inv in V. destruct V as (_ & Hl & Hp & _).
  unfold raw_to_bytes, RAW_MAX_LEN. destruct (2 + len (r_payload h) <=? 2048) eqn:E; [reflexivity|lia].
Qed.

Lemma raw_to_bytes_len h bs : raw_valid h = true -> raw_to_bytes h = Some bs -> len bs = raw_header_len h.
Proof.
  intros V E. rewrite raw_to_bytes_valid in E by assumption. inversion E; subst bs.
  apply raw_valid_inv in V. destruct V as (_ & _ & Hp & _).
  rewrite !len_cons, Hp. unfold raw_header_len. lia.
Qed.

Lemma raw_wire h : raw_valid h = true ->
  raw_to_bytes h = Some (wire_options_header (r_next_header h) (r_payload h)).
Proof.
  intros V. rewrite raw_to_bytes_valid by assumption.
  apply raw_valid_inv in V. destruct V as (_ & Hl & Hp & _).
  unfold wire_options_header. rewrite Hp. do 3 f_equal. dmlia.
Qed.

Lemma raw_new_raw_valid h : raw_valid h = true -> @raw_new_raw (r_next_header h) (r_payload h) = Ok h.
Proof.
  intros V. apply raw_valid_inv in V. destruct V as (_ & Hl & Hp & _).
  unfold raw_new_raw, RAW_MIN_PAYLOAD_LEN, RAW_MAX_PAYLOAD_LEN. rewrite Hp.
  destruct (6 + r_header_length h * 8 <? 6) eqn:E1; [lia|].
  destruct (2046 <? 6 + r_header_length h * 8) eqn:E2; [lia|].
  assert (E3 : ((6 + r_header_length h * 8 + 2) mod 8 =? 0) = true) by (apply N.eqb_eq; dmlia).
  rewrite E3. cbn [negb].
  assert (E4 : ((6 + r_header_length h * 8 - 6) / 8) mod 256 = r_header_length h) by dmlia.
  rewrite E4. destruct h; reflexivity.
Qed.

Lemma read_raw_written h wo slice r : raw_valid h = true ->
  read_raw wo slice ((r_next_header h :: r_header_length h :: r_payload h) ++ r)
  = Ok (h, r_next_header h, r).
Proof.
  intros V. pose proof (raw_valid_inv h V) as (_ & Hl & Hp & _).
  set (tb := r_next_header h :: r_header_length h :: r_payload h).
  assert (Ltb : len tb = (r_header_length h + 1) * 8).
  { unfold tb. rewrite !len_cons, Hp. lia. }
  unfold read_raw, raw_slice_from_slice.
  rewrite len_app, Ltb.
  destruct ((r_header_length h + 1) * 8 + len r <? 8) eqn:E1; [lia|].
  unfold tb at 1. cbn [app]. rewrite rd1.
  destruct ((r_header_length h + 1) * 8 + len r <? (r_header_length h + 1) * 8) eqn:E2; [lia|].
  change (r_next_header h :: r_header_length h :: r_payload h ++ r) with (tb ++ r).
  rewrite (take_app_eq _ tb r) by (symmetry; exact Ltb).
  rewrite slice_from_app.
  unfold raw_slice_next_header. unfold tb at 1. rewrite rd0.
  unfold raw_slice_to_header, raw_slice_next_header, raw_slice_payload, usize_sub.
  unfold tb at 1. rewrite rd0. rewrite Ltb.
  destruct (2 <=? (r_header_length h + 1) * 8) eqn:E3; [|lia].
  change (drop 2 tb) with (r_payload h).
  rewrite raw_new_raw_valid by assumption. reflexivity.
Qed.

Lemma frag_valid_inv h : frag_valid h = true ->
  f_next_header h < 256 /\ f_fragment_offset h < 8192 /\ f_identification h < 4294967296.
Proof. unfold frag_valid. rewrite !andb_true_iff, !N.ltb_lt. tauto. Qed.

Lemma frag_to_bytes_len h : len (frag_to_bytes h) = frag_header_len h.
Proof. reflexivity. Qed.

Lemma frag_wire h : frag_valid h = true ->
  frag_to_bytes h =
  wire_fragment_header (f_next_header h) (f_fragment_offset h) (f_more_fragments h) (f_identification h).
Proof.
  intros V. apply frag_valid_inv in V. destruct V as (_ & Ho & Hi).
  pose proof (fo_ok (f_fragment_offset h) (f_more_fragments h) Ho) as C.
  unfold fo_check1 in C. rewrite !andb_true_iff in C. destruct C as [[[_ _] C3] C4].
  apply N.eqb_eq in C3, C4. unfold fo_enc in C3, C4.
  unfold frag_to_bytes, wire_fragment_header, to_be16.
  rewrite wire_u32_to_be32 by assumption. cbn [app]. rewrite C3, C4. reflexivity.
Qed.

Lemma read_frag_written h slice r : frag_valid h = true ->
  read_frag slice (frag_to_bytes h ++ r) = Ok (h, f_next_header h, r).
Proof.
  intros V. apply frag_valid_inv in V. destruct V as (_ & Ho & Hi).
  pose proof (fo_ok (f_fragment_offset h) (f_more_fragments h) Ho) as C.
  unfold fo_check1 in C. rewrite !andb_true_iff in C. destruct C as [[[C1 C2] _] _].
  apply N.eqb_eq in C1. apply eqb_prop in C2. unfold fo_enc in C1, C2.
  unfold read_frag, frag_slice_from_slice.
  assert (L8 : len (frag_to_bytes h) = 8) by reflexivity.
  rewrite len_app, L8.
  destruct (8 + len r <? 8) eqn:E1; [lia|].
  rewrite (take_app_eq 8 (frag_to_bytes h) r) by (symmetry; exact L8).
  rewrite L8. rewrite <- L8 at 1. rewrite slice_from_app.
  unfold frag_slice_to_header, frag_to_bytes, to_be16, to_be32. cbn [app].
  rewrite rd0, rd2, rd3, rd4, rd5, rd6, rd7. cbn [bind].
  rewrite C1, C2, be32_to_be32 by assumption. destruct h; reflexivity.
Qed.

Lemma auth_valid_inv h : auth_valid h = true ->
  a_next_header h < 256 /\ a_spi h < 4294967296 /\ a_sequence_number h < 4294967296 /\
  a_raw_icv_len h < 255 /\ len (a_raw_icv h) = a_raw_icv_len h * 4 /\ bytes_ok (a_raw_icv h).
Proof. unfold auth_valid. rewrite !andb_true_iff, bytes_okb_spec, !N.ltb_lt, N.eqb_eq. tauto. Qed.

Definition auth_bytes (h : AuthH) : bytes :=
  [a_next_header h; a_raw_icv_len h + 1; 0; 0]
    ++ to_be32 (a_spi h) ++ to_be32 (a_sequence_number h) ++ a_raw_icv h.

Lemma auth_to_bytes_valid h : auth_valid h = true -> auth_to_bytes h = Some (auth_bytes h).
Proof.
  intros V. apply auth_valid_inv in V. destruct V as (_ & _ & _ & Hl & _).
  unfold auth_to_bytes. destruct (a_raw_icv_len h + 1 <? 256) eqn:E; [reflexivity|lia].
Qed.

Lemma auth_bytes_len h : auth_valid h = true -> len (auth_bytes h) = auth_header_len h.
Proof.
  intros V. apply auth_valid_inv in V. destruct V as (_ & _ & _ & _ & Hi & _).
  unfold auth_bytes, to_be32. cbn [app]. rewrite !len_cons, Hi. unfold auth_header_len. lia.
Qed.

Lemma auth_to_bytes_len h bs : auth_valid h = true -> auth_to_bytes h = Some bs -> len bs = auth_header_len h.
Proof.
  intros V E. rewrite auth_to_bytes_valid in E by assumption. inversion E. now apply auth_bytes_len.
Qed.

Lemma auth_wire h : auth_valid h = true ->
  auth_bytes h = wire_auth_header (a_next_header h) (a_spi h) (a_sequence_number h) (a_raw_icv h).
Proof.
  intros V. apply auth_valid_inv in V. destruct V as (_ & Hs & Hq & Hl & Hi & _).
  unfold auth_bytes, wire_auth_header. rewrite !wire_u32_to_be32 by assumption.
  rewrite Hi. cbn [app]. do 2 f_equal. dmlia.
Qed.

Lemma auth_new_valid h : auth_valid h = true ->
  @auth_new (a_next_header h) (a_spi h) (a_sequence_number h) (a_raw_icv h) = Ok h.
Proof.
  intros V. apply auth_valid_inv in V. destruct V as (_ & _ & _ & Hl & Hi & _).
  unfold auth_new, AUTH_MAX_ICV_LEN. rewrite Hi.
  destruct (1016 <? a_raw_icv_len h * 4) eqn:E1; [lia|].
  assert (E2 : ((a_raw_icv_len h * 4) mod 4 =? 0) = true) by (apply N.eqb_eq; dmlia).
  rewrite E2. cbn [negb].
  assert (E3 : (a_raw_icv_len h * 4 / 4) mod 256 = a_raw_icv_len h) by dmlia.
  rewrite E3. destruct h; reflexivity.
Qed.

Lemma auth_slice_written h r : auth_valid h = true ->
  auth_slice_from_slice (auth_bytes h ++ r) = Ok (auth_bytes h).
Proof.
  intros V. pose proof (auth_bytes_len h V) as L. unfold auth_header_len in L.
  apply auth_valid_inv in V. destruct V as (_ & _ & _ & Hl & Hi & _).
  unfold auth_slice_from_slice, AUTH_MIN_LEN. rewrite len_app, L.
  destruct (12 + a_raw_icv_len h * 4 + len r <? 12) eqn:E1; [lia|].
  unfold auth_bytes at 1. cbn [app]. rewrite rd1.
  destruct (a_raw_icv_len h + 1 <? 1) eqn:E2; [lia|].
  destruct (12 + a_raw_icv_len h * 4 + len r <? (a_raw_icv_len h + 1 + 2) * 4) eqn:E3; [lia|].
  f_equal. apply (take_app_eq _ (auth_bytes h) r). lia.
Qed.

Lemma auth_slice_to_header_written {E} h : auth_valid h = true ->
  @auth_slice_to_header E (auth_bytes h) = Ok h.
Proof.
  intros V. pose proof (auth_valid_inv h V) as (_ & Hs & Hq & Hl & Hi & _).
  unfold auth_slice_to_header.
  assert (S12 : slice_from (auth_bytes h) 12 = Some (a_raw_icv h)).
  { unfold auth_bytes, to_be32. cbn [app].
    change 12 with (len [a_next_header h; a_raw_icv_len h + 1; 0; 0;
      (a_spi h / 16777216) mod 256; (a_spi h / 65536) mod 256; (a_spi h / 256) mod 256; a_spi h mod 256;
      (a_sequence_number h / 16777216) mod 256; (a_sequence_number h / 65536) mod 256;
      (a_sequence_number h / 256) mod 256; a_sequence_number h mod 256]).
    apply (slice_from_app [_;_;_;_;_;_;_;_;_;_;_;_]). }
  rewrite S12.
  unfold auth_bytes, to_be32. cbn [app].
  rewrite rd0, rd4, rd5, rd6, rd7, rd8, rd9, rd10, rd11.
  rewrite !be32_to_be32 by assumption.
  rewrite auth_new_valid by assumption. reflexivity.
Qed.

Lemma read_auth_written h slice r : auth_valid h = true ->
  read_auth slice (auth_bytes h ++ r) = Ok (h, a_next_header h, r).
Proof.
  intros V. unfold read_auth. rewrite auth_slice_written by assumption.
  rewrite slice_from_app.
  unfold auth_slice_next_header. unfold auth_bytes at 1. cbn [app]. rewrite rd0.
  rewrite auth_slice_to_header_written by assumption. reflexivity.
Qed.

(* ------------------------------------------------------------------ *)
(* flags *)

(* a flag that is still set belongs to a header that exists *)
Definition flags_ok (e : Exts6) (f : Flags) : Prop :=
  (fl_hop_by_hop_options f = true -> is_some (hop_by_hop_options e) = true) /\
  (fl_destination_options f = true -> is_some (destination_options e) = true) /\
  (fl_routing f = true -> is_some (routing e) = true) /\
  (fl_fragment f = true -> is_some (fragment e) = true) /\
  (fl_auth f = true -> is_some (auth e) = true) /\
  (fl_final_destination_options f = true ->
   exists r, routing e = Some r /\ is_some (rt_final_destination_options r) = true).

Lemma flags_ok_init e : flags_ok e (flags_init e).
Proof.
  unfold flags_ok, flags_init. cbn. repeat split; auto.
  destruct (routing e) as [r|]; [|discriminate]. intros H. eauto.
Qed.

Lemma flags_ok_clr_hop e f : flags_ok e f -> flags_ok e (clr_hop f).
Proof. unfold flags_ok, clr_hop; cbn. intuition discriminate. Qed.
Lemma flags_ok_clr_dst e f : flags_ok e f -> flags_ok e (clr_dst f).
Proof. unfold flags_ok, clr_dst; cbn. intuition discriminate. Qed.
Lemma flags_ok_clr_routing e f : flags_ok e f -> flags_ok e (clr_routing f).
Proof. unfold flags_ok, clr_routing; cbn. intuition discriminate. Qed.
Lemma flags_ok_clr_frag e f : flags_ok e f -> flags_ok e (clr_frag f).
Proof. unfold flags_ok, clr_frag; cbn. intuition discriminate. Qed.
Lemma flags_ok_clr_auth e f : flags_ok e f -> flags_ok e (clr_auth f).
Proof. unfold flags_ok, clr_auth; cbn. intuition discriminate. Qed.
Lemma flags_ok_clr_final e f : flags_ok e f -> flags_ok e (clr_final f).
Proof. unfold flags_ok, clr_final; cbn. intuition discriminate. Qed.

(* number of flags the loop can still clear *)
Definition b2n (b : bool) : nat := if b then 1%nat else 0%nat.
Definition pending (f : Flags) : nat :=
  (b2n (fl_destination_options f) + b2n (fl_routing f) + b2n (fl_fragment f)
   + b2n (fl_auth f) + b2n (fl_final_destination_options f))%nat.

Lemma pending_le5 f : (pending f <= 5)%nat.
Proof. destruct f as [[] [] [] [] [] []]; cbn; lia. Qed.

Lemma pending_clr_hop f : pending (clr_hop f) = pending f.
Proof. reflexivity. Qed.

Lemma pending_clr_dst f : fl_destination_options f = true -> (pending (clr_dst f) < pending f)%nat.
Proof. destruct f as [[] [] [] [] [] []]; cbn; intros; try discriminate; lia. Qed.
Lemma pending_clr_routing f : fl_routing f = true -> (pending (clr_routing f) < pending f)%nat.
Proof. destruct f as [[] [] [] [] [] []]; cbn; intros; try discriminate; lia. Qed.
Lemma pending_clr_frag f : fl_fragment f = true -> (pending (clr_frag f) < pending f)%nat.
Proof. destruct f as [[] [] [] [] [] []]; cbn; intros; try discriminate; lia. Qed.
Lemma pending_clr_auth f : fl_auth f = true -> (pending (clr_auth f) < pending f)%nat.
Proof. destruct f as [[] [] [] [] [] []]; cbn; intros; try discriminate; lia. Qed.
Lemma pending_clr_final f : fl_final_destination_options f = true -> (pending (clr_final f) < pending f)%nat.
Proof. destruct f as [[] [] [] [] [] []]; cbn; intros; try discriminate; lia. Qed.

(* validity of the parts *)
Lemma exts6_valid_inv e : exts6_valid e = true ->
  opt_valid raw_valid (hop_by_hop_options e) = true /\
  opt_valid raw_valid (destination_options e) = true /\
  opt_valid routing_valid (routing e) = true /\
  opt_valid frag_valid (fragment e) = true /\
  opt_valid auth_valid (auth e) = true.
Proof. unfold exts6_valid. rewrite !andb_true_iff. tauto. Qed.

Lemma routing_valid_inv r : routing_valid r = true ->
  raw_valid (rt_routing r) = true /\ opt_valid raw_valid (rt_final_destination_options r) = true.
Proof. unfold routing_valid. rewrite andb_true_iff. tauto. Qed.

(* forgetting the value of an Ok *)
Definition forget {E A} (r : res E A) : res E unit :=
  match r with Ok _ => Ok tt | Err e => Err e | Panic => Panic | OutOfFuel => OutOfFuel end.

Lemma forget_check_all_done {A} f (a : A) : forget (check_all_done f a) = check_all_done f tt.
Proof. unfold check_all_done. destruct f as [[] [] [] [] [] []]; reflexivity. Qed.

(* ------------------------------------------------------------------ *)
(* write_internal and next_header take the same path *)

Lemma write_walk_same fuel : forall e nw next rw w,
  exts6_valid e = true ->
  snd (write_loop fuel e nw next rw w) = forget (next_header_loop fuel e nw next rw).
Proof.
  induction fuel as [|fuel IH]; intros e nw next rw w V; [reflexivity|].
  pose proof (exts6_valid_inv e V) as (Vh & Vd & Vr & Vf & Va).
  cbn [write_loop next_header_loop].
  destruct (arm_of next).
  - destruct (fl_hop_by_hop_options nw); [reflexivity|].
    cbn [snd]. now rewrite forget_check_all_done.
  - destruct rw.
    + destruct (fl_final_destination_options nw).
      * destruct (routing e) as [r|]; [|reflexivity].
        destruct (rt_final_destination_options r) as [h|] eqn:Ef; [|reflexivity].
        cbn [opt_valid] in Vr. apply routing_valid_inv in Vr. destruct Vr as [_ Vfin].
        rewrite Ef in Vfin. cbn [opt_valid] in Vfin.
        rewrite raw_to_bytes_valid by assumption. apply IH; assumption.
      * cbn [snd]. now rewrite forget_check_all_done.
    + destruct (fl_destination_options nw).
      * destruct (destination_options e) as [h|]; [|reflexivity].
        cbn [opt_valid] in Vd. rewrite raw_to_bytes_valid by assumption. apply IH; assumption.
      * cbn [snd]. now rewrite forget_check_all_done.
  - destruct (fl_routing nw).
    + destruct (routing e) as [r|]; [|reflexivity].
      cbn [opt_valid] in Vr. apply routing_valid_inv in Vr. destruct Vr as [Vrt _].
      rewrite raw_to_bytes_valid by assumption. apply IH; assumption.
    + cbn [snd]. now rewrite forget_check_all_done.
  - destruct (fl_fragment nw).
    + destruct (fragment e) as [h|]; [|reflexivity]. apply IH; assumption.
    + cbn [snd]. now rewrite forget_check_all_done.
  - destruct (fl_auth nw).
    + destruct (auth e) as [h|]; [|reflexivity].
      cbn [opt_valid] in Va. rewrite auth_to_bytes_valid by assumption. apply IH; assumption.
    + cbn [snd]. now rewrite forget_check_all_done.
  - cbn [snd]. now rewrite forget_check_all_done.
Qed.

(* the walk ends regularly: no unwrap on None, the fuel is never used up *)
Definition regular {E A} (r : res E A) : Prop :=
  match r with Ok _ | Err _ => True | Panic | OutOfFuel => False end.

Lemma regular_check_all_done {A} f (a : A) : regular (check_all_done f a).
Proof. unfold check_all_done. destruct f as [[] [] [] [] [] []]; exact I. Qed.

Lemma next_header_loop_regular fuel : forall e f next rr,
  flags_ok e f -> (pending f < fuel)%nat -> regular (next_header_loop fuel e f next rr).
Proof.
  induction fuel as [|fuel IH]; intros e f next rr FO P; [lia|].
  pose proof FO as (F1 & F2 & F3 & F4 & F5 & F6).
  cbn [next_header_loop].
  destruct (arm_of next).
  - destruct (fl_hop_by_hop_options f); [exact I|apply regular_check_all_done].
  - destruct rr.
    + destruct (fl_final_destination_options f) eqn:Ef; [|apply regular_check_all_done].
      destruct (F6 eq_refl) as (r & Er & Hr). rewrite Er.
      destruct (rt_final_destination_options r) as [h|]; [|discriminate].
      apply IH.
      * apply flags_ok_clr_final, FO.
      * pose proof (pending_clr_final f Ef) as PP. clear - PP P. lia.
    + destruct (fl_destination_options f) eqn:Ef; [|apply regular_check_all_done].
      specialize (F2 eq_refl). destruct (destination_options e) as [h|]; [|discriminate].
      apply IH.
      * apply flags_ok_clr_dst, FO.
      * pose proof (pending_clr_dst f Ef) as PP. clear - PP P. lia.
  - destruct (fl_routing f) eqn:Ef; [|apply regular_check_all_done].
    specialize (F3 eq_refl). destruct (routing e) as [r|]; [|discriminate].
    apply IH.
    + apply flags_ok_clr_routing, FO.
    + pose proof (pending_clr_routing f Ef) as PP. clear - PP P. lia.
  - destruct (fl_fragment f) eqn:Ef; [|apply regular_check_all_done].
    specialize (F4 eq_refl). destruct (fragment e) as [h|]; [|discriminate].
    apply IH.
    + apply flags_ok_clr_frag, FO.
    + pose proof (pending_clr_frag f Ef) as PP. clear - PP P. lia.
  - destruct (fl_auth f) eqn:Ef; [|apply regular_check_all_done].
    specialize (F5 eq_refl). destruct (auth e) as [h|]; [|discriminate].
    apply IH.
    + apply flags_ok_clr_auth, FO.
    + pose proof (pending_clr_auth f Ef) as PP. clear - PP P. lia.
  - apply regular_check_all_done.
Qed.

Lemma next_header_regular e first : regular (next_header e first).
Proof.
  unfold next_header, LOOP_FUEL.
  destruct (IPV6_HOP_BY_HOP =? first).
  - destruct (hop_by_hop_options e) as [h|].
    + apply next_header_loop_regular.
      * apply flags_ok_clr_hop, flags_ok_init.
      * rewrite pending_clr_hop. pose proof (pending_le5 (flags_init e)). lia.
    + apply next_header_loop_regular; [apply flags_ok_init|].
      pose proof (pending_le5 (flags_init e)). lia.
  - apply next_header_loop_regular; [apply flags_ok_init|].
    pose proof (pending_le5 (flags_init e)). lia.
Qed.

Lemma write_next_header_same e first : exts6_valid e = true ->
  snd (write e first) = forget (next_header e first).
Proof.
  intros V. unfold write, next_header.
  destruct (IPV6_HOP_BY_HOP =? first).
  - destruct (hop_by_hop_options e) as [h|] eqn:Eh.
    + pose proof (exts6_valid_inv e V) as (Vh & _). rewrite Eh in Vh. cbn [opt_valid] in Vh.
      rewrite raw_to_bytes_valid by assumption. now apply write_walk_same.
    + now apply write_walk_same.
  - now apply write_walk_same.
Qed.

(* C12_write_iff_walk *)
Theorem write_iff_walk e first : exts6_valid e = true ->
  match next_header e first with
  | Ok n => snd (write e first) = Ok tt
  | Err x => snd (write e first) = Err x
  | Panic | OutOfFuel => False
  end.
Proof.
  intros V. pose proof (write_next_header_same e first V) as S.
  pose proof (next_header_regular e first) as R.
  destruct (next_header e first); cbn in *; auto.
Qed.

(* ------------------------------------------------------------------ *)
(* bytes written = header_len *)

Definition opt_len {A} (l : A -> N) (o : option A) : N :=
  match o with Some a => l a | None => 0 end.

Definition pending_len (e : Exts6) (f : Flags) : N :=
  (if fl_hop_by_hop_options f then opt_len raw_header_len (hop_by_hop_options e) else 0)
  + (if fl_destination_options f then opt_len raw_header_len (destination_options e) else 0)
  + (if fl_routing f then opt_len (fun r => raw_header_len (rt_routing r)) (routing e) else 0)
  + (if fl_fragment f then opt_len frag_header_len (fragment e) else 0)
  + (if fl_auth f then opt_len auth_header_len (auth e) else 0)
  + (if fl_final_destination_options f
     then opt_len (fun r => opt_len raw_header_len (rt_final_destination_options r)) (routing e)
     else 0).

Lemma check_all_done_ok {A} f (a b : A) : check_all_done f a = Ok b ->
  a = b /\ f = mkFlags false false false false false false.
Proof.
  unfold check_all_done. destruct f as [[] [] [] [] [] []]; cbn; try discriminate.
  intros H; inversion H; auto.
Qed.

Lemma write_loop_len fuel : forall e nw next rw w bs,
  exts6_valid e = true ->
  write_loop fuel e nw next rw w = (bs, Ok tt) ->
  len bs = len w + pending_len e nw.
Proof.
  induction fuel as [|fuel IH]; intros e nw next rw w bs V W; [discriminate|].
  pose proof (exts6_valid_inv e V) as (Vh & Vd & Vr & Vf & Va).
  cbn [write_loop] in W.
  assert (Done : forall w', (w', @check_all_done unit nw tt) = (bs, Ok tt) -> len bs = len w' + pending_len e nw).
  { intros w' H. inversion H as [[H1 H2]]. apply check_all_done_ok in H2. destruct H2 as [_ ->].
    unfold pending_len. cbn. lia. }
  destruct (arm_of next).
  - destruct (fl_hop_by_hop_options nw); [discriminate|]. now apply Done.
  - destruct rw.
    + destruct (fl_final_destination_options nw) eqn:Ef; [|now apply Done].
      destruct (routing e) as [r|] eqn:Er; [|discriminate].
      destruct (rt_final_destination_options r) as [h|] eqn:Eh; [|discriminate].
      cbn [opt_valid] in Vr. apply routing_valid_inv in Vr. destruct Vr as [_ Vfin].
      rewrite Eh in Vfin. cbn [opt_valid] in Vfin.
      destruct (raw_to_bytes h) as [tb|] eqn:Et; [|discriminate].
      apply IH in W; [|assumption]. rewrite W, len_app, (raw_to_bytes_len h tb) by assumption.
      unfold pending_len, clr_final. cbn. rewrite Ef, Er. cbn. rewrite Eh. cbn. lia.
    + destruct (fl_destination_options nw) eqn:Ef; [|now apply Done].
      destruct (destination_options e) as [h|] eqn:Eh; [|discriminate].
      cbn [opt_valid] in Vd.
      destruct (raw_to_bytes h) as [tb|] eqn:Et; [|discriminate].
      apply IH in W; [|assumption]. rewrite W, len_app, (raw_to_bytes_len h tb) by assumption.
      unfold pending_len, clr_dst. cbn. rewrite Ef, Eh. cbn. lia.
  - destruct (fl_routing nw) eqn:Ef; [|now apply Done].
    destruct (routing e) as [r|] eqn:Er; [|discriminate].
    cbn [opt_valid] in Vr. apply routing_valid_inv in Vr. destruct Vr as [Vrt _].
    destruct (raw_to_bytes (rt_routing r)) as [tb|] eqn:Et; [|discriminate].
    apply IH in W; [|assumption]. rewrite W, len_app, (raw_to_bytes_len (rt_routing r) tb) by assumption.
    unfold pending_len, clr_routing. cbn. rewrite Ef, Er. cbn. lia.
  - destruct (fl_fragment nw) eqn:Ef; [|now apply Done].
    destruct (fragment e) as [h|] eqn:Eh; [|discriminate].
    apply IH in W; [|assumption]. rewrite W, len_app, frag_to_bytes_len.
    unfold pending_len, clr_frag. cbn. rewrite Ef, Eh. cbn. lia.
  - destruct (fl_auth nw) eqn:Ef; [|now apply Done].
    destruct (auth e) as [h|] eqn:Eh; [|discriminate].
    cbn [opt_valid] in Va.
    destruct (auth_to_bytes h) as [tb|] eqn:Et; [|discriminate].
    apply IH in W; [|assumption]. rewrite W, len_app, (auth_to_bytes_len h tb) by assumption.
    unfold pending_len, clr_auth. cbn. rewrite Ef, Eh. cbn. lia.
  - now apply Done.
Qed.

Lemma pending_len_init e : pending_len e (flags_init e) = header_len e.
Proof.
  unfold pending_len, flags_init, header_len. cbn.
  destruct (hop_by_hop_options e), (destination_options e), (routing e) as [[rt [fd|]]|],
    (fragment e), (auth e); cbn; lia.
Qed.

(* C12_write_len *)
Theorem write_len e first bs : exts6_valid e = true ->
  write e first = (bs, Ok tt) -> len bs = header_len e.
Proof.
  intros V W. unfold write in W. rewrite <- pending_len_init.
  destruct (IPV6_HOP_BY_HOP =? first).
  - destruct (hop_by_hop_options e) as [h|] eqn:Eh.
    + pose proof (exts6_valid_inv e V) as (Vh & _). rewrite Eh in Vh. cbn [opt_valid] in Vh.
      destruct (raw_to_bytes h) as [tb|] eqn:Et; [|discriminate].
      apply write_loop_len in W; [|assumption]. rewrite W, (raw_to_bytes_len h tb) by assumption.
      unfold pending_len, clr_hop, flags_init. cbn. rewrite Eh. cbn. lia.
    + apply write_loop_len in W; [|assumption]. rewrite W. cbn. lia.
  - apply write_loop_len in W; [|assumption]. rewrite W. cbn. lia.
Qed.

(* ------------------------------------------------------------------ *)
(* from_slice on the written bytes retraces write_internal *)

(* the headers write_internal has already emitted = what from_slice has
   decoded at the same point *)
Definition done (e : Exts6) (f : Flags) : Exts6 :=
  mkExts6
    (if fl_hop_by_hop_options f then None else hop_by_hop_options e)
    (if fl_destination_options f then None else destination_options e)
    (if fl_routing f then None
     else match routing e with
          | Some r => Some (mkRouting (rt_routing r)
                              (if fl_final_destination_options f then None
                               else rt_final_destination_options r))
          | None => None
          end)
    (if fl_fragment f then None else fragment e)
    (if fl_auth f then None else auth e).

Definition has_final (e : Exts6) : bool :=
  match routing e with Some r => is_some (rt_final_destination_options r) | None => false end.

(* route_written says that the routing header is out; the final destination
   options are only touched afterwards *)
Definition Inv (e : Exts6) (f : Flags) (rw : bool) : Prop :=
  rw = negb (fl_routing f) && is_some (routing e) /\
  (fl_routing f = true -> fl_final_destination_options f = has_final e).

Lemma Inv_init e : Inv e (flags_init e) false.
Proof.
  unfold Inv, flags_init, has_final. cbn. split; [|reflexivity].
  destruct (routing e); reflexivity.
Qed.

Lemma Inv_clr_hop e f rw : Inv e f rw -> Inv e (clr_hop f) rw.
Proof. unfold Inv, clr_hop. cbn. tauto. Qed.
Lemma Inv_clr_dst e f rw : Inv e f rw -> Inv e (clr_dst f) rw.
Proof. unfold Inv, clr_dst. cbn. tauto. Qed.
Lemma Inv_clr_frag e f rw : Inv e f rw -> Inv e (clr_frag f) rw.
Proof. unfold Inv, clr_frag. cbn. tauto. Qed.
Lemma Inv_clr_auth e f rw : Inv e f rw -> Inv e (clr_auth f) rw.
Proof. unfold Inv, clr_auth. cbn. tauto. Qed.
Lemma Inv_clr_routing e f rw r : routing e = Some r -> Inv e f rw -> Inv e (clr_routing f) true.
Proof. unfold Inv, clr_routing. cbn. intros -> _. split; [reflexivity|discriminate]. Qed.
Lemma Inv_clr_final e f : Inv e f true -> Inv e (clr_final f) true.
Proof.
  unfold Inv, clr_final. cbn. intros [I1 I2]. split; [assumption|].
  intros R. rewrite R in I1. discriminate.
Qed.

Lemma Inv_true e f : Inv e f true -> fl_routing f = false.
Proof. unfold Inv. intros [I _]. destruct (fl_routing f); [discriminate|reflexivity]. Qed.

Lemma Inv_false_routing e f : Inv e f false -> routing (done e f) = None.
Proof.
  unfold Inv, done. cbn. intros [I _].
  destruct (fl_routing f); [reflexivity|]. destruct (routing e); [discriminate|reflexivity].
Qed.

Lemma done_init e : done e (flags_init e) = exts6_default.
Proof.
  unfold done, flags_init, exts6_default. cbn.
  destruct (hop_by_hop_options e), (destination_options e), (routing e), (fragment e), (auth e); reflexivity.
Qed.

Lemma done_init_hop e h : hop_by_hop_options e = Some h ->
  done e (clr_hop (flags_init e)) = set_hop exts6_default h.
Proof.
  intros E. unfold done, flags_init, clr_hop, set_hop, exts6_default. cbn. rewrite E.
  destruct (destination_options e), (routing e), (fragment e), (auth e); reflexivity.
Qed.

Lemma done_all e : done e (mkFlags false false false false false false) = e.
Proof. destruct e as [? ? [[? ?]|] ? ?]; reflexivity. Qed.

Lemma from_slice_mirror fuel : forall e nw next rw w bs n slice,
  exts6_valid e = true -> Inv e nw rw ->
  write_loop fuel e nw next rw w = (bs, Ok tt) ->
  next_header_loop fuel e nw next rw = Ok n ->
  is_ext_number n = false ->
  exists suf, bs = w ++ suf /\ from_slice_loop fuel slice (done e nw) suf next = Ok (e, n, []).
Proof.
  induction fuel as [|fuel IH]; intros e nw next rw w bs n slice V I W H X; [discriminate|].
  pose proof (exts6_valid_inv e V) as (Vh & Vd & Vr & Vf & Va).
  cbn [write_loop next_header_loop] in W, H.
  assert (Brk : is_ext_number next = true -> check_all_done nw next = Ok n -> False).
  { intros E C. apply check_all_done_ok in C. destruct C as [-> _]. congruence. }
  destruct (arm_of_cases next) as [[A Nx]|[[A Nx]|[[A Nx]|[[A Nx]|[[A Nx]|[A Nx]]]]]];
    rewrite A in W, H.
  - (* hop-by-hop inside the loop *)
    destruct (fl_hop_by_hop_options nw); [discriminate|].
    exfalso. apply Brk; [subst next; reflexivity|exact H].
  - (* destination options *)
    destruct rw.
    + destruct (fl_final_destination_options nw) eqn:Ef;
        [|exfalso; apply Brk; [subst next; reflexivity|exact H]].
      destruct (routing e) as [r|] eqn:Er; [|discriminate].
      destruct (rt_final_destination_options r) as [h|] eqn:Eh; [|discriminate].
      cbn [opt_valid] in Vr. apply routing_valid_inv in Vr. destruct Vr as [_ Vfin].
      rewrite Eh in Vfin. cbn [opt_valid] in Vfin.
      rewrite raw_to_bytes_valid in W by assumption.
      destruct (IH _ _ _ _ _ _ _ slice V (Inv_clr_final _ _ I) W H X) as (suf & -> & D).
      eexists. split; [symmetry; apply app_assoc|].
      cbn [from_slice_loop]. rewrite A.
      pose proof (Inv_true _ _ I) as Rf.
      assert (RD : routing (done e nw) = Some (mkRouting (rt_routing r) None)).
      { unfold done. cbn. now rewrite Rf, Er, Ef. }
      rewrite RD. cbn [rt_final_destination_options is_some rt_routing].
      rewrite read_raw_written by assumption. cbn [bind].
      replace (set_routing (done e nw) (mkRouting (rt_routing r) (Some h))) with (done e (clr_final nw)); [exact D|].
      unfold done, set_routing, clr_final. cbn. now rewrite Rf, Er, Eh.
    + destruct (fl_destination_options nw) eqn:Ef;
        [|exfalso; apply Brk; [subst next; reflexivity|exact H]].
      destruct (destination_options e) as [h|] eqn:Eh; [|discriminate].
      cbn [opt_valid] in Vd.
      rewrite raw_to_bytes_valid in W by assumption.
      destruct (IH _ _ _ _ _ _ _ slice V (Inv_clr_dst _ _ _ I) W H X) as (suf & -> & D).
      eexists. split; [symmetry; apply app_assoc|].
      cbn [from_slice_loop]. rewrite A.
      rewrite (Inv_false_routing _ _ I).
      assert (DD : destination_options (done e nw) = None) by (unfold done; cbn; now rewrite Ef).
      rewrite DD. cbn [is_some].
      rewrite read_raw_written by assumption. cbn [bind].
      replace (set_dst (done e nw) h) with (done e (clr_dst nw)); [exact D|].
      unfold done, set_dst, clr_dst. cbn. now rewrite Eh.
  - (* routing *)
    destruct (fl_routing nw) eqn:Ef;
      [|exfalso; apply Brk; [subst next; reflexivity|exact H]].
    destruct (routing e) as [r|] eqn:Er; [|discriminate].
    cbn [opt_valid] in Vr. apply routing_valid_inv in Vr. destruct Vr as [Vrt _].
    rewrite raw_to_bytes_valid in W by assumption.
    destruct (IH _ _ _ _ _ _ _ slice V (Inv_clr_routing _ _ _ _ Er I) W H X) as (suf & -> & D).
    eexists. split; [symmetry; apply app_assoc|].
    cbn [from_slice_loop]. rewrite A.
    assert (RD : routing (done e nw) = None) by (unfold done; cbn; now rewrite Ef).
    rewrite RD. cbn [is_some].
    rewrite read_raw_written by assumption. cbn [bind].
    replace (set_routing (done e nw) (mkRouting (rt_routing r) None)) with (done e (clr_routing nw)); [exact D|].
    destruct I as [_ I2]. specialize (I2 Ef). unfold has_final in I2. rewrite Er in I2.
    unfold done, set_routing, clr_routing. cbn. rewrite ?Er, ?Ef, ?I2.
    destruct (rt_final_destination_options r); reflexivity.
  - (* fragment *)
    destruct (fl_fragment nw) eqn:Ef;
      [|exfalso; apply Brk; [subst next; reflexivity|exact H]].
    destruct (fragment e) as [h|] eqn:Eh; [|discriminate].
    cbn [opt_valid] in Vf.
    destruct (IH _ _ _ _ _ _ _ slice V (Inv_clr_frag _ _ _ I) W H X) as (suf & -> & D).
    eexists. split; [symmetry; apply app_assoc|].
    cbn [from_slice_loop]. rewrite A.
    assert (FD : fragment (done e nw) = None) by (unfold done; cbn; now rewrite Ef).
    rewrite FD. cbn [is_some].
    rewrite read_frag_written by assumption. cbn [bind].
    replace (set_frag (done e nw) h) with (done e (clr_frag nw)); [exact D|].
    unfold done, set_frag, clr_frag. cbn. now rewrite Eh.
  - (* authentication *)
    destruct (fl_auth nw) eqn:Ef;
      [|exfalso; apply Brk; [subst next; reflexivity|exact H]].
    destruct (auth e) as [h|] eqn:Eh; [|discriminate].
    cbn [opt_valid] in Va.
    rewrite auth_to_bytes_valid in W by assumption.
    destruct (IH _ _ _ _ _ _ _ slice V (Inv_clr_auth _ _ _ I) W H X) as (suf & -> & D).
    eexists. split; [symmetry; apply app_assoc|].
    cbn [from_slice_loop]. rewrite A.
    assert (AD : auth (done e nw) = None) by (unfold done; cbn; now rewrite Ef).
    rewrite AD. cbn [is_some].
    rewrite read_auth_written by assumption. cbn [bind].
    replace (set_auth (done e nw) h) with (done e (clr_auth nw)); [exact D|].
    unfold done, set_auth, clr_auth. cbn. now rewrite Eh.
  - (* not an extension header: end of the chain *)
    inversion W as [[W1 W2]]. apply check_all_done_ok in H. destruct H as [-> Hf].
    exists []. split; [now rewrite app_nil_r|].
    cbn [from_slice_loop]. rewrite A. rewrite Hf, done_all. reflexivity.
Qed.

(* C12_decode_write *)
Theorem decode_write e first bs n : exts6_valid e = true ->
  write e first = (bs, Ok tt) -> next_header e first = Ok n -> is_ext_number n = false ->
  from_slice first bs = Ok (e, n, []).
Proof.
  intros V W H X. unfold write in W. unfold next_header in H. unfold from_slice.
  destruct (IPV6_HOP_BY_HOP =? first) eqn:E0.
  - destruct (hop_by_hop_options e) as [h|] eqn:Eh.
    + pose proof (exts6_valid_inv e V) as (Vh & _). rewrite Eh in Vh. cbn [opt_valid] in Vh.
      rewrite raw_to_bytes_valid in W by assumption.
      destruct (from_slice_mirror _ _ _ _ _ _ _ _ bs V (Inv_clr_hop _ _ _ (Inv_init e)) W H X) as (suf & Hb & D).
      subst bs. rewrite read_raw_written by assumption. cbn [bind].
      rewrite <- (done_init_hop e h Eh). exact D.
    + exfalso. apply N.eqb_eq in E0. subst first.
      unfold LOOP_FUEL in H. cbn [next_header_loop] in H. rewrite arm_hop in H.
      unfold flags_init in H at 1. cbn [fl_hop_by_hop_options] in H. rewrite Eh in H. cbn [is_some] in H.
      apply check_all_done_ok in H. destruct H as [<- _]. discriminate.
  - destruct (from_slice_mirror _ _ _ _ _ _ _ _ bs V (Inv_init e) W H X) as (suf & Hb & D).
    cbn [app] in Hb. subst suf. rewrite done_init in D. exact D.
Qed.

(* ------------------------------------------------------------------ *)
(* set_next_headers links the chain in RFC 8200 order and the walkers follow it *)

Local Arguments arm_of : simpl never.

Theorem set_next_headers_linked e n :
  linked (snd (set_next_headers e n)) (in_rfc_order (get_nh (fst (set_next_headers e n)))) n.
Proof.
  destruct e as [[h|] [d|] [[rt [fd|]]|] [fr|] [a|]]; cbn; repeat split; reflexivity.
Qed.

Lemma hop_eqb_other n : is_ext_number n = false -> (IPV6_HOP_BY_HOP =? n) = false.
Proof. rewrite is_ext_number_false. intros (H & _). rewrite N.eqb_sym. exact H. Qed.

Ltac walk_tac An Hn :=
  repeat first
    [ rewrite arm_hop | rewrite arm_dest | rewrite arm_route | rewrite arm_frag | rewrite arm_auth
    | rewrite An | rewrite Hn
    | progress change (IPV6_HOP_BY_HOP =? IPV6_HOP_BY_HOP) with true
    | progress change (IPV6_HOP_BY_HOP =? IPV6_DEST_OPTIONS) with false
    | progress change (IPV6_HOP_BY_HOP =? IPV6_ROUTE) with false
    | progress change (IPV6_HOP_BY_HOP =? IPV6_FRAG) with false
    | progress change (IPV6_HOP_BY_HOP =? AUTH) with false
    | progress cbn ].

(* C12_link_walks *)
Theorem link_walks e n : is_ext_number n = false ->
  next_header (fst (set_next_headers e n)) (snd (set_next_headers e n)) = Ok n.
Proof.
  intros X. pose proof (arm_of_other n X) as An. pose proof (hop_eqb_other n X) as Hn.
  destruct e as [[h|] [d|] [[rt [fd|]]|] [fr|] [a|]];
    unfold set_next_headers; cbn; unfold next_header, LOOP_FUEL; walk_tac An Hn; reflexivity.
Qed.

(* the bytes of a header do not depend on its next_header field being in range *)
Lemma raw_to_bytes_set h x : raw_valid h = true ->
  raw_to_bytes (raw_set_next_header h x) = Some (raw_wire_bytes (raw_set_next_header h x)).
Proof.
  intros V. apply raw_valid_inv in V. destruct V as (_ & Hl & Hp & _).
  unfold raw_to_bytes, raw_set_next_header, raw_wire_bytes, wire_options_header, RAW_MAX_LEN. cbn.
  destruct (2 + len (r_payload h) <=? 2048) eqn:E; [|lia].
  rewrite Hp. do 3 f_equal. dmlia.
Qed.

Lemma frag_to_bytes_set h x : frag_valid h = true ->
  frag_to_bytes (frag_set_next_header h x) = frag_wire_bytes (frag_set_next_header h x).
Proof.
  intros V. apply frag_valid_inv in V. destruct V as (_ & Ho & Hi).
  pose proof (fo_ok (f_fragment_offset h) (f_more_fragments h) Ho) as C.
  unfold fo_check1 in C. rewrite !andb_true_iff in C. destruct C as [[[_ _] C3] C4].
  apply N.eqb_eq in C3, C4. unfold fo_enc in C3, C4.
  unfold frag_to_bytes, frag_wire_bytes, frag_set_next_header, wire_fragment_header, to_be16. cbn.
  rewrite wire_u32_to_be32 by assumption. rewrite C3, C4. reflexivity.
Qed.

Lemma auth_to_bytes_set h x : auth_valid h = true ->
  auth_to_bytes (auth_set_next_header h x) = Some (auth_wire_bytes (auth_set_next_header h x)).
Proof.
  intros V. apply auth_valid_inv in V. destruct V as (_ & Hs & Hq & Hl & Hi & _).
  unfold auth_to_bytes, auth_wire_bytes, auth_set_next_header, wire_auth_header.
  cbn [a_next_header a_spi a_sequence_number a_raw_icv_len a_raw_icv].
  destruct (a_raw_icv_len h + 1 <? 256) eqn:E; [|lia].
  rewrite !wire_u32_to_be32 by assumption. rewrite Hi. do 4 f_equal. dmlia.
Qed.

Local Arguments raw_wire_bytes : simpl never.
Local Arguments frag_wire_bytes : simpl never.
Local Arguments auth_wire_bytes : simpl never.
Local Arguments raw_to_bytes : simpl never.
Local Arguments frag_to_bytes : simpl never.
Local Arguments auth_to_bytes : simpl never.

Ltac write_tac An Hn :=
  repeat first
    [ rewrite arm_hop | rewrite arm_dest | rewrite arm_route | rewrite arm_frag | rewrite arm_auth
    | rewrite An | rewrite Hn
    | rewrite raw_to_bytes_set by assumption
    | rewrite frag_to_bytes_set by assumption
    | rewrite auth_to_bytes_set by assumption
    | progress change (IPV6_HOP_BY_HOP =? IPV6_HOP_BY_HOP) with true
    | progress change (IPV6_HOP_BY_HOP =? IPV6_DEST_OPTIONS) with false
    | progress change (IPV6_HOP_BY_HOP =? IPV6_ROUTE) with false
    | progress change (IPV6_HOP_BY_HOP =? IPV6_FRAG) with false
    | progress change (IPV6_HOP_BY_HOP =? AUTH) with false
    | progress cbn ].

(* the serialised chain is the RFC 8200 order *)
Theorem link_write_order e n : exts6_valid e = true -> is_ext_number n = false ->
  write (fst (set_next_headers e n)) (snd (set_next_headers e n))
  = (rfc_order_bytes (fst (set_next_headers e n)), Ok tt).
Proof.
  intros V X. pose proof (arm_of_other n X) as An. pose proof (hop_eqb_other n X) as Hn.
  apply exts6_valid_inv in V. destruct V as (Vh & Vd & Vr & Vf & Va).
  destruct e as [[h|] [d|] [[rt [fd|]]|] [fr|] [a|]];
    cbn [opt_valid hop_by_hop_options destination_options routing fragment auth] in Vh, Vd, Vr, Vf, Va;
    try (apply routing_valid_inv in Vr; destruct Vr as [Vrt Vfd];
         cbn [opt_valid rt_routing rt_final_destination_options] in Vrt, Vfd);
    unfold set_next_headers; cbn; unfold write, rfc_order_bytes, in_rfc_order, LOOP_FUEL;
    write_tac An Hn; rewrite ?app_nil_r, <- ?app_assoc; reflexivity.
Qed.

(* ------------------------------------------------------------------ *)
(* Ipv4Extensions *)

Theorem write4_iff_walk e first : exts4_valid e = true ->
  match next_header4 e first with
  | Ok n => snd (write4 e first) = Ok tt
  | Err x => snd (write4 e first) = Err x
  | Panic | OutOfFuel => False
  end.
Proof.
  intros V. unfold next_header4, write4. destruct e as [[a|]]; cbn in *; [|reflexivity].
  rewrite (N.eqb_sym first AUTH). destruct (AUTH =? first); [|reflexivity].
  now rewrite auth_to_bytes_valid.
Qed.

Theorem write4_len e first bs : exts4_valid e = true ->
  write4 e first = (bs, Ok tt) -> len bs = header_len4 e.
Proof.
  intros V. unfold write4, header_len4. destruct e as [[a|]]; cbn in *.
  - destruct (AUTH =? first); [|discriminate].
    rewrite auth_to_bytes_valid by assumption. intros H; inversion H. now apply auth_bytes_len.
  - intros H; inversion H. reflexivity.
Qed.

Theorem decode_write4 e first bs n : exts4_valid e = true ->
  write4 e first = (bs, Ok tt) -> next_header4 e first = Ok n -> is_ext_number_v4 n = false ->
  from_slice4 first bs = Ok (e, n, []).
Proof.
  intros V. unfold write4, next_header4, from_slice4, is_ext_number_v4.
  change (ip_number_of KAuth) with AUTH.
  destruct e as [[a|]]; cbn in *.
  - rewrite (N.eqb_sym first AUTH). destruct (AUTH =? first); [|discriminate].
    rewrite auth_to_bytes_valid by assumption. intros W H X. inversion W; subst bs. inversion H; subst n.
    rewrite <- (app_nil_r (auth_bytes a)) at 1. rewrite auth_slice_written by assumption. cbn [bind].
    rewrite <- (app_nil_r (auth_bytes a)) at 1. rewrite slice_from_app.
    change (auth_slice_next_header (auth_bytes a)) with (Some (a_next_header a)).
    rewrite auth_slice_to_header_written by assumption. reflexivity.
  - intros W H X. inversion W; subst bs. inversion H; subst n.
    rewrite (N.eqb_sym AUTH first), X. reflexivity.
Qed.

Theorem link_walks4 e n :
  next_header4 (fst (set_next_headers4 e n)) (snd (set_next_headers4 e n)) = Ok n.
Proof. destruct e as [[a|]]; reflexivity. Qed.

Theorem set_next_headers4_linked e n :
  linked (snd (set_next_headers4 e n)) (in_rfc_order (get_nh4 (fst (set_next_headers4 e n)))) n.
Proof. destruct e as [[a|]]; cbn; repeat split; reflexivity. Qed.

Theorem link_write_order4 e n : exts4_valid e = true ->
  write4 (fst (set_next_headers4 e n)) (snd (set_next_headers4 e n))
  = (rfc_order_bytes4 (fst (set_next_headers4 e n)), Ok tt).
Proof.
  intros V. destruct e as [[a|]]; cbn in *; [|reflexivity].
  unfold write4. cbn. change (AUTH =? AUTH) with true. cbn.
  rewrite auth_to_bytes_set by assumption. unfold rfc_order_bytes4. cbn. now rewrite app_nil_r.
Qed.

(* ------------------------------------------------------------------ *)
(* IpHeaders / NetHeaders *)

Theorem ip_set_next_headers_ether_type h n :
  snd (ip_set_next_headers h n) = ether_type_of_version h.
Proof.
  destruct h as [p ol ex|x ex]; cbn.
  - destruct (set_next_headers4 ex n); reflexivity.
  - destruct (set_next_headers ex n); reflexivity.
Qed.

Theorem net_try_set_next_headers_ether_type h n :
  net_try_set_next_headers (net_of_ip h) n
  = (net_of_ip (fst (ip_set_next_headers h n)), Ok (ether_type_of_version h)).
Proof.
  destruct h as [p ol ex|x ex]; cbn.
  - destruct (set_next_headers4 ex n); reflexivity.
  - destruct (set_next_headers ex n); reflexivity.
Qed.

Theorem net_try_set_next_headers_arp n :
  net_try_set_next_headers NetArp n = (NetArp, Err ArpHeader).
Proof. reflexivity. Qed.

Theorem ip_link_walks h n : ip_is_ext h n = false ->
  ip_next_header (fst (ip_set_next_headers h n)) = Ok n.
Proof.
  destruct h as [p ol ex|x ex]; cbn; intros X.
  - pose proof (link_walks4 ex n) as L. destruct (set_next_headers4 ex n) as [ex' f]. cbn in *.
    now rewrite L.
  - pose proof (link_walks ex n X) as L. destruct (set_next_headers ex n) as [ex' f]. cbn in *.
    now rewrite L.
Qed.

(* ------------------------------------------------------------------ *)
(* an error names a header that exists *)

Lemma is_some_map {A B} (f : A -> B) o : is_some (option_map f o) = is_some o.
Proof. destruct o; reflexivity. Qed.

Lemma check_all_done_err {A} e f (a : A) x :
  flags_ok e f -> check_all_done f a = Err x -> error_true e x.
Proof.
  intros (F1 & F2 & F3 & F4 & F5 & F6). unfold check_all_done.
  destruct (fl_hop_by_hop_options f).
  { intros H; inversion H. exists KHopByHop. split; [reflexivity|]. cbn. rewrite is_some_map. auto. }
  destruct (fl_destination_options f).
  { intros H; inversion H. exists KDestOpts. split; [reflexivity|]. cbn. rewrite is_some_map. auto. }
  destruct (fl_routing f).
  { intros H; inversion H. exists KRouting. split; [reflexivity|]. cbn. rewrite is_some_map. auto. }
  destruct (fl_fragment f).
  { intros H; inversion H. exists KFragment. split; [reflexivity|]. cbn. rewrite is_some_map. auto. }
  destruct (fl_auth f).
  { intros H; inversion H. exists KAuth. split; [reflexivity|]. cbn. rewrite is_some_map. auto. }
  destruct (fl_final_destination_options f).
  { intros H; inversion H. exists KFinalDestOpts. split; [reflexivity|]. cbn.
    destruct (F6 eq_refl) as (r & -> & Hr). now rewrite is_some_map. }
  discriminate.
Qed.

Lemma next_header_loop_err fuel : forall e f next rr x,
  flags_ok e f -> next_header_loop fuel e f next rr = Err x -> error_true e x.
Proof.
  induction fuel as [|fuel IH]; intros e f next rr x FO H; [discriminate|].
  pose proof FO as (F1 & F2 & F3 & F4 & F5 & F6).
  cbn [next_header_loop] in H.
  destruct (arm_of next).
  - destruct (fl_hop_by_hop_options f) eqn:Ef.
    + inversion H. cbn. auto.
    + eapply check_all_done_err; eassumption.
  - destruct rr.
    + destruct (fl_final_destination_options f); [|eapply check_all_done_err; eassumption].
      destruct (routing e) as [r|]; [|discriminate].
      destruct (rt_final_destination_options r); [|discriminate].
      eapply IH; [|eassumption]. apply flags_ok_clr_final, FO.
    + destruct (fl_destination_options f); [|eapply check_all_done_err; eassumption].
      destruct (destination_options e); [|discriminate].
      eapply IH; [|eassumption]. apply flags_ok_clr_dst, FO.
  - destruct (fl_routing f); [|eapply check_all_done_err; eassumption].
    destruct (routing e); [|discriminate].
    eapply IH; [|eassumption]. apply flags_ok_clr_routing, FO.
  - destruct (fl_fragment f); [|eapply check_all_done_err; eassumption].
    destruct (fragment e); [|discriminate].
    eapply IH; [|eassumption]. apply flags_ok_clr_frag, FO.
  - destruct (fl_auth f); [|eapply check_all_done_err; eassumption].
    destruct (auth e); [|discriminate].
    eapply IH; [|eassumption]. apply flags_ok_clr_auth, FO.
  - eapply check_all_done_err; eassumption.
Qed.

Theorem error_truth e first x : next_header e first = Err x -> error_true e x.
Proof.
  unfold next_header.
  destruct (IPV6_HOP_BY_HOP =? first).
  - destruct (hop_by_hop_options e).
    + apply next_header_loop_err. apply flags_ok_clr_hop, flags_ok_init.
    + apply next_header_loop_err. apply flags_ok_init.
  - apply next_header_loop_err. apply flags_ok_init.
Qed.

Theorem error_truth4 e first x : next_header4 e first = Err x ->
  x = ExtNotReferenced (ip_number_of KAuth) /\ is_some (auth4 e) = true.
Proof.
  unfold next_header4. destruct (auth4 e); [|discriminate].
  destruct (first =? AUTH); [discriminate|]. intros H; inversion H. split; reflexivity.
Qed.
