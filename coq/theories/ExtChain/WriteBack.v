(* ExtChain/WriteBack.v -- decode then write: for every byte string that
   Ipv6Extensions::from_slice accepts, the decoded struct holds at every position
   the header decoded from the bytes of that position (slot-wise), satisfies the
   type invariant, and `write` re-emits exactly the consumed bytes with the
   reserved fields cleared (WalkView.normalise). *)
From EP Require Import Base.Bytes ExtChain.Spec ExtChain.Model ExtChain.View ExtChain.Proofs
  ExtChain.WalkSpec ExtChain.WalkView ExtChain.WalkProofs.
From Coq Require Import ZArith Lia ZifyN ZifyBool.
Local Open Scope N_scope.

(* ------------------------------------------------------------------ *)
(* one header: decode, invariant, re-encode *)

Lemma raw_item hb : bytes_ok hb -> (exists hl, rd hb 1 = Some hl /\ len hb = (hl + 1) * 8) ->
  exists h, raw_of_bytes hb = Some h /\ raw_valid h = true /\ raw_to_bytes h = Some hb
            /\ rd hb 0 = Some (r_next_header h).
Proof.
  intros OK (hl & R1 & LH).
  assert (HL : hl < 256) by (eapply rd_ok; eauto).
  destruct hb as [|b0 [|b1 p]]; try (rewrite ?len_cons, ?len_nil in LH; lia).
  change (rd (b0 :: b1 :: p) 1) with (Some b1) in R1. injection R1 as ->.
  assert (LP : len p = 6 + hl * 8) by (rewrite !len_cons in LH; lia).
  apply bytes_ok_cons in OK. destruct OK as [B0 OK]. apply bytes_ok_cons in OK. destruct OK as [_ OKP].
  unfold byte_ok in B0.
  exists (mkRaw b0 hl p). split; [reflexivity|]. split; [|split; [|reflexivity]].
  - unfold raw_valid. cbn [r_next_header r_header_length r_payload].
    apply N.ltb_lt in B0, HL. rewrite B0, HL, LP, N.eqb_refl. cbn [andb].
    apply bytes_okb_spec. exact OKP.
  - unfold raw_to_bytes, RAW_MAX_LEN. cbn [r_next_header r_header_length r_payload]. rewrite LP.
    destruct (2 + (6 + hl * 8) <=? 2048) eqn:X; [reflexivity|apply N.leb_gt in X; lia].
Qed.

(* fragment header: offset*8 + M re-encoded; the two reserved bits of byte 3 are lost *)
Definition fo_chk (b2 : N) : bool :=
  forallb (fun b3 =>
    let fo := (b2 * 256 + b3) / 8 in
    let w := N.lor ((N.shiftl fo 3) mod 65536) (if N.odd b3 then 1 else 0) in
    (fo <? 8192) && ((w / 256) mod 256 =? b2) && (w mod 256 =? N.land b3 249))
    (map N.of_nat (seq 0 256)).
Lemma fo_chk_sweep : forallb fo_chk (map N.of_nat (seq 0 256)) = true.
Proof. vm_compute. reflexivity. Qed.

Lemma in_byte_range b : b < 256 -> In b (map N.of_nat (seq 0 256)).
Proof.
  intros H. apply in_map_iff. exists (N.to_nat b). split; [lia|]. apply in_seq. lia.
Qed.

Lemma fo_facts b2 b3 : b2 < 256 -> b3 < 256 ->
  let fo := (b2 * 256 + b3) / 8 in
  let w := N.lor ((N.shiftl fo 3) mod 65536) (if N.odd b3 then 1 else 0) in
  fo < 8192 /\ (w / 256) mod 256 = b2 /\ w mod 256 = N.land b3 249.
Proof.
  intros H2 H3. pose proof fo_chk_sweep as S. rewrite forallb_forall in S.
  specialize (S b2 (in_byte_range b2 H2)). unfold fo_chk in S. rewrite forallb_forall in S.
  specialize (S b3 (in_byte_range b3 H3)). cbv zeta in *.
  rewrite !andb_true_iff in S. destruct S as [[S1 S2] S3].
  apply N.ltb_lt in S1. apply N.eqb_eq in S2, S3. auto.
Qed.

Lemma to_be32_of_be32 a b c d : a < 256 -> b < 256 -> c < 256 -> d < 256 -> to_be32 (be32 a b c d) = [a; b; c; d].
Proof.
  intros Ha Hb Hc Hd. unfold to_be32, be32.
  assert (E0 : (((a * 256 + b) * 256 + c) * 256 + d) mod 256 = d) by dmlia.
  assert (E1 : ((((a * 256 + b) * 256 + c) * 256 + d) / 256) mod 256 = c) by dmlia.
  assert (E2 : ((((a * 256 + b) * 256 + c) * 256 + d) / 65536) mod 256 = b) by dmlia.
  assert (E3 : ((((a * 256 + b) * 256 + c) * 256 + d) / 16777216) mod 256 = a) by dmlia.
  rewrite E0, E1, E2, E3. reflexivity.
Qed.

Lemma frag_item hb : bytes_ok hb -> len hb = 8 ->
  exists h, frag_of_bytes hb = Some h /\ frag_valid h = true /\ frag_to_bytes h = normalise (KFragment, hb)
            /\ rd hb 0 = Some (f_next_header h).
Proof.
  intros OK LH.
  destruct hb as [|b0 [|b1 [|b2 [|b3 [|b4 [|b5 [|b6 [|b7 [|b8 r]]]]]]]]]; try (rewrite ?len_cons, ?len_nil in LH; lia).
  unfold bytes_ok in OK.
  repeat (match goal with H : Forall _ (_ :: _) |- _ => inversion H; clear H; subst end).
  unfold byte_ok in *.
  destruct (fo_facts b2 b3 ltac:(assumption) ltac:(assumption)) as (F1 & F2 & F3). cbv zeta in *.
  eexists. split; [reflexivity|]. split; [|split; [|reflexivity]].
  - unfold frag_valid. cbn [f_next_header f_fragment_offset f_identification].
    assert (I : be32 b4 b5 b6 b7 < 4294967296) by (unfold be32; lia).
    rewrite !andb_true_iff, !N.ltb_lt. auto.
  - unfold frag_to_bytes, normalise. cbn [f_next_header f_fragment_offset f_more_fragments f_identification].
    rewrite to_be32_of_be32 by assumption. unfold to_be16. rewrite F2, F3. reflexivity.
Qed.

Lemma auth_item hb : bytes_ok hb -> (exists pl, rd hb 1 = Some pl /\ 1 <= pl /\ len hb = (pl + 2) * 4) ->
  exists h, auth_of_bytes hb = Some h /\ auth_valid h = true /\ auth_to_bytes h = Some (normalise (KAuth, hb))
            /\ rd hb 0 = Some (a_next_header h).
Proof.
  intros OK (pl & R1 & P & LH).
  assert (PL : pl < 256) by (eapply rd_ok; eauto).
  destruct hb as [|b0 [|b1 [|b2 [|b3 [|b4 [|b5 [|b6 [|b7 [|b8 [|b9 [|b10 [|b11 icv]]]]]]]]]]]];
    try (rewrite ?len_cons, ?len_nil in LH; lia).
  change (rd (b0 :: b1 :: b2 :: b3 :: b4 :: b5 :: b6 :: b7 :: b8 :: b9 :: b10 :: b11 :: icv) 1) with (Some b1) in R1.
  injection R1 as ->.
  set (k := pl - 1).
  assert (LI : len icv = k * 4) by (rewrite !len_cons in LH; unfold k; lia).
  unfold bytes_ok in OK.
  repeat (match goal with H : Forall _ (_ :: _) |- _ => inversion H; clear H; subst end).
  unfold byte_ok in *.
  eexists. split; [reflexivity|]. fold k. split; [|split; [|reflexivity]].
  - unfold auth_valid. cbn [a_next_header a_spi a_sequence_number a_raw_icv_len a_raw_icv].
    assert (I1 : be32 b4 b5 b6 b7 < 4294967296) by (unfold be32; lia).
    assert (I2 : be32 b8 b9 b10 b11 < 4294967296) by (unfold be32; lia).
    assert (I3 : k < 255) by (unfold k; lia).
    assert (BI : bytes_ok icv) by assumption.
    rewrite !andb_true_iff, !N.ltb_lt, N.eqb_eq, bytes_okb_spec. auto 10.
  - unfold auth_to_bytes, normalise. cbn [a_next_header a_spi a_sequence_number a_raw_icv_len a_raw_icv].
    destruct (k + 1 <? 256) eqn:X; [|apply N.ltb_ge in X; unfold k in X; lia].
    rewrite !to_be32_of_be32 by assumption. replace (k + 1) with pl by (unfold k; lia). reflexivity.
Qed.

(* ------------------------------------------------------------------ *)
(* the slot rule inside the loop, case by case *)
Lemma decide_take_loop seen n k : decide false seen n = DTake k ->
  (k = KDestOpts /\ n = 60 /\ has KRouting seen = false /\ has KDestOpts seen = false) \/
  (k = KFinalDestOpts /\ n = 60 /\ has KRouting seen = true /\ has KFinalDestOpts seen = false) \/
  (k = KRouting /\ n = 43 /\ has KRouting seen = false) \/
  (k = KFragment /\ n = 44 /\ has KFragment seen = false) \/
  (k = KAuth /\ n = 51 /\ has KAuth seen = false).
Proof.
  unfold decide. cbn [ip_number_of].
  destruct (n =? 0) eqn:E0; [discriminate|].
  destruct (n =? 60) eqn:E60.
  { apply N.eqb_eq in E60. destruct (has KRouting seen) eqn:R.
    - destruct (has KFinalDestOpts seen) eqn:X; [discriminate|]. intros H. injection H as <-. right. left. auto.
    - destruct (has KDestOpts seen) eqn:X; [discriminate|]. intros H. injection H as <-. left. auto. }
  destruct (n =? 43) eqn:E43.
  { apply N.eqb_eq in E43. destruct (has KRouting seen) eqn:R; [discriminate|]. intros H. injection H as <-. auto 6. }
  destruct (n =? 44) eqn:E44.
  { apply N.eqb_eq in E44. destruct (has KFragment seen) eqn:R; [discriminate|]. intros H. injection H as <-. auto 8. }
  destruct (n =? 51) eqn:E51.
  { apply N.eqb_eq in E51. destruct (has KAuth seen) eqn:R; [discriminate|]. intros H. injection H as <-. auto 10. }
  discriminate.
Qed.

Lemma decide_take_fresh seen n k : decide false seen n = DTake k -> has k seen = false.
Proof.
  intros H. apply decide_take_loop in H.
  destruct H as [(-> & _ & _ & H)|[(-> & _ & _ & H)|[(-> & _ & H)|[(-> & _ & H)|(-> & _ & H)]]]]; exact H.
Qed.

Lemma kind_eqb_eq a b : kind_eqb a b = true -> a = b.
Proof. destruct a, b; cbn; congruence. Qed.

Lemma kind_eqb_refl a : kind_eqb a a = true.
Proof. destruct a; reflexivity. Qed.

(* a position already met does not occur in the rest of the chain *)
Lemma chain_ok_fresh chain : forall seen n bs last rest st k,
  chain_ok false seen n bs chain last rest st -> has k seen = true -> lookup k chain = None.
Proof.
  induction chain as [|[k' hb] tl IH]; intros seen n bs last rest st k H S; [reflexivity|].
  cbn in H. destruct H as (D & nh & bs' & _ & _ & H). apply decide_take_fresh in D.
  cbn [lookup]. destruct (kind_eqb k k') eqn:E.
  - apply kind_eqb_eq in E. subst k'. congruence.
  - eapply IH; [exact H|]. rewrite has_cons, S. apply orb_true_r.
Qed.

(* ------------------------------------------------------------------ *)
(* every item of a walked chain decodes; its decoded header is valid and re-encodes *)
Definition item_ok (it : ext_kind * bytes) : Prop :=
  header_wf (fst it) (snd it) /\ bytes_ok (snd it) /\ 8 <= len (snd it).

Lemma chain_ok_items chain : forall start seen n bs last rest st,
  bytes_ok bs -> chain_ok start seen n bs chain last rest st -> Forall item_ok chain.
Proof.
  induction chain as [|[k hb] tl IH]; intros start seen n bs last rest st OK H; cbn in H.
  - constructor.
  - destruct H as (_ & nh & bs' & F & E & H). apply frame_framed in F. destruct F as (_ & L8 & _ & W).
    rewrite E in OK. apply bytes_ok_app in OK. destruct OK as [OKH OK'].
    constructor; [unfold item_ok; cbn; auto|]. eapply IH; eauto.
Qed.

Lemma raw_kind_item k hb : item_ok (k, hb) -> k <> KFragment -> k <> KAuth ->
  exists h, raw_of_bytes hb = Some h /\ raw_valid h = true /\ raw_to_bytes h = Some hb
            /\ rd hb 0 = Some (r_next_header h).
Proof.
  intros (W & OK & _) NF NA. cbn [fst snd] in *. apply raw_item; [exact OK|].
  destruct k; cbn [header_wf] in W; try exact W; congruence.
Qed.

Lemma item_decodes_ok it : item_ok it -> item_decodes it.
Proof.
  destruct it as [k hb]. intros I. unfold item_decodes. cbn [fst snd].
  destruct k.
  1,2,3,6: destruct (raw_kind_item _ hb I ltac:(discriminate) ltac:(discriminate)) as (h & -> & _); discriminate.
  - destruct I as (W & OK & _). cbn in W, OK. destruct (frag_item hb OK W) as (h & -> & _). discriminate.
  - destruct I as (W & OK & _). cbn in W, OK. destruct (auth_item hb OK W) as (h & -> & _). discriminate.
Qed.

(* ------------------------------------------------------------------ *)
(* slot-wise: the struct holds at position k the decode of the bytes of position k *)
Lemma struct_slots chain : forall seen n bs last rest st e0,
  chain_ok false seen n bs chain last rest st -> Forall item_ok chain -> slots_agree seen e0 ->
  (forall k, get_hdr (struct_from e0 chain) k
             = match lookup k chain with Some hb => hdr_of_bytes k hb | None => get_hdr e0 k end)
  /\ (exts6_valid e0 = true -> exts6_valid (struct_from e0 chain) = true)
  /\ hop_by_hop_options (struct_from e0 chain) = hop_by_hop_options e0.
Proof.
  induction chain as [|[k' hb] tl IH]; intros seen n bs last rest st e0 H IT SA.
  { cbn. auto. }
  cbn in H. destruct H as (D & nh & bs' & _ & _ & H).
  inversion IT as [|? ? I IT']; subst.
  pose proof (chain_ok_fresh tl (k' :: seen) nh bs' last rest st k' H) as FR.
  rewrite has_cons, kind_eqb_refl in FR. specialize (FR eq_refl).
  apply decide_take_loop in D. sa_destruct SA.
  unfold struct_from in *. cbn [fold_left].
  destruct D as [(-> & _ & R & X)|[(-> & _ & R & X)|[(-> & _ & R)|[(-> & _ & R)|(-> & _ & R)]]]].
  - (* destination options *)
    destruct (raw_kind_item _ hb I ltac:(discriminate) ltac:(discriminate)) as (h & RB & V & _).
    assert (ER : routing e0 = None) by (apply is_some_none; congruence).
    assert (SA' : slots_agree (KDestOpts :: seen) (place e0 (KDestOpts, hb))).
    { unfold place. rewrite RB. sa_done. }
    destruct (IH _ _ _ _ _ _ _ H IT' SA') as (G & VV & HH). split; [|split].
    + intros k. rewrite G. cbn [lookup]. destruct (kind_eqb k KDestOpts) eqn:E.
      * apply kind_eqb_eq in E. subst k. rewrite FR. unfold place, hdr_of_bytes. rewrite RB. reflexivity.
      * destruct (lookup k tl); [reflexivity|]. unfold place. rewrite RB.
        destruct k; try discriminate; reflexivity.
    + intros VE. apply VV.
      unfold place. rewrite RB. unfold exts6_valid, set_dst in *. cbn.
        rewrite !andb_true_iff in *. rewrite V. tauto.
    + rewrite HH. unfold place. rewrite RB. reflexivity.
  - (* final destination options *)
    destruct (raw_kind_item _ hb I ltac:(discriminate) ltac:(discriminate)) as (h & RB & V & _).
    destruct (routing e0) as [rt|] eqn:ER; [|rewrite R in SAr; discriminate].
    assert (SA' : slots_agree (KFinalDestOpts :: seen) (place e0 (KFinalDestOpts, hb))).
    { unfold place. rewrite ER, RB. sa_done. }
    destruct (IH _ _ _ _ _ _ _ H IT' SA') as (G & VV & HH). split; [|split].
    + intros k. rewrite G. cbn [lookup]. destruct (kind_eqb k KFinalDestOpts) eqn:E.
      * apply kind_eqb_eq in E. subst k. rewrite FR. unfold place, hdr_of_bytes. rewrite ER, RB. cbn. rewrite ?ER. reflexivity.
      * destruct (lookup k tl); [reflexivity|]. unfold place. rewrite ER, RB.
        destruct k; try discriminate; cbn; rewrite ?ER; reflexivity.
    + intros VE. apply VV.
      unfold place. rewrite ER, RB. unfold exts6_valid, set_routing in *. cbn. rewrite ER in VE. cbn in VE.
        unfold routing_valid in *. cbn. rewrite !andb_true_iff in *. rewrite V. tauto.
    + rewrite HH. unfold place. rewrite ER, RB. reflexivity.
  - (* routing *)
    destruct (raw_kind_item _ hb I ltac:(discriminate) ltac:(discriminate)) as (h & RB & V & _).
    assert (ER : routing e0 = None) by (apply is_some_none; congruence).
    assert (SA' : slots_agree (KRouting :: seen) (place e0 (KRouting, hb))).
    { unfold place. rewrite RB. sa_done. }
    destruct (IH _ _ _ _ _ _ _ H IT' SA') as (G & VV & HH). split; [|split].
    + intros k. rewrite G. cbn [lookup]. destruct (kind_eqb k KRouting) eqn:E.
      * apply kind_eqb_eq in E. subst k. rewrite FR. unfold place, hdr_of_bytes. rewrite RB. reflexivity.
      * destruct (lookup k tl); [reflexivity|]. unfold place. rewrite RB.
        destruct k; try discriminate; cbn; rewrite ?ER; reflexivity.
    + intros VE. apply VV.
      unfold place. rewrite RB. unfold exts6_valid, set_routing in *. cbn. rewrite ER in VE. cbn in VE.
        unfold routing_valid. cbn. rewrite !andb_true_iff in *. rewrite V. tauto.
    + rewrite HH. unfold place. rewrite RB. reflexivity.
  - (* fragment *)
    destruct I as (W & OKH & L8). cbn in W, OKH.
    destruct (frag_item hb OKH W) as (h & RB & V & _).
    assert (SA' : slots_agree (KFragment :: seen) (place e0 (KFragment, hb))).
    { unfold place. rewrite RB. sa_done. }
    destruct (IH _ _ _ _ _ _ _ H IT' SA') as (G & VV & HH). split; [|split].
    + intros k. rewrite G. cbn [lookup]. destruct (kind_eqb k KFragment) eqn:E.
      * apply kind_eqb_eq in E. subst k. rewrite FR. unfold place, hdr_of_bytes. rewrite RB. reflexivity.
      * destruct (lookup k tl); [reflexivity|]. unfold place. rewrite RB.
        destruct k; try discriminate; reflexivity.
    + intros VE. apply VV.
      unfold place. rewrite RB. unfold exts6_valid, set_frag in *. cbn.
        rewrite !andb_true_iff in *. rewrite V. tauto.
    + rewrite HH. unfold place. rewrite RB. reflexivity.
  - (* auth *)
    destruct I as (W & OKH & L8). cbn in W, OKH.
    destruct (auth_item hb OKH W) as (h & RB & V & _).
    assert (SA' : slots_agree (KAuth :: seen) (place e0 (KAuth, hb))).
    { unfold place. rewrite RB. sa_done. }
    destruct (IH _ _ _ _ _ _ _ H IT' SA') as (G & VV & HH). split; [|split].
    + intros k. rewrite G. cbn [lookup]. destruct (kind_eqb k KAuth) eqn:E.
      * apply kind_eqb_eq in E. subst k. rewrite FR. unfold place, hdr_of_bytes. rewrite RB. reflexivity.
      * destruct (lookup k tl); [reflexivity|]. unfold place. rewrite RB.
        destruct k; try discriminate; reflexivity.
    + intros VE. apply VV.
      unfold place. rewrite RB. unfold exts6_valid, set_auth in *. cbn.
        rewrite !andb_true_iff in *. rewrite V. tauto.
    + rewrite HH. unfold place. rewrite RB. reflexivity.
Qed.

(* ------------------------------------------------------------------ *)
(* write_internal / next_header walk the decoded struct along the chain it was decoded from *)
Definition flags_of (tl : list (ext_kind * bytes)) : Flags :=
  mkFlags (is_some (lookup KHopByHop tl)) (is_some (lookup KDestOpts tl)) (is_some (lookup KRouting tl))
          (is_some (lookup KFragment tl)) (is_some (lookup KAuth tl)) (is_some (lookup KFinalDestOpts tl)).

Lemma normalised_cons it tl : normalised (it :: tl) = normalise it ++ normalised tl.
Proof. reflexivity. Qed.

Lemma chain_ok_no_hop chain : forall seen n bs last rest st,
  chain_ok false seen n bs chain last rest st -> lookup KHopByHop chain = None.
Proof.
  induction chain as [|[k hb] tl IH]; intros seen n bs last rest st H; [reflexivity|].
  cbn in H. destruct H as (D & nh & bs' & _ & _ & H). cbn [lookup].
  apply decide_take_loop in D.
  destruct D as [(-> & _)|[(-> & _)|[(-> & _)|[(-> & _)|(-> & _)]]]]; cbn [kind_eqb]; eapply IH; eauto.
Qed.

Lemma write_loop_walk fuel : forall tl e seen next bs last rest st w,
  chain_ok false seen next bs tl last rest st -> Forall item_ok tl ->
  (forall k hb, lookup k tl = Some hb -> get_hdr e k = hdr_of_bytes k hb) ->
  (free seen < fuel)%nat ->
  write_loop fuel e (flags_of tl) next (has KRouting seen) w = (w ++ normalised tl, Ok tt)
  /\ next_header_loop fuel e (flags_of tl) next (has KRouting seen) = Ok last.
Proof.
  induction fuel as [|fuel IH]; intros tl e seen next bs last rest st w H IT G FR; [lia|].
  destruct tl as [|[k hb] tl].
  { cbn in H. destruct H as (-> & _ & _). unfold normalised. cbn [map concat]. rewrite app_nil_r.
    cbn [write_loop next_header_loop].
    destruct (arm_of last), (has KRouting seen); split; reflexivity. }
  cbn in H. destruct H as (D & nh & bs' & F & _ & H).
  inversion IT as [|? ? I IT']; subst.
  pose proof (chain_ok_fresh tl (k :: seen) nh bs' last rest st k H) as FRK.
  rewrite has_cons, kind_eqb_refl in FRK. specialize (FRK eq_refl).
  pose proof (chain_ok_no_hop tl _ _ _ _ _ _ H) as NOHOP.
  apply frame_framed in F. destruct F as (_ & _ & R0 & _).
  assert (G' : forall k' hb', lookup k' tl = Some hb' -> get_hdr e k' = hdr_of_bytes k' hb').
  { intros k' hb' L. apply G. cbn [lookup]. destruct (kind_eqb k' k) eqn:E; [|exact L].
    apply kind_eqb_eq in E. subst k'. congruence. }
  specialize (G k hb). cbn [lookup] in G. rewrite kind_eqb_refl in G. specialize (G eq_refl).
  rewrite normalised_cons.
  apply decide_take_loop in D.
  destruct D as [(-> & -> & R & X)|[(-> & -> & R & X)|[(-> & -> & R)|[(-> & -> & R)|(-> & -> & R)]]]].
  - (* destination options in front of a routing header *)
    destruct (raw_kind_item _ hb I ltac:(discriminate) ltac:(discriminate)) as (h & RB & V & TB & R0').
    assert (NH : nh = r_next_header h) by congruence. subst nh.
    cbn [get_hdr hdr_of_bytes] in G. rewrite RB in G.
    destruct (destination_options e) as [h'|] eqn:ED; cbn in G; [|discriminate]. injection G as ->.
    assert (FL : clr_dst (flags_of ((KDestOpts, hb) :: tl)) = flags_of tl).
    { unfold clr_dst, flags_of. cbn [lookup kind_eqb fl_hop_by_hop_options fl_routing fl_fragment fl_auth
        fl_final_destination_options]. rewrite FRK. reflexivity. }
    assert (FR' : (free (KDestOpts :: seen) < fuel)%nat).
    { clear - FR X. unfold free in *. has_simpl. rewrite X in FR. cbn [fb] in *. lia. }
    destruct (IH tl e (KDestOpts :: seen) _ _ _ _ _ (w ++ hb) H IT' G' FR') as (IW & IN).
    rewrite has_cons in IW, IN. cbn [kind_eqb orb] in IW, IN.
    cbn [write_loop next_header_loop]. change (arm_of 60) with ADest. rewrite R.
    unfold flags_of at 1 3. cbn [lookup kind_eqb is_some fl_destination_options]. rewrite ED, TB.
    fold (flags_of ((KDestOpts, hb) :: tl)). rewrite FL. rewrite R in IW, IN.
    split; [rewrite IW; cbn [normalise]; rewrite app_assoc; reflexivity|exact IN].
  - (* destination options behind the routing header *)
    destruct (raw_kind_item _ hb I ltac:(discriminate) ltac:(discriminate)) as (h & RB & V & TB & R0').
    assert (NH : nh = r_next_header h) by congruence. subst nh.
    cbn [get_hdr hdr_of_bytes] in G. rewrite RB in G.
    destruct (routing e) as [rt|] eqn:ER; [|discriminate].
    destruct (rt_final_destination_options rt) as [h'|] eqn:EX; cbn in G; [|discriminate]. injection G as ->.
    assert (FL : clr_final (flags_of ((KFinalDestOpts, hb) :: tl)) = flags_of tl).
    { unfold clr_final, flags_of. cbn [lookup kind_eqb fl_hop_by_hop_options fl_routing fl_fragment fl_auth
        fl_destination_options]. rewrite FRK. reflexivity. }
    assert (FR' : (free (KFinalDestOpts :: seen) < fuel)%nat).
    { clear - FR X. unfold free in *. has_simpl. rewrite X in FR. cbn [fb] in *. lia. }
    destruct (IH tl e (KFinalDestOpts :: seen) _ _ _ _ _ (w ++ hb) H IT' G' FR') as (IW & IN).
    rewrite has_cons in IW, IN. cbn [kind_eqb orb] in IW, IN.
    cbn [write_loop next_header_loop]. change (arm_of 60) with ADest. rewrite R.
    unfold flags_of at 1 3. cbn [lookup kind_eqb is_some fl_final_destination_options]. rewrite ER, EX, TB.
    fold (flags_of ((KFinalDestOpts, hb) :: tl)). rewrite FL. rewrite R in IW, IN.
    split; [rewrite IW; cbn [normalise]; rewrite app_assoc; reflexivity|exact IN].
  - (* routing *)
    destruct (raw_kind_item _ hb I ltac:(discriminate) ltac:(discriminate)) as (h & RB & V & TB & R0').
    assert (NH : nh = r_next_header h) by congruence. subst nh.
    cbn [get_hdr hdr_of_bytes] in G. rewrite RB in G.
    destruct (routing e) as [rt|] eqn:ER; cbn in G; [|discriminate]. injection G as G.
    assert (FL : clr_routing (flags_of ((KRouting, hb) :: tl)) = flags_of tl).
    { unfold clr_routing, flags_of. cbn [lookup kind_eqb fl_hop_by_hop_options fl_destination_options fl_fragment
        fl_auth fl_final_destination_options]. rewrite FRK. reflexivity. }
    assert (FR' : (free (KRouting :: seen) < fuel)%nat).
    { clear - FR R. unfold free in *. has_simpl. rewrite R in FR. cbn [fb] in *. lia. }
    destruct (IH tl e (KRouting :: seen) _ _ _ _ _ (w ++ hb) H IT' G' FR') as (IW & IN).
    rewrite has_cons in IW, IN. cbn [kind_eqb orb] in IW, IN.
    cbn [write_loop next_header_loop]. change (arm_of 43) with ARoute.
    unfold flags_of at 1 3. cbn [lookup kind_eqb is_some fl_routing]. rewrite ER, G, TB.
    fold (flags_of ((KRouting, hb) :: tl)). rewrite FL.
    split; [rewrite IW; cbn [normalise]; rewrite app_assoc; reflexivity|exact IN].
  - (* fragment *)
    destruct I as (W & OKH & L8). cbn in W, OKH.
    destruct (frag_item hb OKH W) as (h & RB & V & TB & R0').
    assert (NH : nh = f_next_header h) by congruence. subst nh.
    cbn [get_hdr hdr_of_bytes] in G. rewrite RB in G.
    destruct (fragment e) as [h'|] eqn:EF; cbn in G; [|discriminate]. injection G as ->.
    assert (FL : clr_frag (flags_of ((KFragment, hb) :: tl)) = flags_of tl).
    { unfold clr_frag, flags_of. cbn [lookup kind_eqb fl_hop_by_hop_options fl_destination_options fl_routing
        fl_auth fl_final_destination_options]. rewrite FRK. reflexivity. }
    assert (FR' : (free (KFragment :: seen) < fuel)%nat).
    { clear - FR R. unfold free in *. has_simpl. rewrite R in FR. cbn [fb] in *. lia. }
    destruct (IH tl e (KFragment :: seen) _ _ _ _ _ (w ++ frag_to_bytes h) H IT' G' FR') as (IW & IN).
    rewrite has_cons in IW, IN. cbn [kind_eqb orb] in IW, IN.
    cbn [write_loop next_header_loop]. change (arm_of 44) with AFrag.
    unfold flags_of at 1 3. cbn [lookup kind_eqb is_some fl_fragment]. rewrite EF.
    fold (flags_of ((KFragment, hb) :: tl)). rewrite FL.
    split; [rewrite IW, TB, app_assoc; reflexivity|exact IN].
  - (* auth *)
    destruct I as (W & OKH & L8). cbn in W, OKH.
    destruct (auth_item hb OKH W) as (h & RB & V & TB & R0').
    assert (NH : nh = a_next_header h) by congruence. subst nh.
    cbn [get_hdr hdr_of_bytes] in G. rewrite RB in G.
    destruct (auth e) as [h'|] eqn:EA; cbn in G; [|discriminate]. injection G as ->.
    assert (FL : clr_auth (flags_of ((KAuth, hb) :: tl)) = flags_of tl).
    { unfold clr_auth, flags_of. cbn [lookup kind_eqb fl_hop_by_hop_options fl_destination_options fl_routing
        fl_fragment fl_final_destination_options]. rewrite FRK. reflexivity. }
    assert (FR' : (free (KAuth :: seen) < fuel)%nat).
    { clear - FR R. unfold free in *. has_simpl. rewrite R in FR. cbn [fb] in *. lia. }
    destruct (IH tl e (KAuth :: seen) _ _ _ _ _ (w ++ normalise (KAuth, hb)) H IT' G' FR') as (IW & IN).
    rewrite has_cons in IW, IN. cbn [kind_eqb orb] in IW, IN.
    cbn [write_loop next_header_loop]. change (arm_of 51) with AAuth.
    unfold flags_of at 1 3. cbn [lookup kind_eqb is_some fl_auth]. rewrite EA, TB.
    fold (flags_of ((KAuth, hb) :: tl)). rewrite FL.
    split; [rewrite IW, app_assoc; reflexivity|exact IN].
Qed.

(* ------------------------------------------------------------------ *)
Lemma lookup_in k c hb : lookup k c = Some hb -> In (k, hb) c.
Proof.
  induction c as [|[k' hb'] tl IH]; [discriminate|]. cbn [lookup].
  destruct (kind_eqb k k') eqn:E.
  - apply kind_eqb_eq in E. subst k'. intros H. injection H as ->. left. reflexivity.
  - intros H. right. auto.
Qed.

Lemma hdr_of_bytes_some k hb : item_ok (k, hb) -> is_some (hdr_of_bytes k hb) = true.
Proof.
  intros I. pose proof (item_decodes_ok _ I) as D. unfold item_decodes in D. cbn [fst snd] in D.
  destruct k; cbn [hdr_of_bytes].
  1,2,3,6: destruct (raw_of_bytes hb); [reflexivity|congruence].
  - destruct (frag_of_bytes hb); [reflexivity|congruence].
  - destruct (auth_of_bytes hb); [reflexivity|congruence].
Qed.

Lemma flags_init_of e c : slotwise e c -> Forall item_ok c -> flags_init e = flags_of c.
Proof.
  intros S IT.
  assert (P : forall k, is_some (get_hdr e k) = is_some (lookup k c)).
  { intros k. rewrite S. destruct (lookup k c) as [hb|] eqn:L; [|reflexivity].
    apply hdr_of_bytes_some. rewrite Forall_forall in IT. apply IT. apply lookup_in. exact L. }
  unfold flags_init, flags_of.
  rewrite <- (P KHopByHop), <- (P KDestOpts), <- (P KRouting), <- (P KFragment), <- (P KAuth), <- (P KFinalDestOpts).
  cbn [get_hdr]. rewrite !is_some_map.
  destruct (routing e) as [r|]; [rewrite is_some_map|]; reflexivity.
Qed.

Lemma chain_ok_start_irrelevant chain seen n bs last rest st : (n =? 0) = false ->
  chain_ok true seen n bs chain last rest st -> chain_ok false seen n bs chain last rest st.
Proof.
  intros E. pose proof (decide_start_irrelevant seen n E) as D.
  destruct chain as [|[k hb] tl]; cbn [chain_ok]; [|rewrite D; auto].
  unfold stop_ok. rewrite D. auto.
Qed.

(* decode then write, for every accepted byte string (also when the decoder stopped in front of a
   repeated header) *)
Theorem decode_then_write first bs : bytes_ok bs ->
  let w := ref_walk first bs in
  (w_stop w = SNonExt \/ w_stop w = SRefilled) ->
  let e := struct_of_chain (w_chain w) in
  exts6_valid e = true /\
  slotwise e (w_chain w) /\
  write e first = (normalised (w_chain w), Ok tt) /\
  next_header e first = Ok (w_next w).
Proof.
  intros OK w ST e0.
  assert (LF : (length bs < S (length bs))%nat) by lia.
  pose proof (walk_loop_sound (S (length bs)) true [] first bs LF) as CH. fold (ref_walk first bs) in CH. fold w in CH.
  pose proof (chain_ok_items _ _ _ _ _ _ _ _ OK CH) as IT.
  unfold e0, struct_of_chain. clear e0. clearbody w. destruct w as [chain last rest st]. cbn [w_chain w_next w_rest w_stop] in *.
  destruct (first =? 0) eqn:E0.
  - (* hop-by-hop options directly behind the IPv6 header *)
    assert (D : decide true [] first = DTake KHopByHop).
    { unfold decide. cbn [ip_number_of]. rewrite E0. reflexivity. }
    destruct chain as [|[k hb] tl].
    { cbn in CH. destruct CH as (_ & _ & S). unfold stop_ok in S. rewrite D in S.
      destruct ST as [-> | ->]; discriminate. }
    cbn in CH. destruct CH as (D' & nh & bs' & F & _ & CH). rewrite D in D'. injection D' as <-.
    inversion IT as [|? ? I IT']; subst.
    destruct (raw_kind_item _ hb I ltac:(discriminate) ltac:(discriminate)) as (h & RB & V & TB & R0').
    apply frame_framed in F. destruct F as (_ & _ & R0 & _).
    assert (NH : nh = r_next_header h) by congruence. subst nh.
    assert (EQ : struct_from exts6_default ((KHopByHop, hb) :: tl) = struct_from (set_hop exts6_default h) tl).
    { unfold struct_from. cbn [fold_left]. f_equal. unfold place. rewrite RB. reflexivity. }
    rewrite EQ. clear EQ.
    destruct (struct_slots tl [KHopByHop] _ _ _ _ _ (set_hop exts6_default h) CH IT' (slots_agree_hop h))
      as (G & VV & HH).
    pose proof (chain_ok_no_hop tl _ _ _ _ _ _ CH) as NOHOP.
    set (e := struct_from (set_hop exts6_default h) tl) in *.
    assert (SW : slotwise e ((KHopByHop, hb) :: tl)).
    { intros k. rewrite G. cbn [lookup]. destruct (kind_eqb k KHopByHop) eqn:E.
      - apply kind_eqb_eq in E. subst k. rewrite NOHOP. unfold hdr_of_bytes. rewrite RB. reflexivity.
      - destruct (lookup k tl); [reflexivity|]. destruct k; try discriminate; reflexivity. }
    split; [|split; [exact SW|]].
    { apply VV. unfold exts6_valid, set_hop. cbn. rewrite V. reflexivity. }
    assert (FI : clr_hop (flags_init e) = flags_of tl).
    { rewrite (flags_init_of e _ SW IT). unfold clr_hop, flags_of.
      cbn [lookup kind_eqb fl_destination_options fl_routing fl_fragment fl_auth fl_final_destination_options].
      rewrite NOHOP. reflexivity. }
    assert (G' : forall k hb', lookup k tl = Some hb' -> get_hdr e k = hdr_of_bytes k hb').
    { intros k hb' L. rewrite G, L. reflexivity. }
    assert (FR : (free [KHopByHop] < LOOP_FUEL)%nat) by (pose proof (free_le5 [KHopByHop]); unfold LOOP_FUEL; lia).
    destruct (write_loop_walk LOOP_FUEL tl e [KHopByHop] _ _ _ _ _ hb CH IT' G' FR) as (IW & IN).
    change (has KRouting [KHopByHop]) with false in IW, IN.
    unfold write, next_header, IPV6_HOP_BY_HOP. rewrite (N.eqb_sym 0 first), E0, HH.
    cbn [set_hop hop_by_hop_options]. rewrite TB, FI. split; [exact IW|exact IN].
  - apply chain_ok_start_irrelevant in CH; [|exact E0].
    destruct (struct_slots chain [] _ _ _ _ _ exts6_default CH IT slots_agree_default) as (G & VV & HH).
    set (e := struct_from exts6_default chain) in *.
    assert (SW : slotwise e chain).
    { intros k. rewrite G. destruct (lookup k chain); [reflexivity|]. destruct k; reflexivity. }
    split; [apply VV; reflexivity|]. split; [exact SW|].
    assert (G' : forall k hb', lookup k chain = Some hb' -> get_hdr e k = hdr_of_bytes k hb').
    { intros k hb' L. rewrite G, L. reflexivity. }
    assert (FR : (free [] < LOOP_FUEL)%nat) by (pose proof (free_le5 []); unfold LOOP_FUEL; lia).
    destruct (write_loop_walk LOOP_FUEL chain e [] _ _ _ _ _ [] CH IT G' FR) as (IW & IN).
    change (has KRouting []) with false in IW, IN.
    unfold write, next_header, IPV6_HOP_BY_HOP. rewrite (N.eqb_sym 0 first), E0.
    rewrite (flags_init_of e _ SW IT). split; [exact IW|exact IN].
Qed.
