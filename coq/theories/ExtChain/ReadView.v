(* ExtChain/ReadView.v -- vocabulary for the statements about the reader-based decoders:
   the reader state as (data left, chunking, position, plain | LimitedReader), and the
   answer of read / read_limited a walk of the specification stands for. *)
From EP Require Import Base.Bytes IoFault.Spec IoFault.Model ExtChain.Spec ExtChain.Model ExtChain.View
  ExtChain.WalkSpec ExtChain.WalkView ExtChain.ReadModel.
Local Open Scope N_scope.

Inductive rmode := MPlain | MLim (r : limrd).

(* a reader over the bytes d (chunk c per read call, p bytes delivered so far, EOF at the end) *)
Definition mk_st (d : bytes) (c p : N) (m : rmode) : rstate :=
  mk_rstate (mk_fsource d c false p) (match m with MPlain => None | MLim r => Some r end).

Definition lim_of (m : rmode) : bool := match m with MPlain => false | MLim _ => true end.

(* what read_exact may still take *)
Definition avail (d : bytes) (m : rmode) : N :=
  match m with MPlain => len d | MLim r => lr_max r - lr_read r end.

(* "the input holds the chain": the LimitedReader's budget does not exceed the data *)
Definition m_ok (d : bytes) (m : rmode) : Prop :=
  match m with MPlain => True | MLim r => lr_read r <= lr_max r /\ lr_max r - lr_read r <= len d end.

(* the bytes the decoder can see *)
Definition view (d : bytes) (m : rmode) : bytes := take (avail d m) d.

(* err::Layer codes of IoFault/Model.v *)
Definition layer_code (k : ext_kind) : N :=
  match k with
  | KFragment => L_IPV6FRAG
  | KAuth => L_AUTH
  | _ => L_IPV6EXT
  end.

(* required_len in the LenError of the LimitedReader: the options header readers ask for 2
   bytes first and then for what the length byte says, so with fewer than 8 bytes left they
   report 2 or (Hdr Ext Len + 1) * 8 where the slice decoder reports 8 *)
Definition lim_required (k : ext_kind) (left : bytes) (rq : N) : N :=
  match k with
  | KFragment | KAuth => rq
  | _ => match left with
         | _ :: hl :: _ => (hl + 1) * 8
         | _ => 2
         end
  end.

(* Ipv6Extensions::read / read_limited seen through a walk over the visible bytes:
   same struct and number as from_slice; a framing fault is the end of file on a plain
   reader and the LimitedReader's LenError otherwise *)
Definition read_from (m : rmode) (e0 : Exts6) (w : walk) : qres (Exts6 * N) :=
  match w_stop w with
  | SNonExt | SRefilled => QOk (struct_from e0 (w_chain w), w_next w)
  | SHopNotAtStart => QContent CHopNotAtStart
  | SFault k FAuthZeroLen => QContent CAuthZeroLen
  | SFault k (FLen rq) =>
    match m with
    | MPlain => QIo KEof
    | MLim r => QLen (mk_lenerr (lim_required k (w_rest w) rq) (len (w_rest w)) (lr_source r) (layer_code k)
                                (lr_off r + lr_read r + len (consumed w)))
    end
  | SFuel => QFuel
  end.

Definition read_of_walk (m : rmode) (w : walk) := read_from m exts6_default w.

Definition read4_of_walk (m : rmode) (w : walk) : qres (Exts4 * N) :=
  match w_stop w with
  | SFault k FAuthZeroLen => QContent CAuthZeroLen
  | SFault k (FLen rq) =>
    match m with
    | MPlain => QIo KEof
    | MLim r => QLen (mk_lenerr rq (len (w_rest w)) (lr_source r) L_AUTH (lr_off r + lr_read r))
    end
  | SFuel => QFuel
  | _ => QOk (struct4_of_chain (w_chain w), w_next w)
  end.

Definition is_qok {A} (q : qres A) : bool := match q with QOk _ => true | _ => false end.

(* ---- erasure to the read programs of C16 (IoFault/Model.v) ---- *)
Definition qmap {A B} (f : A -> B) (q : qres A) : qres B :=
  match q with
  | QOk a => QOk (f a)
  | QIo e => QIo e
  | QLen e => QLen e
  | QContent c => QContent c
  | QUnderflow => QUnderflow
  | QBad => QBad
  | QFuel => QFuel
  end.

(* which positions of the struct are filled, as C16's `slots` *)
Definition slots_of (e : Exts6) : slots :=
  mk_slots (is_some (hop_by_hop_options e)) (is_some (destination_options e)) (is_some (routing e))
           (match routing e with Some r => is_some (rt_final_destination_options r) | None => false end)
           (is_some (fragment e)) (is_some (auth e)).

(* the summary the program x6_read returns: [next protocol number; mask of filled positions] *)
Definition summary6 (r : Exts6 * N) : list N := [snd r; slots_mask (slots_of (fst r))].
Definition summary4 (r : Exts4 * N) : list N := [snd r; if is_some (auth4 (fst r)) then 1 else 0].
