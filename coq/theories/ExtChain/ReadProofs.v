(* ExtChain/ReadProofs.v -- Ipv6Extensions::read / read_limited and Ipv4Extensions::read /
   read_limited of ReadModel.v give the struct and number from_slice gives on the bytes the
   reader can deliver, leave the reader behind the chain, and never reach QBad / QUnderflow /
   QFuel.  Reader lemmas of C16 (IoFault/Proofs.v: io_read_exact_ok/_fail,
   lr_read_exact_within/_len) are used as they are. *)
From EP Require Import Base.Bytes IoFault.Spec IoFault.Model IoFault.Proofs
  ExtChain.Spec ExtChain.Model ExtChain.View ExtChain.Proofs
  ExtChain.WalkSpec ExtChain.WalkView ExtChain.WalkProofs ExtChain.WriteBack ExtChain.DecodeTotal
  ExtChain.ReadModel ExtChain.ReadView.
From Coq Require Import ZArith Lia ZifyN ZifyBool.
Local Open Scope N_scope.

(* ---- lists ---- *)
Lemma take_take {A} n a (l : list A) : n <= a -> take n (take a l) = take n l.
Proof. intros H. unfold take. rewrite firstn_firstn. f_equal. lia. Qed.

Lemma drop_take {A} n a (l : list A) : drop n (take a l) = take (a - n) (drop n l).
Proof.
  unfold drop, take. rewrite skipn_firstn_comm. f_equal. lia.
Qed.

Lemma drop_drop {A} a b (l : list A) : drop a (drop b l) = drop (b + a) l.
Proof.
  unfold drop. replace (N.to_nat (b + a)) with (N.to_nat b + N.to_nat a)%nat by lia.
  generalize (N.to_nat a) as x. generalize (N.to_nat b) as y. clear a b. intros y. revert l.
  induction y as [|y IH]; intros l x; [reflexivity|]. destruct l as [|h t]; cbn [skipn Nat.add].
  - destruct x; reflexivity.
  - apply IH.
Qed.

Lemma drop_0 {A} (l : list A) : drop 0 l = l.
Proof. reflexivity. Qed.

(* ---- reader modes ---- *)
Definition m_start (m : rmode) (layer : N) : rmode :=
  match m with
  | MPlain => MPlain
  | MLim r => MLim (mk_limrd (lr_max r - lr_read r) (lr_source r) layer (lr_off r + lr_read r) 0)
  end.

Definition m_adv (m : rmode) (n : N) : rmode :=
  match m with
  | MPlain => MPlain
  | MLim r => MLim (mk_limrd (lr_max r) (lr_source r) (lr_layer r) (lr_off r) (lr_read r + n))
  end.

(* after a complete header of n bytes read in layer `layer` *)
Definition m_done (m : rmode) (layer n : N) : rmode :=
  match m with
  | MPlain => MPlain
  | MLim r => MLim (mk_limrd (lr_max r - lr_read r) (lr_source r) layer (lr_off r + lr_read r) n)
  end.

(* a read_exact that asks for n bytes more than are available *)
Definition m_fail {A} (m : rmode) (n : N) : qres A :=
  match m with
  | MPlain => QIo KEof
  | MLim r => QLen (mk_lenerr (lr_read r + n) (lr_max r) (lr_source r) (lr_layer r) (lr_off r))
  end.

Lemma start_layer_st d c p m layer : m_ok d m ->
  start_layer (lim_of m) layer (mk_st d c p m) = (QOk tt, mk_st d c p (m_start m layer)).
Proof.
  destruct m as [|r]; cbn [lim_of start_layer m_start]; [reflexivity|].
  intros [H1 _]. unfold mk_st. cbn [rs_lim rs_src]. unfold lr_start_layer, checked_sub.
  replace (lr_read r <=? lr_max r) with true by (symmetry; apply N.leb_le; lia). reflexivity.
Qed.

Lemma rd_exact_ok d c p m n : 1 <= c -> m_ok d m -> n <= avail d m ->
  rd_exact (mk_st d c p m) n = (QOk (take n d), mk_st (drop n d) c (p + n) (m_adv m n)).
Proof.
  intros Hc Hok Hn. destruct m as [|r]; unfold rd_exact, mk_st; cbn [rs_lim rs_src avail m_adv] in *.
  - rewrite io_read_exact_ok by (cbn [src_chunk src_data]; lia). reflexivity.
  - destruct Hok as [H1 H2].
    rewrite lr_read_exact_within by (cbn [src_chunk src_data]; lia).
    cbn [src_data src_chunk src_err src_pulled].
    replace (n <=? len d) with true by (symmetry; apply N.leb_le; lia). reflexivity.
Qed.

Lemma rd_exact_fail d c p m n : 1 <= c -> m_ok d m -> avail d m < n ->
  fst (rd_exact (mk_st d c p m) n) = m_fail m n.
Proof.
  intros Hc Hok Hn. destruct m as [|r]; unfold rd_exact, mk_st; cbn [rs_lim rs_src avail m_fail] in *.
  - rewrite io_read_exact_fail by (cbn [src_chunk src_data]; lia). reflexivity.
  - destruct Hok as [H1 H2]. rewrite lr_read_exact_len by lia. reflexivity.
Qed.

Lemma m_ok_start d m layer : m_ok d m -> m_ok d (m_start m layer).
Proof. destruct m as [|r]; cbn; [auto|]. intros [H1 H2]. lia. Qed.

Lemma avail_start d m layer : m_ok d m -> avail d (m_start m layer) = avail d m.
Proof. destruct m as [|r]; cbn; [reflexivity|]. intros [H1 H2]. lia. Qed.

Lemma m_ok_adv d m n : m_ok d m -> n <= avail d m -> m_ok (drop n d) (m_adv m n).
Proof.
  destruct m as [|r]; cbn [m_ok m_adv avail lr_max lr_read]; [auto|].
  intros [H1 H2] H. rewrite len_drop. lia.
Qed.

Lemma avail_adv d m n : n <= avail d m -> avail (drop n d) (m_adv m n) = avail d m - n.
Proof.
  destruct m as [|r]; cbn [m_adv avail lr_max lr_read]; intros H; [apply len_drop|lia].
Qed.

Lemma avail_le d m : m_ok d m -> avail d m <= len d.
Proof. destruct m as [|r]; cbn; [lia|]. intros [H1 H2]. lia. Qed.

Lemma m_ok_done d m layer n : m_ok d m -> n <= avail d m -> m_ok (drop n d) (m_done m layer n).
Proof.
  destruct m as [|r]; cbn [m_ok m_done avail lr_max lr_read]; [auto|].
  intros [H1 H2] H. rewrite len_drop. lia.
Qed.

Lemma avail_done d m layer n : n <= avail d m -> avail (drop n d) (m_done m layer n) = avail d m - n.
Proof.
  destruct m as [|r]; cbn [m_done avail lr_max lr_read]; intros H; [apply len_drop|reflexivity].
Qed.

Lemma lim_of_done m layer n : lim_of (m_done m layer n) = lim_of m.
Proof. destruct m; reflexivity. Qed.

Lemma m_adv_start m layer n : m_adv (m_start m layer) n = m_done m layer n.
Proof. destruct m; reflexivity. Qed.

Lemma m_adv_done m layer a n : m_adv (m_done m layer a) n = m_done m layer (a + n).
Proof. destruct m; reflexivity. Qed.

Lemma view_len d m : m_ok d m -> len (view d m) = avail d m.
Proof. intros H. unfold view. apply len_take_le. apply avail_le. exact H. Qed.

Lemma view_done d m layer n : n <= avail d m ->
  drop n (view d m) = view (drop n d) (m_done m layer n).
Proof. intros H. unfold view. rewrite drop_take, avail_done by exact H. reflexivity. Qed.

Lemma view_take d m n : n <= avail d m -> take n (view d m) = take n d.
Proof. intros H. unfold view. apply take_take. exact H. Qed.

(* the error a failing read_exact gives, r bytes into a layer that started with `left` bytes *)
Definition fail_at {A} (m : rmode) (layer required left : N) : qres A :=
  match m with
  | MPlain => QIo KEof
  | MLim r => QLen (mk_lenerr required left (lr_source r) layer (lr_off r + lr_read r))
  end.

Lemma m_fail_start {A} m layer n d : m_ok d m ->
  @m_fail A (m_start m layer) n = fail_at m layer n (avail d m).
Proof. destruct m as [|r]; cbn; [reflexivity|]. intros _. reflexivity. Qed.

Lemma m_fail_done {A} m layer a n d : m_ok d m ->
  @m_fail A (m_done m layer a) n = fail_at m layer (a + n) (avail d m).
Proof. destruct m as [|r]; cbn; [reflexivity|]. intros _. reflexivity. Qed.

(* ---- Ipv6RawExtHeader::read / read_limited ---- *)
Lemma raw_read_framed d c p m hb nh v' : 1 <= c -> bytes_ok d -> m_ok d m ->
  frame_options (view d m) = Framed hb nh v' ->
  exists h, raw_of_bytes hb = Some h /\ r_next_header h = nh /\ len hb <= avail d m /\ 8 <= len hb /\
    raw_read (lim_of m) (mk_st d c p m)
    = (QOk h, mk_st (drop (len hb) d) c (p + len hb) (m_done m L_IPV6EXT (len hb))) /\
    v' = view (drop (len hb) d) (m_done m L_IPV6EXT (len hb)).
Proof.
  intros Hc OK Hok F. pose proof (view_len d m Hok) as LV.
  apply frame_options_framed in F.
  destruct F as (hl & R1 & L8 & E & LH & R0 & R1' & ET & ED & LE). rewrite LV in L8, LE.
  rewrite view_take in ET by exact LE.
  pose proof (avail_le d m Hok) as AL.
  destruct d as [|d0 [|d1 t]]; try (rewrite ?len_cons, ?len_nil in AL; lia).
  rewrite take_S_cons in ET by lia. rewrite take_S_cons in ET by lia.
  replace ((hl + 1) * 8 - 1 - 1) with (hl * 8 + 6) in ET by lia.
  subst hb. change (rd (d0 :: d1 :: take (hl * 8 + 6) t) 0) with (Some d0) in R0.
  change (rd (d0 :: d1 :: take (hl * 8 + 6) t) 1) with (Some d1) in R1'.
  injection R0 as ->. injection R1' as ->.
  exists (mkRaw nh hl (take (hl * 8 + 6) t)). split; [reflexivity|]. split; [reflexivity|].
  split; [lia|]. split; [lia|].
  assert (DR : drop ((hl + 1) * 8) (nh :: hl :: t) = drop (hl * 8 + 6) t).
  { rewrite drop_S_cons by lia. rewrite drop_S_cons by lia. f_equal. lia. }
  split.
  - unfold raw_read. rewrite start_layer_st by exact Hok. cbn [qbind].
    pose proof (m_ok_start _ _ L_IPV6EXT Hok) as Hok1. pose proof (avail_start _ _ L_IPV6EXT Hok) as A1.
    rewrite rd_exact_ok by (try assumption; lia). cbn [qbind].
    change (take 2 (nh :: hl :: t)) with [nh; hl]. change (drop 2 (nh :: hl :: t)) with t.
    change (rd [nh; hl] 0) with (Some nh). change (rd [nh; hl] 1) with (Some hl). cbv iota beta.
    pose proof (m_ok_adv _ _ 2 Hok1 ltac:(lia)) as Hok2. change (drop 2 (nh :: hl :: t)) with t in Hok2.
    pose proof (avail_adv (nh :: hl :: t) (m_start m L_IPV6EXT) 2 ltac:(lia)) as A2.
    change (drop 2 (nh :: hl :: t)) with t in A2.
    rewrite rd_exact_ok by (try assumption; lia). cbn [qbind].
    rewrite LH, DR, m_adv_start, m_adv_done. do 2 f_equal; [lia|f_equal; lia].
  - rewrite ED, LH. apply view_done. exact LE.
Qed.

Lemma raw_read_fault d c p m x : 1 <= c -> m_ok d m ->
  frame_options (view d m) = Fault x ->
  exists rq, x = FLen rq /\
    fst (raw_read (lim_of m) (mk_st d c p m))
    = fail_at m L_IPV6EXT (match view d m with _ :: hl :: _ => (hl + 1) * 8 | _ => 2 end) (avail d m).
Proof.
  intros Hc Hok F. pose proof (view_len d m Hok) as LV. pose proof (avail_le d m Hok) as AL.
  assert (X : exists rq, x = FLen rq /\
     match view d m with _ :: hl :: _ => avail d m < (hl + 1) * 8 | _ => True end).
  { apply frame_options_fault in F. destruct F as [[L ->]|(hl & L8 & R1 & L & ->)].
    - exists 8. split; [reflexivity|]. destruct (view d m) as [|v0 [|hl t]]; auto. lia.
    - exists ((hl + 1) * 8). split; [reflexivity|]. destruct (view d m) as [|v0 [|hl' t]]; auto.
      change (rd (v0 :: hl' :: t) 1) with (Some hl') in R1. injection R1 as ->. lia. }
  destruct X as (rq & -> & X). exists rq. split; [reflexivity|].
  unfold raw_read. rewrite start_layer_st by exact Hok. cbn [qbind].
  pose proof (m_ok_start _ _ L_IPV6EXT Hok) as Hok1. pose proof (avail_start _ _ L_IPV6EXT Hok) as A1.
  destruct (N.lt_ge_cases (avail d m) 2) as [L2|L2].
  - (* not even the two fixed bytes *)
    pose proof (rd_exact_fail d c p (m_start m L_IPV6EXT) 2 Hc Hok1 ltac:(lia)) as Fl.
    destruct (rd_exact (mk_st d c p (m_start m L_IPV6EXT)) 2) as [q st]. cbn [fst] in Fl. subst q.
    destruct (view d m) as [|v0 [|hl t]] eqn:EV; try (rewrite ?len_cons, ?len_nil in LV; lia).
    + destruct m; reflexivity.
    + destruct m; reflexivity.
  - rewrite rd_exact_ok by (try assumption; lia). cbn [qbind].
    destruct d as [|d0 [|d1 t]]; try (rewrite ?len_cons, ?len_nil in AL; lia).
    assert (EV : exists t', view (d0 :: d1 :: t) m = d0 :: d1 :: t').
    { unfold view. rewrite take_S_cons by lia. rewrite take_S_cons by lia. eexists. reflexivity. }
    destruct EV as (t' & EV). rewrite EV in X |- *.
    change (take 2 (d0 :: d1 :: t)) with [d0; d1]. change (drop 2 (d0 :: d1 :: t)) with t.
    change (rd [d0; d1] 0) with (Some d0). change (rd [d0; d1] 1) with (Some d1). cbv iota beta.
    pose proof (m_ok_adv _ _ 2 Hok1 ltac:(lia)) as Hok2. change (drop 2 (d0 :: d1 :: t)) with t in Hok2.
    pose proof (avail_adv (d0 :: d1 :: t) (m_start m L_IPV6EXT) 2 ltac:(lia)) as A2.
    change (drop 2 (d0 :: d1 :: t)) with t in A2.
    pose proof (rd_exact_fail t c (p + 2) (m_adv (m_start m L_IPV6EXT) 2) (d1 * 8 + 6) Hc Hok2 ltac:(lia)) as Fl.
    destruct (rd_exact (mk_st t c (p + 2) (m_adv (m_start m L_IPV6EXT) 2)) (d1 * 8 + 6)) as [q st].
    cbn [fst] in Fl. subst q. rewrite m_adv_start.
    destruct m as [|r]; cbn; [reflexivity|]. do 2 f_equal. lia.
Qed.

(* ---- Ipv6FragmentHeader::read / read_limited ---- *)
Lemma frag_to_header_spec {E} hb : len hb = 8 ->
  exists h, frag_of_bytes hb = Some h /\ @frag_slice_to_header E hb = Ok h /\ rd hb 0 = Some (f_next_header h).
Proof.
  intros LH.
  destruct hb as [|b0 [|b1 [|b2 [|b3 [|b4 [|b5 [|b6 [|b7 [|b8 r]]]]]]]]]; try (rewrite ?len_cons, ?len_nil in LH; lia).
  eexists. split; [reflexivity|]. split; [|reflexivity].
  unfold frag_slice_to_header. rewrite rd0, rd2, rd3, rd4, rd5, rd6, rd7.
  rewrite shiftr3, odd_land1. reflexivity.
Qed.

Lemma frag_read_framed d c p m hb nh v' : 1 <= c -> m_ok d m ->
  frame_fragment (view d m) = Framed hb nh v' ->
  exists h, frag_of_bytes hb = Some h /\ f_next_header h = nh /\ len hb <= avail d m /\ 8 <= len hb /\
    frag_read (lim_of m) (mk_st d c p m)
    = (QOk h, mk_st (drop (len hb) d) c (p + len hb) (m_done m L_IPV6FRAG (len hb))) /\
    v' = view (drop (len hb) d) (m_done m L_IPV6FRAG (len hb)).
Proof.
  intros Hc Hok F. pose proof (view_len d m Hok) as LV.
  apply frame_fragment_framed in F. destruct F as (L8 & E & LH & R0 & ET & ED). rewrite LV in L8.
  rewrite view_take in ET by exact L8.
  destruct (@frag_to_header_spec unit hb LH) as (h & FB & TH & R0').
  exists h. split; [exact FB|]. split; [congruence|]. split; [lia|]. split; [lia|]. split.
  - unfold frag_read. rewrite start_layer_st by exact Hok. cbn [qbind].
    pose proof (m_ok_start _ _ L_IPV6FRAG Hok) as Hok1. pose proof (avail_start _ _ L_IPV6FRAG Hok) as A1.
    rewrite rd_exact_ok by (try assumption; lia). cbn [qbind]. rewrite <- ET, TH, LH, m_adv_start. reflexivity.
  - rewrite ED, LH. apply view_done. exact L8.
Qed.

Lemma frag_read_fault d c p m x : 1 <= c -> m_ok d m ->
  frame_fragment (view d m) = Fault x ->
  x = FLen 8 /\ fst (frag_read (lim_of m) (mk_st d c p m)) = fail_at m L_IPV6FRAG 8 (avail d m).
Proof.
  intros Hc Hok F. pose proof (view_len d m Hok) as LV.
  apply frame_fragment_fault in F. destruct F as [L ->]. rewrite LV in L. split; [reflexivity|].
  unfold frag_read. rewrite start_layer_st by exact Hok. cbn [qbind].
  pose proof (m_ok_start _ _ L_IPV6FRAG Hok) as Hok1. pose proof (avail_start _ _ L_IPV6FRAG Hok) as A1.
  pose proof (rd_exact_fail d c p (m_start m L_IPV6FRAG) 8 Hc Hok1 ltac:(lia)) as Fl.
  destruct (rd_exact (mk_st d c p (m_start m L_IPV6FRAG)) 8) as [q st]. cbn [fst] in Fl. subst q.
  destruct m; reflexivity.
Qed.

(* ---- IpAuthHeader::read / read_limited ---- *)
Lemma auth_read_framed d c p m hb nh v' : 1 <= c -> m_ok d m ->
  frame_auth (view d m) = Framed hb nh v' ->
  exists h, auth_of_bytes hb = Some h /\ a_next_header h = nh /\ len hb <= avail d m /\ 8 <= len hb /\
    auth_read (lim_of m) (mk_st d c p m)
    = (QOk h, mk_st (drop (len hb) d) c (p + len hb) (m_done m L_AUTH (len hb))) /\
    v' = view (drop (len hb) d) (m_done m L_AUTH (len hb)).
Proof.
  intros Hc Hok F. pose proof (view_len d m Hok) as LV. pose proof (avail_le d m Hok) as AL.
  apply frame_auth_framed in F.
  destruct F as (pl & R1 & L12 & P & E & LH & R0 & R1' & ET & ED & LE). rewrite LV in L12, LE.
  rewrite view_take in ET by exact LE.
  destruct d as [|b0 [|b1 [|b2 [|b3 [|b4 [|b5 [|b6 [|b7 [|b8 [|b9 [|b10 [|b11 t]]]]]]]]]]]];
    try (rewrite ?len_cons, ?len_nil in AL; lia).
  set (d := b0 :: b1 :: b2 :: b3 :: b4 :: b5 :: b6 :: b7 :: b8 :: b9 :: b10 :: b11 :: t) in *.
  assert (TK : take ((pl + 2) * 4) d = [b0; b1; b2; b3; b4; b5; b6; b7; b8; b9; b10; b11] ++ take ((pl - 1) * 4) t).
  { unfold d, take. replace (N.to_nat ((pl + 2) * 4)) with (12 + N.to_nat ((pl - 1) * 4))%nat by lia. reflexivity. }
  assert (DR : drop ((pl + 2) * 4) d = drop ((pl - 1) * 4) t).
  { unfold d, drop. replace (N.to_nat ((pl + 2) * 4)) with (12 + N.to_nat ((pl - 1) * 4))%nat by lia. reflexivity. }
  rewrite TK in ET. subst hb. cbn [app] in R0, R1'. rewrite rd0 in R0. rewrite rd1 in R1'.
  injection R0 as ->. injection R1' as ->.
  eexists. split; [reflexivity|]. split; [reflexivity|]. split; [lia|]. split; [lia|]. split.
  - unfold auth_read. rewrite start_layer_st by exact Hok. cbn [qbind].
    pose proof (m_ok_start _ _ L_AUTH Hok) as Hok1. pose proof (avail_start _ _ L_AUTH Hok) as A1.
    rewrite rd_exact_ok by (try assumption; lia). cbn [qbind].
    change (take 12 d) with [nh; pl; b2; b3; b4; b5; b6; b7; b8; b9; b10; b11]. change (drop 12 d) with t.
    rewrite rd0, rd1, rd4, rd5, rd6, rd7, rd8, rd9, rd10, rd11.
    destruct (pl <? 1) eqn:X; [apply N.ltb_lt in X; lia|].
    pose proof (m_ok_adv _ _ 12 Hok1 ltac:(lia)) as Hok2. change (drop 12 d) with t in Hok2.
    pose proof (avail_adv d (m_start m L_AUTH) 12 ltac:(lia)) as A2. change (drop 12 d) with t in A2.
    rewrite rd_exact_ok by (try assumption; lia). cbn [qbind].
    rewrite LH, DR, m_adv_start, m_adv_done. do 2 f_equal; [lia|f_equal; lia].
  - rewrite ED, LH. apply view_done. exact LE.
Qed.

Lemma auth_read_fault d c p m x : 1 <= c -> m_ok d m ->
  frame_auth (view d m) = Fault x ->
  fst (auth_read (lim_of m) (mk_st d c p m))
  = match x with
    | FLen rq => fail_at m L_AUTH rq (avail d m)
    | FAuthZeroLen => QContent CAuthZeroLen
    end.
Proof.
  intros Hc Hok F. pose proof (view_len d m Hok) as LV. pose proof (avail_le d m Hok) as AL.
  apply frame_auth_fault in F.
  unfold auth_read. rewrite start_layer_st by exact Hok. cbn [qbind].
  pose proof (m_ok_start _ _ L_AUTH Hok) as Hok1. pose proof (avail_start _ _ L_AUTH Hok) as A1.
  destruct F as [[L ->]|F].
  { rewrite LV in L.
    pose proof (rd_exact_fail d c p (m_start m L_AUTH) 12 Hc Hok1 ltac:(lia)) as Fl.
    destruct (rd_exact (mk_st d c p (m_start m L_AUTH)) 12) as [q st]. cbn [fst] in Fl. subst q.
    destruct m; reflexivity. }
  assert (L12 : 12 <= avail d m) by (destruct F as [(L & _)|(pl & L & _)]; lia).
  destruct d as [|b0 [|b1 [|b2 [|b3 [|b4 [|b5 [|b6 [|b7 [|b8 [|b9 [|b10 [|b11 t]]]]]]]]]]]];
    try (rewrite ?len_cons, ?len_nil in AL; lia).
  set (d := b0 :: b1 :: b2 :: b3 :: b4 :: b5 :: b6 :: b7 :: b8 :: b9 :: b10 :: b11 :: t) in *.
  assert (RV : rd (view d m) 1 = Some b1).
  { unfold view. rewrite rd_take_lt by lia. reflexivity. }
  rewrite rd_exact_ok by (try assumption; lia). cbn [qbind].
  change (take 12 d) with [b0; b1; b2; b3; b4; b5; b6; b7; b8; b9; b10; b11]. change (drop 12 d) with t.
  rewrite rd0, rd1, rd4, rd5, rd6, rd7, rd8, rd9, rd10, rd11.
  destruct F as [(_ & R1 & ->)|(pl & _ & R1 & P & L & ->)]; rewrite RV in R1; injection R1 as ->.
  - reflexivity.
  - destruct (pl <? 1) eqn:X; [apply N.ltb_lt in X; lia|].
    pose proof (m_ok_adv _ _ 12 Hok1 ltac:(lia)) as Hok2. change (drop 12 d) with t in Hok2.
    pose proof (avail_adv d (m_start m L_AUTH) 12 ltac:(lia)) as A2. change (drop 12 d) with t in A2.
    rewrite LV in L.
    pose proof (rd_exact_fail t c (p + 12) (m_adv (m_start m L_AUTH) 12) ((pl - 1) * 4) Hc Hok2 ltac:(lia)) as Fl.
    destruct (rd_exact (mk_st t c (p + 12) (m_adv (m_start m L_AUTH) 12)) ((pl - 1) * 4)) as [q st].
    cbn [fst] in Fl. subst q. rewrite m_adv_start.
    destruct m as [|r]; cbn; [reflexivity|]. do 2 f_equal. lia.
Qed.

(* ------------------------------------------------------------------ *)
(* the loop of Ipv6Extensions::read / read_limited against the walk over the visible bytes *)

(* answer = the walk's; on success the reader stands behind the consumed bytes and what it can
   still deliver is the walk's rest *)
Definition rpost {A} (d : bytes) (c p : N) (lm : bool) (w : walk) (expected : qres A) (r : qres A * rstate) : Prop :=
  fst r = expected /\
  (is_qok (fst r) = true ->
   exists m', snd r = mk_st (drop (len (consumed w)) d) c (p + len (consumed w)) m'
              /\ view (drop (len (consumed w)) d) m' = w_rest w /\ m_ok (drop (len (consumed w)) d) m'
              /\ lim_of m' = lm).

Lemma read_from_cons m layer e0 k hb w :
  read_from m e0 (mkWalk ((k, hb) :: w_chain w) (w_next w) (w_rest w) (w_stop w))
  = read_from (m_done m layer (len hb)) (place e0 (k, hb)) w.
Proof.
  unfold read_from, consumed. cbn [w_stop w_chain w_next w_rest map snd concat struct_from fold_left].
  destruct (w_stop w) as [| | |k' [rq|]|]; try reflexivity.
  destruct m as [|r]; cbn [m_done lr_source lr_off lr_read]; [reflexivity|].
  rewrite len_app. do 2 f_equal. lia.
Qed.

Lemma rpost_cons {A} d c p lm (k : ext_kind) hb (w : walk) (expected : qres A) r :
  rpost (drop (len hb) d) c (p + len hb) lm w expected r ->
  rpost d c p lm (mkWalk ((k, hb) :: w_chain w) (w_next w) (w_rest w) (w_stop w)) expected r.
Proof.
  unfold rpost, consumed. cbn [w_chain w_rest map snd concat]. intros [H1 H2]. split; [exact H1|].
  intros Q. destruct (H2 Q) as (m' & S & V & O & LM). exists m'.
  rewrite len_app, <- drop_drop, N.add_assoc. auto.
Qed.

Lemma rpost_stop {A} d c p m n (a : A) st : m_ok d m ->
  rpost d c p (lim_of m) (mkWalk [] n (view d m) st) (QOk a) (QOk a, mk_st d c p m).
Proof.
  intros O. unfold rpost, consumed. cbn. split; [reflexivity|]. intros _. exists m.
  rewrite N.add_0_r. auto.
Qed.

Lemma rpost_err {A} d c p lm w (q : qres A) (r : qres A * rstate) :
  fst r = q -> is_qok q = false -> rpost d c p lm w q r.
Proof. intros H1 H2. unfold rpost. split; [exact H1|]. rewrite H1, H2. discriminate. Qed.

Lemma qbind_fail {A B} (r : qres A * rstate) (k : A -> rstate -> qres B * rstate) (q : qres A) :
  fst r = q -> is_qok q = false ->
  fst (qbind r k) = match q with
                    | QOk _ => QBad | QIo e => QIo e | QLen e => QLen e | QContent x => QContent x
                    | QUnderflow => QUnderflow | QBad => QBad | QFuel => QFuel
                    end.
Proof. destruct r as [q' st]. cbn [fst]. intros -> H. destruct q; try discriminate; reflexivity. Qed.

Lemma view_step (d : bytes) m hb v' fs : view d m = hb ++ v' -> 8 <= len hb ->
  (length (view d m) < S fs)%nat -> (length v' < fs)%nat.
Proof. intros -> L8 LF. rewrite app_length in LF. unfold len in L8. lia. Qed.

Lemma read6_loop_walk fm : forall fs d c p m result n seen,
  1 <= c -> bytes_ok d -> m_ok d m -> slots_agree seen result ->
  (free seen < fm)%nat -> (length (view d m) < fs)%nat ->
  rpost d c p (lim_of m) (walk_loop fs false seen n (view d m))
        (read_from m result (walk_loop fs false seen n (view d m)))
        (read6_loop fm (lim_of m) result n (mk_st d c p m)).
Proof.
  induction fm as [|fm IH]; intros fs d c p m result n seen Hc OK Hok SA FR LF; [lia|].
  destruct fs as [|fs]; [lia|].
  cbn [read6_loop walk_loop].
  unfold arm_of, decide, IPV6_HOP_BY_HOP, IPV6_DEST_OPTIONS, IPV6_ROUTE, IPV6_FRAG, AUTH. cbn [ip_number_of].
  sa_destruct SA.
  destruct (n =? 0) eqn:E0; [apply rpost_err; reflexivity|].
  destruct (n =? 60) eqn:E60.
  { rewrite SAr. destruct (routing result) as [rt|] eqn:ER; cbn [is_some].
    - rewrite SAx. unfold has_final. rewrite ER.
      destruct (is_some (rt_final_destination_options rt)) eqn:EF; [apply rpost_stop; exact Hok|].
      cbn [frame]. destruct (frame_options (view d m)) as [hb nh v'|x] eqn:F.
      + destruct (raw_read_framed d c p m hb nh v' Hc OK Hok F) as (h & RB & NH & LA & L8 & RR & EV).
        pose proof (frame_framed KFinalDestOpts _ hb nh v' F) as (E & _).
        rewrite RR. cbn [qbind]. rewrite (read_from_cons m L_IPV6EXT). apply rpost_cons.
        rewrite NH, EV, <- (lim_of_done m L_IPV6EXT (len hb)).
        replace (place result (KFinalDestOpts, hb))
          with (set_routing result (mkRouting (rt_routing rt) (Some h))) by (unfold place; rewrite ER, RB; reflexivity).
        apply IH; try assumption.
        * apply bytes_ok_drop. exact OK.
        * apply m_ok_done; assumption.
        * sa_done.
        * assert (X : has KFinalDestOpts seen = false) by (rewrite SAx; unfold has_final; rewrite ER; exact EF).
          clear - FR X. unfold free in *. has_simpl. rewrite X in FR. cbn [fb] in *. lia.
        * rewrite <- EV. eapply view_step; eauto.
      + destruct (raw_read_fault d c p m x Hc Hok F) as (rq & -> & RR).
        apply rpost_err; [|destruct m; reflexivity].
        rewrite (qbind_fail _ _ _ RR) by (destruct m; reflexivity).
        unfold read_from, consumed, lim_required, layer_code, fail_at. cbn [w_stop w_rest w_chain map concat].
        rewrite (view_len d m Hok). destruct m as [|r]; [reflexivity|]. cbn [len]. rewrite N.add_0_r. reflexivity.
    - rewrite SAd.
      destruct (is_some (destination_options result)) eqn:ED; [apply rpost_stop; exact Hok|].
      cbn [frame]. destruct (frame_options (view d m)) as [hb nh v'|x] eqn:F.
      + destruct (raw_read_framed d c p m hb nh v' Hc OK Hok F) as (h & RB & NH & LA & L8 & RR & EV).
        pose proof (frame_framed KDestOpts _ hb nh v' F) as (E & _).
        rewrite RR. cbn [qbind]. rewrite (read_from_cons m L_IPV6EXT). apply rpost_cons.
        rewrite NH, EV, <- (lim_of_done m L_IPV6EXT (len hb)).
        replace (place result (KDestOpts, hb)) with (set_dst result h) by (unfold place; rewrite RB; reflexivity).
        apply IH; try assumption.
        * apply bytes_ok_drop. exact OK.
        * apply m_ok_done; assumption.
        * sa_done.
        * assert (X : has KDestOpts seen = false) by congruence.
          clear - FR X. unfold free in *. has_simpl. rewrite X in FR. cbn [fb] in *. lia.
        * rewrite <- EV. eapply view_step; eauto.
      + destruct (raw_read_fault d c p m x Hc Hok F) as (rq & -> & RR).
        apply rpost_err; [|destruct m; reflexivity].
        rewrite (qbind_fail _ _ _ RR) by (destruct m; reflexivity).
        unfold read_from, consumed, lim_required, layer_code, fail_at. cbn [w_stop w_rest w_chain map concat].
        rewrite (view_len d m Hok). destruct m as [|r]; [reflexivity|]. cbn [len]. rewrite N.add_0_r. reflexivity. }
  destruct (n =? 43) eqn:E43.
  { rewrite SAr. destruct (is_some (routing result)) eqn:ER; [apply rpost_stop; exact Hok|].
    cbn [frame]. destruct (frame_options (view d m)) as [hb nh v'|x] eqn:F.
    + destruct (raw_read_framed d c p m hb nh v' Hc OK Hok F) as (h & RB & NH & LA & L8 & RR & EV).
      pose proof (frame_framed KRouting _ hb nh v' F) as (E & _).
      rewrite RR. cbn [qbind]. rewrite (read_from_cons m L_IPV6EXT). apply rpost_cons.
      rewrite NH, EV, <- (lim_of_done m L_IPV6EXT (len hb)).
      replace (place result (KRouting, hb)) with (set_routing result (mkRouting h None))
        by (unfold place; rewrite RB; reflexivity).
      apply IH; try assumption.
      * apply bytes_ok_drop. exact OK.
      * apply m_ok_done; assumption.
      * sa_done.
      * assert (X : has KRouting seen = false) by congruence.
        clear - FR X. unfold free in *. has_simpl. rewrite X in FR. cbn [fb] in *. lia.
      * rewrite <- EV. eapply view_step; eauto.
    + destruct (raw_read_fault d c p m x Hc Hok F) as (rq & -> & RR).
      apply rpost_err; [|destruct m; reflexivity].
      rewrite (qbind_fail _ _ _ RR) by (destruct m; reflexivity).
      unfold read_from, consumed, lim_required, layer_code, fail_at. cbn [w_stop w_rest w_chain map concat].
      rewrite (view_len d m Hok). destruct m as [|r]; [reflexivity|]. cbn [len]. rewrite N.add_0_r. reflexivity. }
  destruct (n =? 44) eqn:E44.
  { rewrite SAf. destruct (is_some (fragment result)) eqn:EF; [apply rpost_stop; exact Hok|].
    cbn [frame]. destruct (frame_fragment (view d m)) as [hb nh v'|x] eqn:F.
    + destruct (frag_read_framed d c p m hb nh v' Hc Hok F) as (h & RB & NH & LA & L8 & RR & EV).
      pose proof (frame_framed KFragment _ hb nh v' F) as (E & _).
      rewrite RR. cbn [qbind]. rewrite (read_from_cons m L_IPV6FRAG). apply rpost_cons.
      rewrite NH, EV, <- (lim_of_done m L_IPV6FRAG (len hb)).
      replace (place result (KFragment, hb)) with (set_frag result h) by (unfold place; rewrite RB; reflexivity).
      apply IH; try assumption.
      * apply bytes_ok_drop. exact OK.
      * apply m_ok_done; assumption.
      * sa_done.
      * assert (X : has KFragment seen = false) by congruence.
        clear - FR X. unfold free in *. has_simpl. rewrite X in FR. cbn [fb] in *. lia.
      * rewrite <- EV. eapply view_step; eauto.
    + destruct (frag_read_fault d c p m x Hc Hok F) as (-> & RR).
      apply rpost_err; [|destruct m; reflexivity].
      rewrite (qbind_fail _ _ _ RR) by (destruct m; reflexivity).
      unfold read_from, consumed, lim_required, layer_code, fail_at. cbn [w_stop w_rest w_chain map concat].
      rewrite (view_len d m Hok). destruct m as [|r]; [reflexivity|]. cbn [len]. rewrite N.add_0_r. reflexivity. }
  destruct (n =? 51) eqn:E51.
  { rewrite SAa. destruct (is_some (auth result)) eqn:EA; [apply rpost_stop; exact Hok|].
    cbn [frame]. destruct (frame_auth (view d m)) as [hb nh v'|x] eqn:F.
    + destruct (auth_read_framed d c p m hb nh v' Hc Hok F) as (h & RB & NH & LA & L8 & RR & EV).
      pose proof (frame_framed KAuth _ hb nh v' F) as (E & _).
      rewrite RR. cbn [qbind]. rewrite (read_from_cons m L_AUTH). apply rpost_cons.
      rewrite NH, EV, <- (lim_of_done m L_AUTH (len hb)).
      replace (place result (KAuth, hb)) with (set_auth result h) by (unfold place; rewrite RB; reflexivity).
      apply IH; try assumption.
      * apply bytes_ok_drop. exact OK.
      * apply m_ok_done; assumption.
      * sa_done.
      * assert (X : has KAuth seen = false) by congruence.
        clear - FR X. unfold free in *. has_simpl. rewrite X in FR. cbn [fb] in *. lia.
      * rewrite <- EV. eapply view_step; eauto.
    + pose proof (auth_read_fault d c p m x Hc Hok F) as RR.
      destruct x as [rq|].
      * apply rpost_err; [|destruct m; reflexivity].
        rewrite (qbind_fail _ _ _ RR) by (destruct m; reflexivity).
        unfold read_from, consumed, lim_required, layer_code, fail_at. cbn [w_stop w_rest w_chain map concat].
        rewrite (view_len d m Hok). destruct m as [|r]; [reflexivity|]. cbn [len]. rewrite N.add_0_r. reflexivity.
      * apply rpost_err; [|reflexivity]. rewrite (qbind_fail _ _ _ RR) by reflexivity. reflexivity. }
  apply rpost_stop. exact Hok.
Qed.

(* ------------------------------------------------------------------ *)
(* Ipv6Extensions::read / read_limited *)
Theorem read6_walk d c p m first : 1 <= c -> bytes_ok d -> m_ok d m ->
  rpost d c p (lim_of m) (ref_walk first (view d m)) (read_of_walk m (ref_walk first (view d m)))
        (read6 (lim_of m) first (mk_st d c p m)).
Proof.
  intros Hc OK Hok. unfold read6, ref_walk, read_of_walk, IPV6_HOP_BY_HOP.
  rewrite (N.eqb_sym 0 first). destruct (first =? 0) eqn:E0.
  - cbn [walk_loop]. unfold decide. cbn [ip_number_of]. rewrite E0. cbn [frame].
    destruct (frame_options (view d m)) as [hb nh v'|x] eqn:F.
    + destruct (raw_read_framed d c p m hb nh v' Hc OK Hok F) as (h & RB & NH & LA & L8 & RR & EV).
      pose proof (frame_framed KHopByHop _ hb nh v' F) as (E & _).
      rewrite RR. cbn [qbind]. rewrite (read_from_cons m L_IPV6EXT). apply rpost_cons.
      rewrite NH, EV, <- (lim_of_done m L_IPV6EXT (len hb)).
      replace (place exts6_default (KHopByHop, hb)) with (set_hop exts6_default h)
        by (unfold place; rewrite RB; reflexivity).
      apply read6_loop_walk; try assumption.
      * apply bytes_ok_drop. exact OK.
      * apply m_ok_done; assumption.
      * apply slots_agree_hop.
      * pose proof (free_le5 [KHopByHop]). unfold LOOP_FUEL. lia.
      * rewrite <- EV. eapply view_step; [exact E|exact L8|]. lia.
    + destruct (raw_read_fault d c p m x Hc Hok F) as (rq & -> & RR).
      apply rpost_err; [|destruct m; reflexivity].
      rewrite (qbind_fail _ _ _ RR) by (destruct m; reflexivity).
      unfold read_from, consumed, lim_required, layer_code, fail_at. cbn [w_stop w_rest w_chain map concat].
      rewrite (view_len d m Hok). destruct m as [|r]; [reflexivity|]. cbn [len]. rewrite N.add_0_r. reflexivity.
  - rewrite walk_loop_start_irrelevant by exact E0.
    apply read6_loop_walk; try assumption.
    + apply slots_agree_default.
    + pose proof (free_le5 []). unfold LOOP_FUEL. lia.
    + lia.
Qed.

(* the same against from_slice: whenever the slice decoder accepts the visible bytes, the reader
   returns the same struct and number and stands at the rest *)
Theorem read6_eq_from_slice d c p m first e n rest : 1 <= c -> bytes_ok d -> m_ok d m ->
  from_slice first (view d m) = Ok (e, n, rest) ->
  exists m' k, view d m = take k (view d m) ++ rest /\ k <= avail d m /\
    read6 (lim_of m) first (mk_st d c p m) = (QOk (e, n), mk_st (drop k d) c (p + k) m') /\
    view (drop k d) m' = rest /\ m_ok (drop k d) m' /\ lim_of m' = lim_of m.
Proof.
  intros Hc OK Hok H.
  assert (OKV : bytes_ok (view d m)) by (apply bytes_ok_take; exact OK).
  pose proof (from_slice_walk first (view d m) OKV) as SW. rewrite SW in H.
  pose proof (read6_walk d c p m first Hc OK Hok) as [R1 R2].
  assert (LF : (length (view d m) < S (length (view d m)))%nat) by lia.
  pose proof (walk_loop_sound (S (length (view d m))) true [] first (view d m) LF) as CH. cbv zeta in CH.
  fold (ref_walk first (view d m)) in CH. apply chain_ok_split in CH.
  set (w := ref_walk first (view d m)) in *.
  unfold strict_of_walk, strict_from in H. unfold read_of_walk, read_from in R1.
  assert (ST : w_stop w = SNonExt \/ w_stop w = SRefilled) by (destruct (w_stop w); try discriminate; auto).
  assert (HR : Ok (struct_from exts6_default (w_chain w), w_next w, w_rest w) = Ok (e, n, rest) :> res hdr_slice_error _)
    by (destruct ST as [X|X]; rewrite X in H; exact H).
  injection HR as <- <- <-.
  assert (RQ : fst (read6 (lim_of m) first (mk_st d c p m)) = QOk (struct_from exts6_default (w_chain w), w_next w))
    by (destruct ST as [X|X]; rewrite X in R1; exact R1).
  rewrite RQ in R2. destruct (R2 eq_refl) as (m' & SN & V & O & LM).
  fold (consumed w) in CH.
  assert (LC : len (consumed w) <= avail d m).
  { pose proof (f_equal len CH) as X. rewrite len_app, (view_len d m Hok) in X. lia. }
  exists m', (len (consumed w)). split.
  { transitivity (consumed w ++ w_rest w); [exact CH|]. f_equal. rewrite CH, take_app_len. reflexivity. }
  split; [exact LC|]. split; [|auto].
  rewrite (surjective_pairing (read6 (lim_of m) first (mk_st d c p m))), RQ, SN. reflexivity.
Qed.

(* the reader never reaches an impossible index, a usize underflow or the end of its fuel *)
Theorem read6_regular d c p m first : 1 <= c -> bytes_ok d -> m_ok d m ->
  match fst (read6 (lim_of m) first (mk_st d c p m)) with
  | QOk _ | QIo KEof | QLen _ | QContent CHopNotAtStart | QContent CAuthZeroLen => True
  | _ => False
  end.
Proof.
  intros Hc OK Hok. destruct (read6_walk d c p m first Hc OK Hok) as [R _]. rewrite R.
  assert (OKV : bytes_ok (view d m)) by (apply bytes_ok_take; exact OK).
  destruct (from_slice_total first (view d m) OKV) as (_ & _ & NF & _).
  unfold read_of_walk, read_from. destruct (w_stop (ref_walk first (view d m))) as [| | |k [rq|]|]; auto.
  destruct m; exact I.
Qed.

(* ---- Ipv4Extensions::read / read_limited ---- *)
Theorem read4_walk d c p m first : 1 <= c -> bytes_ok d -> m_ok d m ->
  rpost d c p (lim_of m) (ref_walk4 first (view d m)) (read4_of_walk m (ref_walk4 first (view d m)))
        (read4 (lim_of m) first (mk_st d c p m)).
Proof.
  intros Hc OK Hok. unfold read4, ref_walk4, read4_of_walk, AUTH. cbn [ip_number_of].
  rewrite (N.eqb_sym 51 first). destruct (first =? 51) eqn:E.
  - destruct (frame_auth (view d m)) as [hb nh v'|x] eqn:F.
    + destruct (auth_read_framed d c p m hb nh v' Hc Hok F) as (h & RB & NH & LA & L8 & RR & EV).
      rewrite RR. cbn [qbind].
      assert (EQ : QOk (mkExts4 (Some h), a_next_header h) = QOk (struct4_of_chain [(KAuth, hb)], nh) :> qres (Exts4 * N)).
      { cbn [struct4_of_chain]. rewrite RB, NH. reflexivity. }
      unfold rpost, consumed. cbn [w_stop w_chain w_next w_rest map snd concat fst snd].
      rewrite app_nil_r. split.
      * rewrite EQ. destruct (nh =? 51); reflexivity.
      * intros _. eexists. split; [reflexivity|]. split; [symmetry; exact EV|]. split; [apply m_ok_done; assumption|apply lim_of_done].
    + pose proof (auth_read_fault d c p m x Hc Hok F) as RR. cbn [w_stop w_rest].
      destruct x as [rq|].
      * apply rpost_err; [|destruct m; reflexivity].
        rewrite (qbind_fail _ _ _ RR) by (destruct m; reflexivity).
        unfold fail_at. rewrite (view_len d m Hok). destruct m; reflexivity.
      * apply rpost_err; [|reflexivity]. rewrite (qbind_fail _ _ _ RR) by reflexivity. reflexivity.
  - apply rpost_stop. exact Hok.
Qed.

Theorem read4_eq_from_slice d c p m first e n rest : 1 <= c -> bytes_ok d -> m_ok d m ->
  from_slice4 first (view d m) = Ok (e, n, rest) ->
  exists m' k, view d m = take k (view d m) ++ rest /\ k <= avail d m /\
    read4 (lim_of m) first (mk_st d c p m) = (QOk (e, n), mk_st (drop k d) c (p + k) m') /\
    view (drop k d) m' = rest /\ m_ok (drop k d) m' /\ lim_of m' = lim_of m.
Proof.
  intros Hc OK Hok H.
  assert (OKV : bytes_ok (view d m)) by (apply bytes_ok_take; exact OK).
  destruct (from_slice4_total first (view d m) OKV) as (SW & _ & _ & CH & _). rewrite SW in H.
  pose proof (read4_walk d c p m first Hc OK Hok) as [R1 R2].
  set (w := ref_walk4 first (view d m)) in *.
  unfold strict4_of_walk in H. unfold read4_of_walk in R1.
  assert (HR : Ok (struct4_of_chain (w_chain w), w_next w, w_rest w) = Ok (e, n, rest) :> res auth_slice_error _)
    by (destruct (w_stop w); try discriminate; exact H).
  injection HR as <- <- <-.
  assert (RQ : fst (read4 (lim_of m) first (mk_st d c p m)) = QOk (struct4_of_chain (w_chain w), w_next w))
    by (destruct (w_stop w); try discriminate; exact R1).
  rewrite RQ in R2. destruct (R2 eq_refl) as (m' & SN & V & O & LM).
  assert (LC : len (consumed w) <= avail d m).
  { pose proof (f_equal len CH) as X. rewrite len_app, (view_len d m Hok) in X. lia. }
  exists m', (len (consumed w)). split.
  { transitivity (consumed w ++ w_rest w); [exact CH|]. f_equal. rewrite CH, take_app_len. reflexivity. }
  split; [exact LC|]. split; [|auto].
  rewrite (surjective_pairing (read4 (lim_of m) first (mk_st d c p m))), RQ, SN. reflexivity.
Qed.

(* a std::io::Cursor over the whole input sees the whole input *)
Lemma view_plain d : view d MPlain = d.
Proof.
  unfold view, avail, take, len. rewrite Nat2N.id. apply firstn_all.
Qed.

(* Ipv6Extensions::read(&mut Cursor::new(bs), first) *)
Theorem read6_cursor first bs e n rest : bytes_ok bs ->
  from_slice first bs = Ok (e, n, rest) ->
  exists s', read6 false first (mk_rstate (cursor bs) None) = (QOk (e, n), mk_rstate s' None) /\
             src_data s' = rest /\ src_pulled s' + len rest = len bs.
Proof.
  intros OK H. rewrite <- (view_plain bs) in H.
  destruct (read6_eq_from_slice bs 65536 0 MPlain first e n rest ltac:(lia) OK I H) as (m' & k & E & K & R & V & _ & LM).
  change (mk_st bs 65536 0 MPlain) with (mk_rstate (cursor bs) None) in R. cbn [lim_of] in R.
  destruct m' as [|r']; [|discriminate].
  eexists. split; [exact R|]. cbn [src_data src_pulled]. rewrite view_plain in V. split; [exact V|].
  rewrite view_plain in E. pose proof (f_equal len E) as X. rewrite len_app, len_take in X.
  cbn [avail] in K. lia.
Qed.

Theorem read4_cursor first bs e n rest : bytes_ok bs ->
  from_slice4 first bs = Ok (e, n, rest) ->
  exists s', read4 false first (mk_rstate (cursor bs) None) = (QOk (e, n), mk_rstate s' None) /\
             src_data s' = rest /\ src_pulled s' + len rest = len bs.
Proof.
  intros OK H. rewrite <- (view_plain bs) in H.
  destruct (read4_eq_from_slice bs 65536 0 MPlain first e n rest ltac:(lia) OK I H) as (m' & k & E & K & R & V & _ & LM).
  change (mk_st bs 65536 0 MPlain) with (mk_rstate (cursor bs) None) in R. cbn [lim_of] in R.
  destruct m' as [|r']; [|discriminate].
  eexists. split; [exact R|]. cbn [src_data src_pulled]. rewrite view_plain in V. split; [exact V|].
  rewrite view_plain in E. pose proof (f_equal len E) as X. rewrite len_app, len_take in X.
  cbn [avail] in K. lia.
Qed.
