(* ExtChain/View.v -- the model records seen through the six positions of the
   specification (Spec.ext_kind): which next_header value and which wire bytes
   sit at a position.  Only definitions used in the statements of C12. *)
From EP Require Import Base.Bytes ExtChain.Spec ExtChain.Model.
Local Open Scope N_scope.

(* the model record seen through the specification's six positions *)
Definition get_nh (e : Exts6) (k : ext_kind) : option N :=
  match k with
  | KHopByHop => option_map r_next_header (hop_by_hop_options e)
  | KDestOpts => option_map r_next_header (destination_options e)
  | KRouting => option_map (fun r => r_next_header (rt_routing r)) (routing e)
  | KFragment => option_map f_next_header (fragment e)
  | KAuth => option_map a_next_header (auth e)
  | KFinalDestOpts =>
    match routing e with
    | Some r => option_map r_next_header (rt_final_destination_options r)
    | None => None
    end
  end.

Definition raw_wire_bytes (h : RawExt) : bytes := wire_options_header (r_next_header h) (r_payload h).

Definition frag_wire_bytes (h : Frag) : bytes :=
  wire_fragment_header (f_next_header h) (f_fragment_offset h) (f_more_fragments h) (f_identification h).

Definition auth_wire_bytes (h : AuthH) : bytes :=
  wire_auth_header (a_next_header h) (a_spi h) (a_sequence_number h) (a_raw_icv h).

Definition get_wire (e : Exts6) (k : ext_kind) : option bytes :=
  match k with
  | KHopByHop => option_map raw_wire_bytes (hop_by_hop_options e)
  | KDestOpts => option_map raw_wire_bytes (destination_options e)
  | KRouting => option_map (fun r => raw_wire_bytes (rt_routing r)) (routing e)
  | KFragment => option_map frag_wire_bytes (fragment e)
  | KAuth => option_map auth_wire_bytes (auth e)
  | KFinalDestOpts =>
    match routing e with
    | Some r => option_map raw_wire_bytes (rt_final_destination_options r)
    | None => None
    end
  end.

(* the chain in RFC 8200 order as bytes *)
Definition rfc_order_bytes (e : Exts6) : bytes :=
  concat (map snd (in_rfc_order (get_wire e))).

Definition get_nh4 (e : Exts4) (k : ext_kind) : option N :=
  match k with KAuth => option_map a_next_header (auth4 e) | _ => None end.

Definition get_wire4 (e : Exts4) (k : ext_kind) : option bytes :=
  match k with KAuth => option_map auth_wire_bytes (auth4 e) | _ => None end.

Definition rfc_order_bytes4 (e : Exts4) : bytes :=
  concat (map snd (in_rfc_order (get_wire4 e))).

Definition ether_type_of_version (h : IpHeaders) : N :=
  match h with Ipv4 _ _ _ => ETHER_TYPE_IPV4 | Ipv6 _ _ => ETHER_TYPE_IPV6 end.

Definition ip_is_ext (h : IpHeaders) (n : N) : bool :=
  match h with Ipv4 _ _ _ => false | Ipv6 _ _ => is_ext_number n end.

Definition error_true (e : Exts6) (x : walk_error) : Prop :=
  match x with
  | HopByHopNotAtStart => is_some (hop_by_hop_options e) = true
  | ExtNotReferenced m => exists k, ip_number_of k = m /\ is_some (get_nh e k) = true
  end.
