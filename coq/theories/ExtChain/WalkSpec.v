(* ExtChain/WalkSpec.v -- what decoding an extension header chain from ARBITRARY
   bytes means, written from RFC 8200 / RFC 4302 and the documented contract of
   `Ipv6Extensions::from_slice` ("each extension header at most once, destination
   options once before and once after a routing header; parsing stops where the
   data would no longer fit into the struct; hop-by-hop anywhere but at the start
   is an error"), NOT from the code: no record of the model occurs here.

   A chain is walked header by header.  The walker keeps the list of positions
   (Spec.ext_kind) it has already met, decides for the announced protocol number
   which position the next header takes ([decide]), frames that header by its own
   length field ([frame]) and goes on with the number in the header's first byte.
   Termination measure of the reference walker: the number of bytes left (every
   framed header has at least 8 bytes). *)
From EP Require Import Base.Bytes ExtChain.Spec.
Local Open Scope N_scope.

Definition kind_eqb (a b : ext_kind) : bool :=
  match a, b with
  | KHopByHop, KHopByHop | KDestOpts, KDestOpts | KRouting, KRouting
  | KFragment, KFragment | KAuth, KAuth | KFinalDestOpts, KFinalDestOpts => true
  | _, _ => false
  end.

(* position k has already been met *)
Definition has (k : ext_kind) (seen : list ext_kind) : bool := existsb (kind_eqb k) seen.

(* ------------------------------------------------------------------ *)
(* the slot rule.  [start]: no header has been looked at yet (directly behind
   the IPv6 header).  [seen]: positions already filled. *)
Inductive decision :=
| DTake (k : ext_kind)   (* a header follows and goes to position k *)
| DNonExt                (* the number is not one of the extension headers: done *)
| DRefilled              (* an extension header whose position is already filled: stop in front of it *)
| DHopNotAtStart.        (* hop-by-hop options anywhere but directly behind the IPv6 header: error *)

Definition decide (start : bool) (seen : list ext_kind) (n : N) : decision :=
  if n =? ip_number_of KHopByHop then
    if start then DTake KHopByHop else DHopNotAtStart
  else if n =? ip_number_of KDestOpts then
    (* destination options: first slot in front of a routing header, second slot behind it *)
    if has KRouting seen then
      if has KFinalDestOpts seen then DRefilled else DTake KFinalDestOpts
    else
      if has KDestOpts seen then DRefilled else DTake KDestOpts
  else if n =? ip_number_of KRouting then
    if has KRouting seen then DRefilled else DTake KRouting
  else if n =? ip_number_of KFragment then
    if has KFragment seen then DRefilled else DTake KFragment
  else if n =? ip_number_of KAuth then
    if has KAuth seen then DRefilled else DTake KAuth
  else DNonExt.

(* ------------------------------------------------------------------ *)
(* framing one header at the front of [bs] by its own length field *)
Inductive fault :=
| FLen (required : N)     (* the data ends before the header does; it would need [required] bytes *)
| FAuthZeroLen.           (* RFC 4302: Payload Len = words - 2 >= 1 (12 fixed bytes = 3 words) *)

Inductive framed :=
| Framed (hdr : bytes) (next : N) (rest : bytes)
| Fault (f : fault).

Definition cut (n : N) (bs : bytes) : framed :=
  if len bs <? n then Fault (FLen n)
  else match bs with
       | nh :: _ => Framed (take n bs) nh (drop n bs)
       | [] => Fault (FLen n)
       end.

(* RFC 8200 4.3/4.4/4.6: "Hdr Ext Len: length in 8-octet units, not including the first 8 octets" *)
Definition frame_options (bs : bytes) : framed :=
  if len bs <? 8 then Fault (FLen 8)
  else match bs with
       | _ :: hdr_ext_len :: _ => cut ((hdr_ext_len + 1) * 8) bs
       | _ => Fault (FLen 8)
       end.

(* RFC 8200 4.5: the fragment header has 8 octets *)
Definition frame_fragment (bs : bytes) : framed := cut 8 bs.

(* RFC 4302 2.2: "Payload Len: length of AH in 32-bit words minus 2"; 12 octets are fixed *)
Definition frame_auth (bs : bytes) : framed :=
  if len bs <? 12 then Fault (FLen 12)
  else match bs with
       | _ :: payload_len :: _ =>
         if payload_len =? 0 then Fault FAuthZeroLen
         else cut ((payload_len + 2) * 4) bs
       | _ => Fault (FLen 12)
       end.

Definition frame (k : ext_kind) (bs : bytes) : framed :=
  match k with
  | KFragment => frame_fragment bs
  | KAuth => frame_auth bs
  | KHopByHop | KDestOpts | KRouting | KFinalDestOpts => frame_options bs
  end.

(* ------------------------------------------------------------------ *)
(* the walk *)
Inductive stop :=
| SNonExt | SRefilled | SHopNotAtStart
| SFault (k : ext_kind) (f : fault)
| SFuel.

Record walk := mkWalk {
  w_chain : list (ext_kind * bytes);   (* the headers in wire order: position, bytes *)
  w_next : N;                          (* the number announced where the walk stopped *)
  w_rest : bytes;                      (* the bytes where the walk stopped *)
  w_stop : stop
}.

Definition consumed (w : walk) : bytes := concat (map snd (w_chain w)).

Fixpoint walk_loop (fuel : nat) (start : bool) (seen : list ext_kind) (n : N) (bs : bytes) : walk :=
  match fuel with
  | O => mkWalk [] n bs SFuel
  | S f =>
    match decide start seen n with
    | DNonExt => mkWalk [] n bs SNonExt
    | DRefilled => mkWalk [] n bs SRefilled
    | DHopNotAtStart => mkWalk [] n bs SHopNotAtStart
    | DTake k =>
      match frame k bs with
      | Fault x => mkWalk [] n bs (SFault k x)
      | Framed hb nh bs' =>
        let w := walk_loop f false (k :: seen) nh bs' in
        mkWalk ((k, hb) :: w_chain w) (w_next w) (w_rest w) (w_stop w)
      end
    end
  end.

Definition ref_walk (first : N) (bs : bytes) : walk :=
  walk_loop (S (length bs)) true [] first bs.

(* IPv4 (RFC 4302 3.1): only the authentication header, once *)
Definition ref_walk4 (first : N) (bs : bytes) : walk :=
  if first =? ip_number_of KAuth then
    match frame_auth bs with
    | Fault x => mkWalk [] first bs (SFault KAuth x)
    | Framed hb nh bs' =>
      mkWalk [(KAuth, hb)] nh bs' (if nh =? ip_number_of KAuth then SRefilled else SNonExt)
    end
  else mkWalk [] first bs SNonExt.

(* ------------------------------------------------------------------ *)
(* the same as a relation, spelled out: what a walk result claims *)
Definition stop_ok (start : bool) (seen : list ext_kind) (n : N) (bs : bytes) (st : stop) : Prop :=
  match st with
  | SNonExt => decide start seen n = DNonExt
  | SRefilled => decide start seen n = DRefilled
  | SHopNotAtStart => decide start seen n = DHopNotAtStart
  | SFault k x => decide start seen n = DTake k /\ frame k bs = Fault x
  | SFuel => False
  end.

Fixpoint chain_ok (start : bool) (seen : list ext_kind) (n : N) (bs : bytes)
         (chain : list (ext_kind * bytes)) (last : N) (rest : bytes) (st : stop) : Prop :=
  match chain with
  | [] => n = last /\ bs = rest /\ stop_ok start seen n bs st
  | (k, hb) :: tl =>
    decide start seen n = DTake k /\
    exists nh bs', frame k bs = Framed hb nh bs' /\ bs = hb ++ bs' /\
                   chain_ok false (k :: seen) nh bs' tl last rest st
  end.

(* the number a chain hands on: first byte of its last header, or the first number *)
Fixpoint last_next (first : N) (chain : list (ext_kind * bytes)) : option N :=
  match chain with
  | [] => Some first
  | (_, hb) :: tl =>
    match rd hb 0 with
    | Some nh => last_next nh tl
    | None => None
    end
  end.

(* the length rule a framed header obeys *)
Definition header_wf (k : ext_kind) (hb : bytes) : Prop :=
  match k with
  | KFragment => len hb = 8
  | KAuth => exists pl, rd hb 1 = Some pl /\ 1 <= pl /\ len hb = (pl + 2) * 4
  | _ => exists hl, rd hb 1 = Some hl /\ len hb = (hl + 1) * 8
  end.
