(* ExtChain/WrittenDecode.v -- property C12, round 3 ("small closures"), clause e
   "decoding those bytes yields the same set and final number" for EVERY decoder of the
   written bytes, not only for the strict `from_slice`:
     Ipv6Extensions::from_slice_lax, ::read (over a Cursor), ::read_limited (LimitedReader
     whose budget is the written length, over a source that may go on with further bytes),
   and the Ipv4Extensions analogues.  The missing link was that the WRITTEN bytes are bytes
   (`bytes_ok`, hypothesis of the lax / reader theorems): Builder/ProofsCrate.v
   `write6_bytes_ok` / `write4_bytes_ok` (about this same model, ExtChain/Model.v `write`).
   Only compositions: decode_write_iff, decode_write4_any, from_slice_never_panics,
   from_slice4_total, read6/4_cursor, read6/4_eq_from_slice.  No new model. *)
From Coq Require Import ZArith Lia ZifyN ZifyBool.
From EP Require Import Base.Bytes IoFault.Spec IoFault.Model.
From EP Require Import ExtChain.Spec ExtChain.Model ExtChain.View ExtChain.Proofs.
From EP Require Import ExtChain.WalkSpec ExtChain.WalkView ExtChain.WalkProofs ExtChain.DecodeTotal.
From EP Require Import ExtChain.ReadModel ExtChain.ReadView ExtChain.ReadProofs.
From EP Require Import ExtChain.ChainView ExtChain.DecodeWriteAny.
From EP Require Builder.ProofsCrate.
Local Open Scope N_scope.

Lemma take_app_len {A} (a b : list A) : take (len a) (a ++ b) = a.
Proof.
  unfold take, len. rewrite Nat2N.id. rewrite firstn_app, Nat.sub_diag, firstn_all.
  cbn [firstn]. apply app_nil_r.
Qed.
Lemma drop_app_len {A} (a b : list A) : drop (len a) (a ++ b) = b.
Proof.
  unfold drop, len. rewrite Nat2N.id. rewrite skipn_app, Nat.sub_diag, skipn_all.
  reflexivity.
Qed.

(* ---------------- IPv6 ---------------- *)
(* every decoder, on the byte string bs, answers (e, n) and consumes everything *)
Definition all_decoders6 (first : N) (bs : bytes) (e : Exts6) (n : N) : Prop :=
  bytes_ok bs /\
  from_slice first bs = Ok (e, n, []) /\
  from_slice_lax first bs = Ok (e, n, [], None) /\
  (exists s', read6 false first (mk_rstate (cursor bs) None) = (QOk (e, n), mk_rstate s' None) /\
              src_data s' = [] /\ src_pulled s' = len bs) /\
  (forall c p r tail, 1 <= c -> bytes_ok tail ->
     lr_read r <= lr_max r -> lr_max r - lr_read r = len bs ->
     exists m', read6 true first (mk_st (bs ++ tail) c p (MLim r))
                  = (QOk (e, n), mk_st tail c (p + len bs) m') /\
                view tail m' = [] /\ lim_of m' = true).

Lemma decoders_agree6 first bs e n : bytes_ok bs ->
  from_slice first bs = Ok (e, n, []) -> all_decoders6 first bs e n.
Proof.
  intros OK H. split; [exact OK|]. split; [exact H|]. split; [|split].
  - pose proof (from_slice_never_panics first bs OK) as T. rewrite H in T. exact T.
  - destruct (read6_cursor first bs e n [] OK H) as (s' & R & D & P).
    exists s'. split; [exact R|]. split; [exact D|]. rewrite len_nil in P. lia.
  - intros c p r tail Hc OKt Hr Hb.
    assert (OKd : bytes_ok (bs ++ tail)) by (apply bytes_ok_app; split; assumption).
    assert (Hm : m_ok (bs ++ tail) (MLim r)).
    { cbn [m_ok]. split; [exact Hr|]. rewrite Hb, len_app. lia. }
    assert (Hv : view (bs ++ tail) (MLim r) = bs).
    { unfold view. cbn [avail]. rewrite Hb. apply take_app_len. }
    rewrite <- Hv in H.
    destruct (read6_eq_from_slice (bs ++ tail) c p (MLim r) first e n [] Hc OKd Hm H)
      as (m' & k & E & K & R & V & _ & LM).
    rewrite Hv in E. cbn [avail] in K. rewrite Hb in K.
    assert (Hk : k = len bs).
    { pose proof (f_equal len E) as X. rewrite app_nil_r, len_take in X. lia. }
    subst k. rewrite drop_app_len in R, V.
    exists m'. split; [exact R|]. split; [exact V|]. exact LM.
Qed.

Theorem written_decoders6 e first bs n : exts6_valid e = true ->
  write e first = (bs, Ok tt) -> next_header e first = Ok n ->
  (is_ext_number n = false \/ decide false (present_kinds e) n = DRefilled) ->
  all_decoders6 first bs e n.
Proof.
  intros V W H C. apply decoders_agree6.
  - pose proof (Builder.ProofsCrate.write6_bytes_ok e first V) as B. rewrite W in B. exact B.
  - apply (proj2 (decode_write_iff e first bs n V W H)). exact C.
Qed.

(* ---------------- IPv4 ---------------- *)
Definition all_decoders4 (first : N) (bs : bytes) (e : Exts4) (n : N) : Prop :=
  bytes_ok bs /\
  from_slice4 first bs = Ok (e, n, []) /\
  from_slice_lax4 first bs = Ok (e, n, [], None) /\
  (exists s', read4 false first (mk_rstate (cursor bs) None) = (QOk (e, n), mk_rstate s' None) /\
              src_data s' = [] /\ src_pulled s' = len bs) /\
  (forall c p r tail, 1 <= c -> bytes_ok tail ->
     lr_read r <= lr_max r -> lr_max r - lr_read r = len bs ->
     exists m', read4 true first (mk_st (bs ++ tail) c p (MLim r))
                  = (QOk (e, n), mk_st tail c (p + len bs) m') /\
                view tail m' = [] /\ lim_of m' = true).

Lemma decoders_agree4 first bs e n : bytes_ok bs ->
  from_slice4 first bs = Ok (e, n, []) -> all_decoders4 first bs e n.
Proof.
  intros OK H. split; [exact OK|]. split; [exact H|]. split; [|split].
  - destruct (from_slice4_total first bs OK) as (S & L & _).
    rewrite S in H. rewrite L. unfold strict4_of_walk in H. unfold lax4_of_walk. cbv zeta.
    destruct (w_stop (ref_walk4 first bs)); try discriminate; injection H as <- <- <-; reflexivity.
  - destruct (read4_cursor first bs e n [] OK H) as (s' & R & D & P).
    exists s'. split; [exact R|]. split; [exact D|]. rewrite len_nil in P. lia.
  - intros c p r tail Hc OKt Hr Hb.
    assert (OKd : bytes_ok (bs ++ tail)) by (apply bytes_ok_app; split; assumption).
    assert (Hm : m_ok (bs ++ tail) (MLim r)).
    { cbn [m_ok]. split; [exact Hr|]. rewrite Hb, len_app. lia. }
    assert (Hv : view (bs ++ tail) (MLim r) = bs).
    { unfold view. cbn [avail]. rewrite Hb. apply take_app_len. }
    rewrite <- Hv in H.
    destruct (read4_eq_from_slice (bs ++ tail) c p (MLim r) first e n [] Hc OKd Hm H)
      as (m' & k & E & K & R & V & _ & LM).
    rewrite Hv in E. cbn [avail] in K. rewrite Hb in K.
    assert (Hk : k = len bs).
    { pose proof (f_equal len E) as X. rewrite app_nil_r, len_take in X. lia. }
    subst k. rewrite drop_app_len in R, V.
    exists m'. split; [exact R|]. split; [exact V|]. exact LM.
Qed.

(* the round trip fails only for the empty set with first = 51 (decode_write4_any) *)
Theorem written_decoders4 e first bs n : exts4_valid e = true ->
  write4 e first = (bs, Ok tt) -> next_header4 e first = Ok n ->
  (is_some (auth4 e) || negb (n =? ip_number_of KAuth))%bool = true ->
  all_decoders4 first bs e n.
Proof.
  intros V W H C. apply decoders_agree4.
  - pose proof (Builder.ProofsCrate.write4_bytes_ok e first V) as B. rewrite W in B. exact B.
  - rewrite (decode_write4_any e first bs n V W H), C. reflexivity.
Qed.
