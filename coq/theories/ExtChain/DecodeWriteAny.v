(* ExtChain/DecodeWriteAny.v -- decoding the bytes `write` produced, for EVERY
   final number (C12_decode_write covers the non-extension numbers), and the
   slot rule `decide` as equivalences for both values of `start`. *)
From EP Require Import Base.Bytes ExtChain.Spec ExtChain.Model ExtChain.View ExtChain.Proofs
  ExtChain.WalkSpec ExtChain.WalkView ExtChain.WalkProofs ExtChain.ChainSpec ExtChain.ChainView.
From Coq Require Import ZArith Lia.
Local Open Scope N_scope.

(* the three header readers on an empty rest *)
Lemma offset_nil slice x : offset_err true slice [] x = Ok (add_offset x (len slice)).
Proof.
  unfold offset_err, usize_sub. change (len (@nil N)) with 0.
  rewrite (proj2 (N.leb_le 0 (len slice))) by lia. now rewrite N.sub_0_r.
Qed.

Lemma read_raw_nil slice :
  read_raw true slice [] = Err (HLen (mkLenError 8 0 LIpv6ExtHeader (len slice))).
Proof.
  unfold read_raw, raw_slice_from_slice. change (len (@nil N) <? 8) with true. cbn iota.
  rewrite offset_nil. unfold add_offset. cbn. now rewrite N.add_0_l.
Qed.

Lemma read_frag_nil slice :
  read_frag slice [] = Err (HLen (mkLenError 8 0 LIpv6FragHeader (len slice))).
Proof.
  unfold read_frag, frag_slice_from_slice. change (len (@nil N) <? 8) with true. cbn iota.
  rewrite offset_nil. unfold add_offset. cbn. now rewrite N.add_0_l.
Qed.

Lemma read_auth_nil slice :
  read_auth slice [] = Err (HLen (mkLenError 12 0 LIpAuthHeader (len slice))).
Proof.
  unfold read_auth, auth_slice_from_slice. change (len (@nil N) <? AUTH_MIN_LEN) with true. cbn iota.
  rewrite offset_nil. unfold add_offset. cbn. now rewrite N.add_0_l.
Qed.

Lemma has_present e k : has k (present_kinds e) = is_some (get_nh e k).
Proof.
  destruct e as [[h|] [d|] [[rt [fd|]]|] [fr|] [a|]]; destruct k; reflexivity.
Qed.

Lemma present_nil e : present_kinds e = [] -> e = exts6_default.
Proof.
  destruct e as [[h|] [d|] [[rt [fd|]]|] [fr|] [a|]]; cbn; intros H; try discriminate; reflexivity.
Qed.

Definition decode_end_loop (e : Exts6) (n : N) (total : N) : res hdr_slice_error (Exts6 * N * bytes) :=
  match decide false (present_kinds e) n with
  | DNonExt | DRefilled => Ok (e, n, [])
  | DHopNotAtStart => Err HHopByHopNotAtStart
  | DTake k => Err (fault_error total 0 k (FLen (min_header_len k)))
  end.

(* the decoder loop with every header of e decoded and nothing left *)
Lemma from_slice_end f slice e n :
  from_slice_loop (S f) slice e [] n = decode_end_loop e n (len slice).
Proof.
  cbn [from_slice_loop]. unfold decode_end_loop.
  destruct (arm_of_cases n) as [[A Nx]|[[A Nx]|[[A Nx]|[[A Nx]|[[A Nx]|[A Nx]]]]]]; rewrite A.
  - subst n. reflexivity.
  - subst n. unfold decide. cbn [N.eqb ip_number_of Pos.eqb IPV6_DEST_OPTIONS].
    rewrite !has_present. cbn [get_nh].
    destruct (routing e) as [r|]; cbn [option_map is_some].
    + destruct (rt_final_destination_options r); cbn [option_map is_some]; [reflexivity|].
      now rewrite read_raw_nil.
    + destruct (destination_options e); cbn [option_map is_some]; [reflexivity|].
      now rewrite read_raw_nil.
  - subst n. unfold decide. cbn [N.eqb ip_number_of Pos.eqb IPV6_ROUTE].
    rewrite !has_present. cbn [get_nh].
    destruct (routing e); cbn [option_map is_some]; [reflexivity|]. now rewrite read_raw_nil.
  - subst n. unfold decide. cbn [N.eqb ip_number_of Pos.eqb IPV6_FRAG].
    rewrite !has_present. cbn [get_nh].
    destruct (fragment e); cbn [option_map is_some]; [reflexivity|]. now rewrite read_frag_nil.
  - subst n. unfold decide. cbn [N.eqb ip_number_of Pos.eqb AUTH].
    rewrite !has_present. cbn [get_nh].
    destruct (auth e); cbn [option_map is_some]; [reflexivity|]. now rewrite read_auth_nil.
  - rewrite (proj2 (decide_nonext false (present_kinds e) n) Nx). reflexivity.
Qed.

(* from_slice on the written bytes retraces write_internal (Proofs.from_slice_mirror without the
   hypothesis on the final number): what is left is the decoder at the end of the bytes *)
Lemma from_slice_mirror_any fuel : forall e nw next rw w bs n slice,
  exts6_valid e = true -> Inv e nw rw ->
  write_loop fuel e nw next rw w = (bs, Ok tt) ->
  next_header_loop fuel e nw next rw = Ok n ->
  exists suf R, bs = w ++ suf /\ from_slice_loop fuel slice (done e nw) suf next = R /\
                exists f', R = from_slice_loop (S f') slice e [] n.
Proof.
  induction fuel as [|fuel IH]; intros e nw next rw w bs n slice V I W H; [discriminate|].
  pose proof (exts6_valid_inv e V) as (Vh & Vd & Vr & Vf & Va).
  assert (Brk : (w, @check_all_done unit nw tt) = (bs, Ok tt) -> check_all_done nw next = Ok n ->
                exists suf R, bs = w ++ suf /\ from_slice_loop (S fuel) slice (done e nw) suf next = R /\
                              exists f', R = from_slice_loop (S f') slice e [] n).
  { intros W' C. inversion W' as [[W1 W2]]. apply check_all_done_ok in C. destruct C as [-> Hf].
    exists [], (from_slice_loop (S fuel) slice e [] n). split; [now rewrite app_nil_r|].
    split; [now rewrite Hf, done_all|]. exists fuel. reflexivity. }
  cbn [write_loop next_header_loop] in W, H.
  destruct (arm_of_cases next) as [[A Nx]|[[A Nx]|[[A Nx]|[[A Nx]|[[A Nx]|[A Nx]]]]]];
    rewrite A in W, H.
  - destruct (fl_hop_by_hop_options nw); [discriminate|]. now apply Brk.
  - destruct rw.
    + destruct (fl_final_destination_options nw) eqn:Ef; [|now apply Brk].
      destruct (routing e) as [r|] eqn:Er; [|discriminate].
      destruct (rt_final_destination_options r) as [h|] eqn:Eh; [|discriminate].
      cbn [opt_valid] in Vr. apply routing_valid_inv in Vr. destruct Vr as [_ Vfin].
      rewrite Eh in Vfin. cbn [opt_valid] in Vfin.
      rewrite raw_to_bytes_valid in W by assumption.
      destruct (IH _ _ _ _ _ _ _ slice V (Inv_clr_final _ _ I) W H) as (suf & R & -> & D & F).
      eexists. exists R. split; [symmetry; apply app_assoc|]. split; [|exact F].
      cbn [from_slice_loop]. rewrite A.
      pose proof (Inv_true _ _ I) as Rf.
      assert (RD : routing (done e nw) = Some (mkRouting (rt_routing r) None)).
      { unfold done. cbn. now rewrite Rf, Er, Ef. }
      rewrite RD. cbn [rt_final_destination_options is_some rt_routing].
      rewrite read_raw_written by assumption. cbn [bind].
      replace (set_routing (done e nw) (mkRouting (rt_routing r) (Some h))) with (done e (clr_final nw)); [exact D|].
      unfold done, set_routing, clr_final. cbn. now rewrite Rf, Er, Eh.
    + destruct (fl_destination_options nw) eqn:Ef; [|now apply Brk].
      destruct (destination_options e) as [h|] eqn:Eh; [|discriminate].
      cbn [opt_valid] in Vd.
      rewrite raw_to_bytes_valid in W by assumption.
      destruct (IH _ _ _ _ _ _ _ slice V (Inv_clr_dst _ _ _ I) W H) as (suf & R & -> & D & F).
      eexists. exists R. split; [symmetry; apply app_assoc|]. split; [|exact F].
      cbn [from_slice_loop]. rewrite A.
      rewrite (Inv_false_routing _ _ I).
      assert (DD : destination_options (done e nw) = None) by (unfold done; cbn; now rewrite Ef).
      rewrite DD. cbn [is_some].
      rewrite read_raw_written by assumption. cbn [bind].
      replace (set_dst (done e nw) h) with (done e (clr_dst nw)); [exact D|].
      unfold done, set_dst, clr_dst. cbn. now rewrite Eh.
  - destruct (fl_routing nw) eqn:Ef; [|now apply Brk].
    destruct (routing e) as [r|] eqn:Er; [|discriminate].
    cbn [opt_valid] in Vr. apply routing_valid_inv in Vr. destruct Vr as [Vrt _].
    rewrite raw_to_bytes_valid in W by assumption.
    destruct (IH _ _ _ _ _ _ _ slice V (Inv_clr_routing _ _ _ _ Er I) W H) as (suf & R & -> & D & F).
    eexists. exists R. split; [symmetry; apply app_assoc|]. split; [|exact F].
    cbn [from_slice_loop]. rewrite A.
    assert (RD : routing (done e nw) = None) by (unfold done; cbn; now rewrite Ef).
    rewrite RD. cbn [is_some].
    rewrite read_raw_written by assumption. cbn [bind].
    replace (set_routing (done e nw) (mkRouting (rt_routing r) None)) with (done e (clr_routing nw)); [exact D|].
    destruct I as [_ I2]. specialize (I2 Ef). unfold has_final in I2. rewrite Er in I2.
    unfold done, set_routing, clr_routing. cbn. rewrite ?Er, ?Ef, ?I2.
    destruct (rt_final_destination_options r); reflexivity.
  - destruct (fl_fragment nw) eqn:Ef; [|now apply Brk].
    destruct (fragment e) as [h|] eqn:Eh; [|discriminate].
    cbn [opt_valid] in Vf.
    destruct (IH _ _ _ _ _ _ _ slice V (Inv_clr_frag _ _ _ I) W H) as (suf & R & -> & D & F).
    eexists. exists R. split; [symmetry; apply app_assoc|]. split; [|exact F].
    cbn [from_slice_loop]. rewrite A.
    assert (FD : fragment (done e nw) = None) by (unfold done; cbn; now rewrite Ef).
    rewrite FD. cbn [is_some].
    rewrite read_frag_written by assumption. cbn [bind].
    replace (set_frag (done e nw) h) with (done e (clr_frag nw)); [exact D|].
    unfold done, set_frag, clr_frag. cbn. now rewrite Eh.
  - destruct (fl_auth nw) eqn:Ef; [|now apply Brk].
    destruct (auth e) as [h|] eqn:Eh; [|discriminate].
    cbn [opt_valid] in Va.
    rewrite auth_to_bytes_valid in W by assumption.
    destruct (IH _ _ _ _ _ _ _ slice V (Inv_clr_auth _ _ _ I) W H) as (suf & R & -> & D & F).
    eexists. exists R. split; [symmetry; apply app_assoc|]. split; [|exact F].
    cbn [from_slice_loop]. rewrite A.
    assert (AD : auth (done e nw) = None) by (unfold done; cbn; now rewrite Ef).
    rewrite AD. cbn [is_some].
    rewrite read_auth_written by assumption. cbn [bind].
    replace (set_auth (done e nw) h) with (done e (clr_auth nw)); [exact D|].
    unfold done, set_auth, clr_auth. cbn. now rewrite Eh.
  - now apply Brk.
Qed.

Lemma flags_init_clear e : flags_init e = mkFlags false false false false false false -> e = exts6_default.
Proof.
  destruct e as [[h|] [d|] [[rt [fd|]]|] [fr|] [a|]]; cbn; intros H; try discriminate; reflexivity.
Qed.

Lemma walk_default first n : next_header exts6_default first = Ok n -> n = first.
Proof.
  unfold next_header. cbn [hop_by_hop_options exts6_default].
  assert (L : next_header_loop LOOP_FUEL exts6_default (flags_init exts6_default) first false = Ok n -> n = first).
  { unfold LOOP_FUEL. cbn [next_header_loop]. destruct (arm_of first); cbn; intros H; now inversion H. }
  destruct (IPV6_HOP_BY_HOP =? first); exact L.
Qed.

(* decode o write for EVERY final number *)
Theorem decode_write_any e first bs n : exts6_valid e = true ->
  write e first = (bs, Ok tt) -> next_header e first = Ok n ->
  from_slice first bs = decode_end e n (len bs).
Proof.
  intros V W H. pose proof H as H0. unfold write in W. unfold next_header in H. unfold from_slice.
  destruct (IPV6_HOP_BY_HOP =? first) eqn:E0.
  - destruct (hop_by_hop_options e) as [h|] eqn:Eh.
    + pose proof (exts6_valid_inv e V) as (Vh & _). rewrite Eh in Vh. cbn [opt_valid] in Vh.
      rewrite raw_to_bytes_valid in W by assumption.
      destruct (from_slice_mirror_any _ _ _ _ _ _ _ _ bs V (Inv_clr_hop _ _ _ (Inv_init e)) W H)
        as (suf & R & Hb & D & f' & F).
      rewrite Hb at 1 2. rewrite read_raw_written by assumption. cbn [bind].
      rewrite <- (done_init_hop e h Eh), D, F, from_slice_end.
      unfold decode_end, decode_end_loop.
      assert (PK : is_nil (present_kinds e) = false).
      { unfold present_kinds, in_rfc_order, rfc8200_order. cbn [flat_map get_nh]. rewrite Eh. reflexivity. }
      now rewrite PK.
    + (* first = 0 without a hop-by-hop header: the walk is Ok only for the empty set, nothing is
         written, and the decoder looks for a hop-by-hop header in the empty slice *)
      apply N.eqb_eq in E0. subst first.
      unfold LOOP_FUEL in H. cbn [next_header_loop] in H. rewrite arm_hop in H.
      unfold flags_init in H at 1. cbn [fl_hop_by_hop_options] in H. rewrite Eh in H. cbn [is_some] in H.
      apply check_all_done_ok in H. destruct H as [<- Hf].
      apply flags_init_clear in Hf. subst e.
      revert W. unfold LOOP_FUEL. cbn. intros W. inversion W. subst bs. reflexivity.
  - destruct (from_slice_mirror_any _ _ _ _ _ _ _ _ bs V (Inv_init e) W H) as (suf & R & Hb & D & f' & F).
    cbn [app] in Hb. subst suf. rewrite done_init in D. rewrite D, F, from_slice_end.
    unfold decode_end, decode_end_loop.
    destruct (present_kinds e) eqn:PK; cbn [is_nil]; [|reflexivity].
    apply present_nil in PK. subst e. apply walk_default in H0. subst n.
    rewrite decide_start_irrelevant; [reflexivity|]. rewrite N.eqb_sym. exact E0.
Qed.

Lemma decide_refilled_start s1 s2 seen n : decide s1 seen n = DRefilled -> decide s2 seen n = DRefilled.
Proof.
  unfold decide. destruct (n =? ip_number_of KHopByHop); [destruct s1; discriminate|]. auto.
Qed.

(* ... so the round trip holds exactly when the final number is no extension number or announces a
   header whose position is filled *)
Theorem decode_write_iff e first bs n : exts6_valid e = true ->
  write e first = (bs, Ok tt) -> next_header e first = Ok n ->
  (from_slice first bs = Ok (e, n, []) <->
   is_ext_number n = false \/ decide false (present_kinds e) n = DRefilled).
Proof.
  intros V W H. rewrite (decode_write_any e first bs n V W H). unfold decode_end. split.
  - destruct (decide _ _ n) eqn:D; try discriminate; intros _.
    + left. eapply decide_nonext. eassumption.
    + right. eapply decide_refilled_start. eassumption.
  - intros [X|X].
    + now rewrite (proj2 (decide_nonext _ _ n) X).
    + now rewrite (decide_refilled_start _ (is_nil (present_kinds e)) _ _ X).
Qed.

(* the slot rule as equivalences, for both values of start *)
Theorem slot_rule_full start seen n :
  (decide start seen n = DNonExt <-> is_ext_number n = false) /\
  (decide start seen n = DHopNotAtStart <-> n = 0 /\ start = false) /\
  (decide start seen n = DRefilled <->
     (n = 60 /\ (has KRouting seen = true /\ has KFinalDestOpts seen = true
                 \/ has KRouting seen = false /\ has KDestOpts seen = true)) \/
     (n = 43 /\ has KRouting seen = true) \/ (n = 44 /\ has KFragment seen = true) \/
     (n = 51 /\ has KAuth seen = true)) /\
  (forall k, decide start seen n = DTake k <->
     (k = KHopByHop /\ n = 0 /\ start = true) \/
     (k = KDestOpts /\ n = 60 /\ has KRouting seen = false /\ has KDestOpts seen = false) \/
     (k = KFinalDestOpts /\ n = 60 /\ has KRouting seen = true /\ has KFinalDestOpts seen = false) \/
     (k = KRouting /\ n = 43 /\ has KRouting seen = false) \/
     (k = KFragment /\ n = 44 /\ has KFragment seen = false) \/
     (k = KAuth /\ n = 51 /\ has KAuth seen = false)).
Proof.
  rewrite is_ext_number_false. unfold decide. cbn [ip_number_of].
  destruct (n =? 0) eqn:E0; [apply N.eqb_eq in E0; subst n|apply N.eqb_neq in E0].
  { cbn [N.eqb]. destruct start; (split; [|split; [|split; [|intros k]]]);
      (split; [intros H; try discriminate H; try (inversion H; subst); intuition (try congruence; try lia)
              |intros H; intuition (try congruence; try lia)]). }
  destruct (n =? 60) eqn:E60; [apply N.eqb_eq in E60; subst n|apply N.eqb_neq in E60].
  { cbn [N.eqb Pos.eqb]. destruct (has KRouting seen), (has KFinalDestOpts seen), (has KDestOpts seen);
      (split; [|split; [|split; [|intros k]]]);
      (split; [intros H; try discriminate H; try (inversion H; subst); intuition (try congruence; try lia)
              |intros H; intuition (try congruence; try lia)]). }
  destruct (n =? 43) eqn:E43; [apply N.eqb_eq in E43; subst n|apply N.eqb_neq in E43].
  { cbn [N.eqb Pos.eqb]. destruct (has KRouting seen);
      (split; [|split; [|split; [|intros k]]]);
      (split; [intros H; try discriminate H; try (inversion H; subst); intuition (try congruence; try lia)
              |intros H; intuition (try congruence; try lia)]). }
  destruct (n =? 44) eqn:E44; [apply N.eqb_eq in E44; subst n|apply N.eqb_neq in E44].
  { cbn [N.eqb Pos.eqb]. destruct (has KFragment seen);
      (split; [|split; [|split; [|intros k]]]);
      (split; [intros H; try discriminate H; try (inversion H; subst); intuition (try congruence; try lia)
              |intros H; intuition (try congruence; try lia)]). }
  destruct (n =? 51) eqn:E51; [apply N.eqb_eq in E51; subst n|apply N.eqb_neq in E51].
  { cbn [N.eqb Pos.eqb]. destruct (has KAuth seen);
      (split; [|split; [|split; [|intros k]]]);
      (split; [intros H; try discriminate H; try (inversion H; subst); intuition (try congruence; try lia)
              |intros H; intuition (try congruence; try lia)]). }
  (split; [|split; [|split; [|intros k]]]);
    (split; [intros H; try discriminate H; intuition (try congruence; try lia)
            |intros H; intuition (try congruence; try lia)]).
Qed.

(* Ipv4Extensions: the round trip fails only for the empty set with first = 51 *)
Theorem decode_write4_any e first bs n : exts4_valid e = true ->
  write4 e first = (bs, Ok tt) -> next_header4 e first = Ok n ->
  from_slice4 first bs =
  if is_some (auth4 e) || negb (n =? ip_number_of KAuth) then Ok (e, n, [])
  else Err (ALen (mkLenError 12 0 LIpAuthHeader 0)).
Proof.
  intros V. unfold write4, next_header4, from_slice4.
  change (ip_number_of KAuth) with AUTH.
  destruct e as [[a|]]; cbn in *.
  - rewrite (N.eqb_sym first AUTH). destruct (AUTH =? first); [|discriminate].
    rewrite auth_to_bytes_valid by assumption. intros W H. inversion W; subst bs. inversion H; subst n.
    rewrite <- (app_nil_r (auth_bytes a)) at 1. rewrite auth_slice_written by assumption. cbn [bind].
    rewrite <- (app_nil_r (auth_bytes a)) at 1. rewrite slice_from_app.
    change (auth_slice_next_header (auth_bytes a)) with (Some (a_next_header a)).
    rewrite auth_slice_to_header_written by assumption. reflexivity.
  - intros W H. inversion W; subst bs. inversion H; subst n.
    rewrite (N.eqb_sym AUTH first). destruct (first =? AUTH); reflexivity.
Qed.
