(* ExtChain/WalkProofs.v -- Ipv6Extensions::from_slice / from_slice_lax and
   Ipv4Extensions::from_slice / from_slice_lax of the model on ARBITRARY bytes:
   total (never Panic, never OutOfFuel) and equal to the reference walk of
   WalkSpec.v. *)
From EP Require Import Base.Bytes ExtChain.Spec ExtChain.Model ExtChain.View ExtChain.Proofs
  ExtChain.WalkSpec ExtChain.WalkView.
From Coq Require Import ZArith Lia ZifyN ZifyBool.
Local Open Scope N_scope.

(* ------------------------------------------------------------------ *)
(* lists *)
Lemma len_length {A} (l : list A) : len l = N.of_nat (length l).
Proof. reflexivity. Qed.

Lemma rd_take_lt (bs : bytes) n i : i < n -> rd (take n bs) i = rd bs i.
Proof.
  intros H. unfold rd, take.
  revert bs i H. induction n as [|n IH] using N.peano_ind; intros bs i H; [lia|].
  replace (N.to_nat (N.succ n)) with (S (N.to_nat n)) by lia.
  destruct bs as [|b r]; [reflexivity|]. cbn [firstn].
  destruct (N.eq_dec i 0) as [->|Hi]; [reflexivity|].
  replace (N.to_nat i) with (S (N.to_nat (i - 1))) by lia. cbn [nth_error].
  apply IH. lia.
Qed.

Lemma len_take_le {A} n (l : list A) : n <= len l -> len (take n l) = n.
Proof. intros H. rewrite len_take. lia. Qed.

Lemma bytes_ok_app_r (a b : bytes) : bytes_ok (a ++ b) -> bytes_ok b.
Proof. intros H. apply bytes_ok_app in H. tauto. Qed.

Lemma take_S_cons {A} n (a : A) l : 0 < n -> take n (a :: l) = a :: take (n - 1) l.
Proof.
  intros H. unfold take. replace (N.to_nat n) with (S (N.to_nat (n - 1))) by lia. reflexivity.
Qed.

Lemma drop_S_cons {A} n (a : A) l : 0 < n -> drop n (a :: l) = drop (n - 1) l.
Proof.
  intros H. unfold drop. replace (N.to_nat n) with (S (N.to_nat (n - 1))) by lia. reflexivity.
Qed.

(* ------------------------------------------------------------------ *)
(* framing *)
Lemma cut_framed n bs hb nh r : 0 < n -> cut n bs = Framed hb nh r ->
  bs = hb ++ r /\ len hb = n /\ rd hb 0 = Some nh /\ hb = take n bs /\ r = drop n bs /\ n <= len bs.
Proof.
  intros Hn. unfold cut. destruct (len bs <? n) eqn:L; [discriminate|]. apply N.ltb_ge in L.
  destruct bs as [|b0 t]; [discriminate|]. intros H. injection H as <- <- <-.
  split; [symmetry; apply take_drop|]. split; [apply len_take_le; exact L|].
  split; [rewrite rd_take_lt by lia; reflexivity|]. auto.
Qed.

Lemma cut_fault n bs x : cut n bs = Fault x -> 0 < n -> x = FLen n /\ len bs < n.
Proof.
  unfold cut. destruct (len bs <? n) eqn:L.
  - intros H _. injection H as <-. apply N.ltb_lt in L. auto.
  - apply N.ltb_ge in L. destruct bs as [|b0 t]; [|discriminate].
    intros _ H. rewrite len_nil in L. lia.
Qed.

Lemma frame_options_framed bs hb nh r : frame_options bs = Framed hb nh r ->
  exists hl, rd bs 1 = Some hl /\ 8 <= len bs /\
    bs = hb ++ r /\ len hb = (hl + 1) * 8 /\ rd hb 0 = Some nh /\ rd hb 1 = Some hl /\
    hb = take ((hl + 1) * 8) bs /\ r = drop ((hl + 1) * 8) bs /\ (hl + 1) * 8 <= len bs.
Proof.
  unfold frame_options. destruct (len bs <? 8) eqn:L; [discriminate|]. apply N.ltb_ge in L.
  destruct bs as [|b0 [|hl t]]; try discriminate. intros H.
  apply cut_framed in H; [|lia]. destruct H as (E & LH & R0 & ET & ED & LE).
  exists hl. split; [reflexivity|]. split; [exact L|]. split; [exact E|]. split; [exact LH|].
  split; [exact R0|]. split; [|auto]. rewrite ET. rewrite rd_take_lt by lia. reflexivity.
Qed.

Lemma frame_options_fault bs x : frame_options bs = Fault x ->
  (len bs < 8 /\ x = FLen 8) \/
  (exists hl, 8 <= len bs /\ rd bs 1 = Some hl /\ len bs < (hl + 1) * 8 /\ x = FLen ((hl + 1) * 8)).
Proof.
  unfold frame_options. destruct (len bs <? 8) eqn:L.
  - intros H. injection H as <-. apply N.ltb_lt in L. left. auto.
  - apply N.ltb_ge in L. destruct bs as [|b0 [|hl t]].
    + rewrite len_nil in L. lia.
    + rewrite len_cons, len_nil in L. lia.
    + intros H. apply cut_fault in H; [|lia]. destruct H as [-> H]. right. exists hl. auto.
Qed.

Lemma frame_auth_framed bs hb nh r : frame_auth bs = Framed hb nh r ->
  exists pl, rd bs 1 = Some pl /\ 12 <= len bs /\ 1 <= pl /\
    bs = hb ++ r /\ len hb = (pl + 2) * 4 /\ rd hb 0 = Some nh /\ rd hb 1 = Some pl /\
    hb = take ((pl + 2) * 4) bs /\ r = drop ((pl + 2) * 4) bs /\ (pl + 2) * 4 <= len bs.
Proof.
  unfold frame_auth. destruct (len bs <? 12) eqn:L; [discriminate|]. apply N.ltb_ge in L.
  destruct bs as [|b0 [|pl t]]; try discriminate.
  destruct (pl =? 0) eqn:P; [discriminate|]. apply N.eqb_neq in P. intros H.
  apply cut_framed in H; [|lia]. destruct H as (E & LH & R0 & ET & ED & LE).
  exists pl. split; [reflexivity|]. split; [exact L|]. split; [lia|]. split; [exact E|].
  split; [exact LH|]. split; [exact R0|]. split; [|auto]. rewrite ET. rewrite rd_take_lt by lia. reflexivity.
Qed.

Lemma frame_auth_fault bs x : frame_auth bs = Fault x ->
  (len bs < 12 /\ x = FLen 12) \/
  (12 <= len bs /\ rd bs 1 = Some 0 /\ x = FAuthZeroLen) \/
  (exists pl, 12 <= len bs /\ rd bs 1 = Some pl /\ 1 <= pl /\ len bs < (pl + 2) * 4 /\ x = FLen ((pl + 2) * 4)).
Proof.
  unfold frame_auth. destruct (len bs <? 12) eqn:L.
  - intros H. injection H as <-. apply N.ltb_lt in L. left. auto.
  - apply N.ltb_ge in L. destruct bs as [|b0 [|pl t]].
    + rewrite len_nil in L. lia.
    + rewrite len_cons, len_nil in L. lia.
    + destruct (pl =? 0) eqn:P.
      * apply N.eqb_eq in P. subst pl. intros H. injection H as <-. right. left. auto.
      * apply N.eqb_neq in P. intros H. apply cut_fault in H; [|lia]. destruct H as [-> H].
        right. right. exists pl. repeat split; auto. lia.
Qed.

Lemma frame_fragment_framed bs hb nh r : frame_fragment bs = Framed hb nh r ->
  8 <= len bs /\ bs = hb ++ r /\ len hb = 8 /\ rd hb 0 = Some nh /\ hb = take 8 bs /\ r = drop 8 bs.
Proof.
  unfold frame_fragment. intros H. apply cut_framed in H; [|lia].
  destruct H as (E & LH & R0 & ET & ED & LE). auto 10.
Qed.

Lemma frame_fragment_fault bs x : frame_fragment bs = Fault x -> len bs < 8 /\ x = FLen 8.
Proof. unfold frame_fragment. intros H. apply cut_fault in H; [|lia]. tauto. Qed.

(* every framed header: split of the input, at least 8 bytes, first byte handed on, length rule *)
Lemma frame_framed k bs hb nh r : frame k bs = Framed hb nh r ->
  bs = hb ++ r /\ 8 <= len hb /\ rd hb 0 = Some nh /\ header_wf k hb.
Proof.
  destruct k; cbn [frame header_wf]; intros H.
  1,2,3,6: apply frame_options_framed in H; destruct H as (hl & _ & _ & E & LH & R0 & R1 & _);
           (split; [exact E|]; split; [lia|]; split; [exact R0|]; exists hl; auto).
  - apply frame_fragment_framed in H. destruct H as (_ & E & LH & R0 & _). repeat split; auto. lia.
  - apply frame_auth_framed in H. destruct H as (pl & _ & _ & P & E & LH & R0 & R1 & _).
    split; [exact E|]. split; [lia|]. split; [exact R0|]. exists pl. auto.
Qed.

(* ------------------------------------------------------------------ *)
(* the reference walk: terminates by the bytes left, and says what chain_ok spells out *)
Lemma walk_loop_sound fuel : forall start seen n bs, (length bs < fuel)%nat ->
  let w := walk_loop fuel start seen n bs in
  chain_ok start seen n bs (w_chain w) (w_next w) (w_rest w) (w_stop w).
Proof.
  induction fuel as [|fuel IH]; intros start seen n bs Hf; [lia|].
  cbn [walk_loop]. destruct (decide start seen n) eqn:D; cbn; auto.
  destruct (frame k bs) as [hb nh bs'|x] eqn:F; cbn; auto.
  split; [exact D|]. exists nh, bs'. split; [exact F|].
  destruct (frame_framed k bs hb nh bs' F) as (E & L8 & _). split; [exact E|].
  apply IH. rewrite E in Hf. rewrite app_length in Hf. unfold len in L8. lia.
Qed.

Lemma chain_ok_not_fuel chain : forall start seen n bs last rest,
  chain_ok start seen n bs chain last rest SFuel -> False.
Proof.
  induction chain as [|[k hb] tl IH]; intros start seen n bs last rest H; cbn in H.
  - tauto.
  - destruct H as (_ & nh & bs' & _ & _ & H). eapply IH; eauto.
Qed.

Lemma chain_ok_split chain : forall start seen n bs last rest st,
  chain_ok start seen n bs chain last rest st -> bs = concat (map snd chain) ++ rest.
Proof.
  induction chain as [|[k hb] tl IH]; intros start seen n bs last rest st H; cbn in H.
  - cbn. tauto.
  - destruct H as (_ & nh & bs' & _ & E & H). apply IH in H. cbn [map snd concat].
    rewrite <- app_assoc, <- H. exact E.
Qed.

Lemma chain_ok_last chain : forall start seen n bs last rest st,
  chain_ok start seen n bs chain last rest st -> last_next n chain = Some last.
Proof.
  induction chain as [|[k hb] tl IH]; intros start seen n bs last rest st H; cbn in H.
  - cbn. destruct H as (-> & _). reflexivity.
  - destruct H as (_ & nh & bs' & F & _ & H). apply frame_framed in F. destruct F as (_ & _ & R0 & _).
    cbn [last_next]. rewrite R0. eapply IH; eauto.
Qed.

Lemma chain_ok_wf chain : forall start seen n bs last rest st,
  chain_ok start seen n bs chain last rest st ->
  Forall (fun it => header_wf (fst it) (snd it) /\ 8 <= len (snd it)) chain.
Proof.
  induction chain as [|[k hb] tl IH]; intros start seen n bs last rest st H; cbn in H.
  - constructor.
  - destruct H as (_ & nh & bs' & F & _ & H). apply frame_framed in F. destruct F as (_ & L8 & _ & W).
    constructor; [cbn; auto|]. eapply IH; eauto.
Qed.

(* the number decided as non-extension is exactly a number outside the IANA list of the six positions *)
Lemma decide_nonext start seen n : decide start seen n = DNonExt <-> is_ext_number n = false.
Proof.
  rewrite is_ext_number_false. unfold decide. cbn [ip_number_of].
  destruct (n =? 0) eqn:E0.
  { destruct start; split; try discriminate; intros (H & _); discriminate. }
  destruct (n =? 60) eqn:E60.
  { destruct (has KRouting seen), (has KFinalDestOpts seen), (has KDestOpts seen);
      split; try discriminate; intros (_ & H & _); discriminate. }
  destruct (n =? 43) eqn:E43.
  { destruct (has KRouting seen); split; try discriminate; intros (_ & _ & H & _); discriminate. }
  destruct (n =? 44) eqn:E44.
  { destruct (has KFragment seen); split; try discriminate; intros (_ & _ & _ & H & _); discriminate. }
  destruct (n =? 51) eqn:E51.
  { destruct (has KAuth seen); split; try discriminate; intros (_ & _ & _ & _ & H); discriminate. }
  tauto.
Qed.

(* a taken position is free, and its IANA number is the announced one *)
Lemma decide_take start seen n k : decide start seen n = DTake k ->
  n = ip_number_of k /\ has k seen = false \/ (k = KHopByHop /\ start = true /\ n = 0).
Proof.
  unfold decide. cbn [ip_number_of].
  destruct (n =? 0) eqn:E0.
  { destruct start; [|discriminate]. intros H. injection H as <-. right. split; [reflexivity|]. split; [reflexivity|lia]. }
  destruct (n =? 60) eqn:E60.
  { apply N.eqb_eq in E60. destruct (has KRouting seen) eqn:R.
    - destruct (has KFinalDestOpts seen) eqn:X; [discriminate|]. intros H. injection H as <-. left. auto.
    - destruct (has KDestOpts seen) eqn:X; [discriminate|]. intros H. injection H as <-. left. auto. }
  destruct (n =? 43) eqn:E43.
  { apply N.eqb_eq in E43. destruct (has KRouting seen) eqn:R; [discriminate|]. intros H. injection H as <-. left. auto. }
  destruct (n =? 44) eqn:E44.
  { apply N.eqb_eq in E44. destruct (has KFragment seen) eqn:R; [discriminate|]. intros H. injection H as <-. left. auto. }
  destruct (n =? 51) eqn:E51.
  { apply N.eqb_eq in E51. destruct (has KAuth seen) eqn:R; [discriminate|]. intros H. injection H as <-. left. auto. }
  discriminate.
Qed.

(* a refilled stop: the number is an extension header's, and its slot(s) are filled *)
Lemma decide_refilled start seen n : decide start seen n = DRefilled ->
  (n = 60 /\ (has KRouting seen = true /\ has KFinalDestOpts seen = true
              \/ has KRouting seen = false /\ has KDestOpts seen = true)) \/
  (n = 43 /\ has KRouting seen = true) \/ (n = 44 /\ has KFragment seen = true) \/
  (n = 51 /\ has KAuth seen = true).
Proof.
  unfold decide. cbn [ip_number_of].
  destruct (n =? 0) eqn:E0; [destruct start; discriminate|].
  destruct (n =? 60) eqn:E60.
  { apply N.eqb_eq in E60. left. split; [exact E60|].
    destruct (has KRouting seen); [destruct (has KFinalDestOpts seen)|destruct (has KDestOpts seen)];
      try discriminate; auto. }
  destruct (n =? 43) eqn:E43.
  { apply N.eqb_eq in E43. destruct (has KRouting seen) eqn:R; [|discriminate]. auto. }
  destruct (n =? 44) eqn:E44.
  { apply N.eqb_eq in E44. destruct (has KFragment seen) eqn:R; [|discriminate]. auto. }
  destruct (n =? 51) eqn:E51.
  { apply N.eqb_eq in E51. destruct (has KAuth seen) eqn:R; [|discriminate]. auto 6. }
  discriminate.
Qed.

Lemma decide_hop start seen n : decide start seen n = DHopNotAtStart <-> (n = 0 /\ start = false).
Proof.
  unfold decide. cbn [ip_number_of]. destruct (n =? 0) eqn:E0.
  - apply N.eqb_eq in E0. destruct start; split; try discriminate; try tauto. intros [_ H]. discriminate.
  - apply N.eqb_neq in E0. split; [|tauto].
    destruct (n =? 60); [destruct (has KRouting seen), (has KFinalDestOpts seen), (has KDestOpts seen); discriminate|].
    destruct (n =? 43); [destruct (has KRouting seen); discriminate|].
    destruct (n =? 44); [destruct (has KFragment seen); discriminate|].
    destruct (n =? 51); [destruct (has KAuth seen); discriminate|]. discriminate.
Qed.

(* ------------------------------------------------------------------ *)
(* the three header readers of the model against the framing of the specification *)

Lemma odd_land1 b : negb (N.land b 1 =? 0) = N.odd b.
Proof.
  change 1 with (N.ones 1). rewrite N.land_ones. change (2 ^ 1) with 2.
  rewrite <- N.bit0_mod, N.bit0_odd. destruct (N.odd b); reflexivity.
Qed.

Lemma shiftr3 x : N.shiftr x 3 = x / 8.
Proof. rewrite N.shiftr_div_pow2. reflexivity. Qed.

Lemma raw_bridge_ok wo slice rest hb nh rest' : bytes_ok rest ->
  frame_options rest = Framed hb nh rest' ->
  exists h, raw_of_bytes hb = Some h /\ read_raw wo slice rest = Ok (h, nh, rest') /\ raw_valid h = true
            /\ r_next_header h = nh /\ hb = r_next_header h :: r_header_length h :: r_payload h.
Proof.
  intros OK F. apply frame_options_framed in F.
  destruct F as (hl & R1 & L8 & E & LH & R0 & R1' & ET & ED & LE).
  assert (HL : hl < 256) by (eapply rd_ok; eauto).
  assert (OKH : bytes_ok hb) by (rewrite ET; apply bytes_ok_take; exact OK).
  destruct hb as [|b0 [|b1 p]]; try (rewrite ?len_cons, ?len_nil in LH; lia).
  change (rd (b0 :: b1 :: p) 0) with (Some b0) in R0. change (rd (b0 :: b1 :: p) 1) with (Some b1) in R1'.
  injection R0 as ->. injection R1' as ->.
  assert (LP : len p = 6 + hl * 8) by (rewrite !len_cons in LH; lia).
  exists (mkRaw nh hl p). split; [reflexivity|].
  assert (NH : nh < 256).
  { apply bytes_ok_cons in OKH. destruct OKH as [H _]. exact H. }
  assert (OKP : bytes_ok p).
  { apply bytes_ok_cons in OKH. destruct OKH as [_ H]. apply bytes_ok_cons in H. tauto. }
  split; [|split; [|split; reflexivity]].
  - unfold read_raw, raw_slice_from_slice.
    destruct (len rest <? 8) eqn:X; [apply N.ltb_lt in X; lia|]. rewrite R1.
    destruct (len rest <? (hl + 1) * 8) eqn:X2; [apply N.ltb_lt in X2; lia|].
    rewrite <- ET. unfold slice_from. rewrite LH.
    destruct ((hl + 1) * 8 <=? len rest) eqn:X3; [|apply N.leb_gt in X3; lia]. rewrite <- ED.
    unfold raw_slice_next_header. change (rd (nh :: hl :: p) 0) with (Some nh).
    unfold raw_slice_to_header, raw_slice_next_header, raw_slice_payload, usize_sub.
    change (rd (nh :: hl :: p) 0) with (Some nh). rewrite LH.
    destruct (2 <=? (hl + 1) * 8) eqn:X4; [|apply N.leb_gt in X4; lia].
    change (drop 2 (nh :: hl :: p)) with p.
    unfold raw_new_raw, RAW_MIN_PAYLOAD_LEN, RAW_MAX_PAYLOAD_LEN. rewrite LP.
    destruct (6 + hl * 8 <? 6) eqn:E1; [apply N.ltb_lt in E1; lia|].
    destruct (2046 <? 6 + hl * 8) eqn:E2; [apply N.ltb_lt in E2; lia|].
    assert (E3 : ((6 + hl * 8 + 2) mod 8 =? 0) = true).
    { apply N.eqb_eq. replace (6 + hl * 8 + 2) with ((hl + 1) * 8) by lia. apply N.mod_mul. lia. }
    rewrite E3. cbn [negb bind].
    assert (E4 : ((6 + hl * 8 - 6) / 8) mod 256 = hl).
    { replace (6 + hl * 8 - 6) with (hl * 8) by lia. rewrite N.div_mul by lia. apply N.mod_small. exact HL. }
    rewrite E4. reflexivity.
  - unfold raw_valid. cbn [r_next_header r_header_length r_payload].
    apply N.ltb_lt in NH, HL. rewrite NH, HL, LP, N.eqb_refl. cbn [andb].
    apply bytes_okb_spec. exact OKP.
Qed.

Definition err_off (wo : bool) (slice rest : bytes) : N := if wo then len slice - len rest else 0.

Lemma offset_err_ok wo slice rest e : len rest <= len slice ->
  offset_err wo slice rest e = Ok (add_offset e (err_off wo slice rest)).
Proof.
  intros H. unfold offset_err, err_off, usize_sub. destruct wo.
  - destruct (len rest <=? len slice) eqn:X; [reflexivity|apply N.leb_gt in X; lia].
  - unfold add_offset. destruct e. cbn. rewrite N.add_0_r. reflexivity.
Qed.

Lemma raw_bridge_fault wo slice rest x : len rest <= len slice ->
  frame_options rest = Fault x ->
  exists rq, x = FLen rq /\
    read_raw wo slice rest = Err (HLen (mkLenError rq (len rest) LIpv6ExtHeader (err_off wo slice rest))).
Proof.
  intros LS F. apply frame_options_fault in F. unfold read_raw, raw_slice_from_slice.
  destruct F as [[L ->]|(hl & L8 & R1 & L & ->)].
  - exists 8. split; [reflexivity|].
    destruct (len rest <? 8) eqn:X; [|apply N.ltb_ge in X; lia].
    rewrite offset_err_ok by exact LS. cbn [bind]. unfold add_offset. cbn [required_len le_len le_layer layer_start_offset].
    rewrite N.add_0_l. reflexivity.
  - exists ((hl + 1) * 8). split; [reflexivity|].
    destruct (len rest <? 8) eqn:X; [apply N.ltb_lt in X; lia|]. rewrite R1.
    destruct (len rest <? (hl + 1) * 8) eqn:X2; [|apply N.ltb_ge in X2; lia].
    rewrite offset_err_ok by exact LS. cbn [bind]. unfold add_offset. cbn [required_len le_len le_layer layer_start_offset].
    rewrite N.add_0_l. reflexivity.
Qed.

Lemma frag_bridge_ok slice rest hb nh rest' : bytes_ok rest ->
  frame_fragment rest = Framed hb nh rest' ->
  exists h, frag_of_bytes hb = Some h /\ read_frag slice rest = Ok (h, nh, rest') /\ frag_valid h = true
            /\ f_next_header h = nh.
Proof.
  intros OK F. apply frame_fragment_framed in F. destruct F as (L8 & E & LH & R0 & ET & ED).
  destruct rest as [|b0 [|b1 [|b2 [|b3 [|b4 [|b5 [|b6 [|b7 r]]]]]]]]; try (rewrite ?len_cons, ?len_nil in L8; lia).
  change (take 8 (b0 :: b1 :: b2 :: b3 :: b4 :: b5 :: b6 :: b7 :: r)) with [b0; b1; b2; b3; b4; b5; b6; b7] in ET.
  change (drop 8 (b0 :: b1 :: b2 :: b3 :: b4 :: b5 :: b6 :: b7 :: r)) with r in ED.
  subst hb rest'. change (rd [b0; b1; b2; b3; b4; b5; b6; b7] 0) with (Some b0) in R0. injection R0 as <-.
  exists (mkFrag b0 ((b2 * 256 + b3) / 8) (N.odd b3) (be32 b4 b5 b6 b7)).
  split; [reflexivity|]. split; [|split; [|reflexivity]].
  - unfold read_frag, frag_slice_from_slice.
    destruct (len (b0 :: b1 :: b2 :: b3 :: b4 :: b5 :: b6 :: b7 :: r) <? 8) eqn:X; [apply N.ltb_lt in X; lia|].
    change (take 8 (b0 :: b1 :: b2 :: b3 :: b4 :: b5 :: b6 :: b7 :: r)) with [b0; b1; b2; b3; b4; b5; b6; b7].
    unfold slice_from. change (len [b0; b1; b2; b3; b4; b5; b6; b7]) with 8.
    destruct (8 <=? len (b0 :: b1 :: b2 :: b3 :: b4 :: b5 :: b6 :: b7 :: r)) eqn:X2; [|apply N.leb_gt in X2; lia].
    change (drop 8 (b0 :: b1 :: b2 :: b3 :: b4 :: b5 :: b6 :: b7 :: r)) with r.
    rewrite rd0. unfold frag_slice_to_header. rewrite rd0, rd2, rd3, rd4, rd5, rd6, rd7. cbn [bind].
    rewrite shiftr3, odd_land1. reflexivity.
  - unfold bytes_ok in OK.
    repeat (match goal with H : Forall _ (_ :: _) |- _ => inversion H; clear H; subst end).
    unfold byte_ok in *.
    unfold frag_valid. cbn [f_next_header f_fragment_offset f_identification].
    assert (I : be32 b4 b5 b6 b7 < 4294967296) by (unfold be32; lia).
    assert (O : (b2 * 256 + b3) / 8 < 8192) by (apply N.div_lt_upper_bound; lia).
    rewrite !andb_true_iff, !N.ltb_lt. auto.
Qed.

Lemma frag_bridge_fault slice rest x : len rest <= len slice ->
  frame_fragment rest = Fault x ->
  x = FLen 8 /\
  read_frag slice rest = Err (HLen (mkLenError 8 (len rest) LIpv6FragHeader (len slice - len rest))).
Proof.
  intros LS F. apply frame_fragment_fault in F. destruct F as [L ->]. split; [reflexivity|].
  unfold read_frag, frag_slice_from_slice.
  destruct (len rest <? 8) eqn:X; [|apply N.ltb_ge in X; lia].
  rewrite offset_err_ok by exact LS. cbn [bind]. unfold add_offset, err_off. cbn [required_len le_len le_layer layer_start_offset].
  rewrite N.add_0_l. reflexivity.
Qed.

Lemma auth_slice_ok rest hb nh rest' : bytes_ok rest ->
  frame_auth rest = Framed hb nh rest' ->
  exists h, auth_of_bytes hb = Some h /\ auth_slice_from_slice rest = Ok hb /\
    (forall E, @auth_slice_to_header E hb = Ok h) /\ auth_slice_next_header hb = Some nh /\
    slice_from rest (len hb) = Some rest' /\ drop (len hb) rest = rest' /\ len hb <= len rest /\
    auth_valid h = true /\ a_next_header h = nh.
Proof.
  intros OK F. apply frame_auth_framed in F.
  destruct F as (pl & R1 & L12 & P & E & LH & R0 & R1' & ET & ED & LE).
  assert (PL : pl < 256) by (eapply rd_ok; eauto).
  assert (OKH : bytes_ok hb) by (rewrite ET; apply bytes_ok_take; exact OK).
  destruct hb as [|b0 [|b1 [|b2 [|b3 [|b4 [|b5 [|b6 [|b7 [|b8 [|b9 [|b10 [|b11 icv]]]]]]]]]]]];
    try (rewrite ?len_cons, ?len_nil in LH; lia).
  change (rd (b0 :: b1 :: b2 :: b3 :: b4 :: b5 :: b6 :: b7 :: b8 :: b9 :: b10 :: b11 :: icv) 0) with (Some b0) in R0.
  change (rd (b0 :: b1 :: b2 :: b3 :: b4 :: b5 :: b6 :: b7 :: b8 :: b9 :: b10 :: b11 :: icv) 1) with (Some b1) in R1'.
  injection R0 as ->. injection R1' as ->.
  set (k := pl - 1).
  assert (LI : len icv = k * 4) by (rewrite !len_cons in LH; unfold k; lia).
  exists (mkAuth nh (be32 b4 b5 b6 b7) (be32 b8 b9 b10 b11) k icv).
  split; [reflexivity|].
  set (hb := nh :: pl :: b2 :: b3 :: b4 :: b5 :: b6 :: b7 :: b8 :: b9 :: b10 :: b11 :: icv) in *.
  split; [|split; [|split; [reflexivity|split; [|split; [|split; [|split; [|reflexivity]]]]]]].
  - unfold auth_slice_from_slice, AUTH_MIN_LEN.
    destruct (len rest <? 12) eqn:X; [apply N.ltb_lt in X; lia|]. rewrite R1.
    destruct (pl <? 1) eqn:X1; [apply N.ltb_lt in X1; lia|].
    destruct (len rest <? (pl + 2) * 4) eqn:X2; [apply N.ltb_lt in X2; lia|].
    rewrite <- ET. reflexivity.
  - intros E0. unfold auth_slice_to_header. unfold hb.
    rewrite rd0, rd4, rd5, rd6, rd7, rd8, rd9, rd10, rd11.
    unfold slice_from. fold hb. rewrite LH.
    destruct (12 <=? (pl + 2) * 4) eqn:X; [|apply N.leb_gt in X; lia].
    change (drop 12 hb) with icv.
    unfold auth_new, AUTH_MAX_ICV_LEN. rewrite LI.
    destruct (1016 <? k * 4) eqn:E1; [apply N.ltb_lt in E1; unfold k in E1; lia|].
    assert (E2 : ((k * 4) mod 4 =? 0) = true) by (apply N.eqb_eq, N.mod_mul; lia).
    rewrite E2. cbn [negb].
    assert (E3 : (k * 4 / 4) mod 256 = k) by (rewrite N.div_mul by lia; apply N.mod_small; unfold k; lia).
    rewrite E3. reflexivity.
  - unfold slice_from. rewrite LH.
    destruct ((pl + 2) * 4 <=? len rest) eqn:X; [|apply N.leb_gt in X; lia]. rewrite ED. reflexivity.
  - rewrite LH. symmetry. exact ED.
  - rewrite LH. exact LE.
  - unfold hb, bytes_ok in OKH.
    repeat (match goal with H : Forall _ (_ :: _) |- _ => inversion H; clear H; subst end).
    unfold byte_ok in *.
    unfold auth_valid. cbn [a_next_header a_spi a_sequence_number a_raw_icv_len a_raw_icv].
    assert (I1 : be32 b4 b5 b6 b7 < 4294967296) by (unfold be32; lia).
    assert (I2 : be32 b8 b9 b10 b11 < 4294967296) by (unfold be32; lia).
    assert (I3 : k < 255) by (unfold k; lia).
    rewrite !andb_true_iff, !N.ltb_lt, N.eqb_eq, bytes_okb_spec. auto 10.
Qed.

Lemma auth_bridge_ok slice rest hb nh rest' : bytes_ok rest ->
  frame_auth rest = Framed hb nh rest' ->
  exists h, auth_of_bytes hb = Some h /\ read_auth slice rest = Ok (h, nh, rest') /\ auth_valid h = true
            /\ a_next_header h = nh.
Proof.
  intros OK F. destruct (auth_slice_ok rest hb nh rest' OK F) as (h & A & S & T & N & SF & _ & _ & V & NH).
  exists h. split; [exact A|]. split; [|auto].
  unfold read_auth. rewrite S, SF, N, T. reflexivity.
Qed.

Lemma auth_slice_fault rest x : frame_auth rest = Fault x ->
  auth_slice_from_slice rest =
    Err (match x with FLen rq => ALen (mkLenError rq (len rest) LIpAuthHeader 0) | FAuthZeroLen => AZeroPayloadLen end).
Proof.
  intros F. apply frame_auth_fault in F. unfold auth_slice_from_slice, AUTH_MIN_LEN.
  destruct F as [[L ->]|[(L & R1 & ->)|(pl & L & R1 & P & L2 & ->)]].
  - destruct (len rest <? 12) eqn:X; [reflexivity|apply N.ltb_ge in X; lia].
  - destruct (len rest <? 12) eqn:X; [apply N.ltb_lt in X; lia|]. rewrite R1. reflexivity.
  - destruct (len rest <? 12) eqn:X; [apply N.ltb_lt in X; lia|]. rewrite R1.
    destruct (pl <? 1) eqn:X1; [apply N.ltb_lt in X1; lia|].
    destruct (len rest <? (pl + 2) * 4) eqn:X2; [reflexivity|apply N.ltb_ge in X2; lia].
Qed.

Lemma auth_bridge_fault slice rest x : len rest <= len slice ->
  frame_auth rest = Fault x ->
  read_auth slice rest = Err (fault_error (len slice - len rest) (len rest) KAuth x).
Proof.
  intros LS F. unfold read_auth. rewrite (auth_slice_fault rest x F). destruct x as [rq|].
  - rewrite offset_err_ok by exact LS. cbn [bind]. unfold add_offset, err_off. cbn [required_len le_len le_layer layer_start_offset].
    rewrite N.add_0_l. reflexivity.
  - reflexivity.
Qed.

(* ------------------------------------------------------------------ *)
(* the decoder loop against the walk *)

(* the list of met positions against the struct under construction *)
Definition slots_agree (seen : list ext_kind) (e : Exts6) : Prop :=
  has KDestOpts seen = is_some (destination_options e) /\
  has KRouting seen = is_some (routing e) /\
  has KFinalDestOpts seen = has_final e /\
  has KFragment seen = is_some (fragment e) /\
  has KAuth seen = is_some (auth e).

(* termination measure of the model's `loop` (fuel LOOP_FUEL = 6): free positions *)
Definition fb (b : bool) : nat := if b then 0%nat else 1%nat.
Definition free (seen : list ext_kind) : nat :=
  (fb (has KDestOpts seen) + fb (has KRouting seen) + fb (has KFinalDestOpts seen)
   + fb (has KFragment seen) + fb (has KAuth seen))%nat.

Lemma free_le5 seen : (free seen <= 5)%nat.
Proof. unfold free, fb. repeat match goal with |- context[if ?b then _ else _] => destruct b end; lia. Qed.

Lemma consumed_cons k hb c n r s :
  consumed (mkWalk ((k, hb) :: c) n r s) = hb ++ consumed (mkWalk c n r s).
Proof. reflexivity. Qed.

Lemma strict_from_cons off e0 k hb w :
  strict_from off e0 (mkWalk ((k, hb) :: w_chain w) (w_next w) (w_rest w) (w_stop w))
  = strict_from (off + len hb) (place e0 (k, hb)) w.
Proof.
  unfold strict_from, consumed. cbn [w_stop w_chain w_next w_rest map snd concat struct_from fold_left].
  rewrite len_app, N.add_assoc. reflexivity.
Qed.

Lemma lax_from_cons off e0 k hb w :
  lax_from off e0 (mkWalk ((k, hb) :: w_chain w) (w_next w) (w_rest w) (w_stop w))
  = lax_from (off + len hb) (place e0 (k, hb)) w.
Proof.
  unfold lax_from, consumed. cbn [w_stop w_chain w_next w_rest map snd concat struct_from fold_left].
  rewrite len_app, N.add_assoc. reflexivity.
Qed.

Lemma has_final_set_routing e h : has_final (set_routing e (mkRouting h None)) = false.
Proof. reflexivity. Qed.

(* facts every continuing iteration hands to the induction hypothesis *)
Lemma step_facts (rest hb rest' slice : bytes) (fs : nat) :
  rest = hb ++ rest' -> 8 <= len hb -> bytes_ok rest -> len rest <= len slice ->
  (length rest < S fs)%nat ->
  bytes_ok rest' /\ len rest' <= len slice /\ (length rest' < fs)%nat /\
  len slice - len rest' = len slice - len rest + len hb /\ len rest' + 8 <= len rest.
Proof.
  intros -> L8 OK LS LF. rewrite len_app in *. rewrite app_length in LF. unfold len in *.
  split; [eapply bytes_ok_app_r; exact OK|]. lia.
Qed.

Lemma has_cons k k' seen : has k (k' :: seen) = kind_eqb k k' || has k seen.
Proof. reflexivity. Qed.

Ltac has_simpl := rewrite ?has_cons; cbn [kind_eqb orb].

Ltac sa_simpl :=
  unfold slots_agree, has_final, set_routing, set_dst, set_frag, set_auth, set_hop in *;
  rewrite ?has_cons; 
  cbn [kind_eqb orb destination_options routing fragment auth hop_by_hop_options is_some
       rt_final_destination_options rt_routing] in *.

Lemma is_some_none {A} (o : option A) : is_some o = false -> o = None.
Proof. destruct o; [discriminate|reflexivity]. Qed.

Ltac sa_done :=
  sa_simpl;
  try match goal with H : is_some (routing _) = false |- _ => apply is_some_none in H end;
  repeat match goal with H : routing _ = _ |- _ => rewrite H in * end;
  cbn [is_some rt_final_destination_options rt_routing] in *;
  repeat split; first [assumption | reflexivity | congruence].

Ltac sa_destruct SA := destruct SA as (SAd & SAr & SAx & SAf & SAa).

Ltac free_tac :=
  unfold free in *; has_simpl;
  repeat match goal with H : has _ _ = _ |- _ => rewrite H in * end;
  repeat match goal with H : _ = has _ _ |- _ => rewrite <- H in * end;
  cbn [fb is_some] in *; unfold fb in *;
  repeat match goal with |- context[if ?b then _ else _] => destruct b end;
  repeat match goal with H : context[if ?b then _ else _] |- _ => destruct b end; lia.

Lemma from_slice_loop_walk fm : forall fs slice result rest n seen,
  bytes_ok rest -> len rest <= len slice -> slots_agree seen result ->
  (free seen < fm)%nat -> (length rest < fs)%nat ->
  from_slice_loop fm slice result rest n
  = strict_from (len slice - len rest) result (walk_loop fs false seen n rest).
Proof.
  induction fm as [|fm IH]; intros fs slice result rest n seen OK LS SA FR LF; [lia|].
  destruct fs as [|fs]; [lia|].
  cbn [from_slice_loop walk_loop].
  unfold arm_of, decide, IPV6_HOP_BY_HOP, IPV6_DEST_OPTIONS, IPV6_ROUTE, IPV6_FRAG, AUTH. cbn [ip_number_of].
  sa_destruct SA.
  destruct (n =? 0) eqn:E0; [reflexivity|].
  destruct (n =? 60) eqn:E60.
  { rewrite SAr. destruct (routing result) as [rt|] eqn:ER; cbn [is_some].
    - rewrite SAx. unfold has_final. rewrite ER.
      destruct (is_some (rt_final_destination_options rt)) eqn:EF; [reflexivity|].
      cbn [frame]. destruct (frame_options rest) as [hb nh rest'|x] eqn:F.
      + destruct (raw_bridge_ok true slice rest hb nh rest' OK F) as (h & RB & RR & V & NH & _).
        pose proof (frame_framed KFinalDestOpts rest hb nh rest' F) as (E & L8 & _).
        destruct (step_facts rest hb rest' slice fs E L8 OK LS LF) as (OK' & LS' & LF' & OFF & _).
        rewrite RR. cbn [bind]. rewrite strict_from_cons.
        rewrite (IH fs slice _ rest' nh (KFinalDestOpts :: seen) OK' LS').
        * rewrite OFF. unfold place. rewrite ER, RB. reflexivity.
        * sa_done.
        * assert (X : has KFinalDestOpts seen = false) by (rewrite SAx; unfold has_final; rewrite ER; exact EF).
          clear - FR X. unfold free in *. has_simpl. rewrite X in FR. cbn [fb] in *. lia.
        * exact LF'.
      + destruct (raw_bridge_fault true slice rest x LS F) as (rq & -> & RR). rewrite RR.
        unfold strict_from, fault_error, consumed, err_off. cbn. rewrite N.add_0_r. reflexivity.
    - rewrite SAd.
      destruct (is_some (destination_options result)) eqn:ED; [reflexivity|].
      cbn [frame]. destruct (frame_options rest) as [hb nh rest'|x] eqn:F.
      + destruct (raw_bridge_ok true slice rest hb nh rest' OK F) as (h & RB & RR & V & NH & _).
        pose proof (frame_framed KDestOpts rest hb nh rest' F) as (E & L8 & _).
        destruct (step_facts rest hb rest' slice fs E L8 OK LS LF) as (OK' & LS' & LF' & OFF & _).
        rewrite RR. cbn [bind]. rewrite strict_from_cons.
        rewrite (IH fs slice _ rest' nh (KDestOpts :: seen) OK' LS').
        * rewrite OFF. unfold place. rewrite RB. reflexivity.
        * sa_done.
        * assert (X : has KDestOpts seen = false) by congruence.
          clear - FR X. unfold free in *. has_simpl. rewrite X in FR. cbn [fb] in *. lia.
        * exact LF'.
      + destruct (raw_bridge_fault true slice rest x LS F) as (rq & -> & RR). rewrite RR.
        unfold strict_from, fault_error, consumed, err_off. cbn. rewrite N.add_0_r. reflexivity. }
  destruct (n =? 43) eqn:E43.
  { rewrite SAr. destruct (is_some (routing result)) eqn:ER; [reflexivity|].
    cbn [frame]. destruct (frame_options rest) as [hb nh rest'|x] eqn:F.
    + destruct (raw_bridge_ok true slice rest hb nh rest' OK F) as (h & RB & RR & V & NH & _).
      pose proof (frame_framed KRouting rest hb nh rest' F) as (E & L8 & _).
      destruct (step_facts rest hb rest' slice fs E L8 OK LS LF) as (OK' & LS' & LF' & OFF & _).
      rewrite RR. cbn [bind]. rewrite strict_from_cons.
      rewrite (IH fs slice _ rest' nh (KRouting :: seen) OK' LS').
      * rewrite OFF. unfold place. rewrite RB. reflexivity.
      * sa_done.
      * assert (X : has KRouting seen = false) by congruence.
        clear - FR X. unfold free in *. has_simpl. rewrite X in FR. cbn [fb] in *. lia.
      * exact LF'.
    + destruct (raw_bridge_fault true slice rest x LS F) as (rq & -> & RR). rewrite RR.
      unfold strict_from, fault_error, consumed, err_off. cbn. rewrite N.add_0_r. reflexivity. }
  destruct (n =? 44) eqn:E44.
  { rewrite SAf. destruct (is_some (fragment result)) eqn:EF; [reflexivity|].
    cbn [frame]. destruct (frame_fragment rest) as [hb nh rest'|x] eqn:F.
    + destruct (frag_bridge_ok slice rest hb nh rest' OK F) as (h & RB & RR & V & NH).
      pose proof (frame_framed KFragment rest hb nh rest' F) as (E & L8 & _).
      destruct (step_facts rest hb rest' slice fs E L8 OK LS LF) as (OK' & LS' & LF' & OFF & _).
      rewrite RR. cbn [bind]. rewrite strict_from_cons.
      rewrite (IH fs slice _ rest' nh (KFragment :: seen) OK' LS').
      * rewrite OFF. unfold place. rewrite RB. reflexivity.
      * sa_done.
      * assert (X : has KFragment seen = false) by congruence.
        clear - FR X. unfold free in *. has_simpl. rewrite X in FR. cbn [fb] in *. lia.
      * exact LF'.
    + destruct (frag_bridge_fault slice rest x LS F) as (-> & RR). rewrite RR.
      unfold strict_from, fault_error, consumed. cbn. rewrite N.add_0_r. reflexivity. }
  destruct (n =? 51) eqn:E51.
  { rewrite SAa. destruct (is_some (auth result)) eqn:EA; [reflexivity|].
    cbn [frame]. destruct (frame_auth rest) as [hb nh rest'|x] eqn:F.
    + destruct (auth_bridge_ok slice rest hb nh rest' OK F) as (h & RB & RR & V & NH).
      pose proof (frame_framed KAuth rest hb nh rest' F) as (E & L8 & _).
      destruct (step_facts rest hb rest' slice fs E L8 OK LS LF) as (OK' & LS' & LF' & OFF & _).
      rewrite RR. cbn [bind]. rewrite strict_from_cons.
      rewrite (IH fs slice _ rest' nh (KAuth :: seen) OK' LS').
      * rewrite OFF. unfold place. rewrite RB. reflexivity.
      * sa_done.
      * assert (X : has KAuth seen = false) by congruence.
        clear - FR X. unfold free in *. has_simpl. rewrite X in FR. cbn [fb] in *. lia.
      * exact LF'.
    + rewrite (auth_bridge_fault slice rest x LS F).
      unfold strict_from, consumed. cbn. rewrite N.add_0_r. reflexivity. }
  reflexivity.
Qed.

Lemma from_slice_lax_loop_walk fm : forall fs slice result rest n seen,
  bytes_ok rest -> len rest <= len slice -> slots_agree seen result ->
  (free seen < fm)%nat -> (length rest < fs)%nat ->
  from_slice_lax_loop fm slice result rest n
  = lax_from (len slice - len rest) result (walk_loop fs false seen n rest).
Proof.
  induction fm as [|fm IH]; intros fs slice result rest n seen OK LS SA FR LF; [lia|].
  destruct fs as [|fs]; [lia|].
  cbn [from_slice_lax_loop walk_loop].
  unfold arm_of, decide, IPV6_HOP_BY_HOP, IPV6_DEST_OPTIONS, IPV6_ROUTE, IPV6_FRAG, AUTH. cbn [ip_number_of].
  sa_destruct SA.
  destruct (n =? 0) eqn:E0; [reflexivity|].
  destruct (n =? 60) eqn:E60.
  { rewrite SAr. destruct (routing result) as [rt|] eqn:ER; cbn [is_some].
    - rewrite SAx. unfold has_final. rewrite ER.
      destruct (is_some (rt_final_destination_options rt)) eqn:EF; [reflexivity|].
      cbn [frame]. destruct (frame_options rest) as [hb nh rest'|x] eqn:F.
      + destruct (raw_bridge_ok true slice rest hb nh rest' OK F) as (h & RB & RR & V & NH & _).
        pose proof (frame_framed KFinalDestOpts rest hb nh rest' F) as (E & L8 & _).
        destruct (step_facts rest hb rest' slice fs E L8 OK LS LF) as (OK' & LS' & LF' & OFF & _).
        rewrite RR. cbn [lax_of]. rewrite lax_from_cons.
        rewrite (IH fs slice _ rest' nh (KFinalDestOpts :: seen) OK' LS').
        * rewrite OFF. unfold place. rewrite ER, RB. reflexivity.
        * sa_done.
        * assert (X : has KFinalDestOpts seen = false) by (rewrite SAx; unfold has_final; rewrite ER; exact EF).
          clear - FR X. unfold free in *. has_simpl. rewrite X in FR. cbn [fb] in *. lia.
        * exact LF'.
      + destruct (raw_bridge_fault true slice rest x LS F) as (rq & -> & RR). rewrite RR. cbn [lax_of].
        unfold lax_from, fault_error, consumed, err_off. cbn. rewrite N.add_0_r. reflexivity.
    - rewrite SAd.
      destruct (is_some (destination_options result)) eqn:ED; [reflexivity|].
      cbn [frame]. destruct (frame_options rest) as [hb nh rest'|x] eqn:F.
      + destruct (raw_bridge_ok true slice rest hb nh rest' OK F) as (h & RB & RR & V & NH & _).
        pose proof (frame_framed KDestOpts rest hb nh rest' F) as (E & L8 & _).
        destruct (step_facts rest hb rest' slice fs E L8 OK LS LF) as (OK' & LS' & LF' & OFF & _).
        rewrite RR. cbn [lax_of]. rewrite lax_from_cons.
        rewrite (IH fs slice _ rest' nh (KDestOpts :: seen) OK' LS').
        * rewrite OFF. unfold place. rewrite RB. reflexivity.
        * sa_done.
        * assert (X : has KDestOpts seen = false) by congruence.
          clear - FR X. unfold free in *. has_simpl. rewrite X in FR. cbn [fb] in *. lia.
        * exact LF'.
      + destruct (raw_bridge_fault true slice rest x LS F) as (rq & -> & RR). rewrite RR. cbn [lax_of].
        unfold lax_from, fault_error, consumed, err_off. cbn. rewrite N.add_0_r. reflexivity. }
  destruct (n =? 43) eqn:E43.
  { rewrite SAr. destruct (is_some (routing result)) eqn:ER; [reflexivity|].
    cbn [frame]. destruct (frame_options rest) as [hb nh rest'|x] eqn:F.
    + destruct (raw_bridge_ok true slice rest hb nh rest' OK F) as (h & RB & RR & V & NH & _).
      pose proof (frame_framed KRouting rest hb nh rest' F) as (E & L8 & _).
      destruct (step_facts rest hb rest' slice fs E L8 OK LS LF) as (OK' & LS' & LF' & OFF & _).
      rewrite RR. cbn [lax_of]. rewrite lax_from_cons.
      rewrite (IH fs slice _ rest' nh (KRouting :: seen) OK' LS').
      * rewrite OFF. unfold place. rewrite RB. reflexivity.
      * sa_done.
      * assert (X : has KRouting seen = false) by congruence.
        clear - FR X. unfold free in *. has_simpl. rewrite X in FR. cbn [fb] in *. lia.
      * exact LF'.
    + destruct (raw_bridge_fault true slice rest x LS F) as (rq & -> & RR). rewrite RR. cbn [lax_of].
      unfold lax_from, fault_error, consumed, err_off. cbn. rewrite N.add_0_r. reflexivity. }
  destruct (n =? 44) eqn:E44.
  { rewrite SAf. destruct (is_some (fragment result)) eqn:EF; [reflexivity|].
    cbn [frame]. destruct (frame_fragment rest) as [hb nh rest'|x] eqn:F.
    + destruct (frag_bridge_ok slice rest hb nh rest' OK F) as (h & RB & RR & V & NH).
      pose proof (frame_framed KFragment rest hb nh rest' F) as (E & L8 & _).
      destruct (step_facts rest hb rest' slice fs E L8 OK LS LF) as (OK' & LS' & LF' & OFF & _).
      rewrite RR. cbn [lax_of]. rewrite lax_from_cons.
      rewrite (IH fs slice _ rest' nh (KFragment :: seen) OK' LS').
      * rewrite OFF. unfold place. rewrite RB. reflexivity.
      * sa_done.
      * assert (X : has KFragment seen = false) by congruence.
        clear - FR X. unfold free in *. has_simpl. rewrite X in FR. cbn [fb] in *. lia.
      * exact LF'.
    + destruct (frag_bridge_fault slice rest x LS F) as (-> & RR). rewrite RR. cbn [lax_of].
      unfold lax_from, fault_error, consumed. cbn. rewrite N.add_0_r. reflexivity. }
  destruct (n =? 51) eqn:E51.
  { rewrite SAa. destruct (is_some (auth result)) eqn:EA; [reflexivity|].
    cbn [frame]. destruct (frame_auth rest) as [hb nh rest'|x] eqn:F.
    + destruct (auth_bridge_ok slice rest hb nh rest' OK F) as (h & RB & RR & V & NH).
      pose proof (frame_framed KAuth rest hb nh rest' F) as (E & L8 & _).
      destruct (step_facts rest hb rest' slice fs E L8 OK LS LF) as (OK' & LS' & LF' & OFF & _).
      rewrite RR. cbn [lax_of]. rewrite lax_from_cons.
      rewrite (IH fs slice _ rest' nh (KAuth :: seen) OK' LS').
      * rewrite OFF. unfold place. rewrite RB. reflexivity.
      * sa_done.
      * assert (X : has KAuth seen = false) by congruence.
        clear - FR X. unfold free in *. has_simpl. rewrite X in FR. cbn [fb] in *. lia.
      * exact LF'.
    + rewrite (auth_bridge_fault slice rest x LS F). cbn [lax_of].
      unfold lax_from, consumed. cbn. rewrite N.add_0_r. reflexivity. }
  reflexivity.
Qed.

(* ------------------------------------------------------------------ *)
(* Ipv6Extensions::from_slice / from_slice_lax on arbitrary bytes *)

Lemma decide_start_irrelevant seen n : (n =? 0) = false -> decide true seen n = decide false seen n.
Proof. intros H. unfold decide. cbn [ip_number_of]. rewrite H. reflexivity. Qed.

Lemma walk_loop_start_irrelevant fuel seen n bs : (n =? 0) = false ->
  walk_loop fuel true seen n bs = walk_loop fuel false seen n bs.
Proof.
  intros H. destruct fuel; [reflexivity|]. cbn [walk_loop]. rewrite (decide_start_irrelevant seen n H). reflexivity.
Qed.

Lemma slots_agree_default : slots_agree [] exts6_default.
Proof. unfold slots_agree. cbn. auto. Qed.

Lemma slots_agree_hop h : slots_agree [KHopByHop] (set_hop exts6_default h).
Proof. unfold slots_agree. cbn. auto. Qed.

Theorem from_slice_walk first bs : bytes_ok bs ->
  from_slice first bs = strict_of_walk (ref_walk first bs).
Proof.
  intros OK. unfold from_slice, ref_walk, strict_of_walk, IPV6_HOP_BY_HOP.
  rewrite (N.eqb_sym 0 first). destruct (first =? 0) eqn:E0.
  - cbn [walk_loop]. unfold decide. cbn [ip_number_of]. rewrite E0. cbn [frame].
    destruct (frame_options bs) as [hb nh rest'|x] eqn:F.
    + destruct (raw_bridge_ok false bs bs hb nh rest' OK F) as (h & RB & RR & V & NH & _).
      pose proof (frame_framed KHopByHop bs hb nh rest' F) as (E & L8 & _).
      assert (LF : (length bs < S (length bs))%nat) by lia.
      destruct (step_facts bs hb rest' bs (length bs) E L8 OK (N.le_refl _) LF) as (OK' & LS' & LF' & OFF & _).
      rewrite RR. cbn [bind]. rewrite strict_from_cons.
      rewrite (from_slice_loop_walk LOOP_FUEL (length bs) bs _ rest' nh [KHopByHop] OK' LS' (slots_agree_hop h)).
      * rewrite OFF, N.sub_diag. unfold place. rewrite RB. reflexivity.
      * pose proof (free_le5 [KHopByHop]). unfold LOOP_FUEL. lia.
      * exact LF'.
    + destruct (raw_bridge_fault false bs bs x (N.le_refl _) F) as (rq & -> & RR). rewrite RR.
      unfold strict_from, fault_error, consumed, err_off. cbn. reflexivity.
  - rewrite walk_loop_start_irrelevant by exact E0.
    rewrite (from_slice_loop_walk LOOP_FUEL (S (length bs)) bs exts6_default bs first [] OK (N.le_refl _)
               slots_agree_default).
    + rewrite N.sub_diag. reflexivity.
    + pose proof (free_le5 []). unfold LOOP_FUEL. lia.
    + lia.
Qed.

Theorem from_slice_lax_walk first bs : bytes_ok bs ->
  from_slice_lax first bs = lax_of_walk (ref_walk first bs).
Proof.
  intros OK. unfold from_slice_lax, ref_walk, lax_of_walk, IPV6_HOP_BY_HOP.
  rewrite (N.eqb_sym 0 first). destruct (first =? 0) eqn:E0.
  - cbn [walk_loop]. unfold decide. cbn [ip_number_of]. rewrite E0. cbn [frame].
    destruct (frame_options bs) as [hb nh rest'|x] eqn:F.
    + destruct (raw_bridge_ok false bs bs hb nh rest' OK F) as (h & RB & RR & V & NH & _).
      pose proof (frame_framed KHopByHop bs hb nh rest' F) as (E & L8 & _).
      assert (LF : (length bs < S (length bs))%nat) by lia.
      destruct (step_facts bs hb rest' bs (length bs) E L8 OK (N.le_refl _) LF) as (OK' & LS' & LF' & OFF & _).
      rewrite RR. cbn [lax_of]. rewrite lax_from_cons.
      rewrite (from_slice_lax_loop_walk LOOP_FUEL (length bs) bs _ rest' nh [KHopByHop] OK' LS' (slots_agree_hop h)).
      * rewrite OFF, N.sub_diag. unfold place. rewrite RB. reflexivity.
      * pose proof (free_le5 [KHopByHop]). unfold LOOP_FUEL. lia.
      * exact LF'.
    + destruct (raw_bridge_fault false bs bs x (N.le_refl _) F) as (rq & -> & RR). rewrite RR. cbn [lax_of].
      apply N.eqb_eq in E0. subst first.
      unfold lax_from, fault_error, consumed, err_off. cbn. reflexivity.
  - rewrite walk_loop_start_irrelevant by exact E0.
    rewrite (from_slice_lax_loop_walk LOOP_FUEL (S (length bs)) bs exts6_default bs first [] OK (N.le_refl _)
               slots_agree_default).
    + rewrite N.sub_diag. reflexivity.
    + pose proof (free_le5 []). unfold LOOP_FUEL. lia.
    + lia.
Qed.

(* ---- Ipv4Extensions ---- *)
Theorem from_slice4_walk first bs : bytes_ok bs ->
  from_slice4 first bs = strict4_of_walk (ref_walk4 first bs).
Proof.
  intros OK. unfold from_slice4, ref_walk4, strict4_of_walk, AUTH. cbn [ip_number_of].
  rewrite (N.eqb_sym 51 first). destruct (first =? 51) eqn:E; [|reflexivity].
  destruct (frame_auth bs) as [hb nh rest'|x] eqn:F.
  - destruct (auth_slice_ok bs hb nh rest' OK F) as (h & A & S & T & N & SF & _ & _ & V & NH).
    rewrite S. cbn [bind]. rewrite SF, N, T. cbn [bind].
    destruct (nh =? 51); cbn [w_stop w_chain w_next w_rest struct4_of_chain]; rewrite A; reflexivity.
  - rewrite (auth_slice_fault bs x F). cbn [bind w_stop w_rest]. destruct x; reflexivity.
Qed.

Theorem from_slice_lax4_walk first bs : bytes_ok bs ->
  from_slice_lax4 first bs = lax4_of_walk (ref_walk4 first bs).
Proof.
  intros OK. unfold from_slice_lax4, ref_walk4, lax4_of_walk, AUTH. cbn [ip_number_of].
  rewrite (N.eqb_sym 51 first). destruct (first =? 51) eqn:E; [|reflexivity].
  destruct (frame_auth bs) as [hb nh rest'|x] eqn:F.
  - destruct (auth_slice_ok bs hb nh rest' OK F) as (h & A & S & T & N & SF & DR & LE & V & NH).
    rewrite S. unfold usize_sub. destruct (len hb <=? len bs) eqn:X; [|apply N.leb_gt in X; lia].
    rewrite N, T. cbn [bind]. rewrite DR.
    destruct (nh =? 51); cbn [w_stop w_chain w_next w_rest struct4_of_chain]; rewrite A; reflexivity.
  - rewrite (auth_slice_fault bs x F). cbn [w_stop w_rest w_chain w_next struct4_of_chain].
    apply N.eqb_eq in E. subst first. destruct x; reflexivity.
Qed.
