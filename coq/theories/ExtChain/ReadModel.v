(* ExtChain/ReadModel.v -- transliteration of the reader-based decoders
     Ipv6RawExtHeader::{read, read_limited}     raw_read
     Ipv6FragmentHeader::{read, read_limited}   frag_read
     IpAuthHeader::{read, read_limited}         auth_read
     Ipv6Extensions::{read, read_limited}       read6 (loop: read6_loop)
     Ipv4Extensions::{read, read_limited}       read4
   carrying the decoded VALUES (C16's read programs of IoFault/Model.v only carry
   the control flow).  The reader is C16's: a byte source with a cursor
   (IoFault.Spec.fsource, <fsource as std::io::Read>::read, std's default
   read_exact = IoFault.Model.io_read_exact) and, for read_limited, the
   LimitedReader state beside it (IoFault.Model.limrd, lr_start_layer,
   lr_read_exact).  [lim = false] is `read` (T: Read), [lim = true] is
   `read_limited` (LimitedReader<T>); the two functions of each pair differ only
   in `reader.start_layer(..)` and the error mapping.
   Results: IoFault.Model.qres (QIo: std::io::Error kind, QLen: the LenError of
   the LimitedReader, QContent: HopByHopNotAtStart / ZeroPayloadLen, QUnderflow:
   usize underflow inside LimitedReader, QBad: impossible index, QFuel). *)
From EP Require Import Base.Bytes IoFault.Spec IoFault.Model ExtChain.Spec ExtChain.Model.
Local Open Scope N_scope.

Definition qbind {A B} (r : qres A * rstate) (k : A -> rstate -> qres B * rstate) : qres B * rstate :=
  match r with
  | (QOk a, st) => k a st
  | (QIo e, st) => (QIo e, st)
  | (QLen e, st) => (QLen e, st)
  | (QContent c, st) => (QContent c, st)
  | (QUnderflow, st) => (QUnderflow, st)
  | (QBad, st) => (QBad, st)
  | (QFuel, st) => (QFuel, st)
  end.

(* reader.read_exact(&mut buf[..n]) : T::read_exact or LimitedReader::read_exact *)
Definition rd_exact (st : rstate) (n : N) : qres bytes * rstate :=
  match rs_lim st with
  | None =>
    match io_read_exact (rs_src st) n with
    | (XOk bs, s') => (QOk bs, mk_rstate s' None)
    | (XIo e, s') => (QIo e, mk_rstate s' None)
    | (XPanic, s') => (QBad, mk_rstate s' None)
    | (XFuel, s') => (QFuel, mk_rstate s' None)
    end
  | Some r =>
    match lr_read_exact r (rs_src st) n with
    | (q, r', s') => (q, mk_rstate s' (Some r'))
    end
  end.

(* reader.start_layer(layer) -- only in the read_limited variants *)
Definition start_layer (lim : bool) (layer : N) (st : rstate) : qres unit * rstate :=
  if lim then
    match rs_lim st with
    | None => (QBad, st)
    | Some r =>
      match lr_start_layer r layer with
      | None => (QUnderflow, st)
      | Some r' => (QOk tt, mk_rstate (rs_src st) (Some r'))
      end
    end
  else (QOk tt, st).

(* Ipv6RawExtHeader::read / read_limited *)
Definition raw_read (lim : bool) (st : rstate) : qres RawExt * rstate :=
  qbind (start_layer lim L_IPV6EXT st) (fun _ st =>
  qbind (rd_exact st 2) (fun d st =>
    match rd d 0, rd d 1 with
    | Some next_header, Some header_length =>
      (* reader.read_exact(&mut buffer[..usize::from(header_length) * 8 + 6]) *)
      qbind (rd_exact st (header_length * 8 + 6)) (fun payload st =>
        (QOk (mkRaw next_header header_length payload), st))
    | _, _ => (QBad, st)
    end)).

(* Ipv6FragmentHeader::read / read_limited: from_slice_unchecked(&buffer).to_header() *)
Definition frag_read (lim : bool) (st : rstate) : qres Frag * rstate :=
  qbind (start_layer lim L_IPV6FRAG st) (fun _ st =>
  qbind (rd_exact st 8) (fun buffer st =>
    match @frag_slice_to_header unit buffer with
    | Ok h => (QOk h, st)
    | _ => (QBad, st)
    end)).

(* IpAuthHeader::read / read_limited *)
Definition auth_read (lim : bool) (st : rstate) : qres AuthH * rstate :=
  qbind (start_layer lim L_AUTH st) (fun _ st =>
  qbind (rd_exact st 12) (fun start st =>
    match rd start 0, rd start 1, rd start 4, rd start 5, rd start 6, rd start 7,
          rd start 8, rd start 9, rd start 10, rd start 11 with
    | Some next_header, Some payload_len, Some b4, Some b5, Some b6, Some b7,
      Some b8, Some b9, Some b10, Some b11 =>
      if payload_len <? 1 then (QContent CAuthZeroLen, st)
      else
        (* raw_icv_len: payload_len - 1 (u8, >= 0 here); read_exact(&mut buffer[..(payload_len - 1) * 4]) *)
        qbind (rd_exact st ((payload_len - 1) * 4)) (fun icv st =>
          (QOk (mkAuth next_header (be32 b4 b5 b6 b7) (be32 b8 b9 b10 b11) (payload_len - 1) icv), st))
    | _, _, _, _, _, _, _, _, _, _ => (QBad, st)
    end)).

(* the `loop` of Ipv6Extensions::read / read_limited *)
Fixpoint read6_loop (fuel : nat) (lim : bool) (result : Exts6) (next_protocol : N) (st : rstate)
  : qres (Exts6 * N) * rstate :=
  match fuel with
  | O => (QFuel, st)
  | S f =>
    match arm_of next_protocol with
    | AHop => (QContent CHopNotAtStart, st)
    | ADest =>
      match routing result with
      | Some r =>
        if is_some (rt_final_destination_options r) then (QOk (result, next_protocol), st)
        else qbind (raw_read lim st) (fun header st =>
               read6_loop f lim (set_routing result (mkRouting (rt_routing r) (Some header)))
                          (r_next_header header) st)
      | None =>
        if is_some (destination_options result) then (QOk (result, next_protocol), st)
        else qbind (raw_read lim st) (fun header st =>
               read6_loop f lim (set_dst result header) (r_next_header header) st)
      end
    | ARoute =>
      if is_some (routing result) then (QOk (result, next_protocol), st)
      else qbind (raw_read lim st) (fun header st =>
             read6_loop f lim (set_routing result (mkRouting header None)) (r_next_header header) st)
    | AFrag =>
      if is_some (fragment result) then (QOk (result, next_protocol), st)
      else qbind (frag_read lim st) (fun header st =>
             read6_loop f lim (set_frag result header) (f_next_header header) st)
    | AAuth =>
      if is_some (auth result) then (QOk (result, next_protocol), st)
      else qbind (auth_read lim st) (fun header st =>
             read6_loop f lim (set_auth result header) (a_next_header header) st)
    | AOther => (QOk (result, next_protocol), st)
    end
  end.

(* Ipv6Extensions::read (lim = false) / read_limited (lim = true) *)
Definition read6 (lim : bool) (start_ip_number : N) (st : rstate) : qres (Exts6 * N) * rstate :=
  if IPV6_HOP_BY_HOP =? start_ip_number then
    qbind (raw_read lim st) (fun header st =>
      read6_loop LOOP_FUEL lim (set_hop exts6_default header) (r_next_header header) st)
  else read6_loop LOOP_FUEL lim exts6_default start_ip_number st.

(* Ipv4Extensions::read / read_limited *)
Definition read4 (lim : bool) (start_ip_number : N) (st : rstate) : qres (Exts4 * N) * rstate :=
  if AUTH =? start_ip_number then
    qbind (auth_read lim st) (fun header st =>
      (QOk (mkExts4 (Some header), a_next_header header), st))
  else (QOk (mkExts4 None, start_ip_number), st).

(* std::io::Cursor over a byte string: delivers what is asked for until the data ends, then EOF
   (any chunking >= 1 behaves the same: the theorems quantify over it) *)
Definition cursor (d : bytes) : fsource := mk_fsource d 65536 false 0.
