(* ExtChain/DecodeTotal.v -- summary theorems of WalkProofs.v / WriteBack.v in the
   form Props/C12.v states them. *)
From EP Require Import Base.Bytes ExtChain.Spec ExtChain.Model ExtChain.View ExtChain.Proofs
  ExtChain.WalkSpec ExtChain.WalkView ExtChain.WalkProofs ExtChain.WriteBack.
From Coq Require Import ZArith Lia ZifyN ZifyBool.
Local Open Scope N_scope.

(* the struct of a walk, whatever made the walk stop (also the partial struct of from_slice_lax) *)
Lemma walk_struct first bs : bytes_ok bs ->
  let w := ref_walk first bs in
  slotwise (struct_of_chain (w_chain w)) (w_chain w) /\
  exts6_valid (struct_of_chain (w_chain w)) = true /\
  Forall item_decodes (w_chain w).
Proof.
  intros OK w.
  assert (LF : (length bs < S (length bs))%nat) by lia.
  pose proof (walk_loop_sound (S (length bs)) true [] first bs LF) as CH. cbv zeta in CH. fold (ref_walk first bs) in CH. fold w in CH.
  pose proof (chain_ok_items _ _ _ _ _ _ _ _ OK CH) as IT.
  split; [|split].
  3:{ eapply Forall_impl; [|exact IT]. apply item_decodes_ok. }
  all: unfold struct_of_chain; clearbody w; destruct w as [chain last rest st]; cbn [w_chain w_next w_rest w_stop] in *.
  all: destruct (first =? 0) eqn:E0.
  all: try (apply chain_ok_start_irrelevant in CH; [|exact E0];
            destruct (struct_slots chain [] _ _ _ _ _ exts6_default CH IT slots_agree_default) as (G & VV & HH)).
  2:{ intros k. rewrite G. destruct (lookup k chain); [reflexivity|]. destruct k; reflexivity. }
  3:{ apply VV. reflexivity. }
  all: destruct chain as [|[k hb] tl]; [cbn; try reflexivity; intros k; destruct k; reflexivity|].
  all: assert (D : decide true [] first = DTake KHopByHop) by (unfold decide; cbn [ip_number_of]; rewrite E0; reflexivity).
  all: cbn in CH; destruct CH as (D' & nh & bs' & F & _ & CH); rewrite D in D'; injection D' as <-.
  all: inversion IT as [|? ? I IT']; subst.
  all: destruct (raw_kind_item _ hb I ltac:(discriminate) ltac:(discriminate)) as (h & RB & V & TB & R0').
  all: assert (EQ : struct_from exts6_default ((KHopByHop, hb) :: tl) = struct_from (set_hop exts6_default h) tl)
         by (unfold struct_from; cbn [fold_left]; f_equal; unfold place; rewrite RB; reflexivity).
  all: rewrite EQ; clear EQ.
  all: destruct (struct_slots tl [KHopByHop] _ _ _ _ _ (set_hop exts6_default h) CH IT' (slots_agree_hop h))
         as (G & VV & HH).
  - pose proof (chain_ok_no_hop tl _ _ _ _ _ _ CH) as NOHOP.
    intros k. rewrite G. cbn [lookup]. destruct (kind_eqb k KHopByHop) eqn:E.
    + apply kind_eqb_eq in E. subst k. rewrite NOHOP. unfold hdr_of_bytes. rewrite RB. reflexivity.
    + destruct (lookup k tl); [reflexivity|]. destruct k; try discriminate; reflexivity.
  - apply VV. unfold exts6_valid, set_hop. cbn. rewrite V. reflexivity.
Qed.

(* at most six headers, each of at least 8 bytes: both termination measures *)
Lemma chain_ok_length chain : forall seen n bs last rest st,
  chain_ok false seen n bs chain last rest st -> (length chain <= free seen)%nat.
Proof.
  induction chain as [|[k hb] tl IH]; intros seen n bs last rest st H; [cbn; lia|].
  cbn in H. destruct H as (D & nh & bs' & _ & _ & H). apply IH in H. cbn [length].
  apply decide_take_loop in D.
  destruct D as [(-> & _ & R & X)|[(-> & _ & R & X)|[(-> & _ & R)|[(-> & _ & R)|(-> & _ & R)]]]];
    unfold free in *; rewrite ?has_cons in H; cbn [kind_eqb orb] in H;
    repeat match goal with E : has _ _ = _ |- _ => rewrite E in * end; cbn [fb] in *; lia.
Qed.

Lemma chain_ok_len8 chain : forall start seen n bs last rest st,
  chain_ok start seen n bs chain last rest st -> 8 * len chain <= len (concat (map snd chain)).
Proof.
  induction chain as [|[k hb] tl IH]; intros start seen n bs last rest st H; [cbn; lia|].
  cbn in H. destruct H as (_ & nh & bs' & F & _ & H). apply IH in H.
  apply frame_framed in F. destruct F as (_ & L8 & _).
  cbn [map snd concat]. rewrite len_app, len_cons. lia.
Qed.

Theorem from_slice_total first bs : bytes_ok bs ->
  let w := ref_walk first bs in
  from_slice first bs = strict_of_walk w /\
  from_slice_lax first bs = lax_of_walk w /\
  w_stop w <> SFuel /\
  chain_ok true [] first bs (w_chain w) (w_next w) (w_rest w) (w_stop w) /\
  bs = consumed w ++ w_rest w /\
  last_next first (w_chain w) = Some (w_next w) /\
  slotwise (struct_of_chain (w_chain w)) (w_chain w) /\
  exts6_valid (struct_of_chain (w_chain w)) = true /\
  len (w_chain w) <= 6 /\ 8 * len (w_chain w) <= len (consumed w).
Proof.
  intros OK w.
  assert (LF : (length bs < S (length bs))%nat) by lia.
  pose proof (walk_loop_sound (S (length bs)) true [] first bs LF) as CH. cbv zeta in CH. fold (ref_walk first bs) in CH. fold w in CH.
  destruct (walk_struct first bs OK) as (SW & V & _). fold w in SW, V.
  split; [exact (from_slice_walk first bs OK)|]. split; [exact (from_slice_lax_walk first bs OK)|].
  split; [intros E; rewrite E in CH; exact (chain_ok_not_fuel _ _ _ _ _ _ _ CH)|].
  split; [exact CH|]. split; [exact (chain_ok_split _ _ _ _ _ _ _ _ CH)|].
  split; [exact (chain_ok_last _ _ _ _ _ _ _ _ CH)|]. split; [exact SW|]. split; [exact V|].
  split; [|exact (chain_ok_len8 _ _ _ _ _ _ _ _ CH)].
  destruct (w_chain w) as [|[k hb] tl] eqn:EC; [cbn; lia|].
  cbn in CH. destruct CH as (D & nh & bs' & _ & _ & CH). apply chain_ok_length in CH.
  pose proof (free_le5 (k :: [])). rewrite len_cons. unfold len. lia.
Qed.

(* the explicit form: never Panic, never OutOfFuel; lax never fails and equals strict on success *)
Theorem from_slice_never_panics first bs : bytes_ok bs ->
  match from_slice first bs with
  | Ok (e, n, rest) => from_slice_lax first bs = Ok (e, n, rest, None)
  | Err x => exists e n rest l, from_slice_lax first bs = Ok (e, n, rest, Some (x, l))
  | Panic | OutOfFuel => False
  end.
Proof.
  intros OK. destruct (from_slice_total first bs OK) as (S & L & NF & _). rewrite S, L.
  unfold strict_of_walk, lax_of_walk, strict_from, lax_from.
  destruct (w_stop (ref_walk first bs)) as [| | |k x|]; try reflexivity; try (do 4 eexists; reflexivity).
  congruence.
Qed.

(* decode then write / next_header on the decoded struct *)
Theorem decode_any_then_write first bs e n rest : bytes_ok bs ->
  from_slice first bs = Ok (e, n, rest) ->
  let w := ref_walk first bs in
  e = struct_of_chain (w_chain w) /\ n = w_next w /\ rest = w_rest w /\
  bs = consumed w ++ rest /\
  write e first = (normalised (w_chain w), Ok tt) /\
  next_header e first = Ok n /\
  len (normalised (w_chain w)) = len (consumed w).
Proof.
  intros OK H w. destruct (from_slice_total first bs OK) as (S & _ & _ & CH & SP & _). fold w in S, CH, SP.
  rewrite S in H. unfold strict_of_walk, strict_from in H.
  assert (ST : w_stop w = SNonExt \/ w_stop w = SRefilled).
  { destruct (w_stop w); try discriminate; auto. }
  assert (R : Ok (struct_from exts6_default (w_chain w), w_next w, w_rest w) = Ok (e, n, rest) :> res hdr_slice_error _).
  { destruct ST as [E|E]; rewrite E in H; exact H. }
  injection R as <- <- <-.
  destruct (decode_then_write first bs OK ST) as (_ & _ & W & NH). fold w in W, NH.
  repeat split; try assumption.
  (* lengths: normalising keeps the length of every header *)
  unfold normalised, consumed. clear. induction (w_chain w) as [|[k hb] tl IH]; [reflexivity|].
  cbn [map concat snd]. rewrite !len_app, IH. f_equal.
  unfold normalise. destruct k; try reflexivity.
  - destruct hb as [|b0 [|b1 [|b2 [|b3 t]]]]; reflexivity.
  - destruct hb as [|b0 [|b1 [|b2 [|b3 t]]]]; reflexivity.
Qed.

(* ---- IPv4 ---- *)
Theorem from_slice4_total first bs : bytes_ok bs ->
  let w := ref_walk4 first bs in
  from_slice4 first bs = strict4_of_walk w /\
  from_slice_lax4 first bs = lax4_of_walk w /\
  w_stop w <> SFuel /\
  bs = consumed w ++ w_rest w /\
  last_next first (w_chain w) = Some (w_next w) /\
  exts4_valid (struct4_of_chain (w_chain w)) = true.
Proof.
  intros OK w. split; [exact (from_slice4_walk first bs OK)|]. split; [exact (from_slice_lax4_walk first bs OK)|].
  unfold w, ref_walk4. cbn [ip_number_of]. destruct (first =? 51) eqn:E.
  - destruct (frame_auth bs) as [hb nh rest'|x] eqn:F.
    + destruct (auth_slice_ok bs hb nh rest' OK F) as (h & A & _ & _ & _ & _ & _ & _ & V & _).
      apply frame_auth_framed in F. destruct F as (pl & _ & _ & _ & EB & _ & R0 & _).
      cbn [w_stop w_chain w_next w_rest consumed map snd concat last_next struct4_of_chain].
      rewrite app_nil_r, R0, A. split; [destruct (nh =? 51); discriminate|]. auto.
    + cbn. split; [discriminate|]. auto.
  - cbn. split; [discriminate|]. auto.
Qed.

Theorem decode_any_then_write4 first bs e n rest : bytes_ok bs ->
  from_slice4 first bs = Ok (e, n, rest) ->
  let w := ref_walk4 first bs in
  e = struct4_of_chain (w_chain w) /\ n = w_next w /\ rest = w_rest w /\
  bs = consumed w ++ rest /\
  write4 e first = (normalised (w_chain w), Ok tt) /\
  next_header4 e first = Ok n.
Proof.
  intros OK H w. destruct (from_slice4_total first bs OK) as (S & _ & _ & SP & _). fold w in S, SP.
  rewrite S in H. unfold w, ref_walk4, strict4_of_walk in *. cbn [ip_number_of] in *.
  destruct (first =? 51) eqn:E.
  - destruct (frame_auth bs) as [hb nh rest'|x] eqn:F.
    + destruct (auth_slice_ok bs hb nh rest' OK F) as (h & A & _ & _ & _ & _ & _ & _ & V & NH).
      apply frame_auth_framed in F. destruct F as (pl & R1 & _ & P & EB & LH & R0 & R1' & ET & _).
      assert (OKH : bytes_ok hb) by (rewrite ET; apply bytes_ok_take; exact OK).
      destruct (auth_item hb OKH (ex_intro _ pl (conj R1' (conj P LH)))) as (h' & A' & _ & TB & _).
      rewrite A in A'. injection A' as <-.
      cbn [w_stop w_chain w_next w_rest] in *.
      assert (R : Ok (struct4_of_chain [(KAuth, hb)], nh, rest') = Ok (e, n, rest) :> res auth_slice_error _)
        by (destruct (nh =? 51); exact H).
      injection R as <- <- <-. cbn [struct4_of_chain]. rewrite A.
      repeat split; try assumption.
      * unfold write4, AUTH. cbn [auth4]. rewrite (N.eqb_sym 51 first), E, TB.
        unfold normalised. cbn [map concat]. rewrite app_nil_r. reflexivity.
      * unfold next_header4. cbn [auth4]. unfold AUTH. rewrite E, NH. reflexivity.
    + cbn [w_stop] in H. discriminate.
  - cbn in H. injection H as <- <- <-. cbn. repeat split; try reflexivity.
Qed.
