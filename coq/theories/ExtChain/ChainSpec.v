(* ExtChain/ChainSpec.v -- what "the headers of an extension header set form a
   consistent chain" means, written from RFC 8200 section 4 / 4.1 and NOT from
   the walkers of the crate: no function of the model occurs here, only
   Spec.linked, Spec.in_rfc_order, the six positions and their IANA numbers.

   RFC 8200 4: "Each extension header is identified by the Next Header value of
   the preceding header" -- Spec.linked.
   RFC 8200 4.1: the Hop-by-Hop Options header "is restricted to appear
   immediately after an IPv6 header only"; "Each extension header should occur
   at most once, except for the Destination Options header, which should occur
   at most twice (once before a Routing header and once before the Upper-Layer
   header)".  The two Destination Options positions of the struct are BY
   DEFINITION the one in front of the Routing header (KDestOpts) and the one
   behind it (KFinalDestOpts; it is stored inside the routing entry).  The
   relative order of routing / fragment / authentication headers is only
   "recommended" by the RFC and is not part of the discipline below.

   A set of headers is given as [get : ext_kind -> option N]: the content of
   the Next Header field of the header at a position, None = no header there
   (for a model struct: View.get_nh e). *)
From EP Require Import Base.Bytes ExtChain.Spec ExtChain.WalkSpec.
From Coq Require Import Permutation.
Local Open Scope N_scope.

(* ------------------------------------------------------------------ *)
(* the slot discipline *)

(* may the header of position k stand directly behind the headers [front]? *)
Definition may_follow (front : list ext_kind) (k : ext_kind) : Prop :=
  match k with
  | KHopByHop => front = []               (* immediately after the IPv6 header only *)
  | KDestOpts => ~ In KRouting front      (* the destination options in front of the routing header *)
  | KFinalDestOpts => In KRouting front   (* the destination options behind the routing header *)
  | KRouting | KFragment | KAuth => True
  end.

(* positions in wire order: every header may follow the headers in front of it *)
Definition slot_order (ks : list ext_kind) : Prop :=
  forall front k back, ks = front ++ k :: back -> may_follow front k.

(* ------------------------------------------------------------------ *)
(* chains over a set of headers *)

(* the entry (k, nh) is the header at position k with its Next Header field *)
Definition is_header_of {A} (get : ext_kind -> option A) (p : ext_kind * A) : Prop :=
  get (fst p) = Some (snd p).

(* [chain] is a chain of headers of the set that starts at the number [first]
   of the IP header and hands on the number [next]: its entries are headers of
   the set, no header occurs twice, the positions obey the slot discipline and
   every header is announced by its predecessor.  It need not contain every
   header of the set. *)
Definition referenced (get : ext_kind -> option N) (first : N) (chain : list (ext_kind * N)) (next : N) : Prop :=
  Forall (is_header_of get) chain /\ NoDup (map fst chain) /\
  slot_order (map fst chain) /\ linked first chain next.

(* the number [next] handed on by the chain announces the header (k, nh) of the
   set, which is not yet in the chain and may stand behind it *)
Definition can_extend (get : ext_kind -> option N) (chain : list (ext_kind * N)) (next : N)
           (k : ext_kind) (nh : N) : Prop :=
  ip_number_of k = next /\ get k = Some nh /\ ~ In k (map fst chain) /\ may_follow (map fst chain) k.

(* the chain cannot be continued *)
Definition maximal (get : ext_kind -> option N) (chain : list (ext_kind * N)) (next : N) : Prop :=
  forall k nh, ~ can_extend get chain next k nh.

(* the headers of the set the chain does not mention, in RFC 8200 order *)
Definition unreferenced (get : ext_kind -> option N) (chain : list (ext_kind * N)) : list ext_kind :=
  filter (fun k => match get k with Some _ => negb (has k (map fst chain)) | None => false end) rfc8200_order.

(* a chain of ALL headers of the set, every one exactly once: a rearrangement of
   the headers in RFC order (Spec.in_rfc_order lists every header once) *)
Definition complete_chain (get : ext_kind -> option N) (first : N) (chain : list (ext_kind * N)) (n : N) : Prop :=
  Permutation chain (in_rfc_order get) /\ slot_order (map fst chain) /\ linked first chain n.

(* ------------------------------------------------------------------ *)
(* what a maximal chain means for the outcome (err::ipv6_exts::ExtsWalkError is
   rendered as a small spec type to keep this file free of the model) *)
Inductive chain_verdict :=
| VOk (n : N)                      (* every header is in the chain: the chain leads to n *)
| VHopByHopNotAtStart              (* the chain stops on 0 = hop-by-hop options, which are in the set but
                                      not at the start *)
| VNotReferenced (missing : N).    (* IANA number of the first header in RFC order no link leads to *)

Definition verdict (get : ext_kind -> option N) (chain : list (ext_kind * N)) (next : N) : chain_verdict :=
  match unreferenced get chain with
  | [] => VOk next
  | k :: _ =>
    if (next =? ip_number_of KHopByHop) && kind_eqb k KHopByHop then VHopByHopNotAtStart
    else VNotReferenced (ip_number_of k)
  end.
