(* ExtChain/ReadErase.v -- the value-carrying readers of ReadModel.v against the read PROGRAMS
   of C16 (IoFault/Model.v: ipv6_raw_ext_read, ipv6_frag_read, ip_auth_read, x6_read, x4_read
   run by run_r): same reader calls in the same order, same final reader state, same verdict;
   the program's summary [next number; mask of filled positions] is the erasure of the value.
   Hence what C16 (fault behaviour of every read program) and C06 (Equiv/ReadChain.v:
   read = from_slice for the program x6_read) prove about the programs holds for read6 / read4. *)
From EP Require Import Base.Bytes IoFault.Spec IoFault.Model IoFault.Proofs
  ExtChain.Spec ExtChain.Model ExtChain.View ExtChain.Proofs
  ExtChain.WalkSpec ExtChain.WalkView ExtChain.WalkProofs
  ExtChain.ReadModel ExtChain.ReadView ExtChain.ReadProofs.
From Coq Require Import ZArith Lia ZifyN ZifyBool.
Local Open Scope N_scope.

Definition chunk_ok (st : rstate) : Prop := 1 <= src_chunk (rs_src st).

Definition qmap_pair {A B} (f : A -> B) (r : qres A * rstate) : qres B * rstate :=
  (qmap f (fst r), snd r).

Lemma qmap_pair_qbind {A B C} (g : B -> C) (r : qres A * rstate) k :
  qmap_pair g (qbind r k) = qbind r (fun a st => qmap_pair g (k a st)).
Proof. destruct r as [[a|e|e|c| | |] st]; reflexivity. Qed.

Lemma qbind_ext {A B} (r : qres A * rstate) (k1 k2 : A -> rstate -> qres B * rstate) :
  (forall a st, r = (QOk a, st) -> k1 a st = k2 a st) -> qbind r k1 = qbind r k2.
Proof. destruct r as [[a|e|e|c| | |] st]; intros H; try reflexivity. cbn. apply H. reflexivity. Qed.

(* ---- the two reader primitives ---- *)
Lemma run_PRead_cps n k st :
  run_r (PRead n k) st = qbind (rd_exact st n) (fun bs st' => run_r (k bs) st').
Proof.
  cbn [run_r]. unfold rd_exact. destruct (rs_lim st) as [r|].
  - destruct (lr_read_exact r (rs_src st) n) as [[[bs|e|e|c| | |] r'] s']; reflexivity.
  - destruct (io_read_exact (rs_src st) n) as [[bs|e| |] s']; reflexivity.
Qed.

Lemma run_start_cps lim layer k st :
  run_r (with_start lim layer k) st = qbind (start_layer lim layer st) (fun _ st' => run_r k st').
Proof.
  unfold with_start, start_layer. destruct lim; [|reflexivity].
  cbn [run_r]. destruct (rs_lim st) as [r|]; [|reflexivity].
  destruct (lr_start_layer r layer); reflexivity.
Qed.

Lemma rd_exact_shape st n bs st' : chunk_ok st -> rd_exact st n = (QOk bs, st') -> len bs = n /\ chunk_ok st'.
Proof.
  unfold chunk_ok, rd_exact. intros Hc. destruct (rs_lim st) as [r|].
  - unfold lr_read_exact. destruct (checked_sub (lr_max r) (lr_read r)) as [rem|]; [|discriminate].
    destruct (rem <? n); [discriminate|].
    rewrite io_read_exact_spec by exact Hc. unfold spec_read_exact.
    destruct (n <=? len (src_data (rs_src st))) eqn:E; cbn [fst snd xres_of]; [|discriminate].
    apply N.leb_le in E. intros H. injection H as <- <-. cbn [rs_src src_chunk app].
    split; [rewrite len_take; lia|exact Hc].
  - rewrite io_read_exact_spec by exact Hc. unfold spec_read_exact.
    destruct (n <=? len (src_data (rs_src st))) eqn:E; cbn [fst snd xres_of]; [|discriminate].
    apply N.leb_le in E. intros H. injection H as <- <-. cbn [rs_src src_chunk app].
    split; [rewrite len_take; lia|exact Hc].
Qed.

Lemma start_layer_shape lim layer st u st' : chunk_ok st -> start_layer lim layer st = (QOk u, st') -> chunk_ok st'.
Proof.
  unfold chunk_ok, start_layer. intros Hc. destruct lim.
  - destruct (rs_lim st) as [r|]; [|discriminate]. destruct (lr_start_layer r layer); [|discriminate].
    intros H. injection H as _ <-. exact Hc.
  - intros H. injection H as _ <-. exact Hc.
Qed.

(* ---- the three header readers ---- *)
Lemma raw_erase lim k st :
  run_r (ipv6_raw_ext_read lim k) st = qbind (raw_read lim st) (fun h st' => run_r (k (r_next_header h)) st').
Proof.
  unfold ipv6_raw_ext_read, raw_read. rewrite run_start_cps.
  destruct (start_layer lim L_IPV6EXT st) as [[u|e|e|c| | |] st1]; try reflexivity. cbn [qbind].
  rewrite run_PRead_cps. destruct (rd_exact st1 2) as [[d|e|e|c| | |] st2]; try reflexivity. cbn [qbind].
  unfold at_. destruct (rd d 0) as [nh|]; [|reflexivity]. destruct (rd d 1) as [hl|]; [|reflexivity].
  rewrite run_PRead_cps. destruct (rd_exact st2 (hl * 8 + 6)) as [[pl|e|e|c| | |] st3]; reflexivity.
Qed.

Lemma raw_read_chunk lim st h st' : chunk_ok st -> raw_read lim st = (QOk h, st') -> chunk_ok st'.
Proof.
  intros Hc. unfold raw_read.
  destruct (start_layer lim L_IPV6EXT st) as [[u|e|e|c| | |] st1] eqn:S; try discriminate. cbn [qbind].
  pose proof (start_layer_shape _ _ _ _ _ Hc S) as Hc1.
  destruct (rd_exact st1 2) as [[d|e|e|c| | |] st2] eqn:R1; try discriminate. cbn [qbind].
  destruct (rd_exact_shape _ _ _ _ Hc1 R1) as [_ Hc2].
  destruct (rd d 0) as [nh|]; [|discriminate]. destruct (rd d 1) as [hl|]; [|discriminate].
  destruct (rd_exact st2 (hl * 8 + 6)) as [[pl|e|e|c| | |] st3] eqn:R2; try discriminate. cbn [qbind].
  destruct (rd_exact_shape _ _ _ _ Hc2 R2) as [_ Hc3]. intros H. injection H as _ <-. exact Hc3.
Qed.

Lemma frag_erase lim k st : chunk_ok st ->
  run_r (ipv6_frag_read lim k) st = qbind (frag_read lim st) (fun h st' => run_r (k (f_next_header h)) st').
Proof.
  intros Hc. unfold ipv6_frag_read, frag_read. rewrite run_start_cps.
  destruct (start_layer lim L_IPV6FRAG st) as [[u|e|e|c| | |] st1] eqn:S; try reflexivity. cbn [qbind].
  pose proof (start_layer_shape _ _ _ _ _ Hc S) as Hc1.
  rewrite run_PRead_cps. destruct (rd_exact st1 8) as [[b|e|e|c| | |] st2] eqn:R1; try reflexivity. cbn [qbind].
  destruct (rd_exact_shape _ _ _ _ Hc1 R1) as [L8 _].
  destruct (@frag_to_header_spec unit b L8) as (h & _ & TH & R0). rewrite TH. cbn [qbind].
  unfold at_. rewrite R0. reflexivity.
Qed.

Lemma frag_read_chunk lim st h st' : chunk_ok st -> frag_read lim st = (QOk h, st') -> chunk_ok st'.
Proof.
  intros Hc. unfold frag_read.
  destruct (start_layer lim L_IPV6FRAG st) as [[u|e|e|c| | |] st1] eqn:S; try discriminate. cbn [qbind].
  pose proof (start_layer_shape _ _ _ _ _ Hc S) as Hc1.
  destruct (rd_exact st1 8) as [[b|e|e|c| | |] st2] eqn:R1; try discriminate. cbn [qbind].
  destruct (rd_exact_shape _ _ _ _ Hc1 R1) as [_ Hc2].
  destruct (@frag_slice_to_header unit b); try discriminate. intros H. injection H as _ <-. exact Hc2.
Qed.

Lemma auth_erase lim k st : chunk_ok st ->
  run_r (ip_auth_read lim k) st = qbind (auth_read lim st) (fun h st' => run_r (k (a_next_header h)) st').
Proof.
  intros Hc. unfold ip_auth_read, auth_read. rewrite run_start_cps.
  destruct (start_layer lim L_AUTH st) as [[u|e|e|c| | |] st1] eqn:S; try reflexivity. cbn [qbind].
  pose proof (start_layer_shape _ _ _ _ _ Hc S) as Hc1.
  rewrite run_PRead_cps. destruct (rd_exact st1 12) as [[b|e|e|c| | |] st2] eqn:R1; try reflexivity. cbn [qbind].
  destruct (rd_exact_shape _ _ _ _ Hc1 R1) as [L12 _].
  destruct b as [|b0 [|b1 [|b2 [|b3 [|b4 [|b5 [|b6 [|b7 [|b8 [|b9 [|b10 [|b11 t]]]]]]]]]]]];
    try (rewrite ?len_cons, ?len_nil in L12; lia).
  unfold at_. rewrite rd0, rd1, rd4, rd5, rd6, rd7, rd8, rd9, rd10, rd11.
  destruct (b1 <? 1); [reflexivity|].
  rewrite run_PRead_cps. destruct (rd_exact st2 ((b1 - 1) * 4)) as [[icv|e|e|c| | |] st3]; reflexivity.
Qed.

Lemma auth_read_chunk lim st h st' : chunk_ok st -> auth_read lim st = (QOk h, st') -> chunk_ok st'.
Proof.
  intros Hc. unfold auth_read.
  destruct (start_layer lim L_AUTH st) as [[u|e|e|c| | |] st1] eqn:S; try discriminate. cbn [qbind].
  pose proof (start_layer_shape _ _ _ _ _ Hc S) as Hc1.
  destruct (rd_exact st1 12) as [[b|e|e|c| | |] st2] eqn:R1; try discriminate. cbn [qbind].
  destruct (rd_exact_shape _ _ _ _ Hc1 R1) as [_ Hc2].
  destruct (rd b 0), (rd b 1), (rd b 4), (rd b 5), (rd b 6), (rd b 7), (rd b 8), (rd b 9), (rd b 10), (rd b 11);
    try discriminate.
  destruct (_ <? 1); [discriminate|].
  destruct (rd_exact st2 _) as [[icv|e|e|c| | |] st3] eqn:R2; try discriminate. cbn [qbind].
  destruct (rd_exact_shape _ _ _ _ Hc2 R2) as [_ Hc3]. intros H. injection H as _ <-. exact Hc3.
Qed.

(* ---- the loop ---- *)
Definition free_e (e : Exts6) : nat :=
  (fb (is_some (destination_options e)) + fb (is_some (routing e))
   + fb (match routing e with Some r => is_some (rt_final_destination_options r) | None => false end)
   + fb (is_some (fragment e)) + fb (is_some (auth e)))%nat.

Lemma free_e_le5 e : (free_e e <= 5)%nat.
Proof. unfold free_e, fb. repeat match goal with |- context[if ?b then _ else _] => destruct b end; lia. Qed.

Ltac erase_step IH Hc lem chunk_lem :=
  rewrite lem by exact Hc; rewrite qmap_pair_qbind; apply qbind_ext; intros h st' E;
  match goal with
  | |- run_r (x6_read_loop _ _ ?s _) _ = qmap_pair _ (read6_loop _ _ ?r _ _) =>
    replace s with (slots_of r) by (unfold slots_of; cbn; repeat match goal with H : _ = _ |- _ => rewrite H end; reflexivity)
  end;
  apply IH; [exact (chunk_lem _ _ _ _ Hc E)| |].

Lemma loop_erase f1 : forall f2 lim result n st, chunk_ok st ->
  (free_e result < f1)%nat -> (free_e result < f2)%nat ->
  run_r (x6_read_loop f2 lim (slots_of result) n) st = qmap_pair summary6 (read6_loop f1 lim result n st).
Proof.
  induction f1 as [|f1 IH]; intros f2 lim result n st Hc F1 F2; [lia|].
  destruct f2 as [|f2]; [lia|].
  cbn [x6_read_loop read6_loop].
  unfold arm_of, IoFault.Model.IPV6_HOP_BY_HOP, IoFault.Model.IPV6_DEST_OPTIONS, IoFault.Model.IPV6_ROUTE,
    IoFault.Model.IPV6_FRAG, IoFault.Model.AUTH, IPV6_HOP_BY_HOP, IPV6_DEST_OPTIONS, IPV6_ROUTE, IPV6_FRAG, AUTH.
  change (s_hop (slots_of result)) with (is_some (hop_by_hop_options result)).
  change (s_dest (slots_of result)) with (is_some (destination_options result)).
  change (s_route (slots_of result)) with (is_some (routing result)).
  change (s_final (slots_of result))
    with (match routing result with Some r => is_some (rt_final_destination_options r) | None => false end).
  change (s_frag (slots_of result)) with (is_some (fragment result)).
  change (s_auth (slots_of result)) with (is_some (auth result)).
  destruct (n =? 0) eqn:E0; [reflexivity|].
  destruct (n =? 60) eqn:E60.
  { destruct (routing result) as [rt|] eqn:ER; cbn [is_some].
    -
      destruct (is_some (rt_final_destination_options rt)) eqn:EF; [unfold qmap_pair, summary6, slots_of; cbn [qmap fst snd run_r]; rewrite ?ER, ?EF, ?ED, ?EA; reflexivity|].
      rewrite raw_erase. rewrite qmap_pair_qbind. apply qbind_ext. intros h st' E.
      replace (mk_slots _ _ _ true _ _) with (slots_of (set_routing result (mkRouting (rt_routing rt) (Some h))))
        by (unfold slots_of, set_routing; cbn; rewrite ?ER; reflexivity).
      apply IH; [exact (raw_read_chunk _ _ _ _ Hc E)| |];
        unfold free_e, set_routing in *; cbn; rewrite ER in *; rewrite EF in *; cbn [fb is_some] in *; lia.
    - destruct (is_some (destination_options result)) eqn:ED; [unfold qmap_pair, summary6, slots_of; cbn [qmap fst snd run_r]; rewrite ?ER, ?EF, ?ED, ?EA; reflexivity|].
      rewrite raw_erase. rewrite qmap_pair_qbind. apply qbind_ext. intros h st' E.
      replace (mk_slots _ true _ _ _ _) with (slots_of (set_dst result h))
        by (unfold slots_of, set_dst; cbn; rewrite ?ER; reflexivity).
      apply IH; [exact (raw_read_chunk _ _ _ _ Hc E)| |];
        unfold free_e, set_dst in *; cbn; rewrite ER in *; rewrite ED in *; cbn [fb is_some] in *; lia. }
  destruct (n =? 43) eqn:E43.
  { destruct (is_some (routing result)) eqn:ER; [unfold qmap_pair, summary6, slots_of; cbn [qmap fst snd run_r]; rewrite ?ER, ?EF, ?ED, ?EA; reflexivity|].
    rewrite raw_erase. rewrite qmap_pair_qbind. apply qbind_ext. intros h st' E.
    apply is_some_none in ER.
    replace (mk_slots _ _ true _ _ _) with (slots_of (set_routing result (mkRouting h None)))
      by (unfold slots_of, set_routing; cbn; rewrite ?ER; reflexivity).
    apply IH; [exact (raw_read_chunk _ _ _ _ Hc E)| |];
      unfold free_e, set_routing in *; cbn; rewrite ER in *; cbn [fb is_some] in *; lia. }
  destruct (n =? 44) eqn:E44.
  { destruct (is_some (fragment result)) eqn:EF; [unfold qmap_pair, summary6, slots_of; cbn [qmap fst snd run_r]; rewrite ?ER, ?EF, ?ED, ?EA; reflexivity|].
    rewrite frag_erase by exact Hc. rewrite qmap_pair_qbind. apply qbind_ext. intros h st' E.
    replace (mk_slots _ _ _ _ true _) with (slots_of (set_frag result h))
      by (unfold slots_of, set_frag; cbn; reflexivity).
    apply IH; [exact (frag_read_chunk _ _ _ _ Hc E)| |];
      unfold free_e, set_frag in *; cbn; rewrite EF in *; cbn [fb is_some] in *; lia. }
  destruct (n =? 51) eqn:E51.
  { destruct (is_some (auth result)) eqn:EA; [unfold qmap_pair, summary6, slots_of; cbn [qmap fst snd run_r]; rewrite ?ER, ?EF, ?ED, ?EA; reflexivity|].
    rewrite auth_erase by exact Hc. rewrite qmap_pair_qbind. apply qbind_ext. intros h st' E.
    replace (mk_slots _ _ _ _ _ true) with (slots_of (set_auth result h))
      by (unfold slots_of, set_auth; cbn; reflexivity).
    apply IH; [exact (auth_read_chunk _ _ _ _ Hc E)| |];
      unfold free_e, set_auth in *; cbn; rewrite EA in *; cbn [fb is_some] in *; lia. }
  reflexivity.
Qed.

(* Ipv6Extensions::read / read_limited: the value-carrying model run = C16's program run *)
Theorem read6_erase lim first st : chunk_ok st ->
  run_r (x6_read lim first) st = qmap_pair summary6 (read6 lim first st).
Proof.
  intros Hc. unfold x6_read, read6, IoFault.Model.IPV6_HOP_BY_HOP, IPV6_HOP_BY_HOP.
  destruct (0 =? first).
  - rewrite raw_erase. rewrite qmap_pair_qbind. apply qbind_ext. intros h st' E.
    change (mk_slots true false false false false false) with (slots_of (set_hop exts6_default h)).
    apply loop_erase; [exact (raw_read_chunk _ _ _ _ Hc E)| |]; cbn; unfold X6_READ_FUEL, LOOP_FUEL; lia.
  - change no_slots with (slots_of exts6_default).
    apply loop_erase; [exact Hc| |]; cbn; unfold X6_READ_FUEL, LOOP_FUEL; lia.
Qed.

Theorem read4_erase lim first st : chunk_ok st ->
  run_r (x4_read lim first) st = qmap_pair summary4 (read4 lim first st).
Proof.
  intros Hc. unfold x4_read, read4, IoFault.Model.AUTH, AUTH. destruct (51 =? first); [|reflexivity].
  rewrite auth_erase by exact Hc. rewrite qmap_pair_qbind. apply qbind_ext. intros h st' E. reflexivity.
Qed.
