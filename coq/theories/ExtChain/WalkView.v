(* ExtChain/WalkView.v -- the model's answers expressed through a walk of the
   specification (WalkSpec.v): which struct, which error record, which lax
   result a walk stands for.  Only definitions used in statements of C12. *)
From EP Require Import Base.Bytes ExtChain.Spec ExtChain.Model ExtChain.View ExtChain.WalkSpec.
Local Open Scope N_scope.

(* ------------------------------------------------------------------ *)
(* struct fields = bytes at the RFC offsets *)

(* RFC 8200 4.3/4.4/4.6: Next Header | Hdr Ext Len | data *)
Definition raw_of_bytes (hb : bytes) : option RawExt :=
  match hb with
  | nh :: hl :: data => Some (mkRaw nh hl data)
  | _ => None
  end.

(* RFC 8200 4.5: Next Header | Reserved | Fragment Offset (13) Res (2) M (1) | Identification (32) *)
Definition frag_of_bytes (hb : bytes) : option Frag :=
  match hb with
  | [nh; _; o1; o2; i0; i1; i2; i3] =>
    Some (mkFrag nh ((o1 * 256 + o2) / 8) (N.odd o2) (be32 i0 i1 i2 i3))
  | _ => None
  end.

(* RFC 4302 2.: Next Header | Payload Len | RESERVED (16) | SPI (32) | Sequence Number (32) | ICV;
   the struct keeps the ICV length in 32-bit words = Payload Len - 1 *)
Definition auth_of_bytes (hb : bytes) : option AuthH :=
  match hb with
  | nh :: pl :: _ :: _ :: s0 :: s1 :: s2 :: s3 :: q0 :: q1 :: q2 :: q3 :: icv =>
    Some (mkAuth nh (be32 s0 s1 s2 s3) (be32 q0 q1 q2 q3) (pl - 1) icv)
  | _ => None
  end.

(* store the header of position k; an item that does not decode leaves the
   struct alone (walks only contain items that decode: [item_decodes]) *)
Definition place (e : Exts6) (item : ext_kind * bytes) : Exts6 :=
  let (k, hb) := item in
  match k with
  | KHopByHop => match raw_of_bytes hb with Some h => set_hop e h | None => e end
  | KDestOpts => match raw_of_bytes hb with Some h => set_dst e h | None => e end
  | KRouting => match raw_of_bytes hb with Some h => set_routing e (mkRouting h None) | None => e end
  | KFinalDestOpts =>
    match routing e, raw_of_bytes hb with
    | Some r, Some h => set_routing e (mkRouting (rt_routing r) (Some h))
    | _, _ => e
    end
  | KFragment => match frag_of_bytes hb with Some h => set_frag e h | None => e end
  | KAuth => match auth_of_bytes hb with Some h => set_auth e h | None => e end
  end.

Definition item_decodes (item : ext_kind * bytes) : Prop :=
  match fst item with
  | KFragment => frag_of_bytes (snd item) <> None
  | KAuth => auth_of_bytes (snd item) <> None
  | _ => raw_of_bytes (snd item) <> None
  end.

Definition struct_from (e0 : Exts6) (chain : list (ext_kind * bytes)) : Exts6 :=
  fold_left place chain e0.

Definition struct_of_chain (chain : list (ext_kind * bytes)) : Exts6 := struct_from exts6_default chain.

(* the header stored at a position of the struct *)
Inductive hdr := HRaw (h : RawExt) | HFrag (h : Frag) | HAuth (h : AuthH).

Definition get_hdr (e : Exts6) (k : ext_kind) : option hdr :=
  match k with
  | KHopByHop => option_map HRaw (hop_by_hop_options e)
  | KDestOpts => option_map HRaw (destination_options e)
  | KRouting => option_map (fun r => HRaw (rt_routing r)) (routing e)
  | KFragment => option_map HFrag (fragment e)
  | KAuth => option_map HAuth (auth e)
  | KFinalDestOpts =>
    match routing e with
    | Some r => option_map HRaw (rt_final_destination_options r)
    | None => None
    end
  end.

Definition hdr_of_bytes (k : ext_kind) (hb : bytes) : option hdr :=
  match k with
  | KFragment => option_map HFrag (frag_of_bytes hb)
  | KAuth => option_map HAuth (auth_of_bytes hb)
  | _ => option_map HRaw (raw_of_bytes hb)
  end.

Fixpoint lookup (k : ext_kind) (chain : list (ext_kind * bytes)) : option bytes :=
  match chain with
  | [] => None
  | (k', hb) :: tl => if kind_eqb k k' then Some hb else lookup k tl
  end.

(* slot-wise reading of "the struct is the decode of the chain": every position holds the
   decode of the bytes of that position, and nothing else is stored *)
Definition slotwise (e : Exts6) (c : list (ext_kind * bytes)) : Prop :=
  forall k, get_hdr e k = match lookup k c with Some hb => hdr_of_bytes k hb | None => None end.

(* ------------------------------------------------------------------ *)
(* error records *)

(* the Layer in the LenError of the strict decoder is the one of the header slice type *)
Definition strict_layer (k : ext_kind) : layer :=
  match k with
  | KFragment => LIpv6FragHeader
  | KAuth => LIpAuthHeader
  | _ => LIpv6ExtHeader
  end.

(* the Layer from_slice_lax hands back beside the error *)
Definition lax_layer (k : ext_kind) : layer :=
  match k with
  | KHopByHop => LIpv6HopByHopHeader
  | KDestOpts | KFinalDestOpts => LIpv6DestOptionsHeader
  | KRouting => LIpv6RouteHeader
  | KFragment => LIpv6FragHeader
  | KAuth => LIpAuthHeader
  end.

(* a fault [x] of the header of position k that starts at [off] with [left] bytes left *)
Definition fault_error (off left : N) (k : ext_kind) (x : fault) : hdr_slice_error :=
  match x with
  | FLen rq => HLen (mkLenError rq left (strict_layer k) off)
  | FAuthZeroLen => HIpAuthZeroPayloadLen
  end.

(* Ipv6Extensions::from_slice seen through a walk; [off]: bytes in front of the
   walk, [e0]: struct at the start of the walk *)
Definition strict_from (off : N) (e0 : Exts6) (w : walk) : res hdr_slice_error (Exts6 * N * bytes) :=
  match w_stop w with
  | SNonExt | SRefilled => Ok (struct_from e0 (w_chain w), w_next w, w_rest w)
  | SHopNotAtStart => Err HHopByHopNotAtStart
  | SFault k x => Err (fault_error (off + len (consumed w)) (len (w_rest w)) k x)
  | SFuel => OutOfFuel
  end.

Definition strict_of_walk (w : walk) := strict_from 0 exts6_default w.

(* Ipv6Extensions::from_slice_lax seen through a walk: the struct of the
   headers in front of the stop, the number and bytes at the stop, the fault *)
Definition lax_from (off : N) (e0 : Exts6) (w : walk) : res unit lax_result :=
  let r := (struct_from e0 (w_chain w), w_next w, w_rest w) in
  match w_stop w with
  | SNonExt | SRefilled => Ok (r, None)
  | SHopNotAtStart => Ok (r, Some (HHopByHopNotAtStart, LIpv6HopByHopHeader))
  | SFault k x => Ok (r, Some (fault_error (off + len (consumed w)) (len (w_rest w)) k x, lax_layer k))
  | SFuel => OutOfFuel
  end.

Definition lax_of_walk (w : walk) := lax_from 0 exts6_default w.

(* ---- IPv4 ---- *)
Definition struct4_of_chain (chain : list (ext_kind * bytes)) : Exts4 :=
  match chain with
  | (KAuth, hb) :: _ => mkExts4 (auth_of_bytes hb)
  | _ => mkExts4 None
  end.

Definition fault_error4 (left : N) (x : fault) : auth_slice_error :=
  match x with
  | FLen rq => ALen (mkLenError rq left LIpAuthHeader 0)
  | FAuthZeroLen => AZeroPayloadLen
  end.

Definition strict4_of_walk (w : walk) : res auth_slice_error (Exts4 * N * bytes) :=
  match w_stop w with
  | SFault _ x => Err (fault_error4 (len (w_rest w)) x)
  | SFuel => OutOfFuel
  | _ => Ok (struct4_of_chain (w_chain w), w_next w, w_rest w)
  end.

Definition lax4_of_walk (w : walk) : res unit (Exts4 * N * bytes * option auth_slice_error) :=
  let r := (struct4_of_chain (w_chain w), w_next w, w_rest w) in
  match w_stop w with
  | SFault _ x => Ok (r, Some (fault_error4 (len (w_rest w)) x))
  | SFuel => OutOfFuel
  | _ => Ok (r, None)
  end.

(* ------------------------------------------------------------------ *)
(* decode then write: the bytes a header is re-emitted with.  Reserved fields
   are not kept by the structs: byte 1 and bits 1-2 of byte 3 of a fragment
   header, bytes 2-3 of an authentication header come back as zero. *)
Definition normalise (item : ext_kind * bytes) : bytes :=
  let (k, hb) := item in
  match k, hb with
  | KFragment, b0 :: _ :: b2 :: b3 :: tl => b0 :: 0 :: b2 :: N.land b3 249 :: tl
  | KAuth, b0 :: b1 :: _ :: _ :: tl => b0 :: b1 :: 0 :: 0 :: tl
  | _, _ => hb
  end.

Definition normalised (chain : list (ext_kind * bytes)) : bytes := concat (map normalise chain).
