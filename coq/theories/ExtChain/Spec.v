(* ExtChain/Spec.v -- what RFC 8200 says about IPv6 extension header chains,
   written from the RFC text and the IANA registries, not from the crate.

   RFC 8200 section 4.1 "Extension Header Order":
     "When more than one extension header is used in the same packet, it is
      recommended that those headers appear in the following order:
         IPv6 header
         Hop-by-Hop Options header
         Destination Options header (note 1)
         Routing header
         Fragment header
         Authentication header (note 2)
         Encapsulating Security Payload header (note 2)
         Destination Options header (note 3)
         Upper-Layer header"
     "Each extension header should occur at most once, except for the
      Destination Options header, which should occur at most twice (once
      before a Routing header and once before the Upper-Layer header)."
     "... the Hop-by-Hop Options header ... is restricted to appear
      immediately after an IPv6 header only."
   The crate has no ESP header, so six positions remain.

   A chain is linked through the Next Header fields (section 4): "Each
   extension header is identified by the Next Header value of the preceding
   header"; the first one by the Next Header field of the IPv6 header. *)
From EP Require Import Base.Bytes.

(* the six positions of a chain *)
Inductive ext_kind :=
| KHopByHop | KDestOpts | KRouting | KFragment | KAuth | KFinalDestOpts.

Definition rfc8200_order : list ext_kind :=
  [KHopByHop; KDestOpts; KRouting; KFragment; KAuth; KFinalDestOpts].

(* IANA "Assigned Internet Protocol Numbers" *)
Definition ip_number_of (k : ext_kind) : N :=
  match k with
  | KHopByHop => 0        (* HOPOPT *)
  | KDestOpts => 60       (* IPv6-Opts *)
  | KRouting => 43        (* IPv6-Route *)
  | KFragment => 44       (* IPv6-Frag *)
  | KAuth => 51           (* AH *)
  | KFinalDestOpts => 60  (* IPv6-Opts *)
  end.

(* n is the protocol number of one of the extension headers of the chain model *)
Definition is_ext_number (n : N) : bool :=
  existsb (N.eqb n) (map ip_number_of rfc8200_order).

(* IPv4 only knows the authentication header (RFC 4302) *)
Definition is_ext_number_v4 (n : N) : bool := n =? ip_number_of KAuth.

(* IEEE 802 numbers: ether types of the two IP versions *)
Definition ETHER_TYPE_IPV4 : N := 2048.   (* 0x0800 *)
Definition ETHER_TYPE_IPV6 : N := 34525.  (* 0x86DD *)

(* ------------------------------------------------------------------ *)
(* linking.  A chain is given as the list of its headers in wire order,
   each with its kind and the content of its Next Header field.
   [linked first chain last]: starting from the Next Header value [first] of
   the IP header every header is announced by its predecessor and the last
   header announces [last]. *)
Fixpoint linked (first : N) (chain : list (ext_kind * N)) (last : N) : Prop :=
  match chain with
  | [] => first = last
  | (k, nh) :: rest => first = ip_number_of k /\ linked nh rest last
  end.

(* the headers that are present, in RFC 8200 order.  [get k] is the header at
   position k (anything: its next_header field, its bytes, ...) *)
Definition in_rfc_order {A} (get : ext_kind -> option A) : list (ext_kind * A) :=
  flat_map (fun k => match get k with Some a => [(k, a)] | None => [] end) rfc8200_order.

(* ------------------------------------------------------------------ *)
(* wire formats *)

(* RFC 8200 4.3 / 4.4 / 4.6 (hop-by-hop, routing, destination options):
     Next Header (8 bit) | Hdr Ext Len (8 bit) | data
   "Hdr Ext Len: Length of the ... header in 8-octet units, not including
   the first 8 octets."   [data] is everything behind the first two octets. *)
Definition wire_options_header (next_header : N) (data : bytes) : bytes :=
  next_header :: ((2 + len data) / 8 - 1) :: data.

(* big-endian 32 bit *)
Definition wire_u32 (v : N) : bytes :=
  [v / 16777216; (v / 65536) mod 256; (v / 256) mod 256; v mod 256].

(* RFC 8200 4.5 fragment header:
     Next Header (8) | Reserved (8) | Fragment Offset (13) | Res (2) | M (1) | Identification (32) *)
Definition wire_fragment_header (next_header offset : N) (more : bool) (ident : N) : bytes :=
  let w := offset * 8 + (if more then 1 else 0) in
  [next_header; 0; w / 256; w mod 256] ++ wire_u32 ident.

(* RFC 4302 2. authentication header:
     Next Header (8) | Payload Len (8) | RESERVED (16) | SPI (32) | Sequence Number (32) | ICV
   "Payload Len: the length of AH in 32-bit words (4-byte units), minus 2" *)
Definition wire_auth_header (next_header spi seq : N) (icv : bytes) : bytes :=
  [next_header; (12 + len icv) / 4 - 2; 0; 0] ++ wire_u32 spi ++ wire_u32 seq ++ icv.
