(* ExtChain/Soundness.v -- the walkers of the model (Ipv6Extensions::next_header, ::write and the
   Ipv4Extensions ones) against the chain relation of ChainSpec.v: they follow THE maximal chain
   of the header set from the first number and report its verdict (soundness and completeness of
   Ok, exact characterisation of both errors, bytes written = the headers of the chain in chain
   order).  Lemmas for Props/C12.v. *)
From EP Require Import Base.Bytes ExtChain.Spec ExtChain.Model ExtChain.View ExtChain.Proofs ExtChain.WalkSpec ExtChain.ChainSpec ExtChain.ChainView.
From Coq Require Import ZArith Lia Permutation.
Local Open Scope N_scope.

(* ------------------------------------------------------------------ *)
(* positions *)

Lemma kind_eqb_eq a b : kind_eqb a b = true <-> a = b.
Proof. destruct a, b; cbn; split; intros H; try reflexivity; discriminate. Qed.

Lemma kind_eqb_refl a : kind_eqb a a = true.
Proof. now apply kind_eqb_eq. Qed.

Lemma kind_eqb_neq a b : kind_eqb a b = false <-> a <> b.
Proof.
  split.
  - intros H E. apply kind_eqb_eq in E. congruence.
  - intros H. destruct (kind_eqb a b) eqn:E; [|reflexivity]. apply kind_eqb_eq in E. contradiction.
Qed.

Lemma has_In k l : has k l = true <-> In k l.
Proof.
  unfold has. rewrite existsb_exists. split.
  - intros (x & I & E). apply kind_eqb_eq in E. now subst.
  - intros I. exists k. split; [assumption|apply kind_eqb_refl].
Qed.

Lemma has_not_In k l : has k l = false <-> ~ In k l.
Proof.
  rewrite <- has_In. destruct (has k l); split; intros H; congruence.
Qed.

Lemma has_app k a b : has k (a ++ b) = has k a || has k b.
Proof. apply existsb_app. Qed.

Lemma has_snoc k l k' : has k (l ++ [k']) = has k l || kind_eqb k k'.
Proof. rewrite has_app. cbn. now rewrite orb_false_r. Qed.

(* ------------------------------------------------------------------ *)
(* the slot discipline *)

Lemma slot_order_nil : slot_order [].
Proof. intros f k b E. destruct f; discriminate. Qed.

Lemma slot_order_prefix a b : slot_order (a ++ b) -> slot_order a.
Proof.
  intros S f k bk E. apply (S f k (bk ++ b)). subst a. now rewrite <- app_assoc.
Qed.

Lemma slot_order_snoc ks k : slot_order (ks ++ [k]) <-> slot_order ks /\ may_follow ks k.
Proof.
  split.
  - intros S. split; [eapply slot_order_prefix; eassumption|].
    apply (S ks k []). reflexivity.
  - intros [S M] f k' b E.
    destruct b as [|x b'] using rev_ind.
    + apply app_inj_tail in E. destruct E as [-> ->]. exact M.
    + clear IHb'. rewrite app_comm_cons, app_assoc in E. apply app_inj_tail in E.
      destruct E as [E _]. eapply S; eassumption.
Qed.

Definition may_followb (front : list ext_kind) (k : ext_kind) : bool :=
  match k with
  | KHopByHop => match front with [] => true | _ => false end
  | KDestOpts => negb (has KRouting front)
  | KFinalDestOpts => has KRouting front
  | _ => true
  end.

Lemma may_followb_ok front k : may_followb front k = true <-> may_follow front k.
Proof.
  destruct k; cbn; try tauto.
  - destruct front; split; intros; congruence.
  - rewrite negb_true_iff. apply has_not_In.
  - apply has_In.
Qed.

Fixpoint slot_orderb (front ks : list ext_kind) : bool :=
  match ks with
  | [] => true
  | k :: tl => may_followb front k && slot_orderb (front ++ [k]) tl
  end.

Lemma slot_orderb_ok ks : forall front, slot_orderb front ks = true ->
  forall f k b, ks = f ++ k :: b -> may_follow (front ++ f) k.
Proof.
  induction ks as [|x tl IH]; intros front H f k b E; [destruct f; discriminate|].
  cbn in H. apply andb_true_iff in H. destruct H as [H1 H2].
  destruct f as [|y f'].
  - cbn in E. inversion E; subst. rewrite app_nil_r. now apply may_followb_ok.
  - cbn in E. inversion E; subst.
    specialize (IH _ H2 f' k b eq_refl). now rewrite <- app_assoc in IH.
Qed.

Lemma slot_orderb_sound ks : slot_orderb [] ks = true -> slot_order ks.
Proof. intros H f k b E. exact (slot_orderb_ok ks [] H f k b E). Qed.

Lemma slot_orderb_complete ks : forall front, (forall f k b, ks = f ++ k :: b -> may_follow (front ++ f) k) ->
  slot_orderb front ks = true.
Proof.
  induction ks as [|x tl IH]; intros front H; [reflexivity|].
  cbn. apply andb_true_iff. split.
  - apply may_followb_ok. specialize (H [] x tl eq_refl). now rewrite app_nil_r in H.
  - apply IH. intros f k b E. rewrite <- app_assoc. apply (H (x :: f) k b). cbn. now rewrite E.
Qed.

Lemma slot_orderb_iff ks : slot_orderb [] ks = true <-> slot_order ks.
Proof.
  split; [apply slot_orderb_sound|]. intros S. apply slot_orderb_complete. exact S.
Qed.

(* the headers of any set, taken in RFC 8200 order, obey the slot discipline *)
Lemma slot_order_rfc {A} (get : ext_kind -> option A) :
  (get KFinalDestOpts <> None -> get KRouting <> None) ->
  slot_order (map fst (in_rfc_order get)).
Proof.
  intros HF. apply slot_orderb_sound. unfold in_rfc_order, rfc8200_order. cbn [flat_map].
  destruct (get KHopByHop), (get KDestOpts), (get KRouting), (get KFragment), (get KAuth),
    (get KFinalDestOpts); try reflexivity; exfalso; apply HF; congruence.
Qed.

(* ------------------------------------------------------------------ *)
(* Spec.linked *)

Lemma linked_app first a b n :
  linked first (a ++ b) n <-> exists m, linked first a m /\ linked m b n.
Proof.
  revert first. induction a as [|[k nh] a IH]; intros first; cbn.
  - split; [intros H; exists first; auto|intros (m & -> & H); exact H].
  - rewrite IH. split.
    + intros (E & m & H1 & H2). exists m. auto.
    + intros (m & (E & H1) & H2). split; [assumption|]. exists m. auto.
Qed.

Lemma linked_fun c : forall first n n', linked first c n -> linked first c n' -> n = n'.
Proof.
  induction c as [|[k nh] c IH]; intros first n n'; cbn.
  - congruence.
  - intros [_ H1] [_ H2]. eapply IH; eassumption.
Qed.

(* ------------------------------------------------------------------ *)
(* chains: extension by one header, prefixes, determinism *)

Lemma referenced_nil get first : referenced get first [] first.
Proof.
  repeat split; [constructor|constructor|apply slot_order_nil].
Qed.

Lemma NoDup_snoc {A} (l : list A) a : NoDup (l ++ [a]) <-> NoDup l /\ ~ In a l.
Proof.
  split.
  - intros H. split.
    + apply NoDup_remove_1 in H. now rewrite app_nil_r in H.
    + apply NoDup_remove_2 in H. now rewrite app_nil_r in H.
  - intros [H1 H2]. eapply Permutation_NoDup; [apply Permutation_cons_append|].
    now constructor.
Qed.

Lemma referenced_snoc get first c k nh n :
  referenced get first (c ++ [(k, nh)]) n <->
  exists m, referenced get first c m /\ can_extend get c m k nh /\ n = nh.
Proof.
  unfold referenced, can_extend. rewrite Forall_app, map_app. cbn [map fst].
  rewrite NoDup_snoc, slot_order_snoc, linked_app. split.
  - intros ((F1 & F2) & (N1 & N2) & (S1 & S2) & m & L1 & L2).
    cbn in L2. destruct L2 as [-> ->]. inversion F2 as [|? ? F3 _]; subst. unfold is_header_of in F3; cbn in F3.
    exists (ip_number_of k). repeat split; assumption.
  - intros (m & (F1 & N1 & S1 & L1) & (E & G & N2 & S2) & ->).
    repeat split; try assumption.
    + constructor; [exact G|constructor].
    + exists m. split; [assumption|]. cbn. auto.
Qed.

Lemma NoDup_app_l {A} (a b : list A) : NoDup (a ++ b) -> NoDup a.
Proof.
  induction b as [|x b IH] using rev_ind; [now rewrite app_nil_r|].
  rewrite app_assoc. intros H. apply NoDup_snoc in H. apply IH, H.
Qed.

Lemma referenced_prefix_closed get first a b n :
  referenced get first (a ++ b) n -> exists m, referenced get first a m /\ linked m b n.
Proof.
  unfold referenced. rewrite Forall_app, map_app, linked_app.
  intros ((F1 & _) & N1 & S1 & m & L1 & L2). exists m.
  repeat split; try assumption.
  - eapply NoDup_app_l. eassumption.
  - eapply slot_order_prefix. eassumption.
Qed.

Lemma referenced_next_fun get first c n n' :
  referenced get first c n -> referenced get first c n' -> n = n'.
Proof. intros (_ & _ & _ & L1) (_ & _ & _ & L2). eapply linked_fun; eassumption. Qed.

(* a number announces at most one header that can follow *)
Lemma can_extend_det get c m k nh k' nh' :
  can_extend get c m k nh -> can_extend get c m k' nh' -> k = k' /\ nh = nh'.
Proof.
  intros (E1 & G1 & _ & M1) (E2 & G2 & _ & M2).
  assert (K : k = k').
  { rewrite <- E2 in E1. destruct k, k'; try reflexivity; try discriminate; cbn in M1, M2; contradiction. }
  subst k'. split; [reflexivity|congruence].
Qed.

(* two chains from the same first number over the same set: one is the front of the other *)
Lemma referenced_comparable get first c1 : forall c2 n1 n2,
  referenced get first c1 n1 -> referenced get first c2 n2 ->
  (exists d, c2 = c1 ++ d) \/ (exists d, c1 = c2 ++ d).
Proof.
  induction c1 as [|[k nh] c IH] using rev_ind; intros c2 n1 n2 R1 R2.
  - left. exists c2. reflexivity.
  - apply referenced_snoc in R1. destruct R1 as (m & Rc & X & ->).
    destruct (IH c2 m n2 Rc R2) as [[d E]|[d E]].
    + destruct d as [|[k' nh'] d'].
      * right. exists [(k, nh)]. rewrite app_nil_r in E. now subst.
      * left. exists d'. subst c2.
        assert (R3 : referenced get first ((c ++ [(k', nh')]) ++ d') n2) by (now rewrite <- app_assoc).
        apply referenced_prefix_closed in R3. destruct R3 as (m' & R3 & _).
        apply referenced_snoc in R3. destruct R3 as (m'' & Rc' & X' & _).
        assert (m'' = m) by (eapply referenced_next_fun; eassumption). subst m''.
        destruct (can_extend_det _ _ _ _ _ _ _ X X') as [-> ->].
        now rewrite <- app_assoc.
    + right. exists (d ++ [(k, nh)]). subst c. now rewrite app_assoc.
Qed.

(* the maximal chain from a first number is unique *)
Lemma maximal_front get first c1 n1 c2 n2 d :
  referenced get first c1 n1 -> maximal get c1 n1 -> referenced get first c2 n2 -> c2 = c1 ++ d -> d = [].
Proof.
  intros R1 M1 R2 E. destruct d as [|[k nh] d']; [reflexivity|]. exfalso.
  subst c2. assert (R3 : referenced get first ((c1 ++ [(k, nh)]) ++ d') n2) by (now rewrite <- app_assoc).
  apply referenced_prefix_closed in R3. destruct R3 as (m' & R3 & _).
  apply referenced_snoc in R3. destruct R3 as (m & Rc & X & _).
  assert (m = n1) by (eapply referenced_next_fun; eassumption). subst m.
  exact (M1 k nh X).
Qed.

Theorem maximal_unique get first c1 n1 c2 n2 :
  referenced get first c1 n1 -> maximal get c1 n1 ->
  referenced get first c2 n2 -> maximal get c2 n2 -> c1 = c2 /\ n1 = n2.
Proof.
  intros R1 M1 R2 M2.
  assert (E : c1 = c2).
  { destruct (referenced_comparable get first c1 c2 n1 n2 R1 R2) as [[d E]|[d E]].
    - pose proof (maximal_front _ _ _ _ _ _ _ R1 M1 R2 E). subst d. now rewrite app_nil_r in E.
    - pose proof (maximal_front _ _ _ _ _ _ _ R2 M2 R1 E). subst d. now rewrite app_nil_r in E. }
  subst c2. split; [reflexivity|]. eapply referenced_next_fun; eassumption.
Qed.

(* every chain from `first` is a front part of the maximal one *)
Lemma referenced_in_maximal get first c n cm nm :
  referenced get first c n -> referenced get first cm nm -> maximal get cm nm ->
  exists d, cm = c ++ d.
Proof.
  intros R Rm Mm. destruct (referenced_comparable get first c cm n nm R Rm) as [[d E]|[d E]].
  - exists d. exact E.
  - pose proof (maximal_front _ _ _ _ _ _ _ Rm Mm R E). subst d. exists []. rewrite app_nil_r in *. now symmetry.
Qed.

(* ------------------------------------------------------------------ *)
(* complete chains *)

Lemma in_rfc_order_In {A} (get : ext_kind -> option A) k a :
  In (k, a) (in_rfc_order get) <-> get k = Some a.
Proof.
  unfold in_rfc_order. rewrite in_flat_map. split.
  - intros (x & _ & I). destruct (get x) eqn:G; cbn in I; [|contradiction].
    destruct I as [I|[]]. inversion I; subst. exact G.
  - intros G. exists k. split; [destruct k; cbn; tauto|]. rewrite G. now left.
Qed.

Lemma in_rfc_order_NoDup {A} (get : ext_kind -> option A) : NoDup (map fst (in_rfc_order get)).
Proof.
  unfold in_rfc_order, rfc8200_order. cbn [flat_map].
  destruct (get KHopByHop), (get KDestOpts), (get KRouting), (get KFragment), (get KAuth),
    (get KFinalDestOpts); cbn; repeat constructor; cbn; intuition discriminate.
Qed.

Lemma NoDup_map_fst_inv {A B} (l : list (A * B)) : NoDup (map fst l) -> NoDup l.
Proof. apply NoDup_map_inv. Qed.

Lemma unreferenced_nil get chain :
  unreferenced get chain = [] <-> (forall k a, get k = Some a -> In k (map fst chain)).
Proof.
  unfold unreferenced. split.
  - intros E k a G. apply has_In.
    destruct (has k (map fst chain)) eqn:H; [reflexivity|]. exfalso.
    assert (I : In k (filter (fun k => match get k with Some _ => negb (has k (map fst chain)) | None => false end)
                             rfc8200_order)).
    { apply filter_In. split; [destruct k; cbn; tauto|]. now rewrite G, H. }
    rewrite E in I. exact I.
  - intros H. destruct (filter _ _) as [|k l] eqn:E; [reflexivity|]. exfalso.
    assert (I : In k (k :: l)) by now left. rewrite <- E in I. apply filter_In in I. destruct I as [_ I].
    destruct (get k) as [a|] eqn:G; [|discriminate]. apply negb_true_iff, has_not_In in I.
    apply I. eapply H. eassumption.
Qed.

Lemma complete_chain_iff get first chain n :
  complete_chain get first chain n <-> referenced get first chain n /\ unreferenced get chain = [].
Proof.
  unfold complete_chain, referenced. split.
  - intros (P & S & L). repeat split; try assumption.
    + apply Forall_forall. intros [k a] I. apply (Permutation_in _ P), in_rfc_order_In in I. exact I.
    + eapply Permutation_NoDup; [apply Permutation_map, Permutation_sym, P|]. apply in_rfc_order_NoDup.
    + apply unreferenced_nil. intros k a G. apply in_rfc_order_In in G.
      apply (Permutation_in _ (Permutation_sym P)) in G. apply in_map_iff. exists (k, a). auto.
  - intros ((F & N & S & L) & U). repeat split; try assumption.
    apply NoDup_Permutation.
    + now apply NoDup_map_fst_inv.
    + apply NoDup_map_fst_inv, in_rfc_order_NoDup.
    + intros [k a]. rewrite in_rfc_order_In. split.
      * intros I. rewrite Forall_forall in F. exact (F _ I).
      * intros G. rewrite unreferenced_nil in U. specialize (U k a G).
        apply in_map_iff in U. destruct U as ([k' a'] & E & I). cbn in E. subst k'.
        rewrite Forall_forall in F. pose proof (F _ I) as G'. unfold is_header_of in G'. cbn in G'.
        congruence.
Qed.

Lemma complete_maximal get first chain n :
  complete_chain get first chain n -> maximal get chain n.
Proof.
  intros C. apply complete_chain_iff in C. destruct C as [_ U]. rewrite unreferenced_nil in U.
  intros k nh (_ & G & NI & _). apply NI. eapply U. eassumption.
Qed.

(* ------------------------------------------------------------------ *)
(* the two walkers of the model, one step at a time *)

Definition flag (f : Flags) (k : ext_kind) : bool :=
  match k with
  | KHopByHop => fl_hop_by_hop_options f
  | KDestOpts => fl_destination_options f
  | KRouting => fl_routing f
  | KFragment => fl_fragment f
  | KAuth => fl_auth f
  | KFinalDestOpts => fl_final_destination_options f
  end.

Definition clr (k : ext_kind) (f : Flags) : Flags :=
  match k with
  | KHopByHop => clr_hop f
  | KDestOpts => clr_dst f
  | KRouting => clr_routing f
  | KFragment => clr_frag f
  | KAuth => clr_auth f
  | KFinalDestOpts => clr_final f
  end.

(* the position a number selects inside the loop *)
Definition sel (rr : bool) (next : N) : option ext_kind :=
  match arm_of next with
  | AHop | AOther => None
  | ADest => Some (if rr then KFinalDestOpts else KDestOpts)
  | ARoute => Some KRouting
  | AFrag => Some KFragment
  | AAuth => Some KAuth
  end.

Definition hop_stop (f : Flags) (next : N) : bool :=
  (next =? IPV6_HOP_BY_HOP) && fl_hop_by_hop_options f.

(* what to_bytes gives for the header at a position *)
Definition to_bytes_at (e : Exts6) (k : ext_kind) : option bytes :=
  match k with
  | KHopByHop => match hop_by_hop_options e with Some h => raw_to_bytes h | None => None end
  | KDestOpts => match destination_options e with Some h => raw_to_bytes h | None => None end
  | KRouting => match routing e with Some r => raw_to_bytes (rt_routing r) | None => None end
  | KFragment => match fragment e with Some h => Some (frag_to_bytes h) | None => None end
  | KAuth => match auth e with Some h => auth_to_bytes h | None => None end
  | KFinalDestOpts =>
    match routing e with
    | Some r => match rt_final_destination_options r with Some h => raw_to_bytes h | None => None end
    | None => None
    end
  end.

Lemma nh_loop_unfold fuel e f next rr :
  next_header_loop (S fuel) e f next rr =
  match sel rr next with
  | Some k =>
    if flag f k then
      match get_nh e k with
      | Some nh => next_header_loop fuel e (clr k f) nh (rr || kind_eqb k KRouting)
      | None => Panic
      end
    else check_all_done f next
  | None => if hop_stop f next then Err HopByHopNotAtStart else check_all_done f next
  end.
Proof.
  cbn [next_header_loop]. unfold sel, hop_stop.
  destruct (arm_of_cases next) as [[A Nx]|[[A Nx]|[[A Nx]|[[A Nx]|[[A Nx]|[A Nx]]]]]]; rewrite A.
  - subst next. cbn. reflexivity.
  - destruct rr; cbn.
    + destruct (fl_final_destination_options f); [|reflexivity].
      destruct (routing e) as [r|]; [|reflexivity]. cbn.
      destruct (rt_final_destination_options r); reflexivity.
    + destruct (fl_destination_options f); [|reflexivity].
      destruct (destination_options e); reflexivity.
  - cbn. destruct (fl_routing f); [|reflexivity]. destruct (routing e); cbn; [|reflexivity].
    now rewrite orb_true_r.
  - cbn. destruct (fl_fragment f); [|reflexivity]. destruct (fragment e); cbn; [|reflexivity].
    now rewrite orb_false_r.
  - cbn. destruct (fl_auth f); [|reflexivity]. destruct (auth e); cbn; [|reflexivity].
    now rewrite orb_false_r.
  - assert (E : (next =? IPV6_HOP_BY_HOP) = false).
    { apply is_ext_number_false in Nx. apply Nx. }
    rewrite E. reflexivity.
Qed.

Lemma write_loop_unfold fuel e f next rr w :
  write_loop (S fuel) e f next rr w =
  match sel rr next with
  | Some k =>
    if flag f k then
      match get_nh e k, to_bytes_at e k with
      | Some nh, Some bs => write_loop fuel e (clr k f) nh (rr || kind_eqb k KRouting) (w ++ bs)
      | _, _ => (w, Panic)
      end
    else (w, check_all_done f tt)
  | None => if hop_stop f next then (w, Err HopByHopNotAtStart) else (w, check_all_done f tt)
  end.
Proof.
  cbn [write_loop]. unfold sel, hop_stop.
  destruct (arm_of_cases next) as [[A Nx]|[[A Nx]|[[A Nx]|[[A Nx]|[[A Nx]|[A Nx]]]]]]; rewrite A.
  - subst next. cbn. destruct (fl_hop_by_hop_options f); reflexivity.
  - destruct rr; cbn.
    + destruct (fl_final_destination_options f); [|reflexivity].
      destruct (routing e) as [r|]; [|reflexivity]. cbn.
      destruct (rt_final_destination_options r) as [h|]; [|reflexivity]. cbn.
      destruct (raw_to_bytes h); reflexivity.
    + destruct (fl_destination_options f); [|reflexivity].
      destruct (destination_options e) as [h|]; [|reflexivity]. cbn.
      destruct (raw_to_bytes h); reflexivity.
  - cbn. destruct (fl_routing f); [|reflexivity]. destruct (routing e) as [r|]; cbn; [|reflexivity].
    destruct (raw_to_bytes (rt_routing r)); [|reflexivity]. now rewrite orb_true_r.
  - cbn. destruct (fl_fragment f); [|reflexivity]. destruct (fragment e); cbn; [|reflexivity].
    now rewrite orb_false_r.
  - cbn. destruct (fl_auth f); [|reflexivity]. destruct (auth e) as [h|]; cbn; [|reflexivity].
    destruct (auth_to_bytes h); [|reflexivity]. now rewrite orb_false_r.
  - assert (E : (next =? IPV6_HOP_BY_HOP) = false).
    { apply is_ext_number_false in Nx. apply Nx. }
    rewrite E. reflexivity.
Qed.

(* under the type invariant to_bytes is the RFC wire format *)
Lemma to_bytes_at_wire e k nh : exts6_valid e = true -> get_nh e k = Some nh ->
  to_bytes_at e k = Some (wire_at e k).
Proof.
  intros V G. pose proof (exts6_valid_inv e V) as (Vh & Vd & Vr & Vf & Va).
  unfold wire_at. destruct k; cbn in *.
  - destruct (hop_by_hop_options e) as [h|]; [|discriminate]. cbn in *. now apply raw_wire.
  - destruct (destination_options e) as [h|]; [|discriminate]. cbn in *. now apply raw_wire.
  - destruct (routing e) as [r|]; [|discriminate]. cbn in *.
    apply routing_valid_inv in Vr. apply raw_wire, Vr.
  - destruct (fragment e) as [h|]; [|discriminate]. cbn in *. f_equal. now apply frag_wire.
  - destruct (auth e) as [h|]; [|discriminate]. cbn in *.
    rewrite auth_to_bytes_valid by assumption. f_equal. now apply auth_wire.
  - destruct (routing e) as [r|]; [|discriminate]. cbn in *.
    apply routing_valid_inv in Vr. destruct Vr as [_ Vr].
    destruct (rt_final_destination_options r) as [h|]; [|discriminate]. cbn in *. now apply raw_wire.
Qed.

(* ------------------------------------------------------------------ *)
(* the flags are the headers not yet in the chain *)

Definition tracks (e : Exts6) (seen : list ext_kind) (f : Flags) (rr : bool) : Prop :=
  (forall k, flag f k = is_some (get_nh e k) && negb (has k seen)) /\ rr = has KRouting seen.

Lemma flag_clr k f k0 : flag (clr k f) k0 = if kind_eqb k0 k then false else flag f k0.
Proof. destruct k, k0; reflexivity. Qed.

Lemma kind_eqb_sym a b : kind_eqb a b = kind_eqb b a.
Proof. destruct a, b; reflexivity. Qed.

Lemma tracks_step e seen f rr k :
  tracks e seen f rr -> tracks e (seen ++ [k]) (clr k f) (rr || kind_eqb k KRouting).
Proof.
  intros [T1 T2]. split.
  - intros k0. rewrite flag_clr, has_snoc, T1.
    destruct (kind_eqb k0 k); [now rewrite orb_true_r, andb_false_r|now rewrite orb_false_r].
  - rewrite has_snoc, T2, (kind_eqb_sym k). reflexivity.
Qed.

Lemma tracks_init e : tracks e [] (flags_init e) false.
Proof.
  split; [|reflexivity]. intros k. cbn [has existsb negb]. rewrite andb_true_r.
  destruct k; cbn; rewrite ?is_some_map; try reflexivity;
    destruct (routing e) as [r|]; cbn; rewrite ?is_some_map; reflexivity.
Qed.

Lemma pending_clr k f : flag f k = true -> k <> KHopByHop -> (pending (clr k f) < pending f)%nat.
Proof.
  intros F NH. destruct k; cbn in F; [contradiction| | | | | ].
  - now apply pending_clr_dst.
  - now apply pending_clr_routing.
  - now apply pending_clr_frag.
  - now apply pending_clr_auth.
  - now apply pending_clr_final.
Qed.

(* what the selected position means for the chain *)
Lemma sel_spec e chain f rr next :
  tracks e (map fst chain) f rr ->
  (chain = [] -> next = 0 -> get_nh e KHopByHop = None) ->
  match sel rr next with
  | Some k =>
    k <> KHopByHop /\ (next =? IPV6_HOP_BY_HOP) = false /\
    if flag f k then exists nh, get_nh e k = Some nh /\ can_extend (get_nh e) chain next k nh
    else maximal (get_nh e) chain next
  | None => maximal (get_nh e) chain next
  end.
Proof.
  intros [T1 T2] Gd. unfold sel.
  assert (HI : forall k, has k (map fst chain) = false -> ~ In k (map fst chain)) by (intros k; apply has_not_In).
  assert (HT : forall k, has k (map fst chain) = true -> In k (map fst chain)) by (intros k; apply has_In).
  destruct (arm_of_cases next) as [[A Nx]|[[A Nx]|[[A Nx]|[[A Nx]|[[A Nx]|[A Nx]]]]]]; rewrite A.
  - (* 0 *)
    intros k nh (E & G & NI & M). rewrite Nx in E. destruct k; try discriminate E. cbn in M.
    apply map_eq_nil in M. rewrite (Gd M Nx) in G. discriminate.
  - (* 60 *)
    split; [destruct rr; discriminate|]. split; [now subst next|].
    destruct rr.
    + rewrite T1. destruct (get_nh e KFinalDestOpts) as [nh|] eqn:G; cbn [is_some andb].
      * destruct (has KFinalDestOpts (map fst chain)) eqn:H; cbn [negb].
        -- intros k nh' (E & G' & NI & M). rewrite Nx in E. destruct k; try discriminate E; cbn in M.
           ++ apply M, HT. now symmetry.
           ++ apply NI, HT, H.
        -- exists nh. split; [reflexivity|]. repeat split; auto. cbn. apply HT. now symmetry.
      * intros k nh' (E & G' & NI & M). rewrite Nx in E. destruct k; try discriminate E; cbn in M.
        -- apply M, HT. now symmetry.
        -- congruence.
    + rewrite T1. destruct (get_nh e KDestOpts) as [nh|] eqn:G; cbn [is_some andb].
      * destruct (has KDestOpts (map fst chain)) eqn:H; cbn [negb].
        -- intros k nh' (E & G' & NI & M). rewrite Nx in E. destruct k; try discriminate E; cbn in M.
           ++ apply NI, HT, H.
           ++ apply (HI KRouting); [now symmetry|exact M].
        -- exists nh. split; [reflexivity|]. repeat split; auto. cbn. apply HI. now symmetry.
      * intros k nh' (E & G' & NI & M). rewrite Nx in E. destruct k; try discriminate E; cbn in M.
        -- congruence.
        -- apply (HI KRouting); [now symmetry|exact M].
  - (* 43 *)
    split; [discriminate|]. split; [now subst next|].
    rewrite T1. destruct (get_nh e KRouting) as [nh|] eqn:G; cbn [is_some andb].
    + destruct (has KRouting (map fst chain)) eqn:H; cbn [negb].
      * intros k nh' (E & G' & NI & M). rewrite Nx in E. destruct k; try discriminate E. apply NI, HT, H.
      * exists nh. split; [reflexivity|]. repeat split; auto.
    + intros k nh' (E & G' & NI & M). rewrite Nx in E. destruct k; try discriminate E. congruence.
  - (* 44 *)
    split; [discriminate|]. split; [now subst next|].
    rewrite T1. destruct (get_nh e KFragment) as [nh|] eqn:G; cbn [is_some andb].
    + destruct (has KFragment (map fst chain)) eqn:H; cbn [negb].
      * intros k nh' (E & G' & NI & M). rewrite Nx in E. destruct k; try discriminate E. apply NI, HT, H.
      * exists nh. split; [reflexivity|]. repeat split; auto.
    + intros k nh' (E & G' & NI & M). rewrite Nx in E. destruct k; try discriminate E. congruence.
  - (* 51 *)
    split; [discriminate|]. split; [now subst next|].
    rewrite T1. destruct (get_nh e KAuth) as [nh|] eqn:G; cbn [is_some andb].
    + destruct (has KAuth (map fst chain)) eqn:H; cbn [negb].
      * intros k nh' (E & G' & NI & M). rewrite Nx in E. destruct k; try discriminate E. apply NI, HT, H.
      * exists nh. split; [reflexivity|]. repeat split; auto.
    + intros k nh' (E & G' & NI & M). rewrite Nx in E. destruct k; try discriminate E. congruence.
  - (* no extension number *)
    intros k nh (E & _). apply is_ext_number_false in Nx. destruct Nx as (N0 & N60 & N43 & N44 & N51).
    rewrite <- E in *. destruct k; cbn in *; discriminate.
Qed.

(* the final check reports the first header, in RFC 8200 order, outside the chain *)
Lemma unreferenced_flags e chain f rr : tracks e (map fst chain) f rr ->
  unreferenced (get_nh e) chain = filter (flag f) rfc8200_order.
Proof.
  intros [T1 _]. unfold unreferenced. apply filter_ext. intros k. rewrite T1.
  destruct (get_nh e k); reflexivity.
Qed.

Lemma check_done_verdict {A} e chain f rr next (a : A) :
  tracks e (map fst chain) f rr -> hop_stop f next = false ->
  check_all_done f a =
  match verdict (get_nh e) chain next with
  | VOk _ => Ok a
  | VHopByHopNotAtStart => Err HopByHopNotAtStart
  | VNotReferenced m => Err (ExtNotReferenced m)
  end.
Proof.
  intros T H. unfold verdict. rewrite (unreferenced_flags e chain f rr T).
  unfold hop_stop in H. change (ip_number_of KHopByHop) with IPV6_HOP_BY_HOP.
  destruct f as [[] [] [] [] [] []]; cbn in *; rewrite ?andb_true_r in H; rewrite ?H, ?andb_false_r; reflexivity.
Qed.

Lemma hop_stop_verdict e chain f rr next :
  tracks e (map fst chain) f rr -> hop_stop f next = true ->
  verdict (get_nh e) chain next = VHopByHopNotAtStart.
Proof.
  intros T H. unfold verdict. rewrite (unreferenced_flags e chain f rr T).
  unfold hop_stop in H. apply andb_true_iff in H. destruct H as [H1 H2].
  change (ip_number_of KHopByHop) with IPV6_HOP_BY_HOP. cbn [filter rfc8200_order flag]. rewrite H2, H1. reflexivity.
Qed.

Lemma wire_bytes_cons e k ks : wire_bytes e (k :: ks) = wire_at e k ++ wire_bytes e ks.
Proof. reflexivity. Qed.

(* the loops follow the maximal chain and report its verdict *)
Lemma loop_char fuel : forall e f rr chain next first,
  tracks e (map fst chain) f rr ->
  referenced (get_nh e) first chain next ->
  (chain = [] -> next = 0 -> get_nh e KHopByHop = None) ->
  (pending f < fuel)%nat ->
  exists d next',
    referenced (get_nh e) first (chain ++ d) next' /\ maximal (get_nh e) (chain ++ d) next' /\
    next_header_loop fuel e f next rr = res_of_verdict (verdict (get_nh e) (chain ++ d) next') /\
    (exts6_valid e = true -> forall w,
       write_loop fuel e f next rr w =
       (w ++ wire_bytes e (map fst d), unit_of_verdict (verdict (get_nh e) (chain ++ d) next'))).
Proof.
  induction fuel as [|fuel IH]; intros e f rr chain next first T R Gd P; [lia|].
  pose proof (sel_spec e chain f rr next T Gd) as SP.
  rewrite nh_loop_unfold.
  destruct (sel rr next) as [k|] eqn:SE.
  - destruct SP as (NH & N0 & SP). destruct (flag f k) eqn:Fk.
    + destruct SP as (nh & G & X).
      assert (T' : tracks e (map fst (chain ++ [(k, nh)])) (clr k f) (rr || kind_eqb k KRouting)).
      { rewrite map_app. cbn [map fst]. now apply tracks_step. }
      assert (R' : referenced (get_nh e) first (chain ++ [(k, nh)]) nh).
      { apply referenced_snoc. exists next. auto. }
      assert (Gd' : chain ++ [(k, nh)] = [] -> nh = 0 -> get_nh e KHopByHop = None).
      { intros E. destruct chain; discriminate. }
      assert (P' : (pending (clr k f) < fuel)%nat).
      { pose proof (pending_clr k f Fk NH). lia. }
      destruct (IH e _ _ _ _ first T' R' Gd' P') as (d & next' & R2 & M2 & E2 & W2).
      exists ((k, nh) :: d), next'.
      replace (chain ++ (k, nh) :: d) with ((chain ++ [(k, nh)]) ++ d) by (now rewrite <- app_assoc).
      split; [exact R2|]. split; [exact M2|]. split.
      * rewrite G. exact E2.
      * intros V w. rewrite write_loop_unfold, SE, Fk, G, (to_bytes_at_wire e k nh V G).
        rewrite (W2 V). cbn [map fst]. rewrite wire_bytes_cons, app_assoc. reflexivity.
    + exists [], next. rewrite app_nil_r.
      assert (HS : hop_stop f next = false) by (unfold hop_stop; now rewrite N0).
      split; [exact R|]. split; [exact SP|]. split.
      * rewrite (check_done_verdict e chain f rr next next T HS).
        destruct (verdict (get_nh e) chain next) eqn:Vd; try reflexivity.
        unfold verdict in Vd. destruct (unreferenced (get_nh e) chain); [now inversion Vd|].
        destruct (_ && _); discriminate.
      * intros V w. rewrite write_loop_unfold, SE, Fk, app_nil_r.
        rewrite (check_done_verdict e chain f rr next tt T HS).
        destruct (verdict (get_nh e) chain next); reflexivity.
  - exists [], next. rewrite app_nil_r. destruct (hop_stop f next) eqn:HS.
    + rewrite (hop_stop_verdict e chain f rr next T HS).
      split; [exact R|]. split; [exact SP|]. split; [reflexivity|].
      intros V w. now rewrite write_loop_unfold, SE, HS, app_nil_r.
    + split; [exact R|]. split; [exact SP|]. split.
      * rewrite (check_done_verdict e chain f rr next next T HS).
        destruct (verdict (get_nh e) chain next) eqn:Vd; try reflexivity.
        unfold verdict in Vd. destruct (unreferenced (get_nh e) chain); [now inversion Vd|].
        destruct (_ && _); discriminate.
      * intros V w. rewrite write_loop_unfold, SE, HS, app_nil_r.
        rewrite (check_done_verdict e chain f rr next tt T HS).
        destruct (verdict (get_nh e) chain next); reflexivity.
Qed.

(* ------------------------------------------------------------------ *)
(* Ipv6Extensions::next_header and ::write follow the maximal chain *)

Lemma get_nh_final_routing e : get_nh e KFinalDestOpts <> None -> get_nh e KRouting <> None.
Proof. cbn. destruct (routing e); [discriminate|congruence]. Qed.

Theorem walk_exact e first : exists chain next,
  referenced (get_nh e) first chain next /\ maximal (get_nh e) chain next /\
  next_header e first = res_of_verdict (verdict (get_nh e) chain next) /\
  (exts6_valid e = true ->
   write e first = (wire_bytes e (map fst chain), unit_of_verdict (verdict (get_nh e) chain next))).
Proof.
  assert (P0 : (pending (flags_init e) < LOOP_FUEL)%nat).
  { pose proof (pending_le5 (flags_init e)). unfold LOOP_FUEL. lia. }
  unfold next_header, write.
  destruct (IPV6_HOP_BY_HOP =? first) eqn:E0.
  - destruct (hop_by_hop_options e) as [h|] eqn:Eh.
    + apply N.eqb_eq in E0.
      assert (G : get_nh e KHopByHop = Some (r_next_header h)) by (cbn; now rewrite Eh).
      assert (T : tracks e (map fst [(KHopByHop, r_next_header h)]) (clr_hop (flags_init e)) false).
      { apply (tracks_step e [] (flags_init e) false KHopByHop), tracks_init. }
      assert (R : referenced (get_nh e) first [(KHopByHop, r_next_header h)] (r_next_header h)).
      { apply (referenced_snoc _ _ []). exists first. split; [apply referenced_nil|]. split; [|reflexivity].
        repeat split; auto. }
      destruct (loop_char LOOP_FUEL e _ _ _ _ first T R ltac:(discriminate) P0) as (d & next' & R2 & M2 & E2 & W2).
      exists ([(KHopByHop, r_next_header h)] ++ d), next'.
      split; [exact R2|]. split; [exact M2|]. split; [exact E2|].
      intros V. pose proof (to_bytes_at_wire e KHopByHop _ V G) as TB. cbn [to_bytes_at] in TB. rewrite Eh in TB.
      rewrite TB, (W2 V). reflexivity.
    + assert (Gd : @nil (ext_kind * N) = [] -> first = 0 -> get_nh e KHopByHop = None).
      { intros _ _. cbn. now rewrite Eh. }
      destruct (loop_char LOOP_FUEL e _ _ [] _ first (tracks_init e) (referenced_nil _ first) Gd P0)
        as (d & next' & R2 & M2 & E2 & W2).
      exists d, next'. cbn [app] in *. split; [exact R2|]. split; [exact M2|]. split; [exact E2|].
      intros V. rewrite (W2 V). reflexivity.
  - assert (Gd : @nil (ext_kind * N) = [] -> first = 0 -> get_nh e KHopByHop = None).
    { intros _ F0. subst first. discriminate. }
    destruct (loop_char LOOP_FUEL e _ _ [] _ first (tracks_init e) (referenced_nil _ first) Gd P0)
      as (d & next' & R2 & M2 & E2 & W2).
    exists d, next'. cbn [app] in *. split; [exact R2|]. split; [exact M2|]. split; [exact E2|].
    intros V. rewrite (W2 V). reflexivity.
Qed.

Lemma verdict_ok get chain next n : verdict get chain next = VOk n <-> unreferenced get chain = [] /\ next = n.
Proof.
  unfold verdict. destruct (unreferenced get chain) as [|k l].
  - split; [intros H; inversion H; auto|intros [_ ->]; reflexivity].
  - split; [destruct (_ && _); discriminate|intros [H _]; discriminate].
Qed.

Lemma res_of_verdict_ok v n : res_of_verdict v = Ok n <-> v = VOk n.
Proof. destruct v; cbn; split; intros H; inversion H; reflexivity. Qed.

Lemma unit_of_verdict_ok v : unit_of_verdict v = Ok tt <-> exists n, v = VOk n.
Proof. destruct v; cbn; split; intros H; try discriminate; eauto; destruct H; discriminate. Qed.

(* the answer of next_header is the verdict of THE maximal chain *)
Theorem walk_verdict_iff e first r :
  next_header e first = r <->
  exists chain next, referenced (get_nh e) first chain next /\ maximal (get_nh e) chain next /\
                     r = res_of_verdict (verdict (get_nh e) chain next).
Proof.
  destruct (walk_exact e first) as (c & nx & R & M & E & _). split.
  - intros <-. exists c, nx. auto.
  - intros (c' & nx' & R' & M' & ->).
    destruct (maximal_unique _ _ _ _ _ _ R M R' M') as [-> ->]. exact E.
Qed.

(* soundness and completeness of a successful walk *)
Theorem walk_ok_iff_chain e first n :
  next_header e first = Ok n <-> exists chain, complete_chain (get_nh e) first chain n.
Proof.
  rewrite walk_verdict_iff. split.
  - intros (c & nx & R & M & E). symmetry in E. apply res_of_verdict_ok, verdict_ok in E.
    destruct E as [U ->]. exists c. apply complete_chain_iff. auto.
  - intros (c & C). pose proof (complete_maximal _ _ _ _ C) as M.
    apply complete_chain_iff in C. destruct C as [R U].
    exists c, n. split; [exact R|]. split; [exact M|].
    symmetry. apply res_of_verdict_ok, verdict_ok. auto.
Qed.

Theorem write_ok_iff_chain e first bs : exts6_valid e = true ->
  (write e first = (bs, Ok tt) <->
   exists chain n, complete_chain (get_nh e) first chain n /\ next_header e first = Ok n /\
                   bs = wire_bytes e (map fst chain)).
Proof.
  intros V. destruct (walk_exact e first) as (c & nx & R & M & E & W). specialize (W V). split.
  - rewrite W. intros H. inversion H as [[H1 H2]]. apply unit_of_verdict_ok in H2. destruct H2 as [n Vn].
    exists c, n. rewrite E, Vn. apply verdict_ok in Vn. destruct Vn as [U ->].
    split; [apply complete_chain_iff; auto|]. split; reflexivity.
  - intros (c' & n & C & _ & ->). pose proof (complete_maximal _ _ _ _ C) as M'.
    apply complete_chain_iff in C. destruct C as [R' U].
    destruct (maximal_unique _ _ _ _ _ _ R M R' M') as [-> ->].
    rewrite W. f_equal. apply unit_of_verdict_ok. exists n. apply verdict_ok. auto.
Qed.

(* a failing walk: the error is determined by the maximal chain *)

Theorem walk_err_iff_chain e first x :
  next_header e first = Err x <->
  exists chain next k rest,
    referenced (get_nh e) first chain next /\ maximal (get_nh e) chain next /\
    unreferenced (get_nh e) chain = k :: rest /\ x = error_of next k.
Proof.
  rewrite walk_verdict_iff. unfold verdict, error_of. split.
  - intros (c & nx & R & M & E). exists c, nx.
    destruct (unreferenced (get_nh e) c) as [|k rest]; [discriminate|].
    exists k, rest. split; [exact R|]. split; [exact M|]. split; [reflexivity|].
    destruct (_ && _); cbn in E; now inversion E.
  - intros (c & nx & k & rest & R & M & U & ->). exists c, nx. split; [exact R|]. split; [exact M|].
    rewrite U. destruct (_ && _); reflexivity.
Qed.

Lemma unreferenced_In get chain k : In k (unreferenced get chain) <->
  (exists a, get k = Some a) /\ ~ In k (map fst chain).
Proof.
  unfold unreferenced. rewrite filter_In. split.
  - intros [_ H]. destruct (get k) as [a|]; [|discriminate]. apply negb_true_iff, has_not_In in H. eauto.
  - intros [[a G] NI]. split; [destruct k; cbn; tauto|]. rewrite G. now apply negb_true_iff, has_not_In.
Qed.

(* the header an error names is present and NO chain from `first` leads to it *)
Theorem walk_err_unreferenced e first x : next_header e first = Err x ->
  match x with
  | ExtNotReferenced m =>
    exists k, ip_number_of k = m /\ is_some (get_nh e k) = true /\
              forall chain next, referenced (get_nh e) first chain next -> ~ In k (map fst chain)
  | HopByHopNotAtStart =>
    is_some (get_nh e KHopByHop) = true /\
    (forall chain next, referenced (get_nh e) first chain next -> ~ In KHopByHop (map fst chain)) /\
    exists chain, chain <> [] /\ referenced (get_nh e) first chain (ip_number_of KHopByHop)
  end.
Proof.
  intros H. apply walk_err_iff_chain in H. destruct H as (c & nx & k & rest & R & M & U & ->).
  assert (I : In k (unreferenced (get_nh e) c)) by (rewrite U; now left).
  apply unreferenced_In in I. destruct I as [[a G] NI].
  assert (NR : forall chain next, referenced (get_nh e) first chain next -> ~ In k (map fst chain)).
  { intros c' n' R' I. destruct (referenced_in_maximal _ _ _ _ _ _ R' R M) as [d ->].
    apply NI. rewrite map_app. apply in_or_app. now left. }
  unfold error_of. destruct (nx =? ip_number_of KHopByHop) eqn:E0; cbn [andb].
  - destruct (kind_eqb k KHopByHop) eqn:EK.
    + apply kind_eqb_eq in EK. subst k. split; [now rewrite G|]. split; [exact NR|].
      apply N.eqb_eq in E0. subst nx. exists c. split; [|exact R].
      intros ->. apply (M KHopByHop a). repeat split; auto.
    + exists k. split; [reflexivity|]. split; [now rewrite G|exact NR].
  - exists k. split; [reflexivity|]. split; [now rewrite G|exact NR].
Qed.

(* chains in the (recommended) RFC 8200 order are accepted ... *)
Theorem rfc_order_walks e first n :
  linked first (in_rfc_order (get_nh e)) n -> next_header e first = Ok n.
Proof.
  intros L. apply walk_ok_iff_chain. exists (in_rfc_order (get_nh e)).
  split; [apply Permutation_refl|]. split; [|exact L].
  apply slot_order_rfc, get_nh_final_routing.
Qed.

(* ------------------------------------------------------------------ *)
(* Ipv4Extensions *)

Theorem walk4_exact e first : exists chain next,
  referenced (get_nh4 e) first chain next /\ maximal (get_nh4 e) chain next /\
  next_header4 e first = res_of_verdict (verdict (get_nh4 e) chain next) /\
  (exts4_valid e = true ->
   write4 e first = (wire_bytes4 e (map fst chain), unit_of_verdict (verdict (get_nh4 e) chain next))).
Proof.
  destruct e as [[a|]]; unfold next_header4, write4; cbn [auth4].
  - rewrite (N.eqb_sym AUTH first). destruct (first =? AUTH) eqn:E.
    + apply N.eqb_eq in E. exists [(KAuth, a_next_header a)], (a_next_header a).
      split.
      { apply (referenced_snoc _ _ []). exists first. split; [apply referenced_nil|]. split; [|reflexivity].
        repeat split; auto. }
      split.
      { intros k nh (_ & G & NI & _). destruct k; try discriminate G. apply NI. now left. }
      split; [reflexivity|].
      intros V. cbn in V. rewrite auth_to_bytes_valid, auth_wire by assumption.
      unfold wire_bytes4. cbn [map fst concat get_wire4 option_map auth4]. rewrite app_nil_r. reflexivity.
    + exists [], first. split; [apply referenced_nil|]. split.
      { intros k nh (E1 & G & _). destruct k; try discriminate G. cbn in E1. subst first. discriminate. }
      unfold verdict. cbn. rewrite andb_false_r. split; reflexivity.
  - exists [], first. split; [apply referenced_nil|]. split.
    { intros k nh (_ & G & _). destruct k; discriminate G. }
    split; reflexivity.
Qed.

Theorem walk4_verdict_iff e first r :
  next_header4 e first = r <->
  exists chain next, referenced (get_nh4 e) first chain next /\ maximal (get_nh4 e) chain next /\
                     r = res_of_verdict (verdict (get_nh4 e) chain next).
Proof.
  destruct (walk4_exact e first) as (c & nx & R & M & E & _). split.
  - intros <-. exists c, nx. auto.
  - intros (c' & nx' & R' & M' & ->).
    destruct (maximal_unique _ _ _ _ _ _ R M R' M') as [-> ->]. exact E.
Qed.

Theorem walk4_ok_iff_chain e first n :
  next_header4 e first = Ok n <-> exists chain, complete_chain (get_nh4 e) first chain n.
Proof.
  rewrite walk4_verdict_iff. split.
  - intros (c & nx & R & M & E). symmetry in E. apply res_of_verdict_ok, verdict_ok in E.
    destruct E as [U ->]. exists c. apply complete_chain_iff. auto.
  - intros (c & C). pose proof (complete_maximal _ _ _ _ C) as M.
    apply complete_chain_iff in C. destruct C as [R U].
    exists c, n. split; [exact R|]. split; [exact M|].
    symmetry. apply res_of_verdict_ok, verdict_ok. auto.
Qed.

Theorem write4_ok_iff_chain e first bs : exts4_valid e = true ->
  (write4 e first = (bs, Ok tt) <->
   exists chain n, complete_chain (get_nh4 e) first chain n /\ next_header4 e first = Ok n /\
                   bs = wire_bytes4 e (map fst chain)).
Proof.
  intros V. destruct (walk4_exact e first) as (c & nx & R & M & E & W). specialize (W V). split.
  - rewrite W. intros H. inversion H as [[H1 H2]]. apply unit_of_verdict_ok in H2. destruct H2 as [n Vn].
    exists c, n. rewrite E, Vn. apply verdict_ok in Vn. destruct Vn as [U ->].
    split; [apply complete_chain_iff; auto|]. split; reflexivity.
  - intros (c' & n & C & _ & ->). pose proof (complete_maximal _ _ _ _ C) as M'.
    apply complete_chain_iff in C. destruct C as [R' U].
    destruct (maximal_unique _ _ _ _ _ _ R M R' M') as [-> ->].
    rewrite W. f_equal. apply unit_of_verdict_ok. exists n. apply verdict_ok. auto.
Qed.

(* the only error: an authentication header that the protocol field does not announce *)
Theorem walk4_err_iff e first x :
  next_header4 e first = Err x <->
  x = ExtNotReferenced (ip_number_of KAuth) /\ is_some (auth4 e) = true /\ first <> ip_number_of KAuth.
Proof.
  unfold next_header4. destruct (auth4 e) as [a|]; cbn [is_some].
  - change (ip_number_of KAuth) with AUTH. destruct (first =? AUTH) eqn:E.
    + apply N.eqb_eq in E. split; [discriminate|]. intros (_ & _ & H). contradiction.
    + apply N.eqb_neq in E. split; [intros H; inversion H; auto|intros (-> & _); reflexivity].
  - split; [discriminate|]. intros (_ & H & _). discriminate.
Qed.
